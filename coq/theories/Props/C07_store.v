(* C07 (streaming reader independent of chunking / buffer), buffer.rs at STORAGE level (wave 5, w_buf).
   Statements only; model coq/theories/BufStore.v, proofs proofs/BufStoreProofs.v.
   Closes audit/C07.md "a storage-level model of BufferWindow (copy_within, stale bytes) with a
   refinement theorem": the window-level model BufWin.v (on which every C07 theorem about the reader
   rests) is what the storage-level model implements, whatever bytes the buffer held before --
   fresh, dirty, recycled from a previous reader via into_parts, scribbled on by the Read.
     abs_of st    := mkbw (buf.len()) (window st) (consumed_data) (prior_reads)     : BufWin.bufwin
     absst_of st  := abs_of st + the consumed bytes `get` can still reach behind the window
   Tied to the code by kinds bs.ops / bs.abs / bs.rec on the real BufferWindow (props/bufstore.py). *)
From JV Require Import Bytes BufWin BufStore.
From JV.proofs Require Import BufWinProofs BufStoreProofs.
Open Scope nat_scope.

(* --- abs_of commutes with every operation of BufWin.v --- *)
Theorem C07_store_constructors_refine : forall buf n d,
  abs_of (bs_build buf) = bw_new (length buf) /\ abs_of (bs_new n) = bw_new n /\
  abs_of (bs_from_slice d) = bw_from_slice d.
Proof. intros. split; [apply abs_of_build|split; [apply abs_of_new|apply abs_of_from_slice]]. Qed.
Print Assumptions C07_store_constructors_refine.

Theorem C07_store_advance_refines : forall st amt,
  bs_inv st -> omap abs_of (bs_advance st amt) = bw_advance (abs_of st) amt.
Proof. exact bs_advance_refines. Qed.
Print Assumptions C07_store_advance_refines.

Theorem C07_store_advance_to_is_advance : forall st p st',
  bs_advance_to st p = Ok st' -> bs_advance st (p - s_start st) = Ok st'.
Proof. exact bs_advance_to_is_advance. Qed.
Print Assumptions C07_store_advance_to_is_advance.

Theorem C07_store_position_refines : forall st,
  bs_position st = bw_position (abs_of st) /\ (bs_inv st -> bs_window_len st = Ok (bw_window_len (abs_of st))).
Proof. intros st. split; [apply bs_position_abs|apply bs_window_len_abs]. Qed.
Print Assumptions C07_store_position_refines.

(* fill_buf, carry-over copy included: for ANY contents of the buffer, ANY schedule, ANY scribbling *)
Theorem C07_store_fill_buf_refines : forall st r scr,
  bs_inv st ->
  match bs_fill_buf st r scr with
  | SFillOk n st' r' =>
      bw_fill_buf (abs_of st) r = FillOk n (abs_of st') r' /\ bs_inv st' /\
      length (s_buf st') = length (s_buf st) /\ s_owned st' = s_owned st /\
      (if fill_early st then st' = st /\ r' = r else s_start st' = 0)
  | SFillIo st' r' =>
      bw_fill_buf (abs_of st) r = FillIo (abs_of st') r' /\ bs_inv st' /\
      length (s_buf st') = length (s_buf st) /\ s_owned st' = s_owned st /\
      fill_early st = false /\ s_start st' = 0
  | SFillFull st' r' =>
      bw_fill_buf (abs_of st) r = FillFull (abs_of st') r' /\ st' = st /\ fill_early st = true /\ r' = r
  | SFillCrash _ => False
  end.
Proof. exact bs_fill_buf_refines. Qed.
Print Assumptions C07_store_fill_buf_refines.

(* a Read that answers Ok(0) although data is left and room is free (allowed by std::io::Read, not
   expressible as a BufWin schedule): the window is repositioned, nothing is lost, nothing stale shows *)
Theorem C07_store_fill_zero_spec : forall st r scr,
  bs_inv st ->
  match bs_fill_zero st r scr with
  | SFillOk n st' r' =>
      n = 0 /\ r' = r /\ bs_inv st' /\ length (s_buf st') = length (s_buf st) /\ s_owned st' = s_owned st /\
      (if fill_early st then st' = st /\ bs_buf_len st = 0
       else s_start st' = 0 /\ abs_of st' = mkbw (bs_buf_len st) (window st) 0 (s_prior st + s_start st))
  | SFillFull st' r' => st' = st /\ r' = r /\ fill_early st = true /\ bs_buf_len st <> 0
  | SFillIo _ _ | SFillCrash _ => False
  end.
Proof. exact bs_fill_zero_spec. Qed.
Print Assumptions C07_store_fill_zero_spec.

Theorem C07_store_get_refines : forall st i j,
  bs_inv st -> bs_get st i j = abs_get (absst_of st) i j.
Proof. exact bs_get_refines. Qed.
Print Assumptions C07_store_get_refines.

(* the text reader's idiom: advance_to(ptr) then get(start_ptr..ptr) = the bytes just passed *)
Theorem C07_store_get_after_advance : forall st amt st',
  bs_inv st -> bs_advance st amt = Ok st' ->
  bs_get st' (s_start st) (s_start st + amt) = Ok (firstn amt (window st)).
Proof. exact bs_get_after_advance. Qed.
Print Assumptions C07_store_get_after_advance.

(* --- whole op lists / arbitrary clients --- *)
Theorem C07_store_run_refines : forall buf r ops,
  bs_run (bs_build buf) r ops = abs_run (abs_build (length buf)) r ops.
Proof. exact bs_run_refines. Qed.
Print Assumptions C07_store_run_refines.

Theorem C07_store_run_refines_slice : forall d r ops,
  bs_run (bs_from_slice d) r ops = abs_run (abs_from_slice d) r ops.
Proof. exact bs_run_refines_slice. Qed.
Print Assumptions C07_store_run_refines_slice.

Theorem C07_store_buffer_contents_unobservable : forall buf1 buf2 r ops,
  length buf1 = length buf2 -> bs_run (bs_build buf1) r ops = bs_run (bs_build buf2) r ops.
Proof. exact bs_run_buffer_independent. Qed.
Print Assumptions C07_store_buffer_contents_unobservable.

Theorem C07_store_recycled_buffer : forall buf0 r1 ops1 r2 ops2,
  bs_run (bs_build (s_buf (bs_final (bs_build buf0) r1 ops1))) r2 ops2
  = bs_run (bs_new (length buf0)) r2 ops2.
Proof. exact bs_run_recycled. Qed.
Print Assumptions C07_store_recycled_buffer.

Theorem C07_store_any_client_refines : forall fuel c buf r,
  bs_drive fuel c (bs_build buf) r [] = abs_drive fuel c (abs_build (length buf)) r [].
Proof. exact bs_drive_refines. Qed.
Print Assumptions C07_store_any_client_refines.

(* --- the stream law, at storage level --- *)
Theorem C07_store_run_stream_law : forall buf input sched ops,
  Forall (fun ob => is_crash_obs ob = false -> obs_on_stream input ob)
         (bs_run (bs_build buf) (mkrd input sched 0 0) ops).
Proof. exact bs_run_stream_law. Qed.
Print Assumptions C07_store_run_stream_law.

Theorem C07_store_get_stream_law : forall input st r i j bs,
  bs_inv st -> bs_stream2 input st r -> bs_get st i j = Ok bs -> bs = segment input (s_prior st + i) (j - i).
Proof. exact bs_get_stream_law. Qed.
Print Assumptions C07_store_get_stream_law.

Theorem C07_store_step_keeps_stream : forall input st r o,
  bs_inv st -> bs_stream2 input st r ->
  bs_stream2 input (step_st (bs_step st r o)) (snd (bs_step st r o)).
Proof. exact bs_step_keeps_stream. Qed.
Print Assumptions C07_store_step_keeps_stream.

(* non-vacuity + the theorem is not trivial: the two buffers below end up with DIFFERENT storage
   (stale 125s survive behind the window) and yet show the same thing *)
Example C07_store_stale_bytes_exist :
  let r := mkrd [1; 2; 3; 4; 5]%N [Data 3; Data 1] 0 0 in
  let ops := [OFill None; OAdv 2; OFill None; OGet 0 2] in
  s_buf (bs_final (bs_build [125; 125; 125; 125; 125; 125]%N) r ops) = [3; 4; 125; 125; 125; 125]%N /\
  s_buf (bs_final (bs_build [0; 0; 0; 0; 0; 0]%N) r ops) = [3; 4; 0; 0; 0; 0]%N /\
  bs_run (bs_build [125; 125; 125; 125; 125; 125]%N) r ops =
    [mkobs (EFill 3) [1; 2; 3]%N 0 0; mkobs (EAdv 2) [3]%N 2 2; mkobs (EFill 1) [3; 4]%N 2 0; mkobs (EGet [3; 4]%N) [3; 4]%N 2 0].
Proof. vm_compute. auto. Qed.

Example C07_store_stream2_satisfiable : forall buf input sched, bs_stream2 input (bs_build buf) (mkrd input sched 0 0).
Proof. exact stream2_build. Qed.
