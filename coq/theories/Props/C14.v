(* C14 — Writing a parsed tape and re-parsing reproduces the same structure; writing is idempotent.
   Statements only.  Re-parse equality and the fixed point need the parser model (C01); they are
   evaluated by oracles on the implementation (props/C14.py).  Proved here over the model of
   write_tape that the correspondence check runs (Writer.v): *)
From JV Require Import Bytes Tables TextTok Date Writer.
From JV.proofs Require Import WriterTapeProofs.
Open Scope N_scope.

(* "under any indent configuration": for EVERY indent char and factor (any u8, any depth -- the
   16-byte precomputed buffer boundary is inside the quantifier) the cached path and the slow path
   write the same bytes: depth * factor copies of the indent char. *)
Theorem C14_indent_any_config : forall c w,
  write_indent c w = repeat (indent_char c) (length (w_depth w) * N.to_nat (indent_factor c)).
Proof. exact write_indent_spec. Qed.
Print Assumptions C14_indent_any_config.

(* For EVERY tape (well formed or not), configuration and fuel: write_tape never returns an error
   and, when it completes, it has closed exactly the containers it opened (depth() = 0): nesting of
   the output is balanced.  (Crash outcomes are only possible on tapes the DOM readers would index
   out of bounds / hit unreachable!() on; C06 shows the parser does not produce those.) *)
Theorem C14_write_tape_balanced : forall fuel c t,
  match write_tape fuel c t with
  | WOk w' _ => length (w_depth w') = 0%nat
  | WErr _ _ _ => False
  | WCrash _ _ => True
  end.
Proof. exact write_tape_balanced. Qed.
Print Assumptions C14_write_tape_balanced.

(* the same for every sub-traversal from any writer state: depth is restored *)
Theorem C14_traversal_restores_depth : forall fuel c t j w,
  match wt fuel c t j w with
  | WOk w' _ => length (w_depth w') = length (w_depth w)
  | WErr _ _ _ => False
  | WCrash _ _ => True
  end.
Proof. exact wt_balanced. Qed.
Print Assumptions C14_traversal_restores_depth.

(* the transitions write_tape can take (it never calls write_start, so FirstUnknown / SecondUnknown
   are out of its reach) are these, read from the table regenerated from writer.rs; and the lookup
   can never panic whatever the table holds *)
Theorem C14_tape_transitions : forall s,
  (tape_state s = true -> ws_next s = Ok (ws_next_spec s)) /\ exists s', ws_next s = Ok s'.
Proof. intros s. split; [apply ws_next_tape_table | apply ws_next_total]. Qed.
Print Assumptions C14_tape_transitions.

(* non-vacuity: a concrete tape (a={b=c}) is written completely, ends at depth 0, as "a={\n  b=c\n}" *)
Example C14_nonvacuous :
  write_tape 50 (mkcfg 32 2 false) [TUnquoted [97]; TObject 4 false; TUnquoted [98]; TUnquoted [99]; TEnd 1]
  = WOk (mkwr DObject [] WKey true MDisabled) [97; 61; 123; 10; 32; 32; 98; 61; 99; 10; 125].
Proof. vm_compute. reflexivity. Qed.
