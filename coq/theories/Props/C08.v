(* C08 -- Streaming binary reader equals the slice lexer; token encoding round-trips.
   Statements only; every proof is [exact lemma].
   Models: BinPrim (read_* / read_token / write_token), BinLexer (Lexer cursor, run_lexer, fits),
   BinReader (TokenReader over BufWin: next/refill_next, run_stream). *)
From JV Require Import Bytes Tables BinPrim BufWin BinLexer BinReader.
From JV.proofs Require Import BinLexProofs BinRoundProofs BinStreamProofs BinSkipProofs.
Open Scope nat_scope.

(* wf_tok (BinRoundProofs): BId x only with is_id x and x < 2^16; string length < 2^16; integers in
   the range of their width; F32/F64 payloads of 4/8 bytes; rgb channels < 2^32. *)

(* writing one well-formed token and lexing it gives it back, whatever follows *)
Theorem C08_read_write_token : forall t rest, wf_tok t -> read_token (write_token t ++ rest) = Ok (t, rest).
Proof. exact read_write_token. Qed.
Print Assumptions C08_read_write_token.

(* writing a sequence and running the slice lexer over it: the same sequence, a clean end, every byte consumed *)
Theorem C08_roundtrip : forall ts, Forall wf_tok ts ->
  run_lexer (concat (map write_token ts)) = (ts, (Ok tt, length (concat (map write_token ts)))).
Proof. exact roundtrip_run. Qed.
Print Assumptions C08_roundtrip.

Theorem C08_roundtrip_tokens : forall ts, Forall wf_tok ts -> lex_all (concat (map write_token ts)) = Some ts.
Proof. exact roundtrip. Qed.
Print Assumptions C08_roundtrip_tokens.

(* the guards of wf_tok are necessary (definitional, not findings): Id(OPEN) *is* Open; `len as u16` *)
Theorem C08_roundtrip_refuted_reserved_id : exists t rest, read_token (write_token t ++ rest) <> Ok (t, rest).
Proof. exact roundtrip_refuted_reserved_id. Qed.
Theorem C08_roundtrip_refuted_long_string : forall s rest,
  lenN s = 65536%N -> read_token (write_token (BQuoted s) ++ rest) = Ok (BQuoted [], s ++ rest).
Proof. exact roundtrip_refuted_long_string. Qed.

(* more input never changes a token that was already decodable, nor an InvalidRgb verdict *)
Theorem C08_prefix_stable : forall w t r x, read_token w = Ok (t, r) -> read_token (w ++ x) = Ok (t, r ++ x).
Proof. exact prefix_stable. Qed.
Print Assumptions C08_prefix_stable.

Theorem C08_prefix_stable_invalid_rgb : forall w x,
  read_token w = Err E_InvalidRgb -> read_token (w ++ x) = Err E_InvalidRgb.
Proof. exact prefix_stable_invalid_rgb. Qed.

(* read_token never crashes and has exactly three kinds of answers; a token consumes >= 2 bytes and
   the bytes it consumed lex, on their own, to that token *)
Theorem C08_read_token_total : forall d,
  (exists t r, read_token d = Ok (t, r)) \/ read_token d = Err E_LexEof \/ read_token d = Err E_InvalidRgb.
Proof. exact read_token_total. Qed.
Theorem C08_read_token_consumed : forall d t r,
  read_token d = Ok (t, r) -> exists c, d = c ++ r /\ read_token c = Ok (t, []).
Proof. exact read_token_consumed. Qed.

(* primitives agree with read_token: the token is determined by read_id followed by the matching read_* *)
Theorem C08_primitives_agree : forall d t r,
  read_token d = Ok (t, r) -> exists id d1, read_id d = Ok (id, d1) /\ tok_shape t id d1 r.
Proof. exact read_token_inv. Qed.
Print Assumptions C08_primitives_agree.

(* one next() of the streaming reader = one next_token() of the slice lexer on the pending data:
   same result (token / None / error class) and the states stay related (pending data, position),
   for any state of the window, any fault-free rest of the schedule *)
Theorem C08_next_eq_lexer : forall s l c,
  st_ok s (lx_data l) (lx_position l) c -> length (lx_data l) <= lx_orig l -> tok_fits c (lx_data l) = true ->
  exists s', rdr_next s = (fst (lx_next_token l), s') /\
             st_ok s' (lx_data (snd (lx_next_token l))) (lx_position (snd (lx_next_token l))) c.
Proof. exact next_eq_lexer. Qed.
Print Assumptions C08_next_eq_lexer.

(* the whole stream: same tokens, same way of ending (clean end / error class), same final position,
   for every input, every fault-free schedule (any list of read sizes, incl. 1-byte reads; an
   exhausted list continues with maximal reads) and every capacity that fits the input *)
Theorem C08_stream_eq_lexer : forall input sched cap,
  no_fail sched = true -> fits cap input = true -> run_stream cap sched input = run_lexer input.
Proof. exact stream_eq_lexer. Qed.
Print Assumptions C08_stream_eq_lexer.

(* what [fits] means: it is implied by a buffer larger than the whole input, and it implies that the
   buffer holds the largest token the slice lexer reads (max_token) *)
Theorem C08_fits_whole_input : forall cap input, length input < cap -> fits cap input = true.
Proof. exact fits_whole. Qed.
Theorem C08_fits_holds_max_token : forall cap input, fits cap input = true -> max_token input <= cap.
Proof. intros cap input. exact (fits_max_token _ cap input). Qed.

(* non-vacuity: a well-formed token list; an input with an rgb block and a string that fits a 24-byte buffer
   under a schedule with 1-byte reads, and does not fit a 23-byte one *)
Example C08_nonvacuous_wf : Forall wf_tok [BId 10285%N; BEqual; BOpen; BQuoted [97%N]; BI32 (-1)%Z; BClose].
Proof. repeat constructor; cbn; try lia; reflexivity. Qed.
Example C08_nonvacuous_fits :
  let input := concat (map write_token [BId 10285%N; BEqual; BRgb (mkrgb 1 2 3 None); BQuoted [97%N; 98%N]]) in
  fits 24 input = true /\ fits 23 input = false /\ no_fail [Data 1; Data 1; Data 3; Data 1] = true /\
  run_stream 24 [Data 1; Data 1; Data 3; Data 1] input = run_lexer input.
Proof. vm_compute. repeat split. Qed.
