(* C08 -- placeholder, statements follow *)
From JV Require Import Bytes Tables BinPrim BufWin BinLexer BinReader.
