(* C02 -- wave 4 (a_c02): the STREAM path beyond the core grammar, and the two specifications tied together
   (complements Props/C02_walk.v and Props/C02_walk2.v, whose theorems are kept).  Statements only.

   PART 3 of Props/C02_walk2.v ("the stream path beyond the core grammar: NOT DONE") is done here:
     * C02_stream_path_ext_partial: for EVERY document the token reader can express (TextDeSpec2.sx_fields: objects
       with or without tails, arrays, key-value arrays, headers with their containers; no parameter blocks -- the
       reader has no parameter syntax) and every shape on which the common specification spec_value2 false fits,
       the stream walk over the document's reader tokens returns spec_value2 false, with the DEFAULT fuel of the
       extracted function.  New with respect to the core theorem: a header read as String / bool / number / enum /
       ignored (possibly under Option / Property) -- the value deserializer reads the header's NAME and the key
       loop TextReaderMap::next_key_seed skips the header's container as a ghost object through skip_container --,
       `{}` where a map or struct is asked for (the empty map / the struct of defaults), and object tails,
       key-value arrays, headers and whole containers where they are ignored (unknown key, IgnoredAny).
     * C02_paths_agree_outside_headers_partial: hence from_*_slice / from_*_tape / ObjectReader::deserialize and
       from_*_reader return the SAME value on all of that (tape half: C02_tape_path_ext_partial at tp = false).
     * C02_reader_path_ext_bytes_partial / C02_paths_agree_ext_bytes_partial: the same from the BYTES of any
       rendering (every layout), under every read schedule without I/O failure and every buffer capacity >= need
       (C07), for well-formed documents without parameter blocks whose bare words do not start with '?'
       (TextDeBytes.plain_fields; necessity: C02_walk2.C02_qmark_word_lexers_differ).
     * C02_spec2_extends_spec_partial: wherever TextDeSpec.spec_value fits, TextDeSpec2.spec_value2 (either flag)
       says the same: the theorems over spec_value2 subsume those over spec_value; C02_fits_implies_fits2.
   `_partial`, what is still NOT proved: where spec_value2 false answers UNFIT the paths are NOT claimed equal and
   in general differ (witnesses C02_known_H_stream_header, C02_paths_differ_on_tail, C02_paths_differ_header_any):
   a header captured as a sequence / tuple / any / map / struct, the tail of an object captured through
   "remainder", a non-empty array where a map / struct is asked for, key-value arrays and `any` on containers
   where they are visited, parameter blocks.  The stream model is the token-list instance (skip_container at
   token level; the byte-level skip is C09's subject).  Both specifications are RUN against the implementation:
   spec_value by the stream spec_tie, spec_value2 (both flags) by the stream ext_spec (props/C02_ext.py). *)
From JV Require Import Bytes Utf8 BufWin TextTok TextTape TextReader TextRef TextDoc SerdeShape TextDeCommon TextDeTape
  TextDeStream TextDeSpec TextDeSpec2 TextDeBytes.
From JV.proofs Require Import TextDeExtSpec TextDeExtStream TextDeExtBytes.
From JV.Props Require Import C02_walk.
Open Scope nat_scope.

Theorem C02_spec2_extends_spec_partial : forall tp (decode : bytes -> cow) (parse_f64 : bytes -> outcome N) (F : fops) sh d,
  fits decode parse_f64 F sh d -> spec_value2 tp decode parse_f64 F sh d = spec_value decode parse_f64 F sh d.
Proof. exact spec_value2_extends. Qed.
Print Assumptions C02_spec2_extends_spec_partial.

Theorem C02_fits_implies_fits2 : forall tp (decode : bytes -> cow) (parse_f64 : bytes -> outcome N) (F : fops) sh d,
  fits decode parse_f64 F sh d -> fits2 tp decode parse_f64 F sh d.
Proof. exact fits_fits2. Qed.
Print Assumptions C02_fits_implies_fits2.

Theorem C02_stream_path_ext_partial : forall (decode : bytes -> cow) (parse_f64 : bytes -> outcome N) (F : fops) sh d,
  sx_fields d = true -> fits2 false decode parse_f64 F sh d ->
  deser_stream decode parse_f64 F sh (tokens d) = spec_value2 false decode parse_f64 F sh d.
Proof. exact stream_path_spec2. Qed.
Print Assumptions C02_stream_path_ext_partial.

Theorem C02_paths_agree_outside_headers_partial : forall (decode : bytes -> cow) (parse_f64 : bytes -> outcome N) (F : fops) sh d,
  sx_fields d = true -> fits2 false decode parse_f64 F sh d ->
  deser_tape decode parse_f64 F sh (flatten d) = deser_stream decode parse_f64 F sh (tokens d).
Proof. exact paths_agree_ext. Qed.
Print Assumptions C02_paths_agree_outside_headers_partial.

(* skip_container (token level) on ANY body the reader can express lands exactly after the matching Close *)
Theorem C02_stream_skip_lands_ext_partial : forall fs rest d,
  sx_fields fs = true -> l_skip_depth (rtoks_fields fs ++ rest) d = l_skip_depth rest d.
Proof. intros fs rest d H. exact (proj1 (proj2 (proj2 skip_bal2)) fs H rest d). Qed.
Print Assumptions C02_stream_skip_lands_ext_partial.

Theorem C02_wf_plain_in_reader_grammar : forall d, wf_doc d -> plain_fields d = true -> sx_fields d = true.
Proof. exact wf_plain_sx_doc. Qed.
Print Assumptions C02_wf_plain_in_reader_grammar.

Theorem C02_reader_path_ext_bytes_partial : forall (decode : bytes -> cow) (parse_f64 : bytes -> outcome N) (F : fops) sh d l sch capv,
  plain_fields d = true -> wf_doc d -> wf_layout d l -> wf_bytes (render d l) ->
  no_fail sch -> need (render d l) <= capv -> fits2 false decode parse_f64 F sh d ->
  deser_reader decode parse_f64 F sh capv sch (render d l) = spec_value2 false decode parse_f64 F sh d.
Proof. exact reader_path_ext_bytes. Qed.
Print Assumptions C02_reader_path_ext_bytes_partial.

Theorem C02_paths_agree_ext_bytes_partial : forall (decode : bytes -> cow) (parse_f64 : bytes -> outcome N) (F : fops) sh d l sch capv,
  plain_fields d = true -> wf_doc d -> wf_layout d l -> wf_bytes (render d l) ->
  no_fail sch -> need (render d l) <= capv -> fits2 false decode parse_f64 F sh d ->
  deser_slice decode parse_f64 F sh (render d l) = deser_reader decode parse_f64 F sh capv sch (render d l).
Proof. exact paths_agree_ext_bytes. Qed.
Print Assumptions C02_paths_agree_ext_bytes_partial.

(* ---- non-vacuity: `color = rgb { 1 2 } x = 1 m = { a = 1 y z } e = { } k = hsv { 3 }` into
   struct { color: String, x: u8, e: struct { q: Option<u8> }, k: Option<Property<String>> } -- m (an object with a
   tail) is unknown to the shape; the stream walk skips three ghost / ignored containers *)
Definition b_e : bytes := [101]%N. Definition b_k : bytes := [107]%N. Definition b_q : bytes := [113]%N.
Definition b_hsv : bytes := [104; 115; 118]%N.
Definition docE : doc :=
  FCons (Field Unq b_color (Some Equal) (VHeader b_rgb (VArray (VCons (VScalar Unq [49]%N) (VCons (VScalar Unq [50]%N) VNil)))))
  (FCons (Field Unq b_x (Some Equal) (VScalar Unq [49]%N))
  (FCons (Field Unq [109]%N (Some Equal)
            (VObject (FCons (Field Unq b_a (Some Equal) (VScalar Unq [49]%N)) FNil)
                     (VCons (VScalar Unq [121]%N) (VCons (VScalar Unq [122]%N) VNil))))
  (FCons (Field Unq b_e (Some Equal) (VArray VNil))
  (FCons (Field Unq b_k (Some GreaterThan) (VHeader b_hsv (VArray (VCons (VScalar Unq [51]%N) VNil)))) FNil)))).
Definition shE : shape :=
  ShStruct false [ (b_color, None, MOnce, ShStr); (b_x, None, MOnce, ShU 8);
                   (b_e, None, MOnce, ShStruct false [ (b_q, None, MOnce, ShOpt (ShU 8)) ]);
                   (b_k, None, MOnce, ShOpt (ShProp ShStr)) ].

Example C02_ext_stream_nonvacuous :
  wf_doc docE /\ plain_fields docE = true /\ sx_fields docE = true /\ fits2 false dec0 pf0 F0 shE docE /\
  spec_value2 false dec0 pf0 F0 shE docE =
    Ok (DStruct [ (b_color, DStr b_rgb); (b_x, DU 1); (b_e, DStruct [ (b_q, DNone) ]); (b_k, DSome (DProp 2 (DStr b_hsv))) ]) /\
  deser_stream dec0 pf0 F0 shE (tokens docE) = spec_value2 false dec0 pf0 F0 shE docE /\
  deser_tape dec0 pf0 F0 shE (flatten docE) = spec_value2 false dec0 pf0 F0 shE docE /\
  ~ fits dec0 pf0 F0 shE docE.
Proof.
  split; [reflexivity|]. split; [reflexivity|]. split; [reflexivity|].
  split; [unfold fits2; vm_compute; discriminate|].
  split; [vm_compute; reflexivity|]. split; [vm_compute; reflexivity|]. split; [vm_compute; reflexivity|].
  unfold fits. vm_compute. intros H. now apply H.
Qed.
