(* C18, third part — statements only: the proc-macro model instantiated with the structural facts that
   the translator (tools/derive_facts.py via tools/gen_tables.py) reads off jomini_derive/src/lib.rs.

   [code_facts] is built from the generated constants Tables.dv_*; every theorem below is about the
   instantiated model ([.. code_facts ..], the function the stream `code_model` runs against the
   implementation) and its proof computes on the generated value: a change of the corresponding fact
   in lib.rs regenerates Tables.v and breaks the theorem that names it. *)
From JV Require Import Bytes Tables Derive DeriveMacro DeriveCode.
From JV.proofs Require Import DeriveCodeProofs.
From Coq Require Import Arith.

(* ---- one theorem per fact of lib.rs ---- *)
(* each of the six attribute walkers looks at ALL `#[jomini(..)]` lists of the field (`.filter`, not `.find`) *)
Theorem C18_code_scans_every_attribute_list : forall (V : Type) (r : raw_field V),
  scanned V (df_scan_duplicated code_facts) r = concat (r_attrs r) /\
  scanned V (df_scan_take_last code_facts) r = concat (r_attrs r) /\
  scanned V (df_scan_default code_facts) r = concat (r_attrs r) /\
  scanned V (df_scan_deserialize_with code_facts) r = concat (r_attrs r) /\
  scanned V (df_scan_alias code_facts) r = concat (r_attrs r) /\
  scanned V (df_scan_token code_facts) r = concat (r_attrs r).
Proof. exact code_scans_every_attribute_list. Qed.
Print Assumptions C18_code_scans_every_attribute_list.

(* the FIRST `alias = "str"`, the FIRST `token = u16`, the FIRST `default` argument (`.next()` / `.find`) *)
Theorem C18_code_takes_first : forall (V : Type) (r : raw_field V),
  alias V code_facts r = hd_error (alias_strs (scanned V (df_scan_alias code_facts) r)) /\
  binary_token V code_facts r = hd_error (token_ints (scanned V (df_scan_token code_facts) r)) /\
  default_arg V code_facts r = find (named id_default) (scanned V (df_scan_default code_facts) r).
Proof. exact code_takes_first. Qed.
Print Assumptions C18_code_takes_first.

(* the five walkers the field semantics depends on, as functions of the concatenated attribute lists *)
Theorem C18_code_walkers : forall (V : Type) (r : raw_field V),
  let l := concat (r_attrs r) in
  is_duplicated V code_facts r = existsb (named id_duplicated) l /\
  is_take_last V code_facts r = existsb (named id_take_last) l /\
  alias V code_facts r = hd_error (alias_strs l) /\
  binary_token V code_facts r = hd_error (token_ints l) /\
  default_arg V code_facts r = find (named id_default) l.
Proof. exact code_walkers. Qed.
Print Assumptions C18_code_walkers.

(* can_default consults the `default` attribute BEFORE the Option test (the repaired defect option-default-fn) *)
Theorem C18_code_default_attr_before_option : forall (V : Type) (r : raw_field V) a,
  default_arg V code_facts r = Some a -> can_default V code_facts r = attr_fallback a.
Proof. exact code_default_attr_before_option. Qed.
Print Assumptions C18_code_default_attr_before_option.

(* ... and recognises Option by ANY segment of the type path (`std::option::Option<T>` is optional) *)
Theorem C18_code_option_any_segment : forall (V : Type) (r : raw_field V),
  default_arg V code_facts r = None ->
  can_default V code_facts r = if existsb (beqb id_Option) (r_type_path r) then FbYes else FbNo.
Proof. exact code_option_any_segment. Qed.
Print Assumptions C18_code_option_any_segment.

(* builder_fields: duplicated -> push, else take_last -> overwrite, else duplicate_field; duplicated tested first *)
Theorem C18_code_dup_table : forall (V : Type) (r : raw_field V),
  dup_of_raw V code_facts r =
    if is_duplicated V code_facts r then Duplicated else if is_take_last V code_facts r then TakeLast else Once.
Proof. exact code_dup_table. Qed.
Print Assumptions C18_code_dup_table.

(* field_extract: Path -> unwrap_or_else(fn), Yes -> unwrap_or_default, No -> missing_field *)
Theorem C18_code_extract_table : forall (V : Type) (r : raw_field V),
  miss_of_raw V code_facts r =
    match can_default V code_facts r with
    | FbPath fn => DefaultTo (r_fn_value r fn)
    | FbYes => DefaultTo (r_type_default r)
    | FbNo | FbPanic => Required
    end.
Proof. exact code_extract_table. Qed.
Print Assumptions C18_code_extract_table.

(* match arm of visit_str = alias.unwrap_or(name) *)
Theorem C18_code_key_is_alias_else_name : forall (V : Type) (r : raw_field V),
  key_of_raw V code_facts r = match alias V code_facts r with Some al => al | None => r_name r end.
Proof. exact code_key_is_alias_else_name. Qed.
Print Assumptions C18_code_key_is_alias_else_name.

(* the generated __FieldVisitor implements exactly visit_str and visit_u16 ... *)
Theorem C18_code_field_visitor_methods : forall m,
  implements code_facts m = true <-> m = DvVisitStr \/ m = DvVisitU16.
Proof. exact code_field_visitor_methods. Qed.
Print Assumptions C18_code_field_visitor_methods.

(* ... whose fallthrough arms are `__ignore` (and visit_map consumes the ignored value): every string key and every
   token id gets through, a key delivered through any other Visitor method does not *)
Theorem C18_code_field_key : forall (V : Type) (specs : list (field_spec V)) k,
  field_key V code_facts specs k =
    match k with WStr s => Some (KStr s) | WU16 t => Some (KTok t) | WVia _ => None end.
Proof. exact code_field_key. Qed.
Print Assumptions C18_code_field_key.

(* deserialize_u16 is requested iff token_count > 0 *)
Theorem C18_code_key_hint : forall (V : Type) (tbl : list (raw_field V)),
  key_hint V code_facts tbl = if Nat.ltb 0 (token_count V code_facts tbl) then DvHintU16 else DvHintIdentifier.
Proof. exact code_key_hint. Qed.
Print Assumptions C18_code_key_hint.

(* the all-or-nothing token rule: a table the macro accepts has a token on no field or on every field *)
Theorem C18_code_partial_tokens_rejected : forall (V : Type) (tbl : list (raw_field V)),
  macro_accepts_raw V code_facts tbl = true ->
  token_count V code_facts tbl = 0%nat \/ token_count V code_facts tbl = length tbl.
Proof. exact code_partial_tokens_rejected. Qed.
Print Assumptions C18_code_partial_tokens_rejected.

(* all facts at once: the generated record is the one the proofs were written for *)
Theorem C18_code_facts_expected : code_facts = expected_facts.
Proof. exact code_facts_expected. Qed.
Print Assumptions C18_code_facts_expected.

(* ---- the instantiated model is the hand-written model of DeriveMacro on the flattened table ---- *)
Theorem C18_code_spec_of_raw : forall (V : Type) (r : raw_field V),
  field_compiles V code_facts r = true ->
  spec_of_raw V code_facts r = spec_of_attrs V (attrs_of_raw V r).
Proof. exact code_spec_of_raw. Qed.
Print Assumptions C18_code_spec_of_raw.

Theorem C18_code_visit_raw_is_visit_attrs : forall (V : Type) (tbl : list (raw_field V)) (kvs : list (key * outcome V)),
  macro_accepts_raw V code_facts tbl = true ->
  visit_raw V code_facts tbl (wire_kvs V kvs) = visit_attrs V (map (attrs_of_raw V) tbl) kvs.
Proof. exact code_visit_raw_is_visit_attrs. Qed.
Print Assumptions C18_code_visit_raw_is_visit_attrs.

Theorem C18_code_accepts_implies_macro_accepts : forall (V : Type) (tbl : list (raw_field V)),
  macro_accepts_raw V code_facts tbl = true -> macro_accepts V (map (attrs_of_raw V) tbl) = true.
Proof. exact code_accepts_implies_macro_accepts. Qed.
Print Assumptions C18_code_accepts_implies_macro_accepts.

Theorem C18_code_hint_is_uses_token_keys : forall (V : Type) (tbl : list (raw_field V)),
  key_hint V code_facts tbl = if uses_token_keys V (map (attrs_of_raw V) tbl) then DvHintU16 else DvHintIdentifier.
Proof. exact code_hint_is_uses_token_keys. Qed.
Print Assumptions C18_code_hint_is_uses_token_keys.

(* ---- the C18 theorems restated for the model instantiated from the source ---- *)
Theorem C18_code_struct_semantics : forall (V : Type) (tbl : list (raw_field V)) (kvs : list (key * outcome V)),
  values_ok V (map (spec_of_raw V code_facts) tbl) kvs ->
  visit_raw V code_facts tbl (wire_kvs V kvs) = spec_visit V (map (spec_of_raw V code_facts) tbl) kvs.
Proof. exact code_struct_semantics. Qed.
Print Assumptions C18_code_struct_semantics.

Theorem C18_code_error_kinds : forall (V : Type) (tbl : list (raw_field V)) (kvs : list (key * outcome V)),
  values_ok V (map (spec_of_raw V code_facts) tbl) kvs ->
  (exists outs, visit_raw V code_facts tbl (wire_kvs V kvs) = Ok outs)
  \/ visit_raw V code_facts tbl (wire_kvs V kvs) = Err E_DUP \/ visit_raw V code_facts tbl (wire_kvs V kvs) = Err E_MISSING.
Proof. exact code_error_kinds. Qed.
Print Assumptions C18_code_error_kinds.

Theorem C18_code_reorder_invariant : forall (V : Type) (tbl : list (raw_field V)) (kvs kvs' : list (key * outcome V)),
  reorder V (map (spec_of_raw V code_facts) tbl) kvs kvs' ->
  is_ok (visit_raw V code_facts tbl (wire_kvs V kvs)) = is_ok (visit_raw V code_facts tbl (wire_kvs V kvs')) /\
  (is_ok (visit_raw V code_facts tbl (wire_kvs V kvs)) = true ->
   visit_raw V code_facts tbl (wire_kvs V kvs) = visit_raw V code_facts tbl (wire_kvs V kvs')).
Proof. exact code_reorder_invariant. Qed.
Print Assumptions C18_code_reorder_invariant.

(* the successful result, field by field, from the RAW attributes of the source: duplicated collects in document order,
   take_last keeps the last, a plain field has at most one occurrence, none = default fn / Default / (required: excluded) *)
Theorem C18_code_ok_fields : forall (V : Type) (tbl : list (raw_field V)) (kvs : list (key * outcome V)) outs i r,
  values_ok V (map (spec_of_raw V code_facts) tbl) kvs ->
  visit_raw V code_facts tbl (wire_kvs V kvs) = Ok outs -> nth_error tbl i = Some r ->
  let l := concat (r_attrs r) in
  let vals := okvals V (occ V (map (spec_of_raw V code_facts) tbl) i kvs) in
  let dflt := match can_default V code_facts r with
              | FbPath fn => OVal (r_fn_value r fn)
              | FbYes => OVal (r_type_default r)
              | FbNo | FbPanic => OVec []
              end in
  nth_error outs i = Some
    (if existsb (named id_duplicated) l then OVec vals
     else if existsb (named id_take_last) l then match rev vals with v :: _ => OVal v | [] => dflt end
     else match vals with v :: _ => OVal v | [] => dflt end)
  /\ (existsb (named id_duplicated) l = false -> existsb (named id_take_last) l = false -> (length vals <= 1)%nat)
  /\ (existsb (named id_duplicated) l = false -> can_default V code_facts r = FbNo -> vals <> []).
Proof. exact code_ok_fields. Qed.
Print Assumptions C18_code_ok_fields.

(* ---- known finding int-key-rejected, tied to the fact "no visit_i32 / visit_i64 / visit_u32 / visit_u64" ----
   the clause "unknown fields are ignored" is REFUTED for keys that reach __FieldVisitor through any method other than
   visit_str / visit_u16 (binary integer key tokens): the struct fails whatever its field table *)
Theorem C18_code_int_key_rejected : forall (V : Type) (tbl : list (raw_field V)) (pre : list (key * outcome V)) m o rest,
  visit_raw V code_facts tbl (wire_kvs V pre ++ (WVia m, o) :: rest) =
    (do _ <- visit_loop V (map (spec_of_raw V code_facts) tbl) (init V (map (spec_of_raw V code_facts) tbl)) pre; Err E_KEY)
  /\ is_ok (visit_raw V code_facts tbl (wire_kvs V pre ++ (WVia m, o) :: rest)) = false.
Proof. exact code_int_key_rejected. Qed.
Print Assumptions C18_code_int_key_rejected.

Theorem C18_code_unknown_int_key_ignored_refuted :
  exists (tbl : list (raw_field N)) pre o rest,
    macro_accepts_raw N code_facts tbl = true /\
    is_ok (visit_raw N code_facts tbl (wire_kvs N pre ++ rest)) = true /\
    is_ok (visit_raw N code_facts tbl (wire_kvs N pre ++ (WStr [120%N], o) :: rest)) = true /\
    visit_raw N code_facts tbl (wire_kvs N pre ++ (WVia DvVisitI32, o) :: rest) = Err E_KEY.
Proof. exact code_unknown_int_key_not_ignored. Qed.
Print Assumptions C18_code_unknown_int_key_ignored_refuted.

(* non-vacuity / regression: { #[jomini(alias = "c")] #[jomini(duplicated)] cs: Vec<_>,
   #[jomini(default = "7")] o: std::o::Option<_>, q: c::o::Option<_>, n: u8 } (two attribute lists: seeded C18_1;
   qualified Option path: C18_2; default fn on an Option: C18_4) *)
Example C18_code_example :
  map (spec_of_raw N code_facts) ex_tbl =
    [mk_field [99%N] None Duplicated Required; mk_field [111%N] None Once (DefaultTo 7%N);
     mk_field [113%N] None Once (DefaultTo 0%N); mk_field [110%N] None Once Required]
  /\ macro_accepts_raw N code_facts ex_tbl = true
  /\ visit_raw N code_facts ex_tbl [(WStr [99%N], Ok 1%N); (WStr [120%N], Ok 9%N); (WStr [110%N], Ok 2%N); (WStr [99%N], Ok 3%N)]
     = Ok [OVec [1%N; 3%N]; OVal 7%N; OVal 0%N; OVal 2%N]
  /\ visit_raw N code_facts ex_tbl [(WStr [110%N], Ok 2%N); (WStr [110%N], Ok 3%N)] = Err E_DUP
  /\ visit_raw N code_facts ex_tbl [(WStr [99%N], Ok 1%N)] = Err E_MISSING.
Proof. exact code_example. Qed.
