(* C16, parser half: the JSON theorems of Props/C16.v hold UNCONDITIONALLY for every tape the text
   parser returns: the hypothesis TapeWf.tape_wf of json_total / json_content is discharged by
   the bridge theorem parse_tape_wf (proofs/TextTapeGrammarProofs.v; see Props/C17_parser.v).
   Statements only. *)
From JV Require Import Bytes Tables Scalar TextTok TextTape TapeWf Dom Json.
From JV.proofs Require Import DomProofs JsonProofs TextTapeGrammarProofs.
Open Scope nat_scope.

Theorem C16_parser_tape_wf : forall input t bom, parse input = Ok (t, bom) -> TapeWf.tape_wf t.
Proof. exact parse_tape_wf. Qed.
Print Assumptions C16_parser_tape_wf.

(* json_total for parsed tapes: no unwrap / index / usize-underflow panic and no fuel exhaustion,
   for every value index, every object node (the root or the inside of any Object token) and
   every array reader the API hands out, for every decoder, both profiles and all options *)
Theorem C16_parsed_json_total : forall input t bom dec dbg o,
  parse input = Ok (t, bom) ->
  (exists j, json_object dec dbg o t (top_reader t) = Ok j) /\
  (forall v, v < length t -> exists j, json_value dec dbg o t v = Ok j) /\
  (forall r, obj_node t r -> exists j, json_object dec dbg o t r = Ok j) /\
  (forall v k, TapeWf.tget t v = Some k -> is_container k = true \/ (exists s, k = THeader s) ->
     exists r j, read_array t v = Ok r /\ json_array dec dbg o t r = Ok j).
Proof.
  intros input t bom dec dbg o E. pose proof (parse_tape_wf _ _ _ E) as W.
  split; [apply json_object_total; [exact W|constructor]|].
  split; [intros v L; apply json_value_total; assumption|].
  split; [intros r N; apply json_object_total; assumption|].
  intros v k Hk Hc. pose proof (read_array_ok t v k W Hk) as R.
  assert (R' : exists r, read_array t v = Ok r /\ arr_ok t r).
  { destruct Hc as [Hc|(s & ->)]; [|exact R]. destruct k; cbn in Hc; try discriminate; exact R. }
  destruct R' as (r & Er & Ar). destruct (json_array_total dec dbg o t r W Ar) as (j & Ej).
  exists r, j. auto.
Qed.
Print Assumptions C16_parsed_json_total.

(* json_content for parsed tapes: the tree of every object node is [content_tree] of the fields
   of the object grammar (= what fields() yields, C17), one serialized value per field, plus the
   serialized remainder *)
Theorem C16_parsed_json_content : forall input t bom dec dbg o r,
  parse input = Ok (t, bom) -> obj_node t r ->
  let rec := ser_value dec dbg o t (ser_fuel t) in
  exists l last vals rem,
    fields_spec t (o_start r) (o_end r) last l /\
    fields_all dbg t r = Ok (l, last) /\
    omapM (fun f => ser_opvalue rec (field_ov f)) l = Ok vals /\ length vals = length l /\
    ser_remainder dec t rec last (o_end r) = Ok rem /\
    json_object dec dbg o t r = Ok (content_tree dec (duplicate_keys o) l vals rem).
Proof. intros input t bom dec dbg o r E N. apply json_content; [eapply parse_tape_wf; eauto|exact N]. Qed.
Print Assumptions C16_parsed_json_content.

(* the whole document *)
Theorem C16_parsed_document_content : forall input t bom dec dbg o,
  parse input = Ok (t, bom) ->
  let rec := ser_value dec dbg o t (ser_fuel t) in
  exists l last vals rem,
    fields_spec t 0 (length t) last l /\
    omapM (fun f => ser_opvalue rec (field_ov f)) l = Ok vals /\ length vals = length l /\
    ser_remainder dec t rec last (length t) = Ok rem /\
    json_object dec dbg o t (top_reader t) = Ok (content_tree dec (duplicate_keys o) l vals rem).
Proof.
  intros input t bom dec dbg o E rec.
  destruct (json_content dec dbg o t (top_reader t) (parse_tape_wf _ _ _ E) (on_top t))
    as (l & last & vals & rem & A & _ & B & C & D & F).
  exists l, last, vals, rem. cbn [top_reader o_start o_end] in *. auto.
Qed.
Print Assumptions C16_parsed_document_content.

(* non-vacuity: a = { b=1 2 3 {} c = rgb { 1 } } is accepted (its tape is C16.dup_tape, the known
   header-duplication witness) and converted *)
Definition ex_input : bytes :=
  [97;32;61;32;123;32;98;61;49;32;50;32;51;32;123;125;32;99;32;61;32;114;103;98;32;123;32;49;32;125;32;125]%N.

Example C16_parser_nonvacuous :
  exists t, parse ex_input = Ok (t, false) /\
    exists j, json_object (fun x => x) false default_options t (top_reader t) = Ok j.
Proof. eexists. split; [vm_compute; reflexivity|]. eexists. vm_compute. reflexivity. Qed.
