(* C17, parser half: the DOM theorems of Props/C17.v hold UNCONDITIONALLY for every tape the text
   parser returns.  Props/C17.v assumes TapeWf.tape_wf (Dyck nesting, header-then-container and
   the object grammar `(key [op] value)* [MixedContainer item*]` at top level and in every
   Object); here that hypothesis is discharged for TextTape.parse, for ALL byte strings it accepts
   (including stray `}`, one missing `}`, ghost `{}`, parameters, headers, mixed containers and
   a second marker after an empty `{}` inside a key-value list).

   Proof (proofs/TextTapeGrammar{Sound,Lemmas,Proofs}.v, definitions in TextTapeGrammar.v): the
   loop invariant GInv of TextTape.step (DESIGN.md A.1 with I5: the key states never run in
   mixed mode; mixed mode or a written mixed flag imply the marker is present; every suspended
   object level is `fields key [op] [Header]` or `fields M ..`), preserved by every arm, whose
   exit condition [gfinal] implies TapeWf.tape_wf.  Statements only. *)
From JV Require Import Bytes TextTok TextTape TapeWf Dom TextTapeGrammar.
From JV.proofs Require Import DomProofs TextTapeGrammarSound TextTapeGrammarProofs.
Open Scope nat_scope.

(* the bridge *)
Theorem C17_parser_tape_wf : forall input t bom, parse input = Ok (t, bom) -> TapeWf.tape_wf t.
Proof. exact parse_tape_wf. Qed.
Print Assumptions C17_parser_tape_wf.

(* the grammar invariant itself, arm by arm: preserved by every step, and what the parser returns
   when it stops is a top-level object body *)
Theorem C17_parser_step_invariant : forall s, GInv s ->
  match step s with
  | Next s' => GInv s'
  | Done t => gfinal t
  | _ => True
  end.
Proof. exact step_gpost. Qed.
Print Assumptions C17_parser_step_invariant.

Theorem C17_parser_exit_wf : forall t, gfinal t -> TapeWf.tape_wf t.
Proof. exact gfinal_tape_wf. Qed.
Print Assumptions C17_parser_exit_wf.

(* ---- the theorems of Props/C17.v for every parsed tape and every reachable node ---- *)

(* every object node (the document root or the inside of any Object token): FieldsIter yields the
   fields of the object grammar; fields_len, the size hint and the number of yielded items agree *)
Theorem C17_parsed_fields_len_agree : forall input t bom dbg r,
  parse input = Ok (t, bom) -> obj_node t r ->
  exists l last,
    fields_spec t (o_start r) (o_end r) last l /\
    fields_all dbg t r = Ok (l, last) /\
    fields_len t (o_start r) (o_end r) = Ok (length l) /\
    fields_size_hint t (o_start r) (o_end r) = Ok (length l).
Proof. intros. apply fields_agree; [eapply parse_tape_wf; eauto|assumption]. Qed.
Print Assumptions C17_parsed_fields_len_agree.

(* every token that can be read as an array (Array, Object, Header): read_array succeeds and
   values(), len, is_empty, tokens_len agree on the reader it returns *)
Theorem C17_parsed_values_len_agree : forall input t bom v k,
  parse input = Ok (t, bom) -> TapeWf.tget t v = Some k ->
  match k with
  | TArray _ _ | TObject _ _ | THeader _ =>
      exists r l, read_array t v = Ok r /\
        items t (a_start r) (a_end r) l /\
        values_all t r = Ok l /\
        array_len t r = Ok (length l) /\
        array_is_empty t r = Ok (Nat.eqb (length l) 0) /\
        array_tokens_len r = Ok (a_end r - a_start r)
  | _ => read_array t v = Err E_not_array
  end.
Proof.
  intros input t bom v k E Hk.
  pose proof (read_array_ok t v k (parse_tape_wf _ _ _ E) Hk) as R.
  destruct k; try exact R;
    destruct R as (r & Er & Ar); destruct (values_agree t r Ar) as (l & A); exists r, l; tauto.
Qed.
Print Assumptions C17_parsed_values_len_agree.

(* the two-pass grouping is the partition of the fields by raw key, in first-appearance order *)
Theorem C17_parsed_groups_partition : forall input t bom dbg r,
  parse input = Ok (t, bom) -> obj_node t r ->
  exists l last,
    fields_all dbg t r = Ok (l, last) /\
    field_groups dbg t r = Ok (groups_spec l, length (groups_spec l), last).
Proof. intros. apply groups_partition; [eapply parse_tape_wf; eauto|assumption]. Qed.
Print Assumptions C17_parsed_groups_partition.

(* the remainder is exactly the tail after the MixedContainer marker (empty without a marker) *)
Theorem C17_parsed_remainder_is_tail : forall input t bom dbg r l last,
  parse input = Ok (t, bom) -> obj_node t r ->
  fields_all dbg t r = Ok (l, last) ->
  remainder t last (o_end r) = tail_reader last (o_end r) /\
  arr_ok t (tail_reader last (o_end r)) /\
  (last = o_end r \/ (last < o_end r /\ TapeWf.tget t last = Some TMixedContainer)).
Proof. intros. eapply remainder_is_tail; eauto. eapply parse_tape_wf; eauto. Qed.
Print Assumptions C17_parsed_remainder_is_tail.

(* no Panic / OOB / fuel exhaustion anywhere in the reader API on a parsed tape: the complete
   observation of every object node is defined and is the one the grammar describes; an Array
   token read as an object is the empty object with all items as remainder; every function of a
   value reader is crash free at every index *)
Theorem C17_parsed_no_panic : forall input t bom dbg,
  parse input = Ok (t, bom) ->
  (forall r, obj_node t r ->
     exists rr l rem,
       fields_spec t (o_start r) (o_end r) rr l /\
       items t (a_start (tail_reader rr (o_end r))) (a_end (tail_reader rr (o_end r))) rem /\
       object_view dbg t r = Ok (view_of t r l rr rem)) /\
  (forall i e m, TapeWf.tget t i = Some (TArray e m) ->
     exists rem, items t (S i) e rem /\
       object_view dbg t (mk_oreader e e) =
       Ok (mk_obj_view 0 0 [] e rem (length rem) (e - S i) [] 0 0)) /\
  (forall v dec, v < length t ->
     is_crash (value_token t v) = false /\ is_crash (value_tokens_len t v) = false /\
     is_crash (read_scalar t v) = false /\ is_crash (read_str dec t v) = false /\
     is_crash (read_object t v) = false /\ is_crash (read_array t v) = false).
Proof.
  intros input t bom dbg E. pose proof (parse_tape_wf _ _ _ E) as W. split; [|split].
  - intros r N. apply object_view_ok; assumption.
  - intros i e m H. eapply object_view_of_array; eauto.
  - intros v dec L. apply value_reader_total; assumption.
Qed.
Print Assumptions C17_parsed_no_panic.

(* the document root, spelled out: the top-level reader of any parsed tape *)
Theorem C17_parsed_root_view : forall input t bom dbg,
  parse input = Ok (t, bom) ->
  exists rr l rem,
    fields_spec t 0 (length t) rr l /\
    fields_len t 0 (length t) = Ok (length l) /\
    field_groups dbg t (top_reader t) = Ok (groups_spec l, length (groups_spec l), rr) /\
    object_view dbg t (top_reader t) = Ok (view_of t (top_reader t) l rr rem).
Proof.
  intros input t bom dbg E. pose proof (parse_tape_wf _ _ _ E) as W.
  pose proof (on_top t) as N.
  destruct (object_view_ok dbg t _ W N) as (rr & l & rem & F & _ & OV).
  destruct (fields_agree dbg t _ W N) as (l' & last' & F' & FA & FL & _).
  destruct (groups_partition dbg t _ W N) as (l2 & last2 & FA2 & G).
  cbn [top_reader o_start o_end] in *.
  destruct (fields_spec_fun _ _ _ _ _ F _ _ F') as [<- <-].
  rewrite FA in FA2. injection FA2 as <- <-.
  exists rr, l, rem. auto.
Qed.
Print Assumptions C17_parsed_root_view.

(* non-vacuity: an input with a stray `}`, a ghost `{}`, a header, a mixed container whose array
   part returns to key-value mode after an empty `{}` (second marker), and one missing `}` is
   accepted, and its tape is the one the harness shows for the real parser *)
Definition ex_input : bytes :=
  (* a=1 } {} c=rgb{1} x={b=1 2 3 {} y z {} q=1 *)
  [97;61;49;32;125;32;123;125;32;99;61;114;103;98;123;49;125;32;120;61;123;98;61;49;32;50;32;51;32;
   123;125;32;121;32;122;32;123;125;32;113;61;49]%N.

Example C17_parser_nonvacuous :
  exists t, parse ex_input = Ok (t, false) /\ TapeWf.tape_wfb t = true /\
    (exists i e, TapeWf.tget t i = Some (TObject e false) /\
       exists j1 j2, S i < j1 < j2 /\ j2 < e /\
         TapeWf.tget t j1 = Some TMixedContainer /\ TapeWf.tget t j2 = Some TMixedContainer).
Proof.
  eexists. split; [vm_compute; reflexivity|]. split; [vm_compute; reflexivity|].
  exists 8, 23. split; [reflexivity|]. exists 11, 16. repeat split; cbn; lia.
Qed.
