(* C19 — Truncated documents never yield fabricated data (text tape part).
   Full statement (not yet one theorem):
     trunc_text : forall d l k, let r := parse (firstn k (render d l)) in r = Err \/ consistent d r
   Proved here, for ALL inputs and cut points: the scanners never extend, merge or invent a
   scalar on truncated input, and the parser's exit analysis (where the data may end).  The
   composition over the whole grammar is carried by props/C19_text.py (every cut point of every
   generated document, correspondence + oracle). *)
From JV Require Import Bytes Tables TextTok TextTape.
From JV.proofs Require Import TruncProofs.
Open Scope nat_scope.

(* a closing quote found in a truncated string is the real one *)
Theorem C19_quote_prefix : forall h k i, tq_scan (firstn k h) 0 = Some i -> tq_scan h 0 = Some i.
Proof. exact tq_scan_prefix. Qed.
Print Assumptions C19_quote_prefix.

(* a quoted string cut at or before its closing quote is unterminated (an error), never shortened *)
Theorem C19_quote_cut : forall h k i,
  tq_scan h 0 = Some i ->
  (k <= i -> tq_scan (firstn k h) 0 = None) /\ (i < k -> tq_scan (firstn k h) 0 = Some i).
Proof. exact tq_scan_cut. Qed.
Print Assumptions C19_quote_cut.

(* the unquoted scalar of a truncated input is a prefix of the original one *)
Theorem C19_unquoted_cut : forall d k,
  k <= length d -> 0 < k ->
  split_at_scalar_fallback_idx (firstn k d) = Nat.min k (split_at_scalar_fallback_idx d).
Proof. exact unquoted_cut. Qed.
Print Assumptions C19_unquoted_cut.

(* data that ends between a key and the end of its value is an error *)
Theorem C19_eof_mid_field : forall s,
  skip_ws_t (pdata s) = None -> pst_ s <> SKey -> step s = Fail E_TextErr.
Proof. exact eof_mid_field. Qed.
Print Assumptions C19_eof_mid_field.

(* data that ends two or more containers deep is an error (one missing bracket is tolerated) *)
Theorem C19_eof_nested : forall s,
  skip_ws_t (pdata s) = None -> pst_ s = SKey -> pparent s <> 0 -> slot (ptape s) (pparent s) <> 0 ->
  step s = Fail E_TextErr.
Proof. exact eof_nested. Qed.
Print Assumptions C19_eof_nested.

Example C19_nonvacuous : tq_scan [97; 92; 34; 98; 34; 99]%N 0 = Some 4 /\ tq_scan (firstn 3 [97; 92; 34; 98; 34; 99]%N) 0 = None.
Proof. split; reflexivity. Qed.
