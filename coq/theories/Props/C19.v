(* C19 — placeholder until truncation theorems are pinned. *)
From JV Require Import Bytes Tables TextTok TextTape.
