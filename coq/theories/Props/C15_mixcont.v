(* C15, wave 5 (w_wr) -- call lists for key-value lists whose values are CONTAINERS: the class K of the single
   mixed_mode flag (WriterMix.k15_class, the classifier the props oracles run on every generated document) and
   model-side witnesses of the three known findings.  Statements only.

   k15_class d = 2   some operator CALL is made while the flag is dirty (inside the first container value of a
                     list, before its first closing brace): write_operator prints the symbol glued and leaves the
                     state at KeyValueSeparator / SecondUnknown            finding calls-mixed-nested-op
               = 3   a container value of a list is followed by further entries: write_end has reset the flag,
                     write_operator then switches the LIST to object mode: expecting_key() is true after every
                     later value (and a bare value followed by a pair is written `x=key=value`)
                                                                          finding calls-mixed-mode-lost
               = 0   outside K.
   The write_tape side (Props/C14_mixcont.v) proves the layout theorem outside K; for call lists the proved
   fragment (Props/C15_mixed.v) still has scalar list values only -- PARTIAL: the call-list analogue of
   C14_mixcont_write_is_layout (mcalls_of extended with container values under k15_class d = 0) is not proved;
   outside K the streams calls_doc / calls_reparse / traces are the evidence. *)
From JV Require Import Bytes Tables TextTok TextTape TextDoc Date Writer WriterMix.
From JV.proofs Require Import WriterLayoutDefs.
Open Scope N_scope.

Definition nofl : bool -> N -> option N -> bytes := fun _ _ _ => [].
Definition cfg2 : cfg := mkcfg 32 1 false.
Definition U (x : N) : call := CUnquoted [x].
Definition Sc (x : N) : value := VScalar Unq [x].

(* a={1 b={c=d}} with the inner `=` written through write_operator:
   u:61;as;u:31;m;u:62;op:6;os;u:63;op:6;u:64;e;e  ->  `c==d` *)
Definition c_op_doc : doc :=
  FCons (Field Unq [97] None (VArrayKv (VCons (Sc 49) VNil)
    (FCons (Field Unq [98] (Some Equal) (VObject (FCons (Field Unq [99] (Some Equal) (Sc 100)) FNil) VNil)) FNil))) FNil.
Definition c_op_calls : list call :=
  [U 97; CArrayStart; U 49; CMixed; U 98; COperator Equal; CObjectStart; U 99; COperator Equal; U 100; CEnd; CEnd].
Theorem C15_K_mixed_nested_op_refuted :
  k15_class c_op_doc = 2 /\
  exists out log t', Writer.run nofl cfg2 c_op_calls = Ok (out, log) /\ Forall (fun e => fst e = false) log /\
    parse out = Ok (t', false) /\ nth_error t' 8 = Some (TOperator Exact) /\ nth_error (flatten c_op_doc) 8 = Some (TUnquoted [100]).
Proof.
  split; [reflexivity|]. eexists. eexists. eexists. split; [vm_compute; reflexivity|].
  split; [repeat constructor|]. split; [vm_compute; reflexivity|]. split; reflexivity.
Qed.
Print Assumptions C15_K_mixed_nested_op_refuted.

(* a={1 b={ } c=d}: after the write_end of `{ }` the flag is off; `c`, write_operator(=), `d` are then written with
   the OBJECT protocol: the text still parses back to the same tape, but expecting_key() is true after `d`
   although the writer is inside a list (state Key, mode Object at depth 1) *)
Definition c_lost_doc : doc :=
  FCons (Field Unq [97] None (VArrayKv (VCons (Sc 49) VNil)
    (FCons (Field Unq [98] (Some Equal) (VArray VNil))
    (FCons (Field Unq [99] (Some Equal) (Sc 100)) FNil)))) FNil.
Definition c_lost_calls : list call :=
  [U 97; CArrayStart; U 49; CMixed; U 98; COperator Equal; CArrayStart; CEnd; U 99; COperator Equal; U 100].
Theorem C15_K_mixed_mode_lost_refuted :
  k15_class c_lost_doc = 3 /\
  exists out log w, Writer.run nofl cfg2 c_lost_calls = Ok (out, log) /\ last (map snd log) wr_init = w /\
    q_depth w = 1 /\ q_expecting_key w = true /\ w_mode w = DObject /\
    (* the same prefix with a scalar value instead of the container: inside the list, no key expected *)
    exists out' log' w', Writer.run nofl cfg2 [U 97; CArrayStart; U 49; CMixed; U 98; COperator Equal; U 120; U 99; COperator Equal; U 100]
                         = Ok (out', log') /\ last (map snd log') wr_init = w' /\
      q_depth w' = 1 /\ q_expecting_key w' = false /\ w_mode w' = DArray.
Proof.
  split; [reflexivity|]. eexists. eexists. eexists. split; [vm_compute; reflexivity|]. split; [reflexivity|].
  split; [reflexivity|]. split; [reflexivity|]. split; [reflexivity|].
  eexists. eexists. eexists. split; [vm_compute; reflexivity|]. split; [reflexivity|]. repeat split; reflexivity.
Qed.
Print Assumptions C15_K_mixed_mode_lost_refuted.

(* data={ { } { } } : write_array_start; write_array_start; write_end; ... -- the writer prints both empty
   containers, the PARSER skips an empty container at the start of an array (ghost): 3 tokens come back instead
   of 7.  Not a writer defect; outside wf_doc (first_item_not_ghost).  Finding calls-leading-empty-container *)
Definition c_ghost_doc : doc :=
  FCons (Field Unq [100] None (VArray (VCons (VArray VNil) (VCons (VArray VNil) VNil)))) FNil.
Theorem C15_leading_empty_container_refuted :
  wf_fields c_ghost_doc = false /\ k15_class c_ghost_doc = 0 /\
  exists out log t', Writer.run nofl cfg2 [U 100; CArrayStart; CArrayStart; CEnd; CArrayStart; CEnd; CEnd] = Ok (out, log) /\
    Forall (fun e => fst e = false) log /\ parse out = Ok (t', false) /\
    length t' = 3%nat /\ length (flatten c_ghost_doc) = 7%nat.
Proof.
  split; [reflexivity|]. split; [reflexivity|]. eexists. eexists. eexists. split; [vm_compute; reflexivity|].
  split; [repeat constructor|]. split; [vm_compute; reflexivity|]. split; reflexivity.
Qed.
Print Assumptions C15_leading_empty_container_refuted.
