(* C04 — Binary deserialization agrees across tape, on-demand and streaming paths.
   Statements only.  Pinned: the scalar level shared by the three paths (Serde.bin_scalar = the `deser`
   function of each path: the token's own type decides the visit, serde's primitive visitor accepts or
   rejects): integers and booleans come out verbatim, strings through the flavor's decode, for every
   target width; struct targets drop unknown fields in their entirety.
   The three deserializer walks themselves (BinDeTape / BinDeOndemand / BinDeReader), their equality with
   the specification over abstract documents and their pairwise agreement are in Props/C04_walk.v. *)
From JV Require Import Bytes Derive Serde.
From JV.proofs Require Import DeriveProofs SerdeProofs.
Open Scope N_scope.

Theorem C04_integers_verbatim_partial : forall (decode : bytes -> bytes) bits t v,
  bin_scalar decode (SU bits) t = Ok v ->
  exists n, v = VU n /\ n < 2 ^ bits /\
    (t = BU32 n \/ t = BU64 n \/ (exists z, (t = BI32 z \/ t = BI64 z) /\ (0 <= z)%Z /\ n = Z.to_N z)).
Proof. exact bin_int_verbatim. Qed.
Print Assumptions C04_integers_verbatim_partial.

Theorem C04_booleans_verbatim_partial : forall (decode : bytes -> bytes) t v,
  bin_scalar decode SBool t = Ok v -> exists b, t = BBool b /\ v = VBool b.
Proof. exact bin_bool_verbatim. Qed.
Print Assumptions C04_booleans_verbatim_partial.

Theorem C04_strings_through_encoding_partial : forall (decode : bytes -> bytes) t v,
  bin_scalar decode SStr t = Ok v -> exists s, t = BStr s /\ v = VStr (decode s).
Proof. exact bin_str_decodes. Qed.
Print Assumptions C04_strings_through_encoding_partial.

Theorem C04_unknown_fields_skipped_partial : forall specs l1 k r l2,
  match_field value specs k = None ->
  spec_struct specs (l1 ++ (k, r) :: l2) = spec_struct specs (l1 ++ l2).
Proof. exact struct_unknown_ignored. Qed.
Print Assumptions C04_unknown_fields_skipped_partial.

Example C04_nonvacuous : bin_scalar (fun x => x) (SU 8) (BI32 12) = Ok (VU 12).
Proof. vm_compute. reflexivity. Qed.
