(* C05 -- the remaining leaf entry points.  Statements only.

   Scalar::to_u64 / to_i64 / to_bool / to_f64 (and the bit-level wrapper the glue uses): never a
     crash outcome, on ANY byte list (bytes need not even be < 256); the exact accept/reject
     languages are C11's.
   Date::add_days: the model's panic sites 1305 (i32 overflow of the day number), 1306 (year not an
     i16), 1307 (from_ymdh(..).unwrap()) are the documented `# Panics` of the API; inside the
     documented range the call is Ok (statement of C13_add_days_until, re-exported so it cannot drift).
   Date::days_until: never panics on two valid dates (site 1304 = i32 overflow of the difference is
     unreachable: |day number| < 2^24).
   Date::days (date_days): total on valid dates (C13_date_days_total, re-exported).
   escape (text writer): Writer.escape is a total function bytes -> bytes (no outcome: nothing to
     prove); every writer call that uses it is covered by C05_writer_never_crashes (Props/C05.v).
   TextTape::parse on a previously used tape (`TextTape::parse(&mut self, ..)` clears the token
     vector first): in the model the tape is an output, not an input -- the call IS TextTape.parse and
     C05_text_tape_never_crashes (Props/C05.v) applies verbatim; reuse is exercised by the correspondence
     runs only (the harness recycles one tape). *)
From JV.proofs Require Import DateProofs DateProofs2 NoCrashLeaves.
From JV Require Import Bytes Tables Scalar ScalarF64 Date.
From JV.Props Require C13.
Open Scope N_scope.

Theorem C05_scalar_to_u64_total : forall d, is_crash (to_u64 d) = false.
Proof. exact to_u64_nc. Qed.
Print Assumptions C05_scalar_to_u64_total.

Theorem C05_scalar_to_i64_total : forall d, is_crash (to_i64 d) = false.
Proof. exact to_i64_nc. Qed.
Print Assumptions C05_scalar_to_i64_total.

Theorem C05_scalar_to_bool_total : forall d, is_crash (to_bool d) = false.
Proof. exact to_bool_nc. Qed.

Theorem C05_scalar_to_f64_total : forall d, is_crash (to_f64 d) = false /\ is_crash (to_f64_bits d) = false.
Proof. intros d. split; [apply to_f64_nc|apply to_f64_bits_nc]. Qed.
Print Assumptions C05_scalar_to_f64_total.

Theorem C05_date_add_days_in_range : ltac:(let t := type of C13.C13_add_days_until in exact t).
Proof. exact C13.C13_add_days_until. Qed.
Print Assumptions C05_date_add_days_in_range.

Theorem C05_date_days_total : ltac:(let t := type of C13.C13_date_days_total in exact t).
Proof. exact C13.C13_date_days_total. Qed.

Theorem C05_date_days_until_total : forall r1 r2, is_date r1 -> is_date r2 -> exists n, days_until r1 r2 = Ok n.
Proof. exact days_until_total. Qed.
Print Assumptions C05_date_days_until_total.

(* the documented panic of add_days is real in the model: 1400.1.1 + (2^31 - 1) days *)
Example C05_date_add_days_documented_panic : add_days (mkraw 1400 4352) 2147483647 = Panic 1305.
Proof. vm_compute. reflexivity. Qed.

(* non-vacuity (valid dates exist: C13_add_days_examples; here concrete values) *)
Example C05_leaves_nonvacuous_scalar :
  to_u64 [49; 50] = Ok 12 /\ to_i64 [45; 55] = Ok (-7)%Z /\ to_bool [121; 101; 115] = Ok true /\
  to_u64 [1000] = Err E_AllDigits.
Proof. split; [reflexivity|]. split; [reflexivity|]. split; reflexivity. Qed.
Example C05_leaves_nonvacuous_date :
  add_days (mkraw 1400 4352) 728 = Ok (mkraw 1401 53120) /\
  days_until (mkraw 1400 4352) (mkraw 1401 53120) = Ok 728%Z.
Proof. split; vm_compute; reflexivity. Qed.
