(* C02, wave 5 (engineer w_c02): maps with TYPED keys, and the size hints of the tape path's accesses.

   The statement lists "maps" among the target types; Props/C02_walk*.v cover String keys (ShMap).  A map keyed by an
   integer / bool / date / enum sends the key type's typed hint to the KEY deserializer: ValueDeserializer { kind:
   ValueKind::Scalar(key) } on the tape path, TextReaderTokenDeserializer::new(key token) on the stream path.  The
   visitor loop is modelled by TextDeKeys.kloop / skloop (run against the implementation: stream keys_model; oracle from
   the abstract document: stream typed_keys).  The theorems are stated where the key type's hint lands:

     * C02_key_hint_tape / C02_key_hint_stream: for EVERY key bytes and every scalar hint the key deserializers issue the
       visit scalar_prim says (typed parse with fall back to the decoded string), the tape path with and the stream path
       without the borrowed flag;
     * C02_typed_key_paths_agree: hence for every scalar key shape (String, bool, uN, iN, f32, f64, Date, DateHour, any,
       ignored) and every key, the stream path's key value is the tape path's and the reader is untouched;
     * C02_key_unsigned_exact / _signed_ / _bool_ / _date_ / _string_: the key value is the one Scalar::to_u64 / to_i64 /
       to_bool / the date parser / the decoder give (their decimal / calendar meaning is C11 / C13 / C12's subject);
     * C02_enum_key_tape_refused: an enum-typed key is refused by the tape path WHATEVER the key is, while the stream path
       accepts every declared name (C02_enum_key_stream_accepts): the paths differ -- finding R-tape-enum-key,
       C02_enum_key_paths_differ_refuted (computed witness at the root level);
     * C02_seq_size_hint_exact / C02_map_size_hint_exact: SeqAccess::size_hint (dom.rs values_len) and MapAccess::size_hint
       (fields_len) are exactly the number of remaining elements / fields of the document (streams size_hints,
       hints_model).
   NOT proved: a root-level theorem "kloop over flatten d = the document's key/value pairs" (the loop is run against the
   implementation and against the Python oracle only); Option / newtype wrappers around a key shape. *)
From JV Require Import Bytes Utf8 Scalar Date TextTok TextReader TextDoc SerdeShape TextDeCommon TextDeTape TextDeStream TextDeSpec TextDeSpec2 TextDeKeys.
From JV.proofs Require Import TextParseProofs TextDeTapeProofs TextDeMoreTape TextDeKeysProofs.
From JV.Props Require Import C02_walk.
Open Scope nat_scope.

Theorem C02_key_hint_tape : forall (decode : bytes -> cow) (parse_f64 : bytes -> outcome N) (t : ttape) h raw,
  hint_scalar h = true ->
  tape_visit decode parse_f64 t h (KScalar raw) = Ok (TVPrim (scalar_prim decode parse_f64 true h raw)).
Proof. exact key_hint_tape. Qed.
Print Assumptions C02_key_hint_tape.

Theorem C02_key_hint_stream : forall (decode : bytes -> cow) (parse_f64 : bytes -> outcome N) h k raw,
  hint_scalar h = true ->
  stream_visit decode parse_f64 h (scalar_rtok k raw) = Ok (SVPrim (scalar_prim decode parse_f64 false h raw)).
Proof. exact key_hint_stream. Qed.
Print Assumptions C02_key_hint_stream.

Theorem C02_typed_key_paths_agree :
  forall (decode : bytes -> cow) (parse_f64 : bytes -> outcome N) (F : fops) (t : ttape) (R : Type)
         (rnext : R -> outcome (option TextReader.rtok * R)) (rskip : R -> outcome R) (rexpect : R -> outcome (TextReader.rtok * R))
         c k raw op (r : R) f f',
  shape_scalar c = true ->
  sde decode parse_f64 F R rnext rskip rexpect (S f) c (scalar_rtok k raw) op r =
    (do x <- TextDeTape.de decode parse_f64 F t (S f') c (KScalar raw); Ok (x, r)).
Proof. exact key_paths_agree. Qed.
Print Assumptions C02_typed_key_paths_agree.

Theorem C02_key_unsigned_exact : forall (decode : bytes -> cow) (parse_f64 : bytes -> outcome N) (F : fops) (t : ttape) bits raw n f,
  to_u64 raw = Ok n -> in_u bits (Z.of_N n) = true ->
  TextDeTape.de decode parse_f64 F t (S f) (ShU bits) (KScalar raw) = Ok (DU n).
Proof. exact key_unsigned_exact. Qed.
Print Assumptions C02_key_unsigned_exact.

Theorem C02_key_signed_exact : forall (decode : bytes -> cow) (parse_f64 : bytes -> outcome N) (F : fops) (t : ttape) bits raw z f,
  to_i64 raw = Ok z -> in_i bits z = true ->
  TextDeTape.de decode parse_f64 F t (S f) (ShI bits) (KScalar raw) = Ok (DI z).
Proof. exact key_signed_exact. Qed.

Theorem C02_key_bool_exact : forall (decode : bytes -> cow) (parse_f64 : bytes -> outcome N) (F : fops) (t : ttape) raw b f,
  to_bool raw = Ok b ->
  TextDeTape.de decode parse_f64 F t (S f) ShBool (KScalar raw) = Ok (DBool b).
Proof. exact key_bool_exact. Qed.

Theorem C02_key_date_exact : forall (decode : bytes -> cow) (parse_f64 : bytes -> outcome N) (F : fops) (t : ttape) raw f,
  TextDeTape.de decode parse_f64 F t (S f) ShDate (KScalar raw) = date_val false (date_parse (cow_bytes (decode raw))).
Proof. exact key_date_exact. Qed.

Theorem C02_key_string_exact : forall (decode : bytes -> cow) (parse_f64 : bytes -> outcome N) (F : fops) (t : ttape) raw f,
  TextDeTape.de decode parse_f64 F t (S f) ShStr (KScalar raw) = Ok (DStr (cow_bytes (decode raw))).
Proof. exact key_string_exact. Qed.

(* non-vacuity: `5` as a u32 key, `-5` as an i16 key, `1444.11.11` as a Date key *)
Example C02_key_exact_nonvacuous :
  to_u64 [53]%N = Ok 5%N /\ in_u 32 (Z.of_N 5) = true /\
  to_i64 [45; 53]%N = Ok (-5)%Z /\ in_i 16 (-5) = true /\
  TextDeTape.de dec0 pf0 F0 [] 1 ShDate (KScalar [49; 52; 52; 52; 46; 49; 49; 46; 49; 49]%N) = Ok (DDate 1444 11 11 0).
Proof. repeat split; vm_compute; reflexivity. Qed.

Theorem C02_enum_key_tape_refused : forall (decode : bytes -> cow) (parse_f64 : bytes -> outcome N) (F : fops) (t : ttape) names raw f,
  TextDeTape.de decode parse_f64 F t (S f) (ShEnum names) (KScalar raw) = Err EC_DE.
Proof. exact enum_key_tape_refused. Qed.
Print Assumptions C02_enum_key_tape_refused.

Theorem C02_enum_key_stream_accepts :
  forall (decode : bytes -> cow) (parse_f64 : bytes -> outcome N) (F : fops) (R : Type)
         (rnext : R -> outcome (option TextReader.rtok * R)) (rskip : R -> outcome R) (rexpect : R -> outcome (TextReader.rtok * R))
         names k raw op (r : R) f,
  existsb (beqb (cow_bytes (decode raw))) names = true ->
  sde decode parse_f64 F R rnext rskip rexpect (S f) (ShEnum names) (scalar_rtok k raw) op r = Ok (DEnum (cow_bytes (decode raw)), r).
Proof. exact enum_key_stream_accepts. Qed.

(* `north = 1 south = 2` into HashMap<Side, u8>, enum Side { north, south } *)
Definition b_north : bytes := [110; 111; 114; 116; 104]%N.
Definition b_south : bytes := [115; 111; 117; 116; 104]%N.
Definition docK : doc :=
  FCons (Field Unq b_north (Some Equal) (VScalar Unq [49]%N)) (FCons (Field Unq b_south (Some Equal) (VScalar Unq [50]%N)) FNil).
Theorem C02_enum_key_paths_differ_refuted :
  wf_doc docK /\
  kmap_root_tape dec0 pf0 F0 (ShEnum [b_north; b_south]) (ShU 8) (flatten docK) = Err EC_DE /\
  kmap_root_stream dec0 pf0 F0 (ShEnum [b_north; b_south]) (ShU 8) (tokens docK) =
    Ok [ (DEnum b_north, DU 1); (DEnum b_south, DU 2) ] /\
  (* the same document with integer-typed values and String keys: both paths *)
  kmap_root_tape dec0 pf0 F0 ShStr (ShU 8) (flatten docK) = Ok [ (DStr b_north, DU 1); (DStr b_south, DU 2) ] /\
  kmap_root_stream dec0 pf0 F0 ShStr (ShU 8) (tokens docK) = Ok [ (DStr b_north, DU 1); (DStr b_south, DU 2) ].
Proof. split; [reflexivity|]. repeat split; vm_compute; reflexivity. Qed.
Print Assumptions C02_enum_key_paths_differ_refuted.

(* ---- size hints *)
Theorem C02_seq_size_hint_exact : forall (t : ttape) vs ti fuel,
  ext_items vs = true -> at_ t ti (flat_values ti vs) -> nvals vs < fuel ->
  values_len t fuel ti (ti + vslen vs) = Ok (nvals vs).
Proof. intros t vs ti fuel He. exact (values_len_items t vs He ti fuel). Qed.
Print Assumptions C02_seq_size_hint_exact.

Theorem C02_map_size_hint_exact : forall (t : ttape) fs ti en fuel,
  ext_fields fs = true -> at_ t ti (flat_fields false ti fs) -> en = ti + fslen false fs -> nfields fs < fuel ->
  fields_len t fuel ti en = Ok (nfields fs).
Proof. intros t fs ti en fuel He. exact (fields_len_fields t fs He ti en fuel). Qed.
Print Assumptions C02_map_size_hint_exact.

Example C02_size_hint_nonvacuous :
  ext_fields docK = true /\ at_ (flatten docK) 0 (flat_fields false 0 docK) /\
  fields_len (flatten docK) 5 0 (length (flatten docK)) = Ok 2 /\
  map_hints (flatten docK) 9 0 (length (flatten docK)) = Ok [2; 1; 0].
Proof. split; [reflexivity|]. split; [apply at_root|]. split; vm_compute; reflexivity. Qed.
