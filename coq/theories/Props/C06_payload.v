(* C06 (binary half), wave 4 -- the two clauses that were open:

   1. the byte-level clause "binary scalars and numeric payloads equal the input bytes at their
      position": [payloads_in_input bytes t] (BinTapePayload.v) -- walking the input from offset 0,
      every token of the tape is met in order and decoded by the wire format's own readers from the
      bytes at its position (numbers, floats, bools, strings as slices, rgb blocks, ids; Array /
      Object on an OPEN lexeme, End on a CLOSE lexeme, Equal on an EQUAL lexeme), only whole
      lexemes are skipped in between, and fewer than two bytes of the input are left at the end.
      ALL byte strings, optimised and reference interpretation, fx = false (the three id-class tests
      as they were) and fx = true (I64 excluded, the code as it is now).

   2. soundness of the executable checker the harness mirrors on the real tapes
      (harness/src/fam_bintape.rs `wf`; cross-checked against BinTapeWf.tape_wfb, the text checker
      and the Python checker on sound and unsound shapes by the stream `checker_shapes`):
      tape_wfb t = true -> tape_wf t.  (C06_bin_checker_complete is the converse.)

   Statements only. *)
From JV Require Import Bytes Tables BinPrim BinTape BinTapeWf BinTapePayload.
From JV Require BinTapeMirror.
From JV.proofs Require Import BinTapeWfProofs BinTapeCheckerProofs BinTapePayloadProofs.
From JV.proofs Require BinTapeMirrorProofs.

Theorem C06_bin_payloads : forall fx opt bytes t, parse fx opt bytes = Ok t -> payloads_in_input bytes t.
Proof. exact parse_payloads. Qed.
Print Assumptions C06_bin_payloads.

Theorem C06_bin_payloads_opt : forall bytes t, parse_opt bytes = Ok t -> payloads_in_input bytes t.
Proof. intros. eapply parse_payloads; eauto. Qed.
Print Assumptions C06_bin_payloads_opt.

Theorem C06_bin_payloads_ref : forall bytes t, parse_ref bytes = Ok t -> payloads_in_input bytes t.
Proof. intros. eapply parse_payloads; eauto. Qed.
Print Assumptions C06_bin_payloads_ref.

(* the invariant behind it, one step of the (extended) reference machine of BinTapeSim *)
Theorem C06_bin_payloads_step : forall fx input s s',
  lexes input (s_tape s) (s_data s) -> BinTapeSim.xstep fx s s' -> lexes input (s_tape s') (s_data s').
Proof. exact xstep_lexes. Qed.
Print Assumptions C06_bin_payloads_step.

(* The stronger reading "every payload lexeme of the input is on the tape" was FALSE until the fix for
   finding L (in `a = { {} x y = z }` the "only empty objects so far" repair of binary/tape.rs -- EQUAL in
   ArrayValue, chunks_exact(2) ignoring the odd trailing token -- truncated the tape behind the container
   start and dropped x; the witness theorem C06_bin_payloads_all_kept_refuted stood here).  The test now
   requires `pairs.remainder().is_empty()`, and the positive statement holds for every accepted input,
   optimised and reference interpretation (the parsers the correspondence check runs): every token of the
   lexer's token sequence other than `{`, `}`, `=` is a token of the tape ([untape]: the token sequence the
   tape denotes, an Rgb token standing for the lexemes of its block).  Proof: C03's mirror theorem
   (proofs/BinTapeMirrorProofs.v: the stream is the tape plus inserted `{ }` pairs).  [lexes] of
   [payloads_in_input] may still skip whole lexemes by its definition; that it skips `{ } =` only is this
   theorem. *)
Theorem C06_bin_payloads_all_kept : forall bytes t, parse_opt bytes = Ok t \/ parse_ref bytes = Ok t ->
  exists toks, BinTapeMirror.raw_lex bytes = Some toks /\
    forall x, In x toks -> x <> BOpen -> x <> BClose -> x <> BEqual -> In x (BinTapeMirror.untape t).
Proof. exact BinTapeMirrorProofs.tape_keeps_payloads. Qed.
Print Assumptions C06_bin_payloads_all_kept.

(* regression example: the former witness input keeps the id 0x2d87 = 11655 at offset 10 *)
Example C06_bin_payloads_former_witness :
  exists t, parse_opt [130;45; 1;0; 3;0; 3;0; 4;0; 135;45; 136;45; 1;0; 138;45; 4;0]%N = Ok t /\
            parse_ref [130;45; 1;0; 3;0; 3;0; 4;0; 135;45; 136;45; 1;0; 138;45; 4;0]%N = Ok t /\
            In (TToken 11655) t.
Proof.
  eexists. split; [vm_compute; reflexivity|]. split; [vm_compute; reflexivity|]. cbn. tauto.
Qed.

Theorem C06_bin_checker_sound : forall t, tape_wfb t = true -> tape_wf t.
Proof. exact checker_sound. Qed.
Print Assumptions C06_bin_checker_sound.

Theorem C06_bin_checker_decides_grammar : forall t, tape_wfb t = true <-> (closed_seq 0 t /\ not_cont_hd t).
Proof. exact checker_iff. Qed.
Print Assumptions C06_bin_checker_decides_grammar.

(* non-vacuity: the relation holds on a real accepted input (mixed container, ghost objects, by the
   theorem) and it does reject: a U32 token whose value is not the input's, a token the input does
   not contain *)
Example C06_bin_payloads_nonvacuous : exists t,
  parse_opt [111;52; 1;0; 3;0; 187;187; 1;0; 14;0; 1; 14;0; 0; 3;0; 4;0; 4;0]%N = Ok t /\ t <> [] /\
  payloads_in_input [111;52; 1;0; 3;0; 187;187; 1;0; 14;0; 1; 14;0; 0; 3;0; 4;0; 4;0]%N t.
Proof.
  eexists. split; [vm_compute; reflexivity|]. split; [discriminate|].
  eapply parse_payloads with (fx := fast_path_excludes_i64) (opt := true). vm_compute. reflexivity.
Qed.

Example C06_bin_payloads_rejects : forall r, ~ lexes [] [TToken 1] r.
Proof.
  intros r H. inversion H; subst.
  - destruct H0 as (id & d1 & E & _). discriminate.
  - discriminate.
  - discriminate.
Qed.
