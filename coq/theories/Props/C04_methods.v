(* C04 -- the method tables of the binary serde `Deserializer` impls (engineer w_fwd, wave 5).  Statements only.

   src/binary/de.rs has seven `impl de::Deserializer<'de> for X`: three roots, the token deserializers of the streaming and
   the on-demand path, the tape's KeyDeserializer and ValueDeserializer.  Each implements some deserialize_* methods and
   forwards the rest with forward_to_deserialize_any!.  tools/gen_de_methods.py re-extracts these tables from the source
   on every run (Tables.de_tables); DeMethods.normal resolves forwarding chains; DeMethods.predict says which visit calls
   a recording visitor sees -- and is run against the real deserializers on every (method, token kind, strategy,
   position, path) cell by the stream `method_table` (kinds de.meth.bin, harness/src/fam_dmeth.rs).
   The known findings N P Q R are exactly the cells in which these tables differ between the paths.

   Codes (DeMethods.v): deserializers 1 = BinaryReaderTokenDeserializer, 3 = OndemandTokenDeserializer, 5 = KeyDeserializer,
   6 = ValueDeserializer, 0 2 4 = roots; methods M_*; token kinds T_* (bin_value_tokens = known / unknown id, quoted,
   unquoted, i32, u32, u64, i64, bool, f32, f64, rgb, two-element array, `{}`, non-empty object); strategies 0 Error
   1 Stringify 2 Ignore; an observation = (visit heads, S_ok | S_err). *)
From Coq Require Import List NArith Bool.
From JV Require Import Tables DeMethods.
From JV.proofs Require Import DeMethodsProofs.
Import ListNotations.
Open Scope N_scope.

(* Totality: every one of the 29 methods serde requires is explicit or in the forward list of every binary deserializer
   (what the compiler checks, re-established for the translator's reading of the source) ... *)
Theorem C04_methods_total : forall d m, In d [0; 1; 2; 3; 4; 5; 6] -> In m required_methods ->
  is_explicit d m = true \/ is_forwarded d m = true.
Proof. exact methods_total_bin. Qed.
Print Assumptions C04_methods_total.

(* ... no forwarding chain runs in a circle ... *)
Theorem C04_methods_no_cycle : forall d m, In d all_deserializers -> In m all_methods -> has_loop (normal d m) = false.
Proof. exact methods_no_cycle. Qed.
Print Assumptions C04_methods_no_cycle.

(* ... and the only methods that are neither explicit nor forwarded (serde's default body: "i128 is not supported") are
   i128 / u128 of the three token deserializers that sit on a lexer or token reader. *)
Theorem C04_methods_missing_exactly : forall d m, In d all_deserializers -> In m all_methods ->
  (is_missing d m = true <-> In (d, m) [(1, 6); (1, 11); (3, 6); (3, 11); (11, 6); (11, 11)]).
Proof. exact missing_exactly. Qed.
Print Assumptions C04_methods_missing_exactly.

(* FULL totality (every method incl. i128 / u128 present on every deserializer) is REFUTED: finding R.  The tape forwards
   the 128-bit methods to deserialize_any (an i32 token reaches the visitor), the lexer paths answer Err. *)
Theorem C04_methods_total_128_refuted :
  is_missing D_bin_reader_tok M_i128 = true /\ is_missing D_bin_ondemand_tok M_i128 = true /\
  is_missing D_bin_reader_tok M_u128 = true /\ is_missing D_bin_ondemand_tok M_u128 = true /\
  is_forwarded D_bin_tape_value M_i128 = true /\ is_forwarded D_bin_tape_value M_u128 = true /\
  predict D_bin_tape_value M_u128 T_i32 0 = ([H_int], S_ok) /\
  predict D_bin_ondemand_tok M_u128 T_i32 0 = ([], S_err) /\
  predict D_bin_reader_tok M_u128 T_i32 0 = ([], S_err).
Proof. exact finding_R_witness. Qed.
Print Assumptions C04_methods_total_128_refuted.

(* The two lexer token deserializers are predicted equal in every cell (no exception). *)
Theorem C04_lexer_methods_agree : forall m t s, In m all_methods -> In t bin_value_tokens -> In s strategies ->
  predict D_bin_reader_tok m t s = predict D_bin_ondemand_tok m t s.
Proof. exact lexer_predict_equal. Qed.
Print Assumptions C04_lexer_methods_agree.

(* VALUE position: the three value deserializers agree method by method, token kind by token kind, except in the cells of
   Q (unit / unit_struct), R (i128 / u128), N (u16 on a token id) and where the target does not fit the token (something
   else than a map / struct / ignored value asked of an object -- the recording visitor continues Option / newtype / enum
   with deserialize_any --, a map asked of an rgb value). *)
Theorem C04_value_methods_agree : forall m t s, In m all_methods -> In t bin_value_tokens -> In s strategies ->
  cell_Q m = false -> cell_R m = false -> cell_N m t = false -> fits_token m t = true ->
  predict D_bin_reader_tok m t s = predict D_bin_ondemand_tok m t s /\
  predict D_bin_ondemand_tok m t s = predict D_bin_tape_value m t s.
Proof. exact value_methods_agree. Qed.
Print Assumptions C04_value_methods_agree.

Example C04_value_methods_agree_nonvacuous :
  cell_Q M_option = false /\ cell_R M_option = false /\ cell_N M_option T_i64 = false /\ fits_token M_option T_i64 = true /\
  predict D_bin_tape_value M_option T_i64 1 = ([H_some; H_int], S_ok).
Proof. vm_compute. repeat split; reflexivity. Qed.

(* The exceptions are exact.  Q: in EVERY cell of unit / unit_struct the tape differs from the lexer paths ... *)
Theorem C04_unit_agree_refuted : forall m t s, In m [M_unit; M_unit_struct] -> In t bin_value_tokens -> In s strategies ->
  predict D_bin_ondemand_tok m t s <> predict D_bin_tape_value m t s.
Proof. exact finding_Q_cells. Qed.
Print Assumptions C04_unit_agree_refuted.

(* ... N: a token id asked as u16 in VALUE position is the id itself on the lexer paths and goes to the resolver on the tape *)
Theorem C04_u16_value_agree_refuted : forall t s, In t [T_idk; T_idu] -> In s strategies ->
  predict D_bin_ondemand_tok M_u16 t s = ([H_u16], S_ok) /\
  predict D_bin_ondemand_tok M_u16 t s <> predict D_bin_tape_value M_u16 t s.
Proof. exact finding_N_cells. Qed.
Print Assumptions C04_u16_value_agree_refuted.

(* KEY position: the tape hands keys to KeyDeserializer (u16 and any only), the lexer paths to their token deserializers:
   they agree except in the cells of P (newtype_struct / enum / option), Q, R and ignored_any (no target ignores a key). *)
Theorem C04_key_methods_agree : forall m t s, In m all_methods -> In t bin_scalar_tokens -> In s strategies ->
  cell_P m = false -> cell_Q m = false -> cell_R m = false -> m <> M_ignored_any ->
  predict D_bin_reader_tok m t s = predict D_bin_ondemand_tok m t s /\
  predict D_bin_ondemand_tok m t s = predict D_bin_tape_key m t s.
Proof. exact key_methods_agree. Qed.
Print Assumptions C04_key_methods_agree.

(* P: in every cell of newtype_struct / enum / option on a key that can be read at all, the tape differs *)
Theorem C04_key_wrappers_agree_refuted : forall m t s,
  In m [M_newtype_struct; M_enum; M_option] -> In t bin_scalar_tokens -> In s strategies ->
  (t =? T_idu) && (s =? 0) = false ->
  predict D_bin_ondemand_tok m t s <> predict D_bin_tape_key m t s.
Proof. exact finding_P_cells. Qed.
Print Assumptions C04_key_wrappers_agree_refuted.

(* deserialize_ignored_any of every value deserializer (binary and text) is a direct visit_unit -- its chain never passes
   through deserialize_any (so nothing inside an unwanted value is ever visited, resolved or decoded) -- with a skip exactly
   on the deserializers whose reader stands inside the value.  (The seeded change C04_4 puts ignored_any into the forward
   list of the tape's ValueDeserializer: this theorem then fails.) *)
Theorem C04_ignored_never_through_any : forall d, In d value_deserializers ->
  through_any d M_ignored_any = false /\
  normal d M_ignored_any = NfDirect [V_unit] ((d =? D_bin_reader_tok) || (d =? D_bin_ondemand_tok) || (d =? D_text_reader_tok)).
Proof. exact ignored_never_through_any. Qed.
Print Assumptions C04_ignored_never_through_any.

(* ... and for every token kind and strategy the visitor sees visit_unit and the field behind the value reads back *)
Theorem C04_ignored_consumes : forall d t s, In d bin_value_deserializers -> In t bin_value_tokens -> In s strategies ->
  predict d M_ignored_any t s = ([H_unit], S_ok).
Proof. exact ignored_consumes_bin. Qed.
Print Assumptions C04_ignored_consumes.

(* A token id in KEY position asked as u16 is the id itself on all three paths, whatever the resolver knows and whatever
   the strategy is (what `#[jomini(token = ..)]` structs rely on). *)
Theorem C04_key_u16_shortcut : forall d t s, In d bin_key_deserializers -> In t [T_idk; T_idu] -> In s strategies ->
  normal d M_u16 = NfCond [V_u16] false NfBase /\ predict d M_u16 t s = ([H_u16], S_ok).
Proof. exact key_u16_shortcut. Qed.
Print Assumptions C04_key_u16_shortcut.

(* The root deserializers (binary and text) answer deserialize_map / deserialize_struct with visit_map and refuse the rest. *)
Theorem C04_roots_only_maps : forall d m, In d root_deserializers -> In m all_methods ->
  normal d m = if (m =? M_map) || (m =? M_struct) then NfDirect [V_map] false else NfRefuse.
Proof. exact roots_only_maps. Qed.
Print Assumptions C04_roots_only_maps.

(* The typed scalar shortcuts never change the visit: under bool, every integer and float width except u16 and the 128-bit
   ones, char, str, string, bytes, byte_buf and identifier the visitor sees what it sees under deserialize_any. *)
Theorem C04_scalar_hints_are_any : forall d m t s, In d bin_value_deserializers -> In m all_methods -> scalar_hint m = true ->
  In t bin_value_tokens -> In s strategies -> predict d m t s = predict d M_any t s.
Proof. exact scalar_hints_are_any. Qed.
Print Assumptions C04_scalar_hints_are_any.
