(* C11 (wave 4) — each conversion of scalar.rs, as ONE equation with a specification function, for EVERY byte
   string (accepted value, refusal, and refusal class).  Statements only.

   Vocabulary (ScalarSpec.v, definitions only, written from the grammar, not from the state machine):
     digit_span d        = (maximal run of '0'..'9' at the front of d, the rest);
     dec_value ds        = decimal value of a digit string; dec_on acc ds = the same on top of acc;
     u64_spec d          = d empty, or no '+' and no leading digit  -> Err AllDigits
                           body := d without an optional leading '+';  (ds, rest) := digit_span body
                           2^64 <= dec_value ds                      -> Err Overflow   (even when rest is garbage)
                           rest empty -> Ok (dec_value ds)           else Err AllDigits
     i64_spec d          = the same with an optional '+' or '-', limit 2^63-1 (Overflow), value negated after '-';
     bool_spec d         = Ok true for "yes", Ok false for "no", else Err InvalidBool;
     f64_spec_x d        = optional '-'; then '.' digit+  |  ('+' digit* | digit+) [ '.' digit+ ];
                           lead digits >= 2^64 -> Overflow; no '.': negative and > 2^63-1 -> Overflow, > 2^53-1 ->
                           PrecisionLoss(nearest double), else the integer; with '.': all digits as one integer
                           >= 2^64 -> Overflow, no digit after '.' -> Overflow, garbage after the digits ->
                           AllDigits, more than 22 fractional digits -> Overflow, else
                           FOk (f64_scaled neg i k) = sign * (i as f64 / 1e<k>)  (characterised numerically by
                           Props/C11.v, Props/C11_ulp.v: correctly rounded below 2^53, within 2 ulp always);
     f64_spec d          = f64_spec_x d without the PrecisionLoss payload.
   The spec functions are themselves executed against the real code (kinds scalar.spec, f64.full). *)
From Coq Require Import Reals.
From Flocq Require Import Core.Core IEEE754.BinarySingleNaN IEEE754.Binary IEEE754.Bits.
From JV Require Import Bytes Tables Utf8 Encoding Scalar ScalarF64 ScalarSpec Date.
From JV.proofs Require Import ScalarProofs ScalarF64Proofs ScalarUlpProofs EncodingProofs ScalarSpecProofs.
Open Scope N_scope.

Theorem C11_to_u64_eq_spec : forall d, to_u64 d = u64_spec d.
Proof. exact to_u64_eq_spec. Qed.
Print Assumptions C11_to_u64_eq_spec.

Theorem C11_to_i64_eq_spec : forall d, to_i64 d = i64_spec d.
Proof. exact to_i64_eq_spec. Qed.
Print Assumptions C11_to_i64_eq_spec.

(* the prefix parsers behind them (anchor mechanism "to_i64_t sign handling and i64::try_from"; also what the
   date parser calls): the value of the leading run and the unread rest, for every byte string / every start *)
Theorem C11_to_i64_t_eq_spec : forall d, to_i64_t d = i64t_spec d.
Proof. exact to_i64_t_eq_spec. Qed.
Print Assumptions C11_to_i64_t_eq_spec.

Theorem C11_to_u64_t_eq_spec : forall d start, start < U64_LIM -> to_u64_t d start = u64t_spec d start.
Proof. exact to_u64_t_eq_spec. Qed.
Print Assumptions C11_to_u64_t_eq_spec.

Theorem C11_to_bool_eq_spec : forall d, to_bool d = bool_spec d.
Proof. exact to_bool_eq_spec. Qed.
Print Assumptions C11_to_bool_eq_spec.

Theorem C11_to_f64_eq_spec : forall d, to_f64 d = f64_spec d.
Proof. exact to_f64_eq_spec. Qed.
Print Assumptions C11_to_f64_eq_spec.

(* the value the spec's fractional branch returns is the one the numeric theorems of C11.v / C11_ulp.v are about *)
Theorem C11_f64_scaled_is_frac_value : forall neg i k, f64_scaled neg i k = frac_value neg i k.
Proof. exact f64_scaled_eq. Qed.

(* PrecisionLoss: every integer rendering [-](digit|'+')digit* whose magnitude v is above 2^53-1 (and fits the
   accumulator, and i64 when negative) is refused with PrecisionLoss whose payload is the NEAREST double of the
   signed integer (round-to-nearest-even), finite *)
Theorem C11_to_f64_loss_payload : forall (neg : bool) c ds,
  lead_ok c -> all_digits ds = true ->
  let v := dec_acc ds (lead_val c) in
  let z := (if neg then - Z.of_N v else Z.of_N v)%Z in
  f64_int_guard < v -> v < U64_LIM -> (neg = true -> v <= I64_MAX) ->
  f64_spec_x (sgn neg ++ c :: ds) = FLoss (f64_of_Z z) /\
  to_f64 (sgn neg ++ c :: ds) = Err E_PrecisionLoss /\
  B2R 53 1024 (f64_of_Z z) = round radix2 (FLT_exp (3 - 1024 - 53) 53) (round_mode mode_NE) (IZR z) /\
  is_finite 53 1024 (f64_of_Z z) = true.
Proof. exact f64_loss_payload. Qed.
Print Assumptions C11_to_f64_loss_payload.

(* ... and a payload is attached to nothing else *)
Theorem C11_to_f64_loss_only_int : forall d p, f64_spec_x d = FLoss p ->
  exists (neg : bool) v, v < U64_LIM /\ f64_int_guard < v /\ p = f64_of_Z (if neg then - Z.of_N v else Z.of_N v)%Z.
Proof. exact f64_loss_only_int. Qed.

(* the fractional branch ON STRINGS (this completes C11.C11_to_f64_two_roundings_partial, which is stated on
   frac_value only): a string with a '.' that converts has i < 2^64, k <= 22 and the double is
   sign * RNE(RNE(i) / 10^k) *)
Theorem C11_to_f64_two_roundings_strings : forall d neg i k r,
  f64_decimal d neg i k -> k <> 0 -> to_f64 d = Ok r ->
  i < U64_LIM /\ k <= 22 /\
  B2R 53 1024 r =
    ((if neg then -1 else 1) *
     round radix2 (FLT_exp (3 - 1024 - 53) 53) (round_mode mode_NE)
       (round radix2 (FLT_exp (3 - 1024 - 53) 53) (round_mode mode_NE) (IZR (Z.of_N i)) / IZR (10 ^ Z.of_N k)))%R.
Proof. exact to_f64_two_roundings. Qed.
Print Assumptions C11_to_f64_two_roundings_strings.

(* what is missing from C11_ulp.C11_to_f64_monotone_partial is FALSE: across different numbers of fractional
   digits and digit integers >= 2^53, to_f64 is not monotone.  "9007199254740995.0" -> 2^53+4 but the strictly
   larger "9007199254740995.01" -> 2^53+2.  (Not promised by the property: both are within 2 ulp.) *)
Theorem C11_to_f64_monotone_cross_scale_refuted :
  exists r r', f64_decimal w_mono_a false 90071992547409950 1 /\ f64_decimal w_mono_b false 900719925474099501 2 /\
    to_f64 w_mono_a = Ok r /\ to_f64 w_mono_b = Ok r' /\
    (decimal_value false 90071992547409950 1 < decimal_value false 900719925474099501 2)%R /\
    (B2R 53 1024 r' < B2R 53 1024 r)%R.
Proof. exact to_f64_monotone_cross_scale_refuted. Qed.
Print Assumptions C11_to_f64_monotone_cross_scale_refuted.

(* the rest of the public surface of Scalar: Display never fails; all-ASCII -> the bytes without trailing
   blanks and without backslashes; otherwise the fixed message with the length.  Debug wraps Display. *)
Theorem C11_scalar_display_spec : forall d,
  scalar_display d = Ok (if scalar_is_ascii d then unescape (trim_ascii_end d)
                         else NON_ASCII_PRE ++ dec_N (lenN d) ++ NON_ASCII_POST).
Proof. exact scalar_display_spec. Qed.
Print Assumptions C11_scalar_display_spec.

Theorem C11_scalar_debug_spec : forall d,
  exists s, scalar_display d = Ok s /\ scalar_debug d = Ok ([83;99;97;108;97;114;32;123;32] ++ s ++ [32;125]).
Proof. exact scalar_debug_spec. Qed.

Theorem C11_scalar_eq_spec : forall a b, scalar_eq a b = true <-> a = b.
Proof. exact scalar_eq_spec. Qed.

(* non-vacuity: the spec functions accept, refuse with each class, and attach a payload *)
Example C11_spec_nonvacuous :
  u64_spec [43; 48; 52; 50] = Ok 42 /\ u64_spec [49; 120] = Err E_AllDigits /\
  i64_spec [45; 53] = Ok (-5)%Z /\ i64_spec [45; 57;50;50;51;51;55;50;48;51;54;56;53;52;55;55;53;56;48;56] = Err E_Overflow /\
  bool_spec [110; 111] = Ok false /\
  f64_spec_show [49; 46; 53] = (0, 4609434218613702656%Z) /\
  f64_spec_show [49; 46] = (E_Overflow, 0%Z) /\ f64_spec_show [49; 46; 53; 120] = (E_AllDigits, 0%Z) /\
  f64_spec_show [57;48;48;55;49;57;57;50;53;52;55;52;48;57;57;51] = (E_PrecisionLoss, 4845873199050653696%Z) /\
  scalar_display [97; 92; 98; 32] = Ok [97; 98] /\ scalar_display [255] = Ok (NON_ASCII_PRE ++ [49] ++ NON_ASCII_POST).
Proof. repeat split; vm_compute; reflexivity. Qed.
