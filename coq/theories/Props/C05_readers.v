(* C05 -- the streaming readers never crash, never run out of fuel.  Statements only.

   TEXT (TextReader.v over BufWin.v).  The crash constructors of the model are NCrash / OCrash
   (tokeniser: an access outside the window, a failed debug_assert of advance, AND fuel exhaustion
   of the refill loop = NCrash 7003, of the scan loops = 7001/7030, of the driver = OCrash 7099),
   Panic / OOB / OutOfFuel (read_bytes, skip_container, skip_unquoted_value).
     C05_text_next_never_crashes      one call of next_opt in any consistent reader state (rokf:
                                      input = consumed ++ window ++ unread, window within the buffer),
                                      ANY schedule (Fail events included), any capacity > 0 or the
                                      slice window, fuel >= |unread| + 2
     C05_text_run_next_never_crashes  the `next`-until-the-end driver from any such state
     C05_text_stream_never_crashes    run_stream with the driver's own fuel (default_fuel) and
                                      iteration bound (|input| + 2): every input with bytes < 256,
                                      every schedule, every capacity > 0 -- no hypothesis relating the
                                      capacity to the input (too small a buffer = BufferFull)
     C05_text_stream_ends_properly    ... and the run is tokens followed by exactly one of
                                      End / Eof / Io / BufferFull
     C05_text_slice_never_crashes     the zero-copy reader
     C05_text_read_bytes_never_crashes / C05_text_skip_container_never_crashes /
     C05_text_skip_unquoted_value_never_crashes
                                      NO hypothesis on the reader state (any window contents, any
                                      capacity incl. 0, any schedule, bytes need not be < 256), fuel
                                      bounds |unread| < fuel resp. |unread| + 1 < fuel
   wf_bytes (bytes < 256) is needed by the next_opt theorems only because the SWAR fast paths are
   proved equal to the byte-wise fallback for real bytes (C07).

   BINARY (BinLexer.v, BinReader.v).  Every method, in ANY state (no invariant needed: every byte
   string, every capacity incl. 0, every schedule incl. Fail events), with the fuel the wrapper
   itself supplies (lx_skip_fuel, rdr_fuel, S |input|):  is_crash (...) = false  where is_crash =
   Panic / OOB / OutOfFuel.  (lx_peek_id / lx_peek_token return options: total by type.) *)
From JV Require Import Bytes Tables U64Swar BufWin TextTok TextReader TextRef.
From JV Require BinPrim BinLexer BinReader.
From JV.proofs Require Import BufWinProofs TextReaderMainProofs FaultProofs NoCrashTextReader.
From JV.proofs Require NoCrashBinReader.
Open Scope nat_scope.

(* ------------------------------------------------------------------ text *)
Theorem C05_text_next_never_crashes : forall input fuel r,
  wf_bytes input -> rokf input r -> length (rest (rrd r)) + 2 <= fuel ->
  (cap (rbw r) = 0 -> rest (rrd r) = []) ->
  match next_opt fuel r with NCrash _ => False | _ => True end.
Proof.
  intros input fuel r H1 H2 H3 H4. pose proof (next_opt_nocrash input fuel r H1 H2 H3 H4) as H.
  destruct (next_opt fuel r); cbn [ncrash] in H; tauto.
Qed.
Print Assumptions C05_text_next_never_crashes.

(* srel r start sref: sref is the stream the reference tokenizer sees at r (the unread stream,
   possibly with the one space the fast path swallowed) *)
Theorem C05_text_run_next_never_crashes : forall input, wf_bytes input -> forall n fuel r start sref,
  rokf input r -> srel r start sref -> length sref < n -> length input + 2 <= fuel ->
  (cap (rbw r) = 0 -> rest (rrd r) = []) ->
  Forall (fun o => match o with OCrash _ => False | _ => True end) (fst (run_next n fuel r)).
Proof. exact run_next_nocrash. Qed.
Print Assumptions C05_text_run_next_never_crashes.

Theorem C05_text_stream_never_crashes : forall input sch capv, wf_bytes input -> 0 < capv ->
  Forall (fun o => match o with OCrash _ => False | _ => True end) (fst (run_stream capv sch input)).
Proof. exact run_stream_nocrash. Qed.
Print Assumptions C05_text_stream_never_crashes.

Theorem C05_text_stream_ends_properly : forall input sch capv, wf_bytes input -> 0 < capv ->
  exists pre x, fst (run_stream capv sch input) = map OTok pre ++ [x] /\
    (x = OEnd \/ x = OErr E_Eof \/ x = OErr E_Io \/ x = OErr E_BufferFull).
Proof. exact run_stream_shape. Qed.
Print Assumptions C05_text_stream_ends_properly.

Theorem C05_text_slice_never_crashes : forall input, wf_bytes input ->
  Forall (fun o => match o with OCrash _ => False | _ => True end) (fst (run_slice input)).
Proof. exact run_slice_nocrash. Qed.
Print Assumptions C05_text_slice_never_crashes.

Theorem C05_text_read_bytes_never_crashes : forall fuel r n,
  length (rest (rrd r)) < fuel -> is_crash (read_bytes fuel r n) = false.
Proof. exact read_bytes_nocrash. Qed.
Print Assumptions C05_text_read_bytes_never_crashes.

Theorem C05_text_skip_container_never_crashes : forall fuel r,
  length (rest (rrd r)) < fuel -> is_crash (skip_container fuel r) = false.
Proof. exact skip_container_nocrash. Qed.
Print Assumptions C05_text_skip_container_never_crashes.

(* resumed in any scan state (inside a quote / a comment, any depth), at any offset of the window *)
Theorem C05_text_skip_container_resume_never_crashes : forall fuel r ptr st depth,
  ptr <= length (win (rbw r)) -> length (rest (rrd r)) < fuel ->
  is_crash (skip_container_loop fuel r ptr st depth) = false.
Proof. exact skip_container_loop_nocrash. Qed.

Theorem C05_text_skip_unquoted_value_never_crashes : forall fuel r,
  length (rest (rrd r)) + 1 < fuel -> is_crash (skip_unquoted_value fuel r) = false.
Proof. exact skip_unquoted_value_nocrash. Qed.
Print Assumptions C05_text_skip_unquoted_value_never_crashes.

(* non-vacuity: a 3-byte buffer over  a = quoted(b, escaped quote, c), a comment, newline, {d}  with 1-byte reads and a
   fault: hypotheses hold, the run ends with the I/O error; without the fault with BufferFull
   (the quoted scalar needs 6 bytes); with 6 bytes cleanly *)
Definition C05r_input : bytes := [97;61;34;98;92;34;99;34;32;35;120;10;123;100;125]%N.
Example C05_text_nonvacuous :
  wf_bytes C05r_input /\
  fst (run_stream 3 [Data 1; Data 1; Fail; Data 1] C05r_input) = [OTok (RUnq [97%N]); OErr E_Io] /\
  fst (run_stream 3 (repeat (Data 1) 40) C05r_input) = [OTok (RUnq [97%N]); OTok (ROp Equal); OErr E_BufferFull] /\
  fst (run_stream 6 (repeat (Data 1) 40) C05r_input) = fst (run_slice C05r_input) /\
  rokf C05r_input (reader_new 3 C05r_input [Fail]).
Proof.
  split; [repeat constructor|]. split; [vm_compute; reflexivity|]. split; [vm_compute; reflexivity|].
  split; [vm_compute; reflexivity|apply rokf_new].
Qed.
Example C05_text_skip_nonvacuous :
  exists r', skip_container 16 (reader_new 3 C05r_input (repeat (Data 2) 3)) = Err E_Eof /\
             skip_container 16 (reader_new 4 [97;123;34;125;34;125;125;98]%N [Data 1]) = Ok r' /\ reader_position r' = 7.
Proof. eexists. split; [vm_compute; reflexivity|]. split; vm_compute; reflexivity. Qed.

(* ------------------------------------------------------------------ binary lexer *)
Import BinPrim BinLexer BinReader NoCrashBinReader.

Theorem C05_bin_lexer_methods_never_crash : forall l,
  is_crash (fst (lx_read_id l)) = false /\ is_crash (fst (lx_next_id l)) = false /\
  is_crash (fst (lx_read_token l)) = false /\ is_crash (fst (lx_next_token l)) = false /\
  is_crash (fst (lx_read_string l)) = false /\ is_crash (fst (lx_read_bool l)) = false /\
  is_crash (fst (lx_read_u32 l)) = false /\ is_crash (fst (lx_read_u64 l)) = false /\
  is_crash (fst (lx_read_i32 l)) = false /\ is_crash (fst (lx_read_i64 l)) = false /\
  is_crash (fst (lx_read_f32 l)) = false /\ is_crash (fst (lx_read_f64 l)) = false /\
  is_crash (fst (lx_read_rgb l)) = false /\ (forall n, is_crash (fst (lx_read_bytes n l)) = false).
Proof.
  intros l. repeat split.
  - apply lx_read_id_nc. - apply lx_next_id_nc. - apply lx_read_token_nc. - apply lx_next_token_nc.
  - apply lx_read_string_nc. - apply lx_read_bool_nc. - apply lx_read_u32_nc. - apply lx_read_u64_nc.
  - apply lx_read_i32_nc. - apply lx_read_i64_nc. - apply lx_read_f32_nc. - apply lx_read_f64_nc.
  - apply lx_read_rgb_nc. - intros n. apply lx_read_bytes_nc.
Qed.
Print Assumptions C05_bin_lexer_methods_never_crash.

Theorem C05_bin_lexer_skip_container_never_crashes : forall l, is_crash (fst (lx_skip_container l)) = false.
Proof. exact lx_skip_container_nc. Qed.
Print Assumptions C05_bin_lexer_skip_container_never_crashes.

Theorem C05_bin_lexer_skip_value_never_crashes : forall id l, is_crash (fst (lx_skip_value id l)) = false.
Proof. exact lx_skip_value_nc. Qed.
Print Assumptions C05_bin_lexer_skip_value_never_crashes.

Theorem C05_bin_run_lexer_never_crashes : forall d, is_crash (fst (snd (run_lexer d))) = false.
Proof. exact run_lexer_nc. Qed.
Print Assumptions C05_bin_run_lexer_never_crashes.

(* ------------------------------------------------------------------ binary streaming reader *)
Theorem C05_bin_reader_next_never_crashes : forall s, is_crash (fst (rdr_next s)) = false.
Proof. exact rdr_next_nc. Qed.
Print Assumptions C05_bin_reader_next_never_crashes.

Theorem C05_bin_reader_read_never_crashes : forall s, is_crash (fst (rdr_read s)) = false.
Proof. exact rdr_read_nc. Qed.

Theorem C05_bin_reader_read_bytes_never_crashes : forall n s, is_crash (fst (rdr_read_bytes n s)) = false.
Proof. exact rdr_read_bytes_nc. Qed.
Print Assumptions C05_bin_reader_read_bytes_never_crashes.

Theorem C05_bin_reader_skip_container_never_crashes : forall s, is_crash (fst (rdr_skip_container s)) = false.
Proof. exact rdr_skip_container_nc. Qed.
Print Assumptions C05_bin_reader_skip_container_never_crashes.

Theorem C05_bin_stream_never_crashes : forall cap sched d, is_crash (fst (snd (BinReader.run_stream cap sched d))) = false.
Proof. exact run_stream_nc. Qed.
Print Assumptions C05_bin_stream_never_crashes.

Theorem C05_bin_slice_reader_never_crashes : forall d, is_crash (fst (snd (run_slice_reader d))) = false.
Proof. exact run_slice_reader_nc. Qed.

(* a returned token took at least two bytes off the pending data: the termination measure of every
   loop built on next() (whole-stream run, the deserializer's key loops) *)
Theorem C05_bin_reader_next_consumes : forall s t s',
  rdr_next s = (Ok (Some t), s') -> length (rdr_pending s') + 2 <= length (rdr_pending s).
Proof.
  intros s t s' E. pose proof (rdr_next_spec s) as [_ H]. rewrite E in H. exact H.
Qed.

(* non-vacuity: a stream with a fault and a 1-byte buffer *)
Example C05_bin_nonvacuous :
  BinReader.run_stream 1 [Data 1; Fail] [1;0;12;0;5;0;0;0]%N = ([], (Err E_BufferFull, 0)) /\
  BinReader.run_stream 6 [Data 3; Fail] [1;0;12;0;5;0;0;0]%N = ([BEqual], (Err E_Io, 2)) /\
  fst (rdr_skip_container (rdr_new 4 [Data 1] [3;0;4;0;4;0;9;9]%N)) = Ok tt.
Proof. repeat split; vm_compute; reflexivity. Qed.
