(* C16, wave 5 (the "NaN / infinity: argued, not proved" line of audit/C16.md).
   Json.to_f64 is the exact integer-arithmetic model of Scalar::to_f64 that serialize_scalar calls
   (tied bit for bit by the stream `to_f64` of props/C16.py).  Every result it returns is a FINITE
   binary64: the biased exponent is below 1200 (<< 2047), so serde_json's `null` branch of
   serialize_f64 (NaN / infinite) is unreachable from a parsed scalar, in every tree the model
   computes.  (The Flocq statement about the same function is C11_to_f64_finite.)  Statements only. *)
From JV Require Import Bytes Tables Scalar TextTok TapeWf Dom Json Utf8 JsonText.
From JV.proofs Require Import JsonProofs JsonTextModelProofs JsonF64Finite JsonDocProofs.
Open Scope N_scope.

(* the rounding primitive: for any positive rational with numerator below 2^70 the bit pattern is
   below 1200 * 2^52 *)
Theorem C16_round_ratio_bound : forall p q, 0 < p -> 0 < q -> p < 2 ^ 70 ->
  f64_round_ratio p q < 1200 * 2 ^ 52.
Proof. exact f64_round_ratio_bound. Qed.
Print Assumptions C16_round_ratio_bound.

(* Scalar::to_f64 never returns NaN or an infinity, for ANY byte string *)
Theorem C16_to_f64_finite : forall d b, Json.to_f64 d = Ok b ->
  f64_is_finite b = true /\ (b / 2 ^ 52) mod 2048 < 1200 /\ b < 2 ^ 64.
Proof.
  intros d b H. split; [eapply to_f64_bits_finite; eauto|].
  split; [eapply to_f64_bits_exponent; eauto | eapply to_f64_bits_u64; eauto].
Qed.
Print Assumptions C16_to_f64_finite.

(* every float leaf of every tree of the three entry points is finite, for every tape (well
   formed or not), all options, both profiles *)
Theorem C16_model_floats_finite : forall dec dbg o t, dec_contract dec ->
  (forall v j, json_value dec dbg o t v = Ok j -> floats_finite j) /\
  (forall r j, json_object dec dbg o t r = Ok j -> floats_finite j) /\
  (forall r j, json_array dec dbg o t r = Ok j -> floats_finite j).
Proof. exact model_floats_finite. Qed.
Print Assumptions C16_model_floats_finite.

(* hence the printer model prints the float printer's digits, never `null`, for those leaves *)
Theorem C16_print_f64_never_null : forall fmt d b, Json.to_f64 d = Ok b -> print_f64 fmt b = fmt b.
Proof. intros fmt d b H. apply print_f64_finite. eapply to_f64_bits_finite; eauto. Qed.
Print Assumptions C16_print_f64_never_null.

(* non-vacuity: "1.5", "-1.5", and the largest magnitude the function accepts with a fraction
   (1844674407370955161.5) are accepted; their exponent fields *)
Example C16_f64_nonvacuous :
  Json.to_f64 [49; 46; 53] = Ok 4609434218613702656 /\
  Json.to_f64 [45; 49; 46; 53] = Ok 13832806255468478464 /\
  Json.to_f64 [49;56;52;52;54;55;52;52;48;55;51;55;48;57;53;53;49;54;49;46;53] = Ok 4880100556218669466 /\
  (4880100556218669466 / 2 ^ 52) mod 2048 = 1083.
Proof. repeat split; vm_compute; reflexivity. Qed.
