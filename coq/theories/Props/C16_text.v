(* C16, text half (wave 4): "the produced output is syntactically valid JSON in valid UTF-8" and
   "pretty printing changes whitespace only" as THEOREMS about the text, not only about the tree.

   JsonText.v models what json/mod.rs hands to serde_json (to_writer / to_writer_pretty behind
   to_writer / to_vec / to_string): the compact and the pretty formatter, string escaping with the
   ESCAPE table, integer printing, `null` for non-finite floats.  JsonText.json_text is the function
   the correspondence stream `print` of props/C16_text.py compares byte for byte with the real
   output of all three entry points of all three builders.  The specification is the grammar of
   RFC 8259 (JsonText.json_grammar: inductive predicates value / element / member / string /
   number / ws) and Utf8.valid_utf8 (what core::str::from_utf8 accepts, C12).

   Two parameters, with their contracts as hypotheses:
     fmt_f64  ryu's shortest round-trip printing of a finite f64: [fmt_contract] = it is an ASCII
              JSON number token (checked lexically by the harness on every float of every output);
     dec      Encoding::decode: [dec_contract] = it returns well-formed UTF-8 (property C12).
   Statements only. *)
From JV Require Import Bytes Tables Scalar TextTok TextTape TapeWf Dom Json Utf8 JsonText.
From JV.proofs Require Import DomProofs JsonProofs JsonTextProofs JsonTextModelProofs.
Open Scope nat_scope.

(* every tree whose integers are printable and whose strings are UTF-8: valid JSON, valid UTF-8,
   the tree's token sequence with whitespace only between tokens; the minified text is exactly
   the concatenation of the tokens *)
Theorem C16_text_valid_json : forall fmt_f64 pretty j, fmt_contract fmt_f64 -> good j ->
  json_grammar (json_text fmt_f64 pretty j) /\ valid_utf8 (json_text fmt_f64 pretty j) = true /\
  ws_weave (jtokens fmt_f64 j) (json_text fmt_f64 pretty j) /\
  json_text fmt_f64 false j = concat (jtokens fmt_f64 j).
Proof. exact good_text_valid. Qed.
Print Assumptions C16_text_valid_json.

(* the model of json/mod.rs only builds such trees: integers are the ones binary64 holds exactly,
   every key and string is a decoded scalar, a bracketed parameter, an operator name or a constant *)
Theorem C16_model_trees_good : forall dec dbg o t, dec_contract dec ->
  (forall v j, json_value dec dbg o t v = Ok j -> good j) /\
  (forall r j, json_object dec dbg o t r = Ok j -> good j) /\
  (forall r j, json_array dec dbg o t r = Ok j -> good j).
Proof.
  intros dec dbg o t DC. split; [|split].
  - apply json_value_good; exact DC.
  - apply json_object_good; exact DC.
  - apply json_array_good; exact DC.
Qed.
Print Assumptions C16_model_trees_good.

(* valid JSON in valid UTF-8: every parsed tape x every option combination x pretty / minified x
   the three entry points x every decoder satisfying its contract x both profiles *)
Theorem C16_parsed_text_valid_json : forall input t bom dec dbg o fmt_f64 pretty,
  parse input = Ok (t, bom) -> dec_contract dec -> fmt_contract fmt_f64 ->
  (exists j, json_object dec dbg o t (top_reader t) = Ok j /\
     json_grammar (json_text fmt_f64 pretty j) /\ valid_utf8 (json_text fmt_f64 pretty j) = true) /\
  (forall v, v < length t -> exists j, json_value dec dbg o t v = Ok j /\
     json_grammar (json_text fmt_f64 pretty j) /\ valid_utf8 (json_text fmt_f64 pretty j) = true) /\
  (forall r, obj_node t r -> exists j, json_object dec dbg o t r = Ok j /\
     json_grammar (json_text fmt_f64 pretty j) /\ valid_utf8 (json_text fmt_f64 pretty j) = true) /\
  (forall v k, TapeWf.tget t v = Some k -> is_container k = true \/ (exists s, k = THeader s) ->
     exists r j, read_array t v = Ok r /\ json_array dec dbg o t r = Ok j /\
     json_grammar (json_text fmt_f64 pretty j) /\ valid_utf8 (json_text fmt_f64 pretty j) = true).
Proof. exact parsed_json_text_valid. Qed.
Print Assumptions C16_parsed_text_valid_json.

(* pretty printing changes whitespace only: both texts are the same token sequence; the pretty one
   has only whitespace (space / newline by construction of the formatter) between the tokens, the
   minified one has nothing between them.  Holds for every tree and every float printer. *)
Theorem C16_pretty_whitespace_only : forall fmt_f64 j,
  ws_weave (jtokens fmt_f64 j) (json_text fmt_f64 true j) /\
  json_text fmt_f64 false j = concat (jtokens fmt_f64 j).
Proof. exact pretty_whitespace_only. Qed.
Print Assumptions C16_pretty_whitespace_only.

(* string escaping alone: any byte string becomes a JSON string token; a well-formed UTF-8 string
   stays well-formed (escaping only replaces ASCII bytes by ASCII bytes) *)
Theorem C16_string_escaping : forall s,
  jstring (print_str s) /\ (valid_utf8 s = true -> valid_utf8 (print_str s) = true).
Proof.
  intro s. split; [apply print_str_string|]. intro V. apply u8_valid_result. apply print_str_u8. exact V.
Qed.
Print Assumptions C16_string_escaping.

(* headers are single-entry objects: {"<header>": <json of the container that follows>} *)
Theorem C16_header_single_entry : forall dec dbg o t rec v s, tape_wf t ->
  TapeWf.tget t v = Some (THeader s) ->
  ser_value_step dec dbg o t rec v = (do j <- rec (S v); Ok (JObj [(dec s, j)])).
Proof. exact header_single_entry. Qed.
Print Assumptions C16_header_single_entry.

(* type narrowing reaches exactly the tokens the option names: unquoted scalars unless None, quoted
   scalars only under All; everything else is the decoded string *)
Theorem C16_narrowing_applies_exactly : forall dec dbg o t rec v k, TapeWf.tget t v = Some k ->
  match k with
  | TUnquoted s =>
      ser_value_step dec dbg o t rec v =
      match type_narrowing o with NarrowNone => Ok (JStr (dec s)) | _ => serialize_scalar dec t v end
  | TQuoted s =>
      ser_value_step dec dbg o t rec v =
      match type_narrowing o with NarrowAll => serialize_scalar dec t v | _ => Ok (JStr (dec s)) end
  | _ => True
  end.
Proof. exact narrowing_applies_exactly. Qed.
Print Assumptions C16_narrowing_applies_exactly.

(* TypeNarrowing::None: no leaf anywhere in the output (also below headers, operators, inside
   arrays and remainders) is a boolean or a number, for the three entry points and every tape *)
Theorem C16_narrowing_none_everywhere : forall dec dbg o t, dec_contract dec ->
  type_narrowing o = NarrowNone ->
  (forall v j, json_value dec dbg o t v = Ok j -> narrowed_leaves j = 0) /\
  (forall r j, json_object dec dbg o t r = Ok j -> narrowed_leaves j = 0) /\
  (forall r j, json_array dec dbg o t r = Ok j -> narrowed_leaves j = 0).
Proof.
  intros dec dbg o t DC NN. split; [|split].
  - apply json_value_unnarrowed; auto.
  - apply json_object_unnarrowed; auto.
  - apply json_array_unnarrowed; auto.
Qed.
Print Assumptions C16_narrowing_none_everywhere.

(* non-vacuity: a tree with every kind of leaf, control characters, quotes, backslashes and
   non-ASCII text; its two texts; the hypotheses of the theorems hold for it *)
Definition ex_fmt (b : N) : bytes := [49; 46; 53]%N.      (* "1.5": stands for ryu in the example *)
Definition ex_tree : json :=
  JObj [([107; 34; 92]%N, JArr [JI64 (-5); JU64 7; JBool true; JNull; JF64 4609434218613702656; JArr []; JObj []]);
        ([195; 169]%N, JStr [1; 10; 195; 169; 34]%N)].

Example C16_text_nonvacuous :
  good ex_tree /\
  json_text ex_fmt false ex_tree =
    [123; 34;107;92;34;92;92;34; 58; 91; 45;53; 44; 55; 44; 116;114;117;101; 44; 110;117;108;108; 44; 49;46;53; 44; 91;93; 44; 123;125; 93;
     44; 34;195;169;34; 58; 34; 92;117;48;48;48;49; 92;110; 195;169; 92;34; 34; 125]%N /\
  length (json_text ex_fmt true ex_tree) = 103.
Proof.
  split; [|split; vm_compute; reflexivity].
  split.
  - repeat constructor.
  - repeat (constructor; try reflexivity).
Qed.
