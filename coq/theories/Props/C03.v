(* C03 -- Binary tape mirrors the token stream; fast paths are unobservable.
   Statements only.  [parse fx opt] is the single model of BinaryTapeParser::parse::<OPT>
   (BinTape.v): [opt] is the const generic; [fx = false] is the code as it is, [fx = true] adds
   `&& id != I64` to the three id-class tests of the key fast path (tape.rs:294,363,423).
   [obs] = the tape on success, Rejected otherwise.

   Why a parameter and not only a hypothesis: with [fx] the repaired parser has an UNCONDITIONAL
   theorem (C03_fast_eq_ref_fixed) that becomes the applicable one the day the three tests are
   repaired (the correspondence check then runs fx = true); for the code as it is the statement is
   refuted by a concrete input (C03_fast_eq_ref_refuted, finding B) and holds under the exclusion
   that characterises the known class (C03_fast_eq_ref_no_i64).

   Proof (proofs/BinTapeSim.v): stuttering simulation, one optimised iteration = k >= 1 reference
   iterations or both stop with the same observation; covered fast paths: token key (= i32 / quoted /
   f32 / other; = { i32.. | quoted.. | f32.. primitive-array macro with its three exits; = { token
   [=] ..; = { other), CLOSE in key position, quoted key (= { token = bool|quoted|other; ...),
   i32 key (= i32 | other), the I32 run inside arrays.  None is left out.

   NOT proved here (carried by the correspondence/oracle streams of props/C03.py only):
   ref_faithful, i.e. parse false (encode d) = flatten d for an abstract binary document type --
   the harness compares the reference tape of generated documents with an independently computed
   expected tape instead. *)
From JV Require Import Bytes Tables BinPrim BinTape BinTapeWf.
From JV.proofs Require Import BinTapeWfProofs BinTapeInv BinTapeSim BinTapeSafe.
Open Scope N_scope.

(* all byte strings, no bound: optimised = reference, for the parser with the I64 exclusion *)
Theorem C03_fast_eq_ref_fixed : forall bytes, obs (parse true true bytes) = obs (parse true false bytes).
Proof. exact fast_eq_ref_fixed. Qed.
Print Assumptions C03_fast_eq_ref_fixed.

(* the reference interpretation does not depend on fx: it is the code's own reference *)
Theorem C03_ref_is_the_codes_reference : forall fx bytes, parse fx false bytes = parse_ref bytes.
Proof. exact ref_fx_irrelevant. Qed.
Print Assumptions C03_ref_is_the_codes_reference.

(* the code as it is: FALSE (finding B).  An i64 key: `17 03 <8 bytes> 01 00 0c 00 <4 bytes>` *)
Definition witness_B : bytes := [23;3; 0;0;0;0;0;0;0;0; 1;0; 12;0; 1;0;0;0].
Theorem C03_fast_eq_ref_refuted : exists bytes, obs (parse false true bytes) <> obs (parse_ref bytes).
Proof. exists witness_B. vm_compute. discriminate. Qed.
Print Assumptions C03_fast_eq_ref_refuted.

(* ... and the same input is handled identically once I64 is excluded *)
Theorem C03_witness_B_repaired : obs (parse true true witness_B) = obs (parse_ref witness_B).
Proof. vm_compute. reflexivity. Qed.

(* the code as it is, outside the known class: the I64 id never is the next lexeme in key position
   (state Key) or as first element of a container (state OpenFirst) along the run *)
Theorem C03_fast_eq_ref_no_i64 : forall bytes, i64_never_in_key_position bytes ->
  obs (parse false true bytes) = obs (parse_ref bytes).
Proof. exact fast_eq_ref_no_i64. Qed.
Print Assumptions C03_fast_eq_ref_no_i64.

Example C03_no_i64_nonvacuous : i64_never_in_key_position [130;45; 1;0; 12;0; 89;0;0;0].
Proof. exact i64_never_example. Qed.

(* the parser the correspondence check runs ([parse_opt]: fx read off the three tests in tape.rs by
   tools/gen_tables.py): unconditional as soon as the source excludes I64 *)
Theorem C03_code_fast_eq_ref : fast_path_excludes_i64 = true ->
  forall bytes, obs (parse_opt bytes) = obs (parse_ref bytes).
Proof. intros E bytes. unfold parse_opt, parse_ref. rewrite E, <- (C03_ref_is_the_codes_reference true). apply fast_eq_ref_fixed. Qed.
Print Assumptions C03_code_fast_eq_ref.

(* [obs] never is [Crashed]: no unchecked access (get_unchecked, set_len, unwrap_unchecked), no
   unreachable_unchecked / debug_assert!, no transmute outside the enum and no fuel exhaustion is
   reachable, for either interpretation, on any byte string (J2-J4; the binary-tape share of C05) *)
Theorem C03_parse_never_crashes : forall fx opt bytes, is_crash (parse fx opt bytes) = false.
Proof. exact parse_no_crash. Qed.
Print Assumptions C03_parse_never_crashes.

(* J4: next_state (state*2 - (state & 2), transmute) never leaves the enum, on the generated discriminants *)
Theorem C03_next_state_total : forall s, next_state s = Ok (next_tbl s).
Proof. exact next_state_ok. Qed.
Print Assumptions C03_next_state_total.

(* non-vacuity of the main theorem: an input on which both interpretations accept a non-trivial tape
   through the primitive-array fast path *)
Example C03_nonvacuous :
  obs (parse true true [130;45; 1;0; 3;0; 12;0; 1;0;0;0; 12;0; 2;0;0;0; 12;0; 3;0;0;0; 4;0])
  = Accepted [TToken 11650; TArray 5; TI32 1%Z; TI32 2%Z; TI32 3%Z; TEnd 1].
Proof. vm_compute. reflexivity. Qed.
