(* C03 placeholder until the proofs land *)
From JV Require Import Bytes Tables BinPrim BinTape.
Open Scope N_scope.
Definition witness_B : bytes := [23;3; 0;0;0;0;0;0;0;0; 1;0; 12;0; 1;0;0;0].
Theorem C03_fast_eq_ref_refuted : exists d, obs (parse false true d) <> obs (parse false false d).
Proof. exists witness_B. vm_compute. discriminate. Qed.
