(* C17, iterator half (wave 4): the iterators of text/dom.rs as STATEFUL objects.  Props/C17.v
   states the agreement of lengths / size hints / groups / remainder for a whole drain, with the size
   hint taken before the first call of next().  Here the same facts hold at EVERY iteration point:
   the model (DomIter.v) re-runs fields_len / values_len from the cursor as the code does, runs
   FieldGroupsIter::next as the loop over the inner FieldsIter and the shrinking key map, and takes
   remainder() at every cursor.  The functions below are the ones the correspondence streams
   `iter` and `leaf` of props/C17_iter.py run against the real iterators.  Statements only. *)
From JV Require Import Bytes TextTok TextTape TapeWf Dom DomIter.
From JV.proofs Require Import DomProofs DomIterProofs TextTapeGrammarProofs.
Open Scope nat_scope.

(* FieldsIter: after k calls of next() the size hint is the number of fields still to come; before
   the fields are drained remainder() is "everything from the cursor (a key) to the end of the
   container, as values"; every remainder() is a defined range whose len() is its number of items;
   after the last call the cursor is where fields() stops and remainder() is the trailing array part *)
Theorem C17_fields_hint_every_point : forall dbg t r, tape_wf t -> obj_node t r ->
  exists l last pts,
    fields_all dbg t r = Ok (l, last) /\
    fields_trace_all dbg t r = Ok pts /\ length pts = S (length l) /\
    (forall k p, nth_error pts k = Some p -> fp_hint p = length l - k) /\
    (forall k p, nth_error pts k = Some p -> k < length l ->
       fp_rem p = mk_areader (fp_ind p) (o_end r) /\ fp_ind p < last /\
       (exists key, tget t (fp_ind p) = Some key /\ is_key key = true)) /\
    (forall k p, nth_error pts k = Some p ->
       rem_described t (fp_rem p) (fp_rem_len p) (fp_rem_tokens p)) /\
    (exists p, nth_error pts (length l) = Some p /\ fp_ind p = last /\
       fp_rem p = tail_reader last (o_end r)).
Proof. exact fields_hint_every_point. Qed.
Print Assumptions C17_fields_hint_every_point.

(* ValuesIter: after k calls of next() size_hint() = (n - k, Some (n - k)), exact on both sides *)
Theorem C17_values_hint_every_point : forall t r, arr_ok t r ->
  exists l pts,
    values_all t r = Ok l /\ values_trace_all t r = Ok pts /\ length pts = S (length l) /\
    forall k p, nth_error pts k = Some p ->
      vp_lo p = length l - k /\ vp_hi p = Some (length l - k) /\ vp_ind p = nth k l (a_end r).
Proof. exact values_hint_every_point. Qed.
Print Assumptions C17_values_hint_every_point.

(* FieldGroupsIter call by call (the faithful loop, not the list function of Props/C17.v): the
   groups the calls return are the partition groups_spec in order; the size hint after the k-th call
   is the number of groups still to come; every remainder() on the way is defined; the call that
   returns None leaves the inner cursor where fields() stops, so remainder() is the trailing array part *)
Theorem C17_groups_every_call : forall dbg t r, tape_wf t -> obj_node t r ->
  exists l last p0 pts,
    fields_all dbg t r = Ok (l, last) /\
    groups_trace_all dbg t r = Ok (p0 :: pts) /\
    gp_hint p0 = length (groups_spec l) /\ gp_ind p0 = o_start r /\
    trace_groups pts = groups_spec l /\
    length pts = S (length (groups_spec l)) /\
    (forall k p, nth_error pts k = Some p ->
       gp_hint p = length (groups_spec l) - S k /\
       gp_group p = nth_error (groups_spec l) k /\
       gp_rem p = remainder t (gp_ind p) (o_end r) /\
       rem_described t (gp_rem p) (gp_rem_len p) (gp_rem_tokens p)) /\
    (exists p, nth_error pts (length (groups_spec l)) = Some p /\ gp_group p = None /\
       gp_ind p = last /\ gp_rem p = tail_reader last (o_end r)).
Proof. exact groups_every_call. Qed.
Print Assumptions C17_groups_every_call.

(* "agree with each other": a mixed object read as an array is the remainder of its own fields() *)
Theorem C17_read_array_mixed_is_remainder : forall dbg t v e, tape_wf t ->
  tget t v = Some (TObject e true) ->
  exists l last,
    fields_all dbg t (mk_oreader (S v) e) = Ok (l, last) /\
    last < e /\ tget t last = Some TMixedContainer /\
    read_array t v = Ok (remainder t last e) /\
    remainder t last e = mk_areader (S last) e.
Proof. exact read_array_mixed_is_remainder. Qed.
Print Assumptions C17_read_array_mixed_is_remainder.

(* a header read as an array is exactly the two values (header, its container) *)
Theorem C17_read_array_header_view : forall t v s, tape_wf t -> tget t v = Some (THeader s) ->
  exists k e', tget t (S v) = Some k /\ container_end k = Some e' /\
    read_array t v = Ok (mk_areader v (S e')) /\
    values_all t (mk_areader v (S e')) = Ok [v; S v] /\
    array_len t (mk_areader v (S e')) = Ok 2.
Proof. exact read_array_header_view. Qed.
Print Assumptions C17_read_array_header_view.

Theorem C17_read_array_plain : forall t v k e, tget t v = Some k ->
  (exists m, k = TArray e m) \/ k = TObject e false ->
  read_array t v = Ok (mk_areader (S v) e).
Proof. exact read_array_plain. Qed.
Print Assumptions C17_read_array_plain.

Theorem C17_read_object_node : forall t v e m, tget t v = Some (TObject e m) ->
  exists r, read_object t v = Ok r /\ obj_node t r.
Proof. exact read_object_node. Qed.
Print Assumptions C17_read_object_node.

(* what a value reader answers on every token kind *)
Theorem C17_value_reader_kinds : forall dec t v k, tape_wf t -> tget t v = Some k ->
  value_token t v = Ok k /\
  read_scalar t v = match k with
                    | THeader s | TUnquoted s | TQuoted s | TParameter s | TUndefinedParameter s => Ok s
                    | _ => Err E_not_scalar
                    end /\
  read_str dec t v = match k with
                     | THeader s | TUnquoted s | TQuoted s | TParameter s | TUndefinedParameter s => Ok (dec s)
                     | TOperator o => Ok (op_symbol o)
                     | _ => Err E_not_string
                     end /\
  match k with
  | TObject e _ => read_object t v = Ok (mk_oreader (S v) e) /\ value_tokens_len t v = Ok (e - v - 1) /\ v < e
  | TArray e _ => read_object t v = Ok (mk_oreader e e) /\ value_tokens_len t v = Ok (e - v - 1) /\ v < e
  | THeader _ => read_object t v = Err E_not_object /\ value_tokens_len t v = Ok 1
  | _ => read_object t v = Err E_not_object /\ read_array t v = Err E_not_array /\ value_tokens_len t v = Ok 1
  end.
Proof. exact value_reader_kinds. Qed.
Print Assumptions C17_value_reader_kinds.

(* the same for every tape the parser returns (hypothesis tape_wf discharged by parse_tape_wf) *)
Theorem C17_parsed_iterators : forall input t bom dbg,
  parse input = Ok (t, bom) ->
  (forall r, obj_node t r ->
     exists l last pts,
       fields_all dbg t r = Ok (l, last) /\
       fields_trace_all dbg t r = Ok pts /\ length pts = S (length l) /\
       (forall k p, nth_error pts k = Some p -> fp_hint p = length l - k) /\
       (exists p, nth_error pts (length l) = Some p /\ fp_ind p = last /\
          fp_rem p = tail_reader last (o_end r))) /\
  (forall r, obj_node t r ->
     exists l last p0 pts,
       fields_all dbg t r = Ok (l, last) /\
       groups_trace_all dbg t r = Ok (p0 :: pts) /\
       trace_groups pts = groups_spec l /\
       (forall k p, nth_error pts k = Some p -> gp_hint p = length (groups_spec l) - S k) /\
       (exists p, nth_error pts (length (groups_spec l)) = Some p /\ gp_ind p = last /\
          gp_rem p = tail_reader last (o_end r))) /\
  (forall v k, tget t v = Some k -> is_container k = true \/ (exists s, k = THeader s) ->
     exists r l pts, read_array t v = Ok r /\
       values_all t r = Ok l /\ values_trace_all t r = Ok pts /\
       forall j p, nth_error pts j = Some p -> vp_lo p = length l - j /\ vp_hi p = Some (length l - j)).
Proof.
  intros input t bom dbg E. pose proof (parse_tape_wf _ _ _ E) as W. split; [|split].
  - intros r N. destruct (fields_hint_every_point dbg t r W N) as (l & last & pts & A & B & C & D & _ & _ & F).
    exists l, last, pts. auto.
  - intros r N. destruct (groups_every_call dbg t r W N) as (l & last & p0 & pts & A & B & _ & _ & C & _ & D & (q & Q1 & _ & Q3 & Q4)).
    exists l, last, p0, pts. repeat split; auto.
    + intros k p H. destruct (D _ _ H) as (X & _). exact X.
    + exists q. auto.
  - intros v k Hk Hc. pose proof (read_array_ok t v k W Hk) as R.
    assert (R' : exists r, read_array t v = Ok r /\ arr_ok t r).
    { destruct Hc as [Hc|(s & ->)]; [|exact R]. destruct k; cbn in Hc; try discriminate; exact R. }
    destruct R' as (r & Er & Ar). destruct (values_hint_every_point t r Ar) as (l & pts & A & B & _ & C).
    exists r, l, pts. repeat split; auto; intros; destruct (C _ _ H) as (X & Y & _); auto.
Qed.
Print Assumptions C17_parsed_iterators.

(* non-vacuity: the worked tape of Props/C17.v (duplicate keys, mixed container, operator, headers):
   the root's groups trace has 3 groups and ends with an empty remainder; the mixed object at 1
   read as an array is the remainder [10 c = d 20] of its fields *)
Definition ex_tape : ttape :=
  [TUnquoted [120]; TObject 10 true; TUnquoted [97]; TUnquoted [98]; TMixedContainer; TUnquoted [49; 48];
   TUnquoted [99]; TOperator Equal; TUnquoted [100]; TUnquoted [50; 48]; TEnd 1;
   TUnquoted [107]; TArray 18 false; TUnquoted [49]; TUnquoted [114; 103; 98]; TArray 17 false; TUnquoted [50]; TEnd 15; TEnd 12;
   TUnquoted [107]; TUnquoted [51];
   TUnquoted [99]; TOperator LessThan; THeader [114; 103; 98]; TArray 26 false; TUnquoted [49]; TEnd 24]%N.

Example C17_iter_nonvacuous :
  tape_wf ex_tape /\
  (exists pts, fields_trace_all false ex_tape (top_reader ex_tape) = Ok pts /\
     map fp_hint pts = [4; 3; 2; 1; 0] /\ map fp_ind pts = [0; 11; 19; 21; 27]) /\
  (exists pts, groups_trace_all false ex_tape (top_reader ex_tape) = Ok pts /\
     map gp_hint pts = [3; 2; 1; 0; 0] /\ map gp_ind pts = [0; 11; 19; 27; 27]) /\
  read_array ex_tape 1 = Ok (mk_areader 5 10) /\
  (exists pts, values_trace_all ex_tape (mk_areader 5 10) = Ok pts /\ map vp_lo pts = [5; 4; 3; 2; 1; 0]).
Proof.
  split; [apply tape_wfb_sound; vm_compute; reflexivity|].
  split; [eexists; split; [vm_compute; reflexivity|split; reflexivity]|].
  split; [eexists; split; [vm_compute; reflexivity|split; reflexivity]|].
  split; [vm_compute; reflexivity|].
  eexists; split; [vm_compute; reflexivity|reflexivity].
Qed.
