(* C05 -- the serde deserializer walks never crash and terminate with the entry point's own fuel.
   Statements only.

   BINARY (SerdeShape.walk over BinDeOndemand.ops_od / BinDeReader.ops_rd / BinDeTape.ops_tape).
   no_crash_but_prop o  :=  o is Ok / Err, or the model-only marker Panic 9001 ("ShProp --
   jomini::text::Property -- is not modelled on the binary side", SerdeShape.walk)
   no_crash o           :=  o is Ok / Err.

     C05_bde_ondemand_never_crashes   deserialize_slice: every byte string (bytes < 256), every shape
     C05_bde_reader_never_crashes     deserialize_reader: ... every buffer capacity (0 included), every
                                      read schedule, Fail events included
       both with the entry point's own fuel BinDeCommon.deser_fuel (so: deser_fuel is always enough,
       the obligation the binary engineer left open), for every configuration satisfying cfg_ok
       (decoder total on real bytes and returning real bytes, resolver names real bytes).
     C05_bde_*_noprop                 for shapes without ShProp: no Panic at all
     C05_bde_prop_is_model_artefact   the ONLY Panic: a shape with a ShProp node that the walk reaches
                                      (witness below; replayed on the implementation by the
                                      `de.bin` harness kind: the real code answers an error / a value,
                                      it does not panic -- see the report; the marker is a model-only
                                      artefact, characterised exactly by [noprop])
     C05_walk_generic                 the generic theorem (any path_ops whose operations are strict and
                                      consume a measure), which also discharges the visitor-side panic
                                      sites 9002 / 9003 / 9004 / 9005 of SerdeShape.v for every path
   TEXT, stream path (TextDeStream.sde / swalk, generic in the token source; instance: the reader's
   token list [ltoks] that C07 proves independent of buffer size and read schedule):
     C05_tde_stream_never_crashes     deser_stream with its own fuel TextDeStream.stream_fuel: every token
                                      list (any error / clean end marker), every shape (ShProp included),
                                      every float parser and float casts, every decoder returning bytes < 256
     C05_tde_stream_generic           the same for ANY token source whose next / skip_container /
                                      read_expect_equals are strict and consume tokens, fuel
                                      2 * tokens + shape_size + 1
   The two TAPE walks (text TextDeTape.de / twalk on parser-produced tapes, binary deser_tape on
   parse_opt's output) are proved in Props/C05_tapewalks.v (C05_tde_tape_never_crashes,
   C05_bde_tape_never_crashes and the parser invariants they rest on).
   Remaining named gap:
     * the text walk's decoder hypothesis quantifies over ALL raw scalars (also lists with elements >= 256,
       which no reader produces); C05_decoders_return_bytes gives it for real bytes only. *)
From JV.proofs Require Import SwarLanes NoCrashWalk NoCrashBinDe BinDeSpecProofs NoCrashTextDe NoCrashDecode.
From JV Require Encoding.
From JV Require Utf8 TextTok TextReader TextDeCommon TextDeStream.
From JV Require Import Bytes Tables BinPrim BufWin BinLexer BinReader SerdeShape BinDeCommon BinDeOndemand BinDeReader.
Open Scope nat_scope.

Definition no_crash {A} (o : outcome A) : Prop := match o with Ok _ | Err _ => True | _ => False end.
Definition no_crash_but_prop {A} (o : outcome A) : Prop :=
  match o with Ok _ | Err _ => True | Panic s => s = 9001%N | _ => False end.

Lemma gd2_false_elim {A} (o : outcome A) : gd2 false True (fun _ => True) o -> no_crash_but_prop o.
Proof. destruct o; cbn; tauto. Qed.
Lemma gd2_true_elim {A} (o : outcome A) : gd2 true True (fun _ => True) o -> no_crash o.
Proof. destruct o; cbn; try tauto. intros [H _]. discriminate. Qed.

Theorem C05_bde_ondemand_never_crashes : forall cfg sh d, cfg_ok cfg -> wfl d ->
  no_crash_but_prop (deser_ondemand cfg sh d).
Proof. intros cfg sh d Hc Hd. apply gd2_false_elim. apply (deser_ondemand_ok cfg Hc false sh d Hd). discriminate. Qed.
Print Assumptions C05_bde_ondemand_never_crashes.

Theorem C05_bde_ondemand_never_crashes_noprop : forall cfg sh d, cfg_ok cfg -> wfl d -> noprop sh = true ->
  no_crash (deser_ondemand cfg sh d).
Proof. intros cfg sh d Hc Hd Hs. apply gd2_true_elim. apply (deser_ondemand_ok cfg Hc true sh d Hd). auto. Qed.
Print Assumptions C05_bde_ondemand_never_crashes_noprop.

Theorem C05_bde_reader_never_crashes : forall cfg capv sched sh d, cfg_ok cfg -> wfl d ->
  no_crash_but_prop (deser_reader cfg capv sched sh d).
Proof. intros cfg capv sched sh d Hc Hd. apply gd2_false_elim. apply (deser_reader_ok cfg Hc false capv sched sh d Hd). discriminate. Qed.
Print Assumptions C05_bde_reader_never_crashes.

Theorem C05_bde_reader_never_crashes_noprop : forall cfg capv sched sh d, cfg_ok cfg -> wfl d -> noprop sh = true ->
  no_crash (deser_reader cfg capv sched sh d).
Proof. intros cfg capv sched sh d Hc Hd Hs. apply gd2_true_elim. apply (deser_reader_ok cfg Hc true capv sched sh d Hd). auto. Qed.
Print Assumptions C05_bde_reader_never_crashes_noprop.

(* cfg_ok holds for the two decoders of Encoding.v as the flavors use them (eu4: windows-1252, raw:
   utf-8), any strategy, any float decoders, any resolver whose names are real bytes *)
Theorem C05_cfg_ok_real_decoders : forall res strat f32 f64 fo,
  (forall id name, res id = Some name -> wfl name) ->
  cfg_ok (mkcfg res strat (fun d => omap Utf8.cow_bytes (Encoding.decode_windows1252 d)) f32 f64 fo) /\
  cfg_ok (mkcfg res strat (fun d => omap Utf8.cow_bytes (Encoding.decode_utf8 d)) f32 f64 fo).
Proof.
  intros res strat f32 f64 fo Hres. split; (split; [|exact Hres]); intros s Hs; cbn [c_decode].
  - exact (decode_w1252_wfl s Hs).
  - exact (decode_utf8_wfl s Hs).
Qed.
Print Assumptions C05_cfg_ok_real_decoders.

Theorem C05_decoders_return_bytes : forall d, wfl d ->
  wfl (Encoding.w1252_reference d) /\ wfl (Encoding.utf8_reference d).
Proof. intros d Hd. split; [apply w1252_reference_wfl|apply utf8_reference_wfl]; exact Hd. Qed.

(* the marker is reachable: `x = 1` into struct { x : Property<any> }, and a ShProp root *)
Definition C05_prop_shape : shape := ShStruct false [([120]%N, None, MOnce, ShProp ShAny)].
Definition C05_prop_input : bytes := [15;0;1;0;120;1;0;12;0;1;0;0;0]%N.
Theorem C05_bde_prop_is_model_artefact :
  cfg_ok cfg0 /\ wfl C05_prop_input /\ noprop C05_prop_shape = false /\
  deser_ondemand cfg0 C05_prop_shape C05_prop_input = Panic 9001 /\
  deser_reader cfg0 16 [Data 1] C05_prop_shape C05_prop_input = Panic 9001 /\
  (forall cfg d, deser_ondemand cfg (ShProp ShAny) d = Panic 9001).
Proof.
  split.
  { split; [intros s Hs; exact Hs|]. intros id name. unfold cfg0. cbn [c_resolve].
    destruct (id =? 4660)%N; [|discriminate]. intros H. inversion H; subst. repeat constructor. }
  split; [repeat constructor|]. split; [reflexivity|]. split; [vm_compute; reflexivity|].
  split; [vm_compute; reflexivity|]. intros; reflexivity.
Qed.

(* the generic theorem, as used above (statement = type of the proved lemma) *)
Theorem C05_walk_generic : ltac:(let t := type of @walk_root_ok in exact t).
Proof. exact @walk_root_ok. Qed.
Print Assumptions C05_walk_generic.

(* non-vacuity: hypotheses hold and the walk produces a value / an error on concrete inputs, with a
   1-byte buffer and a fault in the schedule *)
Example C05_bde_nonvacuous :
  cfg_ok cfg0 /\ wfl C05_prop_input /\ noprop (ShMap ShAny) = true /\
  deser_ondemand cfg0 (ShMap ShAny) C05_prop_input = Ok (DMap [([120]%N, DI 1)]) /\
  deser_reader cfg0 7 [Data 2; Data 100] (ShMap ShAny) C05_prop_input = Ok (DMap [([120]%N, DI 1)]) /\
  deser_reader cfg0 7 [Data 2; Fail] (ShMap ShAny) C05_prop_input = Err EC_IO /\
  deser_reader cfg0 1 [] (ShMap ShAny) C05_prop_input = Err EC_FULL.
Proof.
  split; [apply C05_bde_prop_is_model_artefact|]. split; [repeat constructor|]. split; [reflexivity|].
  repeat split; vm_compute; reflexivity.
Qed.

(* ------------------------------------------------------------------ text, stream path *)
Theorem C05_tde_stream_never_crashes : forall decode parse_f64 fo sh (r : TextDeStream.ltoks),
  (forall raw, wfl (Utf8.cow_bytes (decode raw))) ->
  no_crash (TextDeStream.deser_stream decode parse_f64 fo sh r).
Proof. intros. apply gd2_true_elim. apply deser_stream_ok. assumption. Qed.
Print Assumptions C05_tde_stream_never_crashes.

Theorem C05_tde_stream_generic : ltac:(let t := type of sde_root_ok in exact t).
Proof. exact sde_root_ok. Qed.
Print Assumptions C05_tde_stream_generic.

(* non-vacuity: `a = { 1 2 } b >= c {} }`-like token lists incl. a ghost object, an operator, a reader
   error at the end; Property<any> target *)
Definition C05_dec (s : bytes) : Utf8.cow := Utf8.Borrowed (filter (fun b => (b <? 256)%N) s).
Definition C05_fo : fops := mkfops (fun x => x) (fun x => x) (fun _ => 0%N) (fun _ => 0%N).
Definition C05_toks1 : TextDeStream.ltoks :=
  ([TextReader.RUnq [97]; TextReader.ROp TextTok.Equal; TextReader.ROpen; TextReader.RUnq [49]; TextReader.RUnq [50];
    TextReader.RClose; TextReader.ROpen; TextReader.RClose]%N, None).
Definition C05_toks2 : TextDeStream.ltoks :=
  ([TextReader.RUnq [97]; TextReader.ROp TextTok.GreaterThanEqual; TextReader.RUnq [49]]%N, Some 101%N).
Example C05_tde_nonvacuous_hyp : forall raw, wfl (Utf8.cow_bytes (C05_dec raw)).
Proof.
  intros raw. cbn. unfold wfl. apply Forall_forall. intros x Hx. apply filter_In in Hx as [_ Hx]. apply N.ltb_lt. exact Hx.
Qed.
Example C05_tde_nonvacuous_1 :
  TextDeStream.deser_stream C05_dec (fun _ => Err 1%N) C05_fo (ShMap ShAny) C05_toks1
  = Ok (DMap [([97]%N, DSeq [DStr [49]%N; DStr [50]%N])]).
Proof. vm_compute. reflexivity. Qed.
Example C05_tde_nonvacuous_2 :
  TextDeStream.deser_stream C05_dec (fun _ => Err 1%N) C05_fo (ShMap (ShProp ShAny)) C05_toks2 = Err 101%N.
Proof. vm_compute. reflexivity. Qed.
