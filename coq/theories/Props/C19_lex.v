(* C19 (token level, wave 4) -- truncated binary input through the slice lexer, the bufferless slice
   reader and the buffered streaming reader.  Statements only; proofs in proofs/TruncLexProofs.v.

   observe_at of C19 names "all parse/deserialize entry points"; until this wave the binary theorems
   (Props/C19_bin.v) were about BinaryTapeParser only.  Here, for EVERY input D that the lexer loop
   `while let Some(t) = lexer.next_token()?` ([run_lexer], the model the stream bin_token_truncations
   runs against Lexer) reads to a clean end with token list ts, and EVERY cut point k:
     the run on the first k bytes yields exactly the first n tokens of ts (same payloads, same order,
     nothing altered or invented), and then
       ends cleanly at position k  (only if the prefix is itself a complete token sequence,
                                    C19_lex_clean_prefix_is_token_boundary), or
       reports Eof                  (the cut falls inside token n: after its 2-byte id, inside a length
                                    prefix, a payload, an rgb block) -- never InvalidRgb, never a
                                    clean end in the middle of a token.
   The same for TokenReader::from_slice (C08_slice_reader_eq_lexer) and for the buffered TokenReader
   under any fault-free read schedule when the buffer is larger than the document
   (C08_stream_eq_lexer + C08_fits_whole_input).
   NOT covered here: a buffer smaller than the document (C08_stream_holds_largest_token gives the same
   tokens and BufferFull-or-Eof); I/O faults (C20). *)
From JV Require Import Bytes Tables BinPrim BufWin BinLexer BinReader.
From JV.proofs Require Import BinLexProofs TruncLexProofs.
From Coq Require Import List.
Import ListNotations.
Open Scope nat_scope.

(* one token on a prefix of the data: the same token with the rest cut short, or Eof *)
Theorem C19_lex_token_prefix_cases : forall P X t R, read_token (P ++ X) = Ok (t, R) ->
  (exists r, read_token P = Ok (t, r) /\ R = r ++ X) \/ read_token P = Err E_LexEof.
Proof. exact read_token_prefix_cases. Qed.
Print Assumptions C19_lex_token_prefix_cases.

Theorem C19_lex_trunc : forall D ts pos k,
  run_lexer D = (ts, (Ok tt, pos)) -> k <= length D ->
  exists n, n <= length ts /\
    (run_lexer (firstn k D) = (firstn n ts, (Ok tt, k)) \/
     (n < length ts /\ exists p, run_lexer (firstn k D) = (firstn n ts, (Err E_LexEof, p)))).
Proof. exact lexer_trunc. Qed.
Print Assumptions C19_lex_trunc.

Theorem C19_lex_clean_prefix_is_token_boundary : forall D ts pos k n,
  run_lexer D = (ts, (Ok tt, pos)) ->
  run_lexer (firstn k D) = (firstn n ts, (Ok tt, k)) ->
  lex_all (firstn k D) = Some (firstn n ts).
Proof. exact lexer_clean_prefix_is_token_boundary. Qed.
Print Assumptions C19_lex_clean_prefix_is_token_boundary.

Theorem C19_lex_slice_reader_trunc : forall D ts pos k,
  run_slice_reader D = (ts, (Ok tt, pos)) -> k <= length D ->
  exists n, n <= length ts /\
    (run_slice_reader (firstn k D) = (firstn n ts, (Ok tt, k)) \/
     (n < length ts /\ exists p, run_slice_reader (firstn k D) = (firstn n ts, (Err E_LexEof, p)))).
Proof. exact slice_reader_trunc. Qed.
Print Assumptions C19_lex_slice_reader_trunc.

Theorem C19_lex_stream_trunc : forall D ts pos k cap sched,
  run_lexer D = (ts, (Ok tt, pos)) -> k <= length D ->
  no_fail sched = true -> length D < cap ->
  exists n, n <= length ts /\
    (run_stream cap sched (firstn k D) = (firstn n ts, (Ok tt, k)) \/
     (n < length ts /\ exists p, run_stream cap sched (firstn k D) = (firstn n ts, (Err E_LexEof, p)))).
Proof. exact stream_trunc. Qed.
Print Assumptions C19_lex_stream_trunc.

(* ---- non-vacuity: `0x2d82 = i32 89   0x2d83 = { i32 1 i32 2 }` (the document of Props/C19_bin.v) ---- *)
Definition C19_lex_doc : bytes :=
  [130;45; 1;0; 12;0; 89;0;0;0;  131;45; 1;0; 3;0; 12;0; 1;0;0;0; 12;0; 2;0;0;0; 4;0]%N.

Example C19_lex_doc_whole :
  run_lexer C19_lex_doc =
    ([BId 11650; BEqual; BI32 89; BId 11651; BEqual; BOpen; BI32 1; BI32 2; BClose], (Ok tt, 30)).
Proof. vm_compute. reflexivity. Qed.

(* cut after the id of the first i32 (6), inside its payload (8): Eof after the two complete tokens;
   cut at the token boundary 10: clean end, three tokens, position 10 *)
Example C19_lex_doc_cuts :
  run_lexer (firstn 6 C19_lex_doc) = ([BId 11650; BEqual], (Err E_LexEof, 4)) /\
  run_lexer (firstn 8 C19_lex_doc) = ([BId 11650; BEqual], (Err E_LexEof, 4)) /\
  run_lexer (firstn 10 C19_lex_doc) = ([BId 11650; BEqual; BI32 89], (Ok tt, 10)) /\
  run_slice_reader (firstn 8 C19_lex_doc) = ([BId 11650; BEqual], (Err E_LexEof, 4)).
Proof. repeat split; vm_compute; reflexivity. Qed.
