(* C06 (binary half) -- every successfully parsed binary tape is structurally sound.
   Statements only; names prefixed C06_bin_.  [tape_wf] (BinTapeWf.v): every container start at i
   stores an end e with i < e < |t| and t[e] = End i; every End points back at such a container;
   no container / End carries index 0; the open/close structure is the inductive grammar
   [closed_seq] (a Dyck word with the stored indices).

   Holds for ALL byte strings, for the optimised and the reference interpretation, for the code as
   it is (fx = false) and with the I64 exclusion (fx = true).  Invariant: closed prefix well formed
   + open chain through the end slots (proofs/BinTapeWfProofs.v, BinTapeInv.v); the optimised
   interpretation inherits it through the simulation of proofs/BinTapeSim.v.

   The byte-level clause (string payloads are slices of the input, numeric payloads equal the input
   bytes at their position) is proved in Props/C06_payload.v (C06_bin_payloads: [payloads_in_input],
   all byte strings, both interpretations); that every payload lexeme of the input IS on the tape is
   C06_bin_payloads_all_kept there (through C03's mirror theorem).  The harness additionally checks
   the pointer range and length prefix of every real string scalar. *)
From JV Require Import Bytes Tables BinPrim BinTape BinTapeWf.
From JV.proofs Require Import BinTapeWfProofs BinTapeInv BinTapeSim.

Theorem C06_bin_parse_wf : forall fx opt bytes t, parse fx opt bytes = Ok t -> tape_wf t.
Proof. exact parse_wf. Qed.
Print Assumptions C06_bin_parse_wf.

Theorem C06_bin_parse_opt_wf : forall bytes t, parse_opt bytes = Ok t -> tape_wf t.
Proof. intros. eapply parse_wf; eauto. Qed.
Print Assumptions C06_bin_parse_opt_wf.

Theorem C06_bin_parse_ref_wf : forall bytes t, parse_ref bytes = Ok t -> tape_wf t.
Proof. intros. eapply parse_wf; eauto. Qed.
Print Assumptions C06_bin_parse_ref_wf.

(* the executable checker the harness mirrors accepts every tape the grammar accepts *)
Theorem C06_bin_checker_complete : forall t, closed_seq 0 t -> not_cont_hd t -> tape_wfb t = true.
Proof. exact closed_checker. Qed.
Print Assumptions C06_bin_checker_complete.

Theorem C06_bin_parse_checker : forall fx opt bytes t, parse fx opt bytes = Ok t -> tape_wfb t = true.
Proof. exact parse_checker. Qed.
Print Assumptions C06_bin_parse_checker.

(* non-vacuity: accepted inputs exist, including a mixed container and ghost objects *)
Example C06_bin_nonvacuous : exists t,
  parse_opt [111;52; 1;0; 3;0; 187;187; 1;0; 14;0; 1; 14;0; 0; 3;0; 4;0; 4;0]%N = Ok t /\ tape_wfb t = true.
Proof. eexists. split; vm_compute; reflexivity. Qed.
