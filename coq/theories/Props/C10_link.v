(* C10 -- Text and binary renderings of one LOGICAL document deserialize to the same value: the link
   between the text walks (Props/C02_walk.v) and the binary walks (Props/C04_walk.v, C10_walk.v).
   Statements only.

   LogicDoc.v: logical documents (integers, booleans, strings, dates, floats, rgb colours, arrays,
   objects with duplicate keys), their text rendering [to_text : ldoc -> TextDoc.doc] and their binary
   rendering [to_bin e : ldoc -> BinDoc document] under an ENCODING CHOICE e (per node: I32 / U32 / I64 /
   U64 for an integer; quoted / unquoted / token id for a string and for a key; I32 date or string;
   F32 / F64; ghost objects).  [enc_ok e d]: the choice can express the document (the integer fits the
   token, the id resolves to / the literal decodes to the string the text decoder yields, u16 lengths).
   [shared s d]: the target shape reads the document the same way from both formats by construction
   (the table LogicDoc.scalar_shared; sequences / tuples on arrays; maps and structs-by-name on
   non-empty objects; Option anywhere; ignored and unknown fields whatever they contain).

   PROVED, for every text decoder, float parser, resolver, strategy, flavor, float casts, shape, document,
   encoding choice, no size bound:
     1. per scalar: C10_link_int_unsigned / _int_signed / _int_bool / _int_float / _bool / _string /
        _string_enum / _date / _float / _scalar_table: the typed hint of the text deserializers on the text
        rendering (TextDeCommon.scalar_prim, then the shape's visitor) = the shape's visitor on the binary
        token (BinDoc.scalar_prim, SerdeShape.visit_prim).  Side conditions are in the statements:
        integers in (i64::MIN, u64::MAX] with the token wide enough -- out-of-range targets and bool
        targets REFUSE on both sides; strings under a typed hint that does not parse; u16 (token hint)
        excluded on strings; dates -5000 <= y <= 32767 on a calendar day, text decoder leaving the date
        text alone; floats under the decidable-per-instance conditions [float_ok] / [int_float_ok].
     2. C10_spec_agree: shared s d -> enc_ok e d -> TextDeSpec.spec_value s (to_text d) = BinDoc.spec_value
        s (to_bin e d) at every fuel above shape + document size, in particular (C10_spec_of_agree) at the
        fuel of the binary entry points: nested objects / arrays / duplicate keys / Option / unknown fields /
        Once | Last | Collect struct fields / maps / tuples / enums included.
     3. C10_shared_fits (a shared target fits the text rendering) and C10_text_bin_agree_partial: hence the
        text tape path on flatten (to_text d), the text stream path
        on tokens (to_text d), the binary tape path, the on-demand path and the stream reader (any capacity
        that fits, any fault-free schedule) on enc_doc (to_bin e d) all return the same value.
     4. colours: C10_link_rgb_typed_agree (a colour captured as (String, Vec<uN>): text tape path = the three
        binary paths, all channel values, errors included) and C10_link_rgb_any_refuted (an `any` target
        sees different structures).
   PARTIAL / NOT PROVED:
     * rgb colours are part of the logical documents but [shared] only where they are ignored (unknown
       field): TextDeSpec says UNFIT on headers, so theorem 3 excludes them (norgb_fields); item 4 is for
       the one-field document `color = rgb {..}`, not for colours at arbitrary positions of a document;
     * keys are strings (no I32 keys), the operator is `=`, no Property<T> (text only), no token-attribute
       structs (the text side refuses numeric keys there), no `any` / String / date target on an integer
       (text hands out the numeral, binary the number: by design), DateHour dates;
     * C10_text_bytes_bin_agree_partial starts from the text BYTES under every layout for the tape path
       (through C01_parse_render); the stream path starts from the token sequence (bytes -> tokens for every
       buffer size is C07, not composed here). *)
From JV Require Import Bytes Tables Utf8 Scalar Date TextTok BinPrim BufWin BinLexer BinReader SerdeShape
  TextDeCommon BinDeCommon TextDeSpec TextDeTape TextDeStream BinDeOndemand BinDeReader BinDeTape LogicDoc.
From JV Require TextDoc BinDoc.
From JV.proofs Require Import C10LinkProofs C10SpecProofs C10FitsProofs C10ComposeProofs C10RgbProofs.
Open Scope N_scope.

(* text_visit decode pf cfg sh raw  = tvisit_prim F sh (scalar_prim decode pf true (thint_of sh) raw)
   bin_visit cfg sh s               = do p <- BinDoc.scalar_prim cfg s; visit_prim F sh p        (F = c_fops cfg)
   int_tok w z                      = the I32 / U32 / I64 / U64 token carrying z *)

(* ------------------------------------------------------------------ 1. scalars *)
Theorem C10_link_int_unsigned : forall decode pf cfg bits w z,
  int_fits w z -> (- 2 ^ 63 < z)%Z ->
  text_visit decode pf cfg (ShU bits) (fmt_int 0 z) = bin_visit cfg (ShU bits) (int_tok w z).
Proof. exact int_agree_u. Qed.
Print Assumptions C10_link_int_unsigned.

Theorem C10_link_int_signed : forall decode pf cfg bits w z,
  int_fits w z -> (- 2 ^ 63 < z)%Z ->
  text_visit decode pf cfg (ShI bits) (fmt_int 0 z) = bin_visit cfg (ShI bits) (int_tok w z).
Proof. exact int_agree_i. Qed.
Print Assumptions C10_link_int_signed.

Theorem C10_link_int_bool : forall decode pf cfg w z,
  int_fits w z -> text_visit decode pf cfg ShBool (fmt_int 0 z) = bin_visit cfg ShBool (int_tok w z).
Proof. exact int_agree_bool. Qed.

Theorem C10_link_int_float : forall decode pf cfg sh w z,
  sh = ShF32 \/ sh = ShF64 -> int_fits w z -> int_float_ok pf cfg z ->
  text_visit decode pf cfg sh (fmt_int 0 z) = bin_visit cfg sh (int_tok w z).
Proof. exact int_agree_float. Qed.

(* the smallest i64 is the one integer a token can carry whose numeral Scalar::to_i64 refuses
   (C15's finding int-exact-i64min seen from this property) *)
Theorem C10_link_i64_min_refuted :
  exists decode pf cfg, int_fits WI64 (- 2 ^ 63)%Z /\
    text_visit decode pf cfg (ShI 64) (fmt_int 0 (- 2 ^ 63)) = Err EC_DE /\
    bin_visit cfg (ShI 64) (int_tok WI64 (- 2 ^ 63)) = Ok (DI (- 2 ^ 63)).
Proof.
  exists (fun d => Borrowed d), (fun _ => Err 1), BinDeSpecProofs.cfg0.
  split; [cbn; lia|]. split; vm_compute; reflexivity.
Qed.

Theorem C10_link_bool : forall decode pf cfg sh (b : bool),
  match sh return Prop with ShBool | ShU _ | ShI _ => True | _ => False end ->
  text_visit decode pf cfg sh (if b then STR_YES else STR_NO) = bin_visit cfg sh (BinDoc.SBool b).
Proof. exact bool_agree. Qed.

(* strings: [raw] the text rendering, [s] the binary bytes, [f] quoted / unquoted / id; str_ok = the id
   resolves to / the literal decodes to what the text decoder makes of raw; str_inert = the target is a
   string-like one (String, any, Date, DateHour) or a typed one whose parse of raw fails *)
Theorem C10_link_string : forall decode pf cfg sh f raw s,
  str_inert pf sh raw -> str_ok decode cfg f raw s ->
  text_visit decode pf cfg sh raw = bin_visit cfg sh (bin_str f s).
Proof. exact str_agree. Qed.
Print Assumptions C10_link_string.

Theorem C10_link_string_enum : forall decode cfg names f raw s,
  str_ok decode cfg f raw s ->
  tvisit_variant names (pstr (decode raw)) = (do p <- BinDoc.scalar_prim cfg (bin_str f s); visit_variant names p).
Proof. exact str_agree_enum. Qed.

Theorem C10_link_date : forall decode pf cfg c y m d wide q,
  date_ok decode y m d wide -> scalar_enc_ok decode cfg c (LDate y m d wide q) ->
  text_visit decode pf cfg ShDate (date_text y m d wide) = bin_visit cfg ShDate (bin_scalar c (LDate y m d wide q)).
Proof. exact date_agree. Qed.
Print Assumptions C10_link_date.

(* the value both sides deliver for a date *)
Theorem C10_link_date_value : forall y m d wide,
  (-5000 <= y <= 32767)%Z -> ld_valid_md m d = true ->
  date_parse (date_text y m d wide) = Ok (Some (ldate_raw y m d)) /\
  date_from_binary (date_bin y m d) = Ok (Some (ldate_raw y m d)).
Proof. exact date_both. Qed.

Theorem C10_link_float : forall decode pf cfg sh c raw p32 p64,
  sh = ShF32 \/ sh = ShF64 -> float_ok pf cfg raw p32 p64 ->
  text_visit decode pf cfg sh raw = bin_visit cfg sh (bin_scalar c (LFloat raw p32 p64)).
Proof. exact float_agree. Qed.

Theorem C10_link_scalar_table : forall decode pf cfg core c l,
  (forall names, core <> ShEnum names) ->
  scalar_shared decode pf cfg core l -> scalar_enc_ok decode cfg c l ->
  text_visit decode pf cfg core (snd (text_scalar l)) = bin_visit cfg core (bin_scalar c l).
Proof. exact scalar_agree. Qed.
Print Assumptions C10_link_scalar_table.

(* outside the table, by design: a String target on an integer *)
Theorem C10_link_string_on_int_refuted :
  exists decode pf cfg,
    text_visit decode pf cfg ShStr (fmt_int 0 7) = Ok (DStr [55]) /\
    bin_visit cfg ShStr (int_tok WI32 7) = Err EC_DE.
Proof. exists (fun d => Borrowed d), (fun _ => Err 1), BinDeSpecProofs.cfg0. split; vm_compute; reflexivity. Qed.

(* ------------------------------------------------------------------ 2. the two specifications *)
Theorem C10_spec_agree : forall decode pf cfg sh d e fuel,
  shared decode pf cfg sh d -> enc_ok decode cfg e d ->
  (BinDeCommon.shape_size sh + lsize_fields d < fuel)%nat ->
  TextDeSpec.spec_value decode pf (c_fops cfg) sh (to_text d)
  = BinDoc.spec_value cfg fuel sh (fst (to_bin e d)) (snd (to_bin e d)).
Proof. exact spec_agree. Qed.
Print Assumptions C10_spec_agree.

(* at the fuel the binary entry points use *)
Theorem C10_spec_of_agree : forall decode pf cfg sh d e,
  shared decode pf cfg sh d -> enc_ok decode cfg e d ->
  TextDeSpec.spec_value decode pf (c_fops cfg) sh (to_text d)
  = BinDoc.spec_of cfg sh (fst (to_bin e d)) (snd (to_bin e d)).
Proof. exact spec_of_agree. Qed.
Print Assumptions C10_spec_of_agree.

(* any value inside a document, any Option nesting of the target *)
Theorem C10_value_agree : forall decode pf cfg v sh e fuel st o,
  shared_v decode pf cfg sh v -> enc_ok_v decode cfg e v ->
  (BinDeCommon.shape_size sh + lsize v <= fuel)%nat ->
  walk (c_fops cfg) (BinDoc.ops_doc cfg) fuel false sh (to_bin_val e v) st
  = omap (fun d => (d, st)) (TextDeSpec.spec_v decode pf (c_fops cfg) (to_text_val v) sh o).
Proof. intros decode pf cfg v. exact (val_agree decode pf cfg v). Qed.

(* the renderings are what the walk theorems need *)
Theorem C10_renderings_wf : forall decode cfg e d,
  wf_ldoc d = true -> norgb_fields d = true -> enc_ok decode cfg e d ->
  core_fields (to_text d) = true /\
  BinDoc.wf_doc (fst (to_bin e d)) (snd (to_bin e d)) = true /\
  BinDoc.tape_ok_doc (fst (to_bin e d)) = true.
Proof.
  intros decode cfg e d Hw Hn He. split; [apply core_text, Hn|]. split; [apply (bin_wf_doc decode cfg), He; exact Hw|apply bin_tape_ok_doc, Hn].
Qed.

(* ------------------------------------------------------------------ 3. the five paths *)
(* a shared target fits the text rendering: the specification never says "unfit" (so the hypothesis [fits] of
   the C02 walk theorems is discharged; it needs that the date parsers never return an error class) *)
Theorem C10_shared_fits : forall decode pf cfg sh d,
  shared decode pf cfg sh d -> TextDeSpec.fits decode pf (c_fops cfg) sh (to_text d).
Proof. exact shared_fits. Qed.
Print Assumptions C10_shared_fits.

Theorem C10_text_bin_agree_partial : forall decode pf cfg sh d e cap sched,
  wf_ldoc d = true -> norgb_fields d = true ->
  shared decode pf cfg sh d -> enc_ok decode cfg e d ->
  no_fail sched = true -> BinLexer.fits cap (BinDoc.enc_doc (fst (to_bin e d)) (snd (to_bin e d))) = true ->
  let v := TextDeSpec.spec_value decode pf (c_fops cfg) sh (to_text d) in
  let b := BinDoc.enc_doc (fst (to_bin e d)) (snd (to_bin e d)) in
  v <> Err EC_UNFIT /\
  TextDeTape.deser_tape decode pf (c_fops cfg) sh (TextDoc.flatten (to_text d)) = v /\
  TextDeStream.deser_stream decode pf (c_fops cfg) sh (tokens (to_text d)) = v /\
  BinDeTape.deser_tape cfg sh b = v /\
  BinDeOndemand.deser_ondemand cfg sh b = v /\
  BinDeReader.deser_reader cfg cap sched sh b = v.
Proof. exact text_bin_agree_shared. Qed.
Print Assumptions C10_text_bin_agree_partial.

(* ... and from the text BYTES: whatever the layout of the text rendering (white space, comments, `=` before
   `{`, BOM: TextDoc.wf_layout), the text parser produces the tape (C01_parse_render) on which the text
   deserializer returns what every binary path returns on the binary rendering.  [TextDoc.wf_doc (to_text d)]:
   the strings of the document are writable as text scalars (a boolean check on the rendering). *)
Theorem C10_text_bytes_bin_agree_partial : forall decode pf cfg sh d e l cap sched,
  wf_ldoc d = true -> norgb_fields d = true ->
  shared decode pf cfg sh d -> enc_ok decode cfg e d ->
  TextDoc.wf_doc (to_text d) -> TextDoc.wf_layout (to_text d) l ->
  no_fail sched = true -> BinLexer.fits cap (BinDoc.enc_doc (fst (to_bin e d)) (snd (to_bin e d))) = true ->
  let b := BinDoc.enc_doc (fst (to_bin e d)) (snd (to_bin e d)) in
  exists t, TextTape.parse (TextDoc.render (to_text d) l) = Ok (t, TextDoc.bom l) /\
    TextDeTape.deser_tape decode pf (c_fops cfg) sh t = BinDeTape.deser_tape cfg sh b /\
    TextDeTape.deser_tape decode pf (c_fops cfg) sh t = BinDeOndemand.deser_ondemand cfg sh b /\
    TextDeTape.deser_tape decode pf (c_fops cfg) sh t = BinDeReader.deser_reader cfg cap sched sh b.
Proof. exact text_bytes_bin_agree_shared. Qed.
Print Assumptions C10_text_bytes_bin_agree_partial.

(* ------------------------------------------------------------------ 4. colours
   `color = rgb { r g b [a] }` (text tape: Header + array, read through the two-element view of dom.rs)
   against the binary rgb block (ColorSequence): for the typed target (String, Vec<uN>) -- how a colour is
   captured -- the text tape path and the three binary paths return the same value, ERRORS INCLUDED (a
   channel out of range of uN is refused at the same position), for all channel values, with or without
   alpha, every N, every resolver / strategy / float parameters; the string decoders are the identity (the
   two names are ASCII).  [rgb_value bits c] = Ok {color: ("rgb", [r, g, b(, a)])} or Err EC_DE.
   The text STREAM path does not deliver headers at all (C02_known_H_stream_header). *)
Theorem C10_link_rgb_typed_agree : forall res strat f32 f64 F pf bits c cap sched,
  rgb_ok c -> no_fail sched = true ->
  BinLexer.fits cap (BinDoc.enc_doc (fst (to_bin rgb_enc (rgb_doc c))) (snd (to_bin rgb_enc (rgb_doc c)))) = true ->
  let cfg := rgb_cfg res strat f32 f64 F in
  let b := BinDoc.enc_doc (fst (to_bin rgb_enc (rgb_doc c))) (snd (to_bin rgb_enc (rgb_doc c))) in
  TextDeTape.deser_tape id_dec pf F (rgb_shape bits) (TextDoc.flatten (to_text (rgb_doc c))) = rgb_value bits c /\
  BinDeTape.deser_tape cfg (rgb_shape bits) b = rgb_value bits c /\
  BinDeOndemand.deser_ondemand cfg (rgb_shape bits) b = rgb_value bits c /\
  BinDeReader.deser_reader cfg cap sched (rgb_shape bits) b = rgb_value bits c.
Proof. exact rgb_typed_agree. Qed.
Print Assumptions C10_link_rgb_typed_agree.

Example C10_link_rgb_nonvacuous :
  rgb_ok (mkrgb 110 27 300 (Some 0)) /\
  rgb_value 8 (mkrgb 110 27 255 (Some 0)) = Ok (DStruct [ (b_color, DSeq [DStr RGB_NAME; DSeq [DU 110; DU 27; DU 255; DU 0]]) ]) /\
  rgb_value 8 (mkrgb 110 27 300 (Some 0)) = Err EC_DE /\
  TextDoc.flatten (to_text (rgb_doc (mkrgb 1 2 3 None))) =
    [TUnquoted b_color; THeader RGB_NAME; TArray 6 false; TUnquoted [49]; TUnquoted [50]; TUnquoted [51]; TEnd 2].
Proof. split; [repeat constructor|]. repeat split; reflexivity. Qed.

(* a dynamically typed (`any`) target: the text tape path skips the header and delivers the channel list
   (as strings), the binary paths deliver the tagged pair ("rgb", [1, 2, 3]) -- a difference in STRUCTURE
   on top of the by-design string / number difference of `any` on scalars.  `any` targets are outside
   [shared]; props/C10.py replays the witness on the implementation. *)
Theorem C10_link_rgb_any_refuted :
  let c := mkrgb 1 2 3 None in
  let b := BinDoc.enc_doc (fst (to_bin rgb_enc (rgb_doc c))) (snd (to_bin rgb_enc (rgb_doc c))) in
  TextDeTape.deser_tape id_dec (fun _ => Err 1) (c_fops cfg_id) rgb_any_shape (TextDoc.flatten (to_text (rgb_doc c)))
    = Ok (DStruct [ (b_color, DSeq [DStr [49]; DStr [50]; DStr [51]]) ]) /\
  BinDeTape.deser_tape cfg_id rgb_any_shape b = Ok (DStruct [ (b_color, DSeq [DStr RGB_NAME; DSeq [DU 1; DU 2; DU 3]]) ]) /\
  BinDeOndemand.deser_ondemand cfg_id rgb_any_shape b = BinDeTape.deser_tape cfg_id rgb_any_shape b /\
  BinDeReader.deser_reader cfg_id 64 [] rgb_any_shape b = BinDeTape.deser_tape cfg_id rgb_any_shape b.
Proof. exact rgb_any_refuted. Qed.

(* ------------------------------------------------------------------ non-vacuity
   abc=7 k={ a=yes "n"=-5 n=300 } l={ 1 2 4000000000 } abc=9 d=1444.11.11 u={ z={ "x y" } } s="x y" t={ { z=q } { } }
   binary: key abc as token 0x1234, 7 as U64, 4000000000 as U32, everything else I32; the date as I32; a ghost
   before the closing brace of k and before the second abc; into
   struct { abc*: u8, k: struct { a: bool, n (last): i16, m: Option<String> }, l: Vec<u64>, d: Option<Date>,
            s: String, t: (map<String>, Vec<bool>) }   -- u is unknown to the shape *)
Definition ex_dec (d : bytes) : cow := Borrowed d.
Definition ex_pf (d : bytes) : outcome N := Err 1.
Definition ex_cfg : bcfg := BinDeSpecProofs.cfg0.
Definition s_abc : bytes := [97; 98; 99].
Definition ex_doc : ldoc :=
  [ (Unq, s_abc, LScalar (LInt 7));
    (Unq, [107], LObj [ (Unq, [97], LScalar (LBool true)); (Quo, [110], LScalar (LInt (-5))); (Unq, [110], LScalar (LInt 300)) ]);
    (Unq, [108], LArr [LScalar (LInt 1); LScalar (LInt 2); LScalar (LInt 4000000000)]);
    (Unq, s_abc, LScalar (LInt 9));
    (Unq, [100], LScalar (LDate 1444 11 11 false false));
    (Unq, [117], LObj [ (Unq, [122], LArr [LScalar (LStr Quo [120; 32; 121])]) ]);
    (Unq, [115], LScalar (LStr Quo [120; 32; 121]));
    (Unq, [116], LArr [LObj [ (Unq, [122], LScalar (LStr Unq [113])) ]; LArr []]) ].
Definition ex_shape : shape :=
  ShStruct false
    [ (s_abc, None, MCollect, ShU 8);
      ([107], None, MOnce, ShStruct false [ ([97], None, MOnce, ShBool); ([110], None, MLast, ShI 16); ([109], None, MOnce, ShOpt ShStr) ]);
      ([108], None, MOnce, ShSeq (ShU 64));
      ([100], None, MOnce, ShOpt ShDate);
      ([115], None, MOnce, ShStr);
      ([116], None, MOnce, ShTup [ShMap ShStr; ShSeq ShBool]) ].
Definition ex_c0 : choice := mkchoice WI32 FQuoted true false FUnquoted false false.
Definition ex_enc : enc_choice := fun p =>
  match p with
  | [0%nat] => mkchoice WU64 FQuoted true false (FId 4660) false false
  | [1%nat] => mkchoice WI32 FQuoted true false FUnquoted false true
  | [2%nat; 2%nat] => mkchoice WU32 FQuoted true false FUnquoted false false
  | [3%nat] => mkchoice WI32 FQuoted true false FQuoted true false
  | _ => ex_c0
  end.
Definition ex_value : dval :=
  DStruct [ (s_abc, DSeq [DU 7; DU 9]);
            ([107], DStruct [ ([97], DBool true); ([110], DI 300); ([109], DNone) ]);
            ([108], DSeq [DU 1; DU 2; DU 4000000000]);
            ([100], DSome (DDate 1444 11 11 0));
            ([115], DStr [120; 32; 121]);
            ([116], DSeq [DMap [([122], DStr [113])]; DSeq []]) ].

Example C10_link_nonvacuous :
  wf_ldoc ex_doc = true /\ norgb_fields ex_doc = true /\ TextDoc.wf_doc (to_text ex_doc) /\
  shared ex_dec ex_pf ex_cfg ex_shape ex_doc /\ enc_ok ex_dec ex_cfg ex_enc ex_doc /\
  TextDeSpec.fits ex_dec ex_pf (c_fops ex_cfg) ex_shape (to_text ex_doc) /\
  BinLexer.fits 32 (BinDoc.enc_doc (fst (to_bin ex_enc ex_doc)) (snd (to_bin ex_enc ex_doc))) = true /\
  TextDeSpec.spec_value ex_dec ex_pf (c_fops ex_cfg) ex_shape (to_text ex_doc) = Ok ex_value /\
  TextDeTape.deser_tape ex_dec ex_pf (c_fops ex_cfg) ex_shape (TextDoc.flatten (to_text ex_doc)) = Ok ex_value /\
  BinDeReader.deser_reader ex_cfg 32 [Data 1; Data 5; Data 2] ex_shape
    (BinDoc.enc_doc (fst (to_bin ex_enc ex_doc)) (snd (to_bin ex_enc ex_doc))) = Ok ex_value.
Proof.
  split; [reflexivity|]. split; [reflexivity|]. split; [reflexivity|].
  split. { cbn. repeat split; try reflexivity; try lia; try discriminate. }
  split. { cbn. repeat split; try reflexivity; try lia; try discriminate. }
  split. { unfold TextDeSpec.fits. vm_compute. discriminate. }
  split; [vm_compute; reflexivity|]. split; [vm_compute; reflexivity|]. split; vm_compute; reflexivity.
Qed.

(* a layout for the example: one space in every gap, no BOM; the text parser then yields the tape on which
   the text deserializer returns the example's value *)
Definition ex_layout : TextDoc.layout := TextDoc.mkLayout false (fun _ => [32]).
Example C10_link_nonvacuous_layout :
  TextDoc.wf_layout (to_text ex_doc) ex_layout /\
  omap (fun p => TextDeTape.deser_tape ex_dec ex_pf (c_fops ex_cfg) ex_shape (fst p))
       (TextTape.parse (TextDoc.render (to_text ex_doc) ex_layout)) = Ok (Ok ex_value).
Proof.
  split; [|vm_compute; reflexivity].
  split; [intros i; apply TextDoc.gap_ws; [reflexivity|apply TextDoc.gap_nil]|].
  split; [|intros _; vm_compute; reflexivity].
  cbn. repeat split; intros; reflexivity.
Qed.
