(* C02 — the deserializer walks, part 2: composition with the BYTE level and the grammar beyond the
   core (complements Props/C02_walk.v, whose theorems are kept).  Statements only.

   PART 1 — from bytes.  The theorems of C02_walk.v talk about the tape `flatten d` and the reader
   tokens `tokens d` of an abstract document.  Here the input is the BYTE string `render d l` of the
   document under an arbitrary layout l (any gap of white space / ';' / comments between any two
   tokens and around the document, optional BOM; TextDoc.wf_layout):
     * C02_slice_path_bytes_partial: TextDeserializer::from_*_slice = TextTape.parse (C01's model of
       text/tape.rs) followed by the tape walk (TextDeBytes.deser_slice) returns spec_value, for every
       layout -- by C01_parse_render;
     * C02_reader_tokens_bytes: on a rendering of ANY well-formed document without parameter blocks
       whose bare words do not start with '?' (TextDeBytes.plain_fields; headers, object tails,
       key-value arrays included), the STREAMING reader (TextReader.run_stream, C07's model of
       text/reader.rs) yields exactly the document's reader tokens TextDeSpec.tokens d and a clean
       end, under EVERY read schedule without I/O failure and EVERY buffer capacity >= need -- by the
       reference tokenizer (TextRef) and C07_stream_eq_tok; C02_slice_reader_tokens_bytes: the same
       for the zero-copy token reader (C07_slice_eq_tok);
     * C02_reader_path_bytes_partial: hence TextDeserializer::from_*_reader (TextDeBytes.deser_reader:
       the stream walk over the tokens the streaming reader produces) returns spec_value, and
       C02_paths_agree_bytes_partial: both paths agree on the bytes.
   `_partial`: the document is in the CORE grammar (see C02_walk.v) for the value theorems; the
   stream walk is the token-list instance, i.e. TextReaderMap's skip of ghost / unknown containers is
   the token-level skip (that the byte-level skip_container lands on the same token is C09_text's
   doc_stream_skip, proved for simple documents); wf_bytes (render d l) = the input is a byte string.
   The '?' restriction is necessary: see C02_qmark_word_lexers_differ below. *)
From JV Require Import Bytes Utf8 BufWin TextTok TextTape TextReader TextRef TextDoc SerdeShape TextDeCommon TextDeTape
  TextDeStream TextDeSpec TextDeBytes.
From JV.proofs Require Import TextDeMoreBytes.
From JV.Props Require Import C02_walk.
Open Scope nat_scope.

Theorem C02_slice_path_bytes_partial : forall (decode : bytes -> cow) (parse_f64 : bytes -> outcome N) (F : fops) sh d l,
  core_fields d = true -> wf_doc d -> wf_layout d l -> fits decode parse_f64 F sh d ->
  deser_slice decode parse_f64 F sh (render d l) = spec_value decode parse_f64 F sh d.
Proof. exact slice_path_bytes. Qed.
Print Assumptions C02_slice_path_bytes_partial.

(* the reference tokenizer reads a rendering token for token *)
Theorem C02_ref_tokens_render : forall d l,
  wf_doc d -> plain_fields d = true -> wf_layout d l ->
  tokens_of (render d l) = map OTok (rtoks_fields d) ++ [OEnd].
Proof. exact ref_tokens_render. Qed.
Print Assumptions C02_ref_tokens_render.

Theorem C02_reader_tokens_bytes : forall d l sch capv,
  wf_doc d -> plain_fields d = true -> wf_layout d l -> wf_bytes (render d l) ->
  no_fail sch -> need (render d l) <= capv ->
  fst (run_stream capv sch (render d l)) = map OTok (rtoks_fields d) ++ [OEnd] /\
  ltoks_of (fst (run_stream capv sch (render d l))) = Ok (tokens d).
Proof. exact reader_tokens_bytes. Qed.
Print Assumptions C02_reader_tokens_bytes.

Theorem C02_slice_reader_tokens_bytes : forall d l,
  wf_doc d -> plain_fields d = true -> wf_layout d l -> wf_bytes (render d l) ->
  ltoks_of (fst (run_slice (render d l))) = Ok (tokens d).
Proof. exact slice_reader_tokens_bytes. Qed.
Print Assumptions C02_slice_reader_tokens_bytes.

Theorem C02_reader_path_bytes_partial : forall (decode : bytes -> cow) (parse_f64 : bytes -> outcome N) (F : fops) sh d l sch capv,
  core_fields d = true -> plain_fields d = true -> wf_doc d -> wf_layout d l -> wf_bytes (render d l) ->
  no_fail sch -> need (render d l) <= capv -> fits decode parse_f64 F sh d ->
  deser_reader decode parse_f64 F sh capv sch (render d l) = spec_value decode parse_f64 F sh d.
Proof. exact reader_path_bytes. Qed.
Print Assumptions C02_reader_path_bytes_partial.

Theorem C02_paths_agree_bytes_partial : forall (decode : bytes -> cow) (parse_f64 : bytes -> outcome N) (F : fops) sh d l sch capv,
  core_fields d = true -> plain_fields d = true -> wf_doc d -> wf_layout d l -> wf_bytes (render d l) ->
  no_fail sch -> need (render d l) <= capv -> fits decode parse_f64 F sh d ->
  deser_slice decode parse_f64 F sh (render d l) = deser_reader decode parse_f64 F sh capv sch (render d l).
Proof. exact paths_agree_bytes. Qed.
Print Assumptions C02_paths_agree_bytes_partial.

(* ---- non-vacuity: doc1 / sh1 of C02_walk.v under a layout with a comment, CRLF and ';', one-byte reads
   and the smallest sufficient buffer *)
Definition lay1 (b : bool) : layout :=
  mkLayout b (fun i => if Nat.eqb i 0 then [] else if Nat.eqb i 2 then [35; 99; 123; 34; 10; 32]%N
                       else if Nat.eqb i 5 then [13; 10; 9]%N else if Nat.eqb i 9 then [32; 59; 32]%N else [32]%N).

Example C02_bytes_nonvacuous : forall b,
  core_fields doc1 = true /\ plain_fields doc1 = true /\ wf_doc doc1 /\ wf_layout doc1 (lay1 b) /\
  wf_bytes (render doc1 (lay1 b)) /\ no_fail (repeat (Data 1) 200) /\ fits dec0 pf0 F0 sh1 doc1.
Proof.
  intros b. split; [reflexivity|]. split; [reflexivity|]. split; [reflexivity|]. split; [|split; [|split]].
  - split; [|split].
    + intros i. cbn [lay1 gap].
      repeat match goal with |- context [Nat.eqb i ?k] => destruct (Nat.eqb i k) end;
        apply TextScanProofs.gap_okb_sound; reflexivity.
    + cbn. repeat split; intros H; try discriminate H; try reflexivity; exact I.
    + cbn [lay1 bom]. intros ->. reflexivity.
  - apply Forall_forall. intros x Hx. destruct b; vm_compute in Hx;
      repeat (destruct Hx as [<- | Hx]; [reflexivity|]); destruct Hx.
  - intros H. apply repeat_spec in H. discriminate.
  - unfold fits. vm_compute. discriminate.
Qed.

Example C02_bytes_example_runs :
  need (render doc1 (lay1 true)) = 5 /\
  deser_reader dec0 pf0 F0 sh1 5 (repeat (Data 1) 200) (render doc1 (lay1 true)) =
    deser_slice dec0 pf0 F0 sh1 (render doc1 (lay1 true)) /\
  deser_slice dec0 pf0 F0 sh1 (render doc1 (lay1 true)) = deser_tape dec0 pf0 F0 sh1 (flatten doc1).
Proof. repeat split; vm_compute; reflexivity. Qed.

(* the restriction to words that do not start with '?' cannot be dropped: the two lexers differ on
   `?x=1` -- the tape parser reads the scalar "?x", the token reader the operator `?=` and "x" *)
Theorem C02_qmark_word_lexers_differ :
  TextTape.parse [63; 120; 61; 49]%N = Ok ([TUnquoted [63; 120]%N; TUnquoted [49]%N], false) /\
  fst (run_slice [63; 120; 61; 49]%N) = [OTok (ROp Exists); OTok (RUnq [120]%N); OTok (ROp Equal); OTok (RUnq [49]%N); OEnd].
Proof. split; vm_compute; reflexivity. Qed.
