(* C02 — the deserializer walks, part 2: composition with the BYTE level and the grammar beyond the
   core (complements Props/C02_walk.v, whose theorems are kept).  Statements only.

   PART 1 — from bytes.  The theorems of C02_walk.v talk about the tape `flatten d` and the reader
   tokens `tokens d` of an abstract document.  Here the input is the BYTE string `render d l` of the
   document under an arbitrary layout l (any gap of white space / ';' / comments between any two
   tokens and around the document, optional BOM; TextDoc.wf_layout):
     * C02_slice_path_bytes_partial: TextDeserializer::from_*_slice = TextTape.parse (C01's model of
       text/tape.rs) followed by the tape walk (TextDeBytes.deser_slice) returns spec_value, for every
       layout -- by C01_parse_render;
     * C02_reader_tokens_bytes: on a rendering of ANY well-formed document without parameter blocks
       whose bare words do not start with '?' (TextDeBytes.plain_fields; headers, object tails,
       key-value arrays included), the STREAMING reader (TextReader.run_stream, C07's model of
       text/reader.rs) yields exactly the document's reader tokens TextDeSpec.tokens d and a clean
       end, under EVERY read schedule without I/O failure and EVERY buffer capacity >= need -- by the
       reference tokenizer (TextRef) and C07_stream_eq_tok; C02_slice_reader_tokens_bytes: the same
       for the zero-copy token reader (C07_slice_eq_tok);
     * C02_reader_path_bytes_partial: hence TextDeserializer::from_*_reader (TextDeBytes.deser_reader:
       the stream walk over the tokens the streaming reader produces) returns spec_value, and
       C02_paths_agree_bytes_partial: both paths agree on the bytes.
   `_partial`: the document is in the CORE grammar (see C02_walk.v) for the value theorems; the
   stream walk is the token-list instance, i.e. TextReaderMap's skip of ghost / unknown containers is
   the token-level skip (that the byte-level skip_container lands on the same token is C09_text's
   doc_stream_skip, proved for simple documents); wf_bytes (render d l) = the input is a byte string.
   The '?' restriction is necessary: see C02_qmark_word_lexers_differ below.

   PART 2 — the TAPE path beyond the core grammar.  Specification: TextDeSpec2.spec_value2 tp (see its
   header: `{}` / arrays where a map or struct is asked for, object tails and the synthetic
   "remainder" key, headers, parameter blocks; tp = true: the tape path's semantics, tp = false: the
   sub-semantics meant to be common to both paths).  Grammar: EVERY construct of TextDoc
   (TextDeSpec2.ext_fields; C02_wf_in_grammar: every wf_doc document), every shape, default fuel:
     * C02_tape_path_ext_partial: deser_tape (flatten d) = spec_value2 tp, for both flags;
       C02_tape_path_headers_partial / _remainder_partial / _params_partial: what the specification
       says about each construct (equations of spec_v2 / spec_fields2, so that the statement can be
       read without unfolding the fixpoint), each with a computed instance;
     * C02_slice_path_ext_bytes_partial: the same from the BYTES of any rendering (with C01);
   `_partial`, NOT proved: arrays that turn into key-value lists are only covered where they are
   ignored (the tape path delivers their raw token sequence -- values, the MixedContainer marker,
   keys, operators -- as elements); `any` (and dates) on containers and on headers; Property / map /
   struct shapes on a header; seq shapes on an object (with or without tail); EnumAccess on arrays.
   Ghost `{}` objects have no constructor in TextDoc (a member of `fields` is a key-value field or a
   parameter block), so flatten d never holds a container in key position: nothing to prove on the
   tape side; this is not stated as a theorem.

   PART 3 — the STREAM path beyond the core grammar is in Props/C02_ext.v (C02_stream_path_ext_partial,
   C02_paths_agree_outside_headers_partial, and from the bytes C02_reader_path_ext_bytes_partial /
   C02_paths_agree_ext_bytes_partial).  Where the paths differ is pinned by
   computed witnesses: finding H (C02_walk.v), C02_paths_differ_on_tail, C02_paths_differ_header_any. *)
From JV Require Import Bytes Utf8 BufWin TextTok TextTape TextReader TextRef TextDoc SerdeShape TextDeCommon TextDeTape
  TextDeStream TextDeSpec TextDeBytes.
From JV Require Import TextDeSpec2.
From JV.proofs Require Import TextDeMoreBytes TextDeMoreTape.
From JV.Props Require C01.
From JV.Props Require Import C02_walk.
Open Scope nat_scope.

Theorem C02_slice_path_bytes_partial : forall (decode : bytes -> cow) (parse_f64 : bytes -> outcome N) (F : fops) sh d l,
  core_fields d = true -> wf_doc d -> wf_layout d l -> fits decode parse_f64 F sh d ->
  deser_slice decode parse_f64 F sh (render d l) = spec_value decode parse_f64 F sh d.
Proof. exact slice_path_bytes. Qed.
Print Assumptions C02_slice_path_bytes_partial.

(* the reference tokenizer reads a rendering token for token *)
Theorem C02_ref_tokens_render : forall d l,
  wf_doc d -> plain_fields d = true -> wf_layout d l ->
  tokens_of (render d l) = map OTok (rtoks_fields d) ++ [OEnd].
Proof. exact ref_tokens_render. Qed.
Print Assumptions C02_ref_tokens_render.

Theorem C02_reader_tokens_bytes : forall d l sch capv,
  wf_doc d -> plain_fields d = true -> wf_layout d l -> wf_bytes (render d l) ->
  no_fail sch -> need (render d l) <= capv ->
  fst (run_stream capv sch (render d l)) = map OTok (rtoks_fields d) ++ [OEnd] /\
  ltoks_of (fst (run_stream capv sch (render d l))) = Ok (tokens d).
Proof. exact reader_tokens_bytes. Qed.
Print Assumptions C02_reader_tokens_bytes.

Theorem C02_slice_reader_tokens_bytes : forall d l,
  wf_doc d -> plain_fields d = true -> wf_layout d l -> wf_bytes (render d l) ->
  ltoks_of (fst (run_slice (render d l))) = Ok (tokens d).
Proof. exact slice_reader_tokens_bytes. Qed.
Print Assumptions C02_slice_reader_tokens_bytes.

Theorem C02_reader_path_bytes_partial : forall (decode : bytes -> cow) (parse_f64 : bytes -> outcome N) (F : fops) sh d l sch capv,
  core_fields d = true -> plain_fields d = true -> wf_doc d -> wf_layout d l -> wf_bytes (render d l) ->
  no_fail sch -> need (render d l) <= capv -> fits decode parse_f64 F sh d ->
  deser_reader decode parse_f64 F sh capv sch (render d l) = spec_value decode parse_f64 F sh d.
Proof. exact reader_path_bytes. Qed.
Print Assumptions C02_reader_path_bytes_partial.

Theorem C02_paths_agree_bytes_partial : forall (decode : bytes -> cow) (parse_f64 : bytes -> outcome N) (F : fops) sh d l sch capv,
  core_fields d = true -> plain_fields d = true -> wf_doc d -> wf_layout d l -> wf_bytes (render d l) ->
  no_fail sch -> need (render d l) <= capv -> fits decode parse_f64 F sh d ->
  deser_slice decode parse_f64 F sh (render d l) = deser_reader decode parse_f64 F sh capv sch (render d l).
Proof. exact paths_agree_bytes. Qed.
Print Assumptions C02_paths_agree_bytes_partial.

(* ---- non-vacuity: doc1 / sh1 of C02_walk.v under a layout with a comment, CRLF and ';', one-byte reads
   and the smallest sufficient buffer *)
Definition lay1 (b : bool) : layout :=
  mkLayout b (fun i => if Nat.eqb i 0 then [] else if Nat.eqb i 2 then [35; 99; 123; 34; 10; 32]%N
                       else if Nat.eqb i 5 then [13; 10; 9]%N else if Nat.eqb i 9 then [32; 59; 32]%N else [32]%N).

Example C02_bytes_nonvacuous : forall b,
  core_fields doc1 = true /\ plain_fields doc1 = true /\ wf_doc doc1 /\ wf_layout doc1 (lay1 b) /\
  wf_bytes (render doc1 (lay1 b)) /\ no_fail (repeat (Data 1) 200) /\ fits dec0 pf0 F0 sh1 doc1.
Proof.
  intros b. split; [reflexivity|]. split; [reflexivity|]. split; [reflexivity|]. split; [|split; [|split]].
  - split; [|split].
    + intros i. cbn [lay1 gap].
      repeat match goal with |- context [Nat.eqb i ?k] => destruct (Nat.eqb i k) end;
        apply TextScanProofs.gap_okb_sound; reflexivity.
    + cbn. repeat split; intros H; try discriminate H; try reflexivity; exact I.
    + cbn [lay1 bom]. intros ->. reflexivity.
  - apply Forall_forall. intros x Hx. destruct b; vm_compute in Hx;
      repeat (destruct Hx as [<- | Hx]; [reflexivity|]); destruct Hx.
  - intros H. apply repeat_spec in H. discriminate.
  - unfold fits. vm_compute. discriminate.
Qed.

Example C02_bytes_example_runs :
  need (render doc1 (lay1 true)) = 5 /\
  deser_reader dec0 pf0 F0 sh1 5 (repeat (Data 1) 200) (render doc1 (lay1 true)) =
    deser_slice dec0 pf0 F0 sh1 (render doc1 (lay1 true)) /\
  deser_slice dec0 pf0 F0 sh1 (render doc1 (lay1 true)) = deser_tape dec0 pf0 F0 sh1 (flatten doc1).
Proof. repeat split; vm_compute; reflexivity. Qed.

(* the restriction to words that do not start with '?' cannot be dropped: the two lexers differ on
   `?x=1` -- the tape parser reads the scalar "?x", the token reader the operator `?=` and "x" *)
Theorem C02_qmark_word_lexers_differ :
  TextTape.parse [63; 120; 61; 49]%N = Ok ([TUnquoted [63; 120]%N; TUnquoted [49]%N], false) /\
  fst (run_slice [63; 120; 61; 49]%N) = [OTok (ROp Exists); OTok (RUnq [120]%N); OTok (ROp Equal); OTok (RUnq [49]%N); OEnd].
Proof. split; vm_compute; reflexivity. Qed.

(* ------------------------------------------------------------------ PART 2: the tape path beyond the core *)
Theorem C02_tape_path_ext_partial : forall tp (decode : bytes -> cow) (parse_f64 : bytes -> outcome N) (F : fops) sh d,
  ext_fields d = true -> fits2 tp decode parse_f64 F sh d ->
  deser_tape decode parse_f64 F sh (flatten d) = spec_value2 tp decode parse_f64 F sh d.
Proof. exact tape_path_spec2. Qed.
Print Assumptions C02_tape_path_ext_partial.

Theorem C02_wf_in_grammar : forall d, wf_doc d -> ext_fields d = true.
Proof. exact wf_ext. Qed.
Print Assumptions C02_wf_in_grammar.

Theorem C02_slice_path_ext_bytes_partial : forall tp (decode : bytes -> cow) (parse_f64 : bytes -> outcome N) (F : fops) sh d l,
  wf_doc d -> wf_layout d l -> fits2 tp decode parse_f64 F sh d ->
  deser_slice decode parse_f64 F sh (render d l) = spec_value2 tp decode parse_f64 F sh d.
Proof.
  intros tp decode pf F sh d l Hw Hl Hf. unfold deser_slice.
  rewrite (TextParseProofs.parse_render d l Hw Hl). cbn [obind fst].
  apply tape_path_spec2; [apply wf_ext; exact Hw | exact Hf].
Qed.
Print Assumptions C02_slice_path_ext_bytes_partial.

(* what the specification says about a header `key op name { .. }` (c = the field's shape without its
   Option / Property wrappers): a seq sees [name, container]; a tuple of two likewise (a third
   element is invalid_length); String / bool / numbers / enum read the name; ignored is ignored *)
Theorem C02_tape_path_headers_partial : forall (decode : bytes -> cow) (parse_f64 : bytes -> outcome N) (F : fops) name v o,
  (forall s, spec_v2 true decode parse_f64 F (VHeader name v) (ShSeq s) o =
     do x <- hname decode parse_f64 F s name; do y <- spec_v2 true decode parse_f64 F v s None; Ok (DSeq [x; y])) /\
  (forall s1 s2, spec_v2 true decode parse_f64 F (VHeader name v) (ShTup [s1; s2]) o =
     do x <- hname decode parse_f64 F s1 name; do y <- spec_v2 true decode parse_f64 F v s2 None; Ok (DSeq [x; y])) /\
  (forall tp, spec_v2 tp decode parse_f64 F (VHeader name v) ShStr o = Ok (DStr (cow_bytes (decode name)))) /\
  (forall tp, spec_v2 tp decode parse_f64 F (VHeader name v) ShIgn o = Ok DIgn) /\
  hname decode parse_f64 F ShStr name = Ok (DStr (cow_bytes (decode name))).
Proof. intros. repeat split; reflexivity. Qed.

(* what it says about an object with a tail / an array where a map or struct is asked for *)
Theorem C02_tape_path_remainder_partial : forall (decode : bytes -> cow) (parse_f64 : bytes -> outcome N) (F : fops) fs v tl t fields o,
  let m := WStruct t fields in
  spec_v2 true decode parse_f64 F (VObject fs (VCons v tl)) (ShStruct t fields) o =
    (do a <- spec_fields2 true decode parse_f64 F fs m (acc0 m);
     do a' <- rem_entry (arr_into (spec_items2 true decode parse_f64 F (VCons v tl)) (spec_tuple2 true decode parse_f64 F (VCons v tl))) m a;
     finish m a') /\
  spec_v2 true decode parse_f64 F (VArray (VCons v tl)) (ShStruct t fields) o =
    (do a <- rem_entry (arr_into (spec_items2 true decode parse_f64 F (VCons v tl)) (spec_tuple2 true decode parse_f64 F (VCons v tl))) m (acc0 m);
     finish m a) /\
  (forall tp, spec_v2 tp decode parse_f64 F (VArray VNil) (ShStruct t fields) o = finish m (acc0 m)) /\
  (forall s, arr_into (spec_items2 true decode parse_f64 F (VCons v tl)) (spec_tuple2 true decode parse_f64 F (VCons v tl)) (ShSeq s) =
     omap DSeq (spec_items2 true decode parse_f64 F (VCons v tl) s)).
Proof. intros. repeat split; reflexivity. Qed.

(* parameter blocks are fields keyed by the parameter's name *)
Theorem C02_tape_path_params_partial : forall (decode : bytes -> cow) (parse_f64 : bytes -> outcome N) (F : fops) name u s pfs fs m a,
  spec_fields2 true decode parse_f64 F (FCons (ParamV name u s) fs) m a =
    spec_fields2 true decode parse_f64 F (FCons (Field Unq name None (VScalar Unq s)) fs) m a /\
  spec_fields2 true decode parse_f64 F (FCons (ParamO name u pfs) fs) m a =
    (do r <- entry (fun sh' (_ _ : unit) => omap (fun d => (d, tt)) (obj_into (spec_fields2 true decode parse_f64 F pfs) sh'))
                   no_op m a (cow_bytes (decode name)) (is_ok (Scalar.to_u64 name)) tt tt;
     spec_fields2 true decode parse_f64 F fs m (fst r)).
Proof.
  intros. split; [|reflexivity]. cbn [spec_fields2]. f_equal.
Qed.

(* ---- non-vacuity / instances: C01's ex_doc (every construct) into a shape that reads the header as
   (String, Vec<u8>), the tail of m as "remainder": Vec<String>, the parameter p as u8 *)
Definition b_h : bytes := [104]%N. Definition b_m : bytes := [109]%N. Definition b_p : bytes := [112]%N.
Definition b_rem : bytes := STR_REMAINDER.
Definition shX : shape :=
  ShStruct false
    [ (b_p, None, MOnce, ShU 8);
      (b_h, None, MOnce, ShTup [ShStr; ShSeq (ShU 8)]);
      (b_m, None, MOnce, ShStruct false [ (b_a, None, MOnce, ShU 8); (b_rem, None, MOnce, ShSeq ShStr) ]);
      (b_l, None, MOnce, ShOpt (ShStruct false [ (b_rem, None, MOnce, ShIgn) ])) ].

Example C02_ext_nonvacuous :
  wf_doc C01.ex_doc /\ fits2 true dec0 pf0 F0 shX C01.ex_doc /\
  spec_value2 true dec0 pf0 F0 shX C01.ex_doc =
    Ok (DStruct [ (b_p, DU 1);
                  (b_h, DSeq [DStr b_rgb; DSeq [DU 1]]);
                  (b_m, DStruct [ (b_a, DU 1); (b_rem, DSeq [DStr b_x; DStr [121]%N]) ]);
                  (b_l, DSome (DStruct [ (b_rem, DIgn) ])) ]) /\
  deser_tape dec0 pf0 F0 shX (flatten C01.ex_doc) = spec_value2 true dec0 pf0 F0 shX C01.ex_doc.
Proof.
  split; [reflexivity|]. split; [unfold fits2; vm_compute; discriminate|]. split; vm_compute; reflexivity.
Qed.

(* the common part (tp = false) is not vacuous either: `a = {}` into a struct, a header into String *)
Definition docC : doc :=
  FCons (Field Unq b_a (Some Equal) (VArray VNil))
  (FCons (Field Unq b_color (Some Equal) (VHeader b_rgb (VArray (VCons (VScalar Unq [49]%N) VNil)))) FNil).
Definition shC : shape :=
  ShStruct false [ (b_a, None, MOnce, ShStruct false [ (b_x, None, MOnce, ShOpt (ShU 8)) ]); (b_color, None, MOnce, ShStr) ].
Example C02_common_nonvacuous :
  wf_doc docC /\ fits2 false dec0 pf0 F0 shC docC /\
  spec_value2 false dec0 pf0 F0 shC docC = Ok (DStruct [ (b_a, DStruct [ (b_x, DNone) ]); (b_color, DStr b_rgb) ]) /\
  deser_stream dec0 pf0 F0 shC (tokens docC) = spec_value2 false dec0 pf0 F0 shC docC.
Proof.
  split; [reflexivity|]. split; [unfold fits2; vm_compute; discriminate|]. split; vm_compute; reflexivity.
Qed.

(* ---- where the two paths differ beyond finding H (computed witnesses) *)
(* an object tail: `m = { a = 1 x y }` into struct { m: struct { a: u8, x: Option<String>, remainder: Option<Vec<String>> } }
   -- tape: remainder = [x, y]; stream: the tail is read as the pair x = y *)
Definition docT : doc :=
  FCons (Field Unq b_m (Some Equal)
           (VObject (FCons (Field Unq b_a (Some Equal) (VScalar Unq [49]%N)) FNil)
                    (VCons (VScalar Unq b_x) (VCons (VScalar Unq [121]%N) VNil)))) FNil.
Definition shT : shape :=
  ShStruct false [ (b_m, None, MOnce, ShStruct false [ (b_a, None, MOnce, ShU 8); (b_x, None, MOnce, ShOpt ShStr);
                                                       (b_rem, None, MOnce, ShOpt (ShSeq ShStr)) ]) ].
Theorem C02_paths_differ_on_tail :
  wf_doc docT /\
  deser_tape dec0 pf0 F0 shT (flatten docT) =
    Ok (DStruct [ (b_m, DStruct [ (b_a, DU 1); (b_x, DNone); (b_rem, DSome (DSeq [DStr b_x; DStr [121]%N])) ]) ]) /\
  deser_stream dec0 pf0 F0 shT (tokens docT) =
    Ok (DStruct [ (b_m, DStruct [ (b_a, DU 1); (b_x, DSome (DStr [121]%N)); (b_rem, DNone) ]) ]).
Proof. split; [reflexivity|]. split; vm_compute; reflexivity. Qed.

(* a header into `any`: tape = the container's content, stream = the header's name *)
Definition docA : doc :=
  FCons (Field Unq b_color (Some Equal) (VHeader b_rgb (VArray (VCons (VScalar Unq [49]%N) VNil)))) FNil.
Theorem C02_paths_differ_header_any :
  wf_doc docA /\
  deser_tape dec0 pf0 F0 (ShMap ShAny) (flatten docA) = Ok (DMap [ (b_color, DSeq [DStr [49]%N]) ]) /\
  deser_stream dec0 pf0 F0 (ShMap ShAny) (tokens docA) = Ok (DMap [ (b_color, DStr b_rgb) ]).
Proof. split; [reflexivity|]. split; vm_compute; reflexivity. Qed.
