(* C01, wave 5 (w_c01) -- statements only; proofs in proofs/TextMixedProofs.v, definitions in TextDocMixed.v.
   See audit/C01.md (table E, classes E2 / E3).

   C01_parse_render demands `wf_doc`, which allows only SCALARS inside mixed regions (the bare-value tail of an
   object -> array mixed container, the key-value part of an array -> key-value list) and a scalar as the first item of
   a key-value list.  `wf_doc_mixed` (TextDocMixed.wfm_value and its siblings) is the same grammar, the same `flatten`, the same `render`
   with that restriction lifted as far as the parser really honours it: members of a mixed region are scalars or
   scalar-first non-empty containers (arrays, key-value lists, objects -- themselves with tails / nested mixed regions,
   to any depth), the first item of a key-value list may be a container, the first two bare values of an object tail
   are scalars.  Model functions: TextTape.parse, TextDoc.flatten / render, TextDocMixed.wfm_fields -- all extracted
   and run against text/tape.rs on generated documents (stream mixed_docs of props/C01_w5.py). *)
From JV Require Import Bytes Tables TextTok TextTape TextDoc TextDocMixed.
From JV.proofs Require Import TextScanProofs TextParseProofs TextParseMoreProofs TextMixedProofs.
Open Scope nat_scope.

(* 1. the tape mirrors the document, for every wf_doc_mixed document and every layout *)
Theorem C01_parse_render_mixed : forall d l,
  wf_doc_mixed d -> wf_layout d l -> parse (render d l) = Ok (flatten d, bom l).
Proof. exact parse_render_mixed. Qed.
Print Assumptions C01_parse_render_mixed.

Theorem C01_layout_independent_mixed : forall d l1 l2,
  wf_doc_mixed d -> wf_layout d l1 -> wf_layout d l2 ->
  omap fst (parse (render d l1)) = omap fst (parse (render d l2)).
Proof. exact layout_independent_mixed. Qed.
Print Assumptions C01_layout_independent_mixed.

(* 2. the new class contains the old one: C01_parse_render is an instance of C01_parse_render_mixed *)
Theorem C01_mixed_extends : forall d, wf_doc d -> wf_doc_mixed d.
Proof. exact wf_wfm. Qed.
Print Assumptions C01_mixed_extends.

(* 3. the new token step: a scalar directly after `{` in state ParseOpen with mixed_mode = true writes the
   parent's mixed flag into the tape (the only arm that does), then decides object / array as usual *)
Theorem C01_open_scalar_in_mixed_region : forall g k s rest T0 a gp f U x c2 r2,
  gap_ok g -> wf_scalar k s = true -> (k = Unq -> starts_boundary rest) ->
  skip_ws_t rest = Some (c2 :: r2) ->
  step (mkps (g ++ scalar_bytes k s ++ rest) SOpen true (length T0) ((T0 ++ ctok a gp f :: U) ++ [x])) =
  Next (if obj_byte c2
        then mkps (c2 :: r2) SKvs false (length (T0 ++ ctok a gp true :: U))
                  ((T0 ++ ctok a gp true :: U) ++ [TObject (length T0) false; scalar_tok k s])
        else mkps (c2 :: r2) SArrVal false (length (T0 ++ ctok a gp true :: U))
                  ((T0 ++ ctok a gp true :: U) ++ [TArray (length T0) false; scalar_tok k s])).
Proof. exact step_open_scalar_mixed. Qed.
Print Assumptions C01_open_scalar_in_mixed_region.

(* ---- non-vacuity: documents that wf_doc excludes ---- *)
Open Scope N_scope.
(* E2:  a = { b = c d e { f } g } *)
Definition e2_doc : doc :=
  FCons (Field Unq [97] (Some Equal)
    (VObject (FCons (Field Unq [98] (Some Equal) (VScalar Unq [99])) FNil)
             (VCons (VScalar Unq [100]) (VCons (VScalar Unq [101])
               (VCons (VArray (VCons (VScalar Unq [102]) VNil)) (VCons (VScalar Unq [103]) VNil)))))) FNil.
(* E3:  a = { { 1 } x k = { y } l < m } *)
Definition e3_doc : doc :=
  FCons (Field Unq [97] (Some Equal)
    (VArrayKv (VCons (VArray (VCons (VScalar Unq [49]) VNil)) (VCons (VScalar Unq [120]) VNil))
              (FCons (Field Unq [107] (Some Equal) (VArray (VCons (VScalar Unq [121]) VNil)))
              (FCons (Field Unq [108] (Some LessThan) (VScalar Unq [109])) FNil)))) FNil.
(* nested:  a = { 1 k = { p = q r s { t = u v w { x } } "z" } n != { 2 j >= 3 } } *)
Definition e23_doc : doc :=
  FCons (Field Unq [97] (Some Equal)
    (VArrayKv (VCons (VScalar Unq [49]) VNil)
      (FCons (Field Unq [107] (Some Equal)
         (VObject (FCons (Field Unq [112] (Some Equal) (VScalar Unq [113])) FNil)
            (VCons (VScalar Unq [114]) (VCons (VScalar Unq [115])
              (VCons (VObject (FCons (Field Unq [116] (Some Equal) (VScalar Unq [117])) FNil)
                              (VCons (VScalar Unq [118]) (VCons (VScalar Unq [119])
                                 (VCons (VArray (VCons (VScalar Unq [120]) VNil)) VNil))))
              (VCons (VScalar Quo [122]) VNil))))))
      (FCons (Field Unq [110] (Some NotEqual)
         (VArrayKv (VCons (VScalar Unq [50]) VNil) (FCons (Field Unq [106] (Some GreaterThanEqual) (VScalar Unq [51])) FNil)))
       FNil)))) FNil.
(* outside even wf_doc_mixed (class E6d):  a = { 1 k = v e = { } l = m }  -- `{}` is the first nested container
   of the mixed region, the mixed flag is never written and a second MixedContainer marker appears *)
Definition e6d_doc : doc :=
  FCons (Field Unq [97] (Some Equal)
    (VArrayKv (VCons (VScalar Unq [49]) VNil)
      (FCons (Field Unq [107] (Some Equal) (VScalar Unq [118]))
      (FCons (Field Unq [101] (Some Equal) (VArray VNil))
      (FCons (Field Unq [108] (Some Equal) (VScalar Unq [109])) FNil))))) FNil.
Open Scope nat_scope.

Ltac wf_layout_sp :=
  split; [intros i; apply gap_okb_sound; reflexivity | split; [cbn; repeat split; intros; reflexivity || exact I | intros _; reflexivity]].

Example C01_mixed_nonvacuous :
  (wf_doc_mixed e2_doc /\ wf_fields e2_doc = false /\ wf_layout e2_doc sp_layout) /\
  (wf_doc_mixed e3_doc /\ wf_fields e3_doc = false /\ wf_layout e3_doc sp_layout) /\
  (wf_doc_mixed e23_doc /\ wf_fields e23_doc = false /\ wf_layout e23_doc sp_layout).
Proof. repeat split; try reflexivity; try (intros i; apply gap_okb_sound; reflexivity); try (cbn; repeat split; intros; reflexivity || exact I). Qed.

Example C01_mixed_examples :
  parse (render e2_doc sp_layout) =
    Ok ([TUnquoted [97]; TObject 11 true; TUnquoted [98]; TUnquoted [99]; TMixedContainer; TUnquoted [100]; TUnquoted [101];
         TArray 9 false; TUnquoted [102]; TEnd 7; TUnquoted [103]; TEnd 1]%N, false) /\
  parse (render e3_doc sp_layout) =
    Ok ([TUnquoted [97]; TArray 15 true; TArray 4 false; TUnquoted [49]; TEnd 2; TUnquoted [120]; TMixedContainer; TUnquoted [107];
         TOperator Equal; TArray 11 false; TUnquoted [121]; TEnd 9; TUnquoted [108]; TOperator LessThan; TUnquoted [109]; TEnd 1]%N, false) /\
  parse (render e23_doc sp_layout) = Ok (flatten e23_doc, false).
Proof. repeat split; vm_compute; reflexivity. Qed.

(* why `sf_container` is demanded of the members of a mixed region: the stale-flag class E6d (watch list of
   DESIGN 7, oracle `excluded-proj`; not wf_doc_mixed) really gives another tape *)
Example C01_mixed_stale_flag_excluded :
  wfm_fields e6d_doc = false /\ wf_layout e6d_doc sp_layout /\
  parse (render e6d_doc sp_layout) <> Ok (flatten e6d_doc, false) /\
  exists t, parse (render e6d_doc sp_layout) = Ok (t, false) /\ length t = S (length (flatten e6d_doc)).
Proof.
  split; [reflexivity|]. split; [wf_layout_sp|]. split; [vm_compute; discriminate|].
  eexists. split; [vm_compute; reflexivity | reflexivity].
Qed.
