(* C16, wave 5 (gap G4 of audit/C16.md): WHOLE-DOCUMENT ORDER as a theorem.

   JsonDoc.doc_atoms is a single left-to-right walk over the token list (tape grammar only: no
   reader, no iterator, no window) that lists, for every token position it consumes, the object
   keys and leaves that token contributes to the JSON text; JsonDoc.jatoms flattens a JSON tree to
   the same alphabet (keys and leaves in text order).  Both are executable; the stream `atoms` of
   props/C16_doc.py compares the walk with the atoms of the REAL json() output of the root.

   C16_doc_agree      for every well-formed tape, Preserve and KeyValuePairs, all narrowing modes,
                      every decoder, both profiles: the atoms of the root's JSON ARE the walk's
                      outputs, in order (induction over the tape, every nesting depth);
   C16_doc_positions  on a doc_clean tape the positions the walk consumes are 0, 1, .., n-1: every
                      token exactly once, left to right.  Together: every scalar of the document
                      appears in the JSON text, in document order, nothing lost, nothing invented;
   C16_doc_unclean_*  the two ways a tape is not doc_clean are real: a header among array items
                      (known finding header-dup: its container is consumed twice) and a container
                      as the key of a `k op v` triple (replaced by "__invalid_key": content lost).
   Group mode regroups by key (documented): the per-node statement is C16_json_content (Group) +
   C16_group_keeps_all_values; a whole-tree multiset statement is NOT proved (oracle group-leaves).
   Statements only. *)
From JV Require Import Bytes Tables Scalar TextTok TextTape TapeWf Dom Json JsonDoc.
From JV.proofs Require Import DomProofs JsonProofs TextTapeGrammarProofs JsonDocProofs JsonDocOrder.
Open Scope nat_scope.

(* the root: text order of the JSON = the walk *)
Theorem C16_doc_agree : forall dec dbg o t, tape_wf t -> duplicate_keys o <> Group ->
  exists j, json_object dec dbg o t (top_reader t) = Ok j /\
    doc_eatoms dec (type_narrowing o) (mode_kv (duplicate_keys o)) t = jatoms j.
Proof. exact doc_agree. Qed.
Print Assumptions C16_doc_agree.

(* every value of the document, at every depth: the walk over that value's tokens *)
Theorem C16_value_agree : forall dec dbg o t, tape_wf t -> duplicate_keys o <> Group -> forall v, v < length t ->
  exists j, ser_value dec dbg o t (ser_fuel t) v = Ok j /\
    forall f, vspan t v < f ->
      flat_map snd (d_value dec (type_narrowing o) (mode_kv (duplicate_keys o)) t f v) = jatoms j.
Proof. exact value_agree. Qed.
Print Assumptions C16_value_agree.

(* every token exactly once, in document order *)
Theorem C16_doc_positions : forall dec na kv t, tape_wf t -> doc_clean t = true ->
  map fst (doc_atoms dec na kv t) = seq 0 (length t).
Proof. exact doc_positions. Qed.
Print Assumptions C16_doc_positions.

(* the statement of the property for parsed input: the JSON text of the root lists, in order,
   exactly the contributions of token 0, token 1, ..., token n-1 *)
Theorem C16_parsed_document_order : forall input t bom dec dbg o,
  parse input = Ok (t, bom) -> duplicate_keys o <> Group -> doc_clean t = true ->
  let atoms := doc_atoms dec (type_narrowing o) (mode_kv (duplicate_keys o)) t in
  exists j, json_object dec dbg o t (top_reader t) = Ok j /\
    jatoms j = open_atoms (mode_kv (duplicate_keys o)) s_obj ++ flat_map snd atoms /\
    map fst atoms = seq 0 (length t).
Proof.
  intros input t bom dec dbg o E NG C atoms. pose proof (parse_tape_wf _ _ _ E) as W.
  destruct (doc_agree dec dbg o t W NG) as (j & J & A). exists j. split; auto. split.
  - symmetry. exact A.
  - apply doc_positions; auto.
Qed.
Print Assumptions C16_parsed_document_order.

(* non-vacuity: x={a=b 10 c=d 20} k={1 rgb{2}} k=3 c<rgb{1} (the tape of Props/C16.v) is clean;
   its walk in Preserve / TypeNarrowing::All *)
Definition ex_tape : ttape :=
  [TUnquoted [120]; TObject 10 true; TUnquoted [97]; TUnquoted [98]; TMixedContainer; TUnquoted [49; 48];
   TUnquoted [99]; TOperator Equal; TUnquoted [100]; TUnquoted [50; 48]; TEnd 1;
   TUnquoted [107]; TArray 18 false; TUnquoted [49]; TUnquoted [114; 103; 98]; TArray 17 false; TUnquoted [50]; TEnd 15; TEnd 12;
   TUnquoted [107]; TUnquoted [51];
   TUnquoted [99]; TOperator LessThan; THeader [114; 103; 98]; TArray 26 false; TUnquoted [49]; TEnd 24]%N.

Example C16_doc_nonvacuous :
  tape_wf ex_tape /\ doc_clean ex_tape = true /\
  doc_eatoms (fun x => x) NarrowAll false ex_tape =
  [EK [120]; EK [97]; EV (JStr [98]); EK s_remainder; EV (JI64 10); EK [99]; EV (JStr [100]); EV (JI64 20);
   EK [107]; EV (JI64 1); EV (JStr [114; 103; 98]); EV (JI64 2);
   EK [107]; EV (JI64 3);
   EK [99]; EK (op_name LessThan); EK [114; 103; 98]; EV (JI64 1)]%N /\
  map fst (doc_atoms (fun x => x) NarrowAll false ex_tape) = seq 0 27.
Proof. split; [apply tape_wfb_sound; vm_compute; reflexivity|]. repeat split; vm_compute; reflexivity. Qed.

(* the first way to be unclean (known finding header-dup): a = { b=1 2 3 {} c = rgb { 1 } }:
   the walk (= the code, by C16_doc_agree) consumes tokens 11..13 twice *)
Definition dup_tape : ttape :=
  [TUnquoted [97]; TObject 14 false; TUnquoted [98]; TUnquoted [49]; TMixedContainer; TUnquoted [50]; TUnquoted [51];
   TArray 8 false; TEnd 7; TUnquoted [99]; THeader [114; 103; 98]; TArray 13 false; TUnquoted [49]; TEnd 11; TEnd 1]%N.

Theorem C16_doc_unclean_header_refuted :
  tape_wf dup_tape /\ doc_clean dup_tape = false /\
  map fst (doc_atoms (fun x => x) NarrowAll false dup_tape) =
  [0; 1; 2; 3; 4; 5; 6; 7; 8; 9; 10; 11; 12; 13; 11; 12; 13; 14].
Proof. split; [apply tape_wfb_sound; vm_compute; reflexivity|]. split; vm_compute; reflexivity. Qed.
Print Assumptions C16_doc_unclean_header_refuted.

(* the second way: a = { 1 { x } = y }: the container {x} is the key of a triple, the scalar x
   (token 4) is never consumed: the JSON is {"a":[1,{"__invalid_key":"y"}]} *)
Definition lost_tape : ttape :=
  [TUnquoted [97]; TArray 8 true; TUnquoted [49]; TArray 5 false; TUnquoted [120]; TEnd 3;
   TOperator Equal; TUnquoted [121]; TEnd 1]%N.

Theorem C16_doc_unclean_key_refuted :
  tape_wf lost_tape /\ doc_clean lost_tape = false /\
  map fst (doc_atoms (fun x => x) NarrowAll false lost_tape) = [0; 1; 2; 3; 6; 7; 8] /\
  json_object (fun x => x) false default_options lost_tape (top_reader lost_tape) =
  Ok (JObj [([97], JArr [JI64 1; JObj [(s_invalid_key, JStr [121])]])])%N.
Proof. split; [apply tape_wfb_sound; vm_compute; reflexivity|]. repeat split; vm_compute; reflexivity. Qed.
Print Assumptions C16_doc_unclean_key_refuted.
