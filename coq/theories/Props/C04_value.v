(* C04 -- "... and the value is the one encoded: integers and booleans verbatim, floats through the flavor,
   strings through the encoding, token ids through the resolver (or the configured error / stringify /
   ignore fallback), rgb as its components, Options present, unknown fields skipped in their entirety."
   Statements only (wave 4, audit/C04.md).

   Props/C04.v states these clauses for Serde.bin_scalar, a leaf function (hence `_partial`).  Here they are
   stated for the walk [walk (c_fops cfg) (ops_doc cfg)] that BinDoc.spec_value consists of -- the function
   the three deserializer models are proved equal to on every well-formed fitting document
   (C04_tape_eq_spec / C04_ondemand_eq_spec / C04_reader_eq_spec) -- for a value met at ANY depth, with ANY
   cursor, ANY configuration, and C04_struct_on_all_paths composes them with the three entry points:
   what deser_tape / deser_ondemand / deser_reader return for a struct target is the fold of the
   per-field effects [field_eff] (key through the field-identifier visitor, then the clause theorems on
   the value) in document order, then the missing-field / Option-default pass.
   With C04_unknown_field_skipped, C04_ghost_skipped and C04_rgb_components_* of Props/C04_walk.v this
   covers every clause of the statement; the four `_partial` theorems of Props/C04.v are superseded.
   Not covered here: targets the models do not have (char, unit, newtype / tuple structs, bytes, 128-bit
   integers, typed map keys: exercised on the implementation by the stream `methods`, findings P Q R). *)
From JV Require Import Bytes Tables BinPrim BufWin BinLexer BinReader BinTape SerdeShape BinDeCommon
  BinDeOndemand BinDeReader BinDeTape BinDoc.
From JV.proofs Require Import BinDeSim BinDocProofs BinDeSpecProofs BinDeValueProofs.
Open Scope N_scope.

(* a scalar token into a scalar target (str bool u8..u64 i8..i64 f32 f64 date any), value position:
   serde's visitor of the target applied to the token's own primitive; nothing else is consulted and the
   cursor is untouched.  [u16_on_id]: the one combination outside the specification (finding N). *)
Theorem C04_scalar_value : forall cfg f sh s c,
  scalar_shape sh = true -> u16_on_id sh s = false ->
  walk (c_fops cfg) (ops_doc cfg) (S f) false sh (VScalar s) c
  = do p <- scalar_prim cfg s; do v <- visit_prim (c_fops cfg) sh p; Ok (v, c).
Proof. exact spec_scalar_value. Qed.
Print Assumptions C04_scalar_value.

(* integers verbatim, whichever of I32 / U32 / U64 / I64 carries them, for every target width; out of
   range is refused, never wrapped *)
Theorem C04_integers_verbatim_signed : forall cfg f bits s z c, scalar_int s = Some z ->
  walk (c_fops cfg) (ops_doc cfg) (S f) false (ShI bits) (VScalar s) c = if in_i bits z then Ok (DI z, c) else Err EC_DE.
Proof. exact spec_int_signed. Qed.
Theorem C04_integers_verbatim_unsigned : forall cfg f bits s z c, scalar_int s = Some z ->
  walk (c_fops cfg) (ops_doc cfg) (S f) false (ShU bits) (VScalar s) c = if in_u bits z then Ok (DU (Z.to_N z), c) else Err EC_DE.
Proof. exact spec_int_unsigned. Qed.
Theorem C04_integers_verbatim_any : forall cfg f s z c, scalar_int s = Some z ->
  walk (c_fops cfg) (ops_doc cfg) (S f) false ShAny (VScalar s) c =
    match s with SU32 _ | SU64 _ => Ok (DU (Z.to_N z), c) | _ => Ok (DI z, c) end.
Proof. exact spec_int_any. Qed.
Print Assumptions C04_integers_verbatim_unsigned.

(* booleans verbatim; a bool target accepts nothing but a BOOL token (no bool from ints), an integer
   target refuses a BOOL token *)
Theorem C04_booleans_verbatim : forall cfg f b c,
  walk (c_fops cfg) (ops_doc cfg) (S f) false ShBool (VScalar (SBool b)) c = Ok (DBool b, c).
Proof. exact spec_bool_verbatim. Qed.
Theorem C04_bool_only_from_bool : forall cfg f s c v,
  walk (c_fops cfg) (ops_doc cfg) (S f) false ShBool (VScalar s) c = Ok v -> exists b, s = SBool b /\ v = (DBool b, c).
Proof. exact spec_bool_only_from_bool. Qed.
Theorem C04_int_not_from_bool : forall cfg f bits b c,
  walk (c_fops cfg) (ops_doc cfg) (S f) false (ShI bits) (VScalar (SBool b)) c = Err EC_DE /\
  walk (c_fops cfg) (ops_doc cfg) (S f) false (ShU bits) (VScalar (SBool b)) c = Err EC_DE.
Proof. exact spec_int_not_from_bool. Qed.
Print Assumptions C04_bool_only_from_bool.

(* floats through the flavor ([c_f32] / [c_f64] = BinaryFlavor::visit_f32 / visit_f64 on the payload
   bytes), serde's casts for the other width and for integer tokens *)
Theorem C04_floats_through_flavor : forall cfg f x c,
  walk (c_fops cfg) (ops_doc cfg) (S f) false ShF32 (VScalar (SF32 x)) c = Ok (DF32 (c_f32 cfg x), c) /\
  walk (c_fops cfg) (ops_doc cfg) (S f) false ShF64 (VScalar (SF64 x)) c = Ok (DF64 (c_f64 cfg x), c) /\
  walk (c_fops cfg) (ops_doc cfg) (S f) false ShF64 (VScalar (SF32 x)) c = Ok (DF64 (f64_of_f32 (c_fops cfg) (c_f32 cfg x)), c) /\
  walk (c_fops cfg) (ops_doc cfg) (S f) false ShF32 (VScalar (SF64 x)) c = Ok (DF32 (f32_of_f64 (c_fops cfg) (c_f64 cfg x)), c) /\
  walk (c_fops cfg) (ops_doc cfg) (S f) false ShAny (VScalar (SF32 x)) c = Ok (DF32 (c_f32 cfg x), c) /\
  walk (c_fops cfg) (ops_doc cfg) (S f) false ShAny (VScalar (SF64 x)) c = Ok (DF64 (c_f64 cfg x), c).
Proof.
  intros cfg f x c. pose proof (spec_float_any cfg f x c) as [A B].
  exact (conj (spec_float_f32 cfg f x c) (conj (spec_float_f64 cfg f x c) (conj (spec_float_widen cfg f x c)
        (conj (spec_float_narrow cfg f x c) (conj A B))))).
Qed.
Theorem C04_floats_from_integers : forall cfg f s z c, scalar_int s = Some z ->
  walk (c_fops cfg) (ops_doc cfg) (S f) false ShF64 (VScalar s) c = Ok (DF64 (f64_of_int (c_fops cfg) z), c) /\
  walk (c_fops cfg) (ops_doc cfg) (S f) false ShF32 (VScalar s) c = Ok (DF32 (f32_of_int (c_fops cfg) z), c).
Proof. exact spec_float_from_int. Qed.
Print Assumptions C04_floats_through_flavor.

(* strings through the encoding ([c_decode] = Encoding::decode of the flavor) *)
Theorem C04_strings_through_encoding : forall cfg f x c,
  walk (c_fops cfg) (ops_doc cfg) (S f) false ShStr (VScalar (SQuoted x)) c = (do s <- c_decode cfg x; Ok (DStr s, c)) /\
  walk (c_fops cfg) (ops_doc cfg) (S f) false ShStr (VScalar (SUnquoted x)) c = (do s <- c_decode cfg x; Ok (DStr s, c)).
Proof. exact spec_string_decoded. Qed.
Print Assumptions C04_strings_through_encoding.

(* token ids through the resolver, or the configured fallback *)
Theorem C04_id_resolved : forall cfg f id name c, c_resolve cfg id = Some name ->
  walk (c_fops cfg) (ops_doc cfg) (S f) false ShStr (VScalar (SId id)) c = Ok (DStr name, c).
Proof. exact spec_id_resolved. Qed.
Theorem C04_id_unresolved_strategy : forall cfg f id c, c_resolve cfg id = None ->
  walk (c_fops cfg) (ops_doc cfg) (S f) false ShStr (VScalar (SId id)) c =
    match c_strategy cfg with
    | SError => Err EC_UNKTOKEN
    | SStringify => Ok (DStr (stringify_id id), c)
    | SIgnore => Ok (DStr IGNORE_ID, c)
    end.
Proof. exact spec_id_unresolved. Qed.
Theorem C04_id_enum : forall cfg f id name vs c, c_resolve cfg id = Some name ->
  walk (c_fops cfg) (ops_doc cfg) (S f) false (ShEnum vs) (VScalar (SId id)) c
  = if existsb (beqb name) vs then Ok (DEnum name, c) else Err EC_DE.
Proof. exact spec_id_enum. Qed.
Print Assumptions C04_id_unresolved_strategy.

(* Options present: Some of the inner target's value, at any nesting *)
Theorem C04_options_present : forall cfg f sh v c,
  walk (c_fops cfg) (ops_doc cfg) (S f) false (ShOpt sh) v c
  = do r <- walk (c_fops cfg) (ops_doc cfg) f false sh v c; Ok (DSome (fst r), snd r).
Proof. exact spec_option_present. Qed.
Theorem C04_options_nested : forall cfg f sh v c,
  walk (c_fops cfg) (ops_doc cfg) (S (S f)) false (ShOpt (ShOpt sh)) v c
  = do r <- walk (c_fops cfg) (ops_doc cfg) f false sh v c; Ok (DSome (DSome (fst r)), snd r).
Proof. exact spec_option_nested. Qed.

(* rgb is handed to the target's visitor as ColorSequence; an ignored value is not looked at *)
Theorem C04_rgb_value : forall cfg f sh col c,
  match sh with ShSeq _ | ShTup _ | ShAny => True | _ => False end ->
  walk (c_fops cfg) (ops_doc cfg) (S f) false sh (VRgb col) c = do v <- color_visit cfg f sh col; Ok (v, c).
Proof. exact spec_rgb_value. Qed.
Theorem C04_ignored_value : forall cfg f v c,
  walk (c_fops cfg) (ops_doc cfg) (S f) false ShIgn v c = Ok (DIgn, c).
Proof. exact spec_ignored_value. Qed.

(* a struct target = the per-field effects folded over the fields in document order, then the
   missing-field / Option-default pass; ghosts play no part *)
Theorem C04_struct_denotation : forall cfg fuel tk fields fs g, (length fs < fuel)%nat ->
  spec_value cfg fuel (ShStruct tk fields) fs g =
  do sl <- fields_eff cfg fuel tk fields fs (slots_init fields); do out <- slots_finish fields sl; Ok (DStruct out).
Proof. exact spec_struct_denotation. Qed.
Print Assumptions C04_struct_denotation.

(* ... and this is what each of the three entry points returns *)
Theorem C04_struct_on_all_paths : forall cfg cap sched tk fields fs g,
  wf_doc fs g = true -> tape_ok_doc fs = true -> fits_shape cfg (ShStruct tk fields) fs g ->
  no_fail sched = true -> fits cap (enc_doc fs g) = true ->
  let sh := ShStruct tk fields in
  let v := (do sl <- fields_eff cfg (deser_fuel sh (enc_doc fs g)) tk fields fs (slots_init fields);
            do out <- slots_finish fields sl; Ok (DStruct out)) in
  deser_tape cfg sh (enc_doc fs g) = v /\ deser_ondemand cfg sh (enc_doc fs g) = v /\
  deser_reader cfg cap sched sh (enc_doc fs g) = v.
Proof. intros cfg cap sched tk fields fs g. exact (struct_on_all_paths cfg cap sched tk fields fs g eq_refl). Qed.
Print Assumptions C04_struct_on_all_paths.

Example C04_value_nonvacuous :
  spec_value cfg0 9 (ShStruct false [([97], None, MOnce, ShU 8); ([99], None, MOnce, ShAny);
                                     ([109], None, MOnce, ShOpt (ShOpt ShStr)); ([122], None, MOnce, ShOpt ShBool)])
    [(false, SQuoted [97], VScalar (SI32 7)); (true, SUnquoted [99], VRgb (mkrgb 1 2 3 (Some 4)));
     (false, SQuoted [109], VScalar (SId 4660))] true
  = Ok (DStruct [([97], DU 7); ([99], DSeq [DStr RGB_NAME; DSeq [DU 1; DU 2; DU 3; DU 4]]);
                 ([109], DSome (DSome (DStr [97; 98; 99]))); ([122], DNone)]).
Proof. exact value_example. Qed.
