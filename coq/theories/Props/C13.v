(* C13 — Date codecs are mutually inverse and date arithmetic is consistent.
   Statements only; every proof is [exact lemma].  valid_md is the calendar predicate
   (1<=m<=12, 1<=d<=DAYS_PER_MONTH[m]) over the tables generated from date.rs. *)
From JV Require Import Bytes Tables U64Swar Scalar Date.
From JV.proofs Require Import DateProofs DateProofs2 SwarLanes.
Open Scope Z_scope.

(* to_binary / from_binary are mutually inverse for every date the binary format can express *)
Theorem C13_date_bin_inverse : forall y m d,
  -5000 <= y <= 32767 -> valid_md m d = true ->
  exists r b, date_from_ymd_opt y m d = Ok (Some r) /\ date_to_binary r = Ok b /\ date_from_binary b = Ok (Some r).
Proof. exact date_bin_inverse. Qed.
Print Assumptions C13_date_bin_inverse.

Theorem C13_datehour_bin_inverse : forall y m d h,
  -5000 <= y <= 32767 -> valid_md m d = true -> 1 <= h <= 24 ->
  exists r b, datehour_from_ymdh_opt y m d h = Ok (Some r) /\ datehour_to_binary r = Ok b /\ datehour_from_binary b = Ok (Some r).
Proof. exact datehour_bin_inverse. Qed.
Print Assumptions C13_datehour_bin_inverse.

(* non-vacuity: a concrete date meets the hypotheses *)
Example C13_nonvacuous : -5000 <= 1444 <= 32767 /\ valid_md 11 11 = true.
Proof. split; [lia | reflexivity]. Qed.

(* over the whole i32 range the four from_binary entry points never reach a panic site
   (in particular never the `unreachable!()` arm of month_day_from_julian), and whatever they
   accept re-encodes to the same day (Date: the hour s % 24 is dropped) / same day and hour *)
Theorem C13_from_binary_total : forall s, in_i32 s = true ->
  is_crash (date_from_binary s) = false /\ is_crash (datehour_from_binary s) = false /\
  is_crash (date_from_binary_heuristic s) = false /\ is_crash (datehour_from_binary_heuristic s) = false /\
  (forall r, date_from_binary s = Ok (Some r) -> date_to_binary r = Ok (s - Z.rem s 24)) /\
  (forall r, datehour_from_binary s = Ok (Some r) -> datehour_to_binary r = Ok s).
Proof. exact from_binary_total. Qed.
Print Assumptions C13_from_binary_total.

(* non-vacuity: 56379360 = 1436.1.1 (the crate's own doc example) is accepted; a negative multiple
   of 24*365 is accepted too (year -5001) and still re-encodes to itself *)
Example C13_from_binary_nonvacuous :
  in_i32 56379360 = true /\ (exists r, date_from_binary 56379360 = Ok (Some r)) /\
  (exists r, datehour_from_binary 56379371 = Ok (Some r)) /\
  (exists r, date_from_binary (-8760) = Ok (Some r) /\ date_to_binary r = Ok (-8760)).
Proof.
  split; [vm_compute; reflexivity|]. split; [eexists; vm_compute; reflexivity|].
  split; [eexists; vm_compute; reflexivity|].
  exists (mkraw (-5001) 4224). split; vm_compute; reflexivity.
Qed.

(* add_days / days_until are inverse as long as the result stays out of the "negative year 0":
   with D = date_days r (Date::days), the target day number D+n must be >= 0 (years 0..32767) or
   <= -365 (years -32768..-1).  This covers "the computation stays on one side of year 0" and is
   slightly more general (crossing is fine, landing in (-365,0) is not: the model reproduces the
   documented inconsistency there, see the example).  The result is again a valid Date, its day
   number is D+n, and days_until gives back n. *)
Theorem C13_add_days_until : forall r n D,
  is_date r -> date_days r = Ok D ->
  0 <= D + n < 11960320 \/ -11960685 < D + n <= -365 ->
  exists r', add_days r n = Ok r' /\ is_date r' /\ date_days r' = Ok (D + n) /\ days_until r r' = Ok n.
Proof. exact add_days_until. Qed.
Print Assumptions C13_add_days_until.

(* every valid date has a day number (no panic), of the documented form *)
Theorem C13_date_days_total : forall r, is_date r ->
  exists D o, date_days r = Ok D /\ 0 <= o <= 364 /\
    ((0 <= ry r /\ D = ry r * 365 + o) \/ (ry r < 0 /\ D = ry r * 365 - o)).
Proof. exact is_date_days. Qed.
Print Assumptions C13_date_days_total.

(* for years >= 0 (in particular >= 1) the derived Ord agrees with the sign of days_until *)
Theorem C13_ord_sign : forall r1 r2,
  is_date r1 -> is_date r2 -> 0 <= ry r1 -> 0 <= ry r2 ->
  exists n, days_until r1 r2 = Ok n /\ (raw_cmp r1 r2 = Lt <-> 0 < n) /\ (raw_cmp r1 r2 = Eq <-> n = 0)
            /\ (raw_cmp r1 r2 = Gt <-> n < 0).
Proof. exact ord_sign. Qed.
Print Assumptions C13_ord_sign.

(* non-vacuity: 1400.1.2 + 728 days = 1401.12.31 (the crate's doc example); a BC date moving further back;
   and the documented breakage across year 0 really is outside the hypothesis (the model reproduces
   that days_until (add_days d n) <> n there) *)
Example C13_arith_nonvacuous :
  is_date (mkraw 1400 4352) /\ date_days (mkraw 1400 4352) = Ok 511001 /\
  add_days (mkraw 1400 4352) 728 = Ok (mkraw 1401 53120) /\
  is_date (mkraw (-3) 4352) /\ date_days (mkraw (-3) 4352) = Ok (-1096) /\
  add_days (mkraw (-3) 4352) (-400) = Ok (mkraw (-4) 8960) /\
  (exists r', add_days (mkraw (-1) 4352) 100 = Ok r' /\ days_until (mkraw (-1) 4352) r' <> Ok 100).
Proof.
  split; [exists 1400, 1, 2; repeat split; vm_compute; reflexivity|].
  split; [vm_compute; reflexivity|]. split; [vm_compute; reflexivity|].
  split; [exists (-3), 1, 2; repeat split; vm_compute; reflexivity|].
  split; [vm_compute; reflexivity|]. split; [vm_compute; reflexivity|].
  eexists. split; [vm_compute; reflexivity|]. intros H; vm_compute in H; inversion H.
Qed.

(* util::fast_digit_parse, bit-exact over u64: for ANY eight bytes (little-endian word) the result is
   Some (decimal value, first byte most significant) iff all eight are ASCII digits, else None.
   dec_val l = fold_left (fun acc b => 10*acc + (b-48)) l 0. *)
Theorem C13_fast_digit_parse_spec : forall b0 b1 b2 b3 b4 b5 b6 b7,
  wfl [b0; b1; b2; b3; b4; b5; b6; b7] ->
  fast_digit_parse (le_u64 [b0; b1; b2; b3; b4; b5; b6; b7]) =
  if forallb is_digit [b0; b1; b2; b3; b4; b5; b6; b7]
  then Some (dec_val [b0; b1; b2; b3; b4; b5; b6; b7]) else None.
Proof. exact fast_digit_parse_spec. Qed.
Print Assumptions C13_fast_digit_parse_spec.

Example C13_fdp_nonvacuous :
  wfl [49; 52; 52; 52; 49; 49; 49; 49]%N /\
  fast_digit_parse (le_u64 [49; 52; 52; 52; 49; 49; 49; 49]%N) = Some 14441111%N /\
  fast_digit_parse (le_u64 [49; 52; 52; 52; 49; 58; 49; 49]%N) = None.
Proof. split; [repeat constructor|exact fast_digit_parse_ex]. Qed.
