(* C13 — Date codecs are mutually inverse and date arithmetic is consistent.
   Statements only; every proof is [exact lemma].  valid_md is the calendar predicate
   (1<=m<=12, 1<=d<=DAYS_PER_MONTH[m]) over the tables generated from date.rs. *)
From JV Require Import Bytes Tables U64Swar Scalar Date.
From JV.proofs Require Import DateProofs.
Open Scope Z_scope.

(* to_binary / from_binary are mutually inverse for every date the binary format can express *)
Theorem C13_date_bin_inverse : forall y m d,
  -5000 <= y <= 32767 -> valid_md m d = true ->
  exists r b, date_from_ymd_opt y m d = Ok (Some r) /\ date_to_binary r = Ok b /\ date_from_binary b = Ok (Some r).
Proof. exact date_bin_inverse. Qed.
Print Assumptions C13_date_bin_inverse.

Theorem C13_datehour_bin_inverse : forall y m d h,
  -5000 <= y <= 32767 -> valid_md m d = true -> 1 <= h <= 24 ->
  exists r b, datehour_from_ymdh_opt y m d h = Ok (Some r) /\ datehour_to_binary r = Ok b /\ datehour_from_binary b = Ok (Some r).
Proof. exact datehour_bin_inverse. Qed.
Print Assumptions C13_datehour_bin_inverse.

(* non-vacuity: a concrete date meets the hypotheses *)
Example C13_nonvacuous : -5000 <= 1444 <= 32767 /\ valid_md 11 11 = true.
Proof. split; [lia | reflexivity]. Qed.
