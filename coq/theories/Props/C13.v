(* C13 — Date codecs are mutually inverse and date arithmetic is consistent.
   Statements only; every proof is [exact lemma].  valid_md is the calendar predicate
   (1<=m<=12, 1<=d<=DAYS_PER_MONTH[m]) over the tables generated from date.rs. *)
From JV Require Import Bytes Tables U64Swar Scalar Date.
From JV.proofs Require Import DateProofs DateProofs2.
Open Scope Z_scope.

(* to_binary / from_binary are mutually inverse for every date the binary format can express *)
Theorem C13_date_bin_inverse : forall y m d,
  -5000 <= y <= 32767 -> valid_md m d = true ->
  exists r b, date_from_ymd_opt y m d = Ok (Some r) /\ date_to_binary r = Ok b /\ date_from_binary b = Ok (Some r).
Proof. exact date_bin_inverse. Qed.
Print Assumptions C13_date_bin_inverse.

Theorem C13_datehour_bin_inverse : forall y m d h,
  -5000 <= y <= 32767 -> valid_md m d = true -> 1 <= h <= 24 ->
  exists r b, datehour_from_ymdh_opt y m d h = Ok (Some r) /\ datehour_to_binary r = Ok b /\ datehour_from_binary b = Ok (Some r).
Proof. exact datehour_bin_inverse. Qed.
Print Assumptions C13_datehour_bin_inverse.

(* non-vacuity: a concrete date meets the hypotheses *)
Example C13_nonvacuous : -5000 <= 1444 <= 32767 /\ valid_md 11 11 = true.
Proof. split; [lia | reflexivity]. Qed.

(* over the whole i32 range the four from_binary entry points never reach a panic site
   (in particular never the `unreachable!()` arm of month_day_from_julian), and whatever they
   accept re-encodes to the same day (Date: the hour s % 24 is dropped) / same day and hour *)
Theorem C13_from_binary_total : forall s, in_i32 s = true ->
  is_crash (date_from_binary s) = false /\ is_crash (datehour_from_binary s) = false /\
  is_crash (date_from_binary_heuristic s) = false /\ is_crash (datehour_from_binary_heuristic s) = false /\
  (forall r, date_from_binary s = Ok (Some r) -> date_to_binary r = Ok (s - Z.rem s 24)) /\
  (forall r, datehour_from_binary s = Ok (Some r) -> datehour_to_binary r = Ok s).
Proof. exact from_binary_total. Qed.
Print Assumptions C13_from_binary_total.

(* non-vacuity: 56379360 = 1436.1.1 (the crate's own doc example) is accepted; a negative multiple
   of 24*365 is accepted too (year -5001) and still re-encodes to itself *)
Example C13_from_binary_nonvacuous :
  in_i32 56379360 = true /\ (exists r, date_from_binary 56379360 = Ok (Some r)) /\
  (exists r, datehour_from_binary 56379371 = Ok (Some r)) /\
  (exists r, date_from_binary (-8760) = Ok (Some r) /\ date_to_binary r = Ok (-8760)).
Proof.
  split; [vm_compute; reflexivity|]. split; [eexists; vm_compute; reflexivity|].
  split; [eexists; vm_compute; reflexivity|].
  exists (mkraw (-5001) 4224). split; vm_compute; reflexivity.
Qed.
