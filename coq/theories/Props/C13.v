(* C13 — Date codecs are mutually inverse and date arithmetic is consistent.
   Statements only; every proof is [exact lemma].  valid_md is the calendar predicate
   (1<=m<=12, 1<=d<=DAYS_PER_MONTH[m]) over the tables generated from date.rs. *)
From JV Require Import Bytes Tables U64Swar Scalar Date.
From JV.proofs Require Import DateProofs DateProofs2 SwarLanes DecimalProofs DateParse DateFast DateFmt DateLang.
Open Scope Z_scope.

(* to_binary / from_binary are mutually inverse for every date the binary format can express *)
Theorem C13_date_bin_inverse : forall y m d,
  -5000 <= y <= 32767 -> valid_md m d = true ->
  exists r b, date_from_ymd_opt y m d = Ok (Some r) /\ date_to_binary r = Ok b /\ date_from_binary b = Ok (Some r).
Proof. exact date_bin_inverse. Qed.
Print Assumptions C13_date_bin_inverse.

Theorem C13_datehour_bin_inverse : forall y m d h,
  -5000 <= y <= 32767 -> valid_md m d = true -> 1 <= h <= 24 ->
  exists r b, datehour_from_ymdh_opt y m d h = Ok (Some r) /\ datehour_to_binary r = Ok b /\ datehour_from_binary b = Ok (Some r).
Proof. exact datehour_bin_inverse. Qed.
Print Assumptions C13_datehour_bin_inverse.

(* non-vacuity: a concrete date meets the hypotheses *)
Example C13_nonvacuous : -5000 <= 1444 <= 32767 /\ valid_md 11 11 = true.
Proof. split; [lia | reflexivity]. Qed.

(* over the whole i32 range the four from_binary entry points never reach a panic site
   (in particular never the `unreachable!()` arm of month_day_from_julian), and whatever they
   accept re-encodes to the same day (Date: the hour s % 24 is dropped) / same day and hour *)
Theorem C13_from_binary_total : forall s, in_i32 s = true ->
  is_crash (date_from_binary s) = false /\ is_crash (datehour_from_binary s) = false /\
  is_crash (date_from_binary_heuristic s) = false /\ is_crash (datehour_from_binary_heuristic s) = false /\
  (forall r, date_from_binary s = Ok (Some r) -> date_to_binary r = Ok (s - Z.rem s 24)) /\
  (forall r, datehour_from_binary s = Ok (Some r) -> datehour_to_binary r = Ok s).
Proof. exact from_binary_total. Qed.
Print Assumptions C13_from_binary_total.

(* non-vacuity: 56379360 = 1436.1.1 (the crate's own doc example) is accepted; a negative multiple
   of 24*365 is accepted too (year -5001) and still re-encodes to itself *)
Example C13_from_binary_nonvacuous :
  in_i32 56379360 = true /\ (exists r, date_from_binary 56379360 = Ok (Some r)) /\
  (exists r, datehour_from_binary 56379371 = Ok (Some r)) /\
  (exists r, date_from_binary (-8760) = Ok (Some r) /\ date_to_binary r = Ok (-8760)).
Proof.
  split; [vm_compute; reflexivity|]. split; [eexists; vm_compute; reflexivity|].
  split; [eexists; vm_compute; reflexivity|].
  exists (mkraw (-5001) 4224). split; vm_compute; reflexivity.
Qed.

(* add_days / days_until are inverse as long as the result stays out of the "negative year 0":
   with D = date_days r (Date::days), the target day number D+n must be >= 0 (years 0..32767) or
   <= -365 (years -32768..-1).  This covers "the computation stays on one side of year 0" and is
   slightly more general (crossing is fine, landing in (-365,0) is not: the model reproduces the
   documented inconsistency there, see the example).  The result is again a valid Date, its day
   number is D+n, and days_until gives back n. *)
Theorem C13_add_days_until : forall r n D,
  is_date r -> date_days r = Ok D ->
  0 <= D + n < 11960320 \/ -11960685 < D + n <= -365 ->
  exists r', add_days r n = Ok r' /\ is_date r' /\ date_days r' = Ok (D + n) /\ days_until r r' = Ok n.
Proof. exact add_days_until. Qed.
Print Assumptions C13_add_days_until.

(* every valid date has a day number (no panic), of the documented form *)
Theorem C13_date_days_total : forall r, is_date r ->
  exists D o, date_days r = Ok D /\ 0 <= o <= 364 /\
    ((0 <= ry r /\ D = ry r * 365 + o) \/ (ry r < 0 /\ D = ry r * 365 - o)).
Proof. exact is_date_days. Qed.
Print Assumptions C13_date_days_total.

(* for years >= 0 (in particular >= 1) the derived Ord agrees with the sign of days_until *)
Theorem C13_ord_sign : forall r1 r2,
  is_date r1 -> is_date r2 -> 0 <= ry r1 -> 0 <= ry r2 ->
  exists n, days_until r1 r2 = Ok n /\ (raw_cmp r1 r2 = Lt <-> 0 < n) /\ (raw_cmp r1 r2 = Eq <-> n = 0)
            /\ (raw_cmp r1 r2 = Gt <-> n < 0).
Proof. exact ord_sign. Qed.
Print Assumptions C13_ord_sign.

(* non-vacuity: 1400.1.2 + 728 days = 1401.12.31 (the crate's doc example); a BC date moving further back;
   and the documented breakage across year 0 really is outside the hypothesis (the model reproduces
   that days_until (add_days d n) <> n there) *)
Example C13_arith_nonvacuous :
  is_date (mkraw 1400 4352) /\ date_days (mkraw 1400 4352) = Ok 511001 /\
  add_days (mkraw 1400 4352) 728 = Ok (mkraw 1401 53120) /\
  is_date (mkraw (-3) 4352) /\ date_days (mkraw (-3) 4352) = Ok (-1096) /\
  add_days (mkraw (-3) 4352) (-400) = Ok (mkraw (-4) 8960) /\
  (exists r', add_days (mkraw (-1) 4352) 100 = Ok r' /\ days_until (mkraw (-1) 4352) r' <> Ok 100).
Proof.
  split; [exists 1400, 1, 2; repeat split; vm_compute; reflexivity|].
  split; [vm_compute; reflexivity|]. split; [vm_compute; reflexivity|].
  split; [exists (-3), 1, 2; repeat split; vm_compute; reflexivity|].
  split; [vm_compute; reflexivity|]. split; [vm_compute; reflexivity|].
  eexists. split; [vm_compute; reflexivity|]. intros H; vm_compute in H; inversion H.
Qed.

(* util::fast_digit_parse, bit-exact over u64: for ANY eight bytes (little-endian word) the result is
   Some (decimal value, first byte most significant) iff all eight are ASCII digits, else None.
   dec_val l = fold_left (fun acc b => 10*acc + (b-48)) l 0. *)
Theorem C13_fast_digit_parse_spec : forall b0 b1 b2 b3 b4 b5 b6 b7,
  wfl [b0; b1; b2; b3; b4; b5; b6; b7] ->
  fast_digit_parse (le_u64 [b0; b1; b2; b3; b4; b5; b6; b7]) =
  if forallb is_digit [b0; b1; b2; b3; b4; b5; b6; b7]
  then Some (dec_val [b0; b1; b2; b3; b4; b5; b6; b7]) else None.
Proof. exact fast_digit_parse_spec. Qed.
Print Assumptions C13_fast_digit_parse_spec.

Example C13_fdp_nonvacuous :
  wfl [49; 52; 52; 52; 49; 49; 49; 49]%N /\
  fast_digit_parse (le_u64 [49; 52; 52; 52; 49; 49; 49; 49]%N) = Some 14441111%N /\
  fast_digit_parse (le_u64 [49; 52; 52; 52; 49; 58; 49; 49]%N) = None.
Proof. split; [repeat constructor|exact fast_digit_parse_ex]. Qed.

(* ---------------- decimal printing / parsing ---------------- *)
(* Date.dec_N (the model of core::fmt's `{}` on an unsigned integer) prints the canonical decimal
   numeral: digits only, value n (dacc 0 = Horner evaluation), no leading zero except "0" itself. *)
Theorem C13_dec_N_canonical : forall n, (n < 10 ^ 40)%N ->
  all_digits (dec_N n) = true /\ dacc 0 (dec_N n) = n /\
  ((n < 10)%N /\ dec_N n = [(48 + n)%N] \/ (10 <= n)%N /\ exists c tl, dec_N n = c :: tl /\ c <> 48%N /\ tl <> []).
Proof. exact dec_N_canonical. Qed.
Print Assumptions C13_dec_N_canonical.

(* ... hence its length is the number of decimal digits *)
Theorem C13_dec_N_length : forall n, (n < 10 ^ 40)%N ->
  (n < 10 ^ N.of_nat (length (dec_N n)))%N /\ ((10 <= n)%N -> (10 ^ N.of_nat (length (dec_N n) - 1) <= n)%N).
Proof. intros n Hn. exact (canonical_length n (dec_N n) (dec_N_canonical n Hn)). Qed.
Print Assumptions C13_dec_N_length.

(* scalar::to_i64_t reads back what `{}` / `{:0w}` printed (any width w, sign included), and stops
   exactly at the first non-digit: |z| < 2^63, rest not starting with a digit *)
Theorem C13_to_i64_t_fmt_int : forall w z rest,
  Z.abs z < 2 ^ 63 -> stops rest = true -> to_i64_t (fmt_int w z ++ rest) = Ok (z, rest).
Proof. exact to_i64_t_fmt_int. Qed.
Print Assumptions C13_to_i64_t_fmt_int.

Example C13_decimal_nonvacuous :
  dec_N 0 = [48]%N /\ dec_N 1444 = [49; 52; 52; 52]%N /\ fmt_int 2 7 = [48; 55]%N /\ fmt_int 4 (-3) = [45; 48; 48; 51]%N /\
  to_i64_t (fmt_int 0 (-32768) ++ [46; 49]%N) = Ok (-32768, [46; 49]%N).
Proof. exact dec_examples. Qed.

(* ---------------- text parsers: totality ---------------- *)
(* none of the text parsers reaches a panic site, on any byte string (Date::_parse: well-formed bytes) *)
Theorem C13_parse_total : forall s,
  is_crash (x_parse s) = false /\ is_crash (datehour_parse s) = false /\ is_crash (uniform_parse s) = false /\
  is_crash (raw_parse s) = false /\ (wfl s -> is_crash (date_parse s) = false).
Proof.
  intros s. destruct (parse_nocrash s) as (_ & H2 & H3 & H4).
  repeat split; auto using x_parse_nocrash, date_parse_nocrash.
Qed.
Print Assumptions C13_parse_total.

(* ---------------- fast paths = component-wise parsing ---------------- *)
(* Date::_parse (three digit-packed slice patterns, the len = 8 mask trick, SWAR digit parser) returns
   exactly what component-wise parsing (`fallback`) returns, on EVERY byte string, except that strings
   matching no pattern, of length <> 8, and (shorter than 5 or longer than 12 or not starting with '-'
   or a digit) are rejected up front (date_guard, DateFast.v).  The fast paths never invent, change or
   lose a result. *)
Theorem C13_fast_eq_component : forall s, wfl s ->
  date_parse s = if date_guard s then Ok None else date_fallback s.
Proof. exact date_parse_fallback. Qed.
Print Assumptions C13_fast_eq_component.

Theorem C13_fast_sound : forall s r, wfl s -> date_parse s = Ok (Some r) -> date_fallback s = Ok (Some r).
Proof. exact date_parse_sound. Qed.
Print Assumptions C13_fast_sound.

Theorem C13_fast_complete : forall s,
  wfl s -> (5 <= length s <= 12)%nat -> first_ok s = true -> date_parse s = date_fallback s.
Proof. exact date_parse_complete. Qed.
Print Assumptions C13_fast_complete.

(* non-vacuity: the len = 8 fast path is really taken by "1444.1.1" (and the model uses the constants
   of date.rs: DateFast.date_parse_is_alt checks that by conversion) *)
Example C13_fast_nonvacuous :
  exists s r, length s = 8%nat /\
    (N.land (le_u64 s) date8_sep_mask =? date8_sep_dots)%N = true /\
    date_fast_parse_u64 (N.lor (N.land (le_u64 s) date8_keep_mask) date8_zero_fill) = Some (Ok (Some r)) /\
    date_parse s = Ok (Some r).
Proof. exact date8_fast_path_taken. Qed.

(* ---------------- format -> parse ---------------- *)
(* every valid Date, rendered in game format (short "Y.M.D" or zero-padded "Y.MM.DD"), parses back *)
Theorem C13_fmt_parse_date : forall y m d,
  in_i16 y = true -> valid_md m d = true ->
  exists r, date_from_ymd_opt y m d = Ok (Some r) /\
            date_parse (game_fmt false r) = Ok (Some r) /\ date_parse (game_fmt true r) = Ok (Some r).
Proof. exact fmt_parse_date. Qed.
Print Assumptions C13_fmt_parse_date.

(* DateHour (hour 1..24): short format always; zero-padded only for hours >= 10, because the parser
   rejects a leading '0' in the hour ("1936.01.02.05" is not read back -- DotWide is only produced by the
   crate for UniformDate, which has no hour; see DateFmt.fmt_examples) *)
Theorem C13_fmt_parse_datehour : forall y m d h,
  in_i16 y = true -> valid_md m d = true -> 1 <= h <= 24 ->
  exists r, datehour_from_ymdh_opt y m d h = Ok (Some r) /\
            datehour_parse (game_fmt false r) = Ok (Some r) /\
            (10 <= h -> datehour_parse (game_fmt true r) = Ok (Some r)).
Proof. exact fmt_parse_datehour. Qed.
Print Assumptions C13_fmt_parse_datehour.

(* UniformDate (12 x 30 days): the crate renders it zero-padded; both renderings parse back *)
Theorem C13_fmt_parse_uniform : forall y m d,
  in_i16 y = true -> 1 <= m <= 12 -> 1 <= d <= 30 ->
  exists r, uniform_from_ymd_opt y m d = Some r /\
            uniform_parse (game_fmt true r) = Ok (Some r) /\ uniform_parse (game_fmt false r) = Ok (Some r).
Proof. exact fmt_parse_uniform. Qed.
Print Assumptions C13_fmt_parse_uniform.

(* RawDate::parse reads back both renderings of any raw date with in-range fields
   (wide_ok: zero-padded only when there is no hour or the hour is >= 10) *)
Theorem C13_fmt_parse_raw : forall y m d h wide,
  in_i16 y = true -> 1 <= m <= 12 -> 1 <= d <= 31 -> 0 <= h <= 24 -> wide_ok wide h = true ->
  exists r, raw_from_ymdh_opt y m d h = Some r /\ raw_parse (game_fmt wide r) = Ok (Some r).
Proof. exact fmt_parse_raw. Qed.
Print Assumptions C13_fmt_parse_raw.

(* the ISO-8601 rendering shows the same components: reading its numerals back with to_i64_t gives
   year, month, day, and (after 'T') the hour as 0..23 *)
Theorem C13_iso_components : forall r y m d h,
  has_fields r y m d h -> in_i16 y = true -> 1 <= m <= 12 -> 1 <= d <= 31 -> 0 <= h <= 24 ->
  exists r1 r2 T,
    to_i64_t (iso_fmt r) = Ok (y, DASH :: r1) /\ to_i64_t r1 = Ok (m, DASH :: r2) /\ to_i64_t r2 = Ok (d, T) /\
    ((h = 0 /\ T = []) \/ (1 <= h /\ exists T', T = 84%N :: T' /\ to_i64_t T' = Ok (h - 1, []))).
Proof. exact iso_components. Qed.
Print Assumptions C13_iso_components.

Example C13_fmt_nonvacuous :
  game_fmt false (mkraw 1444 (11 * 4096 + 11 * 128)) = [49; 52; 52; 52; 46; 49; 49; 46; 49; 49]%N /\
  game_fmt true (mkraw (-17) (1 * 4096 + 2 * 128)) = [45; 49; 55; 46; 48; 49; 46; 48; 50]%N /\
  game_fmt false (mkraw 1936 (1 * 4096 + 2 * 128 + 12 * 4)) = [49; 57; 51; 54; 46; 49; 46; 50; 46; 49; 50]%N /\
  datehour_parse (game_fmt true (mkraw 1936 (1 * 4096 + 2 * 128 + 5 * 4))) = Ok None.
Proof. exact fmt_examples. Qed.

(* ---------------- the accepted language ---------------- *)
(* ExpandedRawDate::parse accepts EXACTLY (iff):
     - a plain integer (the whole string is consumed by to_i64_t) that fits i32 and that
       from_binary accepts  [binary_text: the documented numeric form], or
     - ys "." M "." D [ "." H ]  where ys is the year numeral as to_i64_t reads it (digits, or a sign
       '+'/'-' followed by digits; value in i16), M and D are one- or two-digit numerals, H a one- or
       two-digit numeral not starting with '0', and nothing follows  [ymdh_text, DateLang.v].
   The components of the result are the values of those numerals (hour 0 = absent). *)
Theorem C13_parse_lang : forall s x,
  x_parse s = Ok (Some x) <->
  (binary_text s x \/ (in_i16 (xy x) = true /\ ymdh_text s (xy x) (xm x) (xd x) (xh x))).
Proof. exact x_parse_lang. Qed.
Print Assumptions C13_parse_lang.

(* Date::parse: whatever it accepts is Y.M.D (no hour) or the numeric form, with a day the calendar has *)
Theorem C13_date_lang : forall s r, wfl s -> date_parse s = Ok (Some r) ->
  exists y m d, in_i16 y = true /\ valid_md m d = true /\ date_from_ymd_opt y m d = Ok (Some r) /\
    (ymdh_text s y m d 0 \/ binary_text s (mkx y m d 0)).
Proof. exact date_lang. Qed.
Print Assumptions C13_date_lang.

Theorem C13_date_lang_complete : forall s y m d,
  wfl s -> (5 <= length s <= 12)%nat -> first_ok s = true ->
  in_i16 y = true -> valid_md m d = true -> ymdh_text s y m d 0 ->
  exists r, date_from_ymd_opt y m d = Ok (Some r) /\ date_parse s = Ok (Some r).
Proof. exact date_lang_complete. Qed.
Print Assumptions C13_date_lang_complete.

(* DateHour::parse: Y.M.D.H with a calendar day and hour 1..24 (or the numeric form) *)
Theorem C13_datehour_lang : forall s r, datehour_parse s = Ok (Some r) ->
  exists y m d h, in_i16 y = true /\ valid_md m d = true /\ 1 <= h <= 24 /\
    datehour_from_ymdh_opt y m d h = Ok (Some r) /\
    (ymdh_text s y m d h \/ binary_text s (mkx y m d h)).
Proof. exact datehour_lang. Qed.
Print Assumptions C13_datehour_lang.

Theorem C13_datehour_lang_complete : forall s y m d h,
  in_i16 y = true -> valid_md m d = true -> 1 <= h <= 24 -> ymdh_text s y m d h ->
  exists r, datehour_from_ymdh_opt y m d h = Ok (Some r) /\ datehour_parse s = Ok (Some r).
Proof. exact datehour_lang_complete. Qed.
Print Assumptions C13_datehour_lang_complete.

(* UniformDate::parse: Y.M.D with month 1..12 and day 1..30 (or the numeric form) *)
Theorem C13_uniform_lang : forall s r, uniform_parse s = Ok (Some r) ->
  exists y m d, in_i16 y = true /\ 1 <= m <= 12 /\ 1 <= d <= 30 /\ uniform_from_ymd_opt y m d = Some r /\
    (ymdh_text s y m d 0 \/ binary_text s (mkx y m d 0)).
Proof. exact uniform_lang. Qed.
Print Assumptions C13_uniform_lang.

Theorem C13_uniform_lang_complete : forall s y m d,
  in_i16 y = true -> 1 <= m <= 12 -> 1 <= d <= 30 -> ymdh_text s y m d 0 ->
  exists r, uniform_from_ymd_opt y m d = Some r /\ uniform_parse s = Ok (Some r).
Proof. exact uniform_lang_complete. Qed.
Print Assumptions C13_uniform_lang_complete.

(* the rejections named in the property, as instances; and a FINDING the model reproduces:
   DateHour::parse of the numeric form does not shift the 0-based binary hour (from_binary does) *)
Example C13_lang_nonvacuous :
  date_parse [49; 52; 52; 52; 46; 50; 46; 51; 48]%N = Ok None /\
  date_parse [49; 52; 52; 52; 46; 49; 51; 46; 49]%N = Ok None /\
  date_parse [49; 52; 52; 52; 46; 48; 46; 49]%N = Ok None /\
  datehour_parse [49; 46; 49; 46; 49; 46; 50; 53]%N = Ok None /\
  datehour_parse [49; 46; 49; 46; 49; 46; 48]%N = Ok None /\
  date_parse [49; 52; 52; 52; 46; 49; 46; 49; 120]%N = Ok None /\
  uniform_parse [49; 46; 49; 46; 51; 49]%N = Ok None.
Proof. exact lang_rejects. Qed.

Example C13_datehour_text_binary_mismatch :
  datehour_parse [52; 51; 56; 48; 56; 55; 54; 49]%N = Ok (Some (mkraw 1 (1 * 4096 + 1 * 128 + 1 * 4))) /\
  datehour_from_binary 43808761 = Ok (Some (mkraw 1 (1 * 4096 + 1 * 128 + 2 * 4))) /\
  datehour_parse [52; 51; 56; 48; 56; 55; 54; 48]%N = Ok None /\
  datehour_from_binary 43808760 = Ok (Some (mkraw 1 (1 * 4096 + 1 * 128 + 1 * 4))).
Proof. exact datehour_text_binary_mismatch. Qed.
