(* C09 (binary half), wave 4 -- TokenReader::skip_container on the slice-backed reader
   (TokenReader::from_slice).  C09_bin_reader_skip_lands assumes  fits c d  (which implies 0 < c)
   and so says nothing about the bufferless window (cap 0, fill_buf = Ok(0)); this closes that.
   Statements only. *)
From JV Require Import Bytes Tables BinPrim BufWin BinLexer BinReader.
From JV.proofs Require Import BinLexProofs BinRoundProofs BinStreamProofs BinSkipProofs BinRSkipProofs BinRSliceSkipProofs.
Open Scope nat_scope.

(* [slice_st s d pos]: the underlying reader of s has nothing left, the window is d, position() is
   pos -- every state of a from_slice reader, and also a buffered reader once the whole rest of
   the input sits in its window.  For ALL byte strings d (strings / floats / integers whose payload
   bytes look like OPEN or CLOSE included): if reading tokens and counting opens and closes
   reaches the matching close leaving r, skip_container succeeds, the window is exactly r and
   position() has advanced by |d| - |r|. *)
Theorem C09_bin_slice_reader_skip_lands : forall s d pos r,
  slice_st s d pos -> balanced_read d = Some r ->
  exists s', rdr_skip_container s = (Ok tt, s') /\ slice_st s' r (pos + (length d - length r)) /\
             cap (fst s') = cap (fst s).
Proof. exact slice_reader_skip_lands. Qed.
Print Assumptions C09_bin_slice_reader_skip_lands.

Theorem C09_bin_slice_st_from_slice : forall d, slice_st (rdr_from_slice d) d 0.
Proof. exact slice_st_from_slice. Qed.

(* non-vacuity: the container body of C09_bin_nonvacuous (a string made of CLOSE ids, an rgb block,
   a nested container holding a u64 whose bytes are OPEN/CLOSE ids) on the slice reader *)
Example C09_bin_slice_nonvacuous :
  let body := concat (map write_token
     [BQuoted [4%N; 0%N; 4%N; 0%N]; BEqual; BRgb (mkrgb 3 4 5 (Some 4%N)); BOpen; BU64 1125912791875587; BClose; BClose; BId 7%N]) in
  balanced_read body = Some [7%N; 0%N] /\
  fst (rdr_skip_container (rdr_from_slice body)) = Ok tt /\
  rdr_position (snd (rdr_skip_container (rdr_from_slice body))) = length body - 2 /\
  win (fst (snd (rdr_skip_container (rdr_from_slice body)))) = [7%N; 0%N].
Proof. vm_compute. repeat split; reflexivity. Qed.
