(* C08 (streaming binary reader = lexer), buffer.rs at STORAGE level (wave 5, engineer w_buf).
   Statements only; model coq/theories/BufStore.v, proofs proofs/BufStoreProofs.v.  The binary
   TokenReader is a client of BufferWindow that uses window / advance_to / advance / fill_buf /
   position; C08's theorems are about the window-level model BufWin.v.  Here: any such client sees
   the same thing over the storage-level model, whatever the buffer held (closes audit/C08.md's
   "recycled buffer: model has no stale bytes by construction"), and the position law. *)
From JV Require Import Bytes BufWin BufStore.
From JV.proofs Require Import BufWinProofs BufStoreProofs.
Open Scope nat_scope.

Theorem C08_store_any_client_buffer_independent : forall fuel c buf1 buf2 r,
  length buf1 = length buf2 -> bs_drive fuel c (bs_build buf1) r [] = bs_drive fuel c (bs_build buf2) r [].
Proof. exact bs_drive_buffer_independent. Qed.
Print Assumptions C08_store_any_client_buffer_independent.

Theorem C08_store_step_refines : forall st r o,
  bs_inv st ->
  abs_step (absst_of st) r o = (let '(ob, st', r') := bs_step st r o in (ob, absst_of st', r')) /\
  bs_inv (step_st (bs_step st r o)) /\
  length (s_buf (step_st (bs_step st r o))) = length (s_buf st) /\
  s_owned (step_st (bs_step st r o)) = s_owned st.
Proof. exact bs_step_refines. Qed.
Print Assumptions C08_store_step_refines.

(* position() = prior_reads + consumed_data(): fill_buf never moves it, advance moves it by amt *)
Theorem C08_store_fill_buf_keeps_position : forall st r scr st',
  bs_inv st -> sfill_state (bs_fill_buf st r scr) = Some st' -> bs_position st' = bs_position st.
Proof. exact bs_fill_buf_position. Qed.
Print Assumptions C08_store_fill_buf_keeps_position.

Theorem C08_store_fill_zero_keeps_position : forall st r scr st',
  bs_inv st -> sfill_state (bs_fill_zero st r scr) = Some st' -> bs_position st' = bs_position st.
Proof. exact bs_fill_zero_position. Qed.
Print Assumptions C08_store_fill_zero_keeps_position.

Theorem C08_store_advance_moves_position : forall st amt st',
  bs_advance st amt = Ok st' -> bs_position st' = bs_position st + amt.
Proof. exact bs_advance_position. Qed.
Print Assumptions C08_store_advance_moves_position.

(* position() + window_len() = number of bytes the Read has delivered, after every op *)
Theorem C08_store_position_plus_window_is_delivered : forall st r o,
  bs_inv st -> bs_fill_inv st r -> bs_fill_inv (step_st (bs_step st r o)) (snd (bs_step st r o)).
Proof. exact bs_step_keeps_delivered. Qed.
Print Assumptions C08_store_position_plus_window_is_delivered.

(* window() = the slice of the stream at position() *)
Theorem C08_store_window_stream_law : forall input st r,
  bs_inv st -> bs_stream2 input st r ->
  window st = segment input (bs_position st) (length (window st)) /\
  bs_position st + length (window st) + length (rest r) = length input.
Proof. exact bs_window_stream_law. Qed.
Print Assumptions C08_store_window_stream_law.

Example C08_store_fill_inv_satisfiable : forall buf input sched, bs_fill_inv (bs_build buf) (mkrd input sched 0 0).
Proof. reflexivity. Qed.

(* an adaptive client in the style of the binary reader: fill until 2 bytes are there, take them *)
Example C08_store_client_example :
  let c : client := fun seen => match seen with
                                | [] => Some (OFill None)
                                | _ => match last seen (crash_obs 0%N) with
                                       | mkobs (EFill 0) _ _ _ => None
                                       | mkobs _ w _ _ => if Nat.leb 2 (length w) then Some (OAdvTo 2) else Some (OFill None)
                                       end
                                end in
  map o_pos (bs_drive 20 c (bs_build [9; 9; 9]%N) (mkrd [1; 2; 3; 4; 5]%N [Data 1; Data 1; Data 3] 0 0) [])
  = [0; 0; 2; 2; 4; 4].
Proof. vm_compute. reflexivity. Qed.
