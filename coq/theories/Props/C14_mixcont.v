(* C14, wave 5 (w_wr) -- key-value lists whose values are CONTAINERS, and the exact class K where
   write_tape is wrong.  Statements only; proofs in proofs/WriterMixProofs.v, classifier in WriterMix.v
   (extracted: the props oracles classify every round-trip failure with [k14_class], so a failure on a
   document with class 0 is a VIOLATION, failures inside K stay known findings).

   TextWriter has ONE mixed_mode flag.  start_mixed_mode turns it on, only write_end turns it off.  Inside
   the first container value of a `key op value` list it is still on ("dirty") down to the first closing
   brace; an operator written through write_operator in that stretch is printed glued and leaves the
   state at KeyValueSeparator, so the value gets a spurious `=`.  After that brace the flag is off for
   the rest of the list ("lost"): triples come out ` key op value` with spaces -- other layout, same tokens.

     wx_fields d      writer-side shape: no object tails, no parameter values, headers are field values
                      holding a container, list entries are `key op value`, op <> ?=, value a scalar or
                      ANY container (objects, arrays, lists, arbitrarily nested)
     K14 d            pv_fields d (a parameter value somewhere: finding rt-param-value)
                      || some operator is written while the flag is dirty (finding rt-mixed-nested-op)
     normx_fields d   `key {` -> `key={` (also inside list values); invisible on the tape
     layout_x c d     the gaps the writer chooses (chx_* in the proof file)                              *)
From JV Require Import Bytes Tables TextTok TextTape TextDoc Date Writer WriterMix.
From JV.proofs Require Import WriterLayoutDefs WriterLayoutProofs WriterMixProofs.
Open Scope nat_scope.

(* 1. OUTSIDE K, for every configuration: write_tape prints exactly the token stream of the (normalised)
   document under the explicit layout [layout_x c d], and ends at depth 0 expecting a key. *)
Theorem C14_mixcont_write_is_layout : forall c d, wx_fields d = true -> K14 d = false ->
  write_tape (tape_fuel (flatten d)) c (flatten d) = WOk (w_end d) (render (normx_fields d) (layout_x c d)).
Proof. exact write_is_layout_x. Qed.
Print Assumptions C14_mixcont_write_is_layout.

(* 2. that layout is well formed (every gap is white space, every bare word is followed by a boundary byte,
   no BOM), and the normalisation does not change the tape *)
Theorem C14_mixcont_layout_wf : forall c d, cfg_ok c -> wx_fields d = true -> nobom d = true ->
  wf_layout (normx_fields d) (layout_x c d) /\ flatten (normx_fields d) = flatten d.
Proof. intros c d Hc Hwx Hnb. split; [apply layout_x_wf; assumption|apply flatten_normx]. Qed.
Print Assumptions C14_mixcont_layout_wf.

(* 3. hence the round trip holds outside K under any parser P that reads every well-formed rendering of the
   document as the tape t.  PARTIAL: for P = TextTape.parse and t = flatten d this hypothesis is
   C01_parse_render when wf_doc d holds (scalar list values); for container values inside a list the parser
   model has no such theorem yet (and the real parser is itself irregular there: second `M` marker after an
   empty / array-first container, see props/docgen.flatten), so it stays a hypothesis; the instance below
   (C14_mixcont_nonvacuous) checks it by computation on concrete documents and the `roundtrip` stream
   checks it on the implementation with class 0 as the oracle's domain.
   Full statement wanted:  forall c d, cfg_ok c -> wx_fields d -> nobom d -> K14 d = false ->
                           parse (write_tape (flatten d)) = Ok (flatten d, false). *)
Theorem C14_mixcont_reparse_partial : forall c d (P : bytes -> outcome (ttape * bool)) t,
  cfg_ok c -> wx_fields d = true -> nobom d = true -> K14 d = false ->
  (forall l, wf_layout (normx_fields d) l -> P (render (normx_fields d) l) = Ok (t, bom l)) ->
  exists out, write_tape (tape_fuel (flatten d)) c (flatten d) = WOk (w_end d) out /\ P out = Ok (t, false).
Proof. exact write_reparse_x. Qed.
Print Assumptions C14_mixcont_reparse_partial.

(* 4. the class of Props/C14_reparse.v (rt d: the grammar of C01) lies inside wx and OUTSIDE K: there the
   unconditional C14_reparse applies, and K never excuses a failure on it *)
Theorem C14_rt_outside_K : forall d, rt d -> wx_fields d = true /\ K14 d = false.
Proof. exact rt_outside_K. Qed.
Print Assumptions C14_rt_outside_K.

(* 5. the class the ORACLES use on tapes that come out of the real parser ([k14p_class]: K plus the parser's habit of
   inserting a second MixedContainer marker after an empty / `{`-first container value, which turns the writer's
   flag on again) is inside the class of theorem 1: whatever the oracles treat as "must round-trip" is covered *)
Theorem C14_oracle_class_inside : forall d, k14p_class d = 0%N -> K14 d = false.
Proof. exact k14p_inside. Qed.
Print Assumptions C14_oracle_class_inside.

(* ------------------------------------------------------------------ INSIDE K: the known findings, as witnesses *)
Open Scope N_scope.
Definition S1 (x : N) : value := VScalar Unq [x].
Definition F1 (k : N) (o : operator) (v : value) : field := Field Unq [k] (Some o) v.
Definition cfg1 : cfg := mkcfg 32 1 false.

(* a={1 b={c<d}} : class 2.  Written `c<=d`; re-parsed the operator is `<=` (finding rt-mixed-nested-op).
   Replay on the implementation: writer.rt 32,1,r 613d7b3120623d7b633c647d7d *)
Definition k_op_doc : doc :=
  FCons (F1 97 Equal (VArrayKv (VCons (S1 49) VNil)
    (FCons (F1 98 Equal (VObject (FCons (F1 99 LessThan (S1 100)) FNil) VNil)) FNil))) FNil.
Theorem C14_K_mixed_nested_op_refuted :
  wx_fields k_op_doc = true /\ nobom k_op_doc = true /\ k14_class k_op_doc = 2 /\ K14 k_op_doc = true /\
  exists out w t', write_tape (tape_fuel (flatten k_op_doc)) cfg1 (flatten k_op_doc) = WOk w out /\
    parse out = Ok (t', false) /\
    nth_error t' 8 = Some (TOperator LessThanEqual) /\ nth_error (flatten k_op_doc) 8 = Some (TOperator LessThan).
Proof.
  split; [reflexivity|]. split; [reflexivity|]. split; [reflexivity|]. split; [reflexivity|].
  eexists. eexists. eexists. split; [vm_compute; reflexivity|]. split; [vm_compute; reflexivity|].
  split; reflexivity.
Qed.
Print Assumptions C14_K_mixed_nested_op_refuted.

(* the dirty stretch ends at the FIRST closing brace, whatever it closes: in  a={1 b={ x={2} c<d }}  the
   operator comes after `{2}` has been closed, the flag is off again, and the document is OUTSIDE K although
   it has an operator inside an object inside a list (the ad-hoc classifier of wave 4 called it known) *)
Definition k_edge_doc : doc :=
  FCons (F1 97 Equal (VArrayKv (VCons (S1 49) VNil)
    (FCons (F1 98 Equal (VObject (FCons (F1 120 Equal (VArray (VCons (S1 50) VNil)))
                                 (FCons (F1 99 LessThan (S1 100)) FNil)) VNil)) FNil))) FNil.
(* a={1 b={c=d} e<f g={2 3} h=i} : container values followed by further entries (flag lost): outside K *)
Definition k_lost_doc : doc :=
  FCons (F1 97 Equal (VArrayKv (VCons (S1 49) VNil)
    (FCons (F1 98 Equal (VObject (FCons (F1 99 Equal (S1 100)) FNil) VNil))
    (FCons (F1 101 LessThan (S1 102))
    (FCons (F1 103 Equal (VArray (VCons (S1 50) (VCons (S1 51) VNil))))
    (FCons (F1 104 Equal (S1 105)) FNil)))))) FNil.

(* non-vacuity: both documents satisfy the hypotheses of 1-3, are NOT in the old class (wf_doc fails), and
   for them the parser hypothesis of 3 holds at the writer's own layout: the output parses back to flatten d *)
Example C14_mixcont_nonvacuous :
  (wx_fields k_edge_doc = true /\ nobom k_edge_doc = true /\ K14 k_edge_doc = false /\ wf_fields k_edge_doc = false /\
   exists out, write_tape (tape_fuel (flatten k_edge_doc)) cfg1 (flatten k_edge_doc) = WOk (w_end k_edge_doc) out /\
               parse out = Ok (flatten k_edge_doc, false)) /\
  (wx_fields k_lost_doc = true /\ nobom k_lost_doc = true /\ K14 k_lost_doc = false /\ wf_fields k_lost_doc = false /\
   exists out, write_tape (tape_fuel (flatten k_lost_doc)) cfg1 (flatten k_lost_doc) = WOk (w_end k_lost_doc) out /\
               parse out = Ok (flatten k_lost_doc, false) /\
               (* ` e < f g = {` : spaced triples once the flag is lost *)
               firstn 12 (skipn 19 out) = [10; 32; 101; 32; 60; 32; 102; 32; 103; 32; 61; 32]).
Proof.
  split; (split; [reflexivity|]; split; [reflexivity|]; split; [reflexivity|]; split; [reflexivity|];
          eexists; split; [vm_compute; reflexivity|]); [vm_compute; reflexivity|].
  split; vm_compute; reflexivity.
Qed.

(* the parameter value document of Props/C14_reparse.v (C14_exclusions_refuted (a): a={ [[p] v ] k=w } re-parses
   to a different tape) is class 1, and outside wx *)
Definition k_pv_doc : doc :=
  FCons (Field Unq [97] (Some Equal)
    (VObject (FCons (ParamV [112] false [118]) (FCons (Field Unq [107] (Some Equal) (VScalar Unq [119])) FNil)) VNil)) FNil.
Theorem C14_K_param_value_refuted : k14_class k_pv_doc = 1 /\ K14 k_pv_doc = true /\ wx_fields k_pv_doc = false /\
  exists out w t', write_tape (tape_fuel (flatten k_pv_doc)) (mkcfg 32 2 false) (flatten k_pv_doc) = WOk w out /\
    parse out = Ok (t', false) /\ length t' = 9%nat /\ length (flatten k_pv_doc) = 7%nat.
Proof.
  split; [reflexivity|]. split; [reflexivity|]. split; [reflexivity|].
  eexists; eexists; eexists; split; [vm_compute; reflexivity|]; split; [vm_compute; reflexivity|]; split; reflexivity.
Qed.
Print Assumptions C14_K_param_value_refuted.
