(* C05 -- the two TAPE deserializer walks never crash and terminate with the entry point's own fuel.
   Statements only (proofs: proofs/NoCrashTapeWalks{Defs,Inv,Bin,Text}.v).

   BINARY  (BinDeTape.deser_tape = BinaryTape::from_slice, then BinaryDeserializer over the tape:
            SerdeShape.walk over BinDeTape.ops_tape with fuel BinDeCommon.deser_fuel)
     C05_bde_tape_never_crashes         every byte string (bytes < 256), every shape, every configuration
                                        with cfg_ok: Ok / Err, or the model-only ShProp marker Panic 9001
     C05_bde_tape_never_crashes_noprop  shapes without prop(..): Ok / Err only -- none of the `tokens[i]`
                                        sites 9201..9206 (9206 = the release-only unchecked
                                        `tokens[value_ind]` of BinaryMap::next_key_seed), no OOB, no OutOfFuel
     C05_bde_tape_on_parsed_tape        the same in the form "for every tape parse_opt returns"
     C05_bintape_parse_facts            what the walk needs from BinTape.parse beyond C06_bin's tape_wf, proved
                                        as invariants of the parser loop (optimised AND reference, fx any):
                                          payloads are real (i32 range, string bytes < 256),
                                          |tape| <= |input|,
                                          kvgood 0 tape: the key/value walk of the ROOT map never puts a
                                          scalar key on the last token.
     C05_bintape_top_level_not_pairs    the stronger reading "(i) at top level the tokens come as key/value
                                        PAIRS" is FALSE for accepted inputs: `a b c {}` parses to
                                        Mixed a b c Array End (five values).  The walk is nevertheless safe:
                                        a key position that holds a container is refused by the
                                        KeyDeserializer (error) right after `tokens[key+1]`, which exists
                                        because the container has an End token -- this is what kvgood says.
     C05_bintape_key_container_refused  the mechanism on a concrete tape (`a b c {x}`)
     C05_bde_tape_any_wf_tape           the walk theorem for ANY tape with tape_wf + payloads + kvgood, fuel
                                        len + shape_size + 2
     C05_bde_tape_walk_eq_ops2          the proof device: the walk over ops_tape equals the walk over ops2
                                        (a refused key parks the cursor; next_element on the root cursor
                                        answers None), to which C05_walk_generic applies
   TEXT: see the second half of this file. *)
From JV.proofs Require Import SwarLanes NoCrashWalk NoCrashBinDe BinDeSpecProofs NoCrashTapeWalksDefs NoCrashTapeWalksInv NoCrashTapeWalksBin.
From JV Require Import Bytes Tables BinPrim BinTape BinTapeWf SerdeShape BinDeCommon BinDeTape.
From JV.Props Require Import C05_walks.
Open Scope nat_scope.

(* ------------------------------------------------------------------ binary tape path *)
Theorem C05_bde_tape_never_crashes : forall cfg sh d, cfg_ok cfg -> wfl d ->
  no_crash_but_prop (deser_tape cfg sh d).
Proof. intros cfg sh d Hc Hd. apply gd2_false_elim. apply (deser_tape_ok cfg Hc false sh d Hd). discriminate. Qed.
Print Assumptions C05_bde_tape_never_crashes.

Theorem C05_bde_tape_never_crashes_noprop : forall cfg sh d, cfg_ok cfg -> wfl d -> noprop sh = true ->
  no_crash (deser_tape cfg sh d).
Proof. intros cfg sh d Hc Hd Hs. apply gd2_true_elim. apply (deser_tape_ok cfg Hc true sh d Hd). intros _. exact Hs. Qed.
Print Assumptions C05_bde_tape_never_crashes_noprop.

Theorem C05_bde_tape_on_parsed_tape : forall cfg sh d, cfg_ok cfg -> wfl d -> noprop sh = true ->
  match parse_opt d with
  | Ok t => no_crash (deser_tokens cfg t (deser_fuel sh d) sh)
  | _ => True
  end.
Proof.
  intros cfg sh d Hc Hd Hs. pose proof (C05_bde_tape_never_crashes_noprop cfg sh d Hc Hd Hs) as H.
  unfold deser_tape in H. destruct (parse_opt d); auto.
Qed.
Print Assumptions C05_bde_tape_on_parsed_tape.

Theorem C05_bintape_parse_facts : forall fx opt d t, wfl d -> parse fx opt d = Ok t ->
  Forall NoCrashTapeWalksDefs.tok_ok t /\ length t <= length d /\ kvgood 0 t.
Proof. exact parse_tape_facts_gen. Qed.
Print Assumptions C05_bintape_parse_facts.

Definition C05_not_pairs_input : bytes := [130;45; 130;45; 130;45; 3;0; 4;0]%N.
Theorem C05_bintape_top_level_not_pairs :
  wfl C05_not_pairs_input /\
  parse_opt C05_not_pairs_input = Ok [TMixed; TToken 11650; TToken 11650; TToken 11650; TArray 5; TEnd 4] /\
  parse_ref C05_not_pairs_input = Ok [TMixed; TToken 11650; TToken 11650; TToken 11650; TArray 5; TEnd 4] /\
  kvgood 0 [TMixed; TToken 11650; TToken 11650; TToken 11650; TArray 5; TEnd 4].
Proof.
  split; [repeat constructor|]. split; [vm_compute; reflexivity|]. split; [vm_compute; reflexivity|].
  exact parse_not_pairs_kvgood.
Qed.

(* the mechanism, on `a b c {x}` = Mixed a b c Array x End (the Array token lands in KEY position 4):
   next_key_seed indexes tokens[5] (exists: the container has at least its End), the KeyDeserializer then
   refuses the Array token whatever the visitor asks for, and the cursor it leaves behind (6, inside the
   container, value index 5) WOULD hit the unchecked index if it were used again -- it never is *)
Definition C05_key_container_input : bytes := [130;45; 130;45; 130;45; 3;0; 130;45; 4;0]%N.
Definition C05_key_container_tape : tape :=
  [TMixed; TToken 11650; TToken 11650; TToken 11650; TArray 6; TToken 11650; TEnd 4].
Theorem C05_bintape_key_container_refused :
  parse_opt C05_key_container_input = Ok C05_key_container_tape /\
  tp_next_key C05_key_container_tape false (mkcur 4 7 3) = Ok (Some 4, mkcur 6 7 5) /\
  (forall cfg h st, tp_dispatch cfg C05_key_container_tape true h 4 st = Err EC_DE) /\
  tp_next_key C05_key_container_tape false (mkcur 6 7 5) = Panic 9206%N /\
  (forall cfg sh, cfg_ok cfg -> noprop sh = true -> no_crash (deser_tape cfg sh C05_key_container_input)).
Proof.
  split; [vm_compute; reflexivity|]. split; [reflexivity|].
  split; [intros cfg h st; apply doomed_dispatch; reflexivity|]. split; [reflexivity|].
  intros cfg sh Hc Hs. apply C05_bde_tape_never_crashes_noprop; auto. repeat constructor.
Qed.

Theorem C05_bde_tape_any_wf_tape : ltac:(let t := type of deser_tokens_total in exact t).
Proof. exact deser_tokens_total. Qed.
Print Assumptions C05_bde_tape_any_wf_tape.

Theorem C05_bde_tape_walk_eq_ops2 : ltac:(let t := type of walk_root_eq in exact t).
Proof. exact walk_root_eq. Qed.
Print Assumptions C05_bde_tape_walk_eq_ops2.

(* non-vacuity: a value, an error after a misaligned top level, the empty input; with the eu4-free
   configuration cfg0 of C05_walks (resolver knows 0x1234) *)
Example C05_bde_tape_nonvacuous :
  cfg_ok cfg0 /\
  deser_tape cfg0 (ShMap ShAny) C05_prop_input = Ok (DMap [([120]%N, DI 1)]) /\
  deser_tape cfg0 (ShMap ShIgn) C05_not_pairs_input = Err EC_DE /\
  deser_tape cfg0 (ShMap ShAny) [] = Ok (DMap []) /\
  deser_tape cfg0 (ShMap ShAny) [130;45]%N = Err EC_EOF.
Proof.
  split; [apply C05_bde_prop_is_model_artefact|]. repeat split; vm_compute; reflexivity.
Qed.

(* ------------------------------------------------------------------ text tape path
   TextDeTape.deser_tape = TextDeserializer::from_*_tape: the mutual walk de / seq_all / seq_tup / twalk
   over the DOM reader operations of TextDeTape.v on the tape TextTape.parse returns (C17: tape_wf).

     C05_tde_tape_never_crashes       for EVERY input, every shape (prop(..) included), every decoder returning real
                                      bytes, every float parser / casts: deser_tape on the parsed tape is Ok / Err --
                                      no Panic (SITE_TOK 9100 `tokens[i]`, 9001 / 9002 of finish), no OOB, and no
                                      OutOfFuel with the entry point's own fuel
                                      tape_fuel = 2 * |tape| + 2 * shape_size + 8
     C05_tde_tape_no_panic_any_fuel   never Panic / OOB with any other fuel either
     C05_tde_tape_terminates          2 * |tape| + 2 * shape_size + 4 levels of fuel always suffice (fuel is a device
                                      of the model; this is the termination theorem)
     C05_tde_tape_old_fuel_refuted    FINDING about the model (repaired in TextDeTape.v on the lead's decision): the
                                      original tape_fuel = 2 * |tape| + shape_size + 8 was too small: `a=rgb{{}}` with
                                      map(seq^16(ign)) ran out of fuel (deserialize_seq on a Header value yields the
                                      header token itself as first element: two fuel levels per shape level, no
                                      progress in the tape).  The implementation returns the value (replayed,
                                      `de.text tape`, release and debug) -- a model artefact, not a hang.
     C05_tde_tape_old_fuel_partial    ... and when that original fuel does suffice: seq_extra t sh <= 4 (no Header
                                      token in the tape, or seq / tup nested at most 4 deep)
     C05_tde_objreader                the harness path objreader@k: Panic 9101 (the harness' own `expect`) exactly
                                      when the root has no k-th field, otherwise Ok / Err
     C05_tde_tape_any_wf_tape         the walk theorem for ANY tape_wf tape and any object-body range, with the
                                      fine fuel bound 2 * tokens + shape_size + seq_extra + 4 *)
From JV.proofs Require Import NoCrashTextDe NoCrashTapeWalksText.
From JV Require Utf8 TextTok TextTape TapeWf TextDeCommon TextDeTape.

Definition no_panic_oob {A} (o : outcome A) : Prop := match o with Panic _ | OOB _ => False | _ => True end.

Lemma gd2_true_nopanic {A} (FF : Prop) (o : outcome A) : gd2 true FF (fun _ => True) o -> no_panic_oob o.
Proof. destruct o; cbn; try tauto. intros [H _]; discriminate. Qed.
Lemma gd2_true_nocrash {A} (FF : Prop) (o : outcome A) : gd2 true FF (fun _ => True) o -> FF -> no_crash o.
Proof. destruct o; cbn; try tauto. intros [H _]; discriminate. Qed.

Theorem C05_tde_tape_never_crashes : forall decode parse_f64 fo sh input,
  (forall raw, wfl (Utf8.cow_bytes (decode raw))) ->
  match TextTape.parse input with
  | Ok (t, _) => no_crash (TextDeTape.deser_tape decode parse_f64 fo sh t)
  | _ => True
  end.
Proof.
  intros decode parse_f64 fo sh input Hdec. pose proof (deser_tape_text_parse_ok decode parse_f64 fo sh input Hdec) as H.
  destruct (TextTape.parse input) as [[t bom]| | | |]; auto. eapply gd2_true_nocrash; eauto.
Qed.
Print Assumptions C05_tde_tape_never_crashes.

Theorem C05_tde_tape_no_panic_any_fuel : forall decode parse_f64 fo sh input fuel,
  (forall raw, wfl (Utf8.cow_bytes (decode raw))) ->
  match TextTape.parse input with
  | Ok (t, _) => no_panic_oob (TextDeTape.de_root decode parse_f64 fo t fuel sh 0 (length t))
  | _ => True
  end.
Proof.
  intros decode parse_f64 fo sh input fuel Hdec. destruct (TextTape.parse input) as [[t bom]| | | |] eqn:E; auto.
  eapply gd2_true_nopanic. apply (de_root_text_ok decode parse_f64 fo sh t fuel Hdec).
  exact (JV.proofs.TextTapeGrammarProofs.parse_tape_wf input t bom E).
Qed.
Print Assumptions C05_tde_tape_no_panic_any_fuel.

Theorem C05_tde_tape_terminates : forall decode parse_f64 fo sh input fuel,
  (forall raw, wfl (Utf8.cow_bytes (decode raw))) ->
  match TextTape.parse input with
  | Ok (t, _) => 2 * length t + 2 * TextDeCommon.shape_size sh + 4 <= fuel ->
                 no_crash (TextDeTape.de_root decode parse_f64 fo t fuel sh 0 (length t))
  | _ => True
  end.
Proof.
  intros decode parse_f64 fo sh input fuel Hdec. destruct (TextTape.parse input) as [[t bom]| | | |] eqn:E; auto.
  intros Hf. eapply gd2_true_nocrash; [|exact Hf]. apply (de_root_text_ok_2size decode parse_f64 fo sh t fuel Hdec).
  exact (JV.proofs.TextTapeGrammarProofs.parse_tape_wf input t bom E).
Qed.
Print Assumptions C05_tde_tape_terminates.

Theorem C05_tde_tape_old_fuel_refuted :
  exists decode parse_f64 fo sh input t,
    (forall raw, wfl (Utf8.cow_bytes (decode raw))) /\
    TextTape.parse input = Ok (t, false) /\
    TextDeTape.de_root decode parse_f64 fo t (2 * length t + TextDeCommon.shape_size sh + 8) sh 0 (length t) = OutOfFuel /\
    is_ok (TextDeTape.deser_tape decode parse_f64 fo sh t) = true.
Proof.
  exists (fun raw => Utf8.Borrowed (filter (fun b => (b <? 256)%N) raw)), cex_pf, cex_fo, cex_shape, cex_input, cex_tape.
  split; [apply C05_tde_nonvacuous_hyp|]. repeat split; vm_compute; reflexivity.
Qed.

Theorem C05_tde_tape_old_fuel_partial : forall decode parse_f64 fo sh input,
  (forall raw, wfl (Utf8.cow_bytes (decode raw))) ->
  match TextTape.parse input with
  | Ok (t, _) => seq_extra t sh <= 4 ->
      no_crash (TextDeTape.de_root decode parse_f64 fo t (2 * length t + TextDeCommon.shape_size sh + 8) sh 0 (length t))
  | _ => True
  end.
Proof.
  intros decode parse_f64 fo sh input Hdec. destruct (TextTape.parse input) as [[t bom]| | | |] eqn:E; auto.
  intros Hs. eapply gd2_true_nocrash; [|exact I]. apply (de_root_old_fuel_ok decode parse_f64 fo sh t Hdec); [|exact Hs].
  exact (JV.proofs.TextTapeGrammarProofs.parse_tape_wf input t bom E).
Qed.
Print Assumptions C05_tde_tape_old_fuel_partial.

Theorem C05_tde_objreader : ltac:(let t := type of deser_objreader_text_ok in exact t).
Proof. exact deser_objreader_text_ok. Qed.
Print Assumptions C05_tde_objreader.

Theorem C05_tde_tape_any_wf_tape : ltac:(let t := type of de_root_range_ok in exact t).
Proof. exact de_root_range_ok. Qed.
Print Assumptions C05_tde_tape_any_wf_tape.

(* non-vacuity: `a=rgb{1 2} b={c=d}` (a Header value and a nested object) *)
Definition C05_tde_tape_input : bytes := [97;61;114;103;98;123;49;32;50;125;32;98;61;123;99;61;100;125]%N.
Example C05_tde_tape_nonvacuous :
  exists t, TextTape.parse C05_tde_tape_input = Ok (t, false) /\ has_header t = true /\
    TextDeTape.deser_tape C05_dec (fun _ => Err 1%N) C05_fo (ShMap ShAny) t
    = Ok (DMap [([97]%N, DSeq [DStr [49]%N; DStr [50]%N]); ([98]%N, DAMap [(DStr [99]%N, DStr [100]%N)])]) /\
    seq_extra t (ShMap ShAny) = 0.
Proof. eexists. split; [vm_compute; reflexivity|]. repeat split; vm_compute; reflexivity. Qed.
