(* C05 -- the two TAPE deserializer walks never crash and terminate with the entry point's own fuel.
   Statements only (proofs: proofs/NoCrashTapeWalks{Defs,Inv,Bin,Text}.v).

   BINARY  (BinDeTape.deser_tape = BinaryTape::from_slice, then BinaryDeserializer over the tape:
            SerdeShape.walk over BinDeTape.ops_tape with fuel BinDeCommon.deser_fuel)
     C05_bde_tape_never_crashes         every byte string (bytes < 256), every shape, every configuration
                                        with cfg_ok: Ok / Err, or the model-only ShProp marker Panic 9001
     C05_bde_tape_never_crashes_noprop  shapes without prop(..): Ok / Err only -- none of the `tokens[i]`
                                        sites 9201..9206 (9206 = the release-only unchecked
                                        `tokens[value_ind]` of BinaryMap::next_key_seed), no OOB, no OutOfFuel
     C05_bde_tape_on_parsed_tape        the same in the form "for every tape parse_opt returns"
     C05_bintape_parse_facts            what the walk needs from BinTape.parse beyond C06_bin's tape_wf, proved
                                        as invariants of the parser loop (optimised AND reference, fx any):
                                          payloads are real (i32 range, string bytes < 256),
                                          |tape| <= |input|,
                                          kvgood 0 tape: the key/value walk of the ROOT map never puts a
                                          scalar key on the last token.
     C05_bintape_top_level_not_pairs    the stronger reading "(i) at top level the tokens come as key/value
                                        PAIRS" is FALSE for accepted inputs: `a b c {}` parses to
                                        Mixed a b c Array End (five values).  The walk is nevertheless safe:
                                        a key position that holds a container is refused by the
                                        KeyDeserializer (error) right after `tokens[key+1]`, which exists
                                        because the container has an End token -- this is what kvgood says.
     C05_bde_tape_any_wf_tape           the walk theorem for ANY tape with tape_wf + payloads + kvgood, fuel
                                        len + shape_size + 2
     C05_bde_tape_walk_eq_ops2          the proof device: the walk over ops_tape equals the walk over ops2
                                        (a refused key parks the cursor; next_element on the root cursor
                                        answers None), to which C05_walk_generic applies
   TEXT: see the second half of this file. *)
From JV.proofs Require Import SwarLanes NoCrashWalk NoCrashBinDe BinDeSpecProofs NoCrashTapeWalksDefs NoCrashTapeWalksInv NoCrashTapeWalksBin.
From JV Require Import Bytes Tables BinPrim BinTape BinTapeWf SerdeShape BinDeCommon BinDeTape.
From JV.Props Require Import C05_walks.
Open Scope nat_scope.

(* ------------------------------------------------------------------ binary tape path *)
Theorem C05_bde_tape_never_crashes : forall cfg sh d, cfg_ok cfg -> wfl d ->
  no_crash_but_prop (deser_tape cfg sh d).
Proof. intros cfg sh d Hc Hd. apply gd2_false_elim. apply (deser_tape_ok cfg Hc false sh d Hd). discriminate. Qed.
Print Assumptions C05_bde_tape_never_crashes.

Theorem C05_bde_tape_never_crashes_noprop : forall cfg sh d, cfg_ok cfg -> wfl d -> noprop sh = true ->
  no_crash (deser_tape cfg sh d).
Proof. intros cfg sh d Hc Hd Hs. apply gd2_true_elim. apply (deser_tape_ok cfg Hc true sh d Hd). intros _. exact Hs. Qed.
Print Assumptions C05_bde_tape_never_crashes_noprop.

Theorem C05_bde_tape_on_parsed_tape : forall cfg sh d, cfg_ok cfg -> wfl d -> noprop sh = true ->
  match parse_opt d with
  | Ok t => no_crash (deser_tokens cfg t (deser_fuel sh d) sh)
  | _ => True
  end.
Proof.
  intros cfg sh d Hc Hd Hs. pose proof (C05_bde_tape_never_crashes_noprop cfg sh d Hc Hd Hs) as H.
  unfold deser_tape in H. destruct (parse_opt d); auto.
Qed.
Print Assumptions C05_bde_tape_on_parsed_tape.

Theorem C05_bintape_parse_facts : forall fx opt d t, wfl d -> parse fx opt d = Ok t ->
  Forall NoCrashTapeWalksDefs.tok_ok t /\ length t <= length d /\ kvgood 0 t.
Proof. exact parse_tape_facts_gen. Qed.
Print Assumptions C05_bintape_parse_facts.

Definition C05_not_pairs_input : bytes := [130;45; 130;45; 130;45; 3;0; 4;0]%N.
Theorem C05_bintape_top_level_not_pairs :
  wfl C05_not_pairs_input /\
  parse_opt C05_not_pairs_input = Ok [TMixed; TToken 11650; TToken 11650; TToken 11650; TArray 5; TEnd 4] /\
  parse_ref C05_not_pairs_input = Ok [TMixed; TToken 11650; TToken 11650; TToken 11650; TArray 5; TEnd 4] /\
  kvgood 0 [TMixed; TToken 11650; TToken 11650; TToken 11650; TArray 5; TEnd 4].
Proof.
  split; [repeat constructor|]. split; [vm_compute; reflexivity|]. split; [vm_compute; reflexivity|].
  exact parse_not_pairs_kvgood.
Qed.

Theorem C05_bde_tape_any_wf_tape : ltac:(let t := type of deser_tokens_total in exact t).
Proof. exact deser_tokens_total. Qed.
Print Assumptions C05_bde_tape_any_wf_tape.

Theorem C05_bde_tape_walk_eq_ops2 : ltac:(let t := type of walk_root_eq in exact t).
Proof. exact walk_root_eq. Qed.
Print Assumptions C05_bde_tape_walk_eq_ops2.

(* non-vacuity: a value, an error after a misaligned top level, the empty input; with the eu4-free
   configuration cfg0 of C05_walks (resolver knows 0x1234) *)
Example C05_bde_tape_nonvacuous :
  cfg_ok cfg0 /\
  deser_tape cfg0 (ShMap ShAny) C05_prop_input = Ok (DMap [([120]%N, DI 1)]) /\
  deser_tape cfg0 (ShMap ShIgn) C05_not_pairs_input = Err EC_DE /\
  deser_tape cfg0 (ShMap ShAny) [] = Ok (DMap []) /\
  deser_tape cfg0 (ShMap ShAny) [130;45]%N = Err EC_EOF.
Proof.
  split; [apply C05_bde_prop_is_model_artefact|]. repeat split; vm_compute; reflexivity.
Qed.
