(* C16, wave 5 (gap G3 of audit/C16.md): the CONTENT of array nodes.  InnerSerArray
   (src/json/mod.rs:685-740) walks ValuesIter with a sliding window of three readers; the model of
   that loop is Json.ser_window.  Here it is proved equal to a declarative reading of the item list
   (JsonDoc.win_read / the relation win_reading below): markers disappear, `k op v` becomes ONE
   single-entry object {k: v} (or {k: {OP: v}} for an operator other than `=`), every other item is
   carried as itself; in order, nothing lost, nothing invented; every element is serialized with
   the options of the node.  Holds for every tape_wf tape (hence every parsed tape), every
   decoder, both profiles, all three duplicate-key modes and all three narrowing modes ([o] is
   arbitrary).  Statements only. *)
From JV Require Import Bytes Tables Scalar TextTok TextTape TapeWf Dom Json JsonDoc.
From JV.proofs Require Import DomProofs JsonProofs TextTapeGrammarProofs JsonDocProofs.
Open Scope nat_scope.

(* the window loop IS the reading: same elements, same order (and the same outcome when a value
   fails), for any item list inside the tape and ANY serializer [rec] of the values *)
Theorem C16_window_is_reading : forall dec t rec l, Forall (fun a => a < length t) l ->
  ser_window dec t rec l = omapM (elem_tree dec t rec) (win_read t l).
Proof. exact ser_window_spec. Qed.
Print Assumptions C16_window_is_reading.

(* what "the reading" is, declaratively: [win_reading t l es] is derivable by exactly these rules
     []                                         reads as  []
     marker :: rest                             reads as  (reading of rest)
     a :: ob :: v :: rest,  t[ob] an operator   reads as  Triple a ob op v :: (reading of rest)
     a :: rest              otherwise           reads as  Plain a :: (reading of rest)
   and [win_read] computes the one and only reading *)
Theorem C16_window_reading_unique : forall t l,
  win_reading t l (win_read t l) /\ (forall es, win_reading t l es -> es = win_read t l).
Proof. intros t l. split; [apply win_read_reading | apply win_reading_fun]. Qed.
Print Assumptions C16_window_reading_unique.

(* nothing lost, nothing invented, in order: concatenating the items each element stands for
   (Plain v: [v]; Triple k ob v: [k; ob; v]) gives back the item list with only marker items deleted *)
Theorem C16_window_covers : forall t l, minus_markers t (flat_map welem_items (win_read t l)) l.
Proof. exact win_read_covers. Qed.
Print Assumptions C16_window_covers.

(* ArrayReader::json() on every array reader over a Dyck range of a well-formed tape: the JSON is
   the array of the elements of the reading of the node's items (= what values() yields, C17),
   one JSON value per element, each built by [elem_tree] from ser_value WITH THE NODE'S OPTIONS [o]
   (a change that builds the value of a triple with default options breaks this equation);
   KeyValuePairs wraps the array in {"type":"array","val":..} *)
Theorem C16_json_array_content : forall dec dbg o t r, tape_wf t -> arr_ok t r ->
  let rec := ser_value dec dbg o t (ser_fuel t) in
  exists l js,
    items t (a_start r) (a_end r) l /\ values_all t r = Ok l /\
    omapM (elem_tree dec t rec) (win_read t l) = Ok js /\ length js = length (win_read t l) /\
    json_array dec dbg o t r = Ok (array_wrap (duplicate_keys o) js).
Proof. exact json_array_content. Qed.
Print Assumptions C16_json_array_content.

(* the same for the "remainder" of a mixed object, in all three duplicate-key modes: it is absent
   when the array part is empty, else the array of the elements of the reading of the tokens
   after the MixedContainer marker *)
Theorem C16_remainder_content : forall dec dbg o t r l last, tape_wf t -> obj_node t r ->
  fields_all dbg t r = Ok (l, last) ->
  let rec := ser_value dec dbg o t (ser_fuel t) in
  let tr := tail_reader last (o_end r) in
  exists vs js,
    items t (a_start tr) (a_end tr) vs /\
    omapM (elem_tree dec t rec) (win_read t vs) = Ok js /\ length js = length (win_read t vs) /\
    ser_remainder dec t rec last (o_end r) = Ok (if Nat.eqb (length vs) 0 then None else Some (JArr js)).
Proof. exact remainder_content. Qed.
Print Assumptions C16_remainder_content.

(* a plain element is exactly what ValueReader::json().with_options(o) gives for that item *)
Theorem C16_element_is_value_entry : forall dec dbg o t v, tape_wf t -> v < length t ->
  ser_value dec dbg o t (ser_fuel t) v = json_value dec dbg o t v.
Proof. exact elem_value_entry. Qed.
Print Assumptions C16_element_is_value_entry.

(* every parsed tape, every container / header token read as an array *)
Theorem C16_parsed_array_content : forall input t bom dec dbg o v k,
  parse input = Ok (t, bom) -> TapeWf.tget t v = Some k ->
  is_container k = true \/ (exists s, k = THeader s) ->
  let rec := ser_value dec dbg o t (ser_fuel t) in
  exists r l js,
    read_array t v = Ok r /\ values_all t r = Ok l /\
    omapM (elem_tree dec t rec) (win_read t l) = Ok js /\ length js = length (win_read t l) /\
    json_array dec dbg o t r = Ok (array_wrap (duplicate_keys o) js).
Proof.
  intros input t bom dec dbg o v k E Hk Hc rec. pose proof (parse_tape_wf _ _ _ E) as W.
  pose proof (read_array_ok t v k W Hk) as R.
  assert (R' : exists r, read_array t v = Ok r /\ arr_ok t r).
  { destruct Hc as [Hc|(s & ->)]; [|exact R]. destruct k; cbn in Hc; try discriminate; exact R. }
  destruct R' as (r & Er & Ar).
  destruct (json_array_content dec dbg o t r W Ar) as (l & js & _ & VA & OM & LN & JA).
  exists r, l, js. auto.
Qed.
Print Assumptions C16_parsed_array_content.

(* non-vacuity and a worked instance:  m = { a=1 10 c<2 = d }  (marker, a triple with `<`, a plain
   value, and a dangling `= d` whose operator is carried as null).  Under TypeNarrowing::None the
   value of the triple is the STRING "2": the node's options reach the triple. *)
Definition ex_arr_tape : ttape :=
  [TUnquoted [109]; TObject 11 true; TUnquoted [97]; TUnquoted [49]; TMixedContainer; TUnquoted [49; 48];
   TUnquoted [99]; TOperator LessThan; TUnquoted [50]; TOperator Equal; TUnquoted [100]; TEnd 1]%N.

Example C16_array_nonvacuous :
  tape_wf ex_arr_tape /\ arr_ok ex_arr_tape (mk_areader 4 11) /\
  win_read ex_arr_tape [4; 5; 6; 7; 8; 9; 10] = [WPlain 5; WTriple 6 7 LessThan 8; WPlain 9; WPlain 10] /\
  json_array (fun x => x) false (mk_options false Group NarrowNone) ex_arr_tape (mk_areader 4 11) =
  Ok (JArr [JStr [49; 48]; JObj [([99], JObj [(op_name LessThan, JStr [50])])]; JNull; JStr [100]])%N.
Proof.
  split; [apply tape_wfb_sound; vm_compute; reflexivity|].
  split; [|split; vm_compute; reflexivity].
  split; [|cbn; lia]. apply (dyckb_sound 20). vm_compute. reflexivity.
Qed.
