(* C06 — placeholder until the well-formedness theorems are pinned. *)
From JV Require Import Bytes Tables TextTok TextTape.
