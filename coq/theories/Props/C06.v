(* C06 placeholder until the proofs land *)
From JV Require Import Bytes Tables BinPrim BinTape BinTapeWf.
Theorem C06_bin_checker_example : tape_wfb [TToken 1; TArray 3; TI32 5%Z; TEnd 1] = true.
Proof. reflexivity. Qed.
