(* C06 — every successfully parsed tape is structurally sound.  TEXT HALF (theorem names
   prefixed C06_text_); the binary half is appended below by the binary-tape family.
   Statements only; every proof is [exact lemma].

   tape_wf (TextTapeWf.v) :=
     links_fwd  : every Array{end=e}/Object{end=e} at i has i < e < |t| and t[e] = End i
     links_back : every End j at e has t[j] a container whose end is e
     nest_ok t 0 [] = true : the open/close structure is a Dyck word — defined by the recursive
                  stack checker [nest_ok] (containers push their index, End j must find j on top)
     no_zero    : no container has end = 0, no End has index 0.
   tape_wfb is the executable checker (the one the harness-side oracle mirrors). *)
From JV Require Import Bytes Tables TextTok TextTape TextTapeWf.
From JV.proofs Require Import TextTapeWfProofs TextTapeInvProofs TextTapeScalarProofs.
Open Scope nat_scope.

(* ALL byte strings: stray `}`, missing `}`, mixed containers, `{}` ghosts, parameters, headers *)
Theorem C06_text_parse_wf : forall input t bom, parse input = Ok (t, bom) -> tape_wf t.
Proof. exact parse_wf. Qed.
Print Assumptions C06_text_parse_wf.

(* the text-tape part of C05: no index / len-k / insert / split_at panic site of the model is
   reachable, and the loop terminates within the fuel 2*|input|+8 the model is run with
   (measure: 2*|data| + 1 in KeyValueSeparator/ParseOpen, strictly decreasing) *)
Theorem C06_text_no_crash : forall input,
  match parse input with Panic _ | OOB _ | OutOfFuel => False | _ => True end.
Proof. exact parse_no_crash. Qed.
Print Assumptions C06_text_no_crash.

(* the loop invariant itself (DESIGN.md A.1, I1-I4), arm by arm *)
Theorem C06_text_step_invariant : forall s, Inv s ->
  match step s with
  | Next s' => Inv s' /\ mu s' < mu s
  | Done t => tape_wf t
  | Fail _ => True
  | Crash _ => False
  end.
Proof.
  intros s H. pose proof (step_post s H) as P.
  destruct (step s); cbn [post] in P; auto. apply closed_tape_wf. exact P.
Qed.
Print Assumptions C06_text_step_invariant.

(* the boolean checker decides tape_wf *)
Theorem C06_text_wfb_spec : forall t, tape_wfb t = true <-> tape_wf t.
Proof. exact tape_wfb_spec. Qed.
Print Assumptions C06_text_wfb_spec.

(* the recursive stack checker (with the link conditions) and the inductive grammar [closed]
   define the same tapes *)
Theorem C06_text_grammar_iff_wf : forall t, tape_wf t <-> closed 0 t.
Proof. exact tape_wf_iff_closed. Qed.
Print Assumptions C06_text_grammar_iff_wf.

Theorem C06_text_parse_grammar : forall input t bom, parse input = Ok (t, bom) -> closed 0 t.
Proof. exact parse_closed. Qed.
Print Assumptions C06_text_parse_grammar.

(* every scalar token (Unquoted, Quoted, Parameter, UndefinedParameter, Header) is a slice
   input[a .. a+|s|) of the input, and the start offsets a are strictly increasing in tape order
   ([scalars input lo t hi], TextTapeWf.v; a quoted scalar's slice is its content without the
   quotes).  The model's scanners are the real ones: the offsets are reconstructed from the
   suffix structure of the data (every scanner returns a suffix and consumes >= 1 byte). *)
Theorem C06_text_scalars_in_input : forall input t bom,
  parse input = Ok (t, bom) -> scalars_in_input input t.
Proof. exact parse_scalars. Qed.
Print Assumptions C06_text_scalars_in_input.

(* the whole text half in one statement *)
Theorem C06_text_parse_sound : forall input t bom,
  parse input = Ok (t, bom) -> tape_wf t /\ scalars_in_input input t.
Proof. intros input t bom H. split; [exact (parse_wf _ _ _ H)|exact (parse_scalars _ _ _ H)]. Qed.
Print Assumptions C06_text_parse_sound.

(* non-vacuity: `a={b=c {} d<e} f={g=h` is accepted (mixed container, ghost, missing closer) with
   containers on the tape; and the checker does reject broken tapes *)
Example C06_text_nonvacuous :
  exists t, parse [97;61;123;98;61;99;32;123;125;32;100;60;101;125;32;102;61;123;103;61;104]%N = Ok (t, false)
            /\ existsb (fun x => match x with TArray _ _ | TObject _ _ => true | _ => false end) t = true
            /\ tape_wfb t = true.
Proof. eexists. split; [vm_compute; reflexivity|]. split; vm_compute; reflexivity. Qed.

Example C06_text_checker_rejects :
  tape_wfb [TUnquoted []; TArray 3 false; TEnd 1] = false /\
  tape_wfb [TUnquoted []; TArray 2 false; TEnd 0] = false /\
  tape_wfb [TUnquoted []; TArray 3 false; TObject 2 false; TEnd 1; TEnd 2] = false /\
  tape_wfb [TArray 1 false; TEnd 0] = false.
Proof. repeat split; vm_compute; reflexivity. Qed.

Example C06_text_scalars_rejects :
  ~ scalars_in_input [97; 98]%N [TUnquoted [98]%N; TUnquoted [97]%N].
Proof. exact scalars_rejects_swapped. Qed.
