(* C11 — Scalar numeric and boolean conversions are exact or refuse.
   Statements only; every proof is [exact lemma].
   Vocabulary (proofs/ScalarProofs.v): all_digits ds = every byte is '0'..'9';
   dec_acc ds a = decimal value of ds read left to right on top of accumulator a; dec ds = dec_acc ds 0;
   lead_val c = c - '0' for a digit, 0 for a sign byte; render_dec v = canonical decimal rendering. *)
From Coq Require Import Reals.
From Flocq Require Import Core.Core IEEE754.BinarySingleNaN IEEE754.Binary IEEE754.Bits.
From JV Require Import Bytes Tables Scalar ScalarF64.
From JV.proofs Require Import ScalarProofs ScalarF64Proofs.
Open Scope N_scope.

(* to_u64 converts exactly the strings (digit | '+') digit*, to the decimal value of the digits, when that is < 2^64.
   The quirk "+" -> 0 is inside the statement (ds may be empty after '+'). *)
Theorem C11_to_u64_ok : forall d v,
  to_u64 d = Ok v <->
  exists c ds, d = c :: ds /\ (is_digit c = true \/ c = 43) /\ all_digits ds = true /\
               v = dec_acc ds (lead_val c) /\ v < U64_LIM.
Proof. exact to_u64_ok. Qed.
Print Assumptions C11_to_u64_ok.

(* every digit string (leading zeros included) with value <= u64::MAX converts to its value, with or without '+' *)
Theorem C11_to_u64_complete : forall ds,
  all_digits ds = true -> dec ds < U64_LIM ->
  (ds <> [] -> to_u64 ds = Ok (dec ds)) /\ to_u64 (43 :: ds) = Ok (dec ds).
Proof. exact to_u64_complete. Qed.
Print Assumptions C11_to_u64_complete.

(* ... and every value of 0..=u64::MAX has such renderings: [+] 0^n dec(v) *)
Theorem C11_to_u64_renderings : forall v n,
  v < U64_LIM ->
  to_u64 (repeat 48 n ++ render_dec v) = Ok v /\ to_u64 (43 :: repeat 48 n ++ render_dec v) = Ok v.
Proof. exact to_u64_renderings. Qed.
Print Assumptions C11_to_u64_renderings.

(* a well-shaped string whose value does not fit is refused (as Overflow) *)
Theorem C11_to_u64_overflow : forall c ds,
  (is_digit c = true \/ c = 43) -> all_digits ds = true -> U64_LIM <= dec_acc ds (lead_val c) ->
  to_u64 (c :: ds) = Err E_Overflow.
Proof. exact to_u64_overflow. Qed.
Print Assumptions C11_to_u64_overflow.

(* to_i64: (digit | '+' | '-') digit*, magnitude <= 2^63-1, sign applied.  "-" and "+" alone give 0. *)
Theorem C11_to_i64_ok : forall d z,
  to_i64 d = Ok z <->
  exists c ds, d = c :: ds /\ (is_digit c = true \/ c = 43 \/ c = 45) /\ all_digits ds = true /\
               dec_acc ds (lead_val c) <= I64_MAX /\
               z = (if (c =? 45)%N then - Z.of_N (dec_acc ds (lead_val c)) else Z.of_N (dec_acc ds (lead_val c)))%Z.
Proof. exact to_i64_ok. Qed.
Print Assumptions C11_to_i64_ok.

(* accepted values lie in -(2^63-1) ..= 2^63-1: i64::MIN itself is refused (see to_i64_min_refused) *)
Theorem C11_to_i64_range : forall d z, to_i64 d = Ok z -> (- Z.of_N I64_MAX <= z <= Z.of_N I64_MAX)%Z.
Proof. exact to_i64_range. Qed.
Print Assumptions C11_to_i64_range.

Theorem C11_to_i64_min_refused :
  to_i64 [45; 57; 50; 50; 51; 51; 55; 50; 48; 51; 54; 56; 53; 52; 55; 55; 53; 56; 48; 56] = Err E_Overflow.
Proof. exact to_i64_min_refused. Qed.

Theorem C11_to_i64_complete : forall ds,
  all_digits ds = true -> dec ds <= I64_MAX ->
  (ds <> [] -> to_i64 ds = Ok (Z.of_N (dec ds))) /\
  to_i64 (43 :: ds) = Ok (Z.of_N (dec ds)) /\
  to_i64 (45 :: ds) = Ok (- Z.of_N (dec ds))%Z.
Proof. exact to_i64_complete. Qed.
Print Assumptions C11_to_i64_complete.

Theorem C11_to_i64_renderings : forall v n,
  v <= I64_MAX ->
  to_i64 (repeat 48 n ++ render_dec v) = Ok (Z.of_N v) /\
  to_i64 (43 :: repeat 48 n ++ render_dec v) = Ok (Z.of_N v) /\
  to_i64 (45 :: repeat 48 n ++ render_dec v) = Ok (- Z.of_N v)%Z.
Proof. exact to_i64_renderings. Qed.
Print Assumptions C11_to_i64_renderings.

(* any foreign byte (anything but a digit, or a sign in first position) makes the conversion refuse *)
Theorem C11_to_u64_foreign_refused : forall d v,
  to_u64 d = Ok v -> forall i x, nth_error d i = Some x -> is_digit x = true \/ (i = 0%nat /\ x = 43).
Proof. exact to_u64_foreign_refused. Qed.
Print Assumptions C11_to_u64_foreign_refused.

Theorem C11_to_i64_foreign_refused : forall d z,
  to_i64 d = Ok z -> forall i x, nth_error d i = Some x -> is_digit x = true \/ (i = 0%nat /\ (x = 43 \/ x = 45)).
Proof. exact to_i64_foreign_refused. Qed.
Print Assumptions C11_to_i64_foreign_refused.

(* to_bool accepts exactly "yes" and "no" *)
Theorem C11_to_bool_exact : forall d b,
  to_bool d = Ok b <-> (d = [121; 101; 115] /\ b = true) \/ (d = [110; 111] /\ b = false).
Proof. exact to_bool_exact. Qed.
Print Assumptions C11_to_bool_exact.

(* ---------------------------------------------------------------------------------------------
   to_f64 (model over Flocq binary64).  sgn neg = "-" or "", lead_ok c = c is a digit or '+',
   f64_shape d = d is one of   [-](digit|+)digit*   |   [-](digit|+)digit* . digit+   |   [-]. digit+
   (quirks inside the language, on purpose: "+" -> 0, "-+5" -> -5, "-0" -> +0.0, "-.0" -> -0.0).
   --------------------------------------------------------------------------------------------- *)

(* accepted language: only sign, digits and at most one '.' (with at least one digit after it) *)
Theorem C11_to_f64_lang : forall d r, to_f64 d = Ok r -> f64_shape d.
Proof. exact to_f64_lang. Qed.
Print Assumptions C11_to_f64_lang.

Theorem C11_to_f64_foreign_refused : forall d r,
  to_f64 d = Ok r -> forall x, In x d -> is_digit x = true \/ x = 43 \/ x = 45 \/ x = 46.
Proof. exact to_f64_foreign_refused. Qed.

(* what each shape evaluates to (so the language is exact: shape + range conditions <-> Ok) *)
Theorem C11_to_f64_int : forall neg c ds,
  lead_ok c -> all_digits ds = true ->
  to_f64 (sgn neg ++ c :: ds) =
  if dec_acc ds (lead_val c) <? U64_LIM then int_result neg (dec_acc ds (lead_val c)) else Err E_Overflow.
Proof. exact to_f64_int. Qed.

Theorem C11_to_f64_frac : forall neg c ds fs,
  lead_ok c -> all_digits ds = true -> all_digits fs = true -> fs <> [] ->
  to_f64 (sgn neg ++ c :: ds ++ 46 :: fs) =
  if dec_acc fs (dec_acc ds (lead_val c)) <? U64_LIM then
    if (length fs <? 23)%nat then Ok (frac_value neg (dec_acc fs (dec_acc ds (lead_val c))) (N.of_nat (length fs)))
    else Err E_Overflow
  else Err E_Overflow.
Proof. exact to_f64_frac. Qed.

Theorem C11_to_f64_dot : forall neg fs,
  all_digits fs = true -> fs <> [] ->
  to_f64 (sgn neg ++ 46 :: fs) =
  if dec fs <? U64_LIM then
    if (length fs <? 23)%nat then Ok (frac_value neg (dec fs) (N.of_nat (length fs))) else Err E_Overflow
  else Err E_Overflow.
Proof. exact to_f64_dot. Qed.

(* integer guard: without '.', Ok iff |v| <= 2^53-1, and then the double IS v (exactly, finite) *)
Theorem C11_to_f64_int_guard : forall (neg : bool) c ds r,
  lead_ok c -> all_digits ds = true ->
  let lead := dec_acc ds (lead_val c) in
  let v := (if neg then - Z.of_N lead else Z.of_N lead)%Z in
  (to_f64 (sgn neg ++ c :: ds) = Ok r <-> (lead <= f64_int_guard /\ r = f64_of_Z v)) /\
  (lead <= f64_int_guard -> B2R 53 1024 (f64_of_Z v) = IZR v /\ is_finite 53 1024 (f64_of_Z v) = true).
Proof. exact to_f64_int_guard. Qed.
Print Assumptions C11_to_f64_int_guard.

(* never NaN, never infinite *)
Theorem C11_to_f64_finite : forall d r, to_f64 d = Ok r -> is_finite 53 1024 r = true.
Proof. exact to_f64_finite. Qed.
Print Assumptions C11_to_f64_finite.

(* correct rounding (round-to-nearest-even of the exact decimal value +-i / 10^k) whenever the digits taken
   as an integer are below 2^53 and there are at most 22 fractional digits *)
Theorem C11_to_f64_correctly_rounded : forall neg c ds fs,
  lead_ok c -> all_digits ds = true -> all_digits fs = true -> fs <> [] ->
  let i := dec_acc fs (dec_acc ds (lead_val c)) in
  i < 2 ^ 53 -> (length fs <= 22)%nat ->
  exists r, to_f64 (sgn neg ++ c :: ds ++ 46 :: fs) = Ok r /\ is_finite 53 1024 r = true /\
            B2R 53 1024 r = round radix2 (FLT_exp (3 - 1024 - 53) 53) (round_mode mode_NE)
                              ((if neg then -1 else 1) * IZR (Z.of_N i) / IZR (10 ^ Z.of_nat (length fs)))%R.
Proof. exact to_f64_correctly_rounded. Qed.
Print Assumptions C11_to_f64_correctly_rounded.

Theorem C11_to_f64_dot_correctly_rounded : forall neg fs,
  all_digits fs = true -> fs <> [] -> dec fs < 2 ^ 53 -> (length fs <= 22)%nat ->
  exists r, to_f64 (sgn neg ++ 46 :: fs) = Ok r /\ is_finite 53 1024 r = true /\
            B2R 53 1024 r = round radix2 (FLT_exp (3 - 1024 - 53) 53) (round_mode mode_NE)
                              ((if neg then -1 else 1) * IZR (Z.of_N (dec fs)) / IZR (10 ^ Z.of_nat (length fs)))%R.
Proof. exact to_f64_dot_correctly_rounded. Qed.

(* for digit integers >= 2^53 the value is sign * RNE(RNE(i) / 10^k): two roundings (<= 2 ulp; the ulp bound
   itself is proved in Props/C11_ulp.v (C11_to_f64_2ulp)) *)
Theorem C11_to_f64_two_roundings_partial : forall neg i k,
  i < U64_LIM -> k <= 22 ->
  is_finite 53 1024 (frac_value neg i k) = true /\
  B2R 53 1024 (frac_value neg i k) =
    ((if neg then -1 else 1) *
     round radix2 (FLT_exp (3 - 1024 - 53) 53) (round_mode mode_NE)
       (round radix2 (FLT_exp (3 - 1024 - 53) 53) (round_mode mode_NE) (IZR (Z.of_N i)) / IZR (10 ^ Z.of_N k)))%R.
Proof. exact frac_value_spec. Qed.

(* non-vacuity *)
Example C11_nonvacuous_u64 : to_u64 [43] = Ok 0 /\ to_u64 [48; 48; 52; 50] = Ok 42 /\ all_digits [52; 50] = true /\ dec [52; 50] < U64_LIM.
Proof. repeat split; reflexivity. Qed.
Example C11_nonvacuous_i64 : to_i64 [45; 53] = Ok (-5)%Z /\ to_i64 [45] = Ok 0%Z.
Proof. split; reflexivity. Qed.
Example C11_nonvacuous_f64 :
  lead_ok 53 /\ all_digits [] = true /\ all_digits [54; 55] = true /\ dec_acc [54; 55] (dec_acc [] (lead_val 53)) < 2 ^ 53 /\
  to_f64_bits (sgn true ++ 53 :: [] ++ 46 :: [54; 55]) = Ok 13841441907753961390%Z.
Proof. split; [now left|]. repeat split; vm_compute; reflexivity. Qed.
