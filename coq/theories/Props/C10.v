(* C10 — Text and binary renderings of one document deserialize to the same value.
   Statements only.  Pinned: on the shared scalars the two formats give the same value for the same
   target — the number a text scalar denotes (Scalar.to_u64) stored in ANY integer token that can hold
   it, yes/no vs. BOOL, a string whose decoded bytes agree — for every target width, text encoding and
   flavor decode function; and a struct target is a function of the per-field value sequences only
   (so the same struct definition serves both formats once the field values agree).
   The binary container walks and their independence of the encoding choices: Props/C10_walk.v (binary
   half); the text walks: Props/C02_walk.v.
   NOT proved: the link between the text and the binary specification on a common document, and the
   date / rgb / float clauses (Date: C13 proves parse(fmt x) = from_binary(to_binary x); rgb and floats
   are carried by the oracle stream of props/C10.py). *)
From JV Require Import Bytes Scalar Derive Serde.
From JV.proofs Require Import DeriveProofs SerdeProofs.
Open Scope N_scope.

Theorem C10_unsigned_agree_partial : forall (decode dec2 : bytes -> bytes) bits raw n t,
  to_u64 raw = Ok n ->
  (t = BU32 n \/ t = BU64 n \/ t = BI32 (Z.of_N n) \/ t = BI64 (Z.of_N n)) ->
  bin_scalar dec2 (SU bits) t = text_scalar decode (SU bits) raw.
Proof. exact text_bin_unsigned_agree. Qed.
Print Assumptions C10_unsigned_agree_partial.

Theorem C10_bool_agree_partial : forall (decode dec2 : bytes -> bytes) raw b,
  to_bool raw = Ok b -> bin_scalar dec2 SBool (BBool b) = text_scalar decode SBool raw.
Proof. exact text_bin_bool_agree. Qed.
Print Assumptions C10_bool_agree_partial.

Theorem C10_string_agree_partial : forall (decode dec2 : bytes -> bytes) raw s,
  dec2 s = decode raw -> bin_scalar dec2 SStr (BStr s) = text_scalar decode SStr raw.
Proof. exact text_bin_str_agree. Qed.
Print Assumptions C10_string_agree_partial.

Theorem C10_struct_depends_on_field_values_only_partial : forall specs kvs kvs',
  values_ok value specs kvs -> (forall i, occ value specs i kvs = occ value specs i kvs') ->
  spec_struct specs kvs = spec_struct specs kvs'.
Proof. exact struct_order_independent. Qed.
Print Assumptions C10_struct_depends_on_field_values_only_partial.

Example C10_nonvacuous : to_u64 [49; 50] = Ok 12 /\ bin_scalar (fun x => x) (SU 8) (BI32 12) = text_scalar (fun x => x) (SU 8) [49; 50].
Proof. split; vm_compute; reflexivity. Qed.
