(* C05 -- entry point TextWriter::write_tape run on a tape produced by the text parser.
   Statements only (proofs: proofs/NoCrashWriteTape.v; side condition: WriteTapeSide.v).

   FULL STATEMENT (not proved):
     forall input t bom c, TextTape.parse input = Ok (t, bom) ->
       exists w out, Writer.write_tape (Writer.tape_fuel t) c t = WOk w out.

   PROVED (..._partial): the same with one extra executable hypothesis,
     WriteTapeSide.no_param_valuesb t = true:
       no field value of the top-level object or of any Object container, and no item of any Array
       container, is a Parameter / UndefinedParameter token.
   Under it, on every parsed tape (indeed on every TapeWf.tape_wf tape), for every configuration
   (indent, debug profile), with the fuel Writer.tape_fuel, write_tape returns WOk: none of the
   crash outcomes of Writer.wt -- site 10 (tokens[idx] out of bounds), 11 (unreachable!() in
   write_value), 12 (unwrap of the header's array view), 13 (debug_assert in FieldsIter::next),
   the crash of next_idx, fuel exhaustion -- is reachable, and (C14) it is never Err.

   WHAT IS MISSING for the full statement: that the parser never puts a parameter token in value
   position.  write_value really panics there (C05_write_tape_side_condition_needed: a tape_wf
   tape on which write_tape hits unreachable!()), and tape_wf / the grammar invariant of
   TextTapeGrammar.v (gvalue, gvals: any is_key / is_leaf token) do not exclude it, although
   TextTape.parse_param only ever pushes the two parameter tokens as keys.  Until the step
   invariant is re-proved with a finer grammar, no_param_valuesb is to be run as an ORACLE on
   every real tape next to tape_wfb (both are executable): a real tape on which it is false is a
   panic of write_tape on a parsed tape, i.e. a finding. *)
From JV Require Import Bytes Tables TextTok Date TapeWf TextTape WriteTapeSide Writer.
From JV.proofs Require Import NoCrashWriteTape.
Open Scope nat_scope.

(* parsed tapes *)
Theorem C05_write_tape_parsed_nocrash_partial : forall input t bom c,
  TextTape.parse input = Ok (t, bom) -> no_param_valuesb t = true ->
  exists w out, write_tape (tape_fuel t) c t = WOk w out.
Proof. exact write_tape_parsed_nocrash_partial. Qed.
Print Assumptions C05_write_tape_parsed_nocrash_partial.

(* every well-formed tape *)
Theorem C05_write_tape_wf_nocrash_partial : forall c t,
  tape_wf t -> no_param_valuesb t = true ->
  exists w out, write_tape (tape_fuel t) c t = WOk w out.
Proof. exact write_tape_wf_nocrash_partial. Qed.
Print Assumptions C05_write_tape_wf_nocrash_partial.

(* the form the oracle uses: both hypotheses are boolean checkers run on the real tape *)
Theorem C05_write_tape_checked_nocrash_partial : forall c t,
  tape_wfb t = true -> no_param_valuesb t = true ->
  exists w out, write_tape (tape_fuel t) c t = WOk w out.
Proof. exact write_tape_checked_nocrash_partial. Qed.
Print Assumptions C05_write_tape_checked_nocrash_partial.

(* fuel: 2 * length t + 1 is enough (tape_fuel is 4 * length t + 16), and all containers are closed *)
Theorem C05_write_tape_wf_nocrash_fuel_partial : forall c t fuel,
  tape_wf t -> no_param_valuesb t = true -> 2 * length t + 1 <= fuel ->
  exists w out, write_tape fuel c t = WOk w out /\ w_depth w = [].
Proof. exact write_tape_wf_nocrash_fuel_partial. Qed.
Print Assumptions C05_write_tape_wf_nocrash_fuel_partial.

(* the side condition is not redundant: `a = <Parameter x>` is tape_wf and write_tape reaches
   unreachable!() (site 11) on it *)
Example C05_write_tape_side_condition_needed :
  let t := [TUnquoted [97%N]; TParameter [120%N]] in
  tape_wfb t = true /\ no_param_valuesb t = false /\
  write_tape (tape_fuel t) (mkcfg 32 2 false) t = WCrash true 11.
Proof. vm_compute. auto. Qed.

(* non-vacuity: the parse of
     a={b=c d={e f}} g=rgb{1 2 3} h={x y z=w} k={q=r s t} [[p] m=n ] o={[[!u] v ]} w>=3
   (nested objects, array, header, mixed array, mixed object, parameter and undefined-parameter
   blocks, a non-Equal operator) satisfies both hypotheses, holds each of those token kinds, and is
   written completely, in the debug profile *)
Definition C05_wtape_input : bytes :=
  ([97; 61; 123; 98; 61; 99; 32; 100; 61; 123; 101; 32; 102; 125; 125; 32; 103; 61; 114; 103;
     98; 123; 49; 32; 50; 32; 51; 125; 32; 104; 61; 123; 120; 32; 121; 32; 122; 61; 119; 125; 32;
     107; 61; 123; 113; 61; 114; 32; 115; 32; 116; 125; 32; 91; 91; 112; 93; 32; 109; 61; 110;
     32; 93; 32; 111; 61; 123; 91; 91; 33; 117; 93; 32; 118; 32; 93; 125; 32; 119; 62; 61; 51])%N.

Definition C05_wtape_tape : ttape :=
  Eval vm_compute in match TextTape.parse C05_wtape_input with Ok (t, _) => t | _ => [] end.

Definition C05_wtape_has (p : ttok -> bool) (t : ttape) : bool := existsb p t.

Example C05_write_tape_nonvacuous :
  exists t bom, TextTape.parse C05_wtape_input = Ok (t, bom) /\
    tape_wfb t = true /\ no_param_valuesb t = true /\
    C05_wtape_has (fun k => match k with TObject _ false => true | _ => false end) t = true /\
    C05_wtape_has (fun k => match k with TObject _ true => true | _ => false end) t = true /\
    C05_wtape_has (fun k => match k with TArray _ false => true | _ => false end) t = true /\
    C05_wtape_has (fun k => match k with TArray _ true => true | _ => false end) t = true /\
    C05_wtape_has (fun k => match k with THeader _ => true | _ => false end) t = true /\
    C05_wtape_has (fun k => match k with TMixedContainer => true | _ => false end) t = true /\
    C05_wtape_has (fun k => match k with TParameter _ => true | _ => false end) t = true /\
    C05_wtape_has (fun k => match k with TUndefinedParameter _ => true | _ => false end) t = true /\
    C05_wtape_has (fun k => match k with TOperator _ => true | _ => false end) t = true /\
    exists w out, write_tape (tape_fuel t) (mkcfg 32 2 true) t = WOk w out.
Proof.
  exists C05_wtape_tape, false. repeat split; try (vm_compute; reflexivity).
  do 2 eexists. vm_compute. reflexivity.
Qed.
