(* C05 (no crash), buffer.rs at INDEX level (wave 5, engineer w_buf).
   Statements only; model coq/theories/BufStore.v (the fixed buffer + offsets start / end /
   prior_reads; every unchecked pointer computation of src/buffer.rs is an explicit OOB / Panic
   outcome), proofs proofs/BufStoreProofs.v.
     bs_inv st := s_start st <= s_end st <= |s_buf st|           (pointer invariant)
     window st := firstn (s_end - s_start) (skipn s_start s_buf)  (what window() returns)
   Proved: the constructors establish bs_inv; every operation keeps it; window / window_len /
   fill_buf never crash from a bs_inv state, for ANY buffer contents, ANY Read schedule (short
   reads, faults) and a Read that scribbles over the unreported part of its slice; advance /
   advance_to / get crash IFF the caller violates their contract (the conditions the readers
   establish and C05_readers proves of them at window level: amt <= window_len,
   start <= p <= end, i <= j <= end); a whole op list inside the contract never crashes.
   Tied to the code by kind bs.ops / bs.rec (props/bufstore.py) in release AND debug builds (all
   debug_assert!s of buffer.rs armed). *)
From JV Require Import Bytes BufWin BufStore.
From JV.proofs Require Import BufWinProofs BufStoreProofs.
Open Scope nat_scope.

Theorem C05_store_constructors_inv : forall buf d n,
  bs_inv (bs_build buf) /\ bs_inv (bs_new n) /\ bs_inv (bs_from_slice d).
Proof. intros. split; [apply bs_build_inv|split; [apply bs_build_inv|apply bs_from_slice_inv]]. Qed.
Print Assumptions C05_store_constructors_inv.

Theorem C05_store_window_never_crashes : forall st,
  bs_inv st -> bs_window st = Ok (window st) /\ bs_window_len st = Ok (length (window st)).
Proof. intros st H. split; [apply bs_window_ok|apply bs_window_len_ok]; exact H. Qed.
Print Assumptions C05_store_window_never_crashes.

Theorem C05_store_advance_ok_iff : forall st amt,
  bs_inv st -> (is_ok (bs_advance st amt) = true <-> amt <= length (window st)).
Proof. exact bs_advance_ok_iff. Qed.
Print Assumptions C05_store_advance_ok_iff.

Theorem C05_store_advance_keeps_inv : forall st amt st',
  bs_inv st -> bs_advance st amt = Ok st' -> bs_inv st'.
Proof. exact bs_advance_keeps_inv. Qed.
Print Assumptions C05_store_advance_keeps_inv.

Theorem C05_store_advance_to_ok_iff : forall st p,
  is_ok (bs_advance_to st p) = true <-> s_start st <= p <= s_end st.
Proof. exact bs_advance_to_ok_iff. Qed.
Print Assumptions C05_store_advance_to_ok_iff.

Theorem C05_store_advance_to_keeps_inv : forall st p st',
  bs_inv st -> bs_advance_to st p = Ok st' -> bs_inv st'.
Proof. exact bs_advance_to_keeps_inv. Qed.
Print Assumptions C05_store_advance_to_keeps_inv.

Theorem C05_store_get_ok_iff : forall st i j,
  bs_inv st -> (is_ok (bs_get st i j) = true <-> i <= j <= s_end st).
Proof. exact bs_get_ok_iff. Qed.
Print Assumptions C05_store_get_ok_iff.

(* fill_buf: copy_within, buf[carry..], end.add(r) all stay inside the buffer; no hypothesis on the
   contents, the schedule or the scribbling *)
Theorem C05_store_fill_buf_never_crashes : forall st r scr,
  bs_inv st ->
  exists st', sfill_state (bs_fill_buf st r scr) = Some st' /\ bs_inv st' /\
              length (s_buf st') = length (s_buf st) /\ s_owned st' = s_owned st.
Proof. exact bs_fill_buf_safe. Qed.
Print Assumptions C05_store_fill_buf_never_crashes.

(* ... and for ANY Read that keeps the one promise of std::io::Read (it reports at most as many bytes as
   the slice it was handed): [read free] is its answer, anything but Ok is an io::Error *)
Theorem C05_store_fill_any_read_never_crashes : forall st read rfail r0 scr,
  bs_inv st ->
  (forall free bs r', read free = Ok (bs, r') -> length bs <= free) ->
  exists st', sfill_state (bs_fill_core st read rfail r0 scr) = Some st' /\ bs_inv st' /\
              length (s_buf st') = length (s_buf st) /\ s_owned st' = s_owned st.
Proof. exact bs_fill_core_safe. Qed.
Print Assumptions C05_store_fill_any_read_never_crashes.

(* the promise is needed: a Read that reports one byte more than it was handed makes end.add(r) leave the buffer *)
Example C05_store_lying_read_refuted :
  bs_fill_core (bs_build [0; 0]%N) (fun free => Ok (repeat 7%N (free + 1), mkrd [] [] 0 0)) (mkrd [] [] 0 0) (mkrd [] [] 0 0) None
  = SFillCrash 8610%N.
Proof. vm_compute. reflexivity. Qed.

Theorem C05_store_run_never_crashes : forall buf r ops,
  forallb resolved ops = true ->
  forallb (fun ob => negb (is_crash_obs ob)) (bs_run (bs_build buf) r ops) = true.
Proof. exact bs_run_safe. Qed.
Print Assumptions C05_store_run_never_crashes.

Theorem C05_store_run_slice_never_crashes : forall d r ops,
  forallb resolved ops = true ->
  forallb (fun ob => negb (is_crash_obs ob)) (bs_run (bs_from_slice d) r ops) = true.
Proof. exact bs_run_safe_slice. Qed.
Print Assumptions C05_store_run_slice_never_crashes.

(* non-vacuity: a dirty 4-byte buffer, short reads, a fault, a scribbling Read, carry-over *)
Example C05_store_run_example :
  bs_run (bs_build [125; 125; 125; 125]%N) (mkrd [1; 2; 3; 4; 5; 6]%N [Data 3; Fail; Data 2] 0 0)
         [OFill None; OAdv 2; OFill (Some 34%N); OFill None; OGet 0 1; OFill None]
  = [mkobs (EFill 3) [1; 2; 3]%N 0 0; mkobs (EAdv 2) [3]%N 2 2; mkobs EIo [3]%N 2 0;
     mkobs (EFill 2) [3; 4; 5]%N 2 0; mkobs (EGet [3]%N) [3; 4; 5]%N 2 0; mkobs (EFill 1) [3; 4; 5; 6]%N 2 0].
Proof. vm_compute. reflexivity. Qed.

(* the contract is tight: one byte past the window is a crash of the model (debug_assert! of advance) *)
Example C05_store_contract_tight :
  bs_run (bs_build [0; 0]%N) (mkrd [7]%N [] 0 0) [OFill None; ORawAdv 2] = [mkobs (EFill 1) [7]%N 0 0; crash_obs 8601%N].
Proof. vm_compute. reflexivity. Qed.
