(* C20 at the level of the WHOLE binary reader deserializer (wave 4, a_c20).  Statements only.
   Model: BinDeReader.deser_reader cfg cap sched sh d = BinaryDeserializerBuilder::deserialize_reader
   (serde walk SerdeShape.walk_root over BinDeReader.ops_rd over the streaming reader BinReader over
   BufWin with a schedule of [Data n | Fail] events).  The extracted function is run against the
   real deserializer on schedules WITH Fail events by stream `bin_de_fault_model` (kind c20.bde).

   Proved, for EVERY configuration (resolver, strategy, flavor), buffer size, schedule, target
   shape and input -- no hypothesis:
     * C20_bin_deser_reader_fault_sound: the call returns the I/O error, or exactly (value or
       error, crash classes included) what it returns over the same schedule with the failures
       removed.  In particular a fault is never turned into a shorter map / an absent Option / a
       default / another error class anywhere in the walk (key loops, value reads, sequences,
       ignored values = skip_container, the closing token of a tuple).
     * C20_bin_deser_reader_clean_id: over a schedule without failures "failures removed" is the
       identity, so the right-hand side above is the fault-free run of the same schedule.
     * C20_bin_deser_reader_fail_first: a Read that fails at its first call makes every map /
       struct target return the I/O error (base case of "persistent failures end in an error").
   Proof route: a relational (parametricity) argument over the generic walk -- FaultDeProofs.walk_root_sim:
   if every deserializer operation, run on related states, fails with EC_IO or agrees with its
   twin, so does the walk, because the walk never inspects an error -- instantiated with the
   one-call theorems of Props/C20_binreader.v.
   Not proved here: the same statement for the TEXT reader deserializer (TextDeStream.sde is
   modelled over the reader's token list, not over the byte-level reader with faults; covered by
   the fault-injection oracles of props/C20_de.py and props/C20_ops.py and, for its key loop, by
   C20_text_key_loop_fault_sound); "persistent failure at read k > 0 ends in an error" beyond the
   base case (oracle `persistent-swallowed` / `plaus-persistent-swallowed`). *)
From JV Require Import Bytes Tables BinPrim BufWin BinLexer BinReader SerdeShape BinDeCommon BinDeReader.
From JV.proofs Require Import FaultProofs FaultBinProofs FaultDeProofs.
From Coq Require Import List NArith ZArith.
Import ListNotations.
Open Scope nat_scope.

Theorem C20_bin_deser_reader_fault_sound : forall cfg capv sched sh d,
  deser_reader cfg capv sched sh d = Err EC_IO \/
  deser_reader cfg capv sched sh d = deser_reader cfg capv (clean sched) sh d.
Proof. exact deser_reader_fault_sound. Qed.
Print Assumptions C20_bin_deser_reader_fault_sound.

Theorem C20_bin_deser_reader_clean_id : forall cfg capv sched sh d,
  BinReader.no_fail sched = true ->
  deser_reader cfg capv (clean sched) sh d = deser_reader cfg capv sched sh d.
Proof. exact deser_reader_clean_id. Qed.
Print Assumptions C20_bin_deser_reader_clean_id.

Theorem C20_bin_deser_reader_fail_first : forall cfg capv tl sh d, 0 < capv ->
  (exists s, sh = ShMap s) \/ (exists tk fs, sh = ShStruct tk fs) ->
  deser_reader cfg capv (Fail :: tl) sh d = Err EC_IO.
Proof. exact deser_reader_fail_first. Qed.
Print Assumptions C20_bin_deser_reader_fail_first.

(* ---------- non-vacuity ---------- *)
(* "a"=1 "b"=2 into a map of i32, 16-byte buffer.  The first fill delivers the first pair (10
   bytes), the second read fails: the I/O error, where the fault-free run returns both entries --
   a deserializer that took the failure for the end of the data would return the one-entry map. *)
Definition exd_cfg : bcfg :=
  mkcfg (fun _ => None) SError (fun b => Ok b) (fun _ => 0%N) (fun _ => 0%N)
        (mkfops (fun x => x) (fun x => x) (fun _ => 0%N) (fun _ => 0%N)).
Definition exd_input : bytes :=
  concat (map write_token [BQuoted [97%N]; BEqual; BI32 1%Z; BQuoted [98%N]; BEqual; BI32 2%Z]).
Definition exd_shape : shape := ShMap (ShI 32%N).

Example C20_bin_ex_deser_fault :
  deser_reader exd_cfg 16 [Data 13; Fail; Data 100] exd_shape exd_input = Err EC_IO /\
  deser_reader exd_cfg 16 (clean [Data 13; Fail; Data 100]) exd_shape exd_input
    = Ok (DMap [([97%N], DI 1%Z); ([98%N], DI 2%Z)]).
Proof. split; vm_compute; reflexivity. Qed.

(* a fault that is never reached (the end of the data is found first) changes nothing; a fault on
   the read that would have found the end of the data is reported although every entry was read *)
Example C20_bin_ex_deser_unreached :
  deser_reader exd_cfg 64 [Data 100; Data 1; Fail] exd_shape exd_input
    = Ok (DMap [([97%N], DI 1%Z); ([98%N], DI 2%Z)]) /\
  deser_reader exd_cfg 64 [Data 100; Fail] exd_shape exd_input = Err EC_IO.
Proof. split; vm_compute; reflexivity. Qed.

(* an ignored container (deserialize_ignored_any -> skip_container) cut by a fault *)
Definition exi_input : bytes :=
  concat (map write_token [BQuoted [97%N]; BEqual; BOpen; BI32 1%Z; BI32 2%Z; BClose; BQuoted [98%N]; BEqual; BI32 2%Z]).
Example C20_bin_ex_deser_ignored :
  deser_reader exd_cfg 16 [Data 14; Fail; Data 100] (ShMap ShIgn) exi_input = Err EC_IO /\
  deser_reader exd_cfg 16 [Data 14; Data 100] (ShMap ShIgn) exi_input = Ok (DMap [([97%N], DIgn); ([98%N], DIgn)]).
Proof. split; vm_compute; reflexivity. Qed.
