(* C13, wave 4 (audit/C13.md): clauses of the property that Props/C13.v did not state.
   Statements only; every proof is [exact lemma].  pack y m d h = mkraw y (m*4096 + d*128 + h*4) is the
   RawDate with these components; valid_md is the 365-day calendar (tables regenerated from date.rs). *)
From JV Require Import Bytes Tables U64Swar Scalar Date DateExt.
From JV.proofs Require Import DateProofs DateProofs2 SwarLanes DecimalProofs DateParse DateFast DateFmt DateLang DateMore.
From Coq Require Import ZArith List.
Import ListNotations.
Open Scope Z_scope.

(* ---------------- constructors accept exactly their calendar (u8 arguments: 0 <= m, d, h) ---------------- *)
Theorem C13_ctor_raw_iff : forall y m d h r, 0 <= m -> 0 <= d -> 0 <= h ->
  (raw_from_ymdh_opt y m d h = Some r <-> 1 <= m <= 12 /\ 1 <= d <= 31 /\ h <= 24 /\ r = pack y m d h).
Proof. exact ctor_raw_iff. Qed.
Print Assumptions C13_ctor_raw_iff.

(* Date: days the calendar lacks (Feb 29!), month 0/13+ are refused -- Ok None, never a panic *)
Theorem C13_ctor_date_iff : forall y m d r, 0 <= m -> 0 <= d ->
  (date_from_ymd_opt y m d = Ok (Some r) <-> valid_md m d = true /\ r = pack y m d 0).
Proof. exact ctor_date_iff. Qed.
Print Assumptions C13_ctor_date_iff.

Theorem C13_ctor_date_none : forall y m d, 0 <= m -> 0 <= d -> valid_md m d = false -> date_from_ymd_opt y m d = Ok None.
Proof. exact ctor_date_none. Qed.
Print Assumptions C13_ctor_date_none.

(* DateHour: calendar day and hour 1..24 (hour 0 / 25+ refused) *)
Theorem C13_ctor_datehour_iff : forall y m d h r, 0 <= m -> 0 <= d -> 0 <= h ->
  (datehour_from_ymdh_opt y m d h = Ok (Some r) <-> valid_md m d = true /\ 1 <= h <= 24 /\ r = pack y m d h).
Proof. exact ctor_datehour_iff. Qed.
Print Assumptions C13_ctor_datehour_iff.

Theorem C13_ctor_datehour_none : forall y m d h, 0 <= m -> 0 <= d -> 0 <= h ->
  ~ (valid_md m d = true /\ 1 <= h <= 24) -> datehour_from_ymdh_opt y m d h = Ok None.
Proof. exact ctor_datehour_none. Qed.
Print Assumptions C13_ctor_datehour_none.

(* UniformDate: twelve months of thirty days -- day 30 of February exists, day 31 of January does not *)
Theorem C13_ctor_uniform_iff : forall y m d r, 0 <= m -> 0 <= d ->
  (uniform_from_ymd_opt y m d = Some r <-> 1 <= m <= 12 /\ 1 <= d <= 30 /\ r = pack y m d 0).
Proof. exact ctor_uniform_iff. Qed.
Print Assumptions C13_ctor_uniform_iff.

(* year() / month() / day() / hour() / has_hour() read the packed fields back (month<<12 | day<<7 | hour<<2) *)
Theorem C13_accessors : forall y m d h, 1 <= m <= 12 -> 1 <= d <= 31 -> 0 <= h <= 24 ->
  ry (pack y m d h) = y /\ raw_month (pack y m d h) = m /\ raw_day (pack y m d h) = d /\
  raw_hour (pack y m d h) = h /\ raw_has_hour (pack y m d h) = negb (h =? 0).
Proof. exact accessors. Qed.
Print Assumptions C13_accessors.

Example C13_ctor_nonvacuous :
  date_from_ymd_opt 2020 2 29 = Ok None /\ date_from_ymd_opt 2020 2 28 = Ok (Some (pack 2020 2 28 0)) /\
  uniform_from_ymd_opt 2020 2 30 = Some (pack 2020 2 30 0) /\ uniform_from_ymd_opt 2020 1 31 = None /\
  datehour_from_ymdh_opt 1936 1 1 0 = Ok None /\ datehour_from_ymdh_opt 1936 1 1 25 = Ok None /\
  datehour_from_ymdh_opt 1936 1 1 24 = Ok (Some (pack 1936 1 1 24)) /\
  date_from_ymd_opt 1 0 1 = Ok None /\ date_from_ymd_opt 1 13 1 = Ok None /\
  date_from_ymd (2020) 2 29 = Panic 1310.
Proof. exact ctor_examples. Qed.

(* ---------------- Ord / Eq of the four types (all derive from RawDate's) ---------------- *)
(* Ord is the lexicographic order of (year, month, day, hour), negative years included *)
Theorem C13_cmp_lex : forall y1 m1 d1 h1 y2 m2 d2 h2,
  fields_ok m1 d1 h1 -> fields_ok m2 d2 h2 ->
  raw_cmp (pack y1 m1 d1 h1) (pack y2 m2 d2 h2) = lex4 (y1, m1, d1, h1) (y2, m2, d2, h2).
Proof. exact cmp_lex. Qed.
Print Assumptions C13_cmp_lex.

(* ... consistent with the derived PartialEq/Eq (hence Hash): Equal iff identical *)
Theorem C13_cmp_eq_iff : forall a b, (raw_cmp a b = Eq <-> a = b) /\ (raw_eqb a b = true <-> a = b).
Proof. exact cmp_eq_iff. Qed.
Print Assumptions C13_cmp_eq_iff.

Theorem C13_cmp_antisym : forall a b, raw_cmp b a = CompOpp (raw_cmp a b).
Proof. exact cmp_antisym. Qed.
Print Assumptions C13_cmp_antisym.

Theorem C13_cmp_trans : forall a b c, raw_cmp a b = Lt -> raw_cmp b c = Lt -> raw_cmp a c = Lt.
Proof. exact cmp_trans. Qed.
Print Assumptions C13_cmp_trans.

(* outside the property ("years >= 1"), recorded: inside a negative year day numbers run backwards *)
Theorem C13_ord_sign_negative_refuted :
  is_date (pack (-5) 1 1 0) /\ is_date (pack (-5) 1 2 0) /\
  raw_cmp (pack (-5) 1 1 0) (pack (-5) 1 2 0) = Lt /\ days_until (pack (-5) 1 1 0) (pack (-5) 1 2 0) = Ok (-1).
Proof. exact ord_sign_negative_witness. Qed.
Print Assumptions C13_ord_sign_negative_refuted.

(* ---------------- binary codec ---------------- *)
(* to_binary never overflows, for every valid date of every i16 year (also below -5000), closed form *)
Theorem C13_to_binary_total : forall y m d, in_i16 y = true -> valid_md m d = true ->
  exists j, julian_ordinal_day m = Ok j /\ 0 <= j + d <= 364 /\
    date_to_binary (pack y m d 0) = Ok (((y + 5000) * 365 + (j + d)) * 24) /\
    in_i32 (((y + 5000) * 365 + (j + d)) * 24) = true /\
    forall h, 1 <= h <= 24 ->
      datehour_to_binary (pack y m d h) = Ok (((y + 5000) * 365 + (j + d)) * 24 + (h - 1)).
Proof. exact to_binary_total. Qed.
Print Assumptions C13_to_binary_total.

(* Date::from_binary_heuristic = from_binary restricted to year > -100 and binary hour 0 (all s, no bound) *)
Theorem C13_date_heuristic_spec : forall s r,
  date_from_binary_heuristic s = Ok (Some r) <-> date_from_binary s = Ok (Some r) /\ -100 < ry r /\ Z.rem s 24 = 0.
Proof. exact date_heuristic_spec. Qed.
Print Assumptions C13_date_heuristic_spec.

(* DateHour::from_binary_heuristic = from_binary restricted to year >= 1800 or the +-1.1.1.1 sentinel *)
Theorem C13_datehour_heuristic_spec : forall s r,
  datehour_from_binary_heuristic s = Ok (Some r) <->
  datehour_from_binary s = Ok (Some r) /\ (1800 <= ry r \/ is_sentinel r = true).
Proof. exact datehour_heuristic_spec. Qed.
Print Assumptions C13_datehour_heuristic_spec.

(* RawDate::from_binary: total; accepts exactly when the typed decoders do, same day, binary hour 0..23 as is *)
Theorem C13_raw_from_binary_spec : forall s,
  is_crash (raw_from_binary s) = false /\
  forall r, raw_from_binary s = Ok (Some r) <->
    exists y m d, r = pack y m d (Z.rem s 24) /\ 0 <= Z.rem s 24 <= 23 /\
      date_from_binary s = Ok (Some (pack y m d 0)) /\
      datehour_from_binary s = Ok (Some (pack y m d (Z.rem s 24 + 1))).
Proof. exact raw_from_binary_spec. Qed.
Print Assumptions C13_raw_from_binary_spec.

Example C13_binary_nonvacuous :
  raw_from_binary 60759371 = Ok (Some (pack 1936 1 1 11)) /\ datehour_from_binary 60759371 = Ok (Some (pack 1936 1 1 12)) /\
  date_from_binary_heuristic 60759371 = Ok None /\ date_from_binary_heuristic 60759360 = Ok (Some (pack 1936 1 1 0)) /\
  datehour_from_binary_heuristic 43808760 = Ok (Some (pack 1 1 1 1)) /\ datehour_from_binary_heuristic 56379360 = Ok None.
Proof. vm_compute. repeat split. Qed.

(* ---------------- arithmetic over the whole range ---------------- *)
(* Date::days identifies the date *)
Theorem C13_date_days_inj : forall r1 r2 D,
  is_date r1 -> is_date r2 -> date_days r1 = Ok D -> date_days r2 = Ok D -> r1 = r2.
Proof. exact date_days_inj. Qed.
Print Assumptions C13_date_days_inj.

(* days_until never overflows on valid dates (any years, any sides of year 0); antisymmetric, additive,
   zero exactly on equal dates *)
Theorem C13_days_until_total : forall a b c, is_date a -> is_date b -> is_date c ->
  exists Da Db Dc, date_days a = Ok Da /\ date_days b = Ok Db /\ date_days c = Ok Dc /\
    days_until a b = Ok (Db - Da) /\ days_until b a = Ok (- (Db - Da)) /\
    days_until a c = Ok ((Db - Da) + (Dc - Db)) /\ (days_until a b = Ok 0 <-> a = b).
Proof. exact days_until_total. Qed.
Print Assumptions C13_days_until_total.

(* the inverse law the other way round, for ALL valid a, b: a.add_days(a.days_until(b)) = b *)
Theorem C13_add_days_of_days_until : forall a b, is_date a -> is_date b ->
  exists n, days_until a b = Ok n /\ add_days a n = Ok b.
Proof. exact add_days_of_days_until. Qed.
Print Assumptions C13_add_days_of_days_until.

(* add_days returns a date exactly when the target day number is representable
   (years -32768..32767); otherwise it is the documented panic -- and nothing else panics *)
Theorem C13_add_days_ok_iff : forall r n D, is_date r -> date_days r = Ok D ->
  ((exists r', add_days r n = Ok r') <-> -11960685 < D + n < 11960320) /\
  (~ (-11960685 < D + n < 11960320) -> is_crash (add_days r n) = true).
Proof. exact add_days_ok_iff. Qed.
Print Assumptions C13_add_days_ok_iff.

Theorem C13_add_days_compose : forall r n1 n2 D, is_date r -> date_days r = Ok D ->
  (0 <= D + n1 < 11960320 \/ -11960685 < D + n1 <= -365) ->
  (0 <= D + n1 + n2 < 11960320 \/ -11960685 < D + n1 + n2 <= -365) ->
  exists r1 r2, add_days r n1 = Ok r1 /\ add_days r1 n2 = Ok r2 /\ add_days r (n1 + n2) = Ok r2.
Proof. exact add_days_compose. Qed.
Print Assumptions C13_add_days_compose.

Example C13_arith_more_nonvacuous :
  is_date (pack 32767 12 31 0) /\ date_days (pack 32767 12 31 0) = Ok 11960319 /\
  add_days (pack 32767 12 30 0) 1 = Ok (pack 32767 12 31 0) /\ add_days (pack 32767 12 31 0) 1 = Panic 1306 /\
  add_days (pack (-32768) 12 30 0) (-1) = Ok (pack (-32768) 12 31 0) /\ add_days (pack (-32768) 12 31 0) (-1) = Panic 1306 /\
  add_days (pack 1 1 1 0) 2147483647 = Panic 1305 /\
  days_until (pack (-32768) 12 31 0) (pack 32767 12 31 0) = Ok 23921003.
Proof.
  split; [exists 32767, 12, 31; repeat split; vm_compute; reflexivity|].
  vm_compute. repeat split.
Qed.

(* ---------------- parse o game_fmt o parse = parse ---------------- *)
Theorem C13_parse_fmt_idem_date : forall s r, wfl s -> date_parse s = Ok (Some r) ->
  date_parse (game_fmt false r) = Ok (Some r) /\ date_parse (game_fmt true r) = Ok (Some r).
Proof. exact parse_fmt_idem_date. Qed.
Print Assumptions C13_parse_fmt_idem_date.

Theorem C13_parse_fmt_idem_datehour : forall s r,
  datehour_parse s = Ok (Some r) -> datehour_parse (game_fmt false r) = Ok (Some r).
Proof. exact parse_fmt_idem_datehour. Qed.
Print Assumptions C13_parse_fmt_idem_datehour.

Theorem C13_parse_fmt_idem_uniform : forall s r, uniform_parse s = Ok (Some r) ->
  uniform_parse (game_fmt true r) = Ok (Some r) /\ uniform_parse (game_fmt false r) = Ok (Some r).
Proof. exact parse_fmt_idem_uniform. Qed.
Print Assumptions C13_parse_fmt_idem_uniform.

(* FINDING (known_findings.json: fmt-parse-wide-hour-lt10): the full statement
     forall valid y m d, 1 <= h <= 24 -> datehour_parse (game_fmt true r) = Ok (Some r)
   is refuted by the faithful model for every hour 1..9: "1936.01.02.05" is not read back, neither by
   DateHour::parse nor by RawDate::parse (C13_fmt_parse_datehour proves it for h >= 10 and the short format) *)
Theorem C13_fmt_parse_wide_hour_lt10_refuted :
  forallb (fun h => match datehour_from_ymdh_opt 1936 1 2 h with
                    | Ok (Some r) => match datehour_parse (game_fmt true r), raw_parse (game_fmt true r) with
                                     | Ok None, Ok None => true | _, _ => false end
                    | _ => false end) (zrange 1 9) = true.
Proof. exact fmt_parse_wide_hour_lt10_witness. Qed.
Print Assumptions C13_fmt_parse_wide_hour_lt10_refuted.

(* ---------------- FromStr / serde go through the same codecs ---------------- *)
Theorem C13_visit_spec :
  (forall v, date_visit (DeI32 v) = date_from_binary v /\ datehour_visit (DeI32 v) = datehour_from_binary v /\
             uniform_visit (DeI32 v) = Ok None) /\
  (forall s, date_visit (DeStr s) = date_parse s /\ datehour_visit (DeStr s) = datehour_parse s /\
             uniform_visit (DeStr s) = uniform_parse s /\
             date_from_str s = date_parse s /\ datehour_from_str s = datehour_parse s /\
             uniform_from_str s = uniform_parse s /\ raw_from_str s = raw_parse s).
Proof. exact visit_spec. Qed.
Print Assumptions C13_visit_spec.
