(* C15 — the core clause: a well-formed sequence of writer calls parses back to exactly what was
   written, as a THEOREM connecting the writer model (Writer.v: `run`, the function the
   correspondence check executes against text/writer.rs) with the parser model (TextTape.v, C01).
   Statements only.

   [calls_of fdisp d cs] (proofs/WriterCallsLayoutProofs.v) relates a document d of TextDoc.v to
   the call lists that describe it, with EVERY choice the API offers:
     scalars      write_unquoted / write_fmt (the bytes), write_quoted p (Quo, escape p),
                  write_bool (yes/no), write_i32/i64 (dec_Z), write_u32/u64 (dec_N'),
                  write_f32/f64[ with precision] (the float oracle's text), write_date (game_fmt);
     `=`          implicit (no call) or explicit write_operator(Equal); any other operator explicit;
     objects      write_object_start .. write_end, or write_start + first key + explicit operator ..;
     arrays       write_array_start .. write_end, or write_start .. write_end;
     `{ }`        also write_object_start; write_end;
     headers      write_header h + container;   write_rgb = header "rgb" + array of 3/4 u32.
     write_binary every one of the above may also be issued through write_binary of the corresponding
                  BinaryToken (Bool, U32, U64, I32, I64, Quoted, Unquoted, F32, F64, Token id ->
                  __unknown_0x.., Equal, Object, Array, End, Rgb).
   Not in the call alphabet of this theorem (hence `_partial`): start_mixed_mode / BinaryToken
   MixedContainer (cannot be: known findings calls-mixed-nested-op, calls-mixed-mode-lost),
   parameters (no writer API), and objects continuing as value lists.  Floats and dates are covered
   conditionally: their text must be a bare word, which is part of [wf_doc d]. *)
From JV Require Import Bytes Tables TextTok TextTape TextDoc Date Scalar Writer.
From JV.proofs Require Import WriterProofs WriterLayoutDefs WriterLayoutProofs WriterCallsLayoutProofs.
Open Scope nat_scope.

(* 1. For every float oracle, EVERY configuration and every call list describing d: no call fails,
   the writer ends at depth 0 expecting a key, and the bytes are the rendering of the normalised
   document (`key {` printed as `key={`) under the writer's layout -- byte for byte what
   write_tape prints for flatten d (C14_write_is_layout). *)
Theorem C15_calls_are_layout_partial : forall fdisp c d cs, calls_of fdisp d cs ->
  exists log, Writer.run fdisp c cs = Ok (cbytes (chunks_w c d), log) /\
    Forall (fun e => fst e = false) log /\ last (map snd log) wr_init = w_end d /\
    (wf_doc d -> nobom d = true -> cbytes (chunks_w c d) = render (norm_fields d) (layout_w c d)).
Proof.
  intros fdisp c d cs H. destruct (runw_run fdisp c _ _ _ _ (calls_chunks fdisp c d cs H)) as [log [R [F L]]].
  exists log. repeat split; try assumption. intros Hwf Hnb. symmetry. apply render_layout_w.
  split; [exact Hwf|split; [apply (proj1 (proj2 (proj2 (calls_rt fdisp))) d cs H)|exact Hnb]].
Qed.
Print Assumptions C15_calls_are_layout_partial.

(* 2. THE PROPERTY: if what was described is a well-formed document (scalars are bare words /
   properly escaped strings, the first operator of an object is one of = == < <= > >=, an empty
   container is not the first element of an array -- known finding calls-leading-empty-container --,
   the first key does not start with a BOM) and the indent character is white space, the output
   parses to exactly flatten d: keys, operators, scalars with their quoting, nesting. *)
Theorem C15_calls_parse_back_partial : forall fdisp c d cs,
  calls_of fdisp d cs -> wf_doc d -> nobom d = true -> cfg_ok c ->
  exists out log, Writer.run fdisp c cs = Ok (out, log) /\
    Forall (fun e => fst e = false) log /\ parse out = Ok (flatten d, false).
Proof.
  intros fdisp c d cs H Hwf Hnb Hc. destruct (calls_parse_back fdisp c d cs H Hwf Hnb Hc) as [log [R [F [_ P]]]].
  eexists. exists log. repeat split; eassumption.
Qed.
Print Assumptions C15_calls_parse_back_partial.

(* 3. the payloads: what the scalar calls print is always a well-formed scalar (so [wf_doc] puts no
   condition on integers, booleans and quoted payloads), and reads back to the payload:
   quoted: any bytes; the token is escape p, which un-escapes to p minus the documented trailing
   newline; integers: the decimal text reads back exactly (i64::MIN excluded: known finding
   int-exact-i64min). *)
Theorem C15_quoted_payload : forall p : bytes,
  wf_scalar Quo (escape p) = true /\ unescape (escape p) = strip_one_trailing_nl p.
Proof. intros p. split; [apply escape_wf_quo|apply (proj1 (escape_roundtrip p))]. Qed.
Print Assumptions C15_quoted_payload.

Theorem C15_int_payload : forall z : Z, (Z.abs z < 2 ^ 63)%Z ->
  wf_scalar Unq (dec_Z z) = true /\ to_i64_t (dec_Z z) = Ok (z, []).
Proof.
  intros z Hz. split.
  - cbn [wf_scalar]. unfold wf_unq. rewrite (dec_Z_wf z Hz). reflexivity.
  - unfold dec_Z. rewrite <- (app_nil_r (fmt_int 0 z)). apply DecimalProofs.to_i64_t_fmt_int; [exact Hz|reflexivity].
Qed.
Print Assumptions C15_int_payload.

Theorem C15_uint_payload : forall n : N, (n < 2 ^ 63)%N -> wf_scalar Unq (dec_N' n) = true.
Proof. intros n Hn. cbn [wf_scalar]. unfold wf_unq. rewrite (dec_N'_wf n Hn). reflexivity. Qed.
Print Assumptions C15_uint_payload.

Theorem C15_bool_payload : forall b : bool, wf_scalar Unq (if b then YES else NO) = true.
Proof. intros [|]; reflexivity. Qed.

(* non-vacuity:  data = { a 1 "q" < { x } c = rgb { 1 2 3 } e = { } }  f { -5 yes }
   written with write_start for `data` (explicit `=` after its first key), implicit `=` elsewhere,
   write_array_start / write_start for the arrays, write_rgb, write_i32, write_quoted, and
   write_binary(Bool) / write_binary(End) for the last two calls *)
Open Scope N_scope.
Definition ex_calls : list call :=
  [CUnquoted [100]; CStart; CUnquoted [97]; COperator Equal; CI32 1%Z;
   CQuoted [113]; COperator LessThan; CArrayStart; CUnquoted [120]; CEnd;
   CUnquoted [99]; CRgb 1 2 3 None; CUnquoted [101]; CObjectStart; CEnd; CEnd;
   CUnquoted [102]; CStart; CI32 (-5)%Z; CBinary (BBool true); CBinary (BEnd 0)].
Definition ex_cdoc : doc :=
  FCons (Field Unq [100] None
    (VObject (FCons (Field Unq [97] (Some Equal) (VScalar Unq [49]))
             (FCons (Field Quo [113] (Some LessThan) (VArray (VCons (VScalar Unq [120]) VNil)))
             (FCons (Field Unq [99] (Some Equal) (VHeader RGB (VArray (VCons (VScalar Unq [49]) (VCons (VScalar Unq [50]) (VCons (VScalar Unq [51]) VNil))))))
             (FCons (Field Unq [101] None (VArray VNil)) FNil)))) VNil))
 (FCons (Field Unq [102] None (VArray (VCons (VScalar Unq [45;53]) (VCons (VScalar Unq [121;101;115]) VNil)))) FNil).
Open Scope nat_scope.

Example C15_reparse_nonvacuous : forall fdisp,
  calls_of fdisp ex_cdoc ex_calls /\ wf_doc ex_cdoc /\ nobom ex_cdoc = true /\ cfg_ok (mkcfg 9 1 false) /\
  exists log, Writer.run fdisp (mkcfg 9 1 false) ex_calls = Ok (render (norm_fields ex_cdoc) (layout_w (mkcfg 9 1 false) ex_cdoc), log).
Proof.
  intros fdisp. split; [|split; [reflexivity|split; [reflexivity|split; [left; reflexivity|eexists; vm_compute; reflexivity]]]].
  unfold calls_of, ex_cdoc, ex_calls.
  apply (cfs_cons fdisp _ _ [CUnquoted [100%N]; CStart; CUnquoted [97%N]; COperator Equal; CI32 1%Z;
     CQuoted [113%N]; COperator LessThan; CArrayStart; CUnquoted [120%N]; CEnd;
     CUnquoted [99%N]; CRgb 1 2 3 None; CUnquoted [101%N]; CObjectStart; CEnd; CEnd]
     [CUnquoted [102%N]; CStart; CI32 (-5)%Z; CBinary (BBool true); CBinary (BEnd 0%N)]).
  - apply (cf_field fdisp (CUnquoted [100%N]) Unq [100%N] None []); [reflexivity|left; auto|].
    apply (cv_obj_unk fdisp CEnd (CUnquoted [97%N]) Unq [97%N] Equal (VScalar Unq [49%N]) [CI32 1%Z] _
             [CQuoted [113%N]; COperator LessThan; CArrayStart; CUnquoted [120%N]; CEnd;
              CUnquoted [99%N]; CRgb 1 2 3 None; CUnquoted [101%N]; CObjectStart; CEnd]);
      [reflexivity|reflexivity|apply (cv_scalar fdisp (CI32 1%Z)); reflexivity|].
    apply (cfs_cons fdisp _ _ [CQuoted [113%N]; COperator LessThan; CArrayStart; CUnquoted [120%N]; CEnd]
             [CUnquoted [99%N]; CRgb 1 2 3 None; CUnquoted [101%N]; CObjectStart; CEnd]).
    + apply (cf_field fdisp (CQuoted [113%N]) Quo [113%N] (Some LessThan) [COperator LessThan]); [reflexivity|right; left; eexists; auto|].
      apply (cv_arr fdisp CArrayStart CEnd _ [CUnquoted [120%N]]); [reflexivity|reflexivity|].
      apply (cis_cons fdisp _ _ [CUnquoted [120%N]] []); [reflexivity|apply (cv_scalar fdisp (CUnquoted [120%N])); reflexivity|constructor].
    + apply (cfs_cons fdisp _ _ [CUnquoted [99%N]; CRgb 1 2 3 None] [CUnquoted [101%N]; CObjectStart; CEnd]).
      * apply (cf_field fdisp (CUnquoted [99%N]) Unq [99%N] (Some Equal) []); [reflexivity|left; auto|].
        apply (cv_rgb fdisp _ 1%N 2%N 3%N None); [left; reflexivity|]. unfold rgb_expand. cbn [app]. apply cv_hdr; [reflexivity|].
        apply (cv_arr fdisp CArrayStart CEnd _ [CU32 1%N; CU32 2%N; CU32 3%N]); [reflexivity|reflexivity|].
        apply (cis_cons fdisp _ _ [CU32 1%N] [CU32 2%N; CU32 3%N]); [reflexivity|apply (cv_scalar fdisp (CU32 1%N)); reflexivity|].
        apply (cis_cons fdisp _ _ [CU32 2%N] [CU32 3%N]); [reflexivity|apply (cv_scalar fdisp (CU32 2%N)); reflexivity|].
        apply (cis_cons fdisp _ _ [CU32 3%N] []); [reflexivity|apply (cv_scalar fdisp (CU32 3%N)); reflexivity|constructor].
      * apply (cfs_cons fdisp _ _ [CUnquoted [101%N]; CObjectStart; CEnd] []); [|constructor].
        apply (cf_field fdisp (CUnquoted [101%N]) Unq [101%N] None []); [reflexivity|left; auto|apply cv_obj_empty; reflexivity].
  - apply (cfs_cons fdisp _ _ [CUnquoted [102%N]; CStart; CI32 (-5)%Z; CBinary (BBool true); CBinary (BEnd 0%N)] []); [|constructor].
    apply (cf_field fdisp (CUnquoted [102%N]) Unq [102%N] None []); [reflexivity|left; auto|].
    apply (cv_arr_unk fdisp (CBinary (BEnd 0%N)) _ [CI32 (-5)%Z; CBinary (BBool true)]); [reflexivity|].
    apply (cis_cons fdisp _ _ [CI32 (-5)%Z] [CBinary (BBool true)]); [reflexivity|apply (cv_scalar fdisp (CI32 (-5)%Z)); reflexivity|].
    apply (cis_cons fdisp _ _ [CBinary (BBool true)] []); [reflexivity|apply (cv_scalar fdisp (CBinary (BBool true))); reflexivity|constructor].
Qed.
