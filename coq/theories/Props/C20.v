(* C20 — Underlying I/O failures surface as errors, never as silently wrong results.
   Proved so far (buffer level): a failed read leaves the stream view intact -- the window is
   repositioned, no byte is lost, duplicated or reordered -- so a retried or later call sees the
   same data as a fault-free run.  The reader/deserializer-level statement
     fault_sound : every call that returns Ok under faults returns the fault-free result
   is carried by the correspondence + oracle streams of props/C20*.py. *)
From JV Require Import Bytes BufWin.
From JV.proofs Require Import BufWinProofs.
Open Scope nat_scope.

Theorem C20_failed_fill_keeps_stream : forall input b r b' r',
  stream_inv input b r -> bw_fill_buf b r = FillIo b' r' ->
  stream_inv input b' r' /\ win b' = win b /\ rest r' = rest r.
Proof. exact failed_fill_keeps_stream. Qed.
Print Assumptions C20_failed_fill_keeps_stream.

Theorem C20_position_le_delivered : forall b r,
  fill_inv b r ->
  match bw_fill_buf b r with
  | FillOk _ b' r' | FillIo b' r' | FillFull b' r' => fill_inv b' r'
  end.
Proof. exact fill_inv_preserved. Qed.
Print Assumptions C20_position_le_delivered.
