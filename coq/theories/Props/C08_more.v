(* C08, wave 4 -- the clauses audit/C08.md found unstated.  Statements only; every proof is [exact lemma].
   Models: BinPrim, BinLexer (the Lexer cursor methods lx_...), BinReader (TokenReader over BufWin). *)
From JV Require Import Bytes Tables BinPrim BufWin BinLexer BinReader.
From JV.proofs Require Import BinLexProofs BinRoundProofs BinStreamProofs BinStreamMoreProofs BinLexCursorProofs.
Open Scope nat_scope.

(* ---------------------------------------------------------------- streaming reader, literal hypothesis *)
(* "every buffer able to hold the largest token": no condition on the part of the input the lexer
   cannot lex (a truncated token or an invalid rgb block may be longer than the buffer).
   Same tokens, same final position, and the same way of ending -- except that the reader may say
   BufferFull where the lexer says Eof / InvalidRgb.  A clean end is never confused with an error. *)
Theorem C08_stream_holds_largest_token : forall input sched cap,
  no_fail sched = true -> 0 < cap -> max_token input <= cap ->
  fst (run_stream cap sched input) = fst (run_lexer input) /\
  snd (snd (run_stream cap sched input)) = snd (snd (run_lexer input)) /\
  (fst (snd (run_stream cap sched input)) = fst (snd (run_lexer input)) \/
   (fst (snd (run_stream cap sched input)) = Err E_BufferFull /\ exists e, fst (snd (run_lexer input)) = Err e)).
Proof. exact stream_holds_largest_token. Qed.
Print Assumptions C08_stream_holds_largest_token.

(* TokenReader::from_slice (no buffer at all): exactly the lexer, no hypothesis *)
Theorem C08_slice_reader_eq_lexer : forall d, run_slice_reader d = run_lexer d.
Proof. exact slice_reader_eq_lexer. Qed.
Print Assumptions C08_slice_reader_eq_lexer.

(* [0 < cap] above is necessary (definitional, not a finding): a buffer of no bytes makes fill_buf answer
   Ok(0) like the bufferless slice window, so the reader reports a clean end and drops all data *)
Theorem C08_stream_cap0_drops_everything : forall input sched, run_stream 0 sched input = ([], (Ok tt, 0)).
Proof. exact stream_cap0_drops_everything. Qed.
Theorem C08_stream_cap0_refuted : exists input sched,
  no_fail sched = true /\ max_token input <= 0 /\
  fst (snd (run_stream 0 sched input)) = Ok tt /\ fst (snd (run_lexer input)) = Err E_LexEof.
Proof. exists [1%N], []. vm_compute. repeat split. apply le_n. Qed.

(* one read() = one Lexer::read_token on the pending data, states stay related *)
Theorem C08_read_eq_lexer : forall s l c,
  st_ok s (lx_data l) (lx_position l) c -> length (lx_data l) <= lx_orig l -> tok_fits c (lx_data l) = true ->
  exists s', rdr_read s = (fst (lx_read_token l), s') /\
             st_ok s' (lx_data (snd (lx_read_token l))) (lx_position (snd (lx_read_token l))) c.
Proof. exact read_eq_lexer. Qed.
Print Assumptions C08_read_eq_lexer.

(* one read_bytes(n) = one Lexer::read_bytes(n): n bytes fit the buffer; when fewer than n bytes remain
   they leave room in the buffer (otherwise the reader cannot see the end of the stream) *)
Theorem C08_read_bytes_eq_lexer : forall n s l c,
  st_ok s (lx_data l) (lx_position l) c -> length (lx_data l) <= lx_orig l ->
  (n <= length (lx_data l) -> n <= c) -> (length (lx_data l) < n -> length (lx_data l) < c) ->
  exists s', rdr_read_bytes n s = (fst (lx_read_bytes n l), s') /\
             st_ok s' (lx_data (snd (lx_read_bytes n l))) (lx_position (snd (lx_read_bytes n l))) c.
Proof. exact read_bytes_eq_lexer. Qed.
Print Assumptions C08_read_bytes_eq_lexer.

(* ---------------------------------------------------------------- the Lexer cursor *)
(* lx_inv D l: l is a cursor into the input D (created by Lexer::new D, moved by the methods) *)
Theorem C08_lexer_new_inv : forall D, lx_inv D (lx_new D).
Proof. exact lx_inv_new. Qed.

(* position() + remainder(): the remainder is the input from position() on *)
Theorem C08_lexer_position_law : forall D l, lx_inv D l ->
  lx_remainder l = skipn (lx_position l) D /\ lx_position l + length (lx_remainder l) = length D.
Proof. exact lexer_position_law. Qed.
Print Assumptions C08_lexer_position_law.

(* ... and every public method keeps it, whether it succeeds or fails *)
Theorem C08_lexer_methods_keep_position_law : forall D l, lx_inv D l ->
  lx_inv D (snd (lx_read_id l)) /\ lx_inv D (snd (lx_next_id l)) /\
  lx_inv D (snd (lx_read_token l)) /\ lx_inv D (snd (lx_next_token l)) /\
  lx_inv D (snd (lx_read_string l)) /\ lx_inv D (snd (lx_read_bool l)) /\
  lx_inv D (snd (lx_read_u32 l)) /\ lx_inv D (snd (lx_read_u64 l)) /\
  lx_inv D (snd (lx_read_i32 l)) /\ lx_inv D (snd (lx_read_i64 l)) /\
  lx_inv D (snd (lx_read_f32 l)) /\ lx_inv D (snd (lx_read_f64 l)) /\
  lx_inv D (snd (lx_read_rgb l)) /\
  (forall n, lx_inv D (snd (lx_read_bytes n l))) /\
  (forall id, lx_inv D (snd (lx_skip_value id l))).
Proof. exact lexer_methods_keep_position_law. Qed.
Print Assumptions C08_lexer_methods_keep_position_law.

(* a successful read_token moves position() by exactly the token's bytes (>= 2); a failing call and a
   clean end (next_token = None) leave the cursor alone *)
Theorem C08_lexer_read_token_advances : forall l t l',
  lx_read_token l = (Ok t, l') -> length (lx_data l) <= lx_orig l ->
  read_token (lx_remainder l) = Ok (t, lx_remainder l') /\
  lx_position l' = lx_position l + (length (lx_remainder l) - length (lx_remainder l')) /\
  2 <= length (lx_remainder l) - length (lx_remainder l').
Proof. exact lexer_read_token_advances. Qed.
Theorem C08_lexer_failure_keeps_cursor : forall l,
  (forall e l', lx_read_token l = (Err e, l') -> l' = l) /\
  (forall e l', lx_next_token l = (Err e, l') -> l' = l) /\
  (forall l', lx_next_token l = (Ok None, l') -> l' = l /\ lx_remainder l = []).
Proof. exact lexer_failure_keeps_cursor. Qed.

(* next_token / next_id are read_token / read_id except that "no data at all" is None instead of Eof *)
Theorem C08_next_token_vs_read_token : forall l,
  match lx_read_token l with
  | (Ok t, l') => lx_next_token l = (Ok (Some t), l')
  | (Err e, l') => l' = l /\ lx_next_token l = (if (e =? E_LexEof)%N && is_nil (lx_data l) then Ok None else Err e, l)
  | _ => False
  end.
Proof. exact next_token_vs_read_token. Qed.
Print Assumptions C08_next_token_vs_read_token.
Theorem C08_next_id_vs_read_id : forall l,
  match lx_read_id l with
  | (Ok t, l') => lx_next_id l = (Ok (Some t), l')
  | (Err e, l') => l' = l /\ lx_next_id l = (if (e =? E_LexEof)%N && is_nil (lx_data l) then Ok None else Err e, l)
  | _ => False
  end.
Proof. exact next_id_vs_read_id. Qed.

(* peek_token / peek_id: the value read_token / read_id would return (they return no cursor: nothing moves) *)
Theorem C08_peek_token_agrees : forall l,
  lx_peek_token l = match fst (lx_read_token l) with Ok t => Some t | _ => None end.
Proof. exact peek_token_agrees. Qed.
Theorem C08_peek_id_agrees : forall l,
  lx_peek_id l = match fst (lx_read_id l) with Ok id => Some id | _ => None end.
Proof. exact peek_id_agrees. Qed.

(* read_token = read_id (position + 2), then the payload method that id selects, ending at the same cursor *)
Theorem C08_lexer_token_is_id_then_payload : forall l t l',
  lx_read_token l = (Ok t, l') -> length (lx_data l) <= lx_orig l ->
  exists id l1, lx_read_id l = (Ok id, l1) /\ lx_position l1 = lx_position l + 2 /\ cursor_shape t id l1 l'.
Proof. exact lexer_token_is_id_then_payload. Qed.
Print Assumptions C08_lexer_token_is_id_then_payload.

(* non-vacuity: the largest-token hypothesis holds where [fits] does not (a 6-byte u32, then a string that
   announces 300 bytes and has 9); a cursor in the middle of an input *)
Example C08_more_nonvacuous_tail :
  let input := write_token (BU32 7%N) ++ [15; 0; 44; 1; 97; 97; 97; 97; 97; 97; 97; 97; 97]%N in
  max_token input <= 6 /\ fits 6 input = false /\
  run_stream 6 [Data 1; Data 4] input = ([BU32 7%N], (Err E_BufferFull, 6)) /\
  run_lexer input = ([BU32 7%N], (Err E_LexEof, 6)).
Proof. vm_compute. repeat split; repeat constructor. Qed.
Example C08_more_nonvacuous_cursor :
  let D := write_token (BU32 7%N) ++ write_token BOpen in
  lx_inv D (snd (lx_read_token (lx_new D))) /\ lx_position (snd (lx_read_token (lx_new D))) = 6.
Proof. split; [apply lexer_methods_keep_position_law, lx_inv_new | reflexivity]. Qed.
