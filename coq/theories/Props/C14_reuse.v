(* C14 (wave 4) -- a REUSED writer.  The anchor state of the property (WriteState / DepthMode stack /
   MixedMode) survives write_tape; the clause proved here: writing the tape of d1 and then, with the
   SAME writer, the tape of d2 prints byte for byte what one write_tape prints for the tape of the
   concatenated document, leaves the writer in the same final state (depth 0, expecting a key, line
   terminator pending), and the combined output parses back (parser model of C01) to the tape of the
   concatenated document -- for every configuration, every round-trippable d1 (non-empty) and d2.
   [wt .. (JCore 0 (length t)) w] is what write_tape runs from the initial state (Writer.write_tape is
   its instance at [wr_init]); the correspondence check runs exactly this function threaded over one
   state against a real reused TextWriter (kind writer.session, stream `reuse` of props/C14_reuse.py).
   Statements only. *)
From JV Require Import Bytes Tables TextTok TextTape TextDoc Date Writer.
From JV.proofs Require Import WriterLayoutDefs WriterLayoutProofs WriterReuseProofs.
Open Scope nat_scope.

Theorem C14_reuse_continues : forall c d1 d2, rt d1 -> wf_doc d2 -> rt_fields d2 = true -> d1 <> FNil ->
  exists o1 o2 w1,
    write_tape (tape_fuel (flatten d1)) c (flatten d1) = WOk w1 o1 /\
    wt (tape_fuel (flatten d2)) c (flatten d2) (JCore 0 (length (flatten d2))) w1 = WOk w1 o2 /\
    write_tape (tape_fuel (flatten (fapp d1 d2))) c (flatten (fapp d1 d2)) = WOk w1 (o1 ++ o2) /\
    q_depth w1 = 0%N /\ q_expecting_key w1 = true /\
    (cfg_ok c -> parse (o1 ++ o2) = Ok (flatten (fapp d1 d2), false)).
Proof.
  intros c d1 d2 H1 H2 H3 H4. destruct (reuse_continues c d1 d2 H1 H2 H3 H4) as [o1 [o2 [A [B [C R]]]]].
  exists o1, o2, wk. repeat split; try assumption; try reflexivity.
  intros Hc. apply (write_reparse c (fapp d1 d2) (o1 ++ o2) wk Hc R C).
Qed.
Print Assumptions C14_reuse_continues.

(* non-vacuity: a = { b = c } then, on the same writer, [[p] k = v ] d < "e" under tab x 9 *)
Open Scope N_scope.
Definition ex_d1 : doc :=
  FCons (Field Unq [97] (Some Equal) (VObject (FCons (Field Unq [98] (Some Equal) (VScalar Unq [99])) FNil) VNil)) FNil.
Definition ex_d2 : doc :=
  FCons (ParamO [112] false (FCons (Field Unq [107] (Some Equal) (VScalar Unq [118])) FNil))
 (FCons (Field Unq [100] (Some LessThan) (VScalar Quo [101])) FNil).
Example C14_reuse_nonvacuous :
  rt ex_d1 /\ wf_doc ex_d2 /\ rt_fields ex_d2 = true /\ ex_d1 <> FNil /\
  wt 60 (mkcfg 32 1 false) (flatten ex_d2) (JCore 0 (length (flatten ex_d2))) wk
  = WOk wk [10; 91; 91; 112; 93; 10; 107; 61; 118; 10; 93; 10; 100; 32; 60; 32; 34; 101; 34].
Proof.
  split; [split; [reflexivity|split; reflexivity]|]. split; [reflexivity|]. split; [reflexivity|].
  split; [discriminate|]. vm_compute. reflexivity.
Qed.
