(* C09 (text half) -- skip_container / skip_unquoted_value of the streaming text TokenReader land
   exactly after the matching close.  Statements only.
   Model: TextReader (sk_scan, skip_container_loop, suv_scan, skip_unquoted_value_loop) over BufWin.
   Specification: TextSkipRef (sk_scan_bytes, sref / skip_ref, skip_need, tok_count, uv_ref). *)
From JV Require Import Bytes Tables U64Swar BufWin TextTok TextReader TextRef TextSkipRef TextTape TextDoc.
From JV.proofs Require Import BufWinProofs TextReaderMainProofs TextSkipProofs TextSkipStreamProofs TextSkipTokProofs TextSkipUvProofs TextScanProofs TextSkipEndProofs TextSkipDocProofs.
Open Scope nat_scope.

(* 1. The 8-byte SWAR step (contains_zero_byte for quote / hash / brace detection, count_chunk for
   the number of closes and opens, the bail-out when depth - closes < 1) is unobservable: for every
   window, pointer, state and depth, with fuel exceeding the bytes left in the window, the scan
   with the wide step equals the scan with the byte loop only. *)
Theorem C09_text_wide_eq_bytes : forall f1 f2 w ptr st depth,
  wf_bytes w -> length w - ptr < f1 -> length w - ptr < f2 ->
  sk_scan f1 w ptr st depth = sk_scan_bytes f2 w ptr st depth.
Proof. exact sk_scan_wide_eq_bytes. Qed.
Print Assumptions C09_text_wide_eq_bytes.

(* 2. On a single window that holds the whole remaining input the byte scan IS the byte-level
   reference: it finishes at [adv] exactly when the reference lands [adv - ptr] bytes further, and
   asks for more data (which, at the end of the input, is the Eof error) exactly when the
   reference finds no matching close. *)
Theorem C09_text_scan_ref : forall fuel w ptr st d,
  ptr <= length w -> length w - ptr < fuel ->
  match sk_scan_bytes fuel w ptr st d with
  | SkDone adv => ptr < adv <= length w /\ sref (skipn ptr w) st d 0 = Some (adv - ptr)
  | SkRefill _ _ _ => sref (skipn ptr w) st d 0 = None
  | SkCrash _ => False
  end.
Proof. exact scan_ref_whole. Qed.
Print Assumptions C09_text_scan_ref.

Theorem C09_text_scan_skip_ref : forall fuel w, length w < fuel ->
  match sk_scan_bytes fuel w 0 SkNone 1%Z with
  | SkDone adv => skip_ref w = Some adv /\ 0 < adv <= length w
  | SkRefill _ _ _ => skip_ref w = None
  | SkCrash _ => False
  end.
Proof. exact scan_whole_skip_ref. Qed.
Print Assumptions C09_text_scan_skip_ref.

(* 3. MAIN (streaming): [rok input r] is the invariant of the streaming reader (C07: the consumed
   prefix, the window and the unread data make up the input; the schedule has no I/O failure; the
   window fits the buffer) -- it holds for a fresh reader and after every token.
   [stream_of r] = window ++ unread data.  For every such state, every schedule and every buffer
   with  skip_need (stream_of r) <= cap  (1 byte; 3 bytes if the skipped text has a backslash
   inside a quoted string, because the Quote state looks 2 bytes past a backslash), and for the
   bufferless slice window:  skip_container consumes exactly [skip_ref] bytes of the remaining
   stream (stream contents, position and capacity of the resulting state are given), and it
   returns Eof exactly when the reference finds no matching close. *)
Theorem C09_text_stream_eq_ref : forall input fuel r,
  wf_bytes input -> rok input r -> skip_cap_ok r -> length (rest (rrd r)) < fuel ->
  match skip_ref (stream_of r) with
  | Some n => exists r', skip_container fuel r = Ok r' /\ rok input r' /\
                         stream_of r' = skipn n (stream_of r) /\
                         reader_position r' = reader_position r + n /\ cap (rbw r') = cap (rbw r)
  | None => skip_container fuel r = Err E_Eof
  end.
Proof. exact skip_container_stream. Qed.
Print Assumptions C09_text_stream_eq_ref.

(* the bound is exact: a non-empty buffer below skip_need (that is 1 or 2 bytes while the skipped
   text has a backslash inside a quoted string) never yields a wrong landing position: the skip
   fails with BufferFull (or with Eof, and then only if there is no matching close anyway) *)
Theorem C09_text_stream_full : forall input fuel r,
  wf_bytes input -> rok input r -> 0 < cap (rbw r) < skip_need (stream_of r) ->
  length (rest (rrd r)) < fuel ->
  skip_container fuel r = Err E_BufferFull \/
  (skip_container fuel r = Err E_Eof /\ skip_ref (stream_of r) = None).
Proof. exact skip_container_full. Qed.
Print Assumptions C09_text_stream_full.

Theorem C09_text_rok_new : forall input capv sch, no_fail sch -> rok input (reader_new capv input sch).
Proof. exact rok_new. Qed.

Theorem C09_text_skip_need_le : forall s, 1 <= skip_need s <= 3.
Proof. exact skip_need_le. Qed.

(* non-vacuity: the input  a={ Q}\Q{Q # }<LF> {x} } z=1  (Q = double quote)  read with 1-byte reads into a 3-byte buffer; after
   the tokens  a = {  the skip lands 21 bytes further, exactly where skip_ref says, and the next
   token is z; with a 2-byte buffer the skip reports BufferFull *)
Definition C09_text_ex_input : bytes :=
  [97;61;123;32;34;125;92;34;123;34;32;35;32;125;10;32;123;120;125;32;125;32;122;61;49]%N.
Definition C09_text_ex_after_open (capv : nat) : reader :=
  match next_opt 200 (reader_new capv C09_text_ex_input (repeat (Data 1) 40)) with
  | NTok _ r1 => match next_opt 200 r1 with
                 | NTok _ r2 => match next_opt 200 r2 with NTok ROpen r3 => r3 | _ => r2 end
                 | _ => r1 end
  | _ => reader_new capv C09_text_ex_input []
  end.
Example C09_text_ex :
  let r := C09_text_ex_after_open 3 in
  reader_position r = 3 /\ skip_ref (stream_of r) = Some 18 /\ skip_need (stream_of r) = 3 /\
  match skip_container 200 r with
  | Ok r' => reader_position r' = 21 /\
             match next_opt 200 r' with NTok t _ => t = RUnq [122%N] | _ => False end
  | _ => False
  end /\
  skip_container 200 (C09_text_ex_after_open 2) = Err E_BufferFull.
Proof. vm_compute. repeat split; reflexivity. Qed.

(* 4. The property's own wording.  [token_skip s] reads tokens with the reference tokenizer of C07
   (TextRef.tk, which the streaming reader equals by C07_stream_eq_tok) from just after an Open,
   counts Open and Close, and stops after the Close that brings the depth to 0; it returns the
   tokens read and the input that remains.  For EVERY byte string: if token counting finds the
   matching close and no unquoted token on the way holds a brace, a double quote or a hash
   (tok_plain), the byte skipper lands on exactly the same remaining input.  Braces, hashes,
   escaped quotes and backslashes inside quoted scalars and anything inside comments are covered
   without any hypothesis.  Together with 3: the streaming skip_container leaves the stream at the
   token that follows the matching close. *)
Theorem C09_text_skip_is_token_counting : forall s toks r,
  token_skip s = Some (toks, r) -> forallb tok_plain toks = true ->
  length r <= length s /\ skip_ref s = Some (length s - length r).
Proof. exact token_skip_is_skip_ref. Qed.
Print Assumptions C09_text_skip_is_token_counting.

(* the hypothesis tok_plain cannot be dropped -- FINDINGS, both replayed on the Rust code
   (tr.skip): the tokenizer takes  xQy  (a double quote inside a bare word; Q = double quote) and
   the interpolated expression  @[ } ]  as ONE unquoted token, the skipper sees a quote opening /
   a closing brace.
     a={ xQy } zQw } q=1     token counting: the container ends at the first close (next token zQw);
                              skip_container: after the second close (next token q)
     a={ @[ } ] b } q=1      token counting: the container ends at the last close (next token q);
                              skip_container: after the brace inside @[ } ] (next token the bracket) *)
Theorem C09_text_quote_in_word_refuted : exists s toks r n,
  token_skip s = Some (toks, r) /\ skip_ref s = Some n /\ n <> length s - length r.
Proof.
  exists [32;120;34;121;32;125;32;122;34;119;32;125;32;113;61;49]%N.
  eexists. eexists. eexists. split; [vm_compute; reflexivity|]. split; [vm_compute; reflexivity|]. vm_compute. discriminate.
Qed.
Theorem C09_text_varexpr_brace_refuted : exists s toks r n,
  token_skip s = Some (toks, r) /\ skip_ref s = Some n /\ n <> length s - length r.
Proof.
  exists [32;64;91;32;125;32;93;32;98;32;125;32;113;61;49]%N.
  eexists. eexists. eexists. split; [vm_compute; reflexivity|]. split; [vm_compute; reflexivity|]. vm_compute. discriminate.
Qed.

(* non-vacuity of 4 on the rendering of a well-formed document (TextDoc):
     a = { # }<LF>Qk}Q = Qx\Q{Q } z = 1
   a quoted key holding a close, a quoted value holding an escaped quote and an open, a comment
   holding a close.  From just after the Open (offset 5) token counting reads 4 tokens and leaves
   " z = 1"; all tokens are plain; skip_ref lands on the same 6 remaining bytes. *)
Definition C09_text_ex_doc : doc :=
  FCons (Field Unq [97%N] (Some Equal)
           (VObject (FCons (Field Quo [107;125]%N (Some Equal) (VScalar Quo [120;92;34;123]%N)) FNil) VNil))
 (FCons (Field Unq [122%N] (Some Equal) (VScalar Unq [49%N])) FNil).
Definition C09_text_ex_layout : layout :=
  mkLayout false (fun i => if Nat.eqb i 0 then [] else if Nat.eqb i 3 then [32;35;32;125;10]%N else if Nat.eqb i 10 then [] else [32%N]).
Example C09_text_ex_render :
  wf_doc C09_text_ex_doc /\
  let s := render C09_text_ex_doc C09_text_ex_layout in
  nth_error s 4 = Some 123%N /\
  exists toks r, token_skip (skipn 5 s) = Some (toks, r) /\ length toks = 4 /\
    forallb tok_plain toks = true /\ r = [32;122;32;61;32;49]%N /\
    skip_ref (skipn 5 s) = Some (length (skipn 5 s) - 6).
Proof.
  split; [reflexivity|]. cbv zeta. split; [reflexivity|]. eexists. eexists.
  split; [vm_compute; reflexivity|]. repeat split; reflexivity.
Qed.

(* 5. skip_unquoted_value (header bodies such as  rgb { 1 2 3 }).  [uv_ref s] is the windowless
   reference: skip whitespace and comments; if a brace follows, skip the container with skip_ref;
   otherwise consume nothing more (Some n = n bytes consumed, None = no matching close).
   [uv_cap_ok r]: the slice window, or a non-empty buffer that satisfies skip_need for the
   container body if there is one.  For every reader state, schedule and such buffer the streaming
   skip_unquoted_value consumes exactly uv_ref bytes -- a comment between the value and its
   container may span any number of refills (the in_comment flag), and the LF TAB TAB TAB word
   test is unobservable. *)
Theorem C09_text_skip_unquoted_value : forall input fuel r,
  wf_bytes input -> rok input r -> uv_cap_ok r -> S (length (rest (rrd r))) < fuel ->
  match uv_ref (stream_of r) with
  | Some n => exists r', skip_unquoted_value fuel r = Ok r' /\ rok input r' /\
                         stream_of r' = skipn n (stream_of r) /\
                         reader_position r' = reader_position r + n /\ cap (rbw r') = cap (rbw r)
  | None => skip_unquoted_value fuel r = Err E_Eof
  end.
Proof. exact skip_unquoted_value_ref. Qed.
Print Assumptions C09_text_skip_unquoted_value.

(* the three cases of uv_ref, spelled out *)
Theorem C09_text_skip_unquoted_value_cases : forall input fuel r,
  wf_bytes input -> rok input r -> uv_cap_ok r -> S (length (rest (rrd r))) < fuel ->
  match uv_scan (stream_of r) false 0 with
  | UvOpen n =>
      match skip_ref (skipn (S n) (stream_of r)) with
      | Some m => skip_lands input r (S n + m) (skip_unquoted_value fuel r)
      | None => skip_unquoted_value fuel r = Err E_Eof
      end
  | UvStop n => skip_lands input r n (skip_unquoted_value fuel r)
  | UvEnd => skip_lands input r (length (stream_of r)) (skip_unquoted_value fuel r)
  end.
Proof. exact skip_unquoted_value_stream. Qed.

(* non-vacuity: the input  c=rgb # }<LF><LF><TAB><TAB><TAB>{ 1 } f=2  with 1-byte reads into a
   4-byte buffer; after the tokens  c = rgb  the skip consumes 14 bytes and the next token is f *)
Definition C09_text_uv_input : bytes :=
  [99;61;114;103;98;32;35;32;125;10;10;9;9;9;123;32;49;32;125;32;102;61;50]%N.
Definition C09_text_uv_after_rgb : reader :=
  match next_opt 200 (reader_new 4 C09_text_uv_input (repeat (Data 1) 40)) with
  | NTok _ r1 => match next_opt 200 r1 with
                 | NTok _ r2 => match next_opt 200 r2 with NTok (RUnq _) r3 => r3 | _ => r2 end
                 | _ => r1 end
  | _ => reader_new 4 C09_text_uv_input []
  end.
Example C09_text_uv_ex :
  let r := C09_text_uv_after_rgb in
  reader_position r = 5 /\ uv_ref (stream_of r) = Some 14 /\
  match skip_unquoted_value 200 r with
  | Ok r' => reader_position r' = 19 /\
             match next_opt 200 r' with NTok t _ => t = RUnq [102%N] | _ => False end
  | _ => False
  end.
Proof. vm_compute. repeat split; reflexivity. Qed.

(* 4b. The same on documents (TextDoc): for every document d without parameter blocks whose bare
   words are plain (simple_fields: TextDoc.wf_word, no double quote inside, not starting with a
   question mark; quoted content is TextDoc.wf_quo -- braces, hashes, escaped quotes and
   backslashes inside quoted scalars are allowed, and so is anything inside the comments of the
   layout), for every well-formed layout and EVERY Open token of the rendering:
     - counting the braces of the document's own token list finds the matching Close (post' =
       the tokens after it);
     - the reference tokenizer, started just after the Open, reads tokens, counts Open / Close and
       stops exactly in front of the rendering of post' (token_skip), all tokens read being plain;
     - skip_ref lands on exactly that byte (hence, by 3, so does the streaming skip_container).
   PARTIAL with respect to the property's "every well-formed document": parameter blocks
   ([[name] ... ]), interpolated expressions (@[ ... ]) and bare words starting with a question
   mark are not covered; for bare words holding a double quote and for interpolated expressions
   holding a brace, quote or hash the statement is false (the two refuted theorems above). *)
Theorem C09_text_doc_skip_partial : forall d l pre post,
  simple_fields d = true -> wf_layout d l ->
  toks_fields d = pre ++ lbrace :: post ->
  exists post',
    match_close 1 post = Some post' /\
    let s := render_toks (gap l) post (S (length pre)) in
    let r := render_toks (gap l) post' (length (toks_fields d) - length post') in
    (exists p, render d l = p ++ 123%N :: s) /\
    (exists toks, token_skip s = Some (toks, r) /\ forallb tok_plain toks = true) /\
    length r <= length s /\ skip_ref s = Some (length s - length r).
Proof. exact doc_skip_every_open. Qed.
Print Assumptions C09_text_doc_skip_partial.

(* non-vacuity: the example document and layout of 4 satisfy the hypotheses *)
Example C09_text_doc_ex :
  simple_fields C09_text_ex_doc = true /\ wf_layout C09_text_ex_doc C09_text_ex_layout /\
  exists pre post, toks_fields C09_text_ex_doc = pre ++ lbrace :: post /\ length pre = 2.
Proof.
  split; [reflexivity|]. split.
  - split; [|split].
    + intros i. apply gap_okb_sound. unfold C09_text_ex_layout. cbn [gap].
      destruct (Nat.eqb i 0); [reflexivity|]. destruct (Nat.eqb i 3); [reflexivity|].
      destruct (Nat.eqb i 10); reflexivity.
    + cbn. repeat split; intros; reflexivity.
    + intros _. reflexivity.
  - eexists [_; _]. eexists. split; reflexivity.
Qed.

(* 6. End to end (3 + 4): in any state of the streaming reader, under any schedule and any buffer
   with skip_need <= cap: if reading tokens from the remaining stream and counting Open / Close
   finds the matching close and leaves [rem] (all unquoted tokens on the way plain), then
   skip_container succeeds and the remaining stream of the reader IS [rem] -- the next token read
   is the token that follows the matching close (C07: next_opt on r' = tk on stream_of r'). *)
Theorem C09_text_skip_lands_on_token : forall input fuel r toks rem,
  wf_bytes input -> rok input r -> skip_cap_ok r -> length (rest (rrd r)) < fuel ->
  token_skip (stream_of r) = Some (toks, rem) -> forallb tok_plain toks = true ->
  exists r', skip_container fuel r = Ok r' /\ rok input r' /\ stream_of r' = rem /\
             reader_position r' = reader_position r + (length (stream_of r) - length rem) /\
             cap (rbw r') = cap (rbw r).
Proof. exact skip_container_lands_on_token. Qed.
Print Assumptions C09_text_skip_lands_on_token.

(* ... and on documents: a reader standing just after any Open of the rendering of a simple
   document is left, by skip_container, on the rendering of the tokens that follow the matching
   Close of the document's token list.  Partial in the same sense as 4b. *)
Theorem C09_text_doc_stream_partial : forall d l pre post input fuel r,
  simple_fields d = true -> wf_layout d l ->
  toks_fields d = pre ++ lbrace :: post ->
  wf_bytes input -> rok input r ->
  stream_of r = render_toks (gap l) post (S (length pre)) ->
  skip_cap_ok r -> length (rest (rrd r)) < fuel ->
  exists post' r',
    match_close 1 post = Some post' /\
    skip_container fuel r = Ok r' /\ rok input r' /\
    stream_of r' = render_toks (gap l) post' (length (toks_fields d) - length post') /\
    cap (rbw r') = cap (rbw r).
Proof. exact doc_stream_skip. Qed.
Print Assumptions C09_text_doc_stream_partial.
