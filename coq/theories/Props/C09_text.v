(* C09 (text half) -- skip_container / skip_unquoted_value of the streaming text TokenReader land
   exactly after the matching close.  Statements only.
   Model: TextReader (sk_scan, skip_container_loop, suv_scan, skip_unquoted_value_loop) over BufWin.
   Specification: TextSkipRef (sk_scan_bytes, sref / skip_ref, skip_need, tok_count, uv_ref). *)
From JV Require Import Bytes Tables U64Swar BufWin TextTok TextReader TextRef TextSkipRef.
From JV.proofs Require Import BufWinProofs TextReaderMainProofs TextSkipProofs.
Open Scope nat_scope.

(* 1. The 8-byte SWAR step (contains_zero_byte for quote / hash / brace detection, count_chunk for
   the number of closes and opens, the bail-out when depth - closes < 1) is unobservable: for every
   window, pointer, state and depth, with fuel exceeding the bytes left in the window, the scan
   with the wide step equals the scan with the byte loop only. *)
Theorem C09_text_wide_eq_bytes : forall f1 f2 w ptr st depth,
  wf_bytes w -> length w - ptr < f1 -> length w - ptr < f2 ->
  sk_scan f1 w ptr st depth = sk_scan_bytes f2 w ptr st depth.
Proof. exact sk_scan_wide_eq_bytes. Qed.
Print Assumptions C09_text_wide_eq_bytes.
