(* C09 (text half) -- skip_container / skip_unquoted_value of the streaming text TokenReader land
   exactly after the matching close.  Statements only.
   Model: TextReader (sk_scan, skip_container_loop, suv_scan, skip_unquoted_value_loop) over BufWin.
   Specification: TextSkipRef (sk_scan_bytes, sref / skip_ref, skip_need, tok_count, uv_ref). *)
From JV Require Import Bytes Tables U64Swar BufWin TextTok TextReader TextRef TextSkipRef.
From JV.proofs Require Import BufWinProofs TextReaderMainProofs TextSkipProofs.
Open Scope nat_scope.

(* 1. The 8-byte SWAR step (contains_zero_byte for quote / hash / brace detection, count_chunk for
   the number of closes and opens, the bail-out when depth - closes < 1) is unobservable: for every
   window, pointer, state and depth, with fuel exceeding the bytes left in the window, the scan
   with the wide step equals the scan with the byte loop only. *)
Theorem C09_text_wide_eq_bytes : forall f1 f2 w ptr st depth,
  wf_bytes w -> length w - ptr < f1 -> length w - ptr < f2 ->
  sk_scan f1 w ptr st depth = sk_scan_bytes f2 w ptr st depth.
Proof. exact sk_scan_wide_eq_bytes. Qed.
Print Assumptions C09_text_wide_eq_bytes.

(* 2. On a single window that holds the whole remaining input the byte scan IS the byte-level
   reference: it finishes at [adv] exactly when the reference lands [adv - ptr] bytes further, and
   asks for more data (which, at the end of the input, is the Eof error) exactly when the
   reference finds no matching close. *)
Theorem C09_text_scan_ref : forall fuel w ptr st d,
  ptr <= length w -> length w - ptr < fuel ->
  match sk_scan_bytes fuel w ptr st d with
  | SkDone adv => ptr < adv <= length w /\ sref (skipn ptr w) st d 0 = Some (adv - ptr)
  | SkRefill _ _ _ => sref (skipn ptr w) st d 0 = None
  | SkCrash _ => False
  end.
Proof. exact scan_ref_whole. Qed.
Print Assumptions C09_text_scan_ref.

Theorem C09_text_scan_skip_ref : forall fuel w, length w < fuel ->
  match sk_scan_bytes fuel w 0 SkNone 1%Z with
  | SkDone adv => skip_ref w = Some adv /\ 0 < adv <= length w
  | SkRefill _ _ _ => skip_ref w = None
  | SkCrash _ => False
  end.
Proof. exact scan_whole_skip_ref. Qed.
Print Assumptions C09_text_scan_skip_ref.
