(* C20 — I/O failures surface as errors: the serde MapAccess key loops of the two reader
   deserializers (model BinDeStream: reader = list of operation results, a one-shot fault inserts RIo).
   Statements only.  The full property (fill_buf, TokenReader operations, positions, persistent
   faults) belongs to the buffer/reader models; here only the propagate-vs-discard structure of
   src/text/de.rs:231-246 and src/binary/de.rs:95-114 is pinned. *)
From JV Require Import Bytes BinDeStream.
From JV.proofs Require Import DeStreamProofs.

Theorem C20_text_key_loop_fault_sound_partial : forall root l1 l2,
  text_next_key root (l1 ++ RIo :: l2) = KErrIo \/
  text_next_key root (l1 ++ RIo :: l2) = text_next_key root (l1 ++ l2).
Proof. exact text_key_fault_sound. Qed.
Print Assumptions C20_text_key_loop_fault_sound_partial.

(* unchanged tree: the binary loop discards the result of the read after a ghost '{' (finding G);
   the witness  a={ {} b=1 }  with the fault on that read is replayed on the implementation by props/C20.py *)
Theorem C20_bin_key_loop_fault_refuted : exists root l1 l2,
  bin_next_key root (l1 ++ RIo :: l2) <> KErrIo /\
  bin_next_key root (l1 ++ RIo :: l2) <> bin_next_key root (l1 ++ l2).
Proof. exact bin_key_fault_unsound. Qed.
Print Assumptions C20_bin_key_loop_fault_refuted.

Theorem C20_bin_key_loop_fault_sound_without_ghost_partial : forall root l1 l2,
  (forall x, In x l1 -> x <> RTok TOpen) ->
  bin_next_key root (l1 ++ RIo :: l2) = KErrIo \/
  bin_next_key root (l1 ++ RIo :: l2) = bin_next_key root (l1 ++ l2).
Proof. exact bin_key_fault_sound_no_ghost. Qed.
Print Assumptions C20_bin_key_loop_fault_sound_without_ghost_partial.

Example C20_nonvacuous : text_next_key false ([RTok TOpen; RTok TClose] ++ RIo :: [RTok (TScalar 1)]) = KErrIo.
Proof. reflexivity. Qed.
