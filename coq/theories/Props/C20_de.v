(* C20 — I/O failures surface as errors: the serde MapAccess key loops of the two reader
   deserializers (model BinDeStream: reader = list of operation results, a one-shot fault inserts
   RIo).  Statements only.  Whether each loop propagates the result of the reader operation that
   follows an Open in key position is regenerated from src/text/de.rs and src/binary/de.rs
   (Tables.text_key_loop_propagates / bin_key_loop_propagates), so the two instances below are
   proved *for the code as it is now* by [eq_refl]; they stop compiling if a `?` becomes `let _ =`. *)
From JV Require Import Bytes Tables BinDeStream.
From JV.proofs Require Import DeStreamProofs.
From Coq Require Import List.
Import ListNotations.

Theorem C20_text_key_loop_fault_sound : forall root l1 l2,
  text_next_key root (l1 ++ RIo :: l2) = KErrIo \/
  text_next_key root (l1 ++ RIo :: l2) = text_next_key root (l1 ++ l2).
Proof. exact (text_key_fault_sound eq_refl). Qed.
Print Assumptions C20_text_key_loop_fault_sound.

(* was refuted on the original tree (finding G, `let _ = reader.read()`); holds since the fix *)
Theorem C20_bin_key_loop_fault_sound : forall root l1 l2,
  bin_next_key root (l1 ++ RIo :: l2) = KErrIo \/
  bin_next_key root (l1 ++ RIo :: l2) = bin_next_key root (l1 ++ l2).
Proof. exact (bin_key_fault_sound eq_refl). Qed.
Print Assumptions C20_bin_key_loop_fault_sound.

(* why the `?` matters: the same loop with the result discarded returns a wrong, non-I/O answer *)
Theorem C20_discarding_key_loop_refuted : exists root l1 l2,
  next_key false root (l1 ++ RIo :: l2) <> KErrIo /\
  next_key false root (l1 ++ RIo :: l2) <> next_key false root (l1 ++ l2).
Proof. exact discarding_key_loop_unsound. Qed.
Print Assumptions C20_discarding_key_loop_refuted.

Example C20_nonvacuous : text_next_key false ([RTok TOpen; RTok TClose] ++ RIo :: [RTok (TScalar 1)]) = KErrIo.
Proof. reflexivity. Qed.
