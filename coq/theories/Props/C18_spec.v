(* C18, second part — statements only.

   (a) The whole generated visitor (Derive.visit, the function the `model` stream runs against the
       implementation) computes the declarative reading of the property (DeriveMacro.spec_visit, run
       against the implementation by the `spec` stream): first "a plain field given twice is a
       duplicate", then per field, from the values of its occurrences in document order only:
       duplicated = all of them, take_last = the last, plain = the one, none = default or missing.
   (b) Error KINDS on the whole visitor: duplicate_field / missing_field, nothing else when the values
       are well-typed; an ill-typed value of a declared field is never swallowed.
   (c) The attribute table: the field_spec is computed from what the proc-macro reads off the field
       (DeriveMacro.spec_of_attrs, instantiated by the check from the harness source, not by hand),
       with the precedence rules of jomini_derive/src/lib.rs. *)
From JV Require Import Bytes Derive DeriveMacro.
From JV.proofs Require Import DeriveSpecProofs.
From Coq Require Import Arith.

Theorem C18_visit_is_spec : forall (V : Type) (specs : list (field_spec V)) kvs,
  values_ok V specs kvs -> visit V specs kvs = spec_visit V specs kvs.
Proof. exact visit_is_spec. Qed.
Print Assumptions C18_visit_is_spec.

(* a plain field given twice: the error is duplicate_field, wherever the two occurrences are and
   whatever else is missing *)
Theorem C18_dup_error_kind : forall (V : Type) (specs : list (field_spec V)) kvs i,
  values_ok V specs kvs -> dup_of V specs i = Once -> (2 <= length (occ V specs i kvs))%nat ->
  visit V specs kvs = Err E_DUP.
Proof. exact dup_error_kind. Qed.
Print Assumptions C18_dup_error_kind.

(* a required field without occurrence (and no duplicate): missing_field, on the whole visitor *)
Theorem C18_missing_error_kind : forall (V : Type) (specs : list (field_spec V)) kvs i f,
  values_ok V specs kvs -> dup_clash V specs kvs = false ->
  nth_error specs i = Some f -> f_dup f <> Duplicated -> f_miss f = Required ->
  occ V specs i kvs = [] ->
  visit V specs kvs = Err E_MISSING.
Proof. exact missing_error_kind. Qed.
Print Assumptions C18_missing_error_kind.

Theorem C18_error_kinds : forall (V : Type) (specs : list (field_spec V)) kvs,
  values_ok V specs kvs ->
  (exists outs, visit V specs kvs = Ok outs) \/ visit V specs kvs = Err E_DUP \/ visit V specs kvs = Err E_MISSING.
Proof. exact visit_error_kinds. Qed.
Print Assumptions C18_error_kinds.

(* the successful result, field by field, on the whole visitor (the `OVec []` branches are excluded by
   the last conjunct: a required field has a value) *)
Theorem C18_ok_fields : forall (V : Type) (specs : list (field_spec V)) kvs outs i f,
  values_ok V specs kvs -> visit V specs kvs = Ok outs -> nth_error specs i = Some f ->
  let vals := okvals V (occ V specs i kvs) in
  occ V specs i kvs = map Ok vals /\
  nth_error outs i = Some
    (match f_dup f with
     | Duplicated => OVec vals
     | TakeLast => match rev vals with v :: _ => OVal v | [] => match f_miss f with DefaultTo d => OVal d | Required => OVec [] end end
     | Once => match vals with v :: _ => OVal v | [] => match f_miss f with DefaultTo d => OVal d | Required => OVec [] end end
     end) /\
  (f_dup f = Once -> (length vals <= 1)%nat) /\
  (f_dup f <> Duplicated -> f_miss f = Required -> vals <> []).
Proof. exact visit_ok_fields. Qed.
Print Assumptions C18_ok_fields.

(* no hypothesis on the other values: an ill-typed value of a declared field fails the struct *)
Theorem C18_bad_value_rejected : forall (V : Type) (specs : list (field_spec V)) kvs i r,
  In r (occ V specs i kvs) -> (forall v, r <> Ok v) -> is_ok (visit V specs kvs) = false.
Proof. exact bad_value_rejected. Qed.
Print Assumptions C18_bad_value_rejected.

(* ---- the attribute table ---- *)
Theorem C18_attrs_policy : forall (V : Type) (a : field_attrs V),
  f_dup (spec_of_attrs V a) =
    (if a_duplicated a then Duplicated else if a_take_last a then TakeLast else Once)
  /\ f_miss (spec_of_attrs V a) =
    (if a_option a then DefaultTo (a_type_default a)
     else match a_default a with DefWord => DefaultTo (a_type_default a) | DefPath => DefaultTo (a_path_default a) | DefAbsent => Required end).
Proof. exact attrs_policy. Qed.
Print Assumptions C18_attrs_policy.

(* the alias replaces the name: the first alias matches, nothing else does (not the own name, not a
   second alias) *)
Theorem C18_attrs_alias : forall (V : Type) (a : field_attrs V) al rest,
  a_aliases a = al :: rest ->
  key_matches V (spec_of_attrs V a) (KStr al) = true /\
  (a_name a <> al -> key_matches V (spec_of_attrs V a) (KStr (a_name a)) = false) /\
  (forall al', al' <> al -> key_matches V (spec_of_attrs V a) (KStr al') = false).
Proof. exact attrs_alias_replaces_name. Qed.
Print Assumptions C18_attrs_alias.

Theorem C18_attrs_token : forall (V : Type) (a : field_attrs V) t rest,
  a_tokens a = t :: rest ->
  key_matches V (spec_of_attrs V a) (KTok t) = true /\
  (forall t', t' <> t -> key_matches V (spec_of_attrs V a) (KTok t') = false).
Proof. exact attrs_token. Qed.
Print Assumptions C18_attrs_token.

Theorem C18_struct_semantics : forall (V : Type) (tbl : list (field_attrs V)) kvs,
  values_ok V (map (spec_of_attrs V) tbl) kvs ->
  visit_attrs V tbl kvs = spec_visit V (map (spec_of_attrs V) tbl) kvs.
Proof. exact struct_semantics. Qed.
Print Assumptions C18_struct_semantics.

(* the macro reads Option off the type BEFORE the default attribute: `#[jomini(default = "f")] x: Option<T>`
   never calls f (harness struct DOF; finding option-default-fn) *)
Theorem C18_option_ignores_default_fn_refuted : exists (a : field_attrs N),
  a_default a = DefPath /\ f_miss (spec_of_attrs N a) <> DefaultTo (a_path_default a).
Proof. exact option_ignores_default_fn. Qed.
Print Assumptions C18_option_ignores_default_fn_refuted.

(* non-vacuity: struct { #[alias="core", duplicated] cores, #[take_last] checksum, #[default] count, req }
   from its attribute table; `core=1 x=9 checksum=2 core=3 checksum=4 req=5`, then without req, then req twice *)
Example C18_spec_nonvacuous :
  let tbl := [mk_attrs [99;115] [[99]] [] true false false DefAbsent 0%N 0%N;
              mk_attrs [115] [] [] false true false DefAbsent 0%N 0%N;
              mk_attrs [110] [] [] false false false DefWord 0%N 0%N;
              mk_attrs [114] [] [] false false false DefAbsent 0%N 0%N] in
  let body := [(KStr [99], Ok 1%N); (KStr [120], Ok 9%N); (KStr [115], Ok 2%N); (KStr [99], Ok 3%N); (KStr [115], Ok 4%N)] in
  visit_attrs N tbl (body ++ [(KStr [114], Ok 5%N)]) = Ok [OVec [1%N; 3%N]; OVal 4%N; OVal 0%N; OVal 5%N]
  /\ visit_attrs N tbl body = Err E_MISSING
  /\ visit_attrs N tbl ((KStr [114], Ok 6%N) :: body ++ [(KStr [114], Ok 5%N)]) = Err E_DUP
  /\ spec_visit N (map (spec_of_attrs N) tbl) (body ++ [(KStr [114], Ok 5%N)]) = Ok [OVec [1%N; 3%N]; OVal 4%N; OVal 0%N; OVal 5%N]
  /\ macro_accepts N tbl = true.
Proof. vm_compute. repeat split; reflexivity. Qed.
