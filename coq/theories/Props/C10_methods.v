(* C10 -- one struct definition serves both formats, at the level of the serde method tables (engineer w_fwd, wave 5).
   Statements only.  DeMethods.predict is computed from the tables generated out of src/binary/de.rs and src/text/de.rs and
   is run against the real deserializers by the streams `method_table` of C04 (de.meth.bin) and C02 (de.meth.text). *)
From Coq Require Import List NArith Bool.
From JV Require Import Tables DeMethods.
From JV.proofs Require Import DeMethodsProofs.
Import ListNotations.
Open Scope N_scope.

(* For every natural cell -- a typed hint on the typed binary token and on the text scalar that renders the same value
   (bool on a bool / yes-no, every integer width on an i32 / u32 / i64 / u64 token / a decimal integer, signed widths on
   negative ones, f32 / f64 on a float token / a decimal fraction), the string-like and wrapper methods (any char str string
   identifier option newtype_struct enum) on a quoted / unquoted / resolvable id token / a word, the sequence methods on an
   array, map / struct on an object, ignored_any on everything -- all three binary value deserializers and both text value
   deserializers present the same visits to the visitor: 180 cells x 3 x 2 deserializers x 3 strategies. *)
Theorem C10_natural_hints_same_visits : forall m tb tx db dt s,
  In (m, tb, tx) natural_cells -> In db bin_value_deserializers -> In dt text_value_deserializers -> In s strategies ->
  predict db m tb s = predict dt m tx s.
Proof. exact natural_cells_same_visits. Qed.
Print Assumptions C10_natural_hints_same_visits.

Example C10_natural_nonvacuous :
  In (M_u8, T_u64, T_tint) natural_cells /\ predict D_bin_tape_value M_u8 T_u64 0 = ([H_int], S_ok) /\
  length natural_cells = 180%nat.
Proof. vm_compute. repeat split; auto 40. Qed.

(* NOT for unit targets (the text / binary face of finding Q of C04): `()` and unit structs are answered with visit_unit by
   both text deserializers and by the two binary lexer paths, while the binary tape hands the integer to the unit visitor. *)
Theorem C10_unit_same_visits_refuted : forall m s, In m [M_unit; M_unit_struct] -> In s strategies ->
  predict D_text_tape_value m T_tint s = ([H_unit], S_ok) /\
  predict D_bin_ondemand_tok m T_i32 s = ([H_unit], S_ok) /\
  predict D_bin_tape_value m T_i32 s = ([H_int], S_ok).
Proof. exact unit_text_vs_bin_tape. Qed.
Print Assumptions C10_unit_same_visits_refuted.
