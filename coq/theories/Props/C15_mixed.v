(* C15 (wave 4) -- MIXED MODE joins the proved fragment.  Props/C15_reparse.v is `_partial` because its
   call relation [calls_of] has no start_mixed_mode.  [mcalls_of fdisp d cs]
   (proofs/WriterMixedCallsProofs.v) contains every constructor of [calls_of]
   ([C15_mixed_includes_calls_of]) plus:

     a list opened with write_array_start, write_binary(Array) or write_start (unknown kind: the
     FirstUnknown -> SecondUnknown -> ArrayValue resolution is inside the statement), one or more
     elements, then start_mixed_mode or write_binary(MixedContainer), then one or more triples
       key            any scalar-like call (unquoted, quoted, ints, floats, bool, date, fmt, write_binary ..)
       operator       write_operator(any of the 8), or write_binary(Equal) for `=`
       value          any scalar-like call
     then write_end / write_binary(End);  it describes the document value  VArrayKv elements pairs.

   What stays outside (and cannot be proved: the code violates the property there, known findings
   calls-mixed-nested-op and calls-mixed-mode-lost): CONTAINER values inside the key-value part, and
   bare values between the pairs (not in the document grammar of TextDoc.v; exercised by the stream
   calls_doc).  Parameters have no writer call.  Floats / dates as before: their text must be a bare
   word, which is part of [wf_doc d].
   Statements only. *)
From JV Require Import Bytes Tables TextTok TextTape TextDoc Date Scalar Writer.
From JV.proofs Require Import WriterProofs WriterLayoutDefs WriterLayoutProofs WriterCallsLayoutProofs WriterMixedCallsProofs.
Open Scope nat_scope.

Theorem C15_mixed_includes_calls_of : forall fdisp d cs, calls_of fdisp d cs -> mcalls_of fdisp d cs.
Proof. intros fdisp d cs H. exact (proj1 (proj2 (proj2 (calls_are_mcalls fdisp))) d cs H). Qed.
Print Assumptions C15_mixed_includes_calls_of.

(* every call list of the extended fragment, every configuration, every float oracle: no call fails,
   the writer ends at depth 0 expecting a key, and the bytes are the writer's layout of d *)
Theorem C15_mixed_calls_are_layout : forall fdisp c d cs, mcalls_of fdisp d cs ->
  exists log, Writer.run fdisp c cs = Ok (cbytes (chunks_w c d), log) /\
    Forall (fun e => fst e = false) log /\ last (map snd log) wr_init = w_end d.
Proof.
  intros fdisp c d cs H. destruct (runw_run fdisp c _ _ _ _ (mcalls_chunks fdisp c d cs H)) as [log [R [F L]]].
  exists log. repeat split; assumption.
Qed.
Print Assumptions C15_mixed_calls_are_layout.

(* THE PROPERTY on the extended fragment: the output parses (parser model of C01) to exactly flatten d *)
Theorem C15_mixed_calls_parse_back : forall fdisp c d cs,
  mcalls_of fdisp d cs -> wf_doc d -> nobom d = true -> cfg_ok c ->
  exists out log, Writer.run fdisp c cs = Ok (out, log) /\
    Forall (fun e => fst e = false) log /\ parse out = Ok (flatten d, false).
Proof.
  intros fdisp c d cs H Hwf Hnb Hc. destruct (mcalls_parse_back fdisp c d cs H Hwf Hnb Hc) as [log [R [F [_ P]]]].
  eexists. exists log. repeat split; eassumption.
Qed.
Print Assumptions C15_mixed_calls_parse_back.

(* non-vacuity:  l = { 1 a != "x y" b = 2 }  written with write_start (ONE element before the switch:
   the state is still SecondUnknown), write_binary(MixedContainer), write_operator(NotEqual),
   write_quoted, write_binary(Equal), write_u32, write_binary(End); the document is well formed, the
   call list is in the fragment, and the bytes under tab x 3 are the writer's layout *)
Open Scope N_scope.
Definition ex_mcalls : list call :=
  [CUnquoted [108]; CStart; CI32 1%Z; CBinary BMixed; CUnquoted [97]; COperator NotEqual; CQuoted [120; 32; 121];
   CUnquoted [98]; CBinary BEqual; CU32 2; CBinary (BEnd 0)].
Definition ex_mdoc : doc :=
  FCons (Field Unq [108] None
    (VArrayKv (VCons (VScalar Unq [49]) VNil)
              (FCons (Field Unq [97] (Some NotEqual) (VScalar Quo [120; 32; 121]))
              (FCons (Field Unq [98] (Some Equal) (VScalar Unq [50])) FNil)))) FNil.
Open Scope nat_scope.

Example C15_mixed_nonvacuous : forall fdisp,
  mcalls_of fdisp ex_mdoc ex_mcalls /\ wf_doc ex_mdoc /\ nobom ex_mdoc = true /\ cfg_ok (mkcfg 9 3 false) /\
  exists log, Writer.run fdisp (mkcfg 9 3 false) ex_mcalls
              = Ok ([108; 61; 123; 10; 9; 9; 9; 49; 32; 97; 33; 61; 34; 120; 32; 121; 34; 32; 98; 61; 50; 10; 125]%N, log).
Proof.
  intros fdisp. split; [|split; [reflexivity|split; [reflexivity|split; [left; reflexivity|eexists; vm_compute; reflexivity]]]].
  unfold mcalls_of, ex_mdoc, ex_mcalls.
  apply (mfs_cons fdisp _ _ [CUnquoted [108%N]; CStart; CI32 1%Z; CBinary BMixed; CUnquoted [97%N]; COperator NotEqual; CQuoted [120%N; 32%N; 121%N];
                             CUnquoted [98%N]; CBinary BEqual; CU32 2%N; CBinary (BEnd 0%N)] []); [|constructor].
  apply (mf_field fdisp (CUnquoted [108%N]) Unq [108%N] None []); [reflexivity|left; auto|].
  apply (mv_arr_kv fdisp CStart (CBinary (BEnd 0%N)) (CBinary BMixed) (VScalar Unq [49%N]) VNil [CI32 1%Z] _
           [CUnquoted [97%N]; COperator NotEqual; CQuoted [120%N; 32%N; 121%N]; CUnquoted [98%N]; CBinary BEqual; CU32 2%N]);
    [reflexivity|reflexivity|reflexivity| | |discriminate].
  - apply (mis_cons fdisp _ _ [CI32 1%Z] []); [reflexivity|apply (mv_scalar fdisp (CI32 1%Z)); reflexivity|constructor].
  - apply (ckvs_cons fdisp (CUnquoted [97%N]) Unq [97%N] (COperator NotEqual) NotEqual (CQuoted [120%N; 32%N; 121%N]) Quo [120%N; 32%N; 121%N]);
      [reflexivity|left; reflexivity|reflexivity|].
    apply (ckvs_cons fdisp (CUnquoted [98%N]) Unq [98%N] (CBinary BEqual) Equal (CU32 2%N) Unq [50%N]);
      [reflexivity|right; split; reflexivity|reflexivity|constructor].
Qed.
