(* C07 (wave 4) -- the entry points of text::TokenReader as lists of calls on ONE reader (state
   carried from call to call), for every schedule and every fitting buffer.  Statements only.
   Model: TextOps (reader_next, reader_read, read_bytes_st, run_ops over TextReader/BufWin);
   reference: TextRef.tokens_of / need.  [ref_items ops l] = the first |ops| reference items,
   a clean end being reported as XEnd by next and as Eof by read.
   Hypotheses as in Props/C07.v: wf_bytes (bytes < 256), no_fail (I/O faults are C20),
   need input <= cap ("the buffer can hold the longest atom"; cap = 0 with a non-empty input is
   excluded: see C07_stream_cap0_refuted).  [tok_op]: the calls are next / read; read_bytes in the
   middle of the token stream is NOT chunk independent in the code (C07_read_bytes_after_token_refuted). *)
From JV Require Import Bytes Tables U64Swar BufWin TextTok TextReader TextRef TextOps.
From JV.proofs Require Import BufWinProofs TextRefProofs TextReaderMainProofs TextReaderFullProofs TextOpsProofs.
Open Scope nat_scope.

(* one call of next on ANY reachable reader state (rok: the window and the unread data are a suffix
   of the input, no pending fault, the window fits the buffer) whose buffer can hold what the next
   token needs: the result is the reference tokenizer's on the remaining stream; the new state is
   again reachable and its remaining stream is the reference remainder (up to one blank already
   consumed by the fast path) *)
Theorem C07_next_call_eq_reference : forall input fuel r,
  wf_bytes input -> rok input r -> length (rest (rrd r)) + 2 <= fuel ->
  capok (rbw r) (rrd r) (snd (tk (startb r) (stream_of r))) ->
  stepres_ws input (cap (rbw r)) (length (rest (rrd r))) (fst (tk (startb r) (stream_of r))) (next_opt fuel r).
Proof. exact next_opt_step. Qed.
Print Assumptions C07_next_call_eq_reference.

(* ... and when the buffer cannot hold what the next token needs, that call (next or read alike:
   read only rewrites a clean end) answers BufferFull -- on any reachable state, not only in the
   next-until-the-end driver of C07_stream_full *)
Theorem C07_next_call_full : forall input fuel r,
  wf_bytes input -> rok input r -> 0 < cap (rbw r) -> length (rest (rrd r)) + 2 <= fuel ->
  cap (rbw r) < snd (tk (startb r) (stream_of r)) ->
  exists r', next_opt fuel r = NErr E_BufferFull r'.
Proof. exact next_opt_full. Qed.
Print Assumptions C07_next_call_full.

(* any list of next / read calls: the streaming reader returns the reference items ... *)
Theorem C07_ops_stream_eq_reference : forall input sch capv ops,
  wf_bytes input -> no_fail sch -> need input <= capv -> Forall tok_op ops ->
  items_of (stream_ops capv sch input ops) = ref_items ops (tokens_of input) /\
  (forall p, In (XEnd, p) (fst (stream_ops capv sch input ops)) -> p = length input).
Proof. exact ops_stream_eq_tok. Qed.
Print Assumptions C07_ops_stream_eq_reference.

Theorem C07_ops_slice_eq_reference : forall input ops, wf_bytes input -> Forall tok_op ops ->
  items_of (slice_ops input ops) = ref_items ops (tokens_of input) /\
  (forall p, In (XEnd, p) (fst (slice_ops input ops)) -> p = length input).
Proof. exact ops_slice_eq_tok. Qed.
Print Assumptions C07_ops_slice_eq_reference.

(* ... hence what the from_slice reader returns for the same calls *)
Theorem C07_ops_stream_eq_slice : forall input sch capv ops,
  wf_bytes input -> no_fail sch -> need input <= capv -> Forall tok_op ops ->
  items_of (stream_ops capv sch input ops) = items_of (slice_ops input ops).
Proof. exact ops_stream_eq_slice. Qed.
Print Assumptions C07_ops_stream_eq_slice.

(* read vs next: the same calls with every read replaced by next give the same items, except that
   the clean end is an Eof error for read *)
Theorem C07_read_is_next_with_eof : forall input sch capv ops,
  wf_bytes input -> no_fail sch -> need input <= capv -> Forall tok_op ops ->
  items_of (stream_ops capv sch input ops) = patch ops (items_of (stream_ops capv sch input (as_next ops))).
Proof. exact read_is_next_with_eof. Qed.
Print Assumptions C07_read_is_next_with_eof.

(* "the final position equals the input length" *)
Theorem C07_stream_clean_end_position : forall input sch capv,
  wf_bytes input -> no_fail sch -> need input <= capv ->
  In OEnd (fst (run_stream capv sch input)) -> snd (run_stream capv sch input) = length input.
Proof. exact stream_clean_end_position. Qed.
Print Assumptions C07_stream_clean_end_position.

Theorem C07_slice_clean_end_position : forall input, wf_bytes input ->
  In OEnd (fst (run_slice input)) -> snd (run_slice input) = length input.
Proof. exact slice_clean_end_position. Qed.
Print Assumptions C07_slice_clean_end_position.

(* read_bytes(n) on any reachable state, n <= buffer length: exactly the next n bytes of the stream
   (the rest of the stream stays), or Eof when fewer than n bytes remain -- whatever the schedule *)
Theorem C07_read_bytes_eq_stream : forall input fuel r n,
  rok input r -> length (rest (rrd r)) < fuel ->
  (cap (rbw r) = 0 /\ rest (rrd r) = []) \/ n <= cap (rbw r) ->
  exists r', rok input r' /\ cap (rbw r') = cap (rbw r) /\
    if Nat.leb n (length (stream_of r))
    then read_bytes_st fuel r n = (Ok (firstn n (stream_of r)), r') /\ stream_of r' = skipn n (stream_of r)
    else read_bytes_st fuel r n = (Err E_Eof, r') /\ stream_of r' = stream_of r.
Proof. exact read_bytes_spec. Qed.
Print Assumptions C07_read_bytes_eq_stream.

Theorem C07_read_bytes_st_is_read_bytes : forall fuel r n,
  read_bytes fuel r n =
  match read_bytes_st fuel r n with
  | (Ok b, r') => Ok (b, r')
  | (Err e, _) => Err e
  | (Panic s, _) => Panic s
  | (OOB s, _) => OOB s
  | (OutOfFuel, _) => OutOfFuel
  end.
Proof. exact read_bytes_st_eq. Qed.
Print Assumptions C07_read_bytes_st_is_read_bytes.

(* a header taken with read_bytes as the first call, then any next / read calls *)
Theorem C07_header_then_tokens : forall input sch capv n ops,
  wf_bytes input -> no_fail sch -> Forall tok_op ops ->
  0 < n <= length input -> n <= capv -> snd (rr false (skipn n input)) <= capv ->
  items_of (stream_ops capv sch input (OBytes n :: ops)) =
  XBytes (firstn n input) :: ref_items ops (fst (fst (rr false (skipn n input)))).
Proof. exact header_then_tokens. Qed.
Print Assumptions C07_header_then_tokens.

(* a buffer that is too small, for any list of next / read calls: the calls return a prefix of the
   reference tokens (a proper one: something is always left) and then BufferFull -- never a clean
   end, never an Eof, never a token the reference does not have at that place *)
Theorem C07_ops_stream_full : forall input sch capv ops,
  wf_bytes input -> no_fail sch -> 0 < capv < need input -> Forall tok_op ops ->
  exists pre suf,
    (items_of (stream_ops capv sch input ops) = map XTok pre /\ length pre = length ops \/
     items_of (stream_ops capv sch input ops) = map XTok pre ++ [XErr E_BufferFull]) /\
    tokens_of input = map OTok pre ++ suf /\ suf <> [].
Proof. exact ops_stream_full. Qed.
Print Assumptions C07_ops_stream_full.

(* ---------- witnesses: what the hypotheses exclude ---------- *)
Definition C07_w_input : bytes := [97;98;99;100;101;102;103;104;105;106;32;107;108;109;110;111;112;113;114;115;116]%N.  (* "abcdefghij klmnopqrst" *)

(* read_bytes right after an unquoted token: the from_slice reader (fast path) has already consumed
   the blank, a reader fed byte by byte has not.  Not promised by the property (token sequence and
   final position are); recorded so that nobody relies on it. *)
Theorem C07_read_bytes_after_token_refuted :
  wf_bytes C07_w_input /\ no_fail (repeat (Data 1) 21) /\ need C07_w_input <= 15 /\
  items_of (stream_ops 15 (repeat (Data 1) 21) C07_w_input [ONext; OBytes 1]) = [XTok (RUnq (firstn 10 C07_w_input)); XBytes [32%N]] /\
  items_of (slice_ops C07_w_input [ONext; OBytes 1]) = [XTok (RUnq (firstn 10 C07_w_input)); XBytes [107%N]].
Proof.
  split; [repeat constructor|]. split; [intros H; apply repeat_spec in H; discriminate|].
  split; [vm_compute; repeat constructor|]. split; vm_compute; reflexivity.
Qed.
Print Assumptions C07_read_bytes_after_token_refuted.

(* ... and so is position() in the middle of the stream (10 vs 11); the final position is not *)
Theorem C07_mid_position_refuted :
  map snd (fst (stream_ops 15 (repeat (Data 1) 21) C07_w_input [ONext; ONext; ONext])) = [10; 21; 21] /\
  map snd (fst (slice_ops C07_w_input [ONext; ONext; ONext])) = [11; 21; 21].
Proof. split; vm_compute; reflexivity. Qed.
Print Assumptions C07_mid_position_refuted.

(* a buffer of no bytes (builder().buffer_len(0)) is the model's -- and the code's -- encoding of
   the bufferless slice window: fill_buf answers Ok(0) and the data is dropped with a clean end.
   Not a streaming configuration ("buffer lengths from just-sufficient"); recorded. *)
Theorem C07_stream_cap0_refuted :
  fst (run_stream 0 [] [97;61;49]%N) = [OEnd] /\ fst (run_slice [97;61;49]%N) <> [OEnd].
Proof. split; [vm_compute; reflexivity|vm_compute; discriminate]. Qed.
Print Assumptions C07_stream_cap0_refuted.

(* non-vacuity of the hypotheses of the main theorems *)
Example C07_ops_ex : Forall tok_op [ONext; ORead; ONext; ORead] /\
  items_of (stream_ops 15 (repeat (Data 1) 21) C07_w_input [ONext; ORead; ONext; ORead]) =
  [XTok (RUnq (firstn 10 C07_w_input)); XTok (RUnq (skipn 11 C07_w_input)); XEnd].
Proof. split; [repeat constructor|vm_compute; reflexivity]. Qed.
Example C07_header_ex :
  snd (rr false (skipn 3 C07_w_input)) = 11 /\
  items_of (stream_ops 11 (repeat (Data 1) 21) C07_w_input [OBytes 3; ORead; ORead; ORead]) =
  [XBytes [97;98;99]%N; XTok (RUnq [100;101;102;103;104;105;106]%N); XTok (RUnq (skipn 11 C07_w_input)); XErr E_Eof].
Proof. split; vm_compute; reflexivity. Qed.
