(* C08, wave 4 -- mixes of calls.  Statements only.
   Models: BinOps (reader_ops / lexer_ops: a list of next/read/read_bytes calls, each recorded with the
   position() that follows it; a failing call does not end the run). *)
From JV Require Import Bytes Tables BinPrim BufWin BinLexer BinReader BinOps.
From JV.proofs Require Import BinOpsProofs.
Open Scope nat_scope.

(* every mix of TokenReader::next / read / read_bytes(n) gives, call by call, the results and positions
   of Lexer::next_token / read_token / read_bytes(n) -- through failing calls too -- for every input,
   every fault-free schedule and every capacity that holds what each call needs (ops_fit) *)
Theorem C08_reader_ops_eq_lexer_ops : forall input sched cap ops,
  no_fail sched = true -> ops_fit cap ops (lx_new input) = true ->
  reader_ops cap sched input ops = lexer_ops input ops.
Proof. exact reader_ops_eq_lexer_ops. Qed.
Print Assumptions C08_reader_ops_eq_lexer_ops.

(* in particular with a buffer larger than the input *)
Theorem C08_reader_ops_eq_lexer_ops_big : forall input sched cap ops,
  no_fail sched = true -> length input < cap ->
  reader_ops cap sched input ops = lexer_ops input ops.
Proof. exact reader_ops_eq_lexer_ops_big. Qed.
Print Assumptions C08_reader_ops_eq_lexer_ops_big.

(* non-vacuity: a 4-byte header read with read_bytes, a token, a failing read_bytes, then more tokens,
   in a 7-byte buffer under short reads *)
Example C08_ops_nonvacuous :
  let input := [69; 85; 52; 98]%N ++ write_token (BU32 7%N) ++ write_token BOpen in
  let ops := [OpBytes 4; OpRead; OpBytes 3; OpNext; OpNext; OpRead] in
  ops_fit 7 ops (lx_new input) = true /\ ~ length input < 7 /\
  reader_ops 7 [Data 1; Data 2; Data 3] input ops = lexer_ops input ops /\
  map snd (lexer_ops input ops) = [4; 10; 10; 12; 12; 12].
Proof. vm_compute. repeat split. intros H. repeat (apply le_S_n in H). inversion H. Qed.
