(* C03 — faithfulness clause: "for every well-formed binary token stream the binary tape contains
   exactly the stream's keys and values with their binary types and payloads, containers classified
   and delimited, ghost `{}` in key position dropped".
   Abstract binary documents (BinDoc.v: fields with token-id / quoted / unquoted / i32 keys, typed
   scalar values, rgb, nested objects and arrays, ghost objects [g]), their byte encoding [enc_doc]
   and their expected tape [flat_doc] were introduced by the deserializer family; the two theorems
   are proved there (proofs/BinDeParseProofs.v) and pinned here under the property they belong to.
   Both hold for the optimised parser as well (second theorem; it uses C03's simulation and the
   generated fact that the key fast path excludes I64). *)
From JV Require Import Bytes Tables BinPrim BinTape BinDoc.
From JV.Props Require C04_walk.

Theorem C03_ref_faithful : forall fs g,
  wf_doc fs g = true -> tape_ok_doc fs = true -> parse_ref (enc_doc fs g) = Ok (flat_doc fs).
Proof. exact C04_walk.C04_parse_ref_encoded_doc. Qed.
Print Assumptions C03_ref_faithful.

Theorem C03_opt_faithful : forall fs g,
  wf_doc fs g = true -> tape_ok_doc fs = true -> parse_opt (enc_doc fs g) = Ok (flat_doc fs).
Proof. exact C04_walk.C04_parse_encoded_doc. Qed.
Print Assumptions C03_opt_faithful.
