(* C19 — Truncated documents never yield fabricated data.  TEXT TAPE, strengthening S2 of
   audit/C19.md (section 5): the auto-closed token is an OBJECT.
   Statements only; proofs in proofs/TruncObjProofs.v, definitions in TextTruncObj.v.

   Props/C19_main.v proves, for the tape t of a truncated input and the tape F of the complete one,
     consistent_tape F t :=  prefix_cut t F
                          \/ exists p body y, t = F[0..p) ++ Object{end} :: body ++ [End p]
                                /\ F[p] = y /\ y is a CONTAINER token (Array or Object) /\ prefix_cut body F[p+1..)
   Disjunct (b) is the one-missing-bracket tolerance: the parser, at the end of the data in state
   Key with one open container whose end slot is 0, writes `Object{end}` over the token at the
   parent index and appends `End`.  "F[p] is a container" is weaker than what the code does: it
   would allow an ARRAY of the original (`a={1 2 3}` cut after `2`) to come back as an object
   `{1 2}`.  That cannot happen: the auto-close only fires in state Key, and in the states Key /
   KeyValueSeparator / ObjectValue a non-zero parent index always holds an Object token (an array
   body is parsed in state ArrayValue, where the end of the data is an error).  Here:

     consistent_tape_obj F t :=  prefix_cut t F
                              \/ exists p body, (same equations) /\ exists e m, F[p] = Object{e, m}
                                                /\ prefix_cut body F[p+1..)

   C19_key_state_parent_is_object   the invariant J: state in {Key, Kvs, ObjVal} and parent <> 0
                                    imply tape[parent] is an Object; preserved by every step
   C19_objects_stay                 an Object token of any reachable tape is still an Object token,
                                    at the same index, in the final tape (needs only the loop
                                    invariant Inv, not J)
   C19_trunc_generic_obj / C19_trunc_text_obj   the main theorems with consistent_tape_obj
   C19_consistent_tape_obj_sound    the new predicate implies the old one
   C19_obj_separation               the old predicate is strictly weaker: it accepts an array
                                    auto-closed as an object, the new one does not, and the model
                                    rejects that truncated input. *)
From JV Require Import Bytes Tables TextTok TextTape TextTapeWf TextDoc TextTrunc TextTruncObj.
From JV.proofs Require Import TextTapeWfProofs TextTapeInvProofs TruncMainProofs TruncObjProofs.
From JV.Props Require Import C19_main.
From Coq Require Import List Lia.
Import ListNotations.
Open Scope nat_scope.

(* ---- the property, for every well-formed document, every layout and EVERY cut point ---- *)
Theorem C19_trunc_text_obj : forall d l k,
  wf_doc d -> wf_layout d l ->
  let r := parse (firstn k (render d l)) in
  (exists e, r = Err e) \/ consistent_obj d r.
Proof. exact trunc_text_obj. Qed.
Print Assumptions C19_trunc_text_obj.

(* ---- the same for any byte string that parses ---- *)
Theorem C19_trunc_generic_obj : forall D F b k,
  parse D = Ok (F, b) ->
  (exists e, parse (firstn k D) = Err e) \/
  (exists t b', parse (firstn k D) = Ok (t, b') /\ consistent_tape_obj F t).
Proof. exact trunc_generic_obj. Qed.
Print Assumptions C19_trunc_generic_obj.

(* ---- the new predicate implies the old one (so everything of Props/C19_main.v still follows) ---- *)
Theorem C19_consistent_tape_obj_sound : forall F t, consistent_tape_obj F t -> consistent_tape F t.
Proof. exact consistent_tape_obj_sound. Qed.
Print Assumptions C19_consistent_tape_obj_sound.

Theorem C19_consistent_obj_sound : forall d r, consistent_obj d r -> consistent d r.
Proof. exact consistent_obj_sound. Qed.

(* ---- the invariant: in the object-body states a non-zero parent is an Object token ---- *)
Theorem C19_key_state_parent_is_object_init : forall data,
  let s := mkps data SKey false 0 [] in
  (pst_ s = SKey \/ pst_ s = SKvs \/ pst_ s = SObjVal) -> pparent s <> 0 ->
  exists e m, nth_error (ptape s) (pparent s) = Some (TObject e m).
Proof. exact J_init. Qed.

Theorem C19_key_state_parent_is_object : forall s s',
  Inv s ->
  ((pst_ s = SKey \/ pst_ s = SKvs \/ pst_ s = SObjVal) -> pparent s <> 0 ->
   exists e m, nth_error (ptape s) (pparent s) = Some (TObject e m)) ->
  step s = Next s' ->
  (pst_ s' = SKey \/ pst_ s' = SKvs \/ pst_ s' = SObjVal) -> pparent s' <> 0 ->
  exists e m, nth_error (ptape s') (pparent s') = Some (TObject e m).
Proof. exact J_step. Qed.
Print Assumptions C19_key_state_parent_is_object.

(* ... and along a whole run *)
Theorem C19_key_state_parent_is_object_runs : forall s sf, runs s sf -> Inv s -> J s -> J sf.
Proof. exact J_runs. Qed.

(* ---- an Object token stays an Object token at the same index: one step, and up to the final tape ---- *)
Theorem C19_objects_stay_step : forall s s' i e m,
  Inv s -> step s = Next s' ->
  nth_error (ptape s) i = Some (TObject e m) -> exists e' m', nth_error (ptape s') i = Some (TObject e' m').
Proof. intros s s' i e m HI H. exact (step_oext s s' HI H i e m). Qed.

Theorem C19_objects_stay : forall s sf F i e m,
  runs s sf -> step sf = Done F -> Inv s ->
  nth_error (ptape s) i = Some (TObject e m) -> exists e' m', nth_error F i = Some (TObject e' m').
Proof. intros s sf F i e m R HD HI. exact (runs_oext s sf F R HD HI i e m). Qed.
Print Assumptions C19_objects_stay.

(* ---- hence: the token that the cut run auto-closes is an Object of the complete tape ---- *)
Theorem C19_key_parent_object : forall s sf F,
  runs s sf -> step sf = Done F -> Inv s -> J s -> pst_ s = SKey -> pparent s <> 0 ->
  exists e m, nth_error F (pparent s) = Some (TObject e m).
Proof. exact key_parent_object. Qed.

(* ---- the run on the truncated data, from any reachable state of the complete run ---- *)
Theorem C19_cut_run_obj : forall s sf F,
  runs s sf -> step sf = Done F -> Inv s -> J s ->
  forall r fuel tr, ploop fuel (chopS r s) = Ok tr -> consistent_tape_obj F tr.
Proof. exact cut_run_obj. Qed.
Print Assumptions C19_cut_run_obj.

(* ---- non-vacuity:  a = bcd x = { y = zz }  cut inside `zz`: disjunct (b), with an Object, and
        not disjunct (a) ---- *)
Example C19_obj_nonvacuous :
  let F := flatten c19_doc in
  exists t, parse (firstn 19 (render c19_doc c19_layout)) = Ok (t, false) /\
    (exists p body,
       0 < p /\
       t = firstn p F ++ TObject (p + 1 + length body) false :: body ++ [TEnd p] /\
       length (firstn p F) = p /\
       (exists e m, nth_error F p = Some (TObject e m)) /\
       prefix_cut body (skipn (S p) F)) /\
    ~ prefix_cut t F /\
    consistent_tape_obj F t.
Proof.
  intros F.
  assert (B : exists p body,
       0 < p /\
       [TUnquoted [97]; TUnquoted [98;99;100]; TUnquoted [120]; TObject 6 false; TUnquoted [121]; TUnquoted [122]; TEnd 3]%N
         = firstn p F ++ TObject (p + 1 + length body) false :: body ++ [TEnd p] /\
       length (firstn p F) = p /\
       (exists e m, nth_error F p = Some (TObject e m)) /\
       prefix_cut body (skipn (S p) F)).
  { exists 3, [TUnquoted [121%N]; TUnquoted [122%N]].
    split; [lia|]. split; [vm_compute; reflexivity|]. split; [vm_compute; reflexivity|].
    split; [exists 6, false; vm_compute; reflexivity|].
    right. exists [TUnquoted [121%N]], (TUnquoted [122%N]), (TUnquoted [122%N; 122%N]).
    split; [reflexivity|]. split; [vm_compute; reflexivity|]. split; [vm_compute; reflexivity|].
    right. exists [122%N], [122%N; 122%N]. split; [reflexivity|]. split; [left; reflexivity|].
    split; [exists [122%N]; reflexivity|left; discriminate]. }
  eexists. split; [vm_compute; reflexivity|]. split; [exact B|]. split; [|right; exact B].
  intros H. pose proof (prefix_cut_nth _ F 5 H ltac:(cbn; lia)) as E. vm_compute in E. discriminate E.
Qed.

(* ---- separation: the old predicate accepted an array auto-closed as an object ---- *)
Example C19_obj_separation :
  parse sep_input = Ok (sep_F, false) /\
  sep_F = [TUnquoted [97]; TArray 5 false; TUnquoted [49]; TUnquoted [50]; TUnquoted [51]; TEnd 1]%N /\
  sep_t = [TUnquoted [97]; TObject 4 false; TUnquoted [49]; TUnquoted [50]; TEnd 1]%N /\
  consistent_tape sep_F sep_t /\
  ~ consistent_tape_obj sep_F sep_t.
Proof.
  split; [exact sep_F_is_parse|]. split; [reflexivity|]. split; [reflexivity|].
  split; [exact sep_old_accepts|exact sep_new_rejects].
Qed.
Print Assumptions C19_obj_separation.

(* the model on that input ( a={1 2 3} ): cut after `2` is an error; by evaluation, only the empty
   prefix and the complete text succeed, every proper non-empty prefix is an error *)
Example C19_obj_separation_model :
  sep_input = [97; 61; 123; 49; 32; 50; 32; 51; 125]%N /\
  parse (firstn 6 sep_input) = Err E_TextErr /\
  forallb (fun k => match parse (firstn k sep_input) with
                    | Ok (t, _) => Nat.eqb k 0 || Nat.leb 9 k
                    | Err _ => true
                    | _ => false end) (seq 0 11) = true.
Proof. split; [reflexivity|]. split; [exact sep_model_rejects|exact sep_model_all_cuts]. Qed.
