(* C02 -- the method tables of the text serde `Deserializer` impls (engineer w_fwd, wave 5).  Statements only.

   src/text/de.rs: roots (10 = &mut TextReaderDeserializer, 12 = &TextDeserializer), 11 = TextReaderTokenDeserializer (stream
   path), 13 = ValueDeserializer (tape path), 14 / 15 = StaticDeserializer / OperatorDeserializer.  Tables generated from the
   source on every run (tools/gen_de_methods.py -> Tables.de_tables), normal forms and predictions of DeMethods.v, run against
   the real deserializers by the stream `method_table` (kind de.meth.text).  Token kinds: T_tint (non-negative integer),
   T_tneg, T_tbool (yes / no), T_tfloat, T_tword, T_tarr, T_tobj. *)
From Coq Require Import List NArith Bool.
From JV Require Import Tables DeMethods.
From JV.proofs Require Import DeMethodsProofs.
Import ListNotations.
Open Scope N_scope.

Theorem C02_methods_total : forall d m, In d [10; 11; 12; 13; 14; 15] -> In m required_methods ->
  is_explicit d m = true \/ is_forwarded d m = true.
Proof. exact methods_total_text. Qed.
Print Assumptions C02_methods_total.

(* FULL totality is REFUTED: finding P-stream-i128.  The stream deserializer has no deserialize_i128 / u128 (serde's default
   refuses), the tape deserializer answers them with its i64 / u64 routine. *)
Theorem C02_methods_total_128_refuted :
  is_missing D_text_reader_tok M_i128 = true /\ is_missing D_text_reader_tok M_u128 = true /\
  nf_eqb (normal D_text_tape_value M_i128) (normal D_text_tape_value M_i64) = true /\
  nf_eqb (normal D_text_tape_value M_u128) (normal D_text_tape_value M_u64) = true /\
  predict D_text_tape_value M_i128 T_tint 2 = ([H_int], S_ok) /\
  predict D_text_reader_tok M_i128 T_tint 2 = ([], S_err).
Proof. exact finding_P_stream_i128_witness. Qed.
Print Assumptions C02_methods_total_128_refuted.

(* Tape vs stream, method by method and token kind by token kind: equal observations except for i128 / u128 and where the
   target does not fit the token (a sequence asked of a scalar: the stream path reads the FOLLOWING tokens as elements; a map
   asked of an array;
   a scalar / Option / newtype / `any` asked of an object: the stream path cannot tell an object from an array; an enum
   over a container: data-carrying variants, not modelled). *)
Theorem C02_value_methods_agree : forall m t s, In m all_methods -> In t text_value_tokens -> In s strategies ->
  is_128 m = false -> text_fits m t = true ->
  predict D_text_reader_tok m t s = predict D_text_tape_value m t s.
Proof. exact text_methods_agree. Qed.
Print Assumptions C02_value_methods_agree.

Example C02_value_methods_agree_nonvacuous :
  is_128 M_u8 = false /\ text_fits M_u8 T_tneg = true /\ predict D_text_tape_value M_u8 T_tneg 2 = ([H_str], S_ok) /\
  predict D_text_tape_value M_u8 T_tint 2 = ([H_int], S_ok).
Proof. vm_compute. repeat split; reflexivity. Qed.

(* the exception is exact: in every i128 / u128 cell the stream path refuses and the tape path does not *)
Theorem C02_128_agree_refuted : forall m t s, In m [M_i128; M_u128] -> In t text_value_tokens -> In s strategies ->
  predict D_text_reader_tok m t s = ([], S_err) /\ predict D_text_reader_tok m t s <> predict D_text_tape_value m t s.
Proof. exact text_128_cells. Qed.
Print Assumptions C02_128_agree_refuted.

(* ignored values: a direct visit_unit on both paths (never through deserialize_any), the stream path skipping a container *)
Theorem C02_ignored_never_through_any : forall d, In d text_value_deserializers ->
  through_any d M_ignored_any = false /\
  normal d M_ignored_any = NfDirect [V_unit] ((d =? D_bin_reader_tok) || (d =? D_bin_ondemand_tok) || (d =? D_text_reader_tok)).
Proof. intros d Hd. apply ignored_never_through_any. cbn in Hd. cbn. tauto. Qed.
Print Assumptions C02_ignored_never_through_any.

(* ignored_any, unit and unit_struct consume exactly the value on both paths, whatever the token is *)
Theorem C02_ignored_consumes : forall d m t s, In d text_value_deserializers -> In m [M_ignored_any; M_unit; M_unit_struct] ->
  In t text_value_tokens -> In s strategies -> predict d m t s = ([H_unit], S_ok).
Proof. exact ignored_consumes_text. Qed.
Print Assumptions C02_ignored_consumes.

(* every integer width is answered by the 64-bit routine of its signedness, f32 by the f64 routine, on both paths *)
Theorem C02_widths_share_routine : forall d, In d text_value_deserializers ->
  (forall m, In m [M_i8; M_i16; M_i32] -> normal d m = normal d M_i64) /\
  (forall m, In m [M_u8; M_u16; M_u32] -> normal d m = normal d M_u64) /\
  normal d M_f32 = normal d M_f64.
Proof. exact text_widths. Qed.
Print Assumptions C02_widths_share_routine.

(* the constant deserializers behind the "remainder" / "operator" / "value" keys and the operator of a Property *)
Theorem C02_constant_deserializers : forall d m, In d [D_text_static; D_text_operator] -> In m all_methods ->
  normal d m = NfDispatch [V_str] false.
Proof. exact text_constant_deserializers. Qed.
Print Assumptions C02_constant_deserializers.
