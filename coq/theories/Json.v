(* json/mod.rs: the serde `Serialize` implementations of JsonValueBuilder / JsonObjectBuilder /
   JsonArrayBuilder (+ OperatorValue, InnerSerArray, SingleObject, SerTapeTyped,
   KeyScalarWrapper, serialize_scalar, serialize_parameter) as a function to a JSON *tree*.
   Printing the tree (escaping, number formatting, pretty printing) is serde_json's job and is
   an oracle of the correspondence harness.  No proofs here (proofs/JsonProofs.v). *)
From JV Require Import Bytes Tables Scalar TextTok TapeWf Dom.
Open Scope nat_scope.

(* ---------------------------------------------------------------- the tree *)
Inductive json :=
| JNull
| JBool (b : bool)
| JI64 (z : Z)            (* serialize_i64 *)
| JU64 (n : N)            (* serialize_u64 *)
| JF64 (bits : N)         (* serialize_f64, IEEE-754 binary64 bit pattern *)
| JStr (s : bytes)        (* serialize_str, the UTF-8 bytes of the str *)
| JArr (l : list json)
| JObj (l : list (bytes * json)).   (* entries in emission order, duplicate keys possible *)

Inductive dupmode := Group | Preserve | KeyValuePairs.
Inductive narrowing := NarrowAll | NarrowUnquoted | NarrowNone.
Record options := mk_options { pretty : bool; duplicate_keys : dupmode; type_narrowing : narrowing }.
Definition default_options : options := mk_options false Preserve NarrowAll.
Definition with_pretty (b : bool) (o : options) : options :=
  mk_options b (duplicate_keys o) (type_narrowing o).

(* ---------------------------------------------------------------- panic sites *)
Definition P_scalar_unwrap : N := 1601.     (* reader.read_scalar().unwrap() *)
Definition P_str_unwrap : N := 1602.        (* reader.read_str().unwrap() *)
Definition P_read_array_unwrap : N := 1603. (* self.reader.read_array().unwrap() *)
Definition P_read_object_unwrap : N := 1604. (* self.reader.read_object().unwrap() *)
Definition P_header_key_unwrap : N := 1605. (* values.next().unwrap() (header key) *)
Definition P_header_value_unwrap : N := 1606. (* values.next().unwrap() (header value) *)
Definition P_header_str_unwrap : N := 1607. (* key_reader.read_str().unwrap() *)

Definition unwrap {A} (site : N) (x : outcome A) : outcome A :=
  match x with Err _ => Panic site | other => other end.

Fixpoint omapM {A B} (f : A -> outcome B) (l : list A) : outcome (list B) :=
  match l with
  | [] => Ok []
  | a :: r => do b <- f a; do bs <- omapM f r; Ok (b :: bs)
  end.

(* ---------------------------------------------------------------- Scalar::to_f64, exactly *)
(* binary64 nearest-even rounding of the positive rational p/q (p, q > 0); normal range only:
   every call below has 2^-74 < p/q < 2^65.  Result: the bit pattern with sign 0. *)
Definition f64_round_ratio (p q : N) : N :=
  let e0 := (Z.of_N (N.log2 p) - Z.of_N (N.log2 q) - 52)%Z in
  let scaled (e : Z) : N * N :=
    if (0 <=? e)%Z then (p, q * 2 ^ Z.to_N e)%N else (p * 2 ^ Z.to_N (- e), q)%N in
  let '(n0, d0) := scaled e0 in
  let e := (if (n0 / d0 <? 2 ^ 52)%N then e0 - 1 else e0)%Z in
  let '(n, d) := scaled e in
  let m := (n / d)%N in
  let r := (n mod d)%N in
  let up := ((d <? 2 * r) || ((2 * r =? d) && N.odd m))%N in
  let m' := (if up then m + 1 else m)%N in
  let biased := Z.to_N (e + 1075) in
  (biased * 2 ^ 52 + (m' - 2 ^ 52))%N.

(* the integer a binary64 bit pattern (sign 0, exponent >= 0 after scaling) denotes, for x as f64
   of a u64: only used for values >= 2^53 where the exponent is positive *)
Definition f64_of_u64_value (i : N) : N :=
  (if i <? 2 ^ 53 then i
   else
     let bits := f64_round_ratio i 1 in
     let biased := bits / 2 ^ 52 in
     let m := bits mod 2 ^ 52 + 2 ^ 52 in
     m * 2 ^ (biased - 1075))%N.

Definition f64_sign_bit : N := (2 ^ 63)%N.

Definition f64_bits_of_nat_value (negative : bool) (v : N) : N :=
  ((if negative then f64_sign_bit else 0) + (if v =? 0 then 0 else f64_round_ratio v 1))%N.

Definition to_f64 (d : bytes) : outcome N :=
  match d with
  | [] => Err E_AllDigits
  | c0 :: data0 =>
      let negative := (c0 =? 45)%N in
      let split := if negative then match data0 with [] => None | c1 :: data1 => Some (c1, data1) end
                   else Some (c0, data0) in
      match split with
      | None => Err E_AllDigits
      | Some (c, data) =>
          do (lead, lft) <-
            (if is_digit c then to_u64_t2 data (c - 48)%N
             else if (c =? 46)%N then Ok (0%N, c :: data)
             else if (c =? 43)%N then to_u64_t2 data 0%N
             else Err E_AllDigits);
          match lft with
          | [] =>
              if negative then
                if (lead <=? I64_MAX)%N then
                  if (f64_int_guard <? lead)%N then Err E_PrecisionLoss
                  else Ok (f64_bits_of_nat_value (negb (lead =? 0)%N) lead)
                else Err E_Overflow
              else
                if (f64_int_guard <? lead)%N then Err E_PrecisionLoss
                else Ok (f64_bits_of_nat_value false lead)
          | x :: lft' =>
              if (x =? 46)%N then
                let exponent := length lft' in
                do (i, rest) <- to_u64_t lft' lead;
                match rest with
                | _ :: _ => Err E_AllDigits
                | [] =>
                    match nth_error power_of_ten_exps exponent with
                    | None => Err E_Overflow
                    | Some p =>
                        let fi := f64_of_u64_value i in
                        let mag := (if fi =? 0 then 0 else f64_round_ratio fi (10 ^ p))%N in
                        Ok ((if negative then f64_sign_bit else 0) + mag)%N
                    end
                end
              else Err E_AllDigits
          end
      end
  end.

(* ---------------------------------------------------------------- constant strings *)
Definition s_type : bytes := [116; 121; 112; 101]%N.
Definition s_obj : bytes := [111; 98; 106]%N.
Definition s_val : bytes := [118; 97; 108]%N.
Definition s_array : bytes := [97; 114; 114; 97; 121]%N.
Definition s_remainder : bytes := [114; 101; 109; 97; 105; 110; 100; 101; 114]%N.
Definition s_invalid_key : bytes := [95; 95; 105; 110; 118; 97; 108; 105; 100; 95; 107; 101; 121]%N.

(* Operator::name *)
Definition op_name (o : operator) : bytes :=
  match o with
  | LessThan => [76; 69; 83; 83; 95; 84; 72; 65; 78]
  | LessThanEqual => [76; 69; 83; 83; 95; 84; 72; 65; 78; 95; 69; 81; 85; 65; 76]
  | GreaterThan => [71; 82; 69; 65; 84; 69; 82; 95; 84; 72; 65; 78]
  | GreaterThanEqual => [71; 82; 69; 65; 84; 69; 82; 95; 84; 72; 65; 78; 95; 69; 81; 85; 65; 76]
  | Exact => [69; 88; 65; 67; 84]
  | Equal => [69; 81; 85; 65; 76]
  | NotEqual => [78; 79; 84; 95; 69; 81; 85; 65; 76]
  | Exists => [69; 88; 73; 83; 84; 83]
  end%N.

Definition op_is_equal (o : operator) : bool := match o with Equal => true | _ => false end.

(* ---------------------------------------------------------------- serialization *)
Section Ser.
  Variable dec : bytes -> bytes.     (* Encoding::decode of the reader *)
  Variable dbg : bool.               (* debug assertions on *)
  Variable o : options.
  Variable t : ttape.

  (* serialize_scalar: bool, then i64 / u64 / f64 (each only when the f64 conversion is exact
     enough to succeed), else the decoded string *)
  Definition serialize_scalar (v : nat) : outcome json :=
    do s <- unwrap P_scalar_unwrap (read_scalar t v);
    match to_bool s with
    | Ok b => Ok (JBool b)
    | _ =>
        match to_i64 s, to_u64 s, to_f64 s with
        | Ok x, _, Ok _ => Ok (JI64 x)
        | _, Ok x, Ok _ => Ok (JU64 x)
        | _, _, Ok f => Ok (JF64 f)
        | _, _, _ => do x <- unwrap P_str_unwrap (read_str dec t v); Ok (JStr x)
        end
    end.

  (* KeyScalarWrapper + serialize_parameter *)
  Definition key_string (k : ttok) : bytes :=
    match k with
    | TParameter s => [91%N] ++ dec s ++ [93%N]
    | TUndefinedParameter s => [91%N; 33%N] ++ dec s ++ [93%N]
    | _ => dec (tok_bytes k)
    end.

  Section Open.
    (* JsonValueBuilder::serialize of the ValueReader at an index (open recursion) *)
    Variable rec : nat -> outcome json.

    (* OperatorValue *)
    Definition ser_opvalue (ov : opval) : outcome json :=
      match fst ov with
      | Some p => do j <- rec (snd ov); Ok (JObj [(op_name p, j)])
      | None => rec (snd ov)
      end.

    (* SingleObject *)
    Definition ser_single (key : nat) (op : operator) (v : nat) : outcome json :=
      let opo := if op_is_equal op then None else Some op in
      do k <- (match read_str dec t key with
               | Ok x => Ok x
               | Err _ => Ok s_invalid_key
               | other => other
               end);
      do j <- ser_opvalue (opo, v);
      Ok (JObj [(k, j)]).

    (* InnerSerArray: the sliding window of three over ValuesIter *)
    Fixpoint ser_window (l : list nat) : outcome (list json) :=
      match l with
      | [] => Ok []
      | a :: rest =>
          do ka <- value_token t a;
          match ka with
          | TMixedContainer => ser_window rest
          | _ =>
              match rest with
              | ob :: v :: rest' =>
                  do kb <- value_token t ob;
                  match kb with
                  | TOperator op =>
                      do j <- ser_single a op v;
                      do js <- ser_window rest';
                      Ok (j :: js)
                  | _ =>
                      do j <- ser_opvalue (None, a);
                      do js <- ser_window rest;
                      Ok (j :: js)
                  end
              | _ =>
                  do j <- ser_opvalue (None, a);
                  do js <- ser_window rest;
                  Ok (j :: js)
              end
          end
      end.

    Definition ser_inner_array (r : areader) : outcome json :=
      do vs <- values_all t r;
      do js <- ser_window vs;
      Ok (JArr js).

    (* JsonArrayBuilder *)
    Definition ser_array_builder (r : areader) : outcome json :=
      do inner <- ser_inner_array r;
      match duplicate_keys o with
      | KeyValuePairs => Ok (JObj [(s_type, JStr s_array); (s_val, inner)])
      | _ => Ok inner
      end.

    (* the "remainder" entry / trailer element, present when the remainder is not empty *)
    Definition ser_remainder (last end_ind : nat) : outcome (option json) :=
      let rest := remainder t last end_ind in
      do e <- array_is_empty t rest;
      if e then Ok None else do j <- ser_inner_array rest; Ok (Some j).

    Definition ser_group (g : group) : outcome (bytes * json) :=
      match g_vals g with
      | [one] => do j <- ser_opvalue one; Ok (key_string (g_key g), j)
      | many => do js <- omapM ser_opvalue many; Ok (key_string (g_key g), JArr js)
      end.

    Definition ser_field (fd : field) : outcome (bytes * json) :=
      do j <- ser_opvalue (f_op fd, f_val fd); Ok (key_string (f_key fd), j).

    Definition ser_field_pair (fd : field) : outcome json :=
      do j <- ser_opvalue (f_op fd, f_val fd); Ok (JArr [JStr (key_string (f_key fd)); j]).

    (* JsonObjectBuilder (+ SerTapeTyped) *)
    Definition ser_object_builder (r : oreader) : outcome json :=
      match duplicate_keys o with
      | Group =>
          do (gs, _, last) <- field_groups dbg t r;
          do es <- omapM ser_group gs;
          do rem <- ser_remainder last (o_end r);
          Ok (JObj (es ++ match rem with Some j => [(s_remainder, j)] | None => [] end))
      | Preserve =>
          do (fs, last) <- fields_all dbg t r;
          do es <- omapM ser_field fs;
          do rem <- ser_remainder last (o_end r);
          Ok (JObj (es ++ match rem with Some j => [(s_remainder, j)] | None => [] end))
      | KeyValuePairs =>
          do (fs, last) <- fields_all dbg t r;
          do es <- omapM ser_field_pair fs;
          do rem <- ser_remainder last (o_end r);
          Ok (JObj [(s_type, JStr s_obj);
                    (s_val, JArr (es ++ match rem with Some j => [j] | None => [] end))])
      end.

    (* JsonValueBuilder::serialize *)
    Definition ser_value_step (v : nat) : outcome json :=
      do k <- value_token t v;
      match k with
      | TUnquoted _ =>
          match type_narrowing o with
          | NarrowNone => do x <- unwrap P_str_unwrap (read_str dec t v); Ok (JStr x)
          | _ => serialize_scalar v
          end
      | TQuoted _ =>
          match type_narrowing o with
          | NarrowAll => serialize_scalar v
          | _ => do x <- unwrap P_str_unwrap (read_str dec t v); Ok (JStr x)
          end
      | TArray _ _ =>
          do r <- unwrap P_read_array_unwrap (read_array t v);
          ser_array_builder r
      | TObject _ _ =>
          do r <- unwrap P_read_object_unwrap (read_object t v);
          ser_object_builder r
      | THeader _ =>
          do arr <- unwrap P_read_array_unwrap (read_array t v);
          (* values.next().unwrap() twice *)
          if Nat.ltb (a_start arr) (a_end arr) then
            let key_reader := a_start arr in
            do n1 <- next_idx_values t key_reader;
            if Nat.ltb n1 (a_end arr) then
              let value_reader := n1 in
              do _ <- next_idx_values t value_reader;
              do ks <- unwrap P_header_str_unwrap (read_str dec t key_reader);
              do j <- rec value_reader;
              Ok (JObj [(ks, j)])
            else Panic P_header_value_unwrap
          else Panic P_header_key_unwrap
      | _ => Ok JNull
      end.
  End Open.

  Fixpoint ser_value (fuel : nat) (v : nat) : outcome json :=
    match fuel with
    | O => OutOfFuel
    | S f => ser_value_step (ser_value f) v
    end.

  Definition ser_fuel : nat := S (length t).

  (* the three entry points: ValueReader::json, ObjectReader::json, ArrayReader::json;
     to_vec computes tokens_len() * output_len_factor() first *)
  Definition json_value (v : nat) : outcome json :=
    do _ <- value_tokens_len t v;
    ser_value ser_fuel v.
  Definition json_object (r : oreader) : outcome json :=
    do _ <- object_tokens_len r;
    ser_object_builder (ser_value ser_fuel) r.
  Definition json_array (r : areader) : outcome json :=
    do _ <- array_tokens_len r;
    ser_array_builder (ser_value ser_fuel) r.
End Ser.

(* ---------------------------------------------------------------- Encoding::decode stand-ins
   (the C12 family owns the verified model of encoding.rs; these are the executable instances
   handed to [ser] by the correspondence driver; the theorems quantify over every [dec]) *)
Definition is_ascii_ws (b : N) : bool :=
  ((b =? 32) || (b =? 9) || (b =? 10) || (b =? 12) || (b =? 13))%N.

Fixpoint trim_ascii_end (d : bytes) : bytes :=
  match d with
  | [] => []
  | b :: r =>
      match trim_ascii_end r with
      | [] => if is_ascii_ws b then [] else [b]
      | r' => b :: r'
      end
  end.

Definition utf8_encode (c : N) : bytes :=
  (if c <? 128 then [c]
   else if c <? 2048 then [192 + c / 64; 128 + c mod 64]
   else if c <? 65536 then [224 + c / 4096; 128 + (c / 64) mod 64; 128 + c mod 64]
   else [240 + c / 262144; 128 + (c / 4096) mod 64; 128 + (c / 64) mod 64; 128 + c mod 64])%N.

Definition drop_backslash (d : bytes) : bytes := filter (fun b => negb (b =? 92)%N) d.

Definition decode_w1252 (d : bytes) : bytes :=
  flat_map (fun b => utf8_encode (w1252 b)) (drop_backslash (trim_ascii_end d)).

(* String::from_utf8_lossy: maximal invalid prefixes become U+FFFD *)
Definition cont (b : N) : bool := ((128 <=? b) && (b <=? 191))%N.
Definition repl : bytes := [239; 191; 189]%N.

Fixpoint utf8_lossy (d : bytes) : bytes :=
  match d with
  | [] => []
  | b0 :: d1 =>
      if (b0 <? 128)%N then b0 :: utf8_lossy d1
      else if ((194 <=? b0) && (b0 <=? 223))%N then
        match d1 with
        | b1 :: d2 => if cont b1 then b0 :: b1 :: utf8_lossy d2 else repl ++ utf8_lossy d1
        | [] => repl
        end
      else if ((224 <=? b0) && (b0 <=? 239))%N then
        match d1 with
        | b1 :: d2 =>
            let ok1 := (if b0 =? 224 then (160 <=? b1) && (b1 <=? 191)
                        else if b0 =? 237 then (128 <=? b1) && (b1 <=? 159)
                        else cont b1)%N in
            if ok1 then
              match d2 with
              | b2 :: d3 => if cont b2 then b0 :: b1 :: b2 :: utf8_lossy d3 else repl ++ utf8_lossy d2
              | [] => repl
              end
            else repl ++ utf8_lossy d1
        | [] => repl
        end
      else if ((240 <=? b0) && (b0 <=? 244))%N then
        match d1 with
        | b1 :: d2 =>
            let ok1 := (if b0 =? 240 then (144 <=? b1) && (b1 <=? 191)
                        else if b0 =? 244 then (128 <=? b1) && (b1 <=? 143)
                        else cont b1)%N in
            if ok1 then
              match d2 with
              | b2 :: d3 =>
                  if cont b2 then
                    match d3 with
                    | b3 :: d4 =>
                        if cont b3 then b0 :: b1 :: b2 :: b3 :: utf8_lossy d4 else repl ++ utf8_lossy d3
                    | [] => repl
                    end
                  else repl ++ utf8_lossy d2
              | [] => repl
              end
            else repl ++ utf8_lossy d1
        | [] => repl
        end
      else repl ++ utf8_lossy d1
  end.

Definition decode_utf8 (d : bytes) : bytes :=
  utf8_lossy (drop_backslash (trim_ascii_end d)).

Definition decode_of (utf8 : bool) : bytes -> bytes :=
  if utf8 then decode_utf8 else decode_w1252.

(* ---------------------------------------------------------------- specification of the content
   of an object's JSON, from its fields [l] (TapeWf object grammar), the serialized value [vals]
   of each field in document order, and the serialized remainder *)
Definition wrap_group (js : list json) : json := match js with [x] => x | _ => JArr js end.

(* the serialized values of the fields with raw key [k], in document order *)
Definition select_vals (k : bytes) (l : list field) (vals : list json) : list json :=
  map snd (filter (fun p => beqb (field_kb (fst p)) k) (combine l vals)).

Definition rem_entry (rem : option json) : list (bytes * json) :=
  match rem with Some j => [(s_remainder, j)] | None => [] end.
Definition rem_list (rem : option json) : list json :=
  match rem with Some j => [j] | None => [] end.

Definition content_tree (dec : bytes -> bytes) (mode : dupmode) (l : list field) (vals : list json) (rem : option json) : json :=
  match mode with
  | Preserve =>
      JObj (combine (map (fun f => key_string dec (f_key f)) l) vals ++ rem_entry rem)
  | Group =>
      JObj (map (fun f => (key_string dec (f_key f), wrap_group (select_vals (field_kb f) l vals))) (first_fields [] l)
            ++ rem_entry rem)
  | KeyValuePairs =>
      JObj [(s_type, JStr s_obj);
            (s_val, JArr (map (fun p => JArr [JStr (key_string dec (f_key (fst p))); snd p]) (combine l vals) ++ rem_list rem))]
  end.
