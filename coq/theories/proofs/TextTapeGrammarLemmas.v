(* C16/C17 bridge, part 2: list lemmas on the grammar of TextTapeGrammar.v (append, insert before
   the last token, header conversion, closing a container into its parent level). *)
From JV Require Import Bytes TextTok TextTape TapeWf TextTapeGrammar.
Require Import Lia.
Open Scope nat_scope.

Lemma last_cases : forall (A : Type) (l : list A), l = [] \/ exists l' y, l = l' ++ [y].
Proof.
  intros A l. destruct l as [|a l]; [left; reflexivity|right].
  destruct (@exists_last A (a :: l)) as (l' & y & E); [discriminate|]. eauto.
Qed.

Lemma snoc_inj : forall (A : Type) (a b : list A) x y, a ++ [x] = b ++ [y] -> a = b /\ x = y.
Proof. intros. apply app_inj_tail. assumption. Qed.

Lemma snoc_nonnil' : forall (A : Type) (l : list A) x, l ++ [x] <> [].
Proof. intros A l x. destruct l; discriminate. Qed.

Lemma is_key_leaf' : forall k, is_key k = true -> is_leaf k = true.
Proof. destruct k; cbn; congruence. Qed.

Lemma leaf_not_cont : forall x, is_leaf x = true -> container_end x = None.
Proof. destruct x; cbn; congruence. Qed.

Lemma cont_is_container : forall c e, container_end c = Some e -> is_container c = true.
Proof. destruct c; cbn; congruence. Qed.

(* ---------- gvals ---------- *)
Lemma gvals_app : forall off l1, gvals off l1 -> forall l2, gvals (off + length l1) l2 -> gvals off (l1 ++ l2).
Proof.
  induction 1 as [off|off x l Hx Hl IH|off s c l Hc Hl IH|off c body rest Hoff Hc Hb IHb Hbo Hr IHr];
    intros l2 H2.
  - cbn in *. rewrite Nat.add_0_r in H2. exact H2.
  - cbn [app]. apply gv_leaf; [exact Hx|]. apply IH.
    cbn [length] in H2. replace (S off + length l) with (off + S (length l)) by lia. exact H2.
  - cbn [app]. apply gv_header; [exact Hc|].
    change (gvals (S off) ((c :: l) ++ l2)). apply IH.
    cbn [length] in *. replace (S off + S (length l)) with (off + S (S (length l))) by lia. exact H2.
  - cbn [app]. rewrite <- app_assoc. cbn [app]. apply gv_cont; try assumption.
    apply IHr.
    replace (off + 2 + length body + length rest) with (off + length (c :: body ++ TEnd off :: rest)); [exact H2|].
    cbn [length]. rewrite app_length. cbn [length]. lia.
Qed.

Lemma gvals_one : forall off x, is_leaf x = true -> gvals off [x].
Proof. intros. apply gv_leaf; [assumption|apply gv_nil]. Qed.

Lemma gvals_snoc : forall off l x, gvals off l -> is_leaf x = true -> gvals off (l ++ [x]).
Proof. intros. apply gvals_app; [assumption|apply gvals_one; assumption]. Qed.

Lemma gvals_snoc_inv : forall off l0, gvals off l0 -> forall l x, l0 = l ++ [x] -> is_leaf x = true -> gvals off l.
Proof.
  induction 1 as [off|off y l0 Hy Hl IH|off s c l0 Hc Hl IH|off c body rest Hoff Hc Hb IHb Hbo Hr IHr];
    intros l x E Hx.
  - destruct l; discriminate.
  - destruct l as [|a l].
    + apply gv_nil.
    + cbn [app] in E. injection E as -> E. apply gv_leaf; [exact Hy|]. eapply IH; eauto.
  - destruct l as [|a l]; [discriminate|]. cbn [app] in E. injection E as <- E.
    destruct l as [|b l].
    + cbn in E. injection E as -> _. destruct x; cbn in *; congruence.
    + cbn [app] in E. injection E as <- E.
      apply gv_header; [exact Hc|]. apply (IH (c :: l) x); [cbn [app]; congruence|exact Hx].
  - destruct l as [|a l].
    + cbn in E. injection E as _ E. destruct body; discriminate.
    + cbn [app] in E. injection E as -> E.
      destruct (last_cases _ rest) as [->|(rest' & y & ->)].
      * exfalso.
        assert (E' : (body ++ [TEnd off]) = l ++ [x]) by exact E.
        apply snoc_inj in E'. destruct E' as [_ E']. subst x. discriminate.
      * assert (E' : (body ++ TEnd off :: rest') ++ [y] = l ++ [x]).
        { rewrite <- app_assoc. exact E. }
        apply snoc_inj in E'. destruct E' as [E1 E2]. subst y l.
        apply gv_cont; try assumption. eapply IHr; eauto.
Qed.

Lemma gvals_no_last_header : forall off l0, gvals off l0 -> forall l s, l0 = l ++ [THeader s] -> False.
Proof.
  induction 1 as [off|off y l0 Hy Hl IH|off s' c l0 Hc Hl IH|off c body rest Hoff Hc Hb IHb Hbo Hr IHr];
    intros l s E.
  - destruct l; discriminate.
  - destruct l as [|a l].
    + cbn in E. injection E as -> _. discriminate.
    + cbn [app] in E. injection E as -> E. eapply IH; eauto.
  - destruct l as [|a l]; [discriminate|]. cbn [app] in E. injection E as <- E.
    eapply IH; eauto.
  - destruct l as [|a l].
    + cbn in E. injection E as -> _. discriminate.
    + cbn [app] in E. injection E as -> E.
      destruct (last_cases _ rest) as [->|(rest' & y & ->)].
      * assert (E' : (body ++ [TEnd off]) = l ++ [THeader s]) by exact E.
        apply snoc_inj in E'. destruct E' as [_ E']. discriminate.
      * assert (E' : (body ++ TEnd off :: rest') ++ [y] = l ++ [THeader s]).
        { rewrite <- app_assoc. exact E. }
        apply snoc_inj in E'. destruct E' as [E1 E2]. subst y. eapply IHr; eauto.
Qed.

Lemma gvals_insert : forall off l x y, gvals off (l ++ [x]) -> is_leaf x = true -> is_leaf y = true ->
  gvals off (l ++ [y; x]).
Proof.
  intros off l x y H Hx Hy. apply gvals_app.
  - eapply gvals_snoc_inv; eauto.
  - apply gv_leaf; [exact Hy|]. apply gvals_one. exact Hx.
Qed.

(* the last token of a sequence of complete values, when it is a scalar token, is a leaf *)
Lemma gvals_last_scalar : forall off l x, gvals off (l ++ [x]) -> is_scalar_tok x = true -> is_leaf x = true.
Proof.
  intros off l x H Hs. destruct x; cbn in Hs; try discriminate; try reflexivity.
  exfalso. eapply gvals_no_last_header; eauto.
Qed.

Lemma gvals_hvals : forall off V, gvals off V -> hvals off V.
Proof. intros off V H. exists V, []. rewrite app_nil_r. split; [reflexivity|]. split; [left; reflexivity|exact H]. Qed.

(* a closed container appended to a level that was waiting for it *)
Lemma hvals_close : forall off V c B,
  hvals off V -> off + length V <> 0 ->
  container_end c = Some (off + length V + 1 + length B) ->
  gvals (S (off + length V)) B -> body_ok c (S (off + length V)) B ->
  gvals off (V ++ c :: B ++ [TEnd (off + length V)]).
Proof.
  intros off V c B (V' & h & -> & Hh & G) Nz Hc GB HB.
  set (n := off + length (V' ++ h)) in *.
  assert (GC : gvals n (c :: B ++ [TEnd n])).
  { apply gv_cont; try assumption. apply gv_nil. }
  rewrite <- app_assoc. apply gvals_app; [exact G|].
  destruct Hh as [->|(s & ->)].
  - assert (En : n = off + length V') by (subst n; rewrite app_length; cbn [length]; lia).
    cbn [app]. rewrite <- En. exact GC.
  - assert (En : n = S (off + length V')) by (subst n; rewrite app_length; cbn [length]; lia).
    cbn [app]. apply gv_header.
    + eapply cont_is_container; eauto.
    + rewrite <- En. exact GC.
Qed.

(* ---------- phases ---------- *)
Lemma phM_app : forall off V W, phM off V -> phM off (V ++ W).
Proof.
  intros off V W (F & R & -> & HF). exists F, (R ++ W). split; [|exact HF].
  rewrite <- app_assoc. reflexivity.
Qed.

Lemma phM_nonnil : forall off V, phM off V -> V <> [].
Proof. intros off V (F & R & -> & _). destruct F; discriminate. Qed.

Lemma phM_insert : forall off V1 x, phM off (V1 ++ [x]) -> phM off (V1 ++ [TMixedContainer; x]).
Proof.
  intros off V1 x (F & R & E & HF).
  destruct (last_cases _ R) as [->|(R' & y & ->)].
  - apply snoc_inj in E. destruct E as [-> ->]. exists F, [TMixedContainer]. split; [reflexivity|exact HF].
  - assert (E' : V1 ++ [x] = (F ++ TMixedContainer :: R') ++ [y]) by (rewrite <- app_assoc; exact E).
    apply snoc_inj in E'. destruct E' as [-> ->].
    exists F, (R' ++ [TMixedContainer; y]). split; [|exact HF]. rewrite <- app_assoc. reflexivity.
Qed.

Lemma phM_replace_last : forall off V1 x y, phM off (V1 ++ [x]) -> x <> TMixedContainer -> phM off (V1 ++ [y]).
Proof.
  intros off V1 x y (F & R & E & HF) Nx.
  destruct (last_cases _ R) as [->|(R' & z & ->)].
  - apply snoc_inj in E. destruct E as [_ ->]. congruence.
  - assert (E' : V1 ++ [x] = (F ++ TMixedContainer :: R') ++ [z]) by (rewrite <- app_assoc; exact E).
    apply snoc_inj in E'. destruct E' as [-> ->].
    exists F, (R' ++ [y]). split; [|exact HF]. rewrite <- app_assoc. reflexivity.
Qed.

Lemma phK_phKO : forall off V, phK off V -> phKO off V.
Proof. intros off V (F & k & -> & HF & Hk). exists F, k, []. repeat split; auto. left. reflexivity. Qed.

Lemma phK_op : forall off V o, phK off V -> phKO off (V ++ [TOperator o]).
Proof.
  intros off V o (F & k & -> & HF & Hk). exists F, k, [TOperator o].
  split; [rewrite <- app_assoc; reflexivity|]. repeat split; auto. right. eauto.
Qed.

Lemma gfields_key : forall off V k, gfields off V -> is_key k = true -> phK off (V ++ [k]).
Proof. intros off V k H Hk. exists V, k. auto. Qed.

Lemma phKO_scalar : forall off V x, phKO off V -> is_key x = true -> gfields off (V ++ [x]).
Proof.
  intros off V x (F & k & ops & -> & HF & Hk & Hops) Hx.
  rewrite <- app_assoc. cbn [app]. apply gf_snoc; try assumption. apply gval_scalar. exact Hx.
Qed.

(* a level `fields key [op] [Header]` completed by a closed container *)
Lemma phKO_close : forall off V' h c B,
  phKO off V' -> is_hdr h ->
  container_end c = Some (off + length (V' ++ h) + 1 + length B) ->
  gfields off ((V' ++ h) ++ c :: B ++ [TEnd (off + length (V' ++ h))]).
Proof.
  intros off V' h c B (F & k & ops & -> & HF & Hk & Hops) Hh Hc.
  rewrite !app_length in *. cbn [length] in *.
  rewrite <- !app_assoc. cbn [app].
  apply gf_snoc; try assumption.
  destruct Hh as [->|(s & ->)]; cbn [app length] in *.
  - replace (off + (length F + S (length ops) + 0)) with (off + length F + 1 + length ops) in * by lia.
    apply gval_cont. exact Hc.
  - replace (off + (length F + S (length ops) + 1)) with (S (off + length F + 1 + length ops)) in * by lia.
    apply gval_header. rewrite Hc. f_equal. lia.
Qed.

(* the last token of a non-empty field list, when it is a scalar (not an End), is a value *)
Lemma gfields_last_key : forall off V, gfields off V -> forall V1 x, V = V1 ++ [x] ->
  (forall j, x <> TEnd j) -> phKO off V1.
Proof.
  intros off V H V1 x E Nx. destruct H as [off|off F k ops v HF Hk Hops Hv].
  - destruct V1; discriminate.
  - exists F, k, ops. repeat split; auto.
    destruct Hv as [o y Hy|o c body Hc|o s c body Hc].
    + assert (E' : (F ++ k :: ops) ++ [y] = V1 ++ [x]) by (rewrite <- app_assoc; exact E).
      apply snoc_inj in E'. destruct E' as [<- _]. reflexivity.
    + exfalso.
      assert (E' : (F ++ k :: ops ++ c :: body) ++ [TEnd o] = V1 ++ [x]).
      { rewrite <- E. rewrite <- !app_assoc. cbn [app]. rewrite <- app_assoc. reflexivity. }
      apply snoc_inj in E'. destruct E' as [_ E']. eapply Nx; eauto.
    + exfalso.
      assert (E' : (F ++ k :: ops ++ THeader s :: c :: body) ++ [TEnd (S o)] = V1 ++ [x]).
      { rewrite <- E. rewrite <- !app_assoc. cbn [app]. rewrite <- app_assoc. reflexivity. }
      apply snoc_inj in E'. destruct E' as [_ E']. eapply Nx; eauto.
Qed.

(* ---------- levels ---------- *)
Definition restore_of (k : lkind) : pst * bool :=
  match k with
  | KTop => (SKey, false)
  | KArr m => (SArrVal, m)
  | KObj m => (if m then SArrVal else SKey, m)
  end.

Lemma glevel_split : forall t p k off V, glevel t p k off V ->
  exists pre, t = pre ++ V /\ length pre = off /\ forall V', glevel (pre ++ V') p k off V'.
Proof.
  intros t p k off V H. destruct H as [V|t0 p0 k0 off0 V0 c V H0 N Hc HV HS].
  - exists []. split; [reflexivity|]. split; [reflexivity|]. intros V'. apply gl_top.
  - exists (t0 ++ [c]). split; [rewrite <- app_assoc; reflexivity|].
    split; [rewrite app_length; cbn [length]; lia|].
    intros V'. rewrite <- app_assoc. cbn [app]. eapply gl_open; eauto.
Qed.

Lemma glevel_len : forall t p k off V, glevel t p k off V -> length t = off + length V.
Proof.
  intros t p k off V H. destruct (glevel_split _ _ _ _ _ H) as (pre & -> & <- & _).
  apply app_length.
Qed.

Lemma glevel_app : forall t p k off V W, glevel t p k off V -> glevel (t ++ W) p k off (V ++ W).
Proof.
  intros t p k off V W H. destruct (glevel_split _ _ _ _ _ H) as (pre & -> & _ & K).
  rewrite <- app_assoc. apply K.
Qed.

Lemma glevel_top_inv : forall t k off V, glevel t 0 k off V -> k = KTop /\ off = 0 /\ t = V.
Proof.
  intros t k off V H. inversion H; subst; auto.
  exfalso. destruct t0; [congruence|discriminate].
Qed.

Lemma glevel_open_inv : forall t p k off V, glevel t p k off V -> p <> 0 ->
  exists t0 p0 k0 off0 V0 c,
    t = t0 ++ c :: V /\ p = length t0 /\ k = kind_of c /\ off = S p /\
    container_end c = Some p0 /\ t0 <> [] /\
    glevel t0 p0 k0 off0 V0 /\ hvals off0 V0 /\ susp_ok k0 off0 V0.
Proof.
  intros t p k off V H Np. destruct H as [V|t0 p0 k0 off0 V0 c V H0 N Hc HV HS]; [congruence|].
  exists t0, p0, k0, off0, V0, c. repeat split; auto.
Qed.

Lemma glevel_ktop : forall t p k off V, glevel t p k off V -> k = KTop -> p = 0.
Proof.
  intros t p k off V H E. destruct H as [V|t0 p0 k0 off0 V0 c V H0 N Hc HV HS]; [reflexivity|].
  destruct c; cbn in Hc; discriminate.
Qed.

(* the last token of the tape, when it is not a container, belongs to the innermost level *)
Lemma glevel_last : forall t p k off V t1 x, glevel t p k off V -> t = t1 ++ [x] ->
  container_end x = None ->
  exists V1, V = V1 ++ [x] /\ forall W, glevel (t1 ++ W) p k off (V1 ++ W).
Proof.
  intros t p k off V t1 x H E Hx.
  destruct (last_cases _ V) as [->|(V1 & y & ->)].
  - exfalso. inversion H as [V E1 E2|t0 p0 k0 off0 V0 c V H0 N Hc HV HS E1 E2]; subst.
    + destruct t1; discriminate.
    + match goal with E0 : _ = t1 ++ [x] |- _ => rename E0 into E' end.
      assert (E'' : t0 ++ [c] = t1 ++ [x]) by exact E'.
      apply snoc_inj in E''. destruct E'' as [_ ->]. congruence.
  - destruct (glevel_split _ _ _ _ _ H) as (pre & E2 & _ & K).
    assert (E' : (pre ++ V1) ++ [y] = t1 ++ [x]) by (rewrite <- app_assoc; congruence).
    apply snoc_inj in E'. destruct E' as [<- ->].
    exists V1. split; [reflexivity|]. intros W. rewrite <- app_assoc. apply K.
Qed.

Lemma glevel_nonnil : forall t p k off V, glevel t p k off V -> p <> 0 \/ V <> [] -> t <> [].
Proof.
  intros t p k off V H [Np|Nv].
  - destruct (glevel_open_inv _ _ _ _ _ H Np) as (t0 & p0 & k0 & off0 & V0 & c & -> & _).
    destruct t0; discriminate.
  - destruct (glevel_split _ _ _ _ _ H) as (pre & -> & _). destruct pre; [exact Nv|discriminate].
Qed.

Lemma hvals_head : forall V x, hvals 0 V -> nth_error V 0 = Some x -> is_container x = false.
Proof.
  intros V x (V' & h & -> & Hh & G) E. destruct V' as [|a V'].
  - destruct Hh as [->|(s & ->)]; cbn in E; [discriminate|]. injection E as <-. reflexivity.
  - cbn in E. injection E as <-.
    remember 0 as off eqn:Eo. remember (a :: V') as l eqn:El.
    destruct G as [off|off y l Hy Hl|off s c l Hc Hl|off c body rest Hoff Hc Hb Hbo Hr];
      subst off; try discriminate; injection El as <- _.
    + destruct y; cbn in *; congruence.
    + reflexivity.
    + congruence.
Qed.

Lemma slot_top : forall t k off V, glevel t 0 k off V -> hvals off V -> slot t 0 = 0.
Proof.
  intros t k off V H HV. destruct (glevel_top_inv _ _ _ _ H) as (-> & -> & ->).
  unfold slot, TextTape.tget. destruct (nth_error V 0) as [x|] eqn:E; [|reflexivity].
  pose proof (hvals_head _ _ HV E) as C. destruct x; cbn in C; congruence.
Qed.

Lemma nth_error_mid' : forall (A : Type) (a : list A) y b, nth_error (a ++ y :: b) (length a) = Some y.
Proof. intros. rewrite nth_error_app2 by lia. rewrite Nat.sub_diag. reflexivity. Qed.

Lemma glevel_restore : forall t p k off V W, glevel t p k off V -> hvals off V -> (t = [] -> W = []) ->
  restore (t ++ W) p = restore_of k.
Proof.
  intros t p k off V W H HV HW. destruct H as [V|t0 p0 k0 off0 V0 c V H0 N Hc HV0 HS].
  - unfold restore, TextTape.tget. cbn [restore_of]. destruct V as [|a V'].
    + rewrite (HW eq_refl). reflexivity.
    + cbn [app nth_error]. pose proof (hvals_head _ a HV eq_refl) as C.
      destruct a; cbn in C; try discriminate; reflexivity.
  - unfold restore, TextTape.tget. rewrite <- app_assoc. cbn [app]. rewrite nth_error_mid'.
    destruct c; cbn in Hc; try discriminate; reflexivity.
Qed.

Lemma slot_open : forall t0 c V p0, container_end c = Some p0 -> slot (t0 ++ c :: V) (length t0) = p0.
Proof.
  intros t0 c V p0 Hc. unfold slot, TextTape.tget. rewrite nth_error_mid'.
  destruct c; cbn in Hc; try discriminate; congruence.
Qed.

Lemma level_susp : forall m k off V, level_ok SOpen m k off V -> susp_ok k off V.
Proof.
  intros m k off V (C1 & C2 & C3). destruct k as [|fl|fl]; cbn [susp_ok].
  - apply C3. exact I.
  - exact I.
  - destruct fl; [apply C1; reflexivity|apply C3; exact I].
Qed.

(* a closed container W = c B End lands in a suspended level: the level is in the state that
   [restore] selects *)
Lemma susp_close : forall k off V c B,
  susp_ok k off V -> hvals off V -> off + length V <> 0 ->
  container_end c = Some (off + length V + 1 + length B) ->
  gvals (S (off + length V)) B -> body_ok c (S (off + length V)) B ->
  let W := c :: B ++ [TEnd (off + length V)] in
  gvals off (V ++ W) /\ level_ok (fst (restore_of k)) (snd (restore_of k)) k off (V ++ W).
Proof.
  intros k off V c B HS HV Nz Hc GB HB W. split; [apply hvals_close; assumption|].
  assert (KF : awaitc off V -> phM off (V ++ W) \/ gfields off (V ++ W)).
  { intros [M|(V' & h & -> & Hh & K)]; [left; apply phM_app; exact M|right].
    apply phKO_close; assumption. }
  destruct k as [|fl|fl]; cbn [susp_ok restore_of fst snd] in *.
  - split; [discriminate|]. split; [discriminate|]. split; [reflexivity|]. apply KF. exact HS.
  - split; [discriminate|]. split; [intros _ []|]. intros [].
  - destruct fl.
    + pose proof (phM_app _ _ W HS) as M. split; [auto|]. split; auto.
    + split; [discriminate|]. split; [discriminate|]. split; [reflexivity|]. apply KF. exact HS.
Qed.
