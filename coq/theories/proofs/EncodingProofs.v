(* Proofs about encoding.rs (C12): both decoders = reference mapping, output well-formed UTF-8,
   the from_utf8_unchecked sites are never reached with ill-formed bytes, Borrowed/Owned. *)
From JV Require Import Bytes Tables U64Swar Utf8 Encoding.
From JV.proofs Require Import SwarProofs Utf8Proofs.
From Coq Require Import NArith Lia List Bool.
Import ListNotations.
Open Scope N_scope.

(* ---------- table facts: complete check over the 256 entries ---------- *)
Lemma w1252_scalar_fact : forallb (fun b => is_scalar_value (w1252 b)) byte_dom = true.
Proof. vm_compute. reflexivity. Qed.

Theorem w1252_scalar b : b < 256 -> is_scalar_value (w1252 b) = true.
Proof. exact (byte_all _ w1252_scalar_fact b). Qed.

Lemma w1252_ascii_fact : forallb (fun b => negb (b <? 128) || (w1252 b =? b)) byte_dom = true.
Proof. vm_compute. reflexivity. Qed.

Theorem w1252_ascii b : b <? 128 = true -> w1252 b = b.
Proof.
  intros H. assert (Hb : b < 256) by (apply N.ltb_lt in H; lia).
  pose proof (byte_all _ w1252_ascii_fact b Hb) as F. cbv beta in F. rewrite H in F. now apply N.eqb_eq.
Qed.

(* Latin-1 part: 0xA0..0xFF map to themselves; the 5 unassigned bytes map to the C1 controls *)
Lemma w1252_latin1_fact : forallb (fun b => (b <? 160) || (w1252 b =? b)) byte_dom = true.
Proof. vm_compute. reflexivity. Qed.

Theorem w1252_latin1 b : 160 <= b < 256 -> w1252 b = b.
Proof.
  intros H. pose proof (byte_all _ w1252_latin1_fact b ltac:(lia)) as F. cbv beta in F.
  replace (b <? 160) with false in F by (symmetry; apply N.ltb_ge; lia). now apply N.eqb_eq.
Qed.

Theorem w1252_unassigned : map w1252 [129; 141; 143; 144; 157] = [129; 141; 143; 144; 157].
Proof. vm_compute. reflexivity. Qed.

(* the table is injective on bytes: no two bytes decode to the same character *)
Theorem w1252_injective_fact :
  forallb (fun a => forallb (fun b => (a =? b) || negb (w1252 a =? w1252 b)) byte_dom) byte_dom = true.
Proof. vm_compute. reflexivity. Qed.

(* ---------- trim_ascii_end ---------- *)
Lemma drop_ws_spec l :
  exists ws, l = ws ++ drop_ws l /\ forallb is_ascii_ws ws = true /\
             (drop_ws l = [] \/ exists x r, drop_ws l = x :: r /\ is_ascii_ws x = false).
Proof.
  induction l as [|x l IH].
  - exists []. repeat split. now left.
  - cbn [drop_ws]. destruct (is_ascii_ws x) eqn:E.
    + destruct IH as (ws & Hl & Hw & Hd). exists (x :: ws). repeat split.
      * cbn [app]. now rewrite <- Hl.
      * cbn [forallb]. now rewrite E, Hw.
      * exact Hd.
    + exists []. repeat split. right. now exists x, l.
Qed.

Lemma drop_ws_idem l : drop_ws (drop_ws l) = drop_ws l.
Proof.
  destruct (drop_ws_spec l) as (_ & _ & _ & [->|(x & r & -> & Hx)]); [reflexivity|].
  cbn [drop_ws]. now rewrite Hx.
Qed.

Theorem trim_idem d : trim_ascii_end (trim_ascii_end d) = trim_ascii_end d.
Proof. unfold trim_ascii_end. now rewrite rev_involutive, drop_ws_idem. Qed.

(* the result is the prefix obtained by removing the maximal whitespace suffix *)
Theorem trim_spec d :
  exists ws, d = trim_ascii_end d ++ ws /\ forallb is_ascii_ws ws = true /\
             (trim_ascii_end d = [] \/ exists p x, trim_ascii_end d = p ++ [x] /\ is_ascii_ws x = false).
Proof.
  unfold trim_ascii_end. destruct (drop_ws_spec (rev d)) as (ws & Hl & Hw & Hd).
  exists (rev ws). repeat split.
  - rewrite <- rev_app_distr, <- Hl. now rewrite rev_involutive.
  - rewrite forallb_forall in *. intros x Hx. apply Hw. now apply in_rev.
  - destruct Hd as [->|(x & r & -> & Hx)]; [now left|right]. exists (rev r), x. split; [reflexivity|exact Hx].
Qed.

Lemma trim_wf d : wf_bytes d -> wf_bytes (trim_ascii_end d).
Proof.
  intros H. destruct (trim_spec d) as (ws & Hd & _). unfold wf_bytes in *.
  rewrite Hd in H. now apply Forall_app in H as [H _].
Qed.

(* ---------- small list facts ---------- *)
Lemma fold_or (p : N -> bool) l : forall acc, fold_left (fun e x => e || p x) l acc = acc || existsb p l.
Proof.
  induction l as [|x l IH]; intros acc; cbn [fold_left existsb]; [now rewrite orb_false_r|].
  rewrite IH. now rewrite orb_assoc.
Qed.

Definition plain (x : N) : bool := is_ascii x && negb (x =? BACKSLASH).

Lemma not_eject_plain l :
  existsb (fun x => negb (is_ascii x) || (x =? BACKSLASH)) l = false <-> forallb plain l = true.
Proof.
  induction l as [|x l IH]; [cbn; tauto|]. cbn [existsb forallb]. unfold plain at 1.
  rewrite orb_false_iff, andb_true_iff, IH.
  destruct (is_ascii x), (x =? BACKSLASH); cbn; intuition congruence.
Qed.

Lemma plain_ascii l : forallb plain l = true -> forallb (fun b => b <? 128) l = true.
Proof.
  rewrite !forallb_forall. intros H x Hx. specialize (H x Hx). unfold plain, is_ascii in H. now apply andb_prop in H as [H _].
Qed.

Lemma plain_unescape l : forallb plain l = true -> unescape l = l.
Proof.
  induction l as [|x l IH]; [reflexivity|]. cbn [forallb]. intros H. apply andb_prop in H as [Hx Hl].
  unfold unescape in *. cbn [filter]. unfold plain in Hx. apply andb_prop in Hx as [_ Hx]. rewrite Hx. now rewrite IH.
Qed.

Lemma no_escape_unescape l : existsb (fun x => x =? BACKSLASH) l = false -> unescape l = l.
Proof.
  induction l as [|x l IH]; [reflexivity|]. cbn [existsb]. intros H. apply orb_false_iff in H as [Hx Hl].
  unfold unescape in *. cbn [filter]. rewrite Hx. cbn [negb]. now rewrite IH.
Qed.

Lemma w1252_plain_id l :
  forallb plain l = true -> flat_map (fun c => encode_utf8 (w1252 c)) l = l.
Proof.
  induction l as [|x l IH]; [reflexivity|]. cbn [forallb]. intros H. apply andb_prop in H as [Hx Hl].
  cbn [flat_map]. rewrite IH by assumption.
  unfold plain, is_ascii in Hx. apply andb_prop in Hx as [Hx _].
  rewrite w1252_ascii by assumption. unfold encode_utf8. now rewrite Hx.
Qed.

(* ---------- decode_windows1252 ---------- *)
Theorem w1252_spec d :
  exists c, decode_windows1252 d = Ok c /\ cow_bytes c = w1252_reference d /\
            is_borrowed c = forallb plain (trim_ascii_end d).
Proof.
  unfold decode_windows1252, w1252_reference.
  set (t := trim_ascii_end d).
  rewrite (fold_or (fun x => negb (is_ascii x) || (x =? BACKSLASH))). cbn [orb].
  destruct (existsb (fun x => negb (is_ascii x) || (x =? BACKSLASH)) t) eqn:E.
  - unfold windows_1252_create. cbn [Nat.ltb Nat.leb firstn skipn app obind].
    replace (valid_utf8 []) with true by reflexivity. cbn [negb obind].
    eexists. split; [reflexivity|]. split; [reflexivity|].
    cbn [is_borrowed]. symmetry. apply not_true_is_false. intros H. apply not_eject_plain in H. congruence.
  - apply not_eject_plain in E.
    rewrite (valid_all_ascii t (plain_ascii t E)).
    eexists. split; [reflexivity|]. split.
    + cbn [cow_bytes]. rewrite plain_unescape by assumption. now rewrite w1252_plain_id.
    + cbn [is_borrowed]. now rewrite E.
Qed.

(* never a panic / unchecked site, for any byte string *)
Corollary w1252_total d : is_crash (decode_windows1252 d) = false.
Proof. destruct (w1252_spec d) as (c & -> & _). reflexivity. Qed.

Lemma unescape_wf l : wf_bytes l -> wf_bytes (unescape l).
Proof.
  unfold wf_bytes, unescape. rewrite !Forall_forall. intros H x Hx. apply filter_In in Hx as [Hx _]. auto.
Qed.

Theorem w1252_reference_valid d : wf_bytes d -> valid_utf8 (w1252_reference d) = true.
Proof.
  intros H. unfold w1252_reference. apply valid_flat_map_encode.
  apply forallb_forall. intros x Hx.
  pose proof (unescape_wf _ (trim_wf _ H)) as Hw. unfold wf_bytes in Hw. rewrite Forall_forall in Hw.
  apply w1252_scalar. now apply Hw.
Qed.

Theorem w1252_decode_valid d c :
  wf_bytes d -> decode_windows1252 d = Ok c -> valid_utf8 (cow_bytes c) = true.
Proof.
  intros Hw H. destruct (w1252_spec d) as (c' & H' & Hb & _). rewrite H' in H. injection H as <-.
  rewrite Hb. now apply w1252_reference_valid.
Qed.

(* Borrowed <=> the trimmed input is ASCII without a backslash; and then the output IS the trimmed input *)
Theorem w1252_borrowed_iff d c :
  decode_windows1252 d = Ok c ->
  (is_borrowed c = true <-> forallb plain (trim_ascii_end d) = true) /\
  (is_borrowed c = true -> c = Borrowed (trim_ascii_end d)).
Proof.
  intros H. destruct (w1252_spec d) as (c' & H' & Hb & Hbor). rewrite H' in H. injection H as <-.
  split; [now rewrite Hbor|].
  intros Hc. rewrite Hbor in Hc. destruct c' as [s|s]; [|rewrite <- Hbor in Hc; discriminate].
  cbn [cow_bytes] in Hb. rewrite Hb. unfold w1252_reference.
  rewrite plain_unescape by assumption. now rewrite w1252_plain_id.
Qed.

(* ---------- decode_utf8: the scan ---------- *)
Definition has_escape (l : bytes) : bool := existsb (fun x => x =? BACKSLASH) l.

Lemma rem_escape_is_backslash : enc_rem_escape = BACKSLASH.
Proof. reflexivity. Qed.
Lemma chunk_escape_is_backslash : enc_chunk_escape = BACKSLASH.
Proof. reflexivity. Qed.

Lemma scan_rem_spec l : forall off asc,
  match utf8_scan_rem l off asc with
  | Clean a => has_escape l = false /\ a = asc && forallb is_ascii l
  | Eject o => exists k, o = (off + k)%nat /\ (k < length l)%nat /\ has_escape (firstn k l) = false /\ has_escape l = true
  end.
Proof.
  induction l as [|b r IH]; intros off asc; cbn [utf8_scan_rem].
  - split; [reflexivity|now rewrite andb_true_r].
  - rewrite rem_escape_is_backslash. destruct (b =? BACKSLASH) eqn:E.
    + exists 0%nat. repeat split; [lia|cbn; lia|]. unfold has_escape. cbn [existsb]. now rewrite E.
    + specialize (IH (S off) (asc && is_ascii b)).
      destruct (utf8_scan_rem r (S off) (asc && is_ascii b)) as [o|a].
      * destruct IH as (k & -> & Hk & Hf & He). exists (S k). repeat split; [lia|cbn [length]; lia| |].
        -- unfold has_escape in *. cbn [firstn existsb]. now rewrite E, Hf.
        -- unfold has_escape in *. cbn [existsb]. now rewrite E, He.
      * destruct IH as (He & ->). split.
        -- unfold has_escape in *. cbn [existsb]. now rewrite E, He.
        -- cbn [forallb]. now rewrite andb_assoc.
Qed.

Lemma has_escape_app a b : has_escape (a ++ b) = has_escape a || has_escape b.
Proof. apply existsb_app. Qed.

Lemma scan_spec_aux n : forall l off asc, (length l <= n)%nat -> wf_bytes l ->
  match utf8_scan l off asc with
  | Clean a => has_escape l = false /\ a = asc && forallb is_ascii l
  | Eject o => exists k, o = (off + k)%nat /\ (k < length l)%nat /\ has_escape (firstn k l) = false /\ has_escape l = true
  end.
Proof.
  induction n as [|n IH]; intros l off asc Hl Hw.
  - destruct l; [|cbn in Hl; lia]. cbn. split; [reflexivity|now rewrite andb_true_r].
  - destruct l as [|b0 [|b1 [|b2 [|b3 [|b4 [|b5 [|b6 [|b7 r]]]]]]]];
      try (change (utf8_scan ?x off asc) with (utf8_scan_rem x off asc); apply scan_rem_spec).
    cbn [utf8_scan].
    set (ch := [b0; b1; b2; b3; b4; b5; b6; b7]).
    assert (Hch : bytes8 ch).
    { split; [reflexivity|]. unfold wf_bytes in Hw.
      repeat (apply Forall_cons_iff in Hw as [? Hw]). repeat constructor; assumption. }
    assert (Hr : wf_bytes r).
    { unfold wf_bytes in *. repeat (apply Forall_cons_iff in Hw as [_ Hw]). exact Hw. }
    unfold le_u64. rewrite (chunk_has_escape_spec ch Hch), (chunk_ascii_spec ch Hch).
    change (existsb (fun b : N => b =? 92) ch) with (has_escape ch).
    change (b0 :: b1 :: b2 :: b3 :: b4 :: b5 :: b6 :: b7 :: r) with (ch ++ r).
    destruct (has_escape ch) eqn:E.
    + exists 0%nat. repeat split; [lia|cbn; lia|]. rewrite has_escape_app, E. reflexivity.
    + specialize (IH r (off + 8)%nat (asc && forallb (fun b => b <? 128) ch)).
      destruct (utf8_scan r (off + 8) (asc && forallb (fun b => b <? 128) ch)) as [o|a].
      * destruct IH as (k & -> & Hk & Hf & He); [cbn [length] in Hl; lia|exact Hr|].
        exists (8 + k)%nat. repeat split; [lia|rewrite app_length; change (length ch) with 8%nat; lia| |].
        -- change (8 + k)%nat with (length ch + k)%nat. rewrite firstn_app_2, has_escape_app, E. exact Hf.
        -- rewrite has_escape_app, He. apply orb_true_r.
      * destruct IH as (He & ->); [cbn [length] in Hl; lia|exact Hr|]. split.
        -- rewrite has_escape_app, E, He. reflexivity.
        -- rewrite forallb_app. unfold is_ascii. now rewrite andb_assoc.
Qed.

Lemma scan_spec l off asc : wf_bytes l ->
  match utf8_scan l off asc with
  | Clean a => has_escape l = false /\ a = asc && forallb is_ascii l
  | Eject o => exists k, o = (off + k)%nat /\ (k < length l)%nat /\ has_escape (firstn k l) = false /\ has_escape l = true
  end.
Proof. apply (scan_spec_aux (length l)). lia. Qed.

(* ---------- decode_utf8 ---------- *)
(* Borrowed exactly when nothing has to be rewritten: no escape and well-formed UTF-8 *)
Theorem utf8_spec d : wf_bytes d ->
  exists c, decode_utf8 d = Ok c /\ cow_bytes c = utf8_reference d /\
            is_borrowed c = negb (has_escape (trim_ascii_end d)) && valid_utf8 (trim_ascii_end d).
Proof.
  intros Hw. unfold decode_utf8, utf8_reference.
  rewrite trim_idem. set (t := trim_ascii_end d).
  assert (Ht : wf_bytes t) by (now apply trim_wf).
  pose proof (scan_spec t 0 true Ht) as Hs.
  destruct (utf8_scan t 0 true) as [o|a].
  - destruct Hs as (k & -> & Hk & Hf & He). cbn [Nat.add].
    unfold utf8_create.
    replace (length t <? k)%nat with false by (symmetry; apply Nat.ltb_ge; lia).
    assert (Hres : firstn k t ++ filter (fun x => negb (x =? BACKSLASH)) (skipn k t) = unescape t).
    { rewrite <- (firstn_skipn k t) at 3. unfold unescape. rewrite filter_app.
      f_equal. symmetry. apply (no_escape_unescape _ Hf). }
    rewrite Hres.
    destruct (from_utf8_lossy_spec (unescape t)) as [Hb _].
    destruct (valid_utf8 (unescape t)) eqn:Ev; cbn [obind].
    + eexists. split; [reflexivity|]. split; [cbn [cow_bytes]; symmetry; now apply lossy_id|].
      rewrite He. reflexivity.
    + eexists. split; [reflexivity|]. split; [exact Hb|]. rewrite He. reflexivity.
  - destruct Hs as (He & ->). cbn [andb]. rewrite He. cbn [negb andb].
    rewrite (no_escape_unescape t He).
    destruct (forallb is_ascii t) eqn:Ea.
    + rewrite (valid_all_ascii t Ea). eexists. split; [reflexivity|]. split; [|reflexivity].
      cbn [cow_bytes]. symmetry. apply lossy_id. now apply valid_all_ascii.
    + destruct (from_utf8_lossy_spec t) as [Hb Hbor].
      eexists. split; [reflexivity|]. split; assumption.
Qed.

Corollary utf8_total d : wf_bytes d -> is_crash (decode_utf8 d) = false.
Proof. intros H. destruct (utf8_spec d H) as (c & -> & _). reflexivity. Qed.

Theorem utf8_decode_valid d c :
  wf_bytes d -> decode_utf8 d = Ok c -> valid_utf8 (cow_bytes c) = true.
Proof.
  intros Hw H. destruct (utf8_spec d Hw) as (c' & H' & Hb & _). rewrite H' in H. injection H as <-.
  rewrite Hb. apply lossy_valid.
Qed.

Theorem utf8_borrowed_iff d c :
  wf_bytes d -> decode_utf8 d = Ok c ->
  (is_borrowed c = true <-> has_escape (trim_ascii_end d) = false /\ valid_utf8 (trim_ascii_end d) = true) /\
  (is_borrowed c = true -> c = Borrowed (trim_ascii_end d)).
Proof.
  intros Hw H. destruct (utf8_spec d Hw) as (c' & H' & Hb & Hbor). rewrite H' in H. injection H as <-.
  assert (Hiff : is_borrowed c' = true <-> has_escape (trim_ascii_end d) = false /\ valid_utf8 (trim_ascii_end d) = true).
  { rewrite Hbor, andb_true_iff, negb_true_iff. tauto. }
  split; [exact Hiff|].
  intros Hc. destruct c' as [s|s]; [|discriminate]. apply Hiff in Hc as [He Hv].
  cbn [cow_bytes] in Hb. rewrite Hb. unfold utf8_reference.
  rewrite (no_escape_unescape _ He). now rewrite lossy_id.
Qed.

(* escape-free ASCII is returned borrowed by both decoders (zero copy) *)
Theorem plain_ascii_borrowed d :
  wf_bytes d -> forallb plain (trim_ascii_end d) = true ->
  decode_windows1252 d = Ok (Borrowed (trim_ascii_end d)) /\ decode_utf8 d = Ok (Borrowed (trim_ascii_end d)).
Proof.
  intros Hw Hp. split.
  - destruct (w1252_spec d) as (c & Hc & _ & Hbor). rewrite Hc. f_equal.
    apply (w1252_borrowed_iff d c Hc). now rewrite Hbor.
  - destruct (utf8_spec d Hw) as (c & Hc & _ & Hbor). rewrite Hc. f_equal.
    apply (utf8_borrowed_iff d c Hw Hc). rewrite Hbor.
    rewrite (valid_all_ascii _ (plain_ascii _ Hp)).
    replace (has_escape (trim_ascii_end d)) with false; [reflexivity|].
    symmetry. unfold has_escape. apply not_true_is_false. intros H. apply existsb_exists in H as (x & Hx & Hx').
    rewrite forallb_forall in Hp. specialize (Hp x Hx). unfold plain in Hp. rewrite Hx' in Hp.
    now rewrite andb_false_r in Hp.
Qed.
