(* C07 (wave 4): the public entry points of the text TokenReader as lists of calls on one reader.
   - read = next with the clean end turned into an Eof error (model-internal, any state);
   - any list of next/read calls on the streaming reader returns the reference tokens, for every
     schedule and every fitting buffer: hence the same as on the from_slice reader;
   - a clean end is reported at position = |input| only;
   - read_bytes returns exactly the next n bytes of the stream, or Eof, whatever the schedule. *)
From JV Require Import Bytes Tables U64Swar BufWin TextTok TextReader TextRef TextOps.
From JV.proofs Require Import BufWinProofs TextReaderProofs TextRefProofs TextFbProofs SwarLaneProofs TextFastProofs TextReaderMainProofs TextReaderFullProofs.
From Coq Require Import Lia List Arith.
Import ListNotations.
Open Scope nat_scope.

(* ---------- read_bytes_st is read_bytes ---------- *)
Lemma read_bytes_st_eq : forall fuel r n,
  read_bytes fuel r n =
  match read_bytes_st fuel r n with
  | (Ok b, r') => Ok (b, r')
  | (Err e, _) => Err e
  | (Panic s, _) => Panic s
  | (OOB s, _) => OOB s
  | (OutOfFuel, _) => OutOfFuel
  end.
Proof.
  induction fuel as [|f IH]; intros r n; [reflexivity|].
  cbn [read_bytes read_bytes_st].
  destruct (Nat.ltb (length (win (rbw r))) n).
  - destruct (bw_fill_buf (rbw r) (rrd r)) as [k b2 d2|b2 d2|b2 d2]; [|reflexivity|reflexivity].
    destruct k; [reflexivity|apply IH].
  - destruct (bw_advance (rbw r) n); reflexivity.
Qed.

(* ---------- the reference answer to a list of next/read calls ---------- *)
Definition tok_op (o : rop) : Prop := match o with OBytes _ => False | _ => True end.
Definition end_item (o : rop) : oitem := match o with ORead => XErr E_Eof | _ => XEnd end.

Fixpoint ref_items (ops : list rop) (l : list rout) : list oitem :=
  match ops, l with
  | [], _ => []
  | _, [] => []
  | _ :: ops', OTok t :: l' => XTok t :: ref_items ops' l'
  | o :: _, OEnd :: _ => [end_item o]
  | _ :: _, OErr e :: _ => [XErr e]
  | _ :: _, OCrash s :: _ => [XCrash s]
  end.

(* a clean end in the reference run leaves nothing unconsumed *)
Lemma ref_run_end_rem : forall fuel start s l rem m,
  ref_run fuel start s = (l, rem, m) -> In OEnd l -> rem = 0.
Proof.
  induction fuel as [|f IH]; intros start s l rem m H Hin.
  - cbn in H. inversion H; subst. destruct Hin as [Hc|[]]; discriminate.
  - cbn [ref_run] in H. destruct (tk start s) as [[t s'| |k] n].
    + destruct (ref_run f false s') as [[l' rem'] m'] eqn:E. inversion H; subst.
      destruct Hin as [Hc|Hin]; [discriminate|]. eapply IH; eauto.
    + inversion H; subst. reflexivity.
    + inversion H; subst. destruct Hin as [Hc|[]]; discriminate.
Qed.

Lemma clean_end_leftover input : In OEnd (tokens_of input) -> leftover input = 0.
Proof.
  unfold tokens_of, leftover, ref_tokens. intros H.
  destruct (ref_run (S (length input)) true input) as [[l rem] m] eqn:E. cbn [fst snd] in *.
  eapply ref_run_end_rem; eauto.
Qed.

Theorem stream_clean_end_position : forall input sch capv,
  wf_bytes input -> no_fail sch -> need input <= capv ->
  In OEnd (fst (run_stream capv sch input)) -> snd (run_stream capv sch input) = length input.
Proof.
  intros input sch capv Hwf Hnf Hneed. rewrite (stream_eq_tok input sch capv Hwf Hnf Hneed). cbn [fst snd].
  intros H. rewrite (clean_end_leftover input H). lia.
Qed.

Theorem slice_clean_end_position : forall input, wf_bytes input ->
  In OEnd (fst (run_slice input)) -> snd (run_slice input) = length input.
Proof.
  intros input Hwf. rewrite (slice_eq_tok input Hwf). cbn [fst snd].
  intros H. rewrite (clean_end_leftover input H). lia.
Qed.

(* ---------- any list of next/read calls = the reference tokens ---------- *)
Lemma items_cons i p l rf : items_of ((i, p) :: l, rf) = i :: items_of (l, rf).
Proof. reflexivity. Qed.

Theorem ops_spec input : wf_bytes input -> forall ops fuel r start sref,
  Forall tok_op ops -> rok input r -> srel r start sref -> length input + 2 <= fuel ->
  capok (rbw r) (rrd r) (snd (rr start sref)) ->
  items_of (run_ops fuel ops r) = ref_items ops (fst (fst (rr start sref))) /\
  (forall p, In (XEnd, p) (fst (run_ops fuel ops r)) -> p = length input).
Proof.
  intros Hwf. induction ops as [|o ops IH]; intros fuel r start sref Hops Hrok Hrel Hfuel Hcap; [split; [reflexivity|intros p []]|].
  inversion Hops as [|o' ops' Ho Hops']; subst o' ops'.
  pose proof (rok_pos input r Hrok) as Hpos.
  assert (Hrest : length (rest (rrd r)) <= length input).
  { unfold stream_of in Hpos. rewrite app_length in Hpos. lia. }
  assert (Htk : fst (tk (startb r) (stream_of r)) = fst (tk start sref) /\
                snd (tk (startb r) (stream_of r)) <= snd (tk start sref)).
  { destruct Hrel as [[-> ->]|(-> & -> & Hp)]; [split; [reflexivity|lia]|].
    rewrite (startb_pos r Hp), tk_space. split; [reflexivity|apply snd_bump]. }
  destruct Htk as [Htk1 Htk2].
  rewrite rr_unfold in Hcap |- *.
  assert (Hcap1 : capok (rbw r) (rrd r) (snd (tk (startb r) (stream_of r)))).
  { eapply capok_mono; [exact Hcap|reflexivity| |auto].
    destruct (tk start sref) as [[t s'| |k] nd0]; cbn [snd] in *; [|lia|lia].
    destruct (rr false s') as [[l rem] m]. cbn [snd]. lia. }
  pose proof (next_opt_step input fuel r Hwf Hrok ltac:(lia) Hcap1) as Hstep.
  rewrite Htk1 in Hstep.
  assert (Hrun : run_ops fuel (o :: ops) r =
                 match (match o with ORead => reader_read fuel r | _ => reader_next fuel r end) with
                 | NTok t r' => let '(l, rf) := run_ops fuel ops r' in ((XTok t, reader_position r') :: l, rf)
                 | NEnd r' => ([(XEnd, reader_position r')], r')
                 | NErr e r' => ([(XErr e, reader_position r')], r')
                 | NCrash s => ([(XCrash s, 0)], r)
                 end).
  { destruct o; [reflexivity|reflexivity|destruct Ho]. }
  rewrite Hrun. clear Hrun.
  destruct (tk start sref) as [[t s'| |k] nd0] eqn:Etk; cbn [fst snd stepres_ws stepres] in Hstep.
  - destruct Hstep as (r' & Hno & Hrok' & Hs' & Hc' & Hr').
    assert (Hcall : (match o with ORead => reader_read fuel r | _ => reader_next fuel r end) = NTok t r').
    { unfold reader_read, reader_next. rewrite Hno. destruct o; reflexivity. }
    rewrite Hcall.
    pose proof (tk_tok_shrinks (length sref) start sref t s' nd0 (le_n _) Etk) as Hshr.
    pose proof (rok_pos input r' Hrok') as Hpos'.
    assert (Hp' : reader_position r' > 0).
    { destruct Hs' as [<- | ->]; destruct Hrel as [[-> ->]|(-> & -> & Hp)]; cbn [length] in *; lia. }
    assert (Hrel' : srel r' false s').
    { destruct Hs' as [<- | ->]; [left; split; [reflexivity|symmetry; apply startb_pos; exact Hp']|right; auto]. }
    specialize (IH fuel r' false s' Hops' Hrok' Hrel' Hfuel).
    destruct (rr false s') as [[l rem] m] eqn:Err. cbn [fst snd] in *.
    destruct (run_ops fuel ops r') as [l2 rf] eqn:Erun.
    assert (Hcap' : capok (rbw r') (rrd r') m).
    { eapply capok_mono; [exact Hcap|exact Hc'|lia|].
      intros H0. rewrite H0 in Hr'. cbn [length] in Hr'. destruct (rest (rrd r')); [reflexivity|cbn [length] in Hr'; lia]. }
    destruct (IH Hcap') as [IH1 IH2].
    rewrite items_cons. cbn [ref_items fst]. split; [f_equal; exact IH1|].
    intros p [Hc|Hin]; [discriminate|apply IH2; exact Hin].
  - destruct Hstep as (r' & Hno & Hrok' & Hs').
    pose proof (rok_pos input r' Hrok') as Hpos'. rewrite Hs' in Hpos'. cbn [length] in Hpos'.
    unfold reader_read, reader_next. rewrite Hno. destruct o; [|  |destruct Ho].
    + split; [reflexivity|]. intros p [Hc|[]]. inversion Hc. lia.
    + split; [reflexivity|]. intros p [Hc|[]]. discriminate.
  - destruct Hstep as (r' & Hno & Hrok' & Hs').
    unfold reader_read, reader_next. rewrite Hno.
    destruct o; [| |destruct Ho]; (split; [reflexivity|intros p [Hc|[]]; discriminate]).
Qed.

(* ---------- the initial states ---------- *)
Lemma item_need_pos start c0 s : 1 <= inee (item start (c0 :: s)).
Proof.
  cbn [item]. destruct (is_ws c0); [cbn; lia|].
  destruct (b_is c0 35). { destruct (find_from _ s 0); cbn [inee]; lia. }
  destruct (b_is c0 123); [cbn; lia|]. destruct (b_is c0 125); [cbn; lia|].
  destruct (b_is c0 34). { destruct (rq_scan s 0); cbn [inee]; lia. }
  assert (Hu : forall m, 1 <= inee (bump_item m (unq_item (c0 :: s)))).
  { intros m. unfold unq_item. destruct (find_from _ _ 0); cbn [bump_item inee]; lia. }
  assert (Ho : forall a b, 1 <= inee (op_item s a b)).
  { intros a b. unfold op_item. destruct s as [|c3 s1]; [cbn; lia|]. destruct (b_is c3 61); cbn; lia. }
  destruct (b_is c0 64).
  { destruct s as [|c2 s1]; [cbn; lia|]. destruct (b_is c2 91).
    - destruct (find_from _ s1 0); cbn [inee]; lia.
    - specialize (Hu 0). rewrite bump_item_0 in Hu. exact Hu. }
  destruct (b_is c0 61); [apply Ho|]. destruct (b_is c0 60); [apply Ho|]. destruct (b_is c0 33); [apply Ho|].
  destruct (b_is c0 63); [apply Ho|]. destruct (b_is c0 62); [apply Ho|].
  destruct (b_is c0 239 && start).
  { destruct s as [|b1 [|b2 s3]]; [cbn; lia|cbn; lia|]. destruct (b_is b1 187 && b_is b2 191); [cbn; lia|apply Hu]. }
  specialize (Hu 0). rewrite bump_item_0 in Hu. exact Hu.
Qed.

Lemma rr_need_pos start c0 s : 1 <= snd (rr start (c0 :: s)).
Proof.
  rewrite rr_unfold. pose proof (tk_need_ge start (c0 :: s)) as Hge. pose proof (item_need_pos start c0 s) as H1.
  destruct (tk start (c0 :: s)) as [[t s'| |k] nd0]; cbn [snd] in *; [|lia|lia].
  destruct (rr false s') as [[l rem] m]. cbn [snd]. lia.
Qed.

Lemma stream_init input sch capv : no_fail sch -> snd (rr true input) <= capv ->
  rok input (reader_new capv input sch) /\ srel (reader_new capv input sch) true input /\
  capok (rbw (reader_new capv input sch)) (rrd (reader_new capv input sch)) (snd (rr true input)).
Proof.
  intros Hnf Hneed. split; [|split].
  - split; [|split; [exact Hnf|right; cbn; lia]]. exists []. cbn. auto.
  - left. split; reflexivity.
  - cbn [reader_new rbw rrd bw_new cap rest]. destruct capv as [|cv].
    + left. split; [reflexivity|]. destruct input as [|c0 input']; [reflexivity|].
      pose proof (rr_need_pos true c0 input'). lia.
    + right. unfold bw_new. cbn [cap]. split; [lia|exact Hneed].
Qed.

Lemma slice_init input :
  rok input (reader_from_slice input) /\ srel (reader_from_slice input) true input /\
  forall n, capok (rbw (reader_from_slice input)) (rrd (reader_from_slice input)) n.
Proof.
  split; [|split].
  - split; [|split; [intros H; exact H|left; reflexivity]]. exists []. cbn. rewrite app_nil_r. auto.
  - left. split; [unfold stream_of; cbn; rewrite app_nil_r; reflexivity|reflexivity].
  - intros n. left. split; reflexivity.
Qed.

Theorem ops_stream_eq_tok : forall input sch capv ops,
  wf_bytes input -> no_fail sch -> need input <= capv -> Forall tok_op ops ->
  items_of (stream_ops capv sch input ops) = ref_items ops (tokens_of input) /\
  (forall p, In (XEnd, p) (fst (stream_ops capv sch input ops)) -> p = length input).
Proof.
  intros input sch capv ops Hwf Hnf Hneed Hops. unfold stream_ops, tokens_of, need, ref_tokens in *.
  change (ref_run (S (length input)) true input) with (rr true input) in *.
  destruct (stream_init input sch capv Hnf Hneed) as (H1 & H2 & H3).
  apply (ops_spec input Hwf ops _ _ true input Hops H1 H2); [unfold ops_fuel, default_fuel; lia|exact H3].
Qed.

Theorem ops_slice_eq_tok : forall input ops, wf_bytes input -> Forall tok_op ops ->
  items_of (slice_ops input ops) = ref_items ops (tokens_of input) /\
  (forall p, In (XEnd, p) (fst (slice_ops input ops)) -> p = length input).
Proof.
  intros input ops Hwf Hops. unfold slice_ops, tokens_of, ref_tokens.
  change (ref_run (S (length input)) true input) with (rr true input).
  destruct (slice_init input) as (H1 & H2 & H3).
  apply (ops_spec input Hwf ops _ _ true input Hops H1 H2); [unfold ops_fuel, default_fuel; lia|apply H3].
Qed.

Theorem ops_stream_eq_slice : forall input sch capv ops,
  wf_bytes input -> no_fail sch -> need input <= capv -> Forall tok_op ops ->
  items_of (stream_ops capv sch input ops) = items_of (slice_ops input ops).
Proof.
  intros input sch capv ops Hwf Hnf Hneed Hops.
  rewrite (proj1 (ops_stream_eq_tok input sch capv ops Hwf Hnf Hneed Hops)), (proj1 (ops_slice_eq_tok input ops Hwf Hops)). reflexivity.
Qed.

(* read is next except at the clean end: same calls with every read replaced by next *)
Definition as_next (ops : list rop) : list rop := map (fun o => match o with ORead => ONext | x => x end) ops.
Fixpoint patch (ops : list rop) (l : list oitem) : list oitem :=
  match ops, l with
  | o :: ops', i :: l' => (match i with XEnd => end_item o | x => x end) :: patch ops' l'
  | _, _ => l
  end.
Lemma ref_items_patch : forall ops l, ref_items ops l = patch ops (ref_items (as_next ops) l).
Proof.
  induction ops as [|o ops IH]; intros l; [reflexivity|].
  destruct l as [|x l]; [reflexivity|]. cbn [as_next map ref_items].
  destruct x as [t| |e|s]; cbn [patch].
  - f_equal. apply IH.
  - destruct o; cbn; destruct ops; reflexivity.
  - destruct ops; reflexivity.
  - destruct ops; reflexivity.
Qed.

Theorem read_is_next_with_eof : forall input sch capv ops,
  wf_bytes input -> no_fail sch -> need input <= capv -> Forall tok_op ops ->
  items_of (stream_ops capv sch input ops) = patch ops (items_of (stream_ops capv sch input (as_next ops))).
Proof.
  intros input sch capv ops Hwf Hnf Hneed Hops.
  assert (Hops2 : Forall tok_op (as_next ops)).
  { unfold as_next. apply Forall_map. eapply Forall_impl; [|exact Hops]. intros o Ho. destruct o; exact Ho. }
  rewrite (proj1 (ops_stream_eq_tok input sch capv ops Hwf Hnf Hneed Hops)),
          (proj1 (ops_stream_eq_tok input sch capv _ Hwf Hnf Hneed Hops2)).
  apply ref_items_patch.
Qed.

(* ---------- read_bytes: exactly the next n bytes of the stream, or Eof, whatever the schedule ---------- *)
Theorem read_bytes_spec input : forall fuel r n,
  rok input r -> length (rest (rrd r)) < fuel ->
  (cap (rbw r) = 0 /\ rest (rrd r) = []) \/ n <= cap (rbw r) ->
  exists r', rok input r' /\ cap (rbw r') = cap (rbw r) /\
    if Nat.leb n (length (stream_of r))
    then read_bytes_st fuel r n = (Ok (firstn n (stream_of r)), r') /\ stream_of r' = skipn n (stream_of r)
    else read_bytes_st fuel r n = (Err E_Eof, r') /\ stream_of r' = stream_of r.
Proof.
  induction fuel as [|f IH]; intros r n Hrok Hfuel Hcap; [lia|].
  cbn [read_bytes_st]. destruct r as [b d bom]. cbn [rbw rrd rbom] in *. unfold stream_of in *. cbn [rbw rrd] in *.
  destruct (Nat.ltb (length (win b)) n) eqn:Hlt.
  - apply Nat.ltb_lt in Hlt.
    destruct Hrok as [Hinv [Hnf Hwin]]. cbn [rbw rrd] in *.
    pose proof (fill_cases b d Hnf) as Hc. pose proof (fill_buf_preserves input b d Hinv) as Hp.
    destruct (bw_fill_buf b d) as [k b2 d2|b2 d2|b2 d2]; [|destruct Hc|lia].
    destruct Hc as (bs & H1 & H2 & H3 & H4 & H5 & H6 & H7 & H8).
    assert (Hrok2 : rok input (mkreader b2 d2 bom)).
    { split; [exact (proj1 Hp)|]. split; [exact H6|]. cbn [rbw]. rewrite H4. exact H8. }
    destruct k as [|k].
    + assert (Hr : rest d = []).
      { destruct (H7 eq_refl) as [Hz|[Hr _]]; [|exact Hr]. destruct Hcap as [[_ Hr]|Hn]; [exact Hr|lia]. }
      destruct bs; [|discriminate]. rewrite Hr in *. cbn [app] in H2. rewrite app_nil_r in *.
      replace (Nat.leb n (length (win b))) with false by (symmetry; apply Nat.leb_gt; lia).
      exists (mkreader b2 d2 bom). split; [exact Hrok2|]. split; [exact H4|]. split; [reflexivity|].
      cbn [rbw rrd]. rewrite H3, <- H2. apply app_nil_r.
    + assert (Hs : win b2 ++ rest d2 = win b ++ rest d) by (rewrite H3, H2, app_assoc; reflexivity).
      destruct (IH (mkreader b2 d2 bom) n Hrok2) as (r' & Hr1 & Hr2 & Hr3).
      * cbn [rrd]. rewrite H2, app_length in Hfuel. lia.
      * cbn [rbw rrd]. rewrite H4. destruct Hcap as [[Hz Hr]|Hn]; [left; split; [exact Hz|]|right; exact Hn].
        rewrite Hr in H2. destruct bs; [discriminate|discriminate].
      * cbn [rbw rrd] in Hr2, Hr3. rewrite Hs in Hr3. exists r'. split; [exact Hr1|]. split; [rewrite Hr2; exact H4|exact Hr3].
  - apply Nat.ltb_ge in Hlt.
    destruct (rok_advance input b d bom bom n Hrok Hlt) as [Hadv Hrok'].
    rewrite Hadv. replace (Nat.leb n (length (win b ++ rest d))) with true by (symmetry; apply Nat.leb_le; rewrite app_length; lia).
    eexists. split; [exact Hrok'|]. split; [reflexivity|]. unfold with_bw. cbn [rbw rrd rbom win].
    split.
    + f_equal. f_equal. rewrite firstn_app. replace (n - length (win b)) with 0 by lia. cbn [firstn]. rewrite app_nil_r. reflexivity.
    + rewrite skipn_app. replace (n - length (win b)) with 0 by lia. reflexivity.
Qed.

(* header bytes first, then tokens: what the first call read_bytes(n) and all the following
   next/read calls return does not depend on the schedule or on the buffer (large enough for
   the header and for the atoms of the rest) *)
Theorem header_then_tokens : forall input sch capv n ops,
  wf_bytes input -> no_fail sch -> Forall tok_op ops ->
  0 < n <= length input -> n <= capv -> snd (rr false (skipn n input)) <= capv ->
  items_of (stream_ops capv sch input (OBytes n :: ops)) =
  XBytes (firstn n input) :: ref_items ops (fst (fst (rr false (skipn n input)))).
Proof.
  intros input sch capv n ops Hwf Hnf Hops Hn Hcapn Hneed. unfold stream_ops.
  assert (Hrok : rok input (reader_new capv input sch)).
  { split; [|split; [exact Hnf|right; cbn; lia]]. exists []. cbn. auto. }
  destruct (read_bytes_spec input (ops_fuel input sch) (reader_new capv input sch) n Hrok) as (r' & Hr1 & Hr2 & Hr3).
  - cbn [reader_new rrd rest]. unfold ops_fuel, default_fuel. lia.
  - right. cbn. exact Hcapn.
  - assert (Hso : stream_of (reader_new capv input sch) = input) by reflexivity.
    rewrite Hso in Hr3. replace (Nat.leb n (length input)) with true in Hr3 by (symmetry; apply Nat.leb_le; lia).
    destruct Hr3 as [Hrb Hs']. cbn [run_ops]. rewrite Hrb.
    pose proof (rok_pos input r' Hr1) as Hpos. rewrite Hs', skipn_length in Hpos.
    assert (Hp : reader_position r' > 0) by lia.
    assert (Hrel : srel r' false (skipn n input)).
    { left. split; [symmetry; exact Hs'|symmetry; apply startb_pos; exact Hp]. }
    assert (Hcap' : capok (rbw r') (rrd r') (snd (rr false (skipn n input)))).
    { right. cbn [reader_new rbw bw_new cap] in Hr2. rewrite Hr2. split; lia. }
    destruct (ops_spec input Hwf ops (ops_fuel input sch) r' false (skipn n input) Hops Hr1 Hrel ltac:(unfold ops_fuel, default_fuel; lia) Hcap') as [H1 _].
    destruct (run_ops (ops_fuel input sch) ops r') as [l rf]. rewrite items_cons. f_equal. exact H1.
Qed.

(* ---------- a buffer that is too small, for any list of next/read calls ---------- *)
Theorem ops_full input : wf_bytes input -> forall ops fuel r start sref,
  Forall tok_op ops -> rok input r -> 0 < cap (rbw r) -> srel r start sref -> length input + 2 <= fuel ->
  cap (rbw r) < snd (rr start sref) ->
  exists pre suf,
    (items_of (run_ops fuel ops r) = map XTok pre /\ length pre = length ops \/
     items_of (run_ops fuel ops r) = map XTok pre ++ [XErr E_BufferFull]) /\
    fst (fst (rr start sref)) = map OTok pre ++ suf /\ suf <> [].
Proof.
  intros Hwf. induction ops as [|o ops IH]; intros fuel r start sref Hops Hrok Hcpos Hrel Hfuel Hbig.
  { exists [], (fst (fst (rr start sref))). split; [left; split; reflexivity|]. split; [reflexivity|apply rr_nonempty]. }
  inversion Hops as [|o' ops' Ho Hops']; subst o' ops'.
  pose proof (rok_pos input r Hrok) as Hpos.
  assert (Hrest : length (rest (rrd r)) <= length input).
  { unfold stream_of in Hpos. rewrite app_length in Hpos. lia. }
  assert (Htk : fst (tk (startb r) (stream_of r)) = fst (tk start sref) /\
                snd (tk (startb r) (stream_of r)) <= snd (tk start sref) /\
                snd (tk start sref) <= Nat.max 1 (snd (tk (startb r) (stream_of r)))).
  { destruct Hrel as [[-> ->]|(-> & -> & Hp)]; [split; [reflexivity|lia]|].
    rewrite (startb_pos r Hp), tk_space. split; [reflexivity|]. rewrite snd_bump_max. lia. }
  destruct Htk as (Htk1 & Htk2 & Htk3).
  assert (Hrun : run_ops fuel (o :: ops) r =
                 match (match o with ORead => reader_read fuel r | _ => reader_next fuel r end) with
                 | NTok t r' => let '(l, rf) := run_ops fuel ops r' in ((XTok t, reader_position r') :: l, rf)
                 | NEnd r' => ([(XEnd, reader_position r')], r')
                 | NErr e r' => ([(XErr e, reader_position r')], r')
                 | NCrash s => ([(XCrash s, 0)], r)
                 end).
  { destruct o; [reflexivity|reflexivity|destruct Ho]. }
  rewrite Hrun. clear Hrun.
  destruct (le_lt_dec (snd (tk start sref)) (cap (rbw r))) as [Hfit|Hnofit].
  - assert (Hcap1 : capok (rbw r) (rrd r) (snd (tk (startb r) (stream_of r)))) by (right; lia).
    pose proof (next_opt_step input fuel r Hwf Hrok ltac:(lia) Hcap1) as Hstep.
    rewrite Htk1 in Hstep. rewrite rr_unfold in Hbig |- *.
    destruct (tk start sref) as [[t s'| |k] nd0] eqn:Etk; cbn [fst snd stepres_ws stepres] in *; [|lia|lia].
    destruct Hstep as (r' & Hno & Hrok' & Hs' & Hc' & Hr').
    assert (Hcall : (match o with ORead => reader_read fuel r | _ => reader_next fuel r end) = NTok t r').
    { unfold reader_read, reader_next. rewrite Hno. destruct o; reflexivity. }
    rewrite Hcall.
    pose proof (rok_pos input r' Hrok') as Hpos'.
    assert (Hp' : reader_position r' > 0).
    { destruct Hs' as [<- | ->]; destruct Hrel as [[-> ->]|(-> & -> & Hp)]; cbn [length] in *;
        pose proof (tk_tok_shrinks _ _ _ t _ nd0 (le_n _) Etk) as Hshr; cbn [length] in *; lia. }
    assert (Hrel' : srel r' false s').
    { destruct Hs' as [<- | ->]; [left; split; [reflexivity|symmetry; apply startb_pos; exact Hp']|right; auto]. }
    specialize (IH fuel r' false s' Hops' Hrok' ltac:(lia) Hrel' Hfuel).
    destruct (rr false s') as [[l rem] m] eqn:Err. cbn [fst snd] in *.
    destruct IH as (pre & suf & Hitems & Hl & Hsuf); [lia|].
    destruct (run_ops fuel ops r') as [l2 rf] eqn:Erun. rewrite items_cons.
    exists (t :: pre), suf. cbn [map app length]. rewrite Hl. split; [|auto].
    destruct Hitems as [[Hi Hlen]|Hi]; [left; split; [f_equal; exact Hi|f_equal; exact Hlen]|right; f_equal; exact Hi].
  - assert (Hbig1 : cap (rbw r) < snd (tk (startb r) (stream_of r))) by lia.
    destruct (next_opt_full input fuel r Hwf Hrok Hcpos ltac:(lia) Hbig1) as [r' Hno].
    assert (Hcall : (match o with ORead => reader_read fuel r | _ => reader_next fuel r end) = NErr E_BufferFull r').
    { unfold reader_read, reader_next. rewrite Hno. destruct o; reflexivity. }
    rewrite Hcall. exists [], (fst (fst (rr start sref))).
    split; [right; reflexivity|]. split; [reflexivity|apply rr_nonempty].
Qed.

Theorem ops_stream_full : forall input sch capv ops,
  wf_bytes input -> no_fail sch -> 0 < capv < need input -> Forall tok_op ops ->
  exists pre suf,
    (items_of (stream_ops capv sch input ops) = map XTok pre /\ length pre = length ops \/
     items_of (stream_ops capv sch input ops) = map XTok pre ++ [XErr E_BufferFull]) /\
    tokens_of input = map OTok pre ++ suf /\ suf <> [].
Proof.
  intros input sch capv ops Hwf Hnf Hneed Hops. unfold stream_ops, tokens_of, need, ref_tokens in *.
  change (ref_run (S (length input)) true input) with (rr true input) in *.
  apply (ops_full input Hwf ops _ _ true input Hops).
  - split; [|split; [exact Hnf|right; cbn; lia]]. exists []. cbn. auto.
  - unfold reader_new, bw_new. cbn [rbw cap]. lia.
  - left. split; reflexivity.
  - unfold ops_fuel, default_fuel. lia.
  - unfold reader_new, bw_new. cbn [rbw cap]. lia.
Qed.
