(* PLAN (w_btcap, wave 5; audit/C05.md section 4 rows copyless.rs:17-19, binary/tape.rs:105, :591-622).

   Gap: BinTape.v keeps the token tape as a list, so "is this raw write inside the allocation?" could
   not even be asked; only a stream (tape capacity sweep) looked at it.

   Model: BinTapeCap.v -- the vector with a capacity, the raw operations with an OOB outcome, their
   ORDER generated from the source (Tables.bt_*_ops).

   Theorems, for EVERY growth policy [pol] (only "capacity >= len + n after reserve(n)" is used),
   EVERY vector handed in (a recycled tape of any content and capacity), EVERY byte string:
     1. [v_alloc_ok]          alloc().init(x) never writes out of bounds and is a push;
     2. [*_ref]               every definition of BinTapeCap erases ([omap fst]) to its BinTape
                              counterpart, in particular
        [eq_arm_c_ref]        the `=`-in-ArrayValue arm: reserve(2) / pop / three writes / set_len
                              (resp. one write / set_len) stay in bounds and over initialised slots;
     3. [parse_cap_refines]   omap fst (parse_cap pol fx opt v0 d) = BinTape.parse fx opt d
                              -- every theorem about BinTape.parse transfers;
     4. [parse_cap_no_crash]  no run reaches OOB / Panic / OutOfFuel (from 3 and BinTapeSafe.parse_no_crash);
     5. [reserve_after_pop_refuted]  the order of seeded change C05_4 (pop, check, reserve(2)) DOES reach
                              OOB 360 -- the model is sensitive to the order the translator extracts.

   Proof device: both sides branch on the same scrutinees (ids and payloads read from the input),
   so one [destruct] simplifies both; at a [v_alloc] site lemma 1 rewrites it to an [Ok] of a push. *)
From JV Require Import Bytes Tables BinPrim BinTape BinTapeCap.
From JV.proofs Require Import BinTapeWfProofs BinTapeInv BinTapeSim BinTapeSafe.
Require Import Lia.
Open Scope nat_scope.

(* ------------------------------------------------------------------ the generated lists, decoded.
   A change of the order of the raw operations in the source breaks one of these five lemmas. *)
Lemma prog_alloc : prog bt_vec_alloc_ops = [OSnapLen; OReserveIfFull 1; OWrite BLen 0 VArg; OSetLen BLen 1].
Proof. reflexivity. Qed.
Lemma prog_init : exists dv mn, prog bt_init_ops = [OClear; OReserveInit dv mn; OWrite BZero 0 VEqualC] /\ 1 <= mn.
Proof. eexists _, _. split; [reflexivity|]. cbv. lia. Qed.
(* reserve(k) with any k >= 2 will do *)
Lemma prog_eq_prefix : exists k, prog bt_eq_prefix_ops = [OReserve k; OPop false; OCheckLast] /\ 2 <= k.
Proof. eexists. split; [reflexivity|]. cbv. lia. Qed.
Lemma prog_eq_empties : prog bt_eq_empties_ops = [OSetParent; OWrite BPar 1 (VStash 0); OSetLen BPar 2].
Proof. reflexivity. Qed.
Lemma prog_eq_mixed : prog bt_eq_mixed_ops =
  [OSnapLen; OWrite BLen 0 VMixedC; OWrite BLen 1 (VStash 0); OWrite BLen 2 VEqualC; OSetLen BLen 3].
Proof. reflexivity. Qed.
Lemma prog_mixed_insert1 : prog bt_mixed_insert1_ops = [OPop true; OAlloc VMixedC; OAlloc (VStash 0)].
Proof. reflexivity. Qed.
Lemma prog_mixed_insert2 : prog bt_mixed_insert2_ops =
  [OPop true; OPop true; OAlloc VMixedC; OAlloc (VStash 1); OAlloc (VStash 0)].
Proof. reflexivity. Qed.

(* ------------------------------------------------------------------ the vector *)
Lemma take_init_length : forall k sp l r, take_init k sp = Some (l, r) -> length sp = k + length r /\ length l = k.
Proof.
  induction k; intros sp l r H; cbn in H.
  - inversion H; subst. cbn. auto.
  - destruct sp as [|[x|] sp']; try discriminate.
    destruct (take_init k sp') as [[l' r']|] eqn:E; [|discriminate]. inversion H; subst.
    destruct (IHk _ _ _ E). cbn. lia.
Qed.

Lemma v_write_spare : forall t sp k x,
  v_write (length t + k) x (t, sp) = match set_nth sp k x with Some sp' => Ok (t, sp') | None => OOB 360 end.
Proof.
  intros. unfold v_write. cbn [fst snd].
  replace (Nat.ltb (length t + k) (length t)) with false by (symmetry; apply Nat.ltb_ge; lia).
  replace (length t + k - length t) with k by lia. reflexivity.
Qed.

Lemma v_write_live : forall t sp i x, i < length t -> v_write i x (t, sp) = Ok (upd t i x, sp).
Proof. intros. unfold v_write. cbn [fst snd]. apply Nat.ltb_lt in H. now rewrite H. Qed.

Lemma v_set_len_grow : forall t sp k l r, take_init k sp = Some (l, r) -> v_set_len (length t + k) (t, sp) = Ok (t ++ l, r).
Proof.
  intros t sp k l r H. destruct (take_init_length _ _ _ _ H) as [Hs Hl]. unfold v_set_len, v_cap. cbn [fst snd].
  destruct k.
  - cbn in H. inversion H; subst. rewrite Nat.add_0_r, Nat.leb_refl, firstn_all, skipn_all, app_nil_r. reflexivity.
  - replace (Nat.leb (length t + S k) (length t)) with false by (symmetry; apply Nat.leb_gt; lia).
    replace (Nat.ltb (length t + length sp) (length t + S k)) with false by (symmetry; apply Nat.ltb_ge; lia).
    replace (length t + S k - length t) with (S k) by lia. now rewrite H.
Qed.

Lemma v_set_len_cut : forall t sp n, n <= length t -> v_set_len n (t, sp) = Ok (firstn n t, map Some (skipn n t) ++ sp).
Proof. intros. unfold v_set_len. cbn [fst snd]. apply Nat.leb_le in H. now rewrite H. Qed.

(* after reserve(n) at least n spare slots *)
Lemma v_reserve_room : forall pol n t sp, exists sp', v_reserve pol n (t, sp) = (t, sp') /\ n <= length sp'.
Proof.
  intros. unfold v_reserve. cbn [fst snd]. destruct (Nat.leb n (length sp)) eqn:E.
  - exists sp. split; auto. now apply Nat.leb_le.
  - eexists. split; [reflexivity|]. rewrite repeat_length. lia.
Qed.

Lemma v_reserve_room' : forall pol n v, exists sp', v_reserve pol n v = (fst v, sp') /\ n <= length sp'.
Proof. intros pol n [t sp]. apply v_reserve_room. Qed.

Lemma spare_cons : forall (sp : spare) n, S n <= length sp -> exists a r, sp = a :: r /\ n <= length r.
Proof. intros [|a r] n H; cbn in H; [lia|]. exists a, r. split; auto. lia. Qed.

(* ------------------------------------------------------------------ 1. alloc().init(x) *)
Lemma v_alloc_ok_pair : forall pol x t sp, exists sp', v_alloc pol x (t, sp) = Ok (push t x, sp').
Proof.
  intros. unfold v_alloc. rewrite prog_alloc.
  cbn [run_ops run_op obind fst snd regs0 r_len r_stash].
  assert (exists a r, (if Nat.eqb (v_cap (t, sp)) (length t) then v_reserve pol 1 (t, sp) else (t, sp)) = (t, a :: r))
    as (a & r & E).
  { unfold v_cap. cbn [fst snd]. destruct sp as [|a r].
    - cbn [length]. rewrite Nat.add_0_r, Nat.eqb_refl.
      destruct (v_reserve_room pol 1 t []) as (sp' & E & Hl). destruct (spare_cons _ _ Hl) as (a & r & -> & _). eauto.
    - replace (Nat.eqb (length t + length (a :: r)) (length t)) with false by (symmetry; apply Nat.eqb_neq; cbn; lia). eauto. }
  rewrite E. unfold idx_of. cbn [r_len val_of e_arg obind].
  rewrite v_write_spare. cbn [set_nth obind fst snd r_len].
  rewrite (v_set_len_grow t (Some x :: r) 1 [x] r eq_refl). cbn [obind omap fst]. eauto.
Qed.

Theorem v_alloc_ok : forall pol x v, exists sp', v_alloc pol x v = Ok (push (fst v) x, sp').
Proof. intros pol x [t sp]. apply v_alloc_ok_pair. Qed.

Ltac alloc_step :=
  match goal with
  | |- context[v_alloc ?pol ?x ?v] =>
    let sp' := fresh "sp" in let E := fresh "E" in
    destruct (v_alloc_ok pol x v) as [sp' E]; rewrite E; clear E; cbn [obind omap fst snd]
  end.

(* ------------------------------------------------------------------ 2. definition-by-definition erasure *)
Lemma push_end_fin_c_ref : forall pol c g par t sp, omap fst (push_end_fin_c pol c g par t sp) = push_end_fin c g par t.
Proof.
  intros. unfold push_end_fin_c, push_end_fin. alloc_step.
  destruct (nth_error (push (upd t par c) (TEnd par)) g) as [[]|]; reflexivity.
Qed.

Lemma push_end_c_ref : forall pol par t sp, omap fst (push_end_c pol par t sp) = push_end par t.
Proof.
  intros. unfold push_end_c, push_end. destruct (nth_error t par) as [[]|]; try reflexivity; apply push_end_fin_c_ref.
Qed.

Lemma close_c_ref : forall pol par t sp, omap fst (close_array_unchecked_c pol par t sp) = close_array_unchecked par t.
Proof.
  intros. unfold close_array_unchecked_c, close_array_unchecked.
  destruct (nth_error t par) as [[]|]; try reflexivity. alloc_step. reflexivity.
Qed.

Ltac vsimp := unfold idx_of; cbn [run_ops run_op obind omap fst snd regs0 r_len r_stash e_par e_arg e_dlen val_of app nth_error length].

Lemma mixed_insert1_c_ref : forall pol t sp, omap fst (mixed_insert1_c pol t sp) = mixed_insert1 t.
Proof.
  intros. unfold mixed_insert1_c, mixed_insert1. rewrite prog_mixed_insert1. vsimp. unfold v_pop. cbn [fst snd].
  destruct (pop t) as [[t1 s1]|]; [|reflexivity]. vsimp. alloc_step. vsimp. alloc_step. reflexivity.
Qed.

Lemma mixed_insert2_c_ref : forall pol t sp, omap fst (mixed_insert2_c pol t sp) = mixed_insert2 t.
Proof.
  intros. unfold mixed_insert2_c, mixed_insert2. rewrite prog_mixed_insert2. vsimp. unfold v_pop. cbn [fst snd].
  destruct (pop t) as [[t1 s1]|]; [|reflexivity]. vsimp. unfold v_pop. cbn [fst snd].
  destruct (pop t1) as [[t2 s2]|]; [|reflexivity]. vsimp. alloc_step. vsimp. alloc_step. vsimp. alloc_step. reflexivity.
Qed.

(* ------------------------------------------------------------------ the `=` met in ArrayValue state *)
Definition eq_arm_spec (d : bytes) (par : nat) (t : tape) : outcome st :=
  match pop t with
  | None => OOB 350
  | Some (t1, last) =>
    if is_array_or_end last then Err E_Syntax
    else if only_empties par t1 then
      do t2 <- set_parent_to_object par t1;
      Ok (mkst d ObjectValue par (push (firstn (S par) t2) last))
    else Ok (mkst d ArrayValueMixed par (push (push (push t1 TMixed) last) TEqual))
  end.

Lemma firstn_upd_last : forall (t : tape) i x, i < length t -> firstn (S i) (upd t i x) = firstn i t ++ [x].
Proof.
  induction t as [|y t IH]; intros i x H; cbn in H; [lia|].
  destruct i; [reflexivity|]. cbn [upd]. rewrite firstn_cons, IH by lia. reflexivity.
Qed.

Lemma only_empties_room : forall par t, only_empties par t = true -> par + 3 <= length t.
Proof.
  intros par t H. unfold only_empties in H. apply andb_prop in H. destruct H as [H _]. apply andb_prop in H. destruct H as [H _].
  apply Nat.leb_le in H. rewrite skipn_length in H. lia.
Qed.

Lemma set_parent_length : forall par t t', set_parent_to_object par t = Ok t' -> length t' = length t.
Proof.
  intros par t t' H. unfold set_parent_to_object in H. destruct (nth_error t par) as [[]|]; try discriminate.
  inversion H. apply upd_length.
Qed.

Theorem eq_arm_c_ref : forall pol d par t sp, omap fst (eq_arm_c pol d par t sp) = eq_arm_spec d par t.
Proof.
  intros. unfold eq_arm_c, eq_arm_gen, eq_arm_spec. destruct prog_eq_prefix as (k & -> & Hk).
  rewrite prog_eq_empties, prog_eq_mixed. vsimp.
  destruct (v_reserve_room pol k t sp) as (sp1 & E1 & H1). rewrite E1. assert (H1' : 2 <= length sp1) by lia. clear H1.
  rename H1' into H1.
  unfold v_pop. cbn [fst snd].
  destruct (pop t) as [[t1 last]|]; [|reflexivity]. vsimp.
  destruct (is_array_or_end last); [reflexivity|]. vsimp.
  destruct (only_empties par t1) eqn:Eo.
  - vsimp. destruct (set_parent_to_object par t1) as [t2| | | |] eqn:Es; try reflexivity. vsimp.
    pose proof (only_empties_room _ _ Eo) as Hr. pose proof (set_parent_length _ _ _ Es) as Hl.
    rewrite v_write_live by lia. vsimp.
    rewrite v_set_len_cut by (rewrite upd_length; lia). vsimp.
    replace (par + 2) with (S (par + 1)) by lia. rewrite firstn_upd_last by lia.
    rewrite Nat.add_1_r. reflexivity.
  - vsimp. destruct (spare_cons _ _ H1) as (a & r1 & -> & H2). destruct (spare_cons _ _ H2) as (b & r2 & -> & _).
    rewrite v_write_spare. cbn [set_nth]. vsimp.
    rewrite v_write_spare. cbn [set_nth]. vsimp.
    rewrite v_write_spare. cbn [set_nth]. vsimp.
    rewrite (v_set_len_grow t1 (Some TMixed :: Some last :: Some TEqual :: r2) 3 [TMixed; last; TEqual] r2 eq_refl). vsimp.
    unfold push. rewrite <- !app_assoc. reflexivity.
Qed.

(* 5. the order of seeded change C05_4 -- pop, the early return, and only then reserve(2) -- lets the third
   write escape when the tape is one slot short of full (here: two tokens in a vector of capacity 2, so that
   after the pop reserve(2) is content with the spare room it finds) *)
Theorem reserve_after_pop_refuted :
  exists pol d par t sp,
    eq_arm_gen pol [OPop false; OCheckLast; OReserve 2] (prog bt_eq_empties_ops) (prog bt_eq_mixed_ops) d par t sp = OOB 360
    /\ is_crash (eq_arm_c pol d par t sp) = false.
Proof. exists exact_policy, [], 0, [TArray 0; TToken 5], [None]. split; vm_compute; reflexivity. Qed.

(* ------------------------------------------------------------------ the parser, definition by definition *)
(* head-directed case analysis: the left side is [omap fst <cap-model term>]; look at what its evaluation is
   waiting for *)
Ltac hd x :=
  lazymatch x with
  | obind ?y _ => hd y
  | omap _ ?y => hd y
  | match ?y with _ => _ end => hd y
  | v_alloc ?pol ?a ?v =>
    let sp' := fresh "sp" in let E := fresh "E" in destruct (v_alloc_ok pol a v) as [sp' E]; rewrite E; clear E
  | close_array_unchecked_c ?pol ?par ?t ?sp =>
    rewrite <- (close_c_ref pol par t sp); destruct x as [[[? ?] ?]| | | |]
  | push_end_c ?pol ?par ?t ?sp =>
    rewrite <- (push_end_c_ref pol par t sp); destruct x as [[[[? ?] ?] ?]| | | |]
  | mixed_insert1_c ?pol ?t ?sp =>
    rewrite <- (mixed_insert1_c_ref pol t sp); destruct x as [[? ?]| | | |]
  | mixed_insert2_c ?pol ?t ?sp =>
    rewrite <- (mixed_insert2_c_ref pol t sp); destruct x as [[? ?]| | | |]
  | _ => destruct x eqn:?
  end.

Ltac ref_go tails :=
  repeat first
    [ reflexivity
    | tails
    | progress cbn [obind omap fst snd]
    | match goal with |- omap fst ?l = _ => hd l end ].

Lemma arr_loop_c_ref : forall pol f k c nd par t sp, omap fst (arr_loop_c pol f k c nd par t sp) = arr_loop f k c nd par t.
Proof.
  induction f; intros; [reflexivity|]. cbn [arr_loop_c arr_loop].
  ref_go ltac:(apply IHf).
Qed.

Lemma array_field_c_ref : forall pol k c d4 par t sp, omap fst (array_field_c pol k c d4 par t sp) = array_field k c d4 par t.
Proof.
  intros. unfold array_field_c, array_field. ref_go ltac:(apply arr_loop_c_ref).
Qed.

Lemma key_fast_c_ref : forall pol fx d id par t sp, omap fst (key_fast_c pol fx d id par t sp) = key_fast fx d id par t.
Proof.
  intros. unfold key_fast_c, key_fast. ref_go ltac:(apply array_field_c_ref).
Qed.

Lemma i32_run_c_ref : forall pol f nd par t sp, omap fst (i32_run_c pol f nd par t sp) = i32_run f nd par t.
Proof.
  induction f; intros; [reflexivity|]. cbn [i32_run_c i32_run].
  ref_go ltac:(apply IHf).
Qed.

Lemma scalar_arm_c_ref : forall pol k d ps par t sp, omap fst (scalar_arm_c pol k d ps par t sp) = scalar_arm k d ps par t.
Proof. intros. unfold scalar_arm_c, scalar_arm. ref_go fail. Qed.

Lemma token_arm_c_ref : forall pol d id ps par t sp,
  omap fst (token_arm_c pol d id ps par t sp) = (do ps' <- next_state ps; Ok (mkst d ps' par (push t (TToken id)))).
Proof. intros. unfold token_arm_c. ref_go fail. Qed.

Lemma slow_c_ref : forall pol opt d id ps par t sp, omap fst (slow_c pol opt d id ps par t sp) = slow opt d id ps par t.
Proof.
  intros. unfold slow_c, slow.
  assert (P : forall ps t sp, omap fst
    (match classify id with
     | CU32 => scalar_arm_c pol KU32 d ps par t sp
     | CU64 => scalar_arm_c pol KU64 d ps par t sp
     | CI32 =>
       do (s, sp') <- scalar_arm_c pol KI32 d ps par t sp;
       match opt, s_ps s with
       | true, ArrayValue => i32_run_c pol (S (length (s_data s))) (s_data s) par (s_tape s) sp'
       | _, _ => Ok (s, sp')
       end
     | CBool => scalar_arm_c pol KBool d ps par t sp
     | CQuoted => scalar_arm_c pol KQuoted d ps par t sp
     | CUnquoted => scalar_arm_c pol KUnquoted d ps par t sp
     | CF32 => scalar_arm_c pol KF32 d ps par t sp
     | CF64 => scalar_arm_c pol KF64 d ps par t sp
     | COpen =>
       if negb (is_key ps) then
         do (t', sp') <- v_alloc pol (TArray par) (t, sp);
         Ok (mkst d OpenFirst (length t) t', sp')
       else match t with
            | [] => Err E_Syntax
            | _ => do (id2, nd) <- read_id d;
                   if N.eqb id2 L_CLOSE then Ok (mkst nd ps par t, sp) else Err E_Syntax
            end
     | CClose =>
       do (t, sp) <- (match ps with
                      | KeyValueSeparator => mixed_insert1_c pol t sp
                      | ObjectValue => Err E_Syntax
                      | _ => Ok (t, sp) end);
       do (q, sp') <- push_end_c pol par t sp;
       Ok (mkst d (fst (fst q)) (snd (fst q)) (snd q), sp')
     | CEqual =>
       match ps with
       | KeyValueSeparator => Ok (mkst d ObjectValue par t, sp)
       | OpenSecond => do t' <- set_parent_to_object par t; Ok (mkst d ObjectValue par t', sp)
       | ArrayValueMixed => do (t', sp') <- v_alloc pol TEqual (t, sp); Ok (mkst d ps par t', sp')
       | ArrayValue => eq_arm_c pol d par t sp
       | _ => Err E_Syntax
       end
     | CRgb =>
       match ps with
       | ObjectValue => do (v, r) <- read_scalar KRgb d; do (t', sp') <- v_alloc pol v (t, sp); Ok (mkst r Key par t', sp')
       | _ => token_arm_c pol d id ps par t sp
       end
     | CI64 => scalar_arm_c pol KI64 d ps par t sp
     | COther => token_arm_c pol d id ps par t sp
     end) =
    match classify id with
    | CU32 => scalar_arm KU32 d ps par t
    | CU64 => scalar_arm KU64 d ps par t
    | CI32 =>
      do s <- scalar_arm KI32 d ps par t;
      match opt, s_ps s with
      | true, ArrayValue => i32_run (S (length (s_data s))) (s_data s) par (s_tape s)
      | _, _ => Ok s
      end
    | CBool => scalar_arm KBool d ps par t
    | CQuoted => scalar_arm KQuoted d ps par t
    | CUnquoted => scalar_arm KUnquoted d ps par t
    | CF32 => scalar_arm KF32 d ps par t
    | CF64 => scalar_arm KF64 d ps par t
    | COpen =>
      if negb (is_key ps) then Ok (mkst d OpenFirst (length t) (push t (TArray par)))
      else match t with
           | [] => Err E_Syntax
           | _ => do (id2, nd) <- read_id d;
                  if N.eqb id2 L_CLOSE then Ok (mkst nd ps par t) else Err E_Syntax
           end
    | CClose =>
      do t <- (match ps with
               | KeyValueSeparator => mixed_insert1 t
               | ObjectValue => Err E_Syntax
               | _ => Ok t end);
      do (r, t') <- push_end par t;
      Ok (mkst d (fst r) (snd r) t')
    | CEqual =>
      match ps with
      | KeyValueSeparator => Ok (mkst d ObjectValue par t)
      | OpenSecond => do t' <- set_parent_to_object par t; Ok (mkst d ObjectValue par t')
      | ArrayValueMixed => Ok (mkst d ps par (push t TEqual))
      | ArrayValue => eq_arm_spec d par t
      | _ => Err E_Syntax
      end
    | CRgb =>
      match ps with
      | ObjectValue => do (v, r) <- read_scalar KRgb d; Ok (mkst r Key par (push t v))
      | _ => do ps' <- next_state ps; Ok (mkst d ps' par (push t (TToken id)))
      end
    | CI64 => scalar_arm KI64 d ps par t
    | COther => do ps' <- next_state ps; Ok (mkst d ps' par (push t (TToken id)))
    end).
  { clear. intros ps t sp. destruct (classify id); try apply scalar_arm_c_ref; try apply token_arm_c_ref.
    - (* I32 + run *)
      rewrite <- (scalar_arm_c_ref pol KI32 d ps par t sp).
      destruct (scalar_arm_c pol KI32 d ps par t sp) as [[s sp']| | | |]; try reflexivity. cbn [obind omap fst snd].
      destruct opt; [|reflexivity]. destruct (s_ps s); try reflexivity. apply i32_run_c_ref.
    - (* Open *) ref_go fail.
    - (* Close *)
      destruct ps; ref_go fail.
    - (* Equal *)
      destruct ps; try reflexivity; try apply eq_arm_c_ref; ref_go fail.
    - (* Rgb *)
      destruct ps; try apply token_arm_c_ref. ref_go fail. }
  destruct ps;
    try match goal with |- omap fst (do _ <- Ok ((?p, _), _); _) = _ => exact (P p t sp) end.
  rewrite <- (mixed_insert2_c_ref pol t sp). destruct (mixed_insert2_c pol t sp) as [[t' sp']| | | |]; try reflexivity.
  exact (P ArrayValueMixed t' sp').
Qed.

(* ------------------------------------------------------------------ the loop *)
Definition erase_step (s : step_c) : step :=
  match s with ContinueC s' _ => Continue s' | DoneC r => Done (omap fst r) end.

Lemma after_fast_c_ref : forall pol opt r, erase_step (after_fast_c pol opt r) = after_fast opt (omap fst r).
Proof.
  intros pol opt [[[d ps par t|d id ps par t] sp]|e|s|s|]; try reflexivity.
  cbn [after_fast_c after_fast omap obind fst].
  rewrite <- (slow_c_ref pol opt d id ps par t sp).
  destruct (slow_c pol opt d id ps par t sp) as [[s' sp']| | | |]; reflexivity.
Qed.

Lemma iter_c_ref : forall pol fx opt s sp, erase_step (iter_c pol fx opt s sp) = iter fx opt s.
Proof.
  intros. unfold iter_c, iter. destruct (get_split 2 (s_data s)) as [[h d]|].
  - rewrite after_fast_c_ref. f_equal. destruct (opt && is_key (s_ps s))%bool; [apply key_fast_c_ref|reflexivity].
  - cbn [erase_step]. f_equal. unfold finish_c, finish. destruct (s_par s); [destruct (s_ps s)|]; reflexivity.
Qed.

Lemma loop_c_ref : forall pol fx opt f s sp, omap fst (loop_c pol fx opt f s sp) = loop fx opt f s.
Proof.
  induction f; intros; [reflexivity|]. cbn [loop_c loop]. rewrite <- (iter_c_ref pol fx opt s sp).
  destruct (iter_c pol fx opt s sp) as [s' sp'|r]; cbn [erase_step]; [apply IHf|reflexivity].
Qed.

(* parse_slice_into_tape_core: clear(), reserve(max(len/5, 10)), the write at index 0 -- on ANY vector *)
Theorem init_c_ok : forall pol v0 d, exists sp', init_c pol v0 d = Ok ([], sp').
Proof.
  intros pol [t0 sp0] d. unfold init_c. destruct prog_init as (dv & mn & -> & Hm). vsimp. unfold v_clear. cbn [fst snd].
  match goal with |- context[v_reserve ?p ?n ?v] => destruct (v_reserve_room' p n v) as (sp1 & E & Hl); rewrite E end.
  cbn [fst] in *.
  destruct (spare_cons sp1 0 ltac:(lia)) as (a & r & -> & _).
  vsimp. cbn [Nat.add]. unfold v_write. cbn [fst snd length Nat.ltb Nat.leb Nat.sub set_nth]. vsimp. eauto.
Qed.

(* ------------------------------------------------------------------ 3. the refinement *)
Theorem parse_cap_refines : forall pol fx opt v0 d, omap fst (parse_cap pol fx opt v0 d) = parse fx opt d.
Proof.
  intros. unfold parse_cap, parse, init. destruct (init_c_ok pol v0 d) as [sp' E]. rewrite E. cbn [obind].
  apply loop_c_ref.
Qed.

Lemma is_crash_omap : forall A B (f : A -> B) (o : outcome A), is_crash (omap f o) = is_crash o.
Proof. intros A B f [a|e|s|s|]; reflexivity. Qed.

(* ------------------------------------------------------------------ 4. no raw write, set_len, pop or read ever leaves the allocation *)
Theorem parse_cap_no_crash : forall pol fx opt v0 d, is_crash (parse_cap pol fx opt v0 d) = false.
Proof.
  intros. pose proof (is_crash_omap _ _ fst (parse_cap pol fx opt v0 d)) as H.
  rewrite parse_cap_refines, parse_no_crash in H. symmetry. exact H.
Qed.

(* in the shape the correspondence check prints: the tape of BinTape.parse together with SOME capacity that
   is at least its length *)
Theorem parse_cap_result : forall pol fx opt v0 d,
  match parse_cap pol fx opt v0 d, parse fx opt d with
  | Ok v, Ok t => fst v = t /\ length t <= v_cap v
  | Err e, Err e' => e = e'
  | _, _ => False
  end.
Proof.
  intros. pose proof (parse_cap_refines pol fx opt v0 d) as R. pose proof (parse_no_crash fx opt d) as N.
  destruct (parse_cap pol fx opt v0 d) as [v|e|s|s|], (parse fx opt d) as [t|e'|s'|s'|]; cbn in R, N; try discriminate.
  - inversion R. split; auto. unfold v_cap. lia.
  - inversion R. reflexivity.
Qed.

(* the runs of the correspondence check *)
Corollary parse_cap_opt_ref : forall c0 d, omap fst (parse_cap_opt c0 d) = parse_opt d.
Proof.
  intros. unfold parse_cap_opt, parse_opt. rewrite <- (parse_cap_refines rust_policy _ _ (fresh c0) d).
  destruct (parse_cap rust_policy fast_path_excludes_i64 true (fresh c0) d); reflexivity.
Qed.
Corollary parse_cap_ref_ref : forall c0 d, omap fst (parse_cap_ref c0 d) = parse_ref d.
Proof.
  intros. unfold parse_cap_ref, parse_ref. rewrite <- (parse_cap_refines rust_policy _ _ (fresh c0) d).
  destruct (parse_cap rust_policy false false (fresh c0) d); reflexivity.
Qed.
