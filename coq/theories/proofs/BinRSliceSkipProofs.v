(* C09 (binary), wave 4: TokenReader::skip_container on the slice-backed reader
   (TokenReader::from_slice: cap 0, the window is the whole remaining input, fill_buf = Ok(0)).
   BinRSkipProofs.reader_skip_lands needs fits c d, hence 0 < c, and does not cover it. *)
From JV Require Import Bytes Tables BinPrim BufWin BinLexer BinReader.
From JV.proofs Require Import BinLexProofs BinRoundProofs BinStreamProofs BinSkipProofs BinRSkipProofs.
From Coq Require Import List NArith ZArith Bool Lia Arith.
Import ListNotations.
Open Scope nat_scope.

(* a state whose underlying reader has nothing left: the window is the pending data *)
Definition slice_st (s : rstate) (d : bytes) (pos : nat) : Prop :=
  win (fst s) = d /\ rest (snd s) = [] /\ rdr_position s = pos.

Definition slice_adv (s : rstate) (d2 : bytes) : rstate :=
  (mkbw (cap (fst s)) d2 (consumed (fst s) + (length (win (fst s)) - length d2)) (prior (fst s)), snd s).

Lemma slice_item_now s d pos depth id d2 :
  slice_st s d pos -> skip_item d = Ok (id, d2) ->
  slice_st (slice_adv s d2) d2 (pos + (length d - length d2)) /\
  rdr_skip_step (depth, s) = item_cont depth id (slice_adv s d2).
Proof.
  destruct s as [b r]. intros (Hw & Hr & Hpos) Hi. cbn [fst snd] in *.
  pose proof (skip_item_len _ _ _ Hi) as Hl2.
  destruct (lf_split _ lexfn_skip_item _ _ _ Hi) as [c0 [Ew _]].
  split.
  - unfold slice_st, slice_adv, rdr_position, bw_position in *. cbn [fst snd win rest prior consumed].
    cbn [fst] in Hpos. split; [reflexivity|]. split; [exact Hr|]. rewrite Hw. lia.
  - rewrite rdr_step_item. cbn [fst snd]. rewrite Hw, Hi. unfold rdr_advance, bw_advance, slice_adv. cbn [fst snd].
    rewrite Hw.
    replace (Nat.ltb (length d) (length d - length d2)) with false by (symmetry; apply Nat.ltb_ge; lia).
    assert (Sk : skipn (length d - length d2) d = d2).
    { rewrite Ew. rewrite app_length, Nat.add_sub, skipn_app, skipn_all, Nat.sub_diag. reflexivity. }
    rewrite Sk. reflexivity.
Qed.

Lemma isteps_slice c depth d depth' d' :
  isteps c depth d depth' d' -> forall s pos, slice_st s d pos ->
  exists k s', k + length d' <= length d /\ slice_st s' d' (pos + (length d - length d')) /\
    cap (fst s') = cap (fst s) /\
    forall f, run_steps rdr_skip_step (k + f) (depth, s) = run_steps rdr_skip_step f (depth', s').
Proof.
  induction 1; intros s pos Hs.
  - exists 0, s. rewrite Nat.sub_diag, Nat.add_0_r. split; [lia|]. split; [assumption|]. split; reflexivity.
  - destruct (slice_item_now s d pos depth id d2 Hs H) as [Hs1 St]. unfold item_cont in St. rewrite H0 in St.
    destruct (IHisteps _ _ Hs1) as (k2 & s2 & J1 & J2 & J3 & J4).
    pose proof (skip_item_len _ _ _ H) as L1. pose proof (isteps_len _ _ _ _ _ H2) as L2.
    exists (S k2), s2. split; [lia|]. split.
    + replace (pos + (length d - length d'')) with (pos + (length d - length d2) + (length d2 - length d'')) by lia.
      assumption.
    + split; [rewrite J3; reflexivity|]. intros f. cbn [Nat.add]. rewrite (run_steps_inl _ _ _ _ St). apply J4.
Qed.

(* TokenReader::skip_container on a state whose underlying reader is exhausted (in particular every
   state of a from_slice reader), for ALL byte strings: if token counting reaches the matching
   close leaving r, the skip succeeds, the window is r and position() has advanced by |d| - |r| *)
Theorem slice_reader_skip_lands s d pos r :
  slice_st s d pos -> balanced_read d = Some r ->
  exists s', rdr_skip_container s = (Ok tt, s') /\ slice_st s' r (pos + (length d - length r)) /\
             cap (fst s') = cap (fst s).
Proof.
  unfold balanced_read. intros Hs Hb.
  destruct (balanced_items (S (length d)) _ _ _ _ (S (length d)) Hb (le_n 1)
              (fits_big _ _ _ (Nat.lt_succ_diag_r _)) (Nat.lt_succ_diag_r _)) as [dl [St [Hi _]]].
  destruct (isteps_slice _ _ _ _ _ St s pos Hs) as (k1 & s1 & K1 & K2 & K3 & K4).
  destruct (slice_item_now s1 dl _ 1 L_CLOSE r K2 Hi) as [Hs2 St2].
  assert (N : item_next 1 L_CLOSE = None) by (unfold item_next; eval_ids; reflexivity).
  unfold item_cont in St2. rewrite N in St2.
  pose proof (isteps_len _ _ _ _ _ St) as L1. pose proof (skip_item_len _ _ _ Hi) as L2.
  exists (slice_adv s1 r). split; [|split].
  - unfold rdr_skip_container, rdr_fuel. destruct Hs as (Hw & Hr & _). rewrite Hw, Hr. cbn [length Nat.mul Nat.add].
    replace (S (length d + 0)) with (k1 + S (length d - k1)) by lia.
    rewrite K4. rewrite (run_steps_inr _ _ _ _ St2). reflexivity.
  - replace (pos + (length d - length r)) with (pos + (length d - length dl) + (length dl - length r)) by lia.
    assumption.
  - unfold slice_adv. cbn [fst cap]. exact K3.
Qed.

Lemma slice_st_from_slice d : slice_st (rdr_from_slice d) d 0.
Proof. unfold slice_st, rdr_from_slice, bw_from_slice, rdr_position, bw_position. cbn. auto. Qed.
