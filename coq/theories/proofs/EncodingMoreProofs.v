(* C12, wave 4: the generated table IS the Windows-1252 code page (all 256 entries), the exact set of
   trimmed bytes, Borrowed <-> "the reference mapping leaves the trimmed input unchanged", structural
   facts about the model of String::from_utf8_lossy, Scalar's Display, and one combined statement per decoder. *)
From JV Require Import Bytes Tables U64Swar Utf8 Encoding EncodingRef.
From JV.proofs Require Import SwarProofs Utf8Proofs EncodingProofs.
From Coq Require Import NArith Lia List Bool.
Import ListNotations.
Open Scope N_scope.

(* ---------- the table generated from data.rs = the literal code page, all 256 entries ---------- *)
Lemma cp1252_fact : forallb (fun b => w1252 b =? cp1252 b) byte_dom = true.
Proof. vm_compute. reflexivity. Qed.

Theorem cp1252_table b : b < 256 -> w1252 b = cp1252 b.
Proof. intros H. apply N.eqb_eq. exact (byte_all _ cp1252_fact b H). Qed.

Lemma flat_map_ext_in {A B} (f g : A -> list B) l : (forall x, In x l -> f x = g x) -> flat_map f l = flat_map g l.
Proof.
  induction l as [|x l IH]; [reflexivity|]. intros H. cbn [flat_map].
  rewrite (H x (or_introl eq_refl)), IH; [reflexivity|]. intros y Hy. apply H. now right.
Qed.

Theorem cp1252_reference_eq d : wf_bytes d -> w1252_reference d = cp1252_reference d.
Proof.
  intros H. unfold w1252_reference, cp1252_reference. apply flat_map_ext_in. intros x Hx.
  pose proof (unescape_wf _ (trim_wf _ H)) as Hw. unfold wf_bytes in Hw. rewrite Forall_forall in Hw.
  now rewrite cp1252_table by (apply Hw; assumption).
Qed.

(* ---------- u8::is_ascii_whitespace: exactly TAB, LF, FF, CR, SPACE ---------- *)
Theorem ascii_ws_exact b : is_ascii_ws b = true <-> b = 9 \/ b = 10 \/ b = 12 \/ b = 13 \/ b = 32.
Proof.
  unfold is_ascii_ws. rewrite !orb_true_iff, !N.eqb_eq. tauto.
Qed.

(* ---------- ASCII bytes and the code-page mapping ---------- *)
Definition wmap (c : N) : bytes := encode_utf8 (w1252 c).

Lemma wmap_no_backslash_fact :
  forallb (fun x => (x =? BACKSLASH) || negb (existsb (fun y => y =? BACKSLASH) (wmap x))) byte_dom = true.
Proof. vm_compute. reflexivity. Qed.

Lemma wmap_len_fact :
  forallb (fun x => (1 <=? N.of_nat (length (wmap x))) && ((x <? 128) || (2 <=? N.of_nat (length (wmap x))))) byte_dom = true.
Proof. vm_compute. reflexivity. Qed.

Lemma flat_wmap_backslash l : wf_bytes l -> In BACKSLASH (flat_map wmap l) -> In BACKSLASH l.
Proof.
  induction l as [|x l IH]; [intros _ []|]. intros Hw H. apply Forall_cons_iff in Hw as [Hx Hw].
  cbn [flat_map] in H. apply in_app_or in H as [H|H]; [|right; now apply IH].
  left. pose proof (byte_all _ wmap_no_backslash_fact x Hx) as F. cbv beta in F.
  apply orb_true_iff in F as [F|F]; [now apply N.eqb_eq in F|].
  apply negb_true_iff in F. exfalso. apply not_true_iff_false in F. apply F.
  apply existsb_exists. exists BACKSLASH. split; [exact H|apply N.eqb_refl].
Qed.

Lemma flat_wmap_length l : wf_bytes l ->
  (length l <= length (flat_map wmap l))%nat /\
  (forallb is_ascii l = false -> (length l < length (flat_map wmap l))%nat).
Proof.
  induction l as [|x l IH]; [intros _; split; [cbn; lia|discriminate]|].
  intros Hw. apply Forall_cons_iff in Hw as [Hx Hw]. destruct (IH Hw) as [IH1 IH2].
  pose proof (byte_all _ wmap_len_fact x Hx) as F. cbv beta in F. apply andb_prop in F as [F1 F2].
  apply N.leb_le in F1. cbn [flat_map length forallb]. rewrite app_length. split; [lia|].
  intros H. apply andb_false_iff in H as [H|H].
  - unfold is_ascii in H. rewrite H in F2. cbn [orb] in F2. apply N.leb_le in F2. lia.
  - specialize (IH2 H). lia.
Qed.

Lemma unescape_no_backslash l : ~ In BACKSLASH (unescape l).
Proof. unfold unescape. intros H. apply filter_In in H as [_ H]. now rewrite N.eqb_refl in H. Qed.

Lemma not_in_no_escape l : ~ In BACKSLASH l -> has_escape l = false.
Proof.
  intros H. unfold has_escape. apply not_true_is_false. intros E. apply existsb_exists in E as (x & Hx & Hx').
  apply N.eqb_eq in Hx'. subst x. contradiction.
Qed.

Lemma ascii_no_escape_plain l : forallb is_ascii l = true -> has_escape l = false -> forallb plain l = true.
Proof.
  induction l as [|x l IH]; [reflexivity|]. cbn [forallb]. unfold has_escape. cbn [existsb].
  intros Ha He. apply andb_prop in Ha as [Hx Ha]. apply orb_false_iff in He as [Ex He].
  unfold plain at 1. rewrite Hx, Ex. cbn [negb andb]. now apply IH.
Qed.

(* Borrowed exactly when the reference mapping leaves the (trimmed) input unchanged *)
Theorem w1252_borrowed_iff_unchanged d c : wf_bytes d ->
  decode_windows1252 d = Ok c -> (is_borrowed c = true <-> w1252_reference d = trim_ascii_end d).
Proof.
  intros Hw H. destruct (w1252_spec d) as (c' & H' & Hb & Hbor). rewrite H' in H. injection H as <-.
  split.
  - intros Hc. destruct (w1252_borrowed_iff d c' H') as [_ Hx]. specialize (Hx Hc). subst c'. now rewrite <- Hb.
  - intros Hr. rewrite Hbor. set (t := trim_ascii_end d) in *.
    assert (Ht : wf_bytes t) by (now apply trim_wf).
    unfold w1252_reference in Hr. fold t in Hr. change (fun c => encode_utf8 (w1252 c)) with wmap in Hr.
    assert (Hn : ~ In BACKSLASH t).
    { intros Hin. rewrite <- Hr in Hin. apply flat_wmap_backslash in Hin; [|now apply unescape_wf].
      now apply unescape_no_backslash in Hin. }
    pose proof (not_in_no_escape t Hn) as He.
    rewrite (no_escape_unescape t He) in Hr.
    destruct (forallb is_ascii t) eqn:Ea; [now apply ascii_no_escape_plain|].
    destruct (flat_wmap_length t Ht) as [_ Hl]. specialize (Hl Ea). rewrite Hr in Hl. lia.
Qed.

(* ---------- the model of from_utf8_lossy: ASCII bytes of the output come from the input ---------- *)
Lemma in_replacement b r : b <? 128 = true -> In b (REPLACEMENT ++ r) -> In b r.
Proof.
  intros Hb H. unfold REPLACEMENT in H. cbn [app] in H.
  destruct H as [<-|[<-|[<-|H]]]; try discriminate. exact H.
Qed.

Lemma lossy_ascii_from_input_aux n : forall b d, (length d <= n)%nat -> b <? 128 = true -> In b (lossy d) -> In b d.
Proof.
  induction n as [|n IH]; intros b d Hl Hb.
  - destruct d; [intros []|cbn in Hl; lia].
  - destruct d as [|b0 r]; [intros []|]. cbn [length] in Hl. cbn [lossy].
    split_ifs; cbn [length] in Hl; intros H;
      repeat match goal with
             | H : In _ (REPLACEMENT ++ _) |- _ => apply (in_replacement _ _ Hb) in H
             | H : In _ REPLACEMENT |- _ => rewrite <- (app_nil_r REPLACEMENT) in H; apply (in_replacement _ _ Hb) in H; destruct H
             | H : In _ (_ :: _) |- _ => destruct H as [<-|H]
             end;
      try (now left); try (right; now left); try (right; right; now left); try (right; right; right; now left);
      try (apply IH in H; [|cbn [length]; lia|exact Hb]);
      cbn [In] in *; tauto.
Qed.

Theorem lossy_ascii_from_input b d : b <? 128 = true -> In b (lossy d) -> In b d.
Proof. apply (lossy_ascii_from_input_aux (length d)). lia. Qed.

Theorem utf8_borrowed_iff_unchanged d c : wf_bytes d ->
  decode_utf8 d = Ok c -> (is_borrowed c = true <-> utf8_reference d = trim_ascii_end d).
Proof.
  intros Hw H. destruct (utf8_spec d Hw) as (c' & H' & Hb & Hbor). rewrite H' in H. injection H as <-.
  split.
  - intros Hc. destruct (utf8_borrowed_iff d c' Hw H') as [_ Hx]. specialize (Hx Hc). subst c'. now rewrite <- Hb.
  - intros Hr. rewrite Hbor. set (t := trim_ascii_end d) in *. unfold utf8_reference in Hr. fold t in Hr.
    assert (Hn : ~ In BACKSLASH t).
    { intros Hin. rewrite <- Hr in Hin. apply lossy_ascii_from_input in Hin; [|reflexivity].
      now apply unescape_no_backslash in Hin. }
    pose proof (not_in_no_escape t Hn) as He. fold (has_escape t). rewrite He.
    rewrite (no_escape_unescape t He) in Hr. cbn [negb andb]. rewrite <- Hr. apply lossy_valid.
Qed.

(* ... and every ASCII byte of the input survives (no replacement swallows an ASCII byte) *)
Lemma leb_false_lt k c : c < k -> (k <=? c) = false.
Proof. intros H. apply N.leb_gt. exact H. Qed.

Lemma second3_not_ascii x c : c <? 128 = true -> second3 x c = false.
Proof.
  intros H. apply N.ltb_lt in H. unfold second3, in_range.
  rewrite (leb_false_lt 160 c), (leb_false_lt 128 c) by lia. cbn [andb]. now rewrite !andb_false_r.
Qed.

Lemma second4_not_ascii x c : c <? 128 = true -> second4 x c = false.
Proof.
  intros H. apply N.ltb_lt in H. unfold second4, in_range.
  rewrite (leb_false_lt 144 c), (leb_false_lt 128 c) by lia. cbn [andb]. now rewrite !andb_false_r.
Qed.

Lemma cont_not_ascii c : c <? 128 = true -> is_cont c = false.
Proof.
  intros H. apply N.ltb_lt in H. rewrite is_cont_range by lia. unfold in_range.
  now rewrite (leb_false_lt 128 c) by lia.
Qed.

Lemma lossy_keeps_ascii_aux n : forall b d, (length d <= n)%nat -> b <? 128 = true -> In b d -> In b (lossy d).
Proof.
  induction n as [|n IH]; intros b d Hl Hb.
  - destruct d; [intros []|cbn in Hl; lia].
  - destruct d as [|b0 r]; [intros []|]. cbn [length] in Hl. cbn [lossy].
    split_ifs; cbn [length] in Hl; intros H;
      repeat match goal with
             | H : In _ (_ :: _) |- _ => destruct H as [<-|H]
             | H : In _ [] |- _ => destruct H
             end;
      try congruence;
      try (rewrite (cont_not_ascii _ Hb) in *; discriminate);
      try (rewrite (second3_not_ascii _ _ Hb) in *; discriminate);
      try (rewrite (second4_not_ascii _ _ Hb) in *; discriminate);
      try (apply in_or_app; right);
      cbn [In];
      try (now left); try (right; now left); try (right; right; now left); try (right; right; right; now left);
      try (right; apply IH; [cbn [length]; lia|exact Hb|cbn [In]; tauto]);
      try (right; right; apply IH; [cbn [length]; lia|exact Hb|cbn [In]; tauto]);
      try (right; right; right; apply IH; [cbn [length]; lia|exact Hb|cbn [In]; tauto]);
      try (right; right; right; right; apply IH; [cbn [length]; lia|exact Hb|cbn [In]; tauto]);
      try (apply IH; [cbn [length]; lia|exact Hb|cbn [In]; tauto]).
Qed.

Theorem lossy_ascii_bytes b d : b <? 128 = true -> (In b (lossy d) <-> In b d).
Proof.
  intros Hb. split; [now apply lossy_ascii_from_input|]. apply (lossy_keeps_ascii_aux (length d)); [lia|exact Hb].
Qed.

(* ---------- lossy decoding copies a well-formed prefix verbatim ---------- *)
Lemma lossy_keeps_valid_prefix_aux n : forall a b, (length a <= n)%nat -> valid_utf8 a = true -> lossy (a ++ b) = a ++ lossy b.
Proof.
  induction n as [|n IH]; intros a b Hl Hv.
  - destruct a; [reflexivity|cbn in Hl; lia].
  - destruct a as [|b0 r]; [reflexivity|]. cbn [length] in Hl.
    destruct (b0 <? 128) eqn:E1.
    { rewrite valid_ascii in Hv by assumption. cbn [app lossy]. rewrite E1. f_equal. apply IH; [lia|assumption]. }
    destruct (utf8_char_width b0 =? 2) eqn:E2.
    { destruct r as [|c1 r1]; [now rewrite valid_short2 in Hv|].
      rewrite valid_2 in Hv by assumption. apply andb_prop in Hv as [Hc Hv].
      cbn [app lossy]. rewrite E1, E2, Hc. do 2 f_equal. apply IH; [cbn [length] in Hl; lia|assumption]. }
    destruct (utf8_char_width b0 =? 3) eqn:E3.
    { destruct r as [|c1 [|c2 r2]]; try (rewrite valid_short3 in Hv by (auto; cbn; lia); discriminate).
      rewrite valid_3 in Hv by assumption.
      apply andb_prop in Hv as [Hv Hr]. apply andb_prop in Hv as [Hs Hc].
      cbn [app lossy]. rewrite E1, E2, E3, Hs, Hc. do 3 f_equal. apply IH; [cbn [length] in Hl; lia|assumption]. }
    destruct (utf8_char_width b0 =? 4) eqn:E4.
    { destruct r as [|c1 [|c2 [|c3 r3]]]; try (rewrite valid_short4 in Hv by (auto; cbn; lia); discriminate).
      rewrite valid_4 in Hv by assumption.
      apply andb_prop in Hv as [Hv Hr]. apply andb_prop in Hv as [Hv Hc3]. apply andb_prop in Hv as [Hs Hc2].
      cbn [app lossy]. rewrite E1, E2, E3, E4, Hs, Hc2, Hc3. do 4 f_equal. apply IH; [cbn [length] in Hl; lia|assumption]. }
    now rewrite valid_width0 in Hv.
Qed.

Theorem lossy_keeps_valid_prefix a b : valid_utf8 a = true -> lossy (a ++ b) = a ++ lossy b.
Proof. apply (lossy_keeps_valid_prefix_aux (length a)). lia. Qed.

(* ---------- Scalar's Display ---------- *)
Lemma ascii_trim d : forallb is_ascii d = true -> forallb is_ascii (trim_ascii_end d) = true.
Proof.
  intros H. destruct (trim_spec d) as (ws & Hd & _). rewrite Hd in H. rewrite forallb_app in H.
  now apply andb_prop in H as [H _].
Qed.

Lemma ascii_unescape_plain l : forallb is_ascii l = true -> forallb plain (unescape l) = true.
Proof.
  induction l as [|x l IH]; [reflexivity|]. cbn [forallb]. intros H. apply andb_prop in H as [Hx Hl].
  unfold unescape in *. cbn [filter]. destruct (x =? BACKSLASH) eqn:E; cbn [negb]; [now apply IH|].
  cbn [forallb]. unfold plain at 1. rewrite Hx, E. cbn [negb andb]. now apply IH.
Qed.

Theorem scalar_display_spec d :
  scalar_display d = if forallb is_ascii d then Ok (Some (unescape (trim_ascii_end d))) else Ok None.
Proof.
  unfold scalar_display. destruct (forallb is_ascii d) eqn:E; [|reflexivity].
  destruct (w1252_spec d) as (c & -> & Hb & _). cbn [obind]. rewrite Hb. unfold w1252_reference.
  rewrite w1252_plain_id; [reflexivity|]. now apply ascii_unescape_plain, ascii_trim.
Qed.

(* ---------- one statement per decoder: for EVERY byte string ---------- *)
Theorem w1252_full d : wf_bytes d ->
  exists c, decode_windows1252 d = Ok c /\
            cow_bytes c = cp1252_reference d /\
            valid_utf8 (cow_bytes c) = true /\
            (is_borrowed c = true <-> cp1252_reference d = trim_ascii_end d) /\
            (is_borrowed c = true -> c = Borrowed (trim_ascii_end d)).
Proof.
  intros Hw. destruct (w1252_spec d) as (c & Hc & Hb & Hbor). exists c.
  rewrite <- (cp1252_reference_eq d Hw).
  split; [exact Hc|]. split; [exact Hb|]. split; [now apply (w1252_decode_valid d c)|].
  split; [now apply w1252_borrowed_iff_unchanged|]. now apply (w1252_borrowed_iff d c).
Qed.

Theorem utf8_full d : wf_bytes d ->
  exists c, decode_utf8 d = Ok c /\
            cow_bytes c = utf8_reference d /\
            valid_utf8 (cow_bytes c) = true /\
            (is_borrowed c = true <-> utf8_reference d = trim_ascii_end d) /\
            (is_borrowed c = true -> c = Borrowed (trim_ascii_end d)).
Proof.
  intros Hw. destruct (utf8_spec d Hw) as (c & Hc & Hb & Hbor). exists c.
  split; [exact Hc|]. split; [exact Hb|]. split; [now apply (utf8_decode_valid d c)|].
  split; [now apply utf8_borrowed_iff_unchanged|]. now apply (utf8_borrowed_iff d c).
Qed.
