(* C20 at the level of the WHOLE text reader deserializer (wave 5, w_tdef).

   PLAN
   Part 1 (generic).  TextDeStream.sde / sseq_all / sseq_tup / swalk / sde_root are written over an
     abstract token source (rnext, rskip, rexpect).  Take two token sources over the same state type
     whose states are related by [Rel] and whose three operations, run on related states, either
     fail on the left with EC_IO or return the same outcome with related successor states
     (FaultDeProofs.fsim).  The walk never inspects an error, so the relation lifts to the walk:
     [sde_sim_all] (simultaneous induction on the fuel of the four mutually recursive functions,
     [entry_sim] for the shared visit_map step), [sde_root_sim], [sde_root_st_sim].
   Part 2 (instance).  TextDeReader: the token source is the byte-level streaming reader.
     Rel r1 r2 = FaultProofs.readeq r1 r2 (same window, BOM state, unread data, delivered count; the
     schedule of r2 is the schedule of r1 with the Fail events removed).  The one-call lemmas are
     FaultProofs.next_opt_eq / skip_container_fault; read_expect_equals' fast path touches no Read.
     Hence  deser_text_reader .. sched .. = Err EC_IO \/ = deser_text_reader .. (clean sched) ..
     for every decoder, float parser, buffer size, schedule, shape and document.
   Part 3 (which read call fails).  A second, unary invariant [sched_ok sched0 r]: the schedule left
     in the reader is [skipn calls sched0] and the [calls] events consumed so far were all Data.  It
     is kept by every operation that returns Ok (a consumed Fail event ends the call with E_Io).  The
     walk relation of Part 1 with Rel := readeq /\ sched_ok on the left gives: a run that returns Ok
     has only consumed Data events; so if event k of the schedule is Fail (one-shot or the first of a
     persistent tail) a run that returns Ok finished within k read calls -- "a fault at read k that
     is reached ends in an error", for every k. *)
From JV Require Import Bytes Utf8 Scalar BufWin TextTok TextReader TextRef SerdeShape TextDeCommon TextDeStream TextDeReader.
From JV.proofs Require Import BufWinProofs FaultProofs FaultDeProofs.
From Coq Require Import List NArith Bool Lia Arith.
Import ListNotations.
Open Scope nat_scope.

(* ---------- Part 1: the generic walk ---------- *)
Section SdeSim.
  Variable decode : bytes -> cow.
  Variable pf : bytes -> outcome N.
  Variable fo : fops.
  Variable St : Type.
  Variable n1 n2 : St -> outcome (option rtok * St).
  Variable k1 k2 : St -> outcome St.
  Variable e1 e2 : St -> outcome (rtok * St).
  Variable Rel : St -> St -> Prop.

  Definition prel {A} (x y : A * St) : Prop := fst x = fst y /\ Rel (snd x) (snd y).

  Hypothesis H_next : forall a b, Rel a b -> fsim prel (n1 a) (n2 b).
  Hypothesis H_skip : forall a b, Rel a b -> fsim Rel (k1 a) (k2 b).
  Hypothesis H_expect : forall a b, Rel a b -> fsim prel (e1 a) (e2 b).

  Notation sde1 := (sde decode pf fo St n1 k1 e1).
  Notation sde2 := (sde decode pf fo St n2 k2 e2).
  Notation sall1 := (sseq_all decode pf fo St n1 k1 e1).
  Notation sall2 := (sseq_all decode pf fo St n2 k2 e2).
  Notation stup1 := (sseq_tup decode pf fo St n1 k1 e1).
  Notation stup2 := (sseq_tup decode pf fo St n2 k2 e2).
  Notation swalk1 := (swalk decode pf fo St n1 k1 e1).
  Notation swalk2 := (swalk decode pf fo St n2 k2 e2).

  Lemma prel_ok {A} (x : A) a b : Rel a b -> fsim prel (Ok (x, a)) (Ok (x, b)).
  Proof. intros H. apply fsim_ok. split; [reflexivity|exact H]. Qed.

  Lemma rread_sim a b : Rel a b -> fsim prel (rread St n1 a) (rread St n2 b).
  Proof.
    intros Hr. unfold rread. eapply fsim_bind; [apply H_next; exact Hr|].
    intros [o1 c1] [o2 c2] [Ho Hc]. cbn [fst snd] in Ho, Hc. subst o2.
    destruct o1 as [t|]; [apply prel_ok; exact Hc|apply fsim_same_err].
  Qed.

  (* next_value_seed: read_expect_equals, an operator is captured and the value token read *)
  Definition value_of {A} (e : St -> outcome (rtok * St)) (n : St -> outcome (option rtok * St))
      (k : rtok -> operator -> St -> outcome (A * St)) (r0 : St) : outcome (A * St) :=
    do (tk, r1) <- e r0;
    match tk with
    | ROp o => do (tk2, r2) <- rread St n r1; k tk2 o r2
    | _ => k tk Equal r1
    end.

  Lemma value_of_sim {A} (c1 c2 : rtok -> operator -> St -> outcome (A * St)) :
    (forall tk o a b, Rel a b -> fsim prel (c1 tk o a) (c2 tk o b)) ->
    forall a b, Rel a b -> fsim prel (value_of e1 n1 c1 a) (value_of e2 n2 c2 b).
  Proof.
    intros Hk a b Hr. unfold value_of.
    eapply fsim_bind; [apply H_expect; exact Hr|].
    intros [t1 r1] [t2 r2] [Ht Hc]. cbn [fst snd] in Ht, Hc. subst t2.
    destruct t1; try (apply Hk; exact Hc).
    eapply fsim_bind; [apply rread_sim; exact Hc|].
    intros [t1 s1] [t2 s2] [Ht Hs]. cbn [fst snd] in Ht, Hs. subst t2. apply Hk; exact Hs.
  Qed.

  (* one (key, value) step of a visit_map loop *)
  Lemma entry_sim {X} (rec1 rec2 : shape -> X -> St -> outcome (dval * St)) (rop1 rop2 : X -> St -> outcome (N * St)) :
    (forall sh x a b, Rel a b -> fsim prel (rec1 sh x a) (rec2 sh x b)) ->
    (forall x a b, Rel a b -> fsim prel (rop1 x a) (rop2 x b)) ->
    forall m ac kb knum x a b, Rel a b ->
      fsim prel (entry rec1 rop1 m ac kb knum x a) (entry rec2 rop2 m ac kb knum x b).
  Proof.
    intros Hrec Hrop m ac kb knum x a b Hr.
    assert (Hstep : forall sh (K : dval -> acc),
              fsim prel (do (v, s') <- rec1 sh x a; Ok (K v, s')) (do (v, s') <- rec2 sh x b; Ok (K v, s'))).
    { intros sh K. eapply fsim_bind; [apply Hrec; exact Hr|].
      intros [v1 s1] [v2 s2] [Hv Hs]. cbn [fst snd] in Hv, Hs. subst v2. apply prel_ok; exact Hs. }
    unfold entry. destruct m as [s|tk fs| |s].
    - apply (Hstep s (fun v => mkacc ((kb, v) :: a_map ac) (a_amap ac) (a_slots ac))).
    - destruct (tk && knum); [apply fsim_same_err|].
      destruct (find_name fs kb 0) as [[i f]|].
      + destruct (f_mode f).
        * destruct (slot_full ac i); [apply fsim_same_err|]. apply (Hstep (f_shape f) (fun v => slot_set ac i v)).
        * apply (Hstep (f_shape f) (fun v => slot_push ac i v)).
        * apply (Hstep (f_shape f) (fun v => slot_set ac i v)).
      + apply (Hstep ShIgn (fun _ => ac)).
    - apply (Hstep ShAny (fun v => mkacc (a_map ac) ((DStr kb, v) :: a_amap ac) (a_slots ac))).
    - destruct (beqb kb STR_OPERATOR).
      + destruct (slot_full ac 0); [apply fsim_same_err|].
        eapply fsim_bind; [apply Hrop; exact Hr|].
        intros [v1 s1] [v2 s2] [Hv Hs]. cbn [fst snd] in Hv, Hs. subst v2. apply prel_ok; exact Hs.
      + destruct (beqb kb STR_VALUE).
        * destruct (slot_full ac 1); [apply fsim_same_err|]. apply (Hstep s (fun v => slot_set ac 1 v)).
        * apply (Hstep ShIgn (fun _ => ac)).
  Qed.

  (* unfolding equation of the visit_map loop, with the next_value_seed closure named *)
  Definition op_k (tk : rtok) (_ : operator) (r' : St) : outcome (N * St) :=
    do vv <- stream_visit decode pf THStr tk;
    match vv with SVPrim p => do o <- visit_operator p; Ok (o, r') | _ => Err EC_DE end.

  Lemma swalk_S (n : St -> outcome (option rtok * St)) k e f root m ac r :
    swalk decode pf fo St n k e (S f) root m ac r =
    (do x <- n r;
     match x with
     | (Some RClose, r1) => Ok (ac, r1)
     | (Some ROpen, r1) => do r2 <- k r1; swalk decode pf fo St n k e f root m ac r2
     | (Some tk, r1) =>
         let '(kb, knum) := key_info decode tk in
         do (a', r2) <- entry (fun sh (_ : unit) r0 => value_of e n (sde decode pf fo St n k e f sh) r0)
                              (fun (_ : unit) r0 => value_of e n op_k r0) m ac kb knum tt r1;
         swalk decode pf fo St n k e f root m a' r2
     | (None, r1) => if root then Ok (ac, r1) else Err EC_EOF
     end).
  Proof. reflexivity. Qed.

  Definition sim_all (f : nat) : Prop :=
    (forall sh tk op a b, Rel a b -> fsim prel (sde1 f sh tk op a) (sde2 f sh tk op b)) /\
    (forall s a b, Rel a b -> fsim prel (sall1 f s a) (sall2 f s b)) /\
    (forall ss a b, Rel a b -> fsim prel (stup1 f ss a) (stup2 f ss b)) /\
    (forall root m ac a b, Rel a b -> fsim prel (swalk1 f root m ac a) (swalk2 f root m ac b)).

  Ltac pr_intro v1 s1 v2 s2 Hs :=
    let Hv := fresh "Hv" in
    intros [v1 s1] [v2 s2] [Hv Hs]; cbn [fst snd] in Hv, Hs; subst v2.

  Theorem sde_sim_all : forall f, sim_all f.
  Proof.
    induction f as [|f (IHde & IHall & IHtup & IHwalk)].
    { repeat split; intros; right; exact I. }
    repeat split.
    - (* sde *)
      intros sh tk op a b Hr. cbn [sde].
      destruct (stream_visit decode pf (thint_of sh) tk) as [v| | | |]; cbn [obind]; try (right; reflexivity).
      destruct v.
      + destruct (tvisit_prim fo sh p); cbn [obind]; try (right; reflexivity). apply prel_ok; exact Hr.
      + destruct sh; try apply fsim_same_err.
        eapply fsim_bind; [apply IHde; exact Hr|]. pr_intro v1 s1 v2 s2 Hs. apply prel_ok; exact Hs.
      + apply fsim_same_err.
      + destruct sh; try apply fsim_same_err.
        * eapply fsim_bind; [apply IHall; exact Hr|]. pr_intro v1 s1 v2 s2 Hs. apply prel_ok; exact Hs.
        * eapply fsim_bind; [apply IHtup; exact Hr|]. pr_intro v1 s1 v2 s2 Hs.
          destruct check_end; [|apply prel_ok; exact Hs].
          eapply fsim_bind; [apply rread_sim; exact Hs|]. pr_intro t1 c1 t2 c2 Hc.
          destruct t1; try apply fsim_same_err. apply prel_ok; exact Hc.
        * eapply fsim_bind; [apply rread_sim; exact Hr|]. intros ? ? ?. apply fsim_same_err.
        * eapply fsim_bind; [apply IHall; exact Hr|]. pr_intro v1 s1 v2 s2 Hs. apply prel_ok; exact Hs.
      + destruct (wmode_of sh) as [m|]; [|apply fsim_same_err].
        eapply fsim_bind; [apply IHwalk; exact Hr|]. pr_intro v1 s1 v2 s2 Hs.
        destruct (finish m v1); cbn [obind]; try (right; reflexivity). apply prel_ok; exact Hs.
      + destruct sh; try apply fsim_same_err.
        eapply fsim_bind; [apply IHde; exact Hr|]. pr_intro v1 s1 v2 s2 Hs. apply prel_ok; exact Hs.
      + destruct sh; try apply fsim_same_err.
        destruct (stream_visit decode pf THStr tk) as [vv| | | |]; cbn [obind]; try (right; reflexivity).
        destruct vv; try apply fsim_same_err.
        match goal with |- context [tvisit_variant ?nm ?q] => destruct (tvisit_variant nm q) end; cbn [obind]; try (right; reflexivity).
        apply prel_ok; exact Hr.
      + eapply fsim_bind; [apply H_skip; exact Hr|]. intros s1 s2 Hs.
        destruct (tvisit_prim fo sh TPUnit); cbn [obind]; try (right; reflexivity). apply prel_ok; exact Hs.
    - (* sseq_all *)
      intros s a b Hr. cbn [sseq_all].
      eapply fsim_bind; [apply rread_sim; exact Hr|]. pr_intro t1 c1 t2 c2 Hc.
      assert (Hgo : fsim prel
                (do (x, r2) <- sde1 f s t1 Equal c1; do (l, r3) <- sall1 f s r2; Ok (x :: l, r3))
                (do (x, r2) <- sde2 f s t1 Equal c2; do (l, r3) <- sall2 f s r2; Ok (x :: l, r3))).
      { eapply fsim_bind; [apply IHde; exact Hc|]. pr_intro x1 d1 x2 d2 Hd.
        eapply fsim_bind; [apply IHall; exact Hd|]. pr_intro l1 g1 l2 g2 Hg. apply prel_ok; exact Hg. }
      destruct t1; try exact Hgo. apply prel_ok; exact Hc.
    - (* sseq_tup *)
      intros ss a b Hr. cbn [sseq_tup].
      destruct ss as [|s ss']; [apply prel_ok; exact Hr|].
      eapply fsim_bind; [apply rread_sim; exact Hr|]. pr_intro t1 c1 t2 c2 Hc.
      assert (Hgo : fsim prel
                (do (x, r2) <- sde1 f s t1 Equal c1; do (l, r3) <- stup1 f ss' r2; Ok (x :: l, r3))
                (do (x, r2) <- sde2 f s t1 Equal c2; do (l, r3) <- stup2 f ss' r2; Ok (x :: l, r3))).
      { eapply fsim_bind; [apply IHde; exact Hc|]. pr_intro x1 d1 x2 d2 Hd.
        eapply fsim_bind; [apply IHtup; exact Hd|]. pr_intro l1 g1 l2 g2 Hg. apply prel_ok; exact Hg. }
      destruct t1; try exact Hgo. apply fsim_same_err.
    - (* swalk *)
      intros root m ac a b Hr. rewrite !swalk_S.
      eapply fsim_bind; [apply H_next; exact Hr|]. pr_intro o1 c1 o2 c2 Hc.
      assert (Hrec : forall sh (x : unit) a b, Rel a b ->
                fsim prel (value_of e1 n1 (sde1 f sh) a) (value_of e2 n2 (sde2 f sh) b)).
      { intros sh _ a' b' Hr'. apply value_of_sim; [|exact Hr']. intros tk o a'' b'' H''. apply IHde; exact H''. }
      assert (Hrop : forall (x : unit) a b, Rel a b -> fsim prel (value_of e1 n1 op_k a) (value_of e2 n2 op_k b)).
      { intros _ a' b' Hr'. apply value_of_sim; [|exact Hr']. intros tk o a'' b'' H''. unfold op_k.
        destruct (stream_visit decode pf THStr tk) as [vv| | | |]; cbn [obind]; try (right; reflexivity).
        destruct vv; try apply fsim_same_err.
        destruct (visit_operator p); cbn [obind]; try (right; reflexivity). apply prel_ok; exact H''. }
      assert (Hkey : forall tk, fsim prel
                (let '(kb, knum) := key_info decode tk in
                 do (a', r2) <- entry (fun sh (_ : unit) r0 => value_of e1 n1 (sde1 f sh) r0)
                                      (fun (_ : unit) r0 => value_of e1 n1 op_k r0) m ac kb knum tt c1;
                 swalk1 f root m a' r2)
                (let '(kb, knum) := key_info decode tk in
                 do (a', r2) <- entry (fun sh (_ : unit) r0 => value_of e2 n2 (sde2 f sh) r0)
                                      (fun (_ : unit) r0 => value_of e2 n2 op_k r0) m ac kb knum tt c2;
                 swalk2 f root m a' r2)).
      { intros tk. destruct (key_info decode tk) as [kb knum].
        eapply fsim_bind; [apply (entry_sim _ _ _ _ Hrec Hrop); exact Hc|].
        pr_intro a1 d1 a2 d2 Hd. apply IHwalk; exact Hd. }
      destruct o1 as [tk|].
      + destruct tk as [| |o|s|s]; [| |exact (Hkey (ROp o))|exact (Hkey (RUnq s))|exact (Hkey (RQuo s))].
        * eapply fsim_bind; [apply H_skip; exact Hc|]. intros s1 s2 Hs. apply IHwalk; exact Hs.
        * apply prel_ok; exact Hc.
      + destruct root; [apply prel_ok; exact Hc|apply fsim_same_err].
  Qed.

  Theorem sde_root_st_sim fuel sh a b : Rel a b ->
    fsim prel (sde_root_st decode pf fo St n1 k1 e1 fuel sh a) (sde_root_st decode pf fo St n2 k2 e2 fuel sh b).
  Proof.
    intros Hr. unfold sde_root_st.
    destruct (thint_of sh); try apply fsim_same_err.
    - destruct (wmode_of sh) as [m|]; [|apply fsim_same_err].
      eapply fsim_bind; [apply (sde_sim_all fuel); exact Hr|]. pr_intro v1 s1 v2 s2 Hs.
      destruct (finish m v1); cbn [obind]; try (right; reflexivity). apply prel_ok; exact Hs.
    - destruct (wmode_of sh) as [m|]; [|apply fsim_same_err].
      eapply fsim_bind; [apply (sde_sim_all fuel); exact Hr|]. pr_intro v1 s1 v2 s2 Hs.
      destruct (finish m v1); cbn [obind]; try (right; reflexivity). apply prel_ok; exact Hs.
  Qed.

  (* sde_root forgets the state *)
  Lemma sde_root_of_st (n : St -> outcome (option rtok * St)) k e fuel sh r :
    sde_root decode pf fo St n k e fuel sh r = omap fst (sde_root_st decode pf fo St n k e fuel sh r).
  Proof.
    unfold sde_root, sde_root_st, omap.
    destruct (thint_of sh); try reflexivity.
    - destruct (wmode_of sh) as [m|]; [|reflexivity].
      destruct (swalk decode pf fo St n k e fuel true m (acc0 m) r) as [[a r']| | | |]; cbn [obind]; try reflexivity.
      destruct (finish m a); reflexivity.
    - destruct (wmode_of sh) as [m|]; [|reflexivity].
      destruct (swalk decode pf fo St n k e fuel true m (acc0 m) r) as [[a r']| | | |]; cbn [obind]; try reflexivity.
      destruct (finish m a); reflexivity.
  Qed.

  Theorem sde_root_sim fuel sh a b : Rel a b ->
    fsim eq (sde_root decode pf fo St n1 k1 e1 fuel sh a) (sde_root decode pf fo St n2 k2 e2 fuel sh b).
  Proof.
    intros Hr. rewrite !sde_root_of_st. unfold omap.
    eapply fsim_bind; [apply sde_root_st_sim; exact Hr|].
    intros [v1 s1] [v2 s2] [Hv _]. cbn [fst] in *. subst v2. apply fsim_ok. reflexivity.
  Qed.
End SdeSim.

(* ---------- Part 2: one call of the byte-level reader, in lock step with a twin ---------- *)
(* Generic in the relation [Q] between the two Reads: all that is needed is that one fill_buf keeps
   it unless the left one fails.  (FaultProofs.refill_eq .. skip_container_loop_eq are the instance
   Q = rdeq; the proofs are theirs.) *)
Section Lockstep.
  Variable Q : rd -> rd -> Prop.
  Hypothesis Q_fill : forall b d1 d2, Q d1 d2 ->
    match bw_fill_buf b d1 with
    | FillOk n b' d1' => exists d2', bw_fill_buf b d2 = FillOk n b' d2' /\ Q d1' d2'
    | FillIo _ _ => True
    | FillFull b' d1' => exists d2', bw_fill_buf b d2 = FillFull b' d2' /\ Q d1' d2'
    end.

  Definition RQ (r1 r2 : reader) : Prop := rbw r1 = rbw r2 /\ rbom r1 = rbom r2 /\ Q (rrd r1) (rrd r2).

  Lemma RQ_mk b d1 d2 bom : Q d1 d2 -> RQ (mkreader b d1 bom) (mkreader b d2 bom).
  Proof. intros H. unfold RQ. cbn [rbw rrd rbom]. auto. Qed.

  Definition nreqQ (o1 o2 : nres) : Prop :=
    match o1, o2 with
    | NTok t1 r1, NTok t2 r2 => t1 = t2 /\ RQ r1 r2
    | NEnd r1, NEnd r2 => RQ r1 r2
    | NErr e1 r1, NErr e2 r2 => e1 = e2 /\ RQ r1 r2
    | NCrash s1, NCrash s2 => s1 = s2
    | _, _ => False
    end.

  Lemma emit_lock b d1 d2 bom t adv : Q d1 d2 -> nreqQ (emit (mkreader b d1 bom) t adv) (emit (mkreader b d2 bom) t adv).
  Proof.
    intros H. unfold emit. cbn [rbw]. destruct (bw_advance b adv); cbn [nreqQ]; auto.
    split; [reflexivity|]. unfold with_bw. cbn [rrd rbom]. apply RQ_mk; exact H.
  Qed.

  Theorem refill_lock : forall fuel b d1 d2 bom st c o, Q d1 d2 ->
    is_io (refill fuel (mkreader b d1 bom) st c o) \/
    nreqQ (refill fuel (mkreader b d1 bom) st c o) (refill fuel (mkreader b d2 bom) st c o).
  Proof.
    induction fuel as [|f IH]; intros b d1 d2 bom st c o Heq; [right; reflexivity|].
    cbn [refill rbw rrd rbom].
    destruct (Nat.ltb (length (win b)) c); [right; reflexivity|].
    set (b1 := mkbw (cap b) _ _ _).
    pose proof (Q_fill b1 d1 d2 Heq) as Hf.
    destruct (bw_fill_buf b1 d1) as [n b2 d1'|b2 d1'|b2 d1'].
    - destruct Hf as (d2' & -> & Heq').
      destruct n as [|n].
      + right. destruct st.
        * destruct (Nat.eqb c 0 || _); [|cbn [nreqQ]; split; [reflexivity|apply RQ_mk; exact Heq']].
          destruct (bw_advance b2 c); cbn [nreqQ]; auto. unfold with_bw; cbn [rrd rbom]. apply RQ_mk; exact Heq'.
        * cbn [nreqQ]; split; [reflexivity|apply RQ_mk; exact Heq'].
        * destruct (bw_advance b2 (length (win b2))); cbn [nreqQ]; auto. split; [reflexivity|].
          unfold with_bw; cbn [rrd rbom]. apply RQ_mk; exact Heq'.
      + destruct st.
        * destruct (fb _ _ _ _ _ _) as [[st' c' o'|t adv|s] bom'].
          -- apply IH. exact Heq'.
          -- right. apply emit_lock. exact Heq'.
          -- right. reflexivity.
        * destruct (Nat.ltb (length (win b2)) o); [right; reflexivity|].
          destruct (refill_quote_scan (win b2) o).
          -- right. apply emit_lock. exact Heq'.
          -- apply IH. exact Heq'.
        * destruct (Nat.ltb (length (win b2)) o); [right; reflexivity|].
          destruct (refill_unq_scan (win b2) o).
          -- right. apply emit_lock. exact Heq'.
          -- apply IH. exact Heq'.
    - left. eexists. reflexivity.
    - destruct Hf as (d2' & -> & Heq'). right. cbn [nreqQ]. split; [reflexivity|apply RQ_mk; exact Heq'].
  Qed.

  Theorem fallback_lock fuel b d1 d2 bom : Q d1 d2 ->
    is_io (fallback fuel (mkreader b d1 bom)) \/
    nreqQ (fallback fuel (mkreader b d1 bom)) (fallback fuel (mkreader b d2 bom)).
  Proof.
    intros Heq. unfold fallback. cbn [rbw rrd rbom].
    destruct (fb _ _ _ _ _ _) as [[st' c' o'|t adv|s] bom'].
    - apply refill_lock. exact Heq.
    - right. apply emit_lock. exact Heq.
    - right. reflexivity.
  Qed.

  Theorem next_opt_lock fuel r1 r2 : RQ r1 r2 ->
    is_io (next_opt fuel r1) \/ nreqQ (next_opt fuel r1) (next_opt fuel r2).
  Proof.
    destruct r1 as [b d1 bom], r2 as [b' d2 bom']. intros (Hb & Hbom & Heq). cbn [rbw rbom rrd] in *. subst b' bom'.
    pose proof (fallback_lock fuel b d1 d2 bom Heq) as Hfb.
    unfold next_opt. cbn [rbw].
    destruct (Nat.ltb (length (win b)) 9); [exact Hfb|].
    destruct (nth_error (win b) _) as [c|]; [|right; reflexivity].
    destruct (b_is c 123); [right; apply emit_lock; exact Heq|].
    destruct (b_is c 125); [right; apply emit_lock; exact Heq|].
    destruct (is_alnum_dash c).
    { destruct (fu_outer _ _ _); [right; apply emit_lock; exact Heq|exact Hfb|right; reflexivity]. }
    destruct (b_is c 34); [|exact Hfb].
    destruct (fq_outer _ _ _ _); [right; apply emit_lock; exact Heq|exact Hfb|right; reflexivity].
  Qed.

  Theorem skip_container_loop_lock : forall fuel b d1 d2 bom ptr st depth, Q d1 d2 ->
    skip_container_loop fuel (mkreader b d1 bom) ptr st depth = Err E_Io \/
    oreq RQ (skip_container_loop fuel (mkreader b d1 bom) ptr st depth)
            (skip_container_loop fuel (mkreader b d2 bom) ptr st depth).
  Proof.
    induction fuel as [|f IH]; intros b d1 d2 bom ptr st depth Heq; [right; exact I|].
    cbn [skip_container_loop rbw rrd rbom].
    destruct (sk_scan _ _ _ _ _) as [adv|p st' d'|s].
    - right. destruct (bw_advance b adv); cbn [oreq]; auto. unfold with_bw. cbn [rrd rbom]. apply RQ_mk. exact Heq.
    - destruct (bw_advance b p) as [b0| | | |]; try (right; reflexivity).
      pose proof (Q_fill b0 d1 d2 Heq) as Hf.
      destruct (bw_fill_buf b0 d1) as [k b2 d1'|b2 d1'|b2 d1'].
      + destruct Hf as (d2' & -> & Heq'). destruct k as [|k]; [right; reflexivity|]. apply IH. exact Heq'.
      + left. reflexivity.
      + destruct Hf as (d2' & -> & Heq'). right. reflexivity.
    - right. reflexivity.
  Qed.

  Corollary skip_container_lock fuel r1 r2 : RQ r1 r2 ->
    skip_container fuel r1 = Err E_Io \/ oreq RQ (skip_container fuel r1) (skip_container fuel r2).
  Proof.
    destruct r1 as [b d1 bom], r2 as [b' d2 bom']. intros (Hb & Hbom & Hd). cbn [rbw rbom rrd] in *. subst.
    apply skip_container_loop_lock. exact Hd.
  Qed.

  (* ----- the three operations of the deserializer's token source ----- *)
  Notation prQ := (fun A => @prel reader RQ A).

  Lemma tec_io : tec E_Io = EC_IO.
  Proof. reflexivity. Qed.

  Lemma tr_next_lock fuel r1 r2 : RQ r1 r2 -> fsim (@prel reader RQ _) (tr_next fuel r1) (tr_next fuel r2).
  Proof.
    intros Hr. unfold tr_next.
    destruct (next_opt_lock fuel r1 r2 Hr) as [[r' ->]|H]; [left; rewrite tec_io; reflexivity|].
    right. destruct (next_opt fuel r1), (next_opt fuel r2); cbn [nreqQ] in H; try contradiction; cbn [oclass].
    - destruct H as [-> H]. split; [reflexivity|exact H].
    - split; [reflexivity|exact H].
    - destruct H as [-> _]. reflexivity.
    - exact H.
  Qed.

  Lemma tr_skip_lock fuel r1 r2 : RQ r1 r2 -> fsim RQ (tr_skip fuel r1) (tr_skip fuel r2).
  Proof.
    intros Hr. unfold tr_skip.
    destruct (skip_container_lock fuel r1 r2 Hr) as [->|H]; [left; rewrite tec_io; reflexivity|].
    right. destruct (skip_container fuel r1), (skip_container fuel r2); cbn [oreq] in H; try contradiction; cbn [oclass]; auto.
    subst. reflexivity.
  Qed.

  Lemma tr_read_lock fuel r1 r2 : RQ r1 r2 -> fsim (@prel reader RQ _) (tr_read fuel r1) (tr_read fuel r2).
  Proof. intros Hr. unfold tr_read. apply (rread_sim reader _ _ RQ); [intros a b; apply tr_next_lock|exact Hr]. Qed.

  Lemma tr_expect_lock fuel r1 r2 : RQ r1 r2 -> fsim (@prel reader RQ _) (tr_expect fuel r1) (tr_expect fuel r2).
  Proof.
    intros Hr. pose proof (tr_read_lock fuel r1 r2 Hr) as Hread.
    unfold tr_expect. destruct Hr as (Hb & Hbom & Hd). rewrite <- Hb.
    destruct (win (rbw r1)) as [|c [|n l]]; try exact Hread.
    destruct (b_is c 61 && negb (b_is n 61)); [|exact Hread].
    destruct (bw_advance (rbw r1) 1); try (right; reflexivity).
    apply fsim_ok. split; [reflexivity|]. unfold with_bw, RQ. cbn [fst snd rbw rrd rbom]. auto.
  Qed.

  (* the whole walk *)
  Theorem sde_root_st_lock decode pf fo fuel wf sh r1 r2 : RQ r1 r2 ->
    fsim (@prel reader RQ _)
      (sde_root_st decode pf fo reader (tr_next fuel) (tr_skip fuel) (tr_expect fuel) wf sh r1)
      (sde_root_st decode pf fo reader (tr_next fuel) (tr_skip fuel) (tr_expect fuel) wf sh r2).
  Proof.
    apply sde_root_st_sim.
    - intros a b; apply tr_next_lock.
    - intros a b; apply tr_skip_lock.
    - intros a b; apply tr_expect_lock.
  Qed.

  Theorem sde_root_lock decode pf fo fuel wf sh r1 r2 : RQ r1 r2 ->
    fsim eq
      (sde_root decode pf fo reader (tr_next fuel) (tr_skip fuel) (tr_expect fuel) wf sh r1)
      (sde_root decode pf fo reader (tr_next fuel) (tr_skip fuel) (tr_expect fuel) wf sh r2).
  Proof.
    apply sde_root_sim.
    - intros a b; apply tr_next_lock.
    - intros a b; apply tr_skip_lock.
    - intros a b; apply tr_expect_lock.
  Qed.
End Lockstep.

(* ---------- the relation: fault-free twin that has seen as many read calls, all successful ---------- *)
(* sched_ok s0 d: the Read [d] started with schedule [s0], has consumed [calls d] events of it, and
   none of them was a Fail *)
Definition sched_ok (s0 : list event) (d : rd) : Prop :=
  sched d = skipn (calls d) s0 /\ no_fail (firstn (calls d) s0).

Definition rdeqc (s0 : list event) (d1 d2 : rd) : Prop :=
  rdeq d1 d2 /\ calls d1 = calls d2 /\ sched_ok s0 d1.

Lemma tl_skipn {A} n (l : list A) : tl (skipn n l) = skipn (S n) l.
Proof.
  revert l. induction n as [|n IH]; intros [|x l]; try reflexivity.
  - cbn [skipn]. rewrite IH. destruct l; reflexivity.
Qed.

Lemma firstn_S_skipn {A} n (l : list A) :
  firstn (S n) l = firstn n l ++ match skipn n l with [] => [] | e :: _ => [e] end.
Proof.
  revert l. induction n as [|n IH]; intros [|x l]; try reflexivity.
  change (firstn (S (S n)) (x :: l)) with (x :: firstn (S n) l). rewrite IH. reflexivity.
Qed.

Lemma rd_read_ok_sched s0 d free bs d' : sched_ok s0 d -> rd_read d free = Ok (bs, d') ->
  sched_ok s0 d' /\ calls d' = S (calls d).
Proof.
  intros [Hs Hn] H. unfold rd_read in H.
  destruct (sched d) as [|[n|] t] eqn:E; cbn [tl] in H; try discriminate; inversion H; subst; clear H;
    unfold sched_ok; cbn [sched calls]; (split; [|reflexivity]).
  - split; [rewrite <- tl_skipn, <- Hs; reflexivity|]. rewrite firstn_S_skipn, <- Hs, app_nil_r. exact Hn.
  - split; [rewrite <- tl_skipn, <- Hs; reflexivity|]. rewrite firstn_S_skipn, <- Hs.
    unfold no_fail in *. intros Hin. apply in_app_or in Hin as [Hin|[Hin|[]]]; [exact (Hn Hin)|discriminate].
Qed.

Lemma fill_eqc s0 b d1 d2 : rdeqc s0 d1 d2 ->
  match bw_fill_buf b d1 with
  | FillOk n b' d1' => exists d2', bw_fill_buf b d2 = FillOk n b' d2' /\ rdeqc s0 d1' d2'
  | FillIo _ _ => True
  | FillFull b' d1' => exists d2', bw_fill_buf b d2 = FillFull b' d2' /\ rdeqc s0 d1' d2'
  end.
Proof.
  intros (Heq & Hc & Hok). pose proof (fill_eq b d1 d2 Heq) as Hf.
  unfold bw_fill_buf in *. destruct (Nat.leb (cap b) (length (win b))).
  - destruct (Nat.eqb (cap b) 0); exists d2; (split; [reflexivity|]); unfold rdeqc; auto.
  - destruct (rd_read d1 (cap b - length (win b))) as [[bs d1']| | | |] eqn:E1; try exact I.
    destruct Hf as (d2' & E2 & Hq). exists d2'. split; [exact E2|].
    destruct (rd_read_ok_sched s0 d1 _ _ _ Hok E1) as [Hok' Hc1].
    split; [exact Hq|]. split; [|exact Hok']. rewrite Hc1.
    destruct (rd_read d2 (cap b - length (win b))) as [[bs2 d2'']| | | |] eqn:E2'; try discriminate.
    assert (Hd : d2'' = d2') by (inversion E2; reflexivity). subst d2''.
    unfold rd_read in E2'. destruct (sched d2) as [|[n|] t]; cbn [tl] in E2'; try discriminate;
      inversion E2'; subst; cbn [calls]; rewrite Hc; reflexivity.
Qed.

Definition Rc (s0 : list event) : reader -> reader -> Prop := RQ (rdeqc s0).

Lemma Rc_new capv d sch : Rc sch (reader_new capv d sch) (reader_new capv d (clean sch)).
Proof.
  unfold Rc, RQ, reader_new. cbn [rbw rrd rbom]. split; [reflexivity|]. split; [reflexivity|].
  unfold rdeqc, rdeq, sched_ok. cbn [rest sched calls delivered skipn firstn]. repeat split; try reflexivity.
  intros [].
Qed.

(* ---------- the entry points ---------- *)
(* TextDeserializer::from_*_reader(..).deserialize under ANY read schedule returns the I/O error, or
   exactly what it returns over the schedule with the failures removed *)
Theorem deser_text_reader_fault_sound decode pf fo capv sch sh d :
  deser_text_reader decode pf fo capv sch sh d = Err EC_IO \/
  deser_text_reader decode pf fo capv sch sh d = deser_text_reader decode pf fo capv (clean sch) sh d.
Proof.
  apply fsim_eq. unfold deser_text_reader.
  apply (sde_root_lock (rdeqc sch) (fill_eqc sch)). apply Rc_new.
Qed.

Theorem deser_text_reader_clean_id decode pf fo capv sch sh d :
  no_fail sch -> deser_text_reader decode pf fo capv (clean sch) sh d = deser_text_reader decode pf fo capv sch sh d.
Proof. intros H. rewrite (clean_id _ H). reflexivity. Qed.

Lemma deser_text_reader_of_st decode pf fo capv sch sh d :
  deser_text_reader decode pf fo capv sch sh d = omap fst (deser_text_reader_st decode pf fo capv sch sh d).
Proof. apply sde_root_of_st. Qed.

(* with the final reader: a run that returns Ok has issued as many read calls as its fault-free twin,
   every one of them answered by a Data event; the twin returns the same value *)
Theorem deser_text_reader_st_fault_sound decode pf fo capv sch sh d :
  deser_text_reader_st decode pf fo capv sch sh d = Err EC_IO \/
  match deser_text_reader_st decode pf fo capv sch sh d, deser_text_reader_st decode pf fo capv (clean sch) sh d with
  | Ok (v1, r1), Ok (v2, r2) =>
      v1 = v2 /\ readeq r1 r2 /\ reader_calls r1 = reader_calls r2 /\ no_fail (firstn (reader_calls r1) sch)
  | Ok _, _ | _, Ok _ => False
  | o1, o2 => omap fst o1 = omap fst o2
  end.
Proof.
  unfold deser_text_reader_st.
  destruct (sde_root_st_lock (rdeqc sch) (fill_eqc sch) decode pf fo (tr_fuel d) (tde_fuel sh d) sh _ _ (Rc_new capv d sch)) as [H|H];
    [left; exact H|right].
  destruct (sde_root_st _ _ _ _ _ _ _ _ _ (reader_new capv d sch)) as [[v1 r1]| | | |],
           (sde_root_st _ _ _ _ _ _ _ _ _ (reader_new capv d (clean sch))) as [[v2 r2]| | | |];
    cbn [oclass] in H; try contradiction; try (subst; reflexivity).
  destruct H as [Hv (Hb & Hbom & (Hq & Hc & Hs & Hn))]. cbn [fst snd] in *.
  split; [exact Hv|]. split; [unfold readeq; auto|]. split; [exact Hc|exact Hn].
Qed.

(* "a failure at read call k that is reached ends in an error", for every k (one-shot or the first
   of a persistent tail): if event k of the schedule is Fail, a run that returns Ok has finished
   within k read calls (calls 0..k-1), and so has the fault-free twin *)
Theorem deser_text_reader_fault_at_k decode pf fo capv sch sh d k v r :
  nth_error sch k = Some Fail ->
  deser_text_reader_st decode pf fo capv sch sh d = Ok (v, r) ->
  reader_calls r <= k /\
  exists r2, deser_text_reader_st decode pf fo capv (clean sch) sh d = Ok (v, r2) /\ reader_calls r2 = reader_calls r.
Proof.
  intros Hk Hrun.
  destruct (deser_text_reader_st_fault_sound decode pf fo capv sch sh d) as [H|H]; [rewrite Hrun in H; discriminate|].
  rewrite Hrun in H.
  destruct (deser_text_reader_st decode pf fo capv (clean sch) sh d) as [[v2 r2]| | | |]; try contradiction.
  destruct H as (-> & _ & Hc & Hn). split; [|exists r2; split; [reflexivity|symmetry; exact Hc]].
  destruct (Nat.le_gt_cases (reader_calls r) k) as [Hle|Hgt]; [exact Hle|exfalso].
  apply Hn. apply nth_error_split in Hk as (l1 & l2 & -> & Hlen).
  rewrite firstn_app. apply in_or_app. right. subst k.
  replace (reader_calls r - length l1) with (S (reader_calls r - length l1 - 1)) by lia. left. reflexivity.
Qed.

(* contrapositive, in the vocabulary of the fault-injection oracle: if the fault-free run succeeds
   after MORE than k read calls, or does not succeed, the run with a failure at read call k does not
   succeed, and its error is the I/O error or the fault-free run's error *)
Theorem deser_text_reader_persistent decode pf fo capv sch sh d k :
  nth_error sch k = Some Fail ->
  (forall v r2, deser_text_reader_st decode pf fo capv (clean sch) sh d = Ok (v, r2) -> k < reader_calls r2) ->
  deser_text_reader decode pf fo capv sch sh d = Err EC_IO \/
  (deser_text_reader decode pf fo capv sch sh d = deser_text_reader decode pf fo capv (clean sch) sh d /\
   forall v, deser_text_reader decode pf fo capv sch sh d <> Ok v).
Proof.
  intros Hk Hfree.
  destruct (deser_text_reader_fault_sound decode pf fo capv sch sh d) as [H|H]; [left; exact H|right].
  split; [exact H|]. intros v Hv. rewrite deser_text_reader_of_st in Hv.
  destruct (deser_text_reader_st decode pf fo capv sch sh d) as [[v1 r1]| | | |] eqn:E; cbn in Hv; try discriminate.
  destruct (deser_text_reader_fault_at_k decode pf fo capv sch sh d k v1 r1 Hk E) as (Hle & r2 & E2 & Hc).
  specialize (Hfree v1 r2 E2). lia.
Qed.

(* a Read that fails from its first call on: every map / struct target gets the I/O error *)
Theorem deser_text_reader_fail_first decode pf fo capv tl sh d v :
  0 < capv -> deser_text_reader decode pf fo capv (Fail :: tl) sh d <> Ok v.
Proof.
  intros Hcap Hv. rewrite deser_text_reader_of_st in Hv.
  destruct (deser_text_reader_st decode pf fo capv (Fail :: tl) sh d) as [[v1 r1]| | | |] eqn:E; cbn in Hv; try discriminate.
  destruct (deser_text_reader_fault_at_k decode pf fo capv (Fail :: tl) sh d 0 v1 r1 eq_refl E) as (Hle & r2 & E2 & Hc).
  (* zero read calls: the run saw an empty window only -- the first token request calls the Read *)
  clear Hv. revert E. unfold deser_text_reader_st, sde_root_st.
  destruct (thint_of sh); try discriminate.
  all: destruct (wmode_of sh) as [m|]; try discriminate.
  all: unfold tde_fuel; replace (2 * length d + shape_size sh + 8) with (S (2 * length d + shape_size sh + 7)) by lia.
  all: rewrite swalk_S; unfold tr_next at 1.
  all: assert (Hio : exists r', next_opt (tr_fuel d) (reader_new capv d (Fail :: tl)) = NErr E_Io r').
  all: try (unfold tr_fuel, reader_new, bw_new, next_opt; cbn [rbw win length Nat.ltb Nat.leb]; unfold fallback; cbn [rbw win length fb];
            replace (2 * length d + 8) with (S (2 * length d + 7)) by lia;
            cbn [refill rbw rrd rbom win length Nat.ltb Nat.leb Nat.sub skipn cap consumed prior];
            unfold bw_fill_buf; cbn [cap win length];
            replace (Nat.leb capv 0) with false by (symmetry; apply Nat.leb_gt; exact Hcap);
            unfold rd_read; cbn [sched]; eexists; reflexivity).
  all: destruct Hio as [r' ->]; cbn [obind]; discriminate.
Qed.
