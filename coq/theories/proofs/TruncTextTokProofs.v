(* C19 at the text TOKEN level (wave 5, w_tdef): truncated input through the text token reader.

   PLAN
   1. Reference tokenizer (TextRef.item / tk / rr = tokens_of): [item_prefix]: what ONE item of a
      prefix P says about the item of P ++ X: a skip / a token decided by a byte of P is the same
      item with X appended to the rest; an unquoted scalar ended by the END of P is a prefix of the
      unquoted scalar P ++ X starts with; a clean end (nothing left, open comment) or Eof (open quote,
      open `@[`, lone operator byte, partial BOM) says nothing.
   2. [tk_prefix] (over the skip loop), [rr_trunc] (over the token loop): the token list of P is
      [tok_cut] of the token list of P ++ X:
        (i)  tokens(P) = ts ++ [OEnd | OErr Eof] and ts is a proper-prefix of tokens(P ++ X), or
        (ii) tokens(P) = ts ++ [RUnq u; OEnd] and tokens(P ++ X) = ts ++ RUnq (u ++ w) :: .. with
             u, w non-empty: the last unquoted scalar was cut short, everything before is literal.
      In particular no quoted scalar, operator or brace of tokens(P) is altered or invented, and no
      scalar is extended or merged.
   3. A cut between the quotes of a quoted scalar: [tk_quote_cut] the tokenizer positioned on the
      opening quote reports Eof for every cut up to and including the byte before the closing quote.
   4. Transport to the models of TokenReader::from_slice ([run_slice], C07 slice_eq_tok) and of the
      buffered TokenReader under any fault-free schedule with a buffer larger than the document
      ([run_stream], C07 stream_eq_tok + need_le_length). *)
From JV Require Import Bytes Tables U64Swar BufWin TextTok TextReader TextRef.
From JV.proofs Require Import BufWinProofs TextReaderProofs TextRefProofs TextReaderMainProofs TextReaderFullProofs.
From Coq Require Import Lia List Arith Bool.
Import ListNotations.
Open Scope nat_scope.

Lemma firstn_app_le {A} n (l1 l2 : list A) : n <= length l1 -> firstn n (l1 ++ l2) = firstn n l1.
Proof. intros H. rewrite firstn_app. replace (n - length l1) with 0 by lia. cbn [firstn]. apply app_nil_r. Qed.
Lemma skipn_app_le {A} n (l1 l2 : list A) : n <= length l1 -> skipn n (l1 ++ l2) = skipn n l1 ++ l2.
Proof. intros H. rewrite skipn_app. replace (n - length l1) with 0 by lia. reflexivity. Qed.

Lemma rq_scan_bounds n : forall l k i, length l <= n -> rq_scan l k = inl i -> k <= i < k + length l.
Proof.
  induction n as [|n IH]; intros l k i Hn.
  - destruct l; [cbn; discriminate|cbn in Hn; lia].
  - destruct l as [|c l']; [cbn; discriminate|]. cbn [rq_scan length].
    destruct (b_is c 92).
    + destruct l' as [|x l'']; [discriminate|]. intros H. apply IH in H; cbn [length] in *; lia.
    + destruct (b_is c 34); [intros H; inversion H; lia|]. intros H. apply IH in H; cbn [length] in *; lia.
Qed.

(* ---------- 1. one item ---------- *)
Definition item_pre (X : bytes) (ip ifull : istep) : Prop :=
  match ip with
  | ISkip p' _ => exists n, ifull = ISkip (p' ++ X) n
  | ITok t p' _ => exists n, ifull = ITok t (p' ++ X) n
  | ITokEof t _ => exists u w, t = RUnq u /\ u <> [] /\
      ((exists s' n, ifull = ITok (RUnq (u ++ w)) s' n) \/ (exists n, ifull = ITokEof (RUnq (u ++ w)) n))
  | IEnd _ | IEof _ _ => True
  end.

Lemma bump_item_pre m X ip ifull : item_pre X ip ifull -> item_pre X (bump_item m ip) (bump_item m ifull).
Proof.
  destruct ip; cbn [item_pre bump_item]; auto.
  - intros [n0 ->]. eexists. reflexivity.
  - intros [n0 ->]. eexists. reflexivity.
  - intros (u & w & -> & Hu & [(s' & n0 & ->)|(n0 & ->)]); exists u, w; (split; [reflexivity|]); (split; [exact Hu|]).
    + left. do 2 eexists. reflexivity.
    + right. eexists. reflexivity.
Qed.

Lemma unq_item_pre c s1 X : item_pre X (unq_item (c :: s1)) (unq_item ((c :: s1) ++ X)).
Proof.
  unfold unq_item. cbn [app tl]. rewrite find_from_app.
  destruct (find_from is_boundary s1 0) as [k|] eqn:E.
  - apply find_from_bounds in E. cbn [item_pre]. exists (S (S k)).
    change (c :: s1 ++ X) with ((c :: s1) ++ X).
    rewrite firstn_app_le, skipn_app_le by (cbn [length]; lia). reflexivity.
  - cbn [item_pre]. exists (c :: s1).
    destruct (find_from is_boundary X (0 + length s1)) as [k|] eqn:E2.
    + apply find_from_bounds in E2. exists (firstn (S k - length (c :: s1)) X).
      split; [reflexivity|]. split; [discriminate|]. left. do 2 eexists.
      change (c :: s1 ++ X) with ((c :: s1) ++ X). rewrite firstn_app.
      rewrite (firstn_all2 (n := S k)) by (cbn [length]; lia). reflexivity.
    + exists X. split; [reflexivity|]. split; [discriminate|]. right. eexists. reflexivity.
Qed.

Lemma op_item_pre s' X a b : s' <> [] -> item_pre X (op_item s' a b) (op_item (s' ++ X) a b).
Proof.
  destruct s' as [|c s'']; [intros H; contradiction|]. intros _. cbn [op_item app].
  destruct (b_is c 61); cbn [item_pre]; eexists; reflexivity.
Qed.

Theorem item_prefix start P X : item_pre X (item start P) (item start (P ++ X)).
Proof.
  destruct P as [|c P']; [exact I|]. cbn [app]. unfold item.
  destruct (is_ws c); [exists 1; reflexivity|].
  destruct (b_is c 35).
  { rewrite find_from_app. destruct (find_from (fun x => b_is x 10) P' 0) as [k|] eqn:E; [|exact I].
    apply find_from_bounds in E. cbn [item_pre]. eexists. rewrite skipn_app_le by lia. reflexivity. }
  destruct (b_is c 123); [eexists; reflexivity|].
  destruct (b_is c 125); [eexists; reflexivity|].
  destruct (b_is c 34).
  { pose proof (refill_quote_resume P' X) as H. destruct (rq_scan P' 0) as [i|o] eqn:E; [|exact I].
    rewrite H. apply (rq_scan_bounds (length P')) in E; [|lia]. cbn [item_pre]. eexists.
    rewrite firstn_app_le, skipn_app_le by lia. reflexivity. }
  destruct (b_is c 64).
  { destruct P' as [|c2 P'']; [exact I|]. cbn [app].
    destruct (b_is c2 91); [|apply (unq_item_pre c (c2 :: P'') X)].
    rewrite find_from_app. destruct (find_from (fun x => b_is x 93) P'' 0) as [k|] eqn:E; [|exact I].
    apply find_from_bounds in E. cbn [item_pre]. eexists.
    change (c :: c2 :: P'' ++ X) with ((c :: c2 :: P'') ++ X).
    rewrite firstn_app_le, skipn_app_le by (cbn [length]; lia). reflexivity. }
  assert (Hop : forall a b, item_pre X (op_item P' a b) (op_item (P' ++ X) a b)).
  { intros a b. destruct P' as [|c2 P'']; [exact I|]. apply op_item_pre. discriminate. }
  destruct (b_is c 61); [apply Hop|].
  destruct (b_is c 60); [apply Hop|].
  destruct (b_is c 33); [apply Hop|].
  destruct (b_is c 63); [apply Hop|].
  destruct (b_is c 62); [apply Hop|].
  destruct (b_is c 239 && start).
  { destruct P' as [|b1 [|b2 s3]]; [exact I|exact I|]. cbn [app].
    destruct (b_is b1 187 && b_is b2 191); [exists 3; reflexivity|].
    apply bump_item_pre. apply (unq_item_pre c (b1 :: b2 :: s3) X). }
  apply (unq_item_pre c P' X).
Qed.

(* ---------- 2. one token, the whole run ---------- *)
Definition tk_pre (X : bytes) (rp rfull : tres) : Prop :=
  match rp with
  | RTok t p' => rfull = RTok t (p' ++ X) \/
                 (p' = [] /\ exists u w s', t = RUnq u /\ u <> [] /\ rfull = RTok (RUnq (u ++ w)) s')
  | REnd | REof _ => True
  end.

Theorem tk_prefix : forall n P X start, length P <= n -> tk_pre X (fst (tk start P)) (fst (tk start (P ++ X))).
Proof.
  induction n as [|n IH]; intros P X start Hn.
  - destruct P; [|cbn in Hn; lia]. rewrite (tk_unfold start []). exact I.
  - rewrite (tk_unfold start P), (tk_unfold start (P ++ X)).
    pose proof (item_prefix start P X) as H.
    destruct (item start P) as [p' k|t p' k|t k|k|k0 k] eqn:E; cbn [item_pre] in H; try exact I.
    + destruct H as [n0 ->]. unfold bump. cbn [fst]. apply IH. apply item_skip_shrinks in E. lia.
    + destruct H as [n0 ->]. cbn [fst tk_pre]. left. reflexivity.
    + destruct H as (u & w & -> & Hu & [(s' & n0 & ->)|(n0 & ->)]); cbn [fst tk_pre]; right; (split; [reflexivity|]).
      * exists u, w, s'. auto.
      * exists u, w, []. auto.
Qed.

Definition tok_cut (full pre : list rout) : Prop :=
  (exists ts term rest, pre = map OTok ts ++ [term] /\ (term = OEnd \/ term = OErr E_Eof) /\
                        full = map OTok ts ++ rest /\ rest <> [])
  \/ (exists ts u w rest, u <> [] /\ w <> [] /\ pre = map OTok ts ++ [OTok (RUnq u); OEnd] /\
                          full = map OTok ts ++ OTok (RUnq (u ++ w)) :: rest).

Lemma tok_cut_cons t full pre : tok_cut full pre -> tok_cut (OTok t :: full) (OTok t :: pre).
Proof.
  intros [(ts & term & rest & -> & Ht & -> & Hr)|(ts & u & w & rest & Hu & Hw & -> & ->)].
  - left. exists (t :: ts), term, rest. auto.
  - right. exists (t :: ts), u, w, rest. auto.
Qed.

Lemma rr_nonempty start s : fst (fst (rr start s)) <> [].
Proof.
  rewrite rr_unfold. destruct (tk start s) as [[t s'| |k] n]; try discriminate.
  destruct (rr false s') as [[l r] m]. discriminate.
Qed.

Lemma rr_nil : rr false [] = ([OEnd], 0, 0).
Proof. reflexivity. Qed.

Theorem rr_trunc : forall n P X start, length P <= n ->
  tok_cut (fst (fst (rr start (P ++ X)))) (fst (fst (rr start P))).
Proof.
  induction n as [|n IH]; intros P X start Hn.
  - destruct P; [|cbn in Hn; lia]. left. exists [], OEnd, (fst (fst (rr start ([] ++ X)))).
    split; [destruct start; reflexivity|]. split; [left; reflexivity|]. split; [reflexivity|apply rr_nonempty].
  - pose proof (tk_prefix (length P) P X start (le_n _)) as H.
    pose proof (rr_nonempty start (P ++ X)) as Hne.
    rewrite (rr_unfold start P). rewrite (rr_unfold start (P ++ X)) in *.
    destruct (tk start P) as [[t p'| |k] m] eqn:E; cbn [fst tk_pre] in H.
    + destruct (tk start (P ++ X)) as [rf mf] eqn:EF. cbn [fst] in H.
      destruct H as [->|(-> & u & w & s' & -> & Hu & ->)].
      * apply tk_tok_shrinks with (n := length P) in E; [|lia].
        specialize (IH p' X false ltac:(lia)).
        destruct (rr false p') as [[l1 r1] m1], (rr false (p' ++ X)) as [[l2 r2] m2]. cbn [fst] in *.
        apply tok_cut_cons. exact IH.
      * rewrite rr_nil. pose proof (rr_nonempty false s') as Hs.
        destruct (rr false s') as [[l2 r2] m2]. cbn [fst] in *.
        destruct w as [|w0 w'].
        -- left. exists [RUnq u], OEnd, l2. rewrite app_nil_r. auto.
        -- right. exists [], u, (w0 :: w'), l2. split; [exact Hu|]. split; [discriminate|]. auto.
    + left. exists [], OEnd, (fst (fst (let '(res, n0) := tk start (P ++ X) in
         match res with
         | RTok t s' => let '(l, rem, m0) := rr false s' in (OTok t :: l, rem, Nat.max n0 m0)
         | REnd => ([OEnd], 0, n0)
         | REof k => ([OErr E_Eof], k, n0)
         end))). auto.
    + left. exists [], (OErr E_Eof), (fst (fst (let '(res, n0) := tk start (P ++ X) in
         match res with
         | RTok t s' => let '(l, rem, m0) := rr false s' in (OTok t :: l, rem, Nat.max n0 m0)
         | REnd => ([OEnd], 0, n0)
         | REof k => ([OErr E_Eof], k, n0)
         end))). auto.
Qed.

Lemma tokens_of_rr input : tokens_of input = fst (fst (rr true input)).
Proof. reflexivity. Qed.

Theorem tokens_trunc D k : tok_cut (tokens_of D) (tokens_of (firstn k D)).
Proof.
  rewrite !tokens_of_rr. rewrite <- (firstn_skipn k D) at 1. apply (rr_trunc (length (firstn k D))). lia.
Qed.

(* ---------- 3. a cut between the quotes ---------- *)
Lemma rq_scan_cut s' i j : rq_scan s' 0 = inl i -> j <= i -> exists o, rq_scan (firstn j s') 0 = inr o.
Proof.
  intros H Hj. pose proof (refill_quote_resume (firstn j s') (skipn j s')) as Hr.
  rewrite firstn_skipn in Hr.
  destruct (rq_scan (firstn j s') 0) as [i'|o] eqn:E; [|eexists; reflexivity].
  exfalso. rewrite H in Hr. inversion Hr; subst i'.
  apply (rq_scan_bounds (length (firstn j s'))) in E; [|lia]. rewrite firstn_length in E. lia.
Qed.

Theorem tk_quote_cut start s' i j : rq_scan s' 0 = inl i -> j <= i ->
  exists k m, tk start (34%N :: firstn j s') = (REof k, m).
Proof.
  intros H Hj. destruct (rq_scan_cut s' i j H Hj) as [o Ho].
  rewrite tk_unfold. unfold item.
  replace (is_ws 34) with false by reflexivity. replace (b_is 34 35) with false by reflexivity.
  replace (b_is 34 123) with false by reflexivity. replace (b_is 34 125) with false by reflexivity.
  replace (b_is 34 34) with true by reflexivity. rewrite Ho. do 2 eexists. reflexivity.
Qed.

(* the complete quoted scalar, for comparison: the closing quote present = the token *)
Theorem tk_quote_whole start s' i : rq_scan s' 0 = inl i ->
  exists m, tk start (34%N :: s') = (RTok (RQuo (firstn i s')) (skipn (S i) s'), m).
Proof.
  intros H. rewrite tk_unfold. unfold item.
  replace (is_ws 34) with false by reflexivity. replace (b_is 34 35) with false by reflexivity.
  replace (b_is 34 123) with false by reflexivity. replace (b_is 34 125) with false by reflexivity.
  replace (b_is 34 34) with true by reflexivity. rewrite H. eexists. reflexivity.
Qed.

(* ---------- 4. the reader models ---------- *)
Lemma wf_bytes_firstn k D : wf_bytes D -> wf_bytes (firstn k D).
Proof.
  unfold wf_bytes. intros H. rewrite Forall_forall in *. intros x Hx. apply H.
  rewrite <- (firstn_skipn k D). apply in_or_app. left. exact Hx.
Qed.

Theorem slice_reader_trunc D k : wf_bytes D ->
  tok_cut (fst (run_slice D)) (fst (run_slice (firstn k D))).
Proof.
  intros Hwf. rewrite (slice_eq_tok D Hwf), (slice_eq_tok (firstn k D) (wf_bytes_firstn k D Hwf)).
  cbn [fst]. apply tokens_trunc.
Qed.

Theorem stream_reader_trunc D k capv sch1 sch2 : wf_bytes D -> no_fail sch1 -> no_fail sch2 -> length D < capv ->
  tok_cut (fst (run_stream capv sch1 D)) (fst (run_stream capv sch2 (firstn k D))).
Proof.
  intros Hwf H1 H2 Hcap.
  rewrite (stream_eq_tok D sch1 capv Hwf H1) by (pose proof (need_le_length D); lia).
  rewrite (stream_eq_tok (firstn k D) sch2 capv (wf_bytes_firstn k D Hwf) H2)
    by (pose proof (need_le_length (firstn k D)); rewrite firstn_length in *; lia).
  cbn [fst]. apply tokens_trunc.
Qed.
