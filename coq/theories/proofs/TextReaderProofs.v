(* text/reader.rs model: resume-correctness of the scans that survive a refill.
   These are the lemmas behind defects J and K (section 7 of DESIGN.md): whatever offset the
   reader hands to next_opt_refill, continuing the scan there on the longer window must give the
   same answer as scanning the whole content from its start. *)
From JV Require Import Bytes Tables U64Swar BufWin TextTok TextReader.
From Coq Require Import Lia List Arith.
Import ListNotations.
Open Scope nat_scope.

(* ---------- unquoted / generic first-match scan ---------- *)
Lemma find_from_app p c1 c2 k :
  find_from p (c1 ++ c2) k =
  match find_from p c1 k with Some i => Some i | None => find_from p c2 (k + length c1) end.
Proof.
  revert k. induction c1 as [|c c1 IH]; intros k; cbn [app find_from length].
  - rewrite Nat.add_0_r. reflexivity.
  - destruct (p c); [reflexivity|]. rewrite IH. replace (S k + length c1) with (k + S (length c1)) by lia. reflexivity.
Qed.

Lemma find_from_bounds p l k i : find_from p l k = Some i -> k <= i < k + length l.
Proof.
  revert k. induction l as [|c l IH]; intros k; cbn [find_from length]; [discriminate|].
  destruct (p c).
  - intros H. inversion H. lia.
  - intros H. apply IH in H. lia.
Qed.

(* resuming an unquoted scan at the old window length = rescanning from the token start *)
Theorem unquoted_resume p c1 c2 :
  find_from p c1 0 = None ->
  find_from p (c1 ++ c2) 0 = find_from p (skipn (length c1) (c1 ++ c2)) (length c1).
Proof.
  intros H. rewrite find_from_app, H. rewrite skipn_app, skipn_all, Nat.sub_diag. reflexivity.
Qed.

(* ---------- quoted scan ---------- *)
Lemma rq_scan_esc2 c x l k : b_is c 92 = true -> rq_scan (c :: x :: l) k = rq_scan l (S (S k)).
Proof. intros H. cbn [rq_scan]. rewrite H. reflexivity. Qed.
Lemma rq_scan_plain c l k : b_is c 92 = false -> b_is c 34 = false -> rq_scan (c :: l) k = rq_scan l (S k).
Proof. intros H1 H2. cbn [rq_scan]. rewrite H1, H2. reflexivity. Qed.
Lemma rq_scan_app_gen n : forall c1 c2 k, length c1 <= n ->
  match rq_scan c1 k with
  | inl i => rq_scan (c1 ++ c2) k = inl i
  | inr o => exists j, o = k + j /\ j <= length c1 /\ rq_scan (c1 ++ c2) k = rq_scan (skipn j (c1 ++ c2)) o
  end.
Proof.
  induction n as [|n IH]; intros c1 c2 k Hn.
  - destruct c1; [|cbn in Hn; lia]. cbn [rq_scan app]. exists 0. rewrite Nat.add_0_r. auto.
  - destruct c1 as [|c l']; [cbn [rq_scan app]; exists 0; rewrite Nat.add_0_r; auto|].
    cbn [rq_scan app]. destruct (b_is c 92) eqn:E92.
    + destruct l' as [|x l''].
      * cbn [app]. exists 0. rewrite Nat.add_0_r. cbn [skipn length]. split; [reflexivity|]. split; [lia|].
        cbn [rq_scan]. rewrite E92. reflexivity.
      * cbn [app]. specialize (IH l'' c2 (S (S k)) ltac:(cbn in Hn; lia)).
        destruct (rq_scan l'' (S (S k))) as [i|o].
        -- exact IH.
        -- destruct IH as (j & Ho & Hj & Heq). exists (S (S j)). cbn [length skipn]. split; [lia|]. split; [lia|]. exact Heq.
    + destruct (b_is c 34) eqn:E34.
      * reflexivity.
      * specialize (IH l' c2 (S k) ltac:(cbn in Hn; lia)).
        destruct (rq_scan l' (S k)) as [i|o].
        -- exact IH.
        -- destruct IH as (j & Ho & Hj & Heq). exists (S j). cbn [length skipn]. split; [lia|]. split; [lia|]. exact Heq.
Qed.

(* the scan inside next_opt_refill: whatever it returns as resume offset is correct for any data that follows *)
Theorem refill_quote_resume c1 c2 :
  match rq_scan c1 0 with
  | inl i => rq_scan (c1 ++ c2) 0 = inl i
  | inr o => o <= length c1 /\ rq_scan (c1 ++ c2) 0 = rq_scan (skipn o (c1 ++ c2)) o
  end.
Proof.
  pose proof (rq_scan_app_gen (length c1) c1 c2 0 (le_n _)) as H.
  destruct (rq_scan c1 0) as [i|o]; [exact H|].
  destruct H as (j & Ho & Hj & Heq). cbn in Ho. subst o. auto.
Qed.

Lemma qscan_app_gen n : forall c1 c2 k, length c1 <= n ->
  match qscan c1 k with
  | QFound i => rq_scan (c1 ++ c2) k = inl i
  | QEnd => rq_scan (c1 ++ c2) k = rq_scan c2 (k + length c1)
  | QEndEsc i => exists j, i = k + j /\ j < length c1 /\ rq_scan (c1 ++ c2) k = rq_scan (skipn j (c1 ++ c2)) i
  end.
Proof.
  induction n as [|n IH]; intros c1 c2 k Hn.
  - destruct c1; [|cbn in Hn; lia]. cbn [qscan app length]. rewrite Nat.add_0_r. reflexivity.
  - destruct c1 as [|c l']; [cbn [qscan app length]; rewrite Nat.add_0_r; reflexivity|].
    cbn [qscan]. destruct (b_is c 92) eqn:E92.
    + destruct l' as [|x l''].
      * exists 0. rewrite Nat.add_0_r. cbn [length skipn]. auto.
      * destruct l'' as [|y l3].
        -- exists 0. rewrite Nat.add_0_r. cbn [length skipn]. split; [reflexivity|]. split; [lia|reflexivity].
        -- specialize (IH (y :: l3) c2 (S (S k)) ltac:(cbn in Hn |- *; lia)).
           cbv beta iota. rewrite <- !app_comm_cons. rewrite rq_scan_esc2 by exact E92.
           rewrite app_comm_cons.
           destruct (qscan (y :: l3) (S (S k))) as [i| |i].
           ++ exact IH.
           ++ rewrite IH. cbn [length]. f_equal. lia.
           ++ destruct IH as (j & Hi & Hj & Heq). exists (S (S j)). cbn [length] in *. split; [lia|]. split; [lia|].
              rewrite Heq. reflexivity.
    + destruct (b_is c 34) eqn:E34.
      * cbn [app rq_scan]. rewrite E92, E34. reflexivity.
      * specialize (IH l' c2 (S k) ltac:(cbn in Hn; lia)).
        rewrite <- app_comm_cons. rewrite rq_scan_plain by assumption.
        destruct (qscan l' (S k)) as [i| |i].
        -- exact IH.
        -- rewrite IH. cbn [length]. f_equal. lia.
        -- destruct IH as (j & Hi & Hj & Heq). exists (S j). cbn [length skipn] in *. split; [lia|]. split; [lia|]. exact Heq.
Qed.

(* the scan inside next_opt_fallback: the (carry_over, offset) pair it passes to
   next_opt_refill(Quote) resumes correctly -- offset = carry_over after a complete scan,
   offset = index of the unpaired backslash after stepping over a trailing escape *)
Theorem fallback_quote_resume c1 c2 :
  match qscan c1 0 with
  | QFound i => rq_scan (c1 ++ c2) 0 = inl i
  | QEnd => rq_scan (c1 ++ c2) 0 = rq_scan (skipn (length c1) (c1 ++ c2)) (length c1)
  | QEndEsc i => i < length c1 /\ rq_scan (c1 ++ c2) 0 = rq_scan (skipn i (c1 ++ c2)) i
  end.
Proof.
  pose proof (qscan_app_gen (length c1) c1 c2 0 (le_n _)) as H.
  destruct (qscan c1 0) as [i| |i].
  - exact H.
  - rewrite H. rewrite skipn_app, skipn_all, Nat.sub_diag. reflexivity.
  - destruct H as (j & Hi & Hj & Heq). cbn in Hi. subst i. auto.
Qed.

