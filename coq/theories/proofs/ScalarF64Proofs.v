(* Proofs about ScalarF64.to_f64 (C11): accepted language, integer guard, finiteness,
   correct rounding below 2^53 (Flocq: binary_normalize_correct, Bdiv_correct, Bmult_correct). *)
From Coq Require Import ZArith NArith Reals Lia Lra List Bool.
From Flocq Require Import Core.Core IEEE754.BinarySingleNaN IEEE754.Binary IEEE754.Bits.
From JV Require Import Bytes Tables Scalar ScalarF64.
From JV.proofs Require Import ScalarProofs.
Import ListNotations.
Open Scope N_scope.

(* ================================================================== *)
(* Part A: the control structure of to_f64, independent of floats      *)
(* ================================================================== *)
Definition int_result (negative : bool) (lead : N) : outcome binary64 :=
  if negative then
    if lead <=? I64_MAX then
      let val := (- Z.of_N lead)%Z in
      if ((val <? - F64_GUARD) || (F64_GUARD <? val))%Z then Err E_PrecisionLoss else Ok (f64_of_Z val)
    else Err E_Overflow
  else if (F64_GUARD <? Z.of_N lead)%Z then Err E_PrecisionLoss else Ok (f64_of_Z (Z.of_N lead)).

(* sign * (i as f64 / 1e<e>) *)
Definition frac_value (negative : bool) (i e : N) : binary64 :=
  f64_mul (f64_of_Z (if negative then (-1)%Z else 1%Z)) (f64_div (f64_of_Z (Z.of_N i)) (pow10_f64 e)).

Definition frac_result (negative : bool) (lead : N) (rest1 : bytes) : outcome binary64 :=
  do (i, rest2) <- to_u64_t rest1 lead;
  match rest2 with
  | _ :: _ => Err E_AllDigits
  | [] => match nth_error power_of_ten_exps (length rest1) with
          | None => Err E_Overflow
          | Some e => Ok (frac_value negative i e)
          end
  end.

Definition after_lead (negative : bool) (lr : outcome (N * bytes)) : outcome binary64 :=
  do (lead, rest0) <- lr;
  match rest0 with
  | [] => int_result negative lead
  | x :: rest1 => if x =? 46 then frac_result negative lead rest1 else Err E_AllDigits
  end.

Definition f64_body (negative : bool) (c : N) (data : bytes) : outcome binary64 :=
  after_lead negative
    (if is_digit c then to_u64_t2 data (c - 48)
     else if c =? 46 then Ok (0, c :: data)
     else if c =? 43 then to_u64_t2 data 0
     else Err E_AllDigits).

Lemma to_f64_unfold c0 data0 :
  to_f64 (c0 :: data0) =
  if c0 =? 45 then match data0 with [] => Err E_AllDigits | c1 :: data1 => f64_body true c1 data1 end
  else f64_body false c0 data0.
Proof. unfold to_f64. destruct (c0 =? 45); [destruct data0|]; reflexivity. Qed.

Definition sgn (neg : bool) : bytes := if neg then [45] else [].

Lemma to_f64_sgn neg c data :
  c <> 45 -> to_f64 (sgn neg ++ c :: data) = f64_body neg c data.
Proof.
  intros Hc. destruct neg; cbn [sgn app]; rewrite to_f64_unfold.
  - reflexivity.
  - apply N.eqb_neq in Hc. now rewrite Hc.
Qed.

(* --- table facts (generated POWER_OF_TEN exponents) --- *)
Lemma pow_table_fact : power_of_ten_exps = map N.of_nat (seq 0 23).
Proof. reflexivity. Qed.

Lemma pow_table_nth k : nth_error power_of_ten_exps k = if (k <? 23)%nat then Some (N.of_nat k) else None.
Proof.
  rewrite pow_table_fact. destruct (k <? 23)%nat eqn:E.
  - apply Nat.ltb_lt in E. rewrite nth_error_map, (nth_error_nth' _ 0%nat) by (rewrite seq_length; lia).
    rewrite seq_nth by lia. reflexivity.
  - apply Nat.ltb_ge in E. apply nth_error_None. rewrite map_length, seq_length. lia.
Qed.

(* --- inversion of the digit loops --- *)
Lemma beqb_refl l : beqb l l = true.
Proof. induction l as [|x l IH]; [reflexivity|]. cbn [beqb]. now rewrite N.eqb_refl, IH. Qed.

Lemma beqb_length a b : beqb a b = true -> length a = length b.
Proof.
  revert b. induction a as [|x a IH]; intros [|y b] H; try discriminate; [reflexivity|].
  cbn [beqb] in H. apply andb_prop in H as [_ H]. cbn [length]. f_equal. auto.
Qed.

Lemma to_u64_t2_inv data acc v rest :
  acc < U64_LIM -> to_u64_t2 data acc = Ok (v, rest) ->
  exists ds, data = ds ++ rest /\ all_digits ds = true /\ stops rest /\ v = dec_acc ds acc /\ v < U64_LIM.
Proof.
  intros Ha H. destruct (span_digits data) as (ds & rest' & -> & Hd & Hs).
  rewrite to_u64_t2_digits in H by assumption.
  destruct (dec_acc ds acc <? U64_LIM) eqn:E; [|discriminate]. injection H as <- <-.
  exists ds. repeat split; auto. now apply N.ltb_lt.
Qed.

Lemma to_u64_t_inv data acc v rest :
  acc < U64_LIM -> to_u64_t data acc = Ok (v, rest) ->
  exists fs, data = fs ++ rest /\ fs <> [] /\ all_digits fs = true /\ stops rest /\ v = dec_acc fs acc /\ v < U64_LIM.
Proof.
  intros Ha H. unfold to_u64_t in H.
  destruct (to_u64_t2 data acc) as [[v' rest']| | | |] eqn:E; try discriminate. cbn [obind] in H.
  destruct (beqb rest' data) eqn:Eb; [discriminate|]. injection H as <- <-.
  destruct (to_u64_t2_inv _ _ _ _ Ha E) as (fs & -> & Hd & Hs & Hv & Hl).
  exists fs. repeat split; auto. intros ->. cbn [app] in Eb. now rewrite beqb_refl in Eb.
Qed.

Lemma to_u64_t_digits fs acc :
  fs <> [] -> all_digits fs = true -> acc < U64_LIM ->
  to_u64_t fs acc = if dec_acc fs acc <? U64_LIM then Ok (dec_acc fs acc, []) else Err E_Overflow.
Proof.
  intros Hne Hd Ha. unfold to_u64_t. rewrite <- (app_nil_r fs) at 1.
  rewrite to_u64_t2_digits by (auto; now left).
  destruct (dec_acc fs acc <? U64_LIM); [|reflexivity]. cbn [obind].
  destruct fs; [congruence|reflexivity].
Qed.

(* --- shape -> result --- *)
Definition lead_ok (c : N) : Prop := is_digit c = true \/ c = 43.

Lemma lead_ok_not_minus c : lead_ok c -> c <> 45.
Proof. intros [H| ->]; [apply is_digit_range in H; lia|discriminate]. Qed.

Lemma lead_ok_not_dot c : lead_ok c -> c =? 46 = false.
Proof. intros [H| ->]; [apply is_digit_range in H; apply N.eqb_neq; lia|reflexivity]. Qed.

Lemma body_lead c data : lead_ok c ->
  f64_body false c data = after_lead false (to_u64_t2 data (lead_val c)) /\
  f64_body true c data = after_lead true (to_u64_t2 data (lead_val c)).
Proof.
  intros H. unfold f64_body, lead_val. destruct H as [H| ->]; [rewrite H; split; reflexivity|split; reflexivity].
Qed.

(* integers: [-] (digit | '+') digit* *)
Theorem to_f64_int neg c ds :
  lead_ok c -> all_digits ds = true ->
  to_f64 (sgn neg ++ c :: ds) =
  if dec_acc ds (lead_val c) <? U64_LIM then int_result neg (dec_acc ds (lead_val c)) else Err E_Overflow.
Proof.
  intros Hc Hd. rewrite to_f64_sgn by (now apply lead_ok_not_minus).
  destruct (body_lead c ds Hc) as [Hf Ht].
  assert (H : f64_body neg c ds = after_lead neg (to_u64_t2 ds (lead_val c))) by (destruct neg; assumption).
  rewrite H. rewrite <- (app_nil_r ds) at 1.
  rewrite to_u64_t2_digits by (auto using lead_val_lt; now left).
  destruct (dec_acc ds (lead_val c) <? U64_LIM); reflexivity.
Qed.

(* fractions: [-] (digit | '+') digit* '.' digit+ *)
Theorem to_f64_frac neg c ds fs :
  lead_ok c -> all_digits ds = true -> all_digits fs = true -> fs <> [] ->
  to_f64 (sgn neg ++ c :: ds ++ 46 :: fs) =
  if dec_acc fs (dec_acc ds (lead_val c)) <? U64_LIM then
    if (length fs <? 23)%nat then Ok (frac_value neg (dec_acc fs (dec_acc ds (lead_val c))) (N.of_nat (length fs)))
    else Err E_Overflow
  else Err E_Overflow.
Proof.
  intros Hc Hd Hf Hne. rewrite to_f64_sgn by (now apply lead_ok_not_minus).
  destruct (body_lead c (ds ++ 46 :: fs) Hc) as [Hbf Hbt].
  assert (H : f64_body neg c (ds ++ 46 :: fs) = after_lead neg (to_u64_t2 (ds ++ 46 :: fs) (lead_val c))) by (destruct neg; assumption).
  rewrite H. clear H Hbf Hbt.
  rewrite to_u64_t2_digits; auto using lead_val_lt; [|right; now exists 46, fs].
  pose proof (dec_acc_ge fs (dec_acc ds (lead_val c))) as Hge.
  destruct (dec_acc ds (lead_val c) <? U64_LIM) eqn:El.
  - apply N.ltb_lt in El. unfold after_lead. cbn [obind]. rewrite N.eqb_refl.
    unfold frac_result. rewrite to_u64_t_digits by assumption.
    destruct (dec_acc fs (dec_acc ds (lead_val c)) <? U64_LIM); [|reflexivity].
    cbn [obind]. rewrite pow_table_nth. destruct (length fs <? 23)%nat; reflexivity.
  - apply N.ltb_ge in El.
    replace (dec_acc fs (dec_acc ds (lead_val c)) <? U64_LIM) with false by (symmetry; apply N.ltb_ge; lia).
    reflexivity.
Qed.

(* no leading digit: [-] '.' digit+ *)
Theorem to_f64_dot neg fs :
  all_digits fs = true -> fs <> [] ->
  to_f64 (sgn neg ++ 46 :: fs) =
  if dec fs <? U64_LIM then
    if (length fs <? 23)%nat then Ok (frac_value neg (dec fs) (N.of_nat (length fs))) else Err E_Overflow
  else Err E_Overflow.
Proof.
  intros Hf Hne. rewrite to_f64_sgn by discriminate.
  unfold f64_body. replace (is_digit 46) with false by reflexivity. rewrite N.eqb_refl.
  unfold after_lead. cbn [obind]. rewrite N.eqb_refl.
  unfold frac_result. rewrite to_u64_t_digits by (auto; reflexivity). fold (dec fs).
  destruct (dec fs <? U64_LIM); [|reflexivity].
  cbn [obind]. rewrite pow_table_nth. destruct (length fs <? 23)%nat; reflexivity.
Qed.

(* --- result -> shape: the accepted language is exactly these three shapes --- *)
Inductive f64_shape (d : bytes) : Prop :=
| ShapeInt neg c ds : d = sgn neg ++ c :: ds -> lead_ok c -> all_digits ds = true -> f64_shape d
| ShapeFrac neg c ds fs : d = sgn neg ++ c :: ds ++ 46 :: fs -> lead_ok c -> all_digits ds = true ->
                          all_digits fs = true -> fs <> [] -> f64_shape d
| ShapeDot neg fs : d = sgn neg ++ 46 :: fs -> all_digits fs = true -> fs <> [] -> f64_shape d.

Lemma frac_result_inv neg lead rest1 r :
  lead < U64_LIM -> frac_result neg lead rest1 = Ok r -> all_digits rest1 = true /\ rest1 <> [].
Proof.
  intros Hl H. unfold frac_result in H.
  destruct (to_u64_t rest1 lead) as [[i rest2]| | | |] eqn:E; try discriminate. cbn [obind] in H.
  destruct rest2; [|discriminate].
  destruct (to_u64_t_inv _ _ _ _ Hl E) as (fs & -> & Hne & Hd & _). rewrite app_nil_r. auto.
Qed.

Lemma body_shape neg c data r :
  f64_body neg c data = Ok r -> f64_shape (sgn neg ++ c :: data).
Proof.
  unfold f64_body. intros H. assert (H0 : 0 < U64_LIM) by reflexivity.
  destruct (is_digit c) eqn:Ed; [|destruct (c =? 46) eqn:E46; [|destruct (c =? 43) eqn:E43; [|discriminate]]].
  - (* digit *)
    assert (Hc : lead_ok c) by (now left).
    unfold after_lead in H.
    destruct (to_u64_t2 data (c - 48)) as [[lead rest0]| | | |] eqn:E; try discriminate. cbn [obind] in H.
    assert (Ha : c - 48 < U64_LIM) by (apply is_digit_range in Ed; unfold U64_LIM; lia).
    destruct (to_u64_t2_inv _ _ _ _ Ha E) as (ds & -> & Hd & Hs & Hv & Hl).
    destruct rest0 as [|x rest1].
    + rewrite app_nil_r. eapply ShapeInt; eauto.
    + destruct (x =? 46) eqn:Ex; [|discriminate]. apply N.eqb_eq in Ex. subst x.
      destruct (frac_result_inv _ _ _ _ Hl H) as [Hf Hne]. eapply ShapeFrac; eauto.
  - (* '.' *)
    apply N.eqb_eq in E46. subst c. unfold after_lead in H. cbn [obind] in H. rewrite N.eqb_refl in H.
    destruct (frac_result_inv _ _ _ _ H0 H) as [Hf Hne]. eapply ShapeDot; eauto.
  - (* '+' *)
    apply N.eqb_eq in E43. subst c.
    assert (Hc : lead_ok 43) by (now right).
    unfold after_lead in H.
    destruct (to_u64_t2 data 0) as [[lead rest0]| | | |] eqn:E; try discriminate. cbn [obind] in H.
    destruct (to_u64_t2_inv _ _ _ _ H0 E) as (ds & -> & Hd & Hs & Hv & Hl).
    destruct rest0 as [|x rest1].
    + rewrite app_nil_r. eapply ShapeInt; eauto.
    + destruct (x =? 46) eqn:Ex; [|discriminate]. apply N.eqb_eq in Ex. subst x.
      destruct (frac_result_inv _ _ _ _ Hl H) as [Hf Hne]. eapply ShapeFrac; eauto.
Qed.

Theorem to_f64_lang d r : to_f64 d = Ok r -> f64_shape d.
Proof.
  destruct d as [|c0 data0]; [discriminate|]. rewrite to_f64_unfold.
  destruct (c0 =? 45) eqn:E.
  - apply N.eqb_eq in E. subst c0. destruct data0 as [|c1 data1]; [discriminate|].
    intros H. exact (body_shape true c1 data1 r H).
  - intros H. exact (body_shape false c0 data0 r H).
Qed.

(* every accepted byte is a digit, '+', '-' or '.' *)
Lemma all_digits_In ds x : all_digits ds = true -> In x ds -> is_digit x = true.
Proof. unfold all_digits. rewrite forallb_forall. auto. Qed.

Theorem to_f64_foreign_refused d r :
  to_f64 d = Ok r -> forall x, In x d -> is_digit x = true \/ x = 43 \/ x = 45 \/ x = 46.
Proof.
  intros H x Hx. apply to_f64_lang in H.
  assert (Hs : forall neg, In x (sgn neg) -> x = 45) by (intros [|] Hi; cbn in Hi; intuition).
  destruct H as [neg c ds -> Hc Hd|neg c ds fs -> Hc Hd Hf _|neg fs -> Hf _];
    repeat (apply in_app_or in Hx as [Hx|Hx] || (cbn [In] in Hx; destruct Hx as [Hx|Hx])); subst;
    try (apply Hs in Hx; auto);
    try (destruct Hc as [Hc| ->]; now auto);
    try (left; eapply all_digits_In; [|eassumption]; assumption); auto.
Qed.

(* ================================================================== *)
(* Part B: floats                                                      *)
(* ================================================================== *)
Open Scope Z_scope.

Notation fexp64 := (FLT_exp (3 - 1024 - 53) 53).
Notation rnd64 := (round radix2 fexp64 (round_mode mode_NE)).
Notation B2R64 := (B2R 53 1024).
Notation finite64 := (is_finite 53 1024).

Local Instance prec53_gt_0 : Prec_gt_0 53 := eq_refl.
Local Instance fexp64_valid : Valid_exp fexp64 := FLT_exp_valid (3 - 1024 - 53) 53.

Lemma bpow1024 : bpow radix2 1024 = IZR (2 ^ 1024).
Proof. rewrite <- (IZR_Zpower radix2 1024) by lia. reflexivity. Qed.

(* integers m * 2^e with |m| < 2^53 are exactly representable *)
Lemma format_m2e m e : Z.abs m < 2 ^ 53 -> 0 <= e -> generic_format radix2 fexp64 (IZR (m * 2 ^ e)).
Proof.
  intros Hm He. apply generic_format_FLT. apply (FLT_spec _ _ _ _ (Float radix2 m e)).
  - unfold F2R. cbn [Fnum Fexp]. rewrite mult_IZR. f_equal. rewrite <- (IZR_Zpower radix2 e) by lia. reflexivity.
  - cbn [Fnum]. exact Hm.
  - cbn [Fexp]. lia.
Qed.

Lemma format_small z : Z.abs z < 2 ^ 53 -> generic_format radix2 fexp64 (IZR z).
Proof. intros H. replace z with (z * 2 ^ 0) by lia. now apply format_m2e. Qed.

(* the generic conversion lemma: value = rounded integer, finite, as long as |z| <= 2^e (e <= 1000) *)
Lemma f64_of_Z_round_gen e z :
  0 <= e <= 1000 -> Z.abs z <= 2 ^ e ->
  B2R64 (f64_of_Z z) = rnd64 (IZR z) /\ finite64 (f64_of_Z z) = true /\ (Rabs (B2R64 (f64_of_Z z)) <= IZR (2 ^ e))%R.
Proof.
  intros He Hb. unfold f64_of_Z.
  pose proof (binary_normalize_correct 53 1024 (@eq_refl _ Lt) (@eq_refl _ Lt) mode_NE z 0 false) as H.
  assert (HF : F2R (Float radix2 z 0) = IZR z) by (unfold F2R; cbn [Fnum Fexp bpow]; lra).
  rewrite HF in H.
  assert (Hle : (Rabs (rnd64 (IZR z)) <= IZR (2 ^ e))%R).
  { apply (abs_round_le_generic radix2 fexp64 (round_mode mode_NE)).
    - replace (2 ^ e) with (1 * 2 ^ e) by lia. apply format_m2e; [reflexivity|lia].
    - rewrite <- abs_IZR. now apply IZR_le. }
  rewrite Rlt_bool_true in H.
  - destruct H as (H1 & H2 & _). rewrite H1. auto.
  - eapply Rle_lt_trans; [exact Hle|]. rewrite bpow1024. apply IZR_lt.
    apply Z.pow_lt_mono_r; lia.
Qed.

Lemma f64_of_Z_round z :
  Z.abs z <= 2 ^ 64 ->
  B2R64 (f64_of_Z z) = rnd64 (IZR z) /\ finite64 (f64_of_Z z) = true /\ (Rabs (B2R64 (f64_of_Z z)) <= IZR (2 ^ 64))%R.
Proof. apply f64_of_Z_round_gen. lia. Qed.

Lemma f64_of_Z_exact z :
  generic_format radix2 fexp64 (IZR z) -> Z.abs z <= 2 ^ 80 ->
  B2R64 (f64_of_Z z) = IZR z /\ finite64 (f64_of_Z z) = true.
Proof.
  intros Hg Hb. destruct (f64_of_Z_round_gen 80 z ltac:(lia) Hb) as (H1 & H2 & _).
  rewrite round_generic in H1 by (auto with typeclass_instances). auto.
Qed.

(* the POWER_OF_TEN literals 1e0 .. 1e22 are exact *)
Lemma pow10_exact k : (k <= 22)%N -> B2R64 (pow10_f64 k) = IZR (10 ^ Z.of_N k) /\ finite64 (pow10_f64 k) = true.
Proof.
  intros Hk. unfold pow10_f64.
  assert (H5 : 5 ^ Z.of_N k <= 5 ^ 22) by (apply Z.pow_le_mono_r; lia).
  assert (H10 : 10 ^ Z.of_N k = 5 ^ Z.of_N k * 2 ^ Z.of_N k).
  { replace 10 with (5 * 2) by lia. apply Z.pow_mul_l. }
  assert (H10' : 10 ^ Z.of_N k <= 10 ^ 22) by (apply Z.pow_le_mono_r; lia).
  assert (Hpos : 0 < 5 ^ Z.of_N k) by (apply Z.pow_pos_nonneg; lia).
  apply f64_of_Z_exact.
  - rewrite H10. apply format_m2e; [|lia]. rewrite Z.abs_eq by lia. eapply Z.le_lt_trans; [exact H5|reflexivity].
  - assert (0 < 10 ^ Z.of_N k) by (apply Z.pow_pos_nonneg; lia). rewrite Z.abs_eq by lia.
    eapply Z.le_trans; [exact H10'|]. apply Zle_bool_imp_le. vm_compute. reflexivity.
Qed.

Lemma pow10_ge1 k : (1 <= IZR (10 ^ Z.of_N k))%R.
Proof. apply IZR_le. assert (0 < 10 ^ Z.of_N k) by (apply Z.pow_pos_nonneg; lia). lia. Qed.

(* sign * (i as f64 / 1e<k>), i < 2^64, k <= 22: finite, and its value *)
Lemma frac_value_spec neg i k :
  (i < U64_LIM)%N -> (k <= 22)%N ->
  finite64 (frac_value neg i k) = true /\
  B2R64 (frac_value neg i k) =
    ((if neg then -1 else 1) * rnd64 (rnd64 (IZR (Z.of_N i)) / IZR (10 ^ Z.of_N k)))%R.
Proof.
  intros Hi Hk. unfold frac_value, f64_div, f64_mul, b64_div, b64_mult.
  assert (Hiz : Z.abs (Z.of_N i) <= 2 ^ 64) by (unfold U64_LIM in Hi; lia).
  destruct (f64_of_Z_round (Z.of_N i) Hiz) as (Hx & Hxf & Hxb).
  destruct (pow10_exact k Hk) as (Hy & Hyf).
  pose proof (pow10_ge1 k) as Hy1.
  set (x := f64_of_Z (Z.of_N i)) in *. set (y := pow10_f64 k) in *.
  (* the division *)
  assert (Hyn : B2R64 y <> 0%R) by (rewrite Hy; lra).
  pose proof (Bdiv_correct 53 1024 (@eq_refl _ Lt) (@eq_refl _ Lt) binop_nan_pl64 mode_NE x y Hyn) as Hd.
  assert (Hq : (Rabs (B2R64 x / B2R64 y) <= IZR (2 ^ 64))%R).
  { rewrite Hy. unfold Rdiv. rewrite Rabs_mult, Rabs_inv by lra. rewrite (Rabs_pos_eq (IZR (10 ^ Z.of_N k))) by lra.
    eapply Rle_trans; [|exact Hxb].
    rewrite <- (Rmult_1_r (Rabs (B2R64 x))) at 2. apply Rmult_le_compat_l; [apply Rabs_pos|].
    rewrite <- Rinv_1. apply Rinv_le; lra. }
  assert (Hrq : (Rabs (rnd64 (B2R64 x / B2R64 y)) <= IZR (2 ^ 64))%R).
  { apply (abs_round_le_generic radix2 fexp64 (round_mode mode_NE)); [|exact Hq].
    replace (2 ^ 64) with (1 * 2 ^ 64) by lia. apply format_m2e; [reflexivity|lia]. }
  assert (H64 : (IZR (2 ^ 64) < bpow radix2 1024)%R) by (rewrite bpow1024; apply IZR_lt; reflexivity).
  rewrite Rlt_bool_true in Hd by (eapply Rle_lt_trans; [exact Hrq|exact H64]).
  destruct Hd as (Hdv & Hdf & _).
  set (dv := Bdiv 53 1024 (@eq_refl _ Lt) (@eq_refl _ Lt) binop_nan_pl64 mode_NE x y) in *.
  (* the sign *)
  set (sz := if neg then (-1)%Z else 1%Z).
  assert (Hsz : Z.abs sz < 2 ^ 53) by (destruct neg; reflexivity).
  destruct (f64_of_Z_exact sz (format_small sz Hsz) ltac:(destruct neg; apply Zle_bool_imp_le; vm_compute; reflexivity)) as (Hs & Hsf).
  set (s := f64_of_Z sz) in *.
  pose proof (Bmult_correct 53 1024 (@eq_refl _ Lt) (@eq_refl _ Lt) binop_nan_pl64 mode_NE s dv) as Hm.
  assert (Hprod : generic_format radix2 fexp64 (B2R64 s * B2R64 dv)).
  { rewrite Hs. destruct neg; unfold sz.
    - replace (IZR (-1) * B2R64 dv)%R with (- B2R64 dv)%R by lra. apply generic_format_opp. apply generic_format_B2R.
    - rewrite Rmult_1_l. apply generic_format_B2R. }
  rewrite round_generic in Hm by (auto with typeclass_instances).
  assert (Habs : (Rabs (B2R64 s * B2R64 dv) <= IZR (2 ^ 64))%R).
  { rewrite Rabs_mult, Hs. replace (Rabs (IZR sz)) with 1%R.
    - rewrite Rmult_1_l, Hdv. exact Hrq.
    - destruct neg; unfold sz; [rewrite Rabs_left; lra|rewrite Rabs_pos_eq; lra]. }
  rewrite Rlt_bool_true in Hm by (eapply Rle_lt_trans; [exact Habs|exact H64]).
  destruct Hm as (Hmv & Hmf & _).
  split.
  - transitivity (finite64 s && finite64 dv)%bool; [exact Hmf|]. rewrite Hsf, Hdf. exact Hxf.
  - transitivity (B2R64 s * B2R64 dv)%R; [exact Hmv|]. rewrite Hs, Hdv, Hx, Hy. destruct neg; reflexivity.
Qed.

(* never NaN, never infinite: every Ok result is finite *)
Theorem frac_value_finite neg i k : (i < U64_LIM)%N -> (k <= 22)%N -> finite64 (frac_value neg i k) = true.
Proof. intros Hi Hk. exact (proj1 (frac_value_spec neg i k Hi Hk)). Qed.

(* correct rounding: the digit integer is below 2^53, at most 22 fractional digits *)
Theorem frac_value_correctly_rounded neg i k :
  (i < 2 ^ 53)%N -> (k <= 22)%N ->
  B2R64 (frac_value neg i k) = rnd64 ((if neg then -1 else 1) * IZR (Z.of_N i) / IZR (10 ^ Z.of_N k)).
Proof.
  intros Hi Hk.
  assert (Hi' : (i < U64_LIM)%N) by (unfold U64_LIM; change (2 ^ 53)%N with 9007199254740992%N in Hi; lia).
  destruct (frac_value_spec neg i k Hi' Hk) as (_ & ->).
  assert (Hsmall : Z.abs (Z.of_N i) < 2 ^ 53).
  { change (2 ^ 53)%N with 9007199254740992%N in Hi. change (2 ^ 53) with 9007199254740992. lia. }
  rewrite (round_generic radix2 fexp64 (round_mode mode_NE) (IZR (Z.of_N i))) by (now apply format_small).
  destruct neg.
  - replace (-1 * IZR (Z.of_N i) / IZR (10 ^ Z.of_N k))%R with (- (IZR (Z.of_N i) / IZR (10 ^ Z.of_N k)))%R by (unfold Rdiv; lra).
    cbn [round_mode]. rewrite round_NE_opp. lra.
  - replace (1 * IZR (Z.of_N i) / IZR (10 ^ Z.of_N k))%R with (IZR (Z.of_N i) / IZR (10 ^ Z.of_N k))%R by (unfold Rdiv; lra).
    lra.
Qed.

(* integers within the guard are exact *)
Lemma int_value_exact z : Z.abs z <= F64_GUARD -> B2R64 (f64_of_Z z) = IZR z /\ finite64 (f64_of_Z z) = true.
Proof.
  intros H. change F64_GUARD with 9007199254740991 in H.
  apply f64_of_Z_exact; [apply format_small; change (2 ^ 53) with 9007199254740992; lia|].
  change (2 ^ 80) with 1208925819614629174706176. lia.
Qed.

Close Scope Z_scope.

(* ================================================================== *)
(* Part C: the property's clauses                                      *)
(* ================================================================== *)

(* integer guard: without '.', Ok iff |v| <= 2^53-1, and then the result is exactly v (and "-0" is +0) *)
Theorem to_f64_int_guard (neg : bool) c ds r :
  lead_ok c -> all_digits ds = true ->
  let lead := dec_acc ds (lead_val c) in
  let v := (if neg then - Z.of_N lead else Z.of_N lead)%Z in
  (to_f64 (sgn neg ++ c :: ds) = Ok r <-> (lead <= f64_int_guard /\ r = f64_of_Z v)) /\
  (lead <= f64_int_guard -> B2R 53 1024 (f64_of_Z v) = IZR v /\ is_finite 53 1024 (f64_of_Z v) = true).
Proof.
  intros Hc Hd lead v. split.
  - rewrite to_f64_int by assumption. fold lead.
    unfold int_result, F64_GUARD. change f64_int_guard with 9007199254740991 in *.
    change I64_MAX with 9223372036854775807. unfold U64_LIM.
    destruct (lead <? 18446744073709551616) eqn:E1.
    + destruct neg; unfold v.
      * destruct (lead <=? 9223372036854775807) eqn:E2.
        -- cbv zeta.
           destruct ((- Z.of_N lead <? - Z.of_N 9007199254740991)%Z || (Z.of_N 9007199254740991 <? - Z.of_N lead)%Z) eqn:E3.
           ++ split; [discriminate|]. intros [Hl _]. apply orb_prop in E3 as [E3|E3]; [apply Z.ltb_lt in E3|apply Z.ltb_lt in E3]; lia.
           ++ apply orb_false_iff in E3 as [E3 E4]. apply Z.ltb_ge in E3. split.
              ** intros H. injection H as <-. split; [lia|reflexivity].
              ** intros [_ ->]. reflexivity.
        -- apply N.leb_gt in E2. split; [discriminate|]. intros [Hl _]. lia.
      * destruct (Z.of_N 9007199254740991 <? Z.of_N lead)%Z eqn:E3.
        -- apply Z.ltb_lt in E3. split; [discriminate|]. intros [Hl _]. lia.
        -- apply Z.ltb_ge in E3. split.
           ++ intros H. injection H as <-. split; [lia|reflexivity].
           ++ intros [_ ->]. reflexivity.
    + apply N.ltb_ge in E1. split; [discriminate|]. intros [Hl _]. lia.
  - intros Hl. apply int_value_exact. unfold F64_GUARD. destruct neg; unfold v; lia.
Qed.

(* never NaN, never infinite *)
Theorem to_f64_finite d r : to_f64 d = Ok r -> is_finite 53 1024 r = true.
Proof.
  intros H. pose proof (to_f64_lang d r H) as Hs.
  destruct Hs as [neg c ds -> Hc Hd|neg c ds fs -> Hc Hd Hf Hne|neg fs -> Hf Hne].
  - destruct (to_f64_int_guard neg c ds r Hc Hd) as [Hiff Hex]. apply Hiff in H as [Hl ->]. now apply Hex.
  - rewrite to_f64_frac in H by assumption.
    destruct (dec_acc fs (dec_acc ds (lead_val c)) <? U64_LIM) eqn:E; [|discriminate].
    destruct (length fs <? 23)%nat eqn:Ek; [|discriminate]. injection H as <-.
    apply N.ltb_lt in E. apply Nat.ltb_lt in Ek. apply frac_value_finite; [assumption|lia].
  - rewrite to_f64_dot in H by assumption.
    destruct (dec fs <? U64_LIM) eqn:E; [|discriminate].
    destruct (length fs <? 23)%nat eqn:Ek; [|discriminate]. injection H as <-.
    apply N.ltb_lt in E. apply Nat.ltb_lt in Ek. apply frac_value_finite; [assumption|lia].
Qed.

(* correct rounding (IEEE round-to-nearest-even of the exact decimal value) when the digit integer
   is below 2^53 and there are at most 22 fractional digits *)
Theorem to_f64_correctly_rounded neg c ds fs :
  lead_ok c -> all_digits ds = true -> all_digits fs = true -> fs <> [] ->
  let i := dec_acc fs (dec_acc ds (lead_val c)) in
  i < 2 ^ 53 -> (length fs <= 22)%nat ->
  exists r, to_f64 (sgn neg ++ c :: ds ++ 46 :: fs) = Ok r /\ is_finite 53 1024 r = true /\
            B2R 53 1024 r = round radix2 (FLT_exp (3 - 1024 - 53) 53) (round_mode mode_NE)
                              ((if neg then -1 else 1) * IZR (Z.of_N i) / IZR (10 ^ Z.of_nat (length fs)))%R.
Proof.
  intros Hc Hd Hf Hne i Hi Hk. rewrite to_f64_frac by assumption. fold i.
  assert (Hi' : i < U64_LIM) by (unfold U64_LIM; change (2 ^ 53) with 9007199254740992 in Hi; lia).
  apply N.ltb_lt in Hi'. rewrite Hi'. apply N.ltb_lt in Hi'.
  replace (length fs <? 23)%nat with true by (symmetry; apply Nat.ltb_lt; lia).
  eexists. split; [reflexivity|]. split.
  - apply frac_value_finite; [assumption|lia].
  - rewrite frac_value_correctly_rounded by (auto; lia). rewrite nat_N_Z. reflexivity.
Qed.

Theorem to_f64_dot_correctly_rounded neg fs :
  all_digits fs = true -> fs <> [] -> dec fs < 2 ^ 53 -> (length fs <= 22)%nat ->
  exists r, to_f64 (sgn neg ++ 46 :: fs) = Ok r /\ is_finite 53 1024 r = true /\
            B2R 53 1024 r = round radix2 (FLT_exp (3 - 1024 - 53) 53) (round_mode mode_NE)
                              ((if neg then -1 else 1) * IZR (Z.of_N (dec fs)) / IZR (10 ^ Z.of_nat (length fs)))%R.
Proof.
  intros Hf Hne Hi Hk. rewrite to_f64_dot by assumption.
  assert (Hi' : dec fs < U64_LIM) by (unfold U64_LIM; change (2 ^ 53) with 9007199254740992 in Hi; lia).
  apply N.ltb_lt in Hi'. rewrite Hi'. apply N.ltb_lt in Hi'.
  replace (length fs <? 23)%nat with true by (symmetry; apply Nat.ltb_lt; lia).
  eexists. split; [reflexivity|]. split.
  - apply frac_value_finite; [assumption|lia].
  - rewrite frac_value_correctly_rounded by (auto; lia). rewrite nat_N_Z. reflexivity.
Qed.
