(* Proofs about write_tape (C14) that do not depend on the exact transition table / query sets:
   only on the table being total and on the entries write_tape can reach. *)
From JV Require Import Bytes Tables TextTok Date Writer.
Require Import Lia.
Open Scope N_scope.

Definition ws_next_spec (s : wstate) : wstate :=
  match s with
  | WError => WError
  | WKey => WKeyValueSeparator
  | WObjectValue => WKey
  | WKeyValueSeparator => WKey
  | WArrayValue => WArrayValue
  | WArrayValueFirst => WArrayValue
  | WFirstKey => WKeyValueSeparator
  | WFirstUnknown => WSecondUnknown
  | WSecondUnknown => WArrayValue
  end.

(* the table lookup never panics, whatever the table says (index in range, valid discriminant) *)
Lemma ws_next_total : forall s, exists s', ws_next s = Ok s'.
Proof. destruct s; eexists; reflexivity. Qed.

(* the states write_tape can be in (it never calls write_start) and their transitions *)
Definition tape_state (s : wstate) : bool :=
  match s with WError | WFirstUnknown | WSecondUnknown => false | _ => true end.
Lemma ws_next_tape_table : forall s, tape_state s = true -> ws_next s = Ok (ws_next_spec s).
Proof. destruct s; intros H; try discriminate; reflexivity. Qed.

Lemma firstn_repeat : forall {A} (x : A) n m, (n <= m)%nat -> firstn n (repeat x m) = repeat x n.
Proof.
  induction n; intros m H; [reflexivity|].
  destruct m; [lia|]. cbn [repeat firstn]. f_equal. apply IHn. lia.
Qed.

(* for EVERY indent char and factor (the 16-byte cache boundary is inside the quantifier) *)
Lemma write_indent_spec : forall c w,
  write_indent c w = repeat (indent_char c) (length (w_depth w) * N.to_nat (indent_factor c)).
Proof.
  intros c w. unfold write_indent.
  destruct (N.leb_spec (N.of_nat (length (w_depth w) * N.to_nat (indent_factor c))) writer_indent_cache) as [H|H].
  - apply firstn_repeat. lia.
  - reflexivity.
Qed.

Definition dep (w : wr) : nat := length (w_depth w).

(* "returns Ok with depth n" and its composition through `?` *)
Definition okd (r : wres) (n : nat) : Prop := match r with WOk w' _ => dep w' = n | _ => False end.

Lemma wbind_okd : forall r f n m, okd r n -> (forall w, dep w = n -> okd (f w) m) -> okd (wbind r f) m.
Proof.
  intros r f n m Hr Hf. destruct r as [w o|w o e|p s]; cbn [wbind okd] in *; try contradiction.
  specialize (Hf w Hr). destruct (f w); cbn [okd] in *; auto.
Qed.

Lemma write_preamble_okd : forall c w, okd (write_preamble c w) (dep w).
Proof.
  intros c [m d s n x]. unfold write_preamble.
  cbn [w_state w_nlt w_mixed set_nlt set_mixed].
  destruct s; cbn [no_data_yet]; try reflexivity;
    try (destruct n; try reflexivity; destruct x; reflexivity);
    match goal with |- context [if ?b then _ else _] => destruct b; reflexivity end.
Qed.
Lemma write_epilogue_okd : forall w, okd (write_epilogue w) (dep w).
Proof. intros w. unfold write_epilogue. destruct (ws_next_total (w_state w)) as [s' ->]. reflexivity. Qed.

Lemma write_raw_okd : forall c w d, okd (write_raw c w d) (dep w).
Proof.
  intros. unfold write_raw. eapply wbind_okd; [apply write_preamble_okd|intros w1 E1].
  eapply wbind_okd; [exact E1|intros w2 E2]. rewrite <- E2. apply write_epilogue_okd.
Qed.
Lemma write_quoted_okd : forall c w d, okd (write_quoted c w d) (dep w).
Proof.
  intros. unfold write_quoted. eapply wbind_okd; [apply write_preamble_okd|intros w1 E1].
  eapply wbind_okd; [exact E1|intros w2 E2]. rewrite <- E2. apply write_epilogue_okd.
Qed.
Lemma write_escaped_quotes_okd : forall c w d, okd (write_escaped_quotes c w d) (dep w).
Proof.
  intros. unfold write_escaped_quotes. eapply wbind_okd; [apply write_preamble_okd|intros w1 E1].
  eapply wbind_okd; [exact E1|intros w2 E2]. rewrite <- E2. apply write_epilogue_okd.
Qed.
Lemma write_header_okd : forall c w d, okd (write_header c w d) (dep w).
Proof. intros. unfold write_header. eapply wbind_okd; [apply write_preamble_okd|intros w1 E1]. exact E1. Qed.
Lemma write_start_okd : forall c w, okd (write_start c w) (S (dep w)).
Proof.
  intros. unfold write_start. eapply wbind_okd; [apply write_preamble_okd|intros w1 E1].
  cbn [emit okd]. unfold dep in *. cbn [w_depth length]. rewrite E1. reflexivity.
Qed.
Lemma write_object_start_okd : forall c w, okd (write_object_start c w) (S (dep w)).
Proof. intros. unfold write_object_start. eapply wbind_okd; [apply write_start_okd|intros w1 E1]. exact E1. Qed.
Lemma write_array_start_okd : forall c w, okd (write_array_start c w) (S (dep w)).
Proof. intros. unfold write_array_start. eapply wbind_okd; [apply write_start_okd|intros w1 E1]. exact E1. Qed.

Lemma write_end_depth : forall c w,
  match write_end c w with
  | WOk w' _ => dep w = S (dep w')
  | WErr w' o _ => w_depth w = [] /\ w' = w /\ o = []
  | WCrash _ _ => False
  end.
Proof. intros c w. unfold write_end, dep. destruct (w_depth w) eqn:E; cbn; auto. Qed.
Lemma write_end_okd : forall c w n, dep w = S n -> okd (write_end c w) n.
Proof.
  intros c w n H. pose proof (write_end_depth c w) as E. destruct (write_end c w); cbn [okd].
  - lia.
  - destruct E as [E _]. unfold dep in H. rewrite E in H. discriminate.
  - exact E.
Qed.
Lemma write_operator_okd : forall w o, okd (write_operator w o) (dep w).
Proof. intros. unfold write_operator. destruct (mmode_eqb _ _); reflexivity. Qed.
Lemma start_mixed_okd : forall w, okd (start_mixed_mode w) (dep w).
Proof. reflexivity. Qed.

(* ---------------------------------------------------------------- write_tape: balanced for every tape *)
(* Ok with depth n, or a crash outcome (malformed tape / fuel) -- but never an Err *)
Definition okdc (r : wres) (n : nat) : Prop :=
  match r with WOk w' _ => dep w' = n | WErr _ _ _ => False | WCrash _ _ => True end.

Lemma okd_okdc : forall r n, okd r n -> okdc r n.
Proof. intros [w o|w o e|p s] n H; cbn in *; auto. Qed.

Lemma wbind_okdc : forall r f n m, okdc r n -> (forall w, dep w = n -> okdc (f w) m) -> okdc (wbind r f) m.
Proof.
  intros r f n m Hr Hf. destruct r as [w o|w o e|p s]; cbn [wbind okdc] in *; try contradiction; auto.
  specialize (Hf w Hr). destruct (f w); cbn [okdc] in *; auto.
Qed.


Lemma okdc_eq : forall r n m, n = m -> okdc r n -> okdc r m.
Proof. intros; subst; auto. Qed.

Ltac okdc_prim :=
  first [ apply okd_okdc; first [ apply write_preamble_okd | apply write_raw_okd | apply write_escaped_quotes_okd
                                 | apply write_header_okd | apply write_array_start_okd | apply write_object_start_okd
                                 | apply write_operator_okd | apply start_mixed_okd ] ].

(* For EVERY tape (well formed or not), every job, state, configuration and fuel: the traversal
   never returns Err, and when it completes depth() is what it was: write_tape closes exactly the
   containers it opens. *)
Lemma wt_balanced : forall fuel c t j w, okdc (wt fuel c t j w) (dep w).
Proof.
  induction fuel as [|f IH]; intros c t j w; [exact I|].
  destruct j as [ti ei|vi|ti ei]; cbn [wt].
  - (* write_object_core *)
    destruct (ei <=? ti)%nat; [reflexivity|].
    destruct (tget t ti) as [ktok|]; [|exact I].
    assert (K : forall (this : wres) nti, okdc this (dep w) ->
              okdc (wbind this (fun w' => wt f c t (JCore nti ei) w')) (dep w)).
    { intros this nti H. eapply wbind_okdc; [exact H|]. intros w' E. rewrite <- E. apply IH. }
    assert (V : forall w1 vi, dep w1 = dep w -> okdc (wt f c t (JValue vi) w1) (dep w)).
    { intros w1 vi E. rewrite <- E. apply IH. }
    assert (OPV : forall (op : option operator) w1, dep w1 = dep w ->
              okdc (match op with Some o => write_operator w1 o | None => emit w1 [] end) (dep w)).
    { intros [o|] w1 E; [rewrite <- E; okdc_prim | exact E]. }
    assert (PAR : forall (open x : bytes) vi,
      okdc (wbind (write_preamble c w) (fun w1 =>
            wbind (emit w1 (open ++ x ++ PARAM_HEAD_END)) (fun w2 =>
            wbind (match tget t vi with
                   | None => WCrash true 10
                   | Some (TObject e _) => wbind (wt f c t (JCore (S vi) e) w2) (fun a => emit a ([NL] ++ write_indent c a))
                   | Some (TArray e _) => wbind (wt f c t (JCore e e) w2) (fun a => emit a ([NL] ++ write_indent c a))
                   | Some _ => wt f c t (JValue vi) w2
                   end) (fun w3 => emit w3 [RBRACKET])))) (dep w)).
    { intros open x vi. eapply wbind_okdc; [okdc_prim|]. intros w1 E1.
      eapply wbind_okdc; [exact E1|]. intros w2 E2.
      eapply wbind_okdc; [|intros w3 E3; exact E3].
      destruct (tget t vi) as [tk|]; [|exact I].
      destruct tk; try (apply V; exact E2);
        (eapply wbind_okdc; [apply IH|intros a Ea; congruence]). }
    destruct ktok; cbn [negb]; try (destruct (dbg c); [exact I|reflexivity]); try reflexivity;
      (destruct (tget t (S ti)) as [nt|]; [|exact I]);
      match goal with |- context [next_idx f t ?v] => destruct (next_idx f t v) as [nti|e1|s1|s1|] end;
      try exact I; apply K.
    + (* unquoted key *)
      eapply wbind_okdc; [okdc_prim|]. intros w1 E1.
      eapply wbind_okdc; [apply OPV; exact E1|]. intros w2 E2. apply V. exact E2.
    + (* quoted key *)
      eapply wbind_okdc; [okdc_prim|]. intros w1 E1.
      eapply wbind_okdc; [apply OPV; exact E1|]. intros w2 E2. apply V. exact E2.
    + apply PAR.
    + apply PAR.
  - (* write_value *)
    destruct (tget t vi) as [tk|]; [|exact I].
    destruct tk as [e m|e m| |x|x|x|x|o|i|x]; try exact I.
    + eapply wbind_okdc; [okdc_prim|]. intros w1 E1.
      eapply wbind_okdc; [apply IH|]. intros w2 E2.
      apply okd_okdc, write_end_okd. congruence.
    + eapply wbind_okdc; [okdc_prim|]. intros w1 E1.
      eapply wbind_okdc; [apply IH|]. intros w2 E2.
      apply okd_okdc, write_end_okd. congruence.
    + okdc_prim.
    + okdc_prim.
    + okdc_prim.
    + destruct (mmode_eqb (w_mixed w) MDisabled); reflexivity.
    + destruct (next_idx f t (S vi)) as [e|e1|s1|s1|]; try exact I.
      eapply wbind_okdc; [okdc_prim|]. intros w1 E1.
      destruct (negb (vi <? e)%nat); [exact I|].
      destruct (next_idx_values t vi) as [ti2|]; [|exact I].
      destruct (negb (ti2 <? e)%nat); [exact I|].
      destruct (next_idx_values t ti2); [|exact I].
      rewrite <- E1. apply IH.
  - (* the values loop of write_array *)
    destruct (ti <? ei)%nat; [|reflexivity].
    destruct (next_idx_values t ti) as [nti|]; [|exact I].
    eapply wbind_okdc; [apply IH|]. intros w1 E1. rewrite <- E1. apply IH.
Qed.

(* C14: write_tape never fails with an error and ends at depth 0, for every tape and configuration *)
Lemma write_tape_balanced : forall fuel c t, okdc (write_tape fuel c t) 0.
Proof. intros. apply (wt_balanced fuel c t (JCore 0 (length t)) wr_init). Qed.
