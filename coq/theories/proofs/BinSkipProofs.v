(* C09 (binary): skipping a container lands where balanced token reading lands.
   Device: [skip_item] = "one id plus its payload", a lexfn; both skip loops (Lexer::skip_container
   and TokenReader::skip_container) are shown to be iterations of it; a token is one item, except an
   rgb token which is 6 or 7 items that leave the depth unchanged. *)
From JV Require Import Bytes Tables BinPrim BufWin BinLexer BinReader.
From JV.proofs Require Import BinLexProofs BinRoundProofs BinStreamProofs.
From Coq Require Import List NArith ZArith Bool Lia Arith.
Import ListNotations.
Open Scope nat_scope.

Definition keep_id {A} (id : N) (o : outcome (A * bytes)) : outcome (N * bytes) :=
  omap (fun p => ((fun _ => id) (fst p), snd p)) o.

Definition skip_item (d : bytes) : outcome (N * bytes) :=
  obind (read_id d) (fun p => match p with (id, d1) =>
    if ((id =? L_QUOTED) || (id =? L_UNQUOTED))%N then keep_id id (read_string d1)
    else if (id =? L_U32)%N then keep_id id (read_u32 d1)
    else if (id =? L_I32)%N then keep_id id (read_i32 d1)
    else if (id =? L_U64)%N then keep_id id (read_u64 d1)
    else if (id =? L_I64)%N then keep_id id (read_i64 d1)
    else if (id =? L_BOOL)%N then keep_id id (read_bool d1)
    else if (id =? L_F32)%N then keep_id id (read_f32 d1)
    else if (id =? L_F64)%N then keep_id id (read_f64 d1)
    else Ok (id, d1) end).

Lemma lexfn_keep {A} id (f : bytes -> outcome (A * bytes)) : lexfn f -> lexfn (fun d => keep_id id (f d)).
Proof. intros H. unfold keep_id. apply (lexfn_map f (fun _ => id) H). Qed.

Lemma lexfn_skip_item : lexfn skip_item.
Proof.
  unfold skip_item. apply lexfn_bind; [apply lexfn_read_id|intros id].
  repeat (apply lexfn_if; [apply lexfn_keep|]); try apply lexfn_ret;
    first [apply lexfn_read_u32 | apply lexfn_read_u64 | apply lexfn_read_i32 | apply lexfn_read_bool
          | apply lexfn_read_string | apply lexfn_read_f32 | apply lexfn_read_f64 | apply lexfn_read_i64].
Qed.

Lemma skip_item_len d id d2 : skip_item d = Ok (id, d2) -> 2 + length d2 <= length d.
Proof.
  intros H. unfold skip_item in H.
  destruct (read_id d) as [[i d1]| | | |] eqn:E; cbn [obind] in H; try discriminate.
  apply read_id_len in E.
  assert (L : length d2 <= length d1).
  { apply (lexfn_len (fun d1 =>
      if ((i =? L_QUOTED) || (i =? L_UNQUOTED))%N then keep_id i (read_string d1)
      else if (i =? L_U32)%N then keep_id i (read_u32 d1)
      else if (i =? L_I32)%N then keep_id i (read_i32 d1)
      else if (i =? L_U64)%N then keep_id i (read_u64 d1)
      else if (i =? L_I64)%N then keep_id i (read_i64 d1)
      else if (i =? L_BOOL)%N then keep_id i (read_bool d1)
      else if (i =? L_F32)%N then keep_id i (read_f32 d1)
      else if (i =? L_F64)%N then keep_id i (read_f64 d1)
      else Ok (i, d1)) d1 id d2); [|exact H].
    repeat (apply lexfn_if; [apply lexfn_keep|]); try apply lexfn_ret;
    first [apply lexfn_read_u32 | apply lexfn_read_u64 | apply lexfn_read_i32 | apply lexfn_read_bool
          | apply lexfn_read_string | apply lexfn_read_f32 | apply lexfn_read_f64 | apply lexfn_read_i64]. }
  lia.
Qed.

Lemma skip_item_no_rgb_err d : skip_item d <> Err E_InvalidRgb.
Proof.
  unfold skip_item. destruct (read_id d) as [[id d1]|e| | |] eqn:E; cbn [obind]; try discriminate.
  - unfold keep_id, omap.
    repeat match goal with |- (if ?b then _ else _) <> _ => destruct b end; try discriminate.
    all: match goal with |- obind ?x _ <> _ =>
           let H := fresh in
           assert (H : (exists v r, x = Ok (v, r)) \/ x = Err E_LexEof \/ x = Err E_InvalidRgb)
             by first [apply (lf_total _ lexfn_read_string) | apply (lf_total _ lexfn_read_u32)
                      | apply (lf_total _ lexfn_read_i32) | apply (lf_total _ lexfn_read_u64)
                      | apply (lf_total _ lexfn_read_i64) | apply (lf_total _ lexfn_read_bool)
                      | apply (lf_total _ lexfn_read_f32) | apply (lf_total _ lexfn_read_f64)];
           destruct H as [[v [r H]]|[H|H]]; rewrite H; cbn [obind]; try discriminate end.
    all: exfalso; revert H; clear.
    all: first [ unfold read_string; destruct (get_split 2 d1) as [[? ?]|]; [destruct (Nat.leb _ _)|]; discriminate
               | unfold read_u32, read_i32, read_u64, read_i64, read_f32, read_f64;
                 match goal with |- context [get_split ?n ?x] => destruct (get_split n x) as [[? ?]|] end; discriminate
               | destruct d1; discriminate ].
  - unfold read_id in E. destruct (get_split 2 d) as [[? ?]|]; inversion E. discriminate.
Qed.

(* how an item changes the depth; None = the matching close *)
Definition item_next (depth : nat) (id : N) : option nat :=
  if (id =? L_CLOSE)%N then (if Nat.eqb depth 1 then None else Some (depth - 1))
  else if (id =? L_OPEN)%N then Some (S depth)
  else Some depth.

(* evaluate comparisons between concrete lexeme ids *)
Ltac eval_ids :=
  repeat match goal with
  | |- context [(?a =? ?b)%N] =>
      let v := eval vm_compute in (a =? b)%N in
      match v with true => idtac | false => idtac end;
      change (a =? b)%N with v
  end; cbn [orb].

(* case split on which lexeme an id is *)
Ltac case_id id L :=
  let E := fresh "E" in destruct (id =? L)%N eqn:E; [apply N.eqb_eq in E; subst id|].
Ltac split_ids id :=
  case_id id L_QUOTED; [|case_id id L_UNQUOTED; [|case_id id L_U32; [|case_id id L_I32; [|case_id id L_U64;
  [|case_id id L_I64; [|case_id id L_BOOL; [|case_id id L_F32; [|case_id id L_F64; [|case_id id L_CLOSE;
  [|case_id id L_OPEN]]]]]]]]]].

(* ---------- Lexer::skip_container is an iteration of skip_item ---------- *)
Lemma lx_step_item depth d id d2 :
  skip_item d = Ok (id, d2) ->
  lx_skip_step (depth, d) = match item_next depth id with Some depth' => inl (depth', d2) | None => inr (Ok tt, d2) end.
Proof.
  unfold skip_item, lx_skip_step, item_next. destruct (read_id d) as [[i d1]| | | |]; cbn [obind]; try discriminate.
  split_ids i; eval_ids; cbn [orb];
    repeat match goal with H : (_ =? _)%N = false |- _ => rewrite H; clear H end; cbn [orb].
  all: unfold keep_id, drop_val, lx_skip_pay, omap.
  all: try match goal with |- obind ?x _ = _ -> _ => destruct x as [[? ?]| | | |]; cbn [obind fst snd] end.
  all: intros H; inversion H; subst; eval_ids; try reflexivity.
  all: repeat match goal with H : (_ =? _)%N = false |- _ => rewrite H end; try reflexivity.
  destruct (Nat.eqb depth 1); reflexivity.
Qed.

Inductive isteps (c : nat) : nat -> bytes -> nat -> bytes -> Prop :=
| is_refl depth d : isteps c depth d depth d
| is_step depth d id d2 depth' depth'' d'' :
    skip_item d = Ok (id, d2) -> item_next depth id = Some depth' -> length d - length d2 <= c ->
    isteps c depth' d2 depth'' d'' -> isteps c depth d depth'' d''.

Lemma isteps_trans c depth d depth' d' depth'' d'' :
  isteps c depth d depth' d' -> isteps c depth' d' depth'' d'' -> isteps c depth d depth'' d''.
Proof. induction 1; intros; [assumption|]. eapply is_step; eauto. Qed.

Lemma isteps_len c depth d depth' d' : isteps c depth d depth' d' -> length d' <= length d.
Proof. induction 1; [lia|]. apply skip_item_len in H. lia. Qed.

Lemma isteps_lx_run c depth d depth' d' :
  isteps c depth d depth' d' -> forall f, length d < f ->
  exists f', length d' < f' /\ run_steps lx_skip_step f (depth, d) = run_steps lx_skip_step f' (depth', d').
Proof.
  induction 1; intros f Hf.
  - exists f. auto.
  - destruct f as [|f]; [lia|]. pose proof (skip_item_len _ _ _ H) as L.
    destruct (IHisteps f ltac:(lia)) as [f' [L' E']].
    exists f'. split; [assumption|]. rewrite <- E'. apply run_steps_inl.
    rewrite (lx_step_item _ _ _ _ H), H0. reflexivity.
Qed.

(* ---------- a token is one item; an rgb token is 6 or 7 items ---------- *)
Definition depth_after (t : btoken) (depth : nat) : nat :=
  match t with BClose => depth - 1 | BOpen => S depth | _ => depth end.

Definition tok_id (t : btoken) : N :=
  match t with
  | BOpen => L_OPEN | BClose => L_CLOSE | BEqual => L_EQUAL | BU32 _ => L_U32 | BU64 _ => L_U64 | BI32 _ => L_I32
  | BBool _ => L_BOOL | BQuoted _ => L_QUOTED | BUnquoted _ => L_UNQUOTED | BF32 _ => L_F32 | BF64 _ => L_F64
  | BRgb _ => L_RGB | BI64 _ => L_I64 | BId x => x
  end.

Lemma token_item d t r :
  read_token d = Ok (t, r) -> (forall c, t <> BRgb c) -> skip_item d = Ok (tok_id t, r).
Proof.
  intros H Hn. destruct (read_token_inv _ _ _ H) as [id [d1 [Ei Hs]]].
  unfold skip_item. rewrite Ei. cbn [obind].
  destruct t; cbn [tok_shape tok_id] in *; try (exfalso; eapply Hn; reflexivity).
  all: try (destruct Hs as [-> Hs]; eval_ids; unfold keep_id; try rewrite Hs; try subst; reflexivity).
  destruct Hs as [-> [Hi ->]]. apply is_id_false_all in Hi.
  destruct Hi as (E1&E2&E3&E4&E5&E6&E7&E8&E9&E10&E11&E12&E13).
  rewrite E8, E9, E4, E6, E5, E13, E7, E10, E11. reflexivity.
Qed.

Lemma item_next_plain depth id : id <> L_CLOSE -> id <> L_OPEN -> item_next depth id = Some depth.
Proof.
  intros A B. unfold item_next. apply N.eqb_neq in A, B. rewrite A, B. reflexivity.
Qed.

Lemma one_item_steps c depth d t r :
  read_token d = Ok (t, r) -> (forall x, t <> BRgb x) -> t <> BClose -> length d - length r <= c ->
  isteps c depth d (depth_after t depth) r.
Proof.
  intros H Hn Hc Hl. pose proof (token_item _ _ _ H Hn) as Hi.
  eapply is_step; [exact Hi| |exact Hl|apply is_refl].
  destruct t; cbn [tok_id depth_after]; try (apply item_next_plain; vm_compute; discriminate);
    try congruence.
  - unfold item_next. eval_ids. reflexivity.
  - (* BId x *)
    destruct (read_token_inv _ _ _ H) as [id [d1 [_ Hs]]]. cbn [tok_shape] in Hs. destruct Hs as [_ [Hid _]].
    apply is_id_false_all in Hid. destruct Hid as (E1&E2&_). unfold item_next. rewrite E2, E1. reflexivity.
Qed.

Lemma close_item_steps c depth d r :
  read_token d = Ok (BClose, r) -> 2 <= depth -> length d - length r <= c ->
  isteps c depth d (depth - 1) r.
Proof.
  intros H Hd Hl. assert (Hi : skip_item d = Ok (L_CLOSE, r)) by (apply (token_item d BClose r H); discriminate).
  eapply is_step; [exact Hi| |exact Hl|apply is_refl].
  unfold item_next. eval_ids. destruct depth as [|[|depth]]; try lia. reflexivity.
Qed.

(* read_rgb succeeded: its input is the token sequence Open U32 U32 U32 [U32] Close *)
Lemma read_rgb_tokens d1 c r :
  read_rgb d1 = Ok (c, r) ->
  exists d2 x1 d3 x2 d4 x3 d5,
    read_token d1 = Ok (BOpen, d2) /\ read_token d2 = Ok (BU32 x1, d3) /\ read_token d3 = Ok (BU32 x2, d4) /\
    read_token d4 = Ok (BU32 x3, d5) /\
    (read_token d5 = Ok (BClose, r) \/ exists x4 d6, read_token d5 = Ok (BU32 x4, d6) /\ read_token d6 = Ok (BClose, r)).
Proof.
  unfold read_rgb. intros H.
  destruct (read_id d1) as [[start a1]| | | |] eqn:E1; cbn [obind] in H; try discriminate.
  destruct (read_id a1) as [[rtok a2]| | | |] eqn:E2; cbn [obind] in H; try discriminate.
  destruct (read_u32 a2) as [[rv a3]| | | |] eqn:E3; cbn [obind] in H; try discriminate.
  destruct (read_id a3) as [[gtok a4]| | | |] eqn:E4; cbn [obind] in H; try discriminate.
  destruct (read_u32 a4) as [[gv a5]| | | |] eqn:E5; cbn [obind] in H; try discriminate.
  destruct (read_id a5) as [[btok a6]| | | |] eqn:E6; cbn [obind] in H; try discriminate.
  destruct (read_u32 a6) as [[bv a7]| | | |] eqn:E7; cbn [obind] in H; try discriminate.
  destruct (read_id a7) as [[next a8]| | | |] eqn:E8; cbn [obind] in H; try discriminate.
  destruct ((start =? L_OPEN)%N && (rtok =? L_U32)%N && (gtok =? L_U32)%N && (btok =? L_U32)%N) eqn:C; [|discriminate].
  apply andb_prop in C as [C C4]. apply andb_prop in C as [C C3]. apply andb_prop in C as [C1 C2].
  apply N.eqb_eq in C1, C2, C3, C4. subst.
  exists a1, rv, a3, gv, a5, bv, a7.
  assert (T : forall a b x y, read_id a = Ok (L_U32, b) -> read_u32 b = Ok (x, y) -> read_token a = Ok (BU32 x, y)).
  { intros a b x y A B. rewrite (rt_u32 _ _ A), B. reflexivity. }
  repeat split; try (eapply T; eassumption).
  - apply rt_open; assumption.
  - destruct (next =? L_CLOSE)%N eqn:N1.
    + apply N.eqb_eq in N1. subst. inversion H; subst. left. apply rt_close. assumption.
    + destruct (next =? L_U32)%N eqn:N2; [|discriminate]. apply N.eqb_eq in N2. subst.
      destruct (read_u32 a8) as [[av a9]| | | |] eqn:E9; cbn [obind] in H; try discriminate.
      destruct (read_id a9) as [[e a10]| | | |] eqn:E10; cbn [obind] in H; try discriminate.
      destruct (e =? L_CLOSE)%N eqn:N3; [|discriminate]. apply N.eqb_eq in N3. subst. inversion H; subst.
      right. exists av, a9. split; [eapply T; eassumption | apply rt_close; assumption].
Qed.

Lemma token_steps c depth d t r :
  read_token d = Ok (t, r) -> 1 <= depth -> length d - length r <= c ->
  (t = BClose /\ depth = 1 /\ skip_item d = Ok (L_CLOSE, r)) \/ isteps c depth d (depth_after t depth) r.
Proof.
  intros H Hd Hl.
  destruct t; try (right; apply one_item_steps; try assumption; discriminate).
  - (* Close *)
    destruct (Nat.eq_dec depth 1) as [->|Hn].
    + left. repeat split. apply (token_item d BClose r H). discriminate.
    + right. apply close_item_steps; try assumption. lia.
  - (* Rgb: the id is a plain item, then Open, three or four U32, Close *)
    right. cbn [depth_after].
    destruct (read_token_inv _ _ _ H) as [id [d1 [Ei Hs]]]. cbn [tok_shape] in Hs. destruct Hs as [-> Hr].
    destruct (read_rgb_tokens _ _ _ Hr) as (d2 & x1 & d3 & x2 & d4 & x3 & d5 & T1 & T2 & T3 & T4 & T5).
    pose proof (read_id_len _ _ _ Ei) as L0.
    pose proof (read_token_len _ _ _ T1) as L1. pose proof (read_token_len _ _ _ T2) as L2.
    pose proof (read_token_len _ _ _ T3) as L3. pose proof (read_token_len _ _ _ T4) as L4.
    assert (I0 : skip_item d = Ok (L_RGB, d1)).
    { unfold skip_item. rewrite Ei. cbn [obind]. eval_ids. reflexivity. }
    destruct T5 as [T5 | (x4 & d6 & T5 & T6)].
    + pose proof (read_token_len _ _ _ T5) as L5.
      eapply is_step; [exact I0 | apply item_next_plain; vm_compute; discriminate | lia |].
      eapply isteps_trans; [apply (one_item_steps c depth d1 BOpen d2 T1); try discriminate; lia|].
      eapply isteps_trans; [apply (one_item_steps c _ d2 (BU32 x1) d3 T2); try discriminate; lia|].
      eapply isteps_trans; [apply (one_item_steps c _ d3 (BU32 x2) d4 T3); try discriminate; lia|].
      eapply isteps_trans; [apply (one_item_steps c _ d4 (BU32 x3) d5 T4); try discriminate; lia|].
      cbn [depth_after].
      replace depth with (S depth - 1) at 2 by lia.
      apply close_item_steps; [assumption | lia | lia].
    + pose proof (read_token_len _ _ _ T5) as L5. pose proof (read_token_len _ _ _ T6) as L6.
      eapply is_step; [exact I0 | apply item_next_plain; vm_compute; discriminate | lia |].
      eapply isteps_trans; [apply (one_item_steps c depth d1 BOpen d2 T1); try discriminate; lia|].
      eapply isteps_trans; [apply (one_item_steps c _ d2 (BU32 x1) d3 T2); try discriminate; lia|].
      eapply isteps_trans; [apply (one_item_steps c _ d3 (BU32 x2) d4 T3); try discriminate; lia|].
      eapply isteps_trans; [apply (one_item_steps c _ d4 (BU32 x3) d5 T4); try discriminate; lia|].
      eapply isteps_trans; [apply (one_item_steps c _ d5 (BU32 x4) d6 T5); try discriminate; lia|].
      cbn [depth_after].
      replace depth with (S depth - 1) at 2 by lia.
      apply close_item_steps; [assumption | lia | lia].
Qed.

(* ---------- balanced token reading = items up to the matching close ---------- *)
Lemma tok_fits_size c d t r : tok_fits c d = true -> read_token d = Ok (t, r) -> length d - length r <= c.
Proof.
  unfold tok_fits. intros F E. rewrite E in F. cbn [is_eof] in F.
  destruct (Nat.le_gt_cases (length d) c) as [L|L]; [lia|].
  rewrite <- (firstn_skipn c d) in E.
  destruct (read_token_total (firstn c d)) as [[t' [r' E']]|[E'|E']].
  - rewrite (prefix_stable _ _ _ (skipn c d) E') in E. inversion E; subst.
    rewrite app_length, skipn_length. lia.
  - rewrite E' in F. cbn in F. discriminate.
  - rewrite (prefix_stable_invalid_rgb _ (skipn c d) E') in E. discriminate.
Qed.

Lemma balanced_items c : forall fb depth d r f,
  balanced_fuel fb depth d = Some r -> 1 <= depth -> fits_fuel f c d = true -> length d < f ->
  exists dl, isteps c depth d 1 dl /\ skip_item dl = Ok (L_CLOSE, r) /\ length dl - length r <= c.
Proof.
  induction fb as [|fb IH]; intros depth d r f Hb Hd Hf Hl; [discriminate|].
  cbn [balanced_fuel] in Hb.
  destruct f as [|f]; [lia|]. cbn [fits_fuel] in Hf. apply andb_prop in Hf as [Hf1 Hf2].
  destruct (read_token d) as [[t r1]| | | |] eqn:E; try discriminate.
  pose proof (tok_fits_size _ _ _ _ Hf1 E) as Hs. pose proof (read_token_len _ _ _ E) as Hl1.
  destruct (token_steps c depth d t r1 E Hd Hs) as [(-> & -> & Hi)|St].
  - cbn in Hb. inversion Hb; subst. exists d. repeat split; [apply is_refl | assumption | assumption].
  - assert (Hb' : balanced_fuel fb (depth_after t depth) r1 = Some r /\ 1 <= depth_after t depth).
    { destruct t; cbn [depth_after]; try (split; [exact Hb | lia]).
      destruct (Nat.eqb depth 1) eqn:D; [|split; [exact Hb | apply Nat.eqb_neq in D; lia]].
      (* a close at depth 1 was handled by the first branch of token_steps: here the item run exists too,
         but balanced reading has already stopped *)
      apply Nat.eqb_eq in D. subst. exfalso.
      (* isteps for Close at depth 1 cannot exist: item_next 1 CLOSE = None *)
      inversion St; subst.
      pose proof (token_item d BClose r1 E ltac:(discriminate)) as Hi. cbn [tok_id] in Hi.
      rewrite Hi in H. inversion H; subst. unfold item_next in H0. revert H0. eval_ids. cbn. discriminate. }
    destruct Hb' as [Hb' Hd'].
    destruct (IH _ _ _ f Hb' Hd' Hf2 ltac:(lia)) as [dl [S2 [Hi Hc]]].
    exists dl. repeat split; [eapply isteps_trans; eassumption | assumption | assumption].
Qed.

Lemma fits_big : forall f c d, length d < c -> fits_fuel f c d = true.
Proof.
  induction f as [|f IH]; intros c d L; [reflexivity|]. cbn [fits_fuel].
  assert (T : tok_fits c d = true).
  { unfold tok_fits. rewrite firstn_all2 by lia. destruct (is_eof (read_token d)); [apply Nat.ltb_lt; lia | reflexivity]. }
  rewrite T. cbn [andb]. destruct (read_token d) as [[t r]| | | |] eqn:E; try reflexivity.
  apply IH. apply read_token_len in E. lia.
Qed.

(* ---------- C09, lexer ---------- *)
Theorem lexer_skip_lands d r :
  balanced_read d = Some r -> skip_container_bytes d = (Ok tt, r).
Proof.
  unfold balanced_read, skip_container_bytes, lx_skip_fuel. intros Hb.
  destruct (balanced_items (S (length d)) _ _ _ _ (S (length d)) Hb (le_n 1)
              (fits_big _ _ _ (Nat.lt_succ_diag_r _)) (Nat.lt_succ_diag_r _)) as [dl [St [Hi _]]].
  destruct (isteps_lx_run _ _ _ _ _ St (S (length d)) (Nat.lt_succ_diag_r _)) as [f' [Lf E]].
  rewrite E. destruct f' as [|f']; [lia|].
  rewrite (run_steps_inr _ _ _ (Ok tt, r)); [reflexivity|].
  rewrite (lx_step_item _ _ _ _ Hi). unfold item_next. eval_ids. reflexivity.
Qed.

(* the same in terms of the Lexer cursor and byte positions *)
Theorem lexer_skip_value_open l r :
  balanced_read (lx_data l) = Some r ->
  lx_skip_value L_OPEN l = (Ok tt, mklx r (lx_orig l)).
Proof.
  intros H. unfold lx_skip_value. eval_ids. unfold lx_skip_container. rewrite (lexer_skip_lands _ _ H). reflexivity.
Qed.

(* a buffer larger than the whole input fits it *)
Lemma fits_whole cap input : length input < cap -> fits cap input = true.
Proof. intros H. unfold fits. apply fits_big. assumption. Qed.

(* a fitting capacity holds every token the slice lexer reads *)
Lemma fits_max_token : forall f cap d, fits_fuel f cap d = true -> max_token_fuel f d <= cap.
Proof.
  induction f as [|f IH]; intros cap d H; [cbn; lia|].
  cbn [fits_fuel max_token_fuel] in *. apply andb_prop in H as [H1 H2].
  destruct (read_token d) as [[t r]| | | |] eqn:E; try lia.
  pose proof (tok_fits_size _ _ _ _ H1 E). specialize (IH _ _ H2). lia.
Qed.
