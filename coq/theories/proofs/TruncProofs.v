(* C19 (text): how the tape parser's scanners and exit conditions behave on a truncated input. *)
From JV Require Import Bytes Tables TextTok TextTape.
From Coq Require Import Lia List Arith Bool.
Import ListNotations.
Open Scope nat_scope.

(* ---------- quoted scalars: a closing quote found in a prefix is the real one ---------- *)
Lemma tq_scan_prefix_gen n : forall h j k i, length h <= n ->
  tq_scan (firstn k h) j = Some i -> tq_scan h j = Some i.
Proof.
  induction n as [|n IH]; intros h j k i Hn.
  - destruct h; [|cbn in Hn; lia]. rewrite firstn_nil. cbn. discriminate.
  - destruct h as [|c h1]; [rewrite firstn_nil; cbn; discriminate|].
    destruct k as [|k]; [cbn; discriminate|].
    cbn [firstn tq_scan]. destruct (beq c 92) eqn:E92.
    + destruct h1 as [|x h2]; [rewrite firstn_nil; discriminate|].
      destruct k as [|k]; [cbn; discriminate|]. cbn [firstn].
      apply IH. cbn in Hn. lia.
    + destruct (beq c 34); [auto|]. apply IH. cbn in Hn. lia.
Qed.

Theorem tq_scan_prefix h k i : tq_scan (firstn k h) 0 = Some i -> tq_scan h 0 = Some i.
Proof. apply (tq_scan_prefix_gen (length h)). lia. Qed.

Lemma tq_scan_bound l j i : tq_scan l j = Some i -> j <= i < j + length l.
Proof.
  remember (length l) as n eqn:Hn. revert l j i Hn.
  induction n as [n IH] using lt_wf_ind. intros l j i Hn.
  destruct l as [|c l1]; [cbn; discriminate|]. cbn [tq_scan].
  destruct (beq c 92).
  - destruct l1 as [|x l2]; [discriminate|]. intros H.
    pose proof (IH (length l2) ltac:(subst n; cbn [length]; lia) l2 (S (S j)) i eq_refl H) as Hb.
    subst n. cbn [length]. lia.
  - destruct (beq c 34).
    + intros H. inversion H. subst n. cbn [length]. lia.
    + intros H.
      pose proof (IH (length l1) ltac:(subst n; cbn [length]; lia) l1 (S j) i eq_refl H) as Hb.
      subst n. cbn [length]. lia.
Qed.

(* a cut at or before the closing quote is an unterminated string; after it, nothing changes *)
Lemma tq_scan_cut_gen n : forall h j k i, length h <= n ->
  tq_scan h j = Some i ->
  (k <= i - j -> tq_scan (firstn k h) j = None) /\ (i - j < k -> tq_scan (firstn k h) j = Some i).
Proof.
  induction n as [|n IH]; intros h j k i Hn.
  - destruct h; [|cbn in Hn; lia]. cbn. discriminate.
  - destruct h as [|c h1]; [cbn; discriminate|].
    intros Hs. pose proof (tq_scan_bound _ _ _ Hs) as Hb. revert Hs. cbn [tq_scan].
    destruct (beq c 92) eqn:E92.
    + destruct h1 as [|x h2]; [discriminate|]. intros Hs.
      pose proof (tq_scan_bound _ _ _ Hs) as Hb2.
      destruct (IH h2 (S (S j)) (k - 2) i ltac:(cbn in Hn; lia) Hs) as [H1 H2].
      destruct k as [|[|k]].
      * split; [reflexivity|lia].
      * cbn [firstn tq_scan]. rewrite E92. split; [reflexivity|lia].
      * cbn [firstn tq_scan]. rewrite E92. replace (S (S k) - 2) with k in * by lia. split; intros; [apply H1|apply H2]; lia.
    + destruct (beq c 34) eqn:E34.
      * intros H. inversion H; subst. destruct k; [split; [reflexivity|lia]|].
        cbn [firstn tq_scan]. rewrite E92, E34. split; [lia|reflexivity].
      * intros Hs. pose proof (tq_scan_bound _ _ _ Hs) as Hb2.
        destruct (IH h1 (S j) (k - 1) i ltac:(cbn in Hn; lia) Hs) as [H1 H2].
        destruct k as [|k]; [split; [reflexivity|lia]|].
        cbn [firstn tq_scan]. rewrite E92, E34. replace (S k - 1) with k in * by lia. split; intros; [apply H1|apply H2]; lia.
Qed.

Theorem tq_scan_cut h k i :
  tq_scan h 0 = Some i ->
  (k <= i -> tq_scan (firstn k h) 0 = None) /\ (i < k -> tq_scan (firstn k h) 0 = Some i).
Proof.
  intros H. destruct (tq_scan_cut_gen (length h) h 0 k i (le_n _) H) as [H1 H2].
  split; intros; [apply H1|apply H2]; lia.
Qed.

(* ---------- unquoted scalars: the scalar of a truncated input is a prefix of the real one ---------- *)
Lemma find_idx_firstn p d k j :
  find_idx p (firstn k d) j =
  match find_idx p d j with Some i => if Nat.ltb (i - j) k then Some i else None | None => None end.
Proof.
  revert k j. induction d as [|c d IH]; intros k j.
  - rewrite firstn_nil. reflexivity.
  - destruct k as [|k].
    + cbn [firstn find_idx]. destruct (p c); [rewrite Nat.sub_diag; reflexivity|].
      destruct (find_idx p d (S j)); reflexivity.
    + cbn [firstn find_idx]. destruct (p c).
      * rewrite Nat.sub_diag. reflexivity.
      * rewrite IH. destruct (find_idx p d (S j)) as [i|] eqn:E; [|reflexivity].
        assert (S j <= i).
        { clear -E. revert j E. induction d as [|x d IHd]; intros j; cbn [find_idx]; [discriminate|].
          destruct (p x); [intros H; inversion H; lia|]. intros H. apply IHd in H. lia. }
        replace (i - S j) with (i - j - 1) by lia.
        destruct (Nat.ltb (i - j - 1) k) eqn:E1, (Nat.ltb (i - j) (S k)) eqn:E2; try reflexivity;
          apply Nat.ltb_lt in E1 || apply Nat.ltb_ge in E1; apply Nat.ltb_lt in E2 || apply Nat.ltb_ge in E2; lia.
Qed.

(* the byte-wise scalar boundary of a prefix never lies beyond the boundary of the whole input:
   a truncated unquoted scalar is a prefix of the original, never an extension or a merge *)
Theorem unquoted_cut d k :
  k <= length d -> 0 < k ->
  split_at_scalar_fallback_idx (firstn k d) = Nat.min k (split_at_scalar_fallback_idx d).
Proof.
  intros Hk H0. unfold split_at_scalar_fallback_idx. rewrite find_idx_firstn, firstn_length.
  replace (Nat.min k (length d)) with k by lia.
  destruct (find_idx is_boundary d 0) as [i|] eqn:E.
  - rewrite Nat.sub_0_r. destruct (Nat.ltb i k) eqn:E1.
    + apply Nat.ltb_lt in E1. lia.
    + apply Nat.ltb_ge in E1. lia.
  - lia.
Qed.

(* ---------- exit analysis: where the data may end ---------- *)
Theorem eof_mid_field s :
  skip_ws_t (pdata s) = None -> pst_ s <> SKey -> step s = Fail E_TextErr.
Proof.
  intros H Hs. unfold step. rewrite H. destruct (pst_ s); try reflexivity. congruence.
Qed.

(* at most ONE missing closing bracket is tolerated *)
Theorem eof_nested s :
  skip_ws_t (pdata s) = None -> pst_ s = SKey -> pparent s <> 0 -> slot (ptape s) (pparent s) <> 0 ->
  step s = Fail E_TextErr.
Proof.
  intros H Hs Hp Hg. unfold step. rewrite H, Hs.
  destruct (Nat.eqb (pparent s) 0) eqn:E1; [apply Nat.eqb_eq in E1; congruence|].
  destruct (Nat.eqb (slot (ptape s) (pparent s)) 0) eqn:E2; [apply Nat.eqb_eq in E2; congruence|].
  reflexivity.
Qed.

Theorem eof_top_level s :
  skip_ws_t (pdata s) = None -> pst_ s = SKey -> pparent s = 0 -> step s = Done (ptape s).
Proof. intros H Hs Hp. unfold step. rewrite H, Hs, Hp. reflexivity. Qed.

