(* Generic simulation theorem for SerdeShape.walk.

   Two deserializers [ops1] (a model of code) and [ops2] (the specification walk over documents)
   are related by
     R  phi s1 s2        cursor s1 stands for the document cursor s2 (phi = the frame: what follows)
     RT phi t1 s1 t2 s2  token t1, read leaving s1, stands for the value t2 followed by cursor s2
   If every primitive operation preserves the relations ([ops_sim]) -- except where the
   specification answers Err EC_UNFIT -- then the two walks compute the same value or the
   specification says UNFIT.  Proved once, for all shapes, by induction on the fuel. *)
From JV Require Import Bytes SerdeShape.
Open Scope N_scope.

Definition sim {A1 A2} (P : A1 -> A2 -> Prop) (o1 : outcome A1) (o2 : outcome A2) : Prop :=
  o2 = Err EC_UNFIT \/
  match o1, o2 with
  | Ok a1, Ok a2 => P a1 a2
  | Err e1, Err e2 => e1 = e2
  | Panic s1, Panic s2 => s1 = s2
  | OOB s1, OOB s2 => s1 = s2
  | OutOfFuel, OutOfFuel => True
  | _, _ => False
  end.

Lemma sim_bind {A1 A2 B1 B2} (P : A1 -> A2 -> Prop) (Q : B1 -> B2 -> Prop) o1 o2 f1 f2 :
  sim P o1 o2 -> (forall a1 a2, P a1 a2 -> sim Q (f1 a1) (f2 a2)) -> sim Q (obind o1 f1) (obind o2 f2).
Proof.
  intros [E|H] K.
  - left. subst. reflexivity.
  - destruct o1, o2; cbn in H; try contradiction; cbn [obind].
    + apply K, H.
    + right. exact H.
    + right. exact H.
    + right. exact H.
    + right. exact I.
Qed.

Lemma sim_ok {A1 A2} (P : A1 -> A2 -> Prop) a1 a2 : P a1 a2 -> sim P (Ok a1) (Ok a2).
Proof. intros H. right. exact H. Qed.
Lemma sim_err {A1 A2} (P : A1 -> A2 -> Prop) e : sim P (Err e) (Err e).
Proof. right. reflexivity. Qed.
Lemma sim_same {A} (P : A -> A -> Prop) (o : outcome A) : (forall a, P a a) -> sim P o o.
Proof. intros H. right. destruct o; auto. Qed.
Lemma sim_weaken {A1 A2} (P Q : A1 -> A2 -> Prop) o1 o2 :
  sim P o1 o2 -> (forall a1 a2, P a1 a2 -> Q a1 a2) -> sim Q o1 o2.
Proof.
  intros [E|H] K; [left; exact E|right].
  destruct o1, o2; cbn in *; auto.
Qed.

(* what the theorem is used for: the specification has an answer, then the model has the same *)
Lemma sim_eq_result {A} (o1 o2 : outcome A) : sim eq o1 o2 -> o2 <> Err EC_UNFIT -> o1 = o2.
Proof.
  intros [E|H] N; [contradiction|].
  destruct o1, o2; cbn in H; try contradiction; congruence.
Qed.

Section Sim.
  Context {S1 T1 S2 T2 C Phi : Type}.
  Variable F : fops.
  Variable ops1 : path_ops S1 T1 C.
  Variable ops2 : path_ops S2 T2 C.
  Variable R : Phi -> S1 -> S2 -> Prop.
  Variable RT : Phi -> T1 -> S1 -> T2 -> S2 -> Prop.
  Variable Done2 : S2 -> Prop.
  Variable IsRoot : bool -> Phi -> Prop.
  (* when two primitive visits count as the same for the visitors reached through a hint
     (equality for the path proofs; coarser for the encoding-independence theorem of C10) *)
  Variable PR : hint -> prim -> prim -> Prop.

  Definition act_rel (phi : Phi) (h : hint) (p1 : action S1 C * S1) (p2 : action S2 C * S2) : Prop :=
    match fst p1, fst p2 with
    | APrim a, APrim b => PR h a b /\ R phi (snd p1) (snd p2)
    | AColor a, AColor b => a = b /\ R phi (snd p1) (snd p2)
    | ASeq sub1, ASeq sub2 =>
      exists phi', R phi' sub1 sub2 /\
        forall sub1' sub2' dr, R phi' sub1' sub2' -> (dr = true -> Done2 sub2') -> (dr = false -> h = HSeq) ->
          sim (R phi) (p_seq_exit ops1 h (snd p1) sub1' dr) (p_seq_exit ops2 h (snd p2) sub2' dr)
    | AMap sub1, AMap sub2 =>
      exists phi', IsRoot false phi' /\ R phi' sub1 sub2 /\
        forall sub1' sub2', R phi' sub1' sub2' -> Done2 sub2' ->
          sim (R phi) (p_map_exit ops1 (snd p1) sub1') (p_map_exit ops2 (snd p2) sub2')
    | _, _ => False
    end.

  (* a token or the end of the access *)
  Definition tok_rel (phi : Phi) (p1 : option T1 * S1) (p2 : option T2 * S2) : Prop :=
    match fst p1, fst p2 with
    | None, None => R phi (snd p1) (snd p2) /\ Done2 (snd p2)
    | Some t1, Some t2 => RT phi t1 (snd p1) t2 (snd p2)
    | _, _ => False
    end.

  Record ops_sim : Prop := mk_ops_sim {
    H_disp : forall phi iskey h t1 s1 t2 s2, RT phi t1 s1 t2 s2 ->
             sim (act_rel phi h) (p_dispatch ops1 iskey h t1 s1) (p_dispatch ops2 iskey h t2 s2);
    H_elem : forall phi s1 s2, R phi s1 s2 -> sim (tok_rel phi) (p_next_elem ops1 s1) (p_next_elem ops2 s2);
    H_key : forall phi root s1 s2, IsRoot root phi -> R phi s1 s2 ->
            sim (tok_rel phi) (p_next_key ops1 root s1) (p_next_key ops2 root s2);
    H_val : forall phi s1 s2, R phi s1 s2 ->
            sim (fun p1 p2 => RT phi (fst p1) (snd p1) (fst p2) (snd p2)) (p_next_value ops1 s1) (p_next_value ops2 s2);
    H_color : forall n sh c, p_color ops1 n sh c = p_color ops2 n sh c;
    H_prim : forall sh p1 p2, PR (hint_of sh) p1 p2 -> visit_prim F sh p1 = visit_prim F sh p2;
    H_variant : forall vs p1 p2, PR HIdent p1 p2 -> visit_variant vs p1 = visit_variant vs p2;
    H_field : forall (tk : bool) fs p1 p2, PR (if tk then HU16 else HIdent) p1 p2 -> visit_field fs p1 = visit_field fs p2 }.

  Hypothesis OS : ops_sim.

  (* results of a walk: same value, related cursors *)
  Definition val_rel {V} (phi : Phi) (p1 : V * S1) (p2 : V * S2) : Prop :=
    fst p1 = fst p2 /\ R phi (snd p1) (snd p2).
  (* results of an element / key access *)
  Definition opt_rel {V} (phi : Phi) (p1 : option V * S1) (p2 : option V * S2) : Prop :=
    match fst p1, fst p2 with
    | None, None => R phi (snd p1) (snd p2) /\ Done2 (snd p2)
    | Some v1, Some v2 => v1 = v2 /\ R phi (snd p1) (snd p2)
    | _, _ => False
    end.

  Definition rec_rel (rec1 : bool -> shape -> T1 -> S1 -> outcome (dval * S1))
                     (rec2 : bool -> shape -> T2 -> S2 -> outcome (dval * S2)) : Prop :=
    forall phi iskey sh t1 s1 t2 s2, RT phi t1 s1 t2 s2 ->
      sim (val_rel phi) (rec1 iskey sh t1 s1) (rec2 iskey sh t2 s2).

  (* ---------------------------------------------------------------- sequences *)
  Section SeqSim.
    Variable phi : Phi.
    Variable elem1 : shape -> S1 -> outcome (option dval * S1).
    Variable elem2 : shape -> S2 -> outcome (option dval * S2).
    Hypothesis HE : forall s a1 a2, R phi a1 a2 -> sim (opt_rel phi) (elem1 s a1) (elem2 s a2).

    Definition done_rel {V} (p1 : V * S1) (p2 : V * S2) : Prop :=
      fst p1 = fst p2 /\ R phi (snd p1) (snd p2) /\ Done2 (snd p2).

    Lemma seq_loop_sim n s : forall a1 a2 acc, R phi a1 a2 ->
      sim done_rel (seq_loop elem1 n s a1 acc) (seq_loop elem2 n s a2 acc).
    Proof.
      induction n as [|n IH]; intros a1 a2 acc HR; cbn [seq_loop].
      - right. exact I.
      - eapply sim_bind; [apply HE, HR|].
        intros [o1 b1] [o2 b2] H. unfold opt_rel in H. cbn [fst snd] in H.
        destruct o1 as [v1|], o2 as [v2|]; try contradiction.
        + destruct H as [-> H]. apply IH, H.
        + apply sim_ok. split; [reflexivity|exact H].
    Qed.

    Lemma tup_loop_sim ss : forall a1 a2 acc, R phi a1 a2 ->
      sim (val_rel phi) (tup_loop elem1 ss a1 acc) (tup_loop elem2 ss a2 acc).
    Proof.
      induction ss as [|s ss IH]; intros a1 a2 acc HR; cbn [tup_loop].
      - apply sim_ok. split; [reflexivity|exact HR].
      - eapply sim_bind; [apply HE, HR|].
        intros [o1 b1] [o2 b2] H. unfold opt_rel in H. cbn [fst snd] in H.
        destruct o1 as [v1|], o2 as [v2|]; try contradiction.
        + destruct H as [-> H]. apply IH, H.
        + apply sim_err.
    Qed.

    (* value, cursor, drained flag *)
    Variable seq_hint : hint.
    Definition seq_res_rel (p1 : dval * S1 * bool) (p2 : dval * S2 * bool) : Prop :=
      fst (fst p1) = fst (fst p2) /\ snd p1 = snd p2 /\ R phi (snd (fst p1)) (snd (fst p2)) /\
      (snd p1 = true -> Done2 (snd (fst p2))) /\ (snd p1 = false -> seq_hint = HSeq).

    Lemma visit_seq_sim n sh a1 a2 : R phi a1 a2 -> seq_hint = hint_of sh ->
      sim seq_res_rel (visit_seq elem1 n sh a1) (visit_seq elem2 n sh a2).
    Proof.
      intros HR HH.
      assert (L : forall s (k : list dval -> dval),
        sim seq_res_rel (do (vs, a') <- seq_loop elem1 n s a1 []; Ok (k vs, a', true))
                        (do (vs, a') <- seq_loop elem2 n s a2 []; Ok (k vs, a', true))).
      { intros s k. eapply sim_bind; [apply seq_loop_sim, HR|].
        intros [vs1 b1] [vs2 b2] (E & H & D). cbn [fst snd] in *. subst.
        apply sim_ok. repeat split; auto. cbn. discriminate. }
      destruct sh; cbn [visit_seq]; try apply sim_err.
      - apply (L sh DSeq).
      - eapply sim_bind; [apply tup_loop_sim, HR|].
        intros [vs1 b1] [vs2 b2] (E & H). cbn [fst snd] in *. subst.
        apply sim_ok. repeat split; auto. cbn. discriminate.
      - apply (L ShAny DSeq).
      - apply (L ShIgn (fun _ => DIgn)).
    Qed.
  End SeqSim.

  (* ---------------------------------------------------------------- maps *)
  Section MapSim.
    Variable phi : Phi.
    Variable key1 : kseed -> S1 -> outcome (option kres * S1).
    Variable key2 : kseed -> S2 -> outcome (option kres * S2).
    Variable value1 : shape -> S1 -> outcome (dval * S1).
    Variable value2 : shape -> S2 -> outcome (dval * S2).
    Hypothesis HK : forall ks a1 a2, R phi a1 a2 -> sim (opt_rel phi) (key1 ks a1) (key2 ks a2).
    Hypothesis HV : forall s a1 a2, R phi a1 a2 -> sim (val_rel phi) (value1 s a1) (value2 s a2).

    Lemma map_loop_sim n s : forall a1 a2 acc, R phi a1 a2 ->
      sim (done_rel phi) (map_loop key1 value1 n s a1 acc) (map_loop key2 value2 n s a2 acc).
    Proof.
      induction n as [|n IH]; intros a1 a2 acc HR; cbn [map_loop].
      - right. exact I.
      - eapply sim_bind; [apply HK, HR|].
        intros [o1 b1] [o2 b2] H. unfold opt_rel in H. cbn [fst snd] in H.
        destruct o1 as [k1|], o2 as [k2|]; try contradiction.
        + destruct H as [-> H]. destruct k2; try (right; reflexivity).
          eapply sim_bind; [apply HV, H|].
          intros [v1 c1] [v2 c2] (E & H'). cbn [fst snd] in *. subst. apply IH, H'.
        + apply sim_ok. split; [reflexivity|exact H].
    Qed.

    Lemma amap_loop_sim n : forall a1 a2 acc, R phi a1 a2 ->
      sim (done_rel phi) (amap_loop key1 value1 n a1 acc) (amap_loop key2 value2 n a2 acc).
    Proof.
      induction n as [|n IH]; intros a1 a2 acc HR; cbn [amap_loop].
      - right. exact I.
      - eapply sim_bind; [apply HK, HR|].
        intros [o1 b1] [o2 b2] H. unfold opt_rel in H. cbn [fst snd] in H.
        destruct o1 as [k1|], o2 as [k2|]; try contradiction.
        + destruct H as [-> H]. destruct k2; try (right; reflexivity).
          eapply sim_bind; [apply HV, H|].
          intros [v1 c1] [v2 c2] (E & H'). cbn [fst snd] in *. subst. apply IH, H'.
        + apply sim_ok. split; [reflexivity|exact H].
    Qed.

    Lemma ign_loop_sim n : forall a1 a2, R phi a1 a2 ->
      sim (fun b1 b2 => R phi b1 b2 /\ Done2 b2) (ign_loop key1 value1 n a1) (ign_loop key2 value2 n a2).
    Proof.
      induction n as [|n IH]; intros a1 a2 HR; cbn [ign_loop].
      - right. exact I.
      - eapply sim_bind; [apply HK, HR|].
        intros [o1 b1] [o2 b2] H. unfold opt_rel in H. cbn [fst snd] in H.
        destruct o1 as [k1|], o2 as [k2|]; try contradiction.
        + destruct H as [-> H].
          eapply sim_bind; [apply HV, H|].
          intros [v1 c1] [v2 c2] (E & H'). cbn [fst snd] in *. apply IH, H'.
        + apply sim_ok. exact H.
    Qed.

    Lemma struct_loop_sim n tk fs : forall a1 a2 sl, R phi a1 a2 ->
      sim (done_rel phi) (struct_loop key1 value1 n tk fs a1 sl) (struct_loop key2 value2 n tk fs a2 sl).
    Proof.
      induction n as [|n IH]; intros a1 a2 sl HR; cbn [struct_loop].
      - right. exact I.
      - eapply sim_bind; [apply HK, HR|].
        intros [o1 b1] [o2 b2] H. unfold opt_rel in H. cbn [fst snd] in H.
        destruct o1 as [k1|], o2 as [k2|]; try contradiction.
        + destruct H as [-> H]. destruct k2 as [|i| |]; try (right; reflexivity).
          destruct i as [i|].
          * destruct (nth_error fs i) as [f|]; [|right; reflexivity].
            destruct (slot_pre sl (f_mode f) i); cbn [obind]; try (right; reflexivity); try (right; exact I).
            eapply sim_bind; [apply HV, H|].
            intros [v1 c1] [v2 c2] (E & H'). cbn [fst snd] in *. subst. apply IH, H'.
          * eapply sim_bind; [apply HV, H|].
            intros [v1 c1] [v2 c2] (E & H'). cbn [fst snd] in *. apply IH, H'.
        + apply sim_ok. split; [reflexivity|exact H].
    Qed.

    Lemma visit_map_sim n sh a1 a2 : R phi a1 a2 ->
      sim (done_rel phi) (visit_map key1 value1 n sh a1) (visit_map key2 value2 n sh a2).
    Proof.
      intros HR. destruct sh; cbn [visit_map]; try apply sim_err.
      - eapply sim_bind; [apply map_loop_sim, HR|].
        intros [x1 b1] [x2 b2] (E & H). cbn [fst snd] in *. subst. apply sim_ok. split; [reflexivity|exact H].
      - eapply sim_bind; [apply struct_loop_sim, HR|].
        intros [x1 b1] [x2 b2] (E & H). cbn [fst snd] in *. subst.
        destruct (slots_finish fields x2); cbn [obind]; try (right; reflexivity); try (right; exact I).
        apply sim_ok. split; [reflexivity|exact H].
      - eapply sim_bind; [apply amap_loop_sim, HR|].
        intros [x1 b1] [x2 b2] (E & H). cbn [fst snd] in *. subst. apply sim_ok. split; [reflexivity|exact H].
      - eapply sim_bind; [apply ign_loop_sim, HR|].
        intros b1 b2 H. apply sim_ok. split; [reflexivity|exact H].
    Qed.
  End MapSim.

  (* ---------------------------------------------------------------- accessors built from a related rec *)
  Section RecSim.
    Variable rec1 : bool -> shape -> T1 -> S1 -> outcome (dval * S1).
    Variable rec2 : bool -> shape -> T2 -> S2 -> outcome (dval * S2).
    Hypothesis HR : rec_rel rec1 rec2.

    Lemma elem_of_sim phi s a1 a2 : R phi a1 a2 ->
      sim (opt_rel phi) (elem_of ops1 rec1 s a1) (elem_of ops2 rec2 s a2).
    Proof.
      intros H. unfold elem_of. eapply sim_bind; [apply (H_elem OS), H|].
      intros [o1 b1] [o2 b2] K. unfold tok_rel in K. cbn [fst snd] in K.
      destruct o1 as [t1|], o2 as [t2|]; try contradiction.
      - eapply sim_bind; [apply HR, K|].
        intros [v1 c1] [v2 c2] (E & K'). cbn [fst snd] in *. subst. apply sim_ok. split; [reflexivity|exact K'].
      - apply sim_ok. exact K.
    Qed.

    Lemma value_of_sim phi s a1 a2 : R phi a1 a2 ->
      sim (val_rel phi) (value_of ops1 rec1 s a1) (value_of ops2 rec2 s a2).
    Proof.
      intros H. unfold value_of. eapply sim_bind; [apply (H_val OS), H|].
      intros [t1 b1] [t2 b2] K. cbn [fst snd] in K. apply HR, K.
    Qed.

    Lemma key_of_sim phi root ks a1 a2 : IsRoot root phi -> R phi a1 a2 ->
      sim (opt_rel phi) (key_of ops1 rec1 root ks a1) (key_of ops2 rec2 root ks a2).
    Proof.
      intros HI H. unfold key_of. eapply sim_bind; [apply (H_key OS); eassumption|].
      intros [o1 b1] [o2 b2] K. unfold tok_rel in K. cbn [fst snd] in K.
      destruct o1 as [t1|], o2 as [t2|]; try contradiction.
      2:{ apply sim_ok. exact K. }
      destruct ks.
      - eapply sim_bind; [apply HR, K|].
        intros [v1 c1] [v2 c2] (E & K'). cbn [fst snd] in *. subst.
        destruct v2; try (right; reflexivity). apply sim_ok. split; [reflexivity|exact K'].
      - eapply sim_bind; [apply (H_disp OS), K|].
        intros [x1 c1] [x2 c2] A. unfold act_rel in A. cbn [fst snd] in A.
        destruct x1, x2; try contradiction; try (right; reflexivity).
        destruct A as [EP A]. rewrite (H_field OS token fs _ _ EP).
        destruct (visit_field fs p0); cbn [obind]; try (right; reflexivity); try (right; exact I).
        apply sim_ok. split; [reflexivity|exact A].
      - eapply sim_bind; [apply HR, K|].
        intros [v1 c1] [v2 c2] (E & K'). cbn [fst snd] in *. subst. apply sim_ok. split; [reflexivity|exact K'].
      - eapply sim_bind; [apply HR, K|].
        intros [v1 c1] [v2 c2] (E & K'). cbn [fst snd] in *. apply sim_ok. split; [reflexivity|exact K'].
    Qed.

    Lemma walk_plain_sim f phi iskey sh t1 s1 t2 s2 : RT phi t1 s1 t2 s2 ->
      sim (val_rel phi) (walk_plain F ops1 rec1 f iskey sh t1 s1) (walk_plain F ops2 rec2 f iskey sh t2 s2).
    Proof.
      intros H. unfold walk_plain. eapply sim_bind; [apply (H_disp OS), H|].
      intros [x1 c1] [x2 c2] A. unfold act_rel in A. cbn [fst snd] in A.
      destruct x1, x2; try contradiction.
      - destruct A as [EP A]. rewrite (H_prim OS sh _ _ EP).
        destruct (visit_prim F sh p0); cbn [obind]; try (right; reflexivity); try (right; exact I).
        apply sim_ok. split; [reflexivity|exact A].
      - destruct A as (phi' & A & EX).
        eapply sim_bind; [apply (visit_seq_sim phi' _ _ (fun s a1 a2 => elem_of_sim phi' s a1 a2) (hint_of sh)); [exact A|reflexivity]|].
        intros [[v1 b1] d1] [[v2 b2] d2] (E1 & E2 & K & D & D'). cbn [fst snd] in *. subst.
        eapply sim_bind; [apply EX; assumption|].
        intros e1 e2 K'. apply sim_ok. split; [reflexivity|exact K'].
      - destruct A as [-> A]. rewrite (H_color OS).
        destruct (p_color ops2 f sh c0); cbn [obind]; try (right; reflexivity); try (right; exact I).
        apply sim_ok. split; [reflexivity|exact A].
      - destruct A as (phi' & IR & A & EX).
        eapply sim_bind; [apply (visit_map_sim phi');
          [intros; apply key_of_sim; assumption|intros; apply value_of_sim; assumption|exact A]|].
        intros [v1 b1] [v2 b2] (E & K & D). cbn [fst snd] in *. subst.
        eapply sim_bind; [apply EX; assumption|].
        intros e1 e2 K'. apply sim_ok. split; [reflexivity|exact K'].
    Qed.
  End RecSim.

  Lemma walk_enum_sim phi vs iskey t1 s1 t2 s2 : RT phi t1 s1 t2 s2 ->
    sim (val_rel phi) (walk_enum ops1 vs iskey t1 s1) (walk_enum ops2 vs iskey t2 s2).
  Proof.
    intros H. unfold walk_enum. eapply sim_bind; [apply (H_disp OS), H|].
    intros [x1 c1] [x2 c2] A. unfold act_rel in A. cbn [fst snd] in A.
    destruct x1, x2; try contradiction; try (right; reflexivity).
    destruct A as [EP A]. rewrite (H_variant OS vs _ _ EP).
    destruct (visit_variant vs p0); cbn [obind]; try (right; reflexivity); try (right; exact I).
    apply sim_ok. split; [reflexivity|exact A].
  Qed.

  Theorem walk_sim fuel : rec_rel (walk F ops1 fuel) (walk F ops2 fuel).
  Proof.
    induction fuel as [|f IH]; intros phi iskey sh t1 s1 t2 s2 H.
    - right. exact I.
    - destruct sh; cbn [walk];
        try (apply walk_plain_sim; [exact IH|exact H]).
      + eapply sim_bind; [apply IH, H|].
        intros [v1 c1] [v2 c2] (E & K). cbn [fst snd] in *. subst. apply sim_ok. split; [reflexivity|exact K].
      + right. reflexivity.
      + apply walk_enum_sim, H.
  Qed.

  Theorem walk_root_sim fuel phi sh s1 s2 : IsRoot true phi -> R phi s1 s2 ->
    sim eq (walk_root F ops1 fuel sh s1) (walk_root F ops2 fuel sh s2).
  Proof.
    intros HI H.
    assert (L : sim eq
      (do (v, _) <- visit_map (key_of ops1 (walk F ops1 fuel) true) (value_of ops1 (walk F ops1 fuel)) fuel sh s1; Ok v)
      (do (v, _) <- visit_map (key_of ops2 (walk F ops2 fuel) true) (value_of ops2 (walk F ops2 fuel)) fuel sh s2; Ok v)).
    { eapply sim_bind; [apply (visit_map_sim phi);
        [intros; apply key_of_sim; [apply walk_sim|assumption|assumption]
        |intros; apply value_of_sim; [apply walk_sim|assumption]|exact H]|].
      intros [v1 b1] [v2 b2] (E & _). cbn [fst] in E. subst. apply sim_ok. reflexivity. }
    destruct sh; cbn [walk_root]; try apply sim_err; try exact L.
    right. reflexivity.
  Qed.
End Sim.
