(* text/tape.rs scanners: the SSE2 block walks never change the answer of the byte-wise scans,
   for every length and every position of the interesting byte relative to the 16-byte blocks;
   skip_ws_t skips exactly a gap. *)
From JV Require Import Bytes Tables TextTok TextTape TextDoc.
From Coq Require Import Lia List Arith.
Import ListNotations.
Open Scope nat_scope.

(* ------------------------------------------------------------------ 1. SIMD compare set = class table *)
Lemma class_entries_lt256 :
  forallb (fun e => (fst e <? 256)%N) character_class_entries = true.
Proof. vm_compute. reflexivity. Qed.

Lemma is_boundary_lt256 b : is_boundary b = true -> (b < 256)%N.
Proof.
  unfold is_boundary, boundary_class.
  destruct (find (fun e => (fst e =? b)%N) character_class_entries) as [e|] eqn:F.
  - intros _. apply find_some in F. destruct F as [Hin Heq].
    pose proof (proj1 (forallb_forall _ _) class_entries_lt256 e Hin) as H.
    apply N.ltb_lt in H. apply N.eqb_eq in Heq. lia.
  - cbn. discriminate.
Qed.

Lemma simd_bytes_lt256 : forallb (fun x => (x <? 256)%N) simd_boundary_bytes = true.
Proof. vm_compute. reflexivity. Qed.

Lemma in_set_In s b : in_set s b = true <-> In b s.
Proof.
  unfold in_set. rewrite existsb_exists. split.
  - intros (x & Hin & Hx). apply N.eqb_eq in Hx. subst. exact Hin.
  - intros H. exists b. split; [exact H | apply N.eqb_refl].
Qed.

Lemma in_simd_lt256 b : in_set simd_boundary_bytes b = true -> (b < 256)%N.
Proof.
  intros H. apply in_set_In in H.
  pose proof (proj1 (forallb_forall _ _) simd_bytes_lt256 b H) as H'. apply N.ltb_lt in H'. exact H'.
Qed.

(* the complete finite domain: all 256 byte values *)
Lemma simd_table_256 :
  forallb (fun n => Bool.eqb (in_set simd_boundary_bytes (N.of_nat n)) (is_boundary (N.of_nat n))) (seq 0 256) = true.
Proof. vm_compute. reflexivity. Qed.

Lemma in_simd_is_boundary b : in_set simd_boundary_bytes b = is_boundary b.
Proof.
  destruct (N.ltb_spec b 256) as [Hlt|Hge].
  - pose proof (proj1 (forallb_forall _ _) simd_table_256 (N.to_nat b)) as H.
    cbv beta in H. rewrite N2Nat.id in H. apply Bool.eqb_prop. apply H. apply in_seq. lia.
  - destruct (in_set simd_boundary_bytes b) eqn:E1.
    + apply in_simd_lt256 in E1. lia.
    + destruct (is_boundary b) eqn:E2; [|reflexivity]. apply is_boundary_lt256 in E2. lia.
Qed.

Theorem simd_set_eq_class : forall b, In b simd_boundary_bytes <-> is_boundary b = true.
Proof. intros b. rewrite <- in_set_In, in_simd_is_boundary. reflexivity. Qed.

(* ------------------------------------------------------------------ generic list facts *)
Lemma find_idx_ext p q l k : (forall b, p b = q b) -> find_idx p l k = find_idx q l k.
Proof.
  intros H. revert k. induction l as [|c l IH]; intros k; cbn [find_idx]; [reflexivity|].
  rewrite H, IH. reflexivity.
Qed.

Lemma find_idx_app p a b k :
  find_idx p (a ++ b) k =
  match find_idx p a k with Some i => Some i | None => find_idx p b (k + length a) end.
Proof.
  revert k. induction a as [|c a IH]; intros k; cbn [app find_idx length].
  - rewrite Nat.add_0_r. reflexivity.
  - destruct (p c); [reflexivity|]. rewrite IH. replace (S k + length a) with (k + S (length a)) by lia. reflexivity.
Qed.

Lemma find_idx_bounds p l k i : find_idx p l k = Some i -> k <= i < k + length l.
Proof.
  revert k. induction l as [|c l IH]; intros k; cbn [find_idx length]; [discriminate|].
  destruct (p c).
  - intros H. inversion H. lia.
  - intros H. apply IH in H. lia.
Qed.

Lemma find_idx_shift p l k : find_idx p l k = option_map (fun i => i + k) (find_idx p l 0).
Proof.
  revert k. induction l as [|c l IH]; intros k; cbn [find_idx]; [reflexivity|].
  destruct (p c); [reflexivity|]. rewrite (IH (S k)), (IH 1).
  destruct (find_idx p l 0); cbn; [f_equal; lia | reflexivity].
Qed.

Lemma find_idx_none_forall p l k : find_idx p l k = None <-> forallb (fun b => negb (p b)) l = true.
Proof.
  revert k. induction l as [|c l IH]; intros k; cbn [find_idx forallb]; [tauto|].
  destruct (p c); cbn; [split; discriminate | apply IH].
Qed.

Lemma find_idx_some_hit p l k i : find_idx p l k = Some i ->
  exists a c b, l = a ++ c :: b /\ length a = i - k /\ p c = true /\ forallb (fun x => negb (p x)) a = true.
Proof.
  revert k. induction l as [|c l IH]; intros k; cbn [find_idx]; [discriminate|].
  destruct (p c) eqn:E.
  - intros H. inversion H. subst. exists [], c, l. cbn. rewrite Nat.sub_diag. auto.
  - intros H. pose proof (find_idx_bounds _ _ _ _ H) as Hb. destruct (IH _ H) as (a & c' & b & -> & Hl & Hp & Ha).
    exists (c :: a), c', b. cbn [app length forallb]. rewrite E, Ha. cbn. repeat split; auto. lia.
Qed.

Lemma firstn_add {A} a b (l : list A) : firstn (a + b) l = firstn a l ++ firstn b (skipn a l).
Proof.
  revert l. induction a as [|a IH]; intros l; cbn [Nat.add firstn skipn app]; [reflexivity|].
  destruct l as [|x l]; cbn [firstn skipn app].
  - rewrite firstn_nil. reflexivity.
  - rewrite IH. reflexivity.
Qed.

Lemma len_ind (P : bytes -> Prop) :
  (forall l, (forall l', length l' < length l -> P l') -> P l) -> forall l, P l.
Proof.
  intros H l. remember (length l) as n eqn:E. revert l E.
  induction n as [n IH] using lt_wf_ind. intros l E. apply H. intros l' Hl. apply (IH (length l')); [lia | reflexivity].
Qed.

(* ------------------------------------------------------------------ 2. split_at_scalar *)
(* index of the first boundary byte, or the length *)
Definition first_boundary (d : bytes) : nat :=
  match find_idx is_boundary d 0 with Some i => i | None => length d end.

(* the block walk, started at [ptr] with no hit before [ptr], only ever reports the first hit *)
Lemma simd_scan_first fuel : forall d ptr i,
  find_idx is_boundary (firstn ptr d) 0 = None ->
  simd_scan fuel d ptr = Some i -> find_idx is_boundary d 0 = Some i.
Proof.
  induction fuel as [|f IH]; intros d ptr i Hpre; [discriminate|].
  cbn [simd_scan].
  destruct (Nat.ltb ptr (length d - Nat.min 16 (length d))) eqn:Hlt; [|discriminate].
  apply Nat.ltb_lt in Hlt.
  assert (Hsplit : d = firstn ptr d ++ firstn 16 (skipn ptr d) ++ skipn 16 (skipn ptr d)).
  { rewrite (firstn_skipn 16 (skipn ptr d)), firstn_skipn. reflexivity. }
  assert (Hlen : length (firstn ptr d) = ptr) by (rewrite firstn_length; lia).
  rewrite (find_idx_ext _ _ _ _ in_simd_is_boundary).
  destruct (find_idx is_boundary (firstn 16 (skipn ptr d)) ptr) as [j|] eqn:Hblk.
  - intros H. inversion H. subst j.
    rewrite Hsplit, find_idx_app, Hpre, Hlen, find_idx_app. cbn [Nat.add]. rewrite Hblk. reflexivity.
  - intros H. apply IH in H; [exact H|].
    rewrite firstn_add, find_idx_app, Hpre, Hlen. exact Hblk.
Qed.

Lemma split_idx_spec d : split_idx d = Nat.max (first_boundary d) 1.
Proof.
  unfold split_idx, first_boundary.
  destruct (simd_scan (S (length d)) d 0) as [i|] eqn:E.
  - apply simd_scan_first in E; [|reflexivity]. rewrite E. reflexivity.
  - reflexivity.
Qed.

Theorem split_at_scalar_spec : forall d, d <> [] ->
  split_at_scalar d = Ok (firstn (Nat.max 1 (first_boundary d)) d, skipn (Nat.max 1 (first_boundary d)) d).
Proof.
  intros d Hd. destruct d as [|c d]; [congruence|].
  unfold split_at_scalar. rewrite split_idx_spec, Nat.max_comm. reflexivity.
Qed.

(* the form used by the token-step lemmas: a bare word followed by nothing or a boundary byte *)
Lemma first_boundary_word s rest :
  forallb (fun b => negb (is_boundary b)) s = true ->
  match rest with [] => True | c :: _ => is_boundary c = true end ->
  first_boundary (s ++ rest) = length s.
Proof.
  intros Hs Hr. unfold first_boundary. rewrite find_idx_app.
  rewrite (proj2 (find_idx_none_forall is_boundary s 0) Hs). cbn [Nat.add].
  destruct rest as [|c r]; cbn [find_idx].
  - rewrite app_length. cbn. lia.
  - rewrite Hr. reflexivity.
Qed.

Lemma split_at_scalar_word s rest :
  s <> [] ->
  forallb (fun b => negb (is_boundary b)) s = true ->
  match rest with [] => True | c :: _ => is_boundary c = true end ->
  split_at_scalar (s ++ rest) = Ok (s, rest).
Proof.
  intros Hne Hs Hr. rewrite split_at_scalar_spec by (destruct s; [congruence | discriminate]).
  rewrite first_boundary_word by assumption.
  assert (Nat.max 1 (length s) = length s) as -> by (destruct s; [congruence | cbn; lia]).
  rewrite firstn_app, Nat.sub_diag, firstn_all, skipn_app, Nat.sub_diag, skipn_all. cbn. rewrite app_nil_r. reflexivity.
Qed.

(* ------------------------------------------------------------------ 3. parse_quote_scalar *)
Definition no_bs (l : bytes) : bool := negb (existsb (fun b => beq b 92) l).

(* over a stretch without backslash the escape-aware scan is the plain search for the quote *)
Lemma tq_scan_app_plain a : forall b k,
  existsb (fun x => beq x 92) a = false ->
  tq_scan (a ++ b) k =
  match find_idx (fun x => beq x 34) a k with Some i => Some i | None => tq_scan b (k + length a) end.
Proof.
  induction a as [|c a IH]; intros b k H; cbn [app find_idx length].
  - rewrite Nat.add_0_r. reflexivity.
  - cbn [existsb] in H. apply Bool.orb_false_iff in H. destruct H as [Hc Ha].
    cbn [tq_scan]. rewrite Hc. destruct (beq c 34); [reflexivity|].
    rewrite IH by exact Ha. replace (S k + length a) with (k + S (length a)) by lia. reflexivity.
Qed.

Lemma pq_simd_sound fuel : forall h ptr i,
  existsb (fun x => beq x 92) (firstn ptr h) = false ->
  find_idx (fun x => beq x 34) (firstn ptr h) 0 = None ->
  pq_simd fuel h ptr = Some i -> tq_scan h 0 = Some i.
Proof.
  induction fuel as [|f IH]; intros h ptr i Hbs Hq; [discriminate|].
  cbn [pq_simd].
  destruct (Nat.ltb ptr (length h / 16 * 16)) eqn:Hlt; [|discriminate].
  apply Nat.ltb_lt in Hlt.
  assert (Hle : length h / 16 * 16 <= length h).
  { rewrite Nat.mul_comm. apply Nat.mul_div_le. lia. }
  assert (Hsplit : h = firstn ptr h ++ firstn 16 (skipn ptr h) ++ skipn 16 (skipn ptr h)).
  { rewrite (firstn_skipn 16 (skipn ptr h)), firstn_skipn. reflexivity. }
  assert (Hlen : length (firstn ptr h) = ptr) by (rewrite firstn_length; lia).
  destruct (existsb (fun b => beq b 92) (firstn 16 (skipn ptr h))) eqn:Hblkbs; [discriminate|].
  destruct (find_idx (fun b => beq b 34) (firstn 16 (skipn ptr h)) ptr) as [j|] eqn:Hblk.
  - intros H. inversion H. subst j.
    rewrite Hsplit, tq_scan_app_plain by exact Hbs. rewrite Hq, Hlen. cbn [Nat.add].
    rewrite tq_scan_app_plain by exact Hblkbs. rewrite Hblk. reflexivity.
  - intros H. apply IH in H; [exact H| |].
    + rewrite firstn_add, existsb_app, Hbs, Hblkbs. reflexivity.
    + rewrite firstn_add, find_idx_app, Hq, Hlen. exact Hblk.
Qed.

Theorem quote_scalar_spec : forall c h,
  parse_quote_scalar (c :: h) =
  match tq_scan h 0 with
  | Some i => Ok (firstn i h, skipn (S i) h)
  | None => Err E_TextErr
  end.
Proof.
  intros c h. cbn [parse_quote_scalar].
  destruct (pq_simd (S (length h)) h 0) as [i|] eqn:E; [|reflexivity].
  apply pq_simd_sound in E; [|reflexivity|reflexivity]. rewrite E. reflexivity.
Qed.

(* a well-formed quoted content followed by the closing quote is found whole *)
Lemma tq_scan_wf_quo s : forall rest k,
  wf_quo s = true -> tq_scan (s ++ 34%N :: rest) k = Some (k + length s).
Proof.
  induction s as [s IH] using len_ind.
  intros rest k H. destruct s as [|c s].
  - cbn. rewrite Nat.add_0_r. reflexivity.
  - cbn [wf_quo] in H. cbn [app tq_scan]. unfold beq. destruct (N.eqb c 92) eqn:E92.
    + destruct s as [|x s]; [discriminate|]. cbn [app].
      rewrite IH by (cbn; auto; lia). cbn [length]. f_equal. lia.
    + apply andb_prop in H. destruct H as [H34 H]. apply Bool.negb_true_iff in H34. rewrite H34.
      rewrite IH by (cbn; auto; lia). cbn [length]. f_equal. lia.
Qed.

Lemma parse_quote_scalar_wf s rest :
  wf_quo s = true -> parse_quote_scalar (34%N :: s ++ 34%N :: rest) = Ok (s, rest).
Proof.
  intros H. rewrite quote_scalar_spec, tq_scan_wf_quo by exact H. cbn [Nat.add].
  rewrite firstn_app, Nat.sub_diag, firstn_all. cbn [firstn]. rewrite app_nil_r.
  replace (S (length s)) with (length (s ++ [34%N])) by (rewrite app_length; cbn; lia).
  replace (s ++ 34%N :: rest) with ((s ++ [34%N]) ++ rest) by (rewrite <- app_assoc; reflexivity).
  rewrite skipn_app, Nat.sub_diag, skipn_all. reflexivity.
Qed.

(* ------------------------------------------------------------------ 4. skip_ws_t *)
Lemma skip_ws_comment body : forall rest,
  Forall (fun b => b <> 10%N) body -> skip_ws_c true (body ++ 10%N :: rest) = skip_ws_c false rest.
Proof.
  induction body as [|c body IH]; intros rest H; cbn [app skip_ws_c].
  - reflexivity.
  - inversion H; subst. unfold beq at 1. destruct (N.eqb_spec c 10); [congruence|]. apply IH. assumption.
Qed.

Theorem skip_ws_gap : forall gap rest, gap_ok gap -> skip_ws_t (gap ++ rest) = skip_ws_t rest.
Proof.
  intros gap rest H. unfold skip_ws_t. induction H as [|c g Hc Hg IH|body g Hb Hg IH]; cbn [app skip_ws_c].
  - reflexivity.
  - rewrite Hc. exact IH.
  - cbn. rewrite <- app_assoc. cbn [app]. rewrite skip_ws_comment by exact Hb. exact IH.
Qed.

Definition significant (c : N) : bool := negb (is_ws_t c) && negb (beq c 35).

Theorem skip_ws_significant : forall c rest, significant c = true -> skip_ws_t (c :: rest) = Some (c :: rest).
Proof.
  intros c rest H. unfold significant in H. apply andb_prop in H. destruct H as [H1 H2].
  apply Bool.negb_true_iff in H1, H2. unfold skip_ws_t. cbn [skip_ws_c]. rewrite H1, H2. reflexivity.
Qed.

Lemma skip_ws_gap_end gap : gap_ok gap -> skip_ws_t gap = None.
Proof. intros H. rewrite <- (app_nil_r gap), skip_ws_gap by exact H. reflexivity. Qed.

Lemma skip_ws_gap_sig gap c rest : gap_ok gap -> significant c = true ->
  skip_ws_t (gap ++ c :: rest) = Some (c :: rest).
Proof. intros Hg Hc. rewrite skip_ws_gap by exact Hg. apply skip_ws_significant. exact Hc. Qed.

(* skip_ws_t is idempotent: a state whose data already starts at the significant byte steps alike *)
Lemma skip_ws_c_some b d d' : skip_ws_c b d = Some d' -> skip_ws_t d' = Some d'.
Proof.
  revert b. induction d as [|c d IH]; intros b; cbn [skip_ws_c]; [discriminate|].
  destruct b.
  - destruct (beq c 10); apply IH.
  - destruct (is_ws_t c) eqn:E1; [apply IH|]. destruct (beq c 35) eqn:E2; [apply IH|].
    intros H. inversion H. subst. unfold skip_ws_t. cbn [skip_ws_c]. rewrite E1, E2. reflexivity.
Qed.

(* soundness of the decision procedure used in the examples *)
Lemma gap_okb_c_comment g : gap_okb_c true g = true ->
  exists body g', g = body ++ 10%N :: g' /\ Forall (fun b => b <> 10%N) body /\ gap_okb_c false g' = true.
Proof.
  induction g as [|c g IH]; cbn [gap_okb_c]; [discriminate|].
  destruct (N.eqb_spec c 10) as [->|Hne]; cbn [negb].
  - intros H. exists [], g. cbn. auto.
  - intros H. destruct (IH H) as (body & g' & -> & Hb & Hg). exists (c :: body), g'. cbn. auto.
Qed.

Lemma gap_okb_sound g : gap_okb g = true -> gap_ok g.
Proof.
  unfold gap_okb.
  induction g as [g IH] using len_ind.
  destruct g as [|c g]; [constructor|]. cbn [gap_okb_c].
  destruct (N.eqb_spec c 35) as [->|Hne].
  - intros H. destruct (gap_okb_c_comment _ H) as (body & g' & -> & Hb & Hg).
    apply gap_comment; [exact Hb|]. apply IH; [|exact Hg]. cbn. rewrite app_length. cbn. lia.
  - intros H. apply andb_prop in H. destruct H as [H1 H2]. apply gap_ws; [exact H1|]. apply IH; [cbn; lia | exact H2].
Qed.

Theorem skip_ws_spec : forall gap rest, gap_ok gap ->
  skip_ws_t (gap ++ rest) = skip_ws_t rest /\
  (forall c r, rest = c :: r -> is_ws_t c = false -> c <> 35%N -> skip_ws_t (gap ++ rest) = Some rest).
Proof.
  intros gap rest H. split; [apply skip_ws_gap; exact H|].
  intros c r -> Hws Hc. apply skip_ws_gap_sig; [exact H|].
  unfold significant, beq. rewrite Hws. destruct (N.eqb_spec c 35); [congruence | reflexivity].
Qed.
