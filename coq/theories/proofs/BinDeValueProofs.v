(* C04, "the value is the one encoded": what the SPECIFICATION walk (BinDoc.spec_value, the function the
   three deserializer walks are proved equal to in BinDeSpecProofs) returns, clause by clause, for a
   value met at ANY depth with ANY cursor:
     spec_scalar_value    a scalar token into a scalar target = serde's visitor of the target applied to the
                          token's own primitive (integers / booleans verbatim, floats through the flavor,
                          strings through the encoding, ids through resolver / strategy)
     the clause corollaries  spec_int_.., spec_bool_.., spec_float_.., spec_string_.., spec_id_..
     spec_option_present  Option targets: Some of the inner target's value, at any nesting
     spec_rgb_value       an rgb value is handed over as ColorSequence
     spec_ignored_value   an ignored value (IgnoredAny) yields nothing, whatever it is
     spec_struct_denotation  a struct target = the per-field effects folded over the fields in document order
                          (each field's effect is independent of its neighbours and of ghosts), then the
                          missing-field / Option-default pass. *)
From JV Require Import Bytes Tables BinPrim BufWin BinLexer BinReader BinTape SerdeShape BinDeCommon
  BinDeOndemand BinDeReader BinDeTape BinDoc.
From JV.proofs Require Import BinDeSim BinDocProofs BinDeSpecProofs.
Require Import Lia.
Open Scope N_scope.

Definition scalar_shape (sh : shape) : bool :=
  match sh with
  | ShStr | ShBool | ShU _ | ShI _ | ShF32 | ShF64 | ShDate | ShDateHour | ShAny => true
  | _ => false
  end.

(* the one scalar combination outside the specification (finding N) *)
Definition u16_on_id (sh : shape) (s : bscalar) : bool :=
  match sh, s with ShU bits, SId _ => bits =? 16 | _, _ => false end.

Section Value.
  Variable cfg : bcfg.
  Notation F := (c_fops cfg).
  Notation W := (walk F (ops_doc cfg)).

  Lemma dispatch_scalar_plain h s c :
    h <> HIgnored -> (forall id, h = HU16 -> s <> SId id) ->
    doc_dispatch cfg false h (VScalar s) c = do p <- scalar_prim cfg s; Ok (APrim p, c).
  Proof.
    intros NI NU. destruct h; try congruence; destruct s; try reflexivity.
    exfalso. exact (NU id eq_refl eq_refl).
  Qed.

  Theorem spec_scalar_value f sh s c :
    scalar_shape sh = true -> u16_on_id sh s = false ->
    W (S f) false sh (VScalar s) c = do p <- scalar_prim cfg s; do v <- visit_prim F sh p; Ok (v, c).
  Proof.
    intros SS NU.
    assert (E : W (S f) false sh (VScalar s) c = walk_plain F (ops_doc cfg) (W f) f false sh (VScalar s) c)
      by (destruct sh; try discriminate; reflexivity).
    rewrite E. unfold walk_plain. cbn [p_dispatch ops_doc].
    rewrite dispatch_scalar_plain.
    - destruct (scalar_prim cfg s) as [p| | | |]; cbn [obind]; try reflexivity.
    - destruct sh; try discriminate; cbn [hint_of]; try congruence;
        destruct (bits =? 8); try congruence; destruct (bits =? 16); try congruence; destruct (bits =? 32); congruence.
    - intros id H ->. destruct sh; try discriminate; cbn [hint_of] in H; try congruence.
      + cbn [u16_on_id] in NU. rewrite NU in H. destruct (bits =? 8); try congruence. destruct (bits =? 32); congruence.
      + destruct (bits =? 8); try congruence; destruct (bits =? 16); try congruence; destruct (bits =? 32); congruence.
  Qed.

  (* u16 on a token id in value position: outside the specification (the paths differ: finding N) *)
  Theorem spec_u16_on_id_unfit f id c :
    W (S f) false (ShU 16) (VScalar (SId id)) c = Err EC_UNFIT.
  Proof. reflexivity. Qed.

  (* ---- integers verbatim: the number the token carries, whatever integer token carries it, or a refusal
     when it does not fit the target's width ---- *)
  Theorem spec_int_signed f bits s z c : scalar_int s = Some z ->
    W (S f) false (ShI bits) (VScalar s) c = if in_i bits z then Ok (DI z, c) else Err EC_DE.
  Proof.
    intros E. rewrite spec_scalar_value; [|reflexivity|destruct s; reflexivity].
    destruct s; try discriminate; cbn [scalar_int] in E; injection E as <-; cbn [scalar_prim obind visit_prim prim_int];
      destruct (in_i bits _); reflexivity.
  Qed.

  Theorem spec_int_unsigned f bits s z c : scalar_int s = Some z ->
    W (S f) false (ShU bits) (VScalar s) c = if in_u bits z then Ok (DU (Z.to_N z), c) else Err EC_DE.
  Proof.
    intros E. rewrite spec_scalar_value; [|reflexivity|destruct s; try reflexivity; discriminate].
    destruct s; try discriminate; cbn [scalar_int] in E; injection E as <-; cbn [scalar_prim obind visit_prim prim_int];
      destruct (in_u bits _); reflexivity.
  Qed.

  (* a dynamically typed target sees the token's own signedness *)
  Theorem spec_int_any f s z c : scalar_int s = Some z ->
    W (S f) false ShAny (VScalar s) c =
      match s with SU32 _ | SU64 _ => Ok (DU (Z.to_N z), c) | _ => Ok (DI z, c) end.
  Proof.
    intros E. rewrite spec_scalar_value; [|reflexivity|destruct s; reflexivity].
    destruct s; try discriminate; cbn [scalar_int] in E; injection E as <-; cbn [scalar_prim obind visit_prim];
      rewrite ?N2Z.id; reflexivity.
  Qed.

  (* ---- booleans verbatim; no integer, string or float is taken for a boolean ---- *)
  Theorem spec_bool_verbatim f b c : W (S f) false ShBool (VScalar (SBool b)) c = Ok (DBool b, c).
  Proof. rewrite spec_scalar_value; reflexivity. Qed.

  Theorem spec_bool_only_from_bool f s c v : W (S f) false ShBool (VScalar s) c = Ok v ->
    exists b, s = SBool b /\ v = (DBool b, c).
  Proof.
    rewrite spec_scalar_value; [|reflexivity|destruct s; reflexivity].
    destruct s; cbn [scalar_prim obind visit_prim]; try discriminate.
    - unfold id_prim. destruct (c_resolve cfg id); [discriminate|]. destruct (c_strategy cfg); discriminate.
    - unfold str_prim. destruct (c_decode cfg s); discriminate.
    - unfold str_prim. destruct (c_decode cfg s); discriminate.
    - intros E. injection E as <-. eauto.
  Qed.

  Theorem spec_int_not_from_bool f bits b c :
    W (S f) false (ShI bits) (VScalar (SBool b)) c = Err EC_DE /\ W (S f) false (ShU bits) (VScalar (SBool b)) c = Err EC_DE.
  Proof. split; rewrite spec_scalar_value; reflexivity. Qed.

  (* ---- floats through the flavor (and serde's widening / narrowing casts for the other width) ---- *)
  Theorem spec_float_f32 f x c : W (S f) false ShF32 (VScalar (SF32 x)) c = Ok (DF32 (c_f32 cfg x), c).
  Proof. rewrite spec_scalar_value; reflexivity. Qed.
  Theorem spec_float_f64 f x c : W (S f) false ShF64 (VScalar (SF64 x)) c = Ok (DF64 (c_f64 cfg x), c).
  Proof. rewrite spec_scalar_value; reflexivity. Qed.
  Theorem spec_float_widen f x c : W (S f) false ShF64 (VScalar (SF32 x)) c = Ok (DF64 (f64_of_f32 F (c_f32 cfg x)), c).
  Proof. rewrite spec_scalar_value; reflexivity. Qed.
  Theorem spec_float_narrow f x c : W (S f) false ShF32 (VScalar (SF64 x)) c = Ok (DF32 (f32_of_f64 F (c_f64 cfg x)), c).
  Proof. rewrite spec_scalar_value; reflexivity. Qed.
  Theorem spec_float_any f x c :
    W (S f) false ShAny (VScalar (SF32 x)) c = Ok (DF32 (c_f32 cfg x), c) /\
    W (S f) false ShAny (VScalar (SF64 x)) c = Ok (DF64 (c_f64 cfg x), c).
  Proof. split; rewrite spec_scalar_value; reflexivity. Qed.
  Theorem spec_float_from_int f s z c : scalar_int s = Some z ->
    W (S f) false ShF64 (VScalar s) c = Ok (DF64 (f64_of_int F z), c) /\
    W (S f) false ShF32 (VScalar s) c = Ok (DF32 (f32_of_int F z), c).
  Proof.
    intros E. split; (rewrite spec_scalar_value; [|reflexivity|destruct s; reflexivity]);
      destruct s; try discriminate; cbn [scalar_int] in E; injection E as <-; reflexivity.
  Qed.

  (* ---- strings through the encoding ---- *)
  Theorem spec_string_decoded f x c :
    W (S f) false ShStr (VScalar (SQuoted x)) c = (do s <- c_decode cfg x; Ok (DStr s, c)) /\
    W (S f) false ShStr (VScalar (SUnquoted x)) c = (do s <- c_decode cfg x; Ok (DStr s, c)).
  Proof.
    split; (rewrite spec_scalar_value; [|reflexivity|reflexivity]); cbn [scalar_prim]; unfold str_prim;
      destruct (c_decode cfg x); reflexivity.
  Qed.

  (* ---- token ids through the resolver, or the configured fallback ---- *)
  Theorem spec_id_resolved f id name c : c_resolve cfg id = Some name ->
    W (S f) false ShStr (VScalar (SId id)) c = Ok (DStr name, c).
  Proof. intros E. rewrite spec_scalar_value; [|reflexivity|reflexivity]. cbn [scalar_prim]. unfold id_prim. rewrite E. reflexivity. Qed.

  Theorem spec_id_unresolved f id c : c_resolve cfg id = None ->
    W (S f) false ShStr (VScalar (SId id)) c =
      match c_strategy cfg with
      | SError => Err EC_UNKTOKEN
      | SStringify => Ok (DStr (stringify_id id), c)
      | SIgnore => Ok (DStr IGNORE_ID, c)
      end.
  Proof.
    intros E. rewrite spec_scalar_value; [|reflexivity|reflexivity]. cbn [scalar_prim]. unfold id_prim. rewrite E.
    destruct (c_strategy cfg); reflexivity.
  Qed.

  (* an enum target: the same string, matched against the variant names *)
  Theorem spec_id_enum f id name vs c : c_resolve cfg id = Some name ->
    W (S f) false (ShEnum vs) (VScalar (SId id)) c = if existsb (beqb name) vs then Ok (DEnum name, c) else Err EC_DE.
  Proof.
    intros E. cbn [walk]. unfold walk_enum. cbn [p_dispatch ops_doc doc_dispatch scalar_prim]. unfold id_prim. rewrite E.
    cbn [obind visit_variant]. destruct (existsb (beqb name) vs); reflexivity.
  Qed.

  (* ---- Options present: Some of what the inner target gives, at any nesting depth ---- *)
  Theorem spec_option_present f sh v c :
    W (S f) false (ShOpt sh) v c = do r <- W f false sh v c; Ok (DSome (fst r), snd r).
  Proof. cbn [walk]. destruct (W f false sh v c) as [[x c']| | | |]; reflexivity. Qed.

  Theorem spec_option_nested f sh v c :
    W (S (S f)) false (ShOpt (ShOpt sh)) v c = do r <- W f false sh v c; Ok (DSome (DSome (fst r)), snd r).
  Proof. rewrite spec_option_present, spec_option_present. destruct (W f false sh v c) as [[x c']| | | |]; reflexivity. Qed.

  (* ---- rgb: the target's visitor receives ColorSequence (C04_rgb_components_* say what that yields) ---- *)
  Theorem spec_rgb_value f sh col c :
    match sh with ShSeq _ | ShTup _ | ShAny => True | _ => False end ->
    W (S f) false sh (VRgb col) c = do v <- color_visit cfg f sh col; Ok (v, c).
  Proof.
    intros H. destruct sh; try contradiction; cbn [walk]; unfold walk_plain; cbn [hint_of p_dispatch ops_doc doc_dispatch obind p_color];
      destruct (color_visit cfg f _ col); reflexivity.
  Qed.

  (* ---- an ignored value: nothing of it is looked at ---- *)
  Theorem spec_ignored_value f v c : W (S f) false ShIgn v c = Ok (DIgn, c).
  Proof.
    cbn [walk]. unfold walk_plain. cbn [hint_of p_dispatch ops_doc].
    destruct v as [s| | |]; try reflexivity.
  Qed.

  (* ---- struct targets: fold of the per-field effects ---- *)
  Variable fuel : nat.
  Variable tk : bool.
  Variable fields : list field.

  Fixpoint fields_eff (fs : list bfield) (sl : slots) : outcome slots :=
    match fs with
    | [] => Ok sl
    | x :: r => do sl' <- field_eff cfg fuel tk fields x sl; fields_eff r sl'
    end.

  Local Open Scope nat_scope.
  Lemma struct_loop_fold g : forall l n sl, length l < n ->
    struct_loop (key_of (ops_doc cfg) (W fuel) true) (value_of (ops_doc cfg) (W fuel)) n tk fields (CMap l g None) sl
    = do sl' <- fields_eff l sl; Ok (sl', CDone).
  Proof.
    induction l as [|x r IH]; intros n sl L; (destruct n as [|n]; [cbn in L; lia|]).
    - reflexivity.
    - rewrite loop_step. cbn [fields_eff]. destruct (field_eff cfg fuel tk fields x sl); cbn [obind]; try reflexivity.
      apply IH. cbn [length] in L. lia.
  Qed.

  Theorem spec_struct_denotation fs g : length fs < fuel ->
    spec_value cfg fuel (ShStruct tk fields) fs g =
    do sl <- fields_eff fs (slots_init fields); do out <- slots_finish fields sl; Ok (DStruct out).
  Proof.
    intros L. unfold spec_value, walk_root. cbn [visit_map]. rewrite (struct_loop_fold g fs fuel _ L).
    destruct (fields_eff fs (slots_init fields)) as [sl| | | |]; cbn [obind]; try reflexivity.
    destruct (slots_finish fields sl); reflexivity.
  Qed.

  (* hence: neither ghost flag matters, and a struct target sees the fields one by one *)
  Theorem spec_struct_ghost_irrelevant fs g g' : length fs < fuel ->
    spec_value cfg fuel (ShStruct tk fields) fs g = spec_value cfg fuel (ShStruct tk fields) fs g'.
  Proof. intros L. rewrite !spec_struct_denotation by exact L. reflexivity. Qed.

  Theorem fields_eff_app l1 l2 sl :
    fields_eff (l1 ++ l2) sl = do sl' <- fields_eff l1 sl; fields_eff l2 sl'.
  Proof.
    revert sl. induction l1 as [|x r IH]; intros sl; [reflexivity|].
    cbn [app fields_eff]. destruct (field_eff cfg fuel tk fields x sl); cbn [obind]; try reflexivity. apply IH.
  Qed.
End Value.

(* ---- the same, at the three entry points: on a well-formed document a struct target gets, from each of
   deserialize_tape / deserialize_slice / deserialize_reader (any fitting capacity, any fault-free
   schedule), the fold of the per-field effects -- every clause above holds for what the real entry
   points' models return, not only for the specification ---- *)
Lemma fields_len_sh sh fs g : (length fs < deser_fuel sh (enc_doc fs g))%nat.
Proof.
  unfold deser_fuel, enc_doc.
  assert (L : (length fs <= length (toks_fields fs ++ ghost_toks g))%nat).
  { rewrite app_length. induction fs as [|f r IH]; [cbn; lia|].
    unfold toks_fields in *. cbn [flat_map length]. unfold toks_field at 1. rewrite !app_length. cbn [length]. lia. }
  pose proof (wbytes_len (toks_fields fs ++ ghost_toks g)) as H.
  remember (length (wbytes (toks_fields fs ++ ghost_toks g))) as n. remember (length (toks_fields fs ++ ghost_toks g)) as m.
  remember (shape_size sh) as k. lia.
Qed.

Theorem struct_on_all_paths cfg cap sched tk fields fs g : fast_path_excludes_i64 = true ->
  wf_doc fs g = true -> tape_ok_doc fs = true -> fits_shape cfg (ShStruct tk fields) fs g ->
  no_fail sched = true -> fits cap (enc_doc fs g) = true ->
  let sh := ShStruct tk fields in
  let v := (do sl <- fields_eff cfg (deser_fuel sh (enc_doc fs g)) tk fields fs (slots_init fields);
            do out <- slots_finish fields sl; Ok (DStruct out)) in
  deser_tape cfg sh (enc_doc fs g) = v /\ deser_ondemand cfg sh (enc_doc fs g) = v /\
  deser_reader cfg cap sched sh (enc_doc fs g) = v.
Proof.
  intros FP W T Fi NF Fc sh v.
  assert (E : spec_of cfg sh fs g = v).
  { unfold spec_of, v. apply spec_struct_denotation. apply fields_len_sh. }
  rewrite <- E. repeat split.
  - exact (tape_eq_spec cfg sh fs g FP W T Fi).
  - exact (ondemand_eq_spec cfg sh fs g W Fi).
  - exact (reader_eq_spec cfg cap sched sh fs g W NF Fc Fi).
Qed.

(* non-vacuity / the statements compute: `a = 7 {} c = rgb{1 2 3 4} m = <id 0x1234>` into
   struct { a: u8, c: any, m: Option<Option<String>>, z: Option<bool> } *)
Example value_example :
  spec_value cfg0 9 (ShStruct false [([97], None, MOnce, ShU 8); ([99], None, MOnce, ShAny);
                                     ([109], None, MOnce, ShOpt (ShOpt ShStr)); ([122], None, MOnce, ShOpt ShBool)])
    [(false, SQuoted [97], VScalar (SI32 7)); (true, SUnquoted [99], VRgb (mkrgb 1 2 3 (Some 4)));
     (false, SQuoted [109], VScalar (SId 4660))] true
  = Ok (DStruct [([97], DU 7); ([99], DSeq [DStr RGB_NAME; DSeq [DU 1; DU 2; DU 3; DU 4]]);
                 ([109], DSome (DSome (DStr [97; 98; 99]))); ([122], DNone)]).
Proof. vm_compute. reflexivity. Qed.
