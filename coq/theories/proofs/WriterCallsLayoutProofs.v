(* C15: a well-formed sequence of writer calls describing document d prints the rendering of
   (norm d) under the layout [layout_w c d] -- the same text write_tape prints for flatten d -- hence
   (C01) it parses back to flatten d. *)
From JV Require Import Bytes Tables TextTok TextTape TextDoc Date Writer.
From JV.proofs Require Import WriterProofs TextScanProofs TextParseProofs WriterLayoutDefs WriterLayoutProofs.
Require Import Lia.
Open Scope nat_scope.

Section Calls.
Variable fdisp : bool -> N -> option N -> bytes.

(* the token a scalar-like call leaves in the text: kind and bytes between the separators *)
Definition call_text (k : call) : option (skind * bytes) :=
  match k with
  | CUnquoted s | CFmt s => Some (Unq, s)
  | CQuoted p => Some (Quo, escape p)
  | CBool b => Some (Unq, if b then YES else NO)
  | CI32 z | CI64 z => Some (Unq, dec_Z z)
  | CU32 n | CU64 n => Some (Unq, dec_N' n)
  | CF32 b => Some (Unq, fdisp false b None)
  | CF64 b => Some (Unq, fdisp true b None)
  | CF32p b p => Some (Unq, fdisp false b (Some p))
  | CF64p b p => Some (Unq, fdisp true b (Some p))
  | CDate wide r => Some (Unq, game_fmt wide r)
  (* write_binary forwards to the same primitives *)
  | CBinary (BBool b) => Some (Unq, if b then YES else NO)
  | CBinary (BU32 n) | CBinary (BU64 n) => Some (Unq, dec_N' n)
  | CBinary (BI32 z) | CBinary (BI64 z) => Some (Unq, dec_Z z)
  | CBinary (BQuoted p) => Some (Quo, escape p)
  | CBinary (BUnquoted s) => Some (Unq, s)
  | CBinary (BF32 b) => Some (Unq, fdisp false b None)
  | CBinary (BF64 b) => Some (Unq, fdisp true b None)
  | CBinary (BToken id) => Some (Unq, UNKNOWN_PREFIX ++ hex_N id)
  | _ => None
  end.

(* the structural calls and their write_binary aliases *)
Definition is_end (k : call) : bool := match k with CEnd | CBinary (BEnd _) => true | _ => false end.
Definition is_ostart (k : call) : bool := match k with CObjectStart | CBinary (BObject _) => true | _ => false end.
Definition is_astart (k : call) : bool := match k with CArrayStart | CBinary (BArray _) => true | _ => false end.
Definition is_rgb (k : call) (r g b : N) (a : option N) : Prop := k = CRgb r g b a \/ k = CBinary (BRgb r g b a).

(* explicit or implicit `=`; any other operator is explicit *)
Definition cop (op : option operator) (ops : list call) : Prop :=
  (ops = [] /\ (op = None \/ op = Some Equal)) \/ (exists o, op = Some o /\ ops = [COperator o]) \/
  (op = Some Equal /\ ops = [CBinary BEqual]).

Definition rgb_expand (r g b : N) (a : option N) : list call :=
  [CHeader RGB; CArrayStart; CU32 r; CU32 g; CU32 b] ++ (match a with Some x => [CU32 x] | None => [] end) ++ [CEnd].

(* [cv v cs]: the call list cs writes the value v *)
Inductive cv : value -> list call -> Prop :=
| cv_scalar k kd s : call_text k = Some (kd, s) -> cv (VScalar kd s) [k]
| cv_obj st en fs cs : is_ostart st = true -> is_end en = true -> cfs fs cs ->
    cv (VObject fs VNil) (st :: cs ++ [en])
| cv_arr st en items cs : is_astart st = true -> is_end en = true -> cis items cs ->
    cv (VArray items) (st :: cs ++ [en])
| cv_obj_empty st en : is_ostart st = true -> is_end en = true -> cv (VArray VNil) [st; en]
(* write_start: the container kind is decided by what follows -- an explicit operator after the
   first scalar makes it an object, anything else an array *)
| cv_obj_unk en k kd key o v cs1 fs cs2 : is_end en = true -> call_text k = Some (kd, key) -> cv v cs1 -> cfs fs cs2 ->
    cv (VObject (FCons (Field kd key (Some o) v) fs) VNil) (CStart :: k :: COperator o :: cs1 ++ cs2 ++ [en])
| cv_arr_unk en items cs : is_end en = true -> cis items cs -> cv (VArray items) (CStart :: cs ++ [en])
| cv_hdr h v cs : is_container v = true -> cv v cs -> cv (VHeader h v) (CHeader h :: cs)
| cv_rgb k r g b a v : is_rgb k r g b a -> cv v (rgb_expand r g b a) -> cv v [k]
with cf : field -> list call -> Prop :=
| cf_field k kd key op ops v cs : call_text k = Some (kd, key) -> cop op ops -> cv v cs ->
    cf (Field kd key op v) (k :: ops ++ cs)
with cfs : fields -> list call -> Prop :=
| cfs_nil : cfs FNil []
| cfs_cons f fs a b : cf f a -> cfs fs b -> cfs (FCons f fs) (a ++ b)
with cis : values -> list call -> Prop :=
| cis_nil : cis VNil []
| cis_cons v vs a b : is_header v = false -> cv v a -> cis vs b -> cis (VCons v vs) (a ++ b).

Scheme cv_mind := Minimality for cv Sort Prop
  with cf_mind := Minimality for cf Sort Prop
  with cfs_mind := Minimality for cfs Sort Prop
  with cis_mind := Minimality for cis Sort Prop.
Combined Scheme calls_mutind from cv_mind, cf_mind, cfs_mind, cis_mind.

Definition calls_of (d : doc) (cs : list call) : Prop := cfs d cs.

Variable c : cfg.

(* all calls return Ok: the bytes and the final state *)
Fixpoint runw (w : wr) (cs : list call) : wres :=
  match cs with
  | [] => WOk w []
  | k :: r => wbind (Writer.step fdisp c w k) (fun w' => runw w' r)
  end.

Lemma wbind_assoc r f g : wbind (wbind r f) g = wbind r (fun w => wbind (f w) g).
Proof.
  destruct r as [w o|w o e|p s]; cbn [wbind]; try reflexivity.
  destruct (f w) as [w1 o1|w1 o1 e1|p1 s1]; cbn [wbind]; try reflexivity.
  destruct (g w1); rewrite ?app_assoc; reflexivity.
Qed.

Lemma wbind_ext r f g : (forall w, f w = g w) -> wbind r f = wbind r g.
Proof. intros H. destruct r; cbn [wbind]; try reflexivity. rewrite H. reflexivity. Qed.

Lemma runw_app a : forall b w, runw w (a ++ b) = wbind (runw w a) (fun w' => runw w' b).
Proof.
  induction a as [|k a IH]; intros b w; cbn [app runw].
  - rewrite wbind_ret_nil. reflexivity.
  - rewrite wbind_assoc. apply wbind_ext. intros w1. apply IH.
Qed.

Lemma step_scalar k kd s w : call_text k = Some (kd, s) ->
  Writer.step fdisp c w k = WOk (epi_state (pre_state w)) (pre_bytes c w ++ scalar_bytes kd s).
Proof.
  intros H. destruct k as [| | | | | | | | | | | | | | | | | | | | |t]; try discriminate H;
    try destruct t; try discriminate H; cbn [call_text] in H; inversion H; subst;
    cbn [Writer.step write_binary scalar_bytes];
    rewrite ?write_raw_shape, ?write_quoted_shape, ?app_nil_r; reflexivity.
Qed.

Lemma runw_cons_ok k r w w1 o1 : Writer.step fdisp c w k = WOk w1 o1 ->
  runw w (k :: r) = wbind (WOk w1 o1) (fun w' => runw w' r).
Proof. intros H. cbn [runw]. rewrite H. reflexivity. Qed.

Definition Cv (v : value) (cs : list call) : Prop := forall w, vpos w -> (is_header v = true -> w_mode w = DObject) ->
  runw w cs = WOk (vpost w v) (cbytes (ch_value c (dep w) (pre_bytes c w) v)).
Definition Cf (f : field) (cs : list call) : Prop := forall w, kpos w ->
  runw w cs = WOk (wkey w) (cbytes (ch_field c (dep w) (pre_bytes c w) f)).
Definition Cfs (fs : fields) (cs : list call) : Prop := forall w, kpos w ->
  runw w cs = WOk (if fields_empty fs then w else wkey w) (cbytes (ch_fields c (dep w) (pre_bytes c w) fs)).
Definition Cis (vs : values) (cs : list call) : Prop := forall w, ipos w ->
  runw w cs = WOk (ipost w vs) (cbytes (ch_items c (dep w) (pre_bytes c w) vs)).

Lemma C_scalar k kd s : call_text k = Some (kd, s) -> Cv (VScalar kd s) [k].
Proof.
  intros H w Hp _. cbn [runw]. rewrite (step_scalar _ _ _ _ H). cbn [wbind]. rewrite app_nil_r.
  cbn [ch_value]. rewrite cbytes_cons. cbn [stok fst cbytes flat_map]. rewrite app_nil_r. f_equal.
  rewrite (vpos_pre _ Hp). destruct w as [m d st n x]. destruct Hp as [Hx Hp]. cbn in Hx, Hp. subst x.
  unfold vpost, epi_state. cbn.
  destruct Hp as [[-> [-> | ->]] | [-> [-> | [-> | [-> | ->]]]]]; reflexivity.
Qed.

Lemma step_end en w : is_end en = true -> Writer.step fdisp c w en = write_end c w.
Proof. destruct en as [| | | | | | | | | | | | | | | | | | | | |t]; try discriminate; [reflexivity|]. destruct t; try discriminate. reflexivity. Qed.
Lemma step_ostart st w : is_ostart st = true -> Writer.step fdisp c w st = write_object_start c w.
Proof. destruct st as [| | | | | | | | | | | | | | | | | | | | |t]; try discriminate; [reflexivity|]. destruct t; try discriminate. reflexivity. Qed.
Lemma step_astart st w : is_astart st = true -> Writer.step fdisp c w st = write_array_start c w.
Proof. destruct st as [| | | | | | | | | | | | | | | | | | | | |t]; try discriminate; [reflexivity|]. destruct t; try discriminate. reflexivity. Qed.

Lemma runw_end en w m rest : is_end en = true -> w_depth w = m :: rest ->
  runw w [en] = WOk (mkwr m rest (match m with DObject => WKey | DArray => WArrayValue end) true MDisabled)
                      ((if no_data_yet (w_state w) then [SP] else nli c (length rest)) ++ [RBRACE]).
Proof. intros He H. cbn [runw]. rewrite (step_end _ _ He), (write_end_shape c w m rest H). cbn [wbind]. rewrite app_nil_r. reflexivity. Qed.

Lemma C_obj st en fs cs : is_ostart st = true -> is_end en = true -> Cfs fs cs -> Cv (VObject fs VNil) (st :: cs ++ [en]).
Proof.
  intros Hst Hen HF w Hp _. cbn [runw]. rewrite (step_ostart _ _ Hst), write_object_start_shape, (start_state_vpos _ _ _ Hp).
  set (w1 := mkwr DObject (w_mode w :: w_depth w) WFirstKey true MDisabled).
  erewrite wbind_ok.
  2:{ rewrite runw_app, (HF w1) by (repeat split; auto). erewrite wbind_ok; [reflexivity|].
      apply (runw_end _ _ (w_mode w) (w_depth w) Hen). destruct fs; reflexivity. }
  f_equal; [unfold vpost; destruct (w_mode w); reflexivity|].
  cbn [ch_value]. rewrite cbytes_cons, cbytes_app, cbytes_cons. change (cbytes []) with (@nil N).
  cbn [lbrace rbrace fst]. rewrite !app_nil_r, <- !app_assoc. f_equal. f_equal.
  change (dep w1) with (S (dep w)). change (pre_bytes c w1) with (nli c (S (dep w))). f_equal. f_equal.
  destruct fs; reflexivity.
Qed.

Lemma C_arr st en items cs : is_astart st = true -> is_end en = true -> Cis items cs -> Cv (VArray items) (st :: cs ++ [en]).
Proof.
  intros Hst Hen HI w Hp _. cbn [runw]. rewrite (step_astart _ _ Hst), write_array_start_shape, (start_state_vpos _ _ _ Hp).
  set (w1 := mkwr DArray (w_mode w :: w_depth w) WArrayValueFirst true MDisabled).
  erewrite wbind_ok.
  2:{ rewrite runw_app, (HI w1) by (repeat split; unfold astate; auto). erewrite wbind_ok; [reflexivity|].
      apply (runw_end _ _ (w_mode w) (w_depth w) Hen). destruct items; [reflexivity|]. rewrite ipost_cons_eq; auto. }
  f_equal; [unfold vpost; destruct (w_mode w); reflexivity|].
  cbn [ch_value]. rewrite cbytes_cons, cbytes_app, cbytes_cons. change (cbytes []) with (@nil N).
  cbn [lbrace rbrace fst]. rewrite !app_nil_r, <- !app_assoc. f_equal. f_equal.
  change (dep w1) with (S (dep w)). change (pre_bytes c w1) with (nli c (S (dep w))). f_equal. f_equal.
  destruct items; [reflexivity|]. rewrite ipost_cons_eq; auto.
Qed.

Lemma C_arr_unk en items cs : is_end en = true -> Cis items cs -> Cv (VArray items) (CStart :: cs ++ [en]).
Proof.
  intros Hen HI w Hp _. cbn [runw Writer.step]. rewrite write_start_shape, (start_state_vpos _ _ _ Hp).
  set (w1 := mkwr DArray (w_mode w :: w_depth w) WFirstUnknown true MDisabled).
  assert (Hp1 : ipos w1) by (repeat split; unfold astate; auto).
  destruct (ipost_general w1 items Hp1) as [Hd Hn].
  erewrite wbind_ok.
  2:{ rewrite runw_app, (HI w1) by exact Hp1. erewrite wbind_ok; [reflexivity|].
      apply (runw_end _ _ (w_mode w) (w_depth w) Hen). exact Hd. }
  f_equal; [unfold vpost; destruct (w_mode w); reflexivity|].
  cbn [ch_value]. rewrite cbytes_cons, cbytes_app, cbytes_cons. change (cbytes []) with (@nil N).
  cbn [lbrace rbrace fst]. rewrite !app_nil_r, <- !app_assoc. f_equal. f_equal.
  change (dep w1) with (S (dep w)). change (pre_bytes c w1) with (nli c (S (dep w))). f_equal. f_equal.
  rewrite Hn. destruct items; reflexivity.
Qed.

Lemma C_obj_unk en k kd key o v cs1 fs cs2 : is_end en = true -> call_text k = Some (kd, key) -> Cv v cs1 -> Cfs fs cs2 ->
  Cv (VObject (FCons (Field kd key (Some o) v) fs) VNil) (CStart :: k :: COperator o :: cs1 ++ cs2 ++ [en]).
Proof.
  intros Hen Hk HV HF w Hp _. cbn [runw Writer.step]. rewrite write_start_shape, (start_state_vpos _ _ _ Hp).
  set (D := w_mode w :: w_depth w).
  set (w1 := mkwr DArray D WFirstUnknown true MDisabled).
  set (wa := mkwr DArray D WSecondUnknown false MDisabled).
  set (w2 := mkwr DObject D WObjectValue false MDisabled).
  set (w3 := mkwr DObject D WKey true MDisabled).
  erewrite wbind_ok.
  2:{ rewrite (step_scalar _ _ _ w1 Hk). change (epi_state (pre_state w1)) with wa.
      erewrite wbind_ok; [reflexivity|].
      assert (Hw : write_operator wa o = WOk w2 (match o with Equal => [EQ] | _ => [SP] ++ op_symbol o ++ [SP] end))
        by reflexivity.
      rewrite Hw. erewrite wbind_ok; [reflexivity|].
      rewrite runw_app, (HV w2) by (try (split; [reflexivity|left; auto]); reflexivity).
      change (vpost w2 v) with w3.
      erewrite wbind_ok; [reflexivity|].
      rewrite runw_app, (HF w3) by (repeat split; auto).
      erewrite wbind_ok; [reflexivity|].
      apply (runw_end _ _ (w_mode w) (w_depth w) Hen). destruct fs; reflexivity. }
  f_equal; [unfold vpost; destruct (w_mode w); reflexivity|].
  cbn [ch_value ch_fields ch_field op_or_eq fields_empty close_gap].
  rewrite cbytes_cons, !cbytes_app, !cbytes_cons. change (cbytes []) with (@nil N).
  cbn [lbrace rbrace stok optk fst].
  rewrite (cb_g0_value _ _ (opgap o)). change (pre_bytes c w2) with (@nil N). change (dep w2) with (S (dep w)).
  change (pre_bytes c w1) with (nli c (S (dep w))). change (pre_bytes c w3) with (nli c (S (dep w))).
  change (dep w3) with (S (dep w)).
  replace (w_state (if fields_empty fs then w3 else wkey w3)) with WKey by (destruct fs; reflexivity).
  change (no_data_yet WKey) with false. cbn iota. change (length (w_depth w)) with (dep w).
  destruct o; cbn [opgap op_symbol app]; rewrite ?app_nil_r, <- ?app_assoc; cbn [app]; repeat (f_equal; try reflexivity).
Qed.

Lemma C_obj_empty st en : is_ostart st = true -> is_end en = true -> Cv (VArray VNil) [st; en].
Proof.
  intros Hst Hen w Hp _. cbn [runw]. rewrite (step_ostart _ _ Hst), write_object_start_shape, (start_state_vpos _ _ _ Hp).
  erewrite wbind_ok; [|apply (runw_end _ _ (w_mode w) (w_depth w) Hen); reflexivity].
  f_equal; [unfold vpost; destruct (w_mode w); reflexivity|].
  cbn [ch_value ch_items app]. rewrite !cbytes_cons. change (cbytes []) with (@nil N).
  cbn [lbrace rbrace fst]. rewrite !app_nil_r, <- !app_assoc. reflexivity.
Qed.

Lemma C_hdr h v cs : is_container v = true -> Cv v cs -> Cv (VHeader h v) (CHeader h :: cs).
Proof.
  intros Hc HV w Hp Hm. specialize (Hm eq_refl). cbn [runw Writer.step]. rewrite write_header_shape, (vpos_pre _ Hp).
  destruct w as [m d st n x]. destruct Hp as [Hx _]. cbn in Hx, Hm. subst x m.
  cbn [set_nlt set_state w_mode w_depth w_state w_nlt w_mixed].
  erewrite wbind_ok.
  2:{ apply HV; [split; [reflexivity|left; auto]|]. destruct v; try discriminate Hc; intros; discriminate. }
  f_equal. cbn [ch_value]. rewrite cbytes_cons, (cb_g0_value _ _ [SP]). cbn [fst].
  rewrite <- !app_assoc. reflexivity.
Qed.

Lemma C_rgb k r g b a v : is_rgb k r g b a -> Cv v (rgb_expand r g b a) -> Cv v [k].
Proof.
  intros Hk H w Hp Hm. rewrite <- (H w Hp Hm). unfold rgb_expand.
  destruct Hk as [-> | ->]; cbn [runw Writer.step write_binary app]; unfold write_rgb;
  rewrite write_header_shape; cbn [wbind]; rewrite write_array_start_shape; cbn [wbind];
  repeat (rewrite write_raw_shape; cbn [wbind]);
  destruct a; cbn [app runw Writer.step]; repeat (rewrite write_raw_shape; cbn [wbind emit]); cbn [wbind emit];
    match goal with |- context [write_end ?c ?w] => destruct (write_end c w) end; cbn [wbind]; rewrite ?app_nil_r, <- ?app_assoc; reflexivity.
Qed.

Lemma kpos_step_key k kd key w : call_text k = Some (kd, key) -> kpos w ->
  Writer.step fdisp c w k = WOk (mkwr DObject (w_depth w) WKeyValueSeparator false MDisabled)
                                (pre_bytes c w ++ scalar_bytes kd key).
Proof.
  intros H [Hm [Hx Hs]]. rewrite (step_scalar _ _ _ _ H). f_equal.
  destruct w as [m d st n x]. cbn in Hm, Hx, Hs. subst m x. unfold pre_state, epi_state.
  destruct Hs as [-> | ->]; reflexivity.
Qed.

Lemma C_field k kd key op ops v cs : call_text k = Some (kd, key) -> cop op ops -> Cv v cs ->
  Cf (Field kd key op v) (k :: ops ++ cs).
Proof.
  intros Hk Hop HV w Hp. cbn [runw]. rewrite (kpos_step_key _ _ _ _ Hk Hp).
  set (w1 := mkwr DObject (w_depth w) WKeyValueSeparator false MDisabled).
  set (w2 := mkwr DObject (w_depth w) WObjectValue false MDisabled).
  assert (Hh : is_header v = true -> DObject = DObject) by reflexivity.
  assert (Hop' : (ops = [] /\ (op = None \/ op = Some Equal)) \/
                 (exists o k2, op = Some o /\ ops = [k2] /\ forall w, Writer.step fdisp c w k2 = write_operator w o)).
  { destruct Hop as [H | [[o [-> ->]] | [-> ->]]]; [left; exact H| |]; right.
    - exists o, (COperator o). auto.
    - exists Equal, (CBinary BEqual). auto. }
  clear Hop. destruct Hop' as [[-> Hop] | [o [k2 [-> [-> Hk2]]]]].
  - (* implicit `=` *)
    erewrite wbind_ok; [|cbn [app]; apply (HV w1); [split; [reflexivity|left; auto]|exact Hh]].
    f_equal. cbn [ch_field]. replace (op_or_eq op) with Equal by (destruct Hop as [-> | ->]; reflexivity).
    rewrite !cbytes_cons. cbn [stok optk opgap fst op_symbol app].
    rewrite (cb_g0_value _ _ (pre_bytes c w1)). change (pre_bytes c w1) with [61%N]. change (dep w1) with (dep w).
    rewrite <- !app_assoc. reflexivity.
  - (* explicit operator *)
    cbn [app runw].
    assert (Hw : write_operator w1 o = WOk w2 (match o with Equal => [EQ] | _ => [SP] ++ op_symbol o ++ [SP] end))
      by reflexivity.
    erewrite wbind_ok.
    2:{ rewrite Hk2, Hw. erewrite wbind_ok; [reflexivity|]. apply (HV w2); [split; [reflexivity|left; auto]|exact Hh]. }
    f_equal. cbn [ch_field op_or_eq]. rewrite !cbytes_cons. cbn [stok optk fst].
    rewrite (cb_g0_value _ _ (opgap o)). change (pre_bytes c w2) with (@nil N). change (dep w2) with (dep w).
    destruct o; cbn [opgap op_symbol app]; rewrite <- ?app_assoc; reflexivity.
Qed.

Lemma C_fs_cons f fs a b : Cf f a -> Cfs fs b -> Cfs (FCons f fs) (a ++ b).
Proof.
  intros H1 HF w Hp. rewrite runw_app, (H1 w Hp).
  erewrite wbind_ok; [|apply (HF (wkey w)); destruct Hp as [Hm [Hx Hs]]; repeat split; auto].
  f_equal; [destruct fs; reflexivity|]. cbn [ch_fields]. rewrite cbytes_app. reflexivity.
Qed.

Lemma C_is_cons v vs a b : is_header v = false -> Cv v a -> Cis vs b -> Cis (VCons v vs) (a ++ b).
Proof.
  intros Hh HV HI w Hp. rewrite runw_app, (HV w (ipos_vpos _ Hp)) by (rewrite Hh; discriminate).
  erewrite wbind_ok; [|apply (HI (vpost w v)), vpost_ipos, Hp].
  f_equal. cbn [ch_items]. rewrite cbytes_app, (vpost_pre_bytes c w v Hp). reflexivity.
Qed.

Lemma calls_all :
  (forall v cs, cv v cs -> Cv v cs) /\ (forall f cs, cf f cs -> Cf f cs) /\
  (forall fs cs, cfs fs cs -> Cfs fs cs) /\ (forall vs cs, cis vs cs -> Cis vs cs).
Proof.
  apply calls_mutind.
  - intros k kd s H. apply C_scalar, H.
  - intros st en fs cs Hst Hen _ H. apply C_obj; assumption.
  - intros st en items cs Hst Hen _ H. apply C_arr; assumption.
  - intros st en Hst Hen. apply C_obj_empty; assumption.
  - intros en k kd key o v cs1 fs cs2 Hen Hk _ HV _ HF. apply C_obj_unk; assumption.
  - intros en items cs Hen _ H. apply C_arr_unk; assumption.
  - intros h v cs Hc _ H. apply C_hdr; assumption.
  - intros k r g b a v Hk _ H. apply (C_rgb k r g b a); assumption.
  - intros k kd key op ops v cs Hk Hop _ H. apply C_field; assumption.
  - intros w _. reflexivity.
  - intros f fs a b _ Hf _ Hfs. apply C_fs_cons; assumption.
  - intros w _. reflexivity.
  - intros v vs a b Hh _ Hv _ Hvs. apply C_is_cons; assumption.
Qed.

(* runw is the all-Ok case of the run the correspondence check executes *)
Lemma runw_run : forall cs w w' out, runw w cs = WOk w' out ->
  exists log, Writer.run_from fdisp c w cs = Ok (out, log) /\ Forall (fun e => fst e = false) log /\ last (map snd log) w = w'.
Proof.
  induction cs as [|k r IH]; intros w w' out H; cbn [runw Writer.run_from] in *.
  - inversion H; subst. exists []. repeat split; constructor.
  - destruct (Writer.step fdisp c w k) as [w1 o1| |]; cbn [wbind] in H; try discriminate H.
    destruct (runw w1 r) as [w2 o2| |] eqn:E; try discriminate H. inversion H; subst.
    destruct (IH _ _ _ E) as [log [R [F L]]]. rewrite R. cbn [obind fst snd].
    exists ((false, w1) :: log). repeat split.
    + constructor; [reflexivity|exact F].
    + cbn [map snd]. destruct (map snd log) eqn:Em; [cbn in *; exact L|]. cbn [last] in *.
      clear -L. revert w0 L. induction l as [|x l IHl]; intros w0 L; cbn [last] in *; [exact L|]. apply IHl. exact L.
Qed.

(* documents written through calls are in the round-trippable subset *)
Lemma calls_rt :
  (forall v cs, cv v cs -> rt_value v = true) /\ (forall f cs, cf f cs -> rt_field f = true) /\
  (forall fs cs, cfs fs cs -> rt_fields fs = true) /\ (forall vs cs, cis vs cs -> rt_values vs = true).
Proof.
  apply calls_mutind; intros; cbn [rt_value rt_field rt_fields rt_values]; auto;
    repeat match goal with H : _ = true |- _ => rewrite H end; reflexivity.
Qed.

Theorem calls_chunks d cs : calls_of d cs -> runw wr_init cs = WOk (w_end d) (cbytes (chunks_w c d)).
Proof.
  intros H. destruct calls_all as [_ [_ [HF _]]]. apply (HF d cs H wr_init). repeat split; auto.
Qed.

Theorem calls_parse_back d cs : calls_of d cs -> wf_doc d -> nobom d = true -> cfg_ok c ->
  exists log, Writer.run fdisp c cs = Ok (render (norm_fields d) (layout_w c d), log) /\
    Forall (fun e => fst e = false) log /\ last (map snd log) wr_init = w_end d /\
    parse (render (norm_fields d) (layout_w c d)) = Ok (flatten d, false).
Proof.
  intros H Hwf Hnb Hc.
  assert (Hr : rt d) by (split; [exact Hwf|split; [apply (proj1 (proj2 (proj2 calls_rt)) d cs H)|exact Hnb]]).
  destruct (runw_run _ _ _ _ (calls_chunks d cs H)) as [log [R [F L]]].
  exists log. rewrite (render_layout_w c d Hr). repeat split; try assumption.
  rewrite <- (render_layout_w c d Hr).
  rewrite (parse_render (norm_fields d) (layout_w c d)); [rewrite flatten_norm; reflexivity|apply norm_wf, Hwf|apply layout_w_wf; assumption].
Qed.
End Calls.

(* ------------------------------------------------------------------ the payloads of the scalar calls are well-formed scalars *)
From JV Require Import Scalar.
From JV.proofs Require Import DecimalProofs.
Open Scope nat_scope.

Lemma is_digit_not_boundary b : is_digit b = true -> is_boundary b = false.
Proof.
  intros H. apply is_digit_range in H.
  assert (E : (b = 48 \/ b = 49 \/ b = 50 \/ b = 51 \/ b = 52 \/ b = 53 \/ b = 54 \/ b = 55 \/ b = 56 \/ b = 57)%N) by lia.
  repeat (destruct E as [-> | E]; [reflexivity|]). subst. reflexivity.
Qed.
Lemma all_digits_nonboundary l : all_digits l = true -> forallb (fun b => negb (is_boundary b)) l = true.
Proof.
  induction l as [|a l IH]; [reflexivity|]. cbn [all_digits forallb]. intros H. apply andb_prop in H as [H1 H2].
  rewrite (is_digit_not_boundary _ H1). cbn [negb andb]. apply IH, H2.
Qed.
Lemma digits_wf_word c l : is_digit c = true -> all_digits l = true -> wf_word (c :: l) = true.
Proof.
  intros Hc Hl. unfold wf_word. rewrite (all_digits_nonboundary (c :: l)) by (cbn [all_digits forallb]; rewrite Hc; exact Hl).
  apply is_digit_range in Hc.
  replace (N.eqb c 34) with false by (symmetry; apply N.eqb_neq; lia).
  replace (N.eqb c 59) with false by (symmetry; apply N.eqb_neq; lia).
  replace (N.eqb c 64) with false by (symmetry; apply N.eqb_neq; lia). reflexivity.
Qed.

Lemma dec_Z_wf z : (Z.abs z < 2 ^ 63)%Z -> wf_word (dec_Z z) = true.
Proof.
  intros Hz. unfold dec_Z, fmt_int.
  assert (Hn : (Z.abs_N z < 10 ^ 40)%N) by (change (10 ^ 40)%N with 10000000000000000000000000000000000000000%N; lia).
  destruct (canonical_nonempty _ _ (dec_N_canonical _ Hn)) as [c [tl [E [Hc Hl]]]]. rewrite E.
  destruct (z <? 0)%Z.
  - replace (0 - 1 - length (c :: tl)) with 0 by (cbn; lia). cbn [pad0].
    assert (F : forallb (fun b => negb (is_boundary b)) (c :: tl) = true).
    { apply all_digits_nonboundary. unfold all_digits in *. cbn [forallb]. rewrite Hc. exact Hl. }
    unfold wf_word. cbn [forallb] in *. rewrite F. reflexivity.
  - replace (0 - length (c :: tl)) with 0 by (cbn; lia). cbn [pad0]. apply digits_wf_word; assumption.
Qed.
Lemma dec_N'_wf n : (n < 2 ^ 63)%N -> wf_word (dec_N' n) = true.
Proof. intros H. apply (dec_Z_wf (Z.of_N n)). lia. Qed.

Lemma wf_quo_no_bare_quote s : wf_quo s = no_bare_quote s.
Proof.
  assert (H : forall n (s : bytes), length s <= n -> wf_quo s = no_bare_quote s).
  { induction n as [|n IH]; intros [|x r] Hl; try reflexivity; cbn [length] in Hl; [lia|].
    cbn [wf_quo no_bare_quote]. change BSLASH with 92%N. change QUOTE with 34%N.
    destruct (N.eqb x 92).
    - destruct r as [|y r']; [reflexivity|]. apply IH. cbn [length] in Hl. lia.
    - destruct (N.eqb x 34); [reflexivity|]. cbn [negb andb]. apply IH. lia. }
  apply (H (length s)). lia.
Qed.
Lemma escape_wf_quo p : wf_quo (escape p) = true.
Proof. rewrite wf_quo_no_bare_quote. apply (proj2 (escape_roundtrip p)). Qed.
