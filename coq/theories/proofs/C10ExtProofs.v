(* C10 (wave 5, engineer w_c10): the text <-> binary agreement over the EXTENDED logical documents of LogicDocX.v --
   colours that are read (not only skipped) at arbitrary object-value positions, DateHour values -- with
   TextDeSpec2.spec_value2 on the text side (the specification with headers, proved equal to the text tape / stream
   walks on the whole TextDoc grammar: Props/C02_walk2.v, C02_ext.v) and BinDoc.spec_value on the binary side.

   PLAN
     1. scalars: XBase l is C10SpecProofs.walk_scalar (spec_v2 = spec_v on a scalar); XDateHour is
        C10KindsProofs.datehour_agree (the definitions xdh_text / xdh_bin of the model file are those of that file).
     2. colours: spec_v2 true on `VHeader "rgb" (VArray channels)` under ShTup [s1; s2] = [hname s1 "rgb", channels into
        s2]; binary: walk_plain dispatches AColor and color_visit runs ColorSequence (two elements: the name through
        visit_str, the channels through InnerColorSequence's visit_seq).  Per channel: the decimal numeral of a u32
        under the element shape = the U32 token under the same shape (int_agree_u / _i / _bool / _float with WU32).
     3. the tree: induction on xval exactly as C10SpecProofs.val_agree, the text side being spec_items2 / spec_tuple2 /
        spec_fields2 (same equations on the constructs to_textx produces: the tail of an object is VNil, no parameter
        blocks, no key-value arrays).
     4. root: spec_value2 tp (to_textx d) = BinDoc.spec_value fuel (to_binx e d) for every fuel above shape + document.
   The composition with the deserializer walks / the bytes is proofs/C10ExtCompose.v. *)
From JV Require Import Bytes Tables Utf8 Scalar Date TextTok BinPrim SerdeShape TextDeCommon BinDeCommon TextDeSpec TextDeSpec2
  LogicDoc LogicDocX.
From JV Require TextDoc BinDoc.
From JV.proofs Require Import TextDeMoreTape C10LinkProofs C10SpecProofs C10ComposeProofs C10RgbProofs C10KindsProofs.
From Coq Require Import NArith ZArith Lia List Bool.
Import ListNotations.
Open Scope N_scope.

(* ------------------------------------------------------------------ induction on extended logical values *)
Section XvalInd.
  Variable P : xval -> Prop.
  Hypothesis HS : forall l, P (XScalar l).
  Hypothesis HR : forall c, P (XRgb c).
  Hypothesis HA : forall vs, Forall P vs -> P (XArr vs).
  Hypothesis HO : forall fs, Forall (fun f : xfield => P (xf_val f)) fs -> P (XObj fs).
  Fixpoint xval_ind' (v : xval) : P v :=
    match v with
    | XScalar l => HS l
    | XRgb c => HR c
    | XArr vs => HA vs ((fix go (l : list xval) : Forall P l :=
                           match l with [] => Forall_nil _ | x :: r => Forall_cons _ (xval_ind' x) (go r) end) vs)
    | XObj fs => HO fs ((fix go (l : list xfield) : Forall (fun f : xfield => P (xf_val f)) l :=
                           match l with [] => Forall_nil _ | x :: r => Forall_cons _ (xval_ind' (xf_val x)) (go r) end) fs)
    end.
End XvalInd.

(* ------------------------------------------------------------------ the local fixpoints are the list functions *)
Lemma to_textx_arr vs : to_textx_val (XArr vs) = TextDoc.VArray (to_textx_vals vs).
Proof. reflexivity. Qed.
Lemma to_textx_obj fs : to_textx_val (XObj fs) = TextDoc.VObject (to_textx_fields fs) TextDoc.VNil.
Proof. reflexivity. Qed.
Lemma to_binx_arr e vs : to_binx_val e (XArr vs) = BinDoc.VArr (to_binx_vals e 0 vs).
Proof.
  cbn [to_binx_val]. f_equal. generalize 0%nat. induction vs as [|x r IH]; intros i; [reflexivity|].
  cbn [to_binx_vals]. rewrite <- IH. reflexivity.
Qed.
Lemma to_binx_obj e fs : to_binx_val e (XObj fs) = BinDoc.VObj (to_binx_fields e 0 fs) (ch_ghost (e [])).
Proof.
  cbn [to_binx_val]. f_equal. generalize 0%nat. induction fs as [|x r IH]; intros i; [reflexivity|].
  cbn [to_binx_fields]. rewrite <- IH. reflexivity.
Qed.

Lemma xsize_arr vs : xsize (XArr vs) = (2 + xsize_vals vs)%nat.
Proof. reflexivity. Qed.
Lemma xsize_obj fs : xsize (XObj fs) = (2 + xsize_fields fs)%nat.
Proof. reflexivity. Qed.
Lemma xsize_pos v : (1 <= xsize v)%nat.
Proof. destruct v; cbn [xsize]; lia. Qed.
Lemma xsize_vals_len vs : (length vs <= xsize_vals vs)%nat.
Proof. induction vs as [|x r IH]; [reflexivity|]. cbn [xsize_vals length]. pose proof (xsize_pos x). lia. Qed.
Lemma xsize_fields_len fs : (2 * length fs <= xsize_fields fs)%nat.
Proof. induction fs as [|x r IH]; [reflexivity|]. cbn [xsize_fields length]. lia. Qed.

(* the old documents are the new ones: both renderings of the embedding are the old renderings *)
Lemma of_lval_text v : to_textx_val (of_lval v) = to_text_val v.
Proof.
  induction v as [l|c|vs IH|fs IH] using lval_ind'; try reflexivity.
  - cbn [of_lval to_textx_val to_text_val]. f_equal.
    induction IH as [|x r Hx Hr IHr]; [reflexivity|]. rewrite Hx, IHr. reflexivity.
  - cbn [of_lval to_textx_val to_text_val]. f_equal.
    induction IH as [|x r Hx Hr IHr]; [reflexivity|]. cbn [xf_kind xf_key xf_val fst snd]. rewrite Hx, IHr. reflexivity.
Qed.
Lemma of_lval_bin v : forall e, to_binx_val e (of_lval v) = to_bin_val e v.
Proof.
  induction v as [l|c|vs IH|fs IH] using lval_ind'; intros e; try reflexivity.
  - cbn [of_lval to_binx_val to_bin_val]. f_equal. generalize 0%nat.
    induction IH as [|x r Hx Hr IHr]; intros i; [reflexivity|]. rewrite Hx, IHr. reflexivity.
  - cbn [of_lval to_binx_val to_bin_val]. f_equal. generalize 0%nat.
    induction IH as [|x r Hx Hr IHr]; intros i; [reflexivity|].
    unfold bin_fieldx, bin_field. cbn [xf_kind xf_key xf_val fst snd]. rewrite Hx, IHr. reflexivity.
Qed.
Lemma of_ldoc_text d : to_textx (of_ldoc d) = to_text d.
Proof.
  unfold to_textx, to_text, of_ldoc. induction d as [|f r IH]; [reflexivity|].
  cbn [map to_textx_fields to_text_fields]. rewrite IH. unfold to_textx_field, to_text_field, of_lfield.
  cbn [xf_kind xf_key xf_val fst snd]. rewrite of_lval_text. reflexivity.
Qed.
Lemma of_ldoc_bin e d : to_binx e (of_ldoc d) = to_bin e d.
Proof.
  unfold to_binx, to_bin, of_ldoc. f_equal. generalize 0%nat. induction d as [|f r IH]; intros i; [reflexivity|].
  cbn [map to_binx_fields to_bin_fields]. rewrite IH. unfold bin_fieldx, bin_field, of_lfield.
  cbn [xf_kind xf_key xf_val fst snd]. rewrite of_lval_bin. reflexivity.
Qed.

(* the model file's DateHour renderings are those of C10KindsProofs *)
Lemma xdh_text_eq y m d h wide : xdh_text y m d h wide = dh_text y m d h wide.
Proof. reflexivity. Qed.
Lemma xdh_bin_eq y m d h : xdh_bin y m d h = dh_bin y m d h.
Proof. reflexivity. Qed.

Section EncOkX.
  Variable decode : bytes -> cow.
  Variable cfg : bcfg.
  Lemma enc_okx_arr e vs : enc_okx_v decode cfg e (XArr vs) <-> enc_okx_vals decode cfg e 0 vs.
  Proof.
    cbn [enc_okx_v]. generalize 0%nat. induction vs as [|x r IH]; intros i; [reflexivity|].
    cbn [enc_okx_vals]. rewrite <- IH. reflexivity.
  Qed.
  Lemma enc_okx_obj e fs : enc_okx_v decode cfg e (XObj fs) <-> ch_kghost (e [0%nat]) = false /\ enc_okx_fields decode cfg e 0 fs.
  Proof.
    cbn [enc_okx_v]. apply and_iff_compat_l. generalize 0%nat. induction fs as [|x r IH]; intros i; [reflexivity|].
    cbn [enc_okx_fields]. rewrite <- IH. reflexivity.
  Qed.
End EncOkX.

Section SharedXEq.
  Variable tp : bool.
  Variable decode : bytes -> cow.
  Variable pf : bytes -> outcome N.
  Variable cfg : bcfg.
  Notation shv := (xshared_v tp decode pf cfg).

  Lemma xshared_opt s v : shv (ShOpt s) v <-> shv s v.
  Proof. destruct v; reflexivity. Qed.

  Lemma xshared_scalar sh l : strip_opt sh <> ShIgn ->
    shv sh (XScalar l) <-> scalar_sharedx decode pf cfg (strip_opt sh) l.
  Proof. intros H. cbn [xshared_v]. destruct (strip_opt sh); try reflexivity. congruence. Qed.

  Lemma xshared_rgb sh c : strip_opt sh <> ShIgn ->
    shv sh (XRgb c) <-> rgb_shared tp decode pf cfg (strip_opt sh) c.
  Proof. intros H. cbn [xshared_v]. destruct (strip_opt sh); try reflexivity. congruence. Qed.

  Lemma xshared_seq_eq s vs : shv (ShSeq s) (XArr vs) <-> xshared_seq tp decode pf cfg s vs.
  Proof. cbn [xshared_v strip_opt]. induction vs as [|x r IH]; [reflexivity|]. cbn [xshared_seq]. rewrite <- IH. reflexivity. Qed.
  Lemma xshared_tup_eq ss vs : shv (ShTup ss) (XArr vs) <-> xshared_tup tp decode pf cfg vs ss.
  Proof.
    cbn [xshared_v strip_opt]. revert ss. induction vs as [|x r IH]; intros ss; [reflexivity|].
    cbn [xshared_tup]. destruct ss as [|s ss']; [reflexivity|]. rewrite <- IH. reflexivity.
  Qed.
  Lemma xshared_map_eq s fs : shv (ShMap s) (XObj fs) <-> fs <> [] /\ xshared_map tp decode pf cfg s fs.
  Proof.
    cbn [xshared_v strip_opt]. apply and_iff_compat_l. induction fs as [|x r IH]; [reflexivity|].
    cbn [xshared_map]. rewrite <- IH. reflexivity.
  Qed.
  Lemma xshared_struct_eq fds fs : shv (ShStruct false fds) (XObj fs) <-> fs <> [] /\ xshared_struct tp decode pf cfg fds fs.
  Proof.
    cbn [xshared_v strip_opt]. apply and_iff_compat_l. induction fs as [|x r IH]; [reflexivity|].
    cbn [xshared_struct]. rewrite <- IH. reflexivity.
  Qed.
End SharedXEq.

(* ------------------------------------------------------------------ the two specifications *)
Section AgreeX.
  Variable tp : bool.
  Variable decode : bytes -> cow.
  Variable pf : bytes -> outcome N.
  Variable cfg : bcfg.
  Notation F := (c_fops cfg).
  Notation tspec_v := (spec_v2 tp decode pf F).
  Notation titems := (spec_items2 tp decode pf F).
  Notation ttuple := (spec_tuple2 tp decode pf F).
  Notation tfields := (spec_fields2 tp decode pf F).
  Notation ops := (BinDoc.ops_doc cfg).
  Notation bwalk := (walk F ops).
  Notation shv := (xshared_v tp decode pf cfg).
  Notation eok := (enc_okx_v decode cfg).
  Notation dcur := BinDoc.dcur.

  (* ---- text side: the equations of spec_v2 on what to_textx produces ---- *)
  Lemma tspec2_opt v s o : tspec_v v (ShOpt s) o = omap DSome (tspec_v v s o).
  Proof. rewrite !spec_v2_unfold. cbn [unwrap]. destruct (unwrap s) as [w core]. reflexivity. Qed.

  Lemma tspec2_ign v o : tspec_v v ShIgn o = Ok DIgn.
  Proof. rewrite spec_v2_unfold. reflexivity. Qed.

  (* on a scalar the extended specification IS the core specification *)
  Lemma tspec2_scalar_eq k raw sh o : tspec_v (TextDoc.VScalar k raw) sh o = TextDeSpec.spec_v decode pf F (TextDoc.VScalar k raw) sh o.
  Proof. rewrite spec_v2_unfold. cbn [TextDeSpec.spec_v]. destruct (unwrap sh) as [w core]. reflexivity. Qed.

  Lemma tspec2_seq items s o : tspec_v (TextDoc.VArray items) (ShSeq s) o = omap DSeq (titems items s).
  Proof. rewrite spec_v2_unfold. reflexivity. Qed.
  Lemma tspec2_tup items ss o : tspec_v (TextDoc.VArray items) (ShTup ss) o = omap DSeq (ttuple items ss).
  Proof. rewrite spec_v2_unfold. reflexivity. Qed.
  Lemma tspec2_map fs s o : tspec_v (TextDoc.VObject fs TextDoc.VNil) (ShMap s) o =
    (do a <- tfields fs (WMap s) (acc0 (WMap s)); finish (WMap s) a).
  Proof.
    rewrite spec_v2_unfold. cbn [unwrap rewrap]. unfold spec_body2. cbn [wmode_core].
    destruct (tfields fs (WMap s) (acc0 (WMap s))); reflexivity.
  Qed.
  Lemma tspec2_struct fs tk fds o : tspec_v (TextDoc.VObject fs TextDoc.VNil) (ShStruct tk fds) o =
    (do a <- tfields fs (WStruct tk fds) (acc0 (WStruct tk fds)); finish (WStruct tk fds) a).
  Proof.
    rewrite spec_v2_unfold. cbn [unwrap rewrap]. unfold spec_body2. cbn [wmode_core].
    destruct (tfields fs (WStruct tk fds) (acc0 (WStruct tk fds))); reflexivity.
  Qed.
  (* a colour under a pair, tape path *)
  Lemma tspec2_header_tup name v s1 s2 o : tp = true ->
    tspec_v (TextDoc.VHeader name v) (ShTup [s1; s2]) o =
    (do x <- hname decode pf F s1 name; do y <- tspec_v v s2 None; Ok (DSeq [x; y])).
  Proof. intros ->. rewrite spec_v2_unfold. reflexivity. Qed.

  Lemma titems_cons v vs s : titems (TextDoc.VCons v vs) s = (do x <- tspec_v v s None; do r <- titems vs s; Ok (x :: r)).
  Proof. reflexivity. Qed.
  Lemma ttuple_cons v vs s ss : ttuple (TextDoc.VCons v vs) (s :: ss) = (do x <- tspec_v v s None; do r <- ttuple vs ss; Ok (x :: r)).
  Proof. reflexivity. Qed.
  Lemma tfields_cons k key op v fs m a : tfields (TextDoc.FCons (TextDoc.Field k key op v) fs) m a =
    (do r <- entry (fun sh' (_ : unit) (_ : unit) => omap (fun d => (d, tt)) (tspec_v v sh' (Some (op_or_equal op))))
                   (fun _ _ => Err EC_UNFIT) m a (cow_bytes (decode key)) (is_ok (to_u64 key)) tt tt;
     tfields fs m (fst r)).
  Proof. reflexivity. Qed.

  (* ---- scalars ---- *)
  Lemma dh_hint core c y m d h wide q : core = ShDateHour ->
    hint_of core <> HIgnored /\ (hint_of core = HU16 -> forall id, bin_scalarx c (XDateHour y m d h wide q) <> BinDoc.SId id).
  Proof. intros ->. split; [discriminate|]. intros H. discriminate H. Qed.

  Lemma walk_scalarx f core c l st o :
    is_core core -> core <> ShIgn -> scalar_sharedx decode pf cfg core l -> scalar_enc_okx decode cfg c l ->
    bwalk (S f) false core (BinDoc.VScalar (bin_scalarx c l)) st = omap (st_pair st) (tspec_v (to_textx_val (XScalar l)) core o).
  Proof.
    intros Hc Hi Hs He. cbn [to_textx_val]. rewrite tspec2_scalar_eq.
    destruct l as [b|y m d h wide q].
    - cbn [scalar_sharedx scalar_enc_okx bin_scalarx text_scalarx] in *.
      exact (walk_scalar decode pf cfg f core c b st o Hc Hi Hs He).
    - cbn [scalar_sharedx] in Hs. destruct core; try contradiction.
      destruct Hs as (Hy & Hv & Hh & Hw & Hst). cbn [scalar_enc_okx] in He.
      rewrite (tspec_scalar decode pf cfg _ _ ShDateHour o I Hi). cbn [text_scalarx fst snd spec_scalar].
      rewrite walk_scalar_plain; [|exact I|discriminate|intros H; discriminate H].
      f_equal. fold (text_visit decode pf cfg ShDateHour (xdh_text y m d h wide)).
      destruct (datehour_agree decode pf cfg y m d h wide (ch_str c) Hy Hv Hh Hw Hst) as (Ht & Hb & Hsx).
      rewrite xdh_text_eq. rewrite Ht. cbn [bin_scalarx]. destruct (ch_date_i32 c).
      + rewrite xdh_bin_eq. exact Hb.
      + rewrite xdh_text_eq. apply Hsx. exact He.
  Qed.

  (* ---- colours ---- *)
  (* one channel: the numeral of a u32 under the element shape = the U32 token under it *)
  Lemma chan_agree e x o : chan_shared pf cfg e x -> x < 4294967296 ->
    tspec_v (TextDoc.VScalar Unq (dec_N x)) e o = visit_prim F e (PU x).
  Proof.
    intros Hs Hx.
    assert (Ed : dec_N x = fmt_int 0 (Z.of_N x)).
    { unfold fmt_int. replace (Z.of_N x <? 0)%Z with false by (symmetry; apply Z.ltb_ge; lia).
      cbn [Nat.sub pad0 app]. rewrite Zabs2N.id. reflexivity. }
    assert (Hfit : int_fits WU32 (Z.of_N x)) by (cbn [int_fits]; lia).
    assert (Hb : forall sh, bin_visit cfg sh (int_tok WU32 (Z.of_N x)) = visit_prim F sh (PU x)).
    { intros sh. unfold bin_visit. cbn [int_tok BinDoc.scalar_prim obind]. rewrite N2Z.id. reflexivity. }
    destruct e; cbn [chan_shared] in Hs; try contradiction.
    - (* bool *)
      rewrite tspec2_scalar_eq, (tspec_scalar decode pf cfg _ _ ShBool o I) by discriminate. cbn [spec_scalar].
      fold (text_visit decode pf cfg ShBool (dec_N x)). rewrite Ed, (int_agree_bool decode pf cfg WU32 _ Hfit). apply Hb.
    - rewrite tspec2_scalar_eq, (tspec_scalar decode pf cfg _ _ (ShU bits) o I) by discriminate. cbn [spec_scalar].
      fold (text_visit decode pf cfg (ShU bits) (dec_N x)). rewrite Ed, (int_agree_u decode pf cfg bits WU32 _ Hfit) by lia. apply Hb.
    - rewrite tspec2_scalar_eq, (tspec_scalar decode pf cfg _ _ (ShI bits) o I) by discriminate. cbn [spec_scalar].
      fold (text_visit decode pf cfg (ShI bits) (dec_N x)). rewrite Ed, (int_agree_i decode pf cfg bits WU32 _ Hfit) by lia. apply Hb.
    - rewrite tspec2_scalar_eq, (tspec_scalar decode pf cfg _ _ ShF32 o I) by discriminate. cbn [spec_scalar].
      fold (text_visit decode pf cfg ShF32 (dec_N x)). rewrite Ed, (int_agree_float decode pf cfg ShF32 WU32 _ (or_introl eq_refl) Hfit Hs). apply Hb.
    - rewrite tspec2_scalar_eq, (tspec_scalar decode pf cfg _ _ ShF64 o I) by discriminate. cbn [spec_scalar].
      fold (text_visit decode pf cfg ShF64 (dec_N x)). rewrite Ed, (int_agree_float decode pf cfg ShF64 WU32 _ (or_intror eq_refl) Hfit Hs). apply Hb.
    - rewrite tspec2_ign. reflexivity.
  Qed.

  (* the channels under the element shape e, in order, stopping at the first refusal (serde's visitors) *)
  Fixpoint chans_vals (e : shape) (l : list N) : outcome (list dval) :=
    match l with
    | [] => Ok []
    | x :: r => do v <- visit_prim F e (PU x); do rest <- chans_vals e r; Ok (v :: rest)
    end.

  Lemma chans_text e l : Forall (chan_shared pf cfg e) l -> Forall (fun x => x < 4294967296) l ->
    titems (tvalues (map (fun x => TextDoc.VScalar Unq (dec_N x)) l)) e = chans_vals e l.
  Proof.
    induction l as [|x r IH]; intros Hs Hr; [reflexivity|].
    inversion Hs as [|? ? Hs1 Hs2]; subst. inversion Hr as [|? ? Hr1 Hr2]; subst.
    cbn [map tvalues chans_vals]. rewrite titems_cons. rewrite (chan_agree e x None Hs1 Hr1).
    destruct (visit_prim F e (PU x)); cbn [obind]; try reflexivity. rewrite (IH Hs2 Hr2). reflexivity.
  Qed.

  (* InnerColorSequence under Vec<e> *)
  Lemma inner_seq c e :
    visit_seq (inner_elem cfg c) 6 (ShSeq e) 0%nat = omap (fun vs => (DSeq vs, length (rgb_channels c), true)) (chans_vals e (rgb_channels c)).
  Proof.
    destruct c as [r g b [a|]]; cbv -[visit_prim c_fops];
      (destruct (visit_prim (c_fops cfg) e (PU r)); try reflexivity);
      (destruct (visit_prim (c_fops cfg) e (PU g)); try reflexivity);
      (destruct (visit_prim (c_fops cfg) e (PU b)); try reflexivity).
    destruct (visit_prim (c_fops cfg) e (PU a)); reflexivity.
  Qed.

  Lemma inner_ign c : exists n, visit_seq (inner_elem cfg c) 6 ShIgn 0%nat = Ok (DIgn, n, true).
  Proof. destruct c as [r g b [a|]]; eexists; reflexivity. Qed.

  (* ColorSequence under a pair *)
  Lemma color_elem0 c s : color_elem cfg c s 0%nat = (do v <- visit_prim F s (PStr RGB_NAME); Ok (Some v, 1%nat)).
  Proof. reflexivity. Qed.
  Lemma color_elem1 c s : color_elem cfg c s 1%nat = (do (r, _) <- visit_seq (inner_elem cfg c) 6 s 0%nat; Ok (Some (fst r), 2%nat)).
  Proof. reflexivity. Qed.

  Lemma color_pair f s1 s2 c :
    color_visit cfg f (ShTup [s1; s2]) c =
    (do v1 <- visit_prim F s1 (PStr RGB_NAME); do r <- visit_seq (inner_elem cfg c) 6 s2 0%nat; Ok (DSeq [v1; fst (fst r)])).
  Proof.
    unfold color_visit.
    change (visit_seq (color_elem cfg c) 4 (ShTup [s1; s2]) 0%nat)
      with (do (vs, a') <- tup_loop (color_elem cfg c) [s1; s2] 0%nat []; Ok (DSeq vs, a', false)).
    cbn [tup_loop]. rewrite color_elem0.
    destruct (visit_prim F s1 (PStr RGB_NAME)); cbn [obind]; try reflexivity.
    rewrite color_elem1.
    destruct (visit_seq (inner_elem cfg c) 6 s2 0%nat) as [[[r0 a0] b0]| | | |]; reflexivity.
  Qed.

  Lemma bwalk_rgb f ss c st :
    bwalk (S f) false (ShTup ss) (BinDoc.VRgb c) st = (do v <- color_visit cfg f (ShTup ss) c; Ok (v, st)).
  Proof. reflexivity. Qed.

  Lemma hname_str name : hname decode pf F ShStr name = Ok (DStr (tdec decode name)).
  Proof. reflexivity. Qed.
  Lemma hname_ign name : hname decode pf F ShIgn name = Ok DIgn.
  Proof. reflexivity. Qed.

  Lemma walk_rgbx f core c st o :
    rgb_shared tp decode pf cfg core c -> rgb_ok c ->
    bwalk (S f) false core (BinDoc.VRgb c) st = omap (st_pair st) (tspec_v (to_textx_val (XRgb c)) core o).
  Proof.
    intros (Htp & Hname & Hs) Hok.
    destruct core; try contradiction. destruct ss as [|s1 [|s2 [|s3 ss]]]; try contradiction.
    destruct Hs as [H1 H2].
    cbn [to_textx_val]. unfold rgb_text. rewrite (tspec2_header_tup _ _ s1 s2 o Htp).
    rewrite bwalk_rgb, color_pair.
    assert (E1 : hname decode pf F s1 RGB_NAME = visit_prim F s1 (PStr RGB_NAME)).
    { destruct H1 as [-> | ->]; [rewrite hname_str, Hname; reflexivity|reflexivity]. }
    rewrite E1. destruct (visit_prim F s1 (PStr RGB_NAME)) as [v1| | | |]; cbn [obind omap]; try reflexivity.
    destruct s2; try contradiction.
    - (* Vec<e> *)
      rewrite inner_seq, tspec2_seq. rewrite (chans_text s2 _ H2 Hok).
      destruct (chans_vals s2 (rgb_channels c)); reflexivity.
    - (* ignored *)
      destruct (inner_ign c) as [n ->]. rewrite tspec2_ign. reflexivity.
  Qed.

  (* ---- the statement proved by induction on the logical value ---- *)
  Definition xagree_at (v : xval) : Prop :=
    forall sh e fuel st o, shv sh v -> eok e v -> (bsize sh + xsize v <= fuel)%nat ->
      bwalk fuel false sh (to_binx_val e v) st = omap (st_pair st) (tspec_v (to_textx_val v) sh o).

  Notation elem := (elem_of ops).
  Notation keyf := (key_of ops).
  Notation valf := (value_of ops).

  Lemma xseq_loop_agree f s vs : Forall xagree_at vs ->
    forall n e i acc, xshared_seq tp decode pf cfg s vs -> enc_okx_vals decode cfg e i vs ->
      (bsize s + xsize_vals vs <= f)%nat -> (length vs < n)%nat ->
      seq_loop (elem (bwalk f)) n s (BinDoc.CSeq (to_binx_vals e i vs)) acc
      = omap (fun r => (rev acc ++ r, BinDoc.CDone)) (titems (to_textx_vals vs) s).
  Proof.
    induction 1 as [|x r Hx Hr IH]; intros n e i acc Hs He Hf Hn; (destruct n as [|n]; [cbn [length] in Hn; lia|]).
    - cbn. rewrite app_nil_r. reflexivity.
    - cbn [xshared_seq enc_okx_vals xsize_vals length to_binx_vals to_textx_vals] in *.
      destruct Hs as [Hs1 Hs2]. destruct He as [He1 He2].
      cbn [seq_loop]. unfold elem_of at 1. cbn [p_next_elem ops BinDoc.ops_doc BinDoc.doc_next_elem obind].
      rewrite (Hx s (sub e i) f _ None Hs1 He1) by lia.
      rewrite titems_cons. destruct (tspec_v (to_textx_val x) s None) as [d| | | |]; unfold st_pair; cbn [omap obind]; try reflexivity.
      rewrite (IH n e (S i) (d :: acc) Hs2 He2) by lia.
      destruct (titems (to_textx_vals r) s); cbn [omap obind rev]; try reflexivity.
      rewrite <- app_assoc. reflexivity.
  Qed.

  Lemma xtup_loop_agree f vs : Forall xagree_at vs ->
    forall ss e i acc, xshared_tup tp decode pf cfg vs ss -> enc_okx_vals decode cfg e i vs ->
      (fold_right (fun s n => (bsize s + n)%nat) 0%nat ss + xsize_vals vs <= f)%nat ->
      tup_loop (elem (bwalk f)) ss (BinDoc.CSeq (to_binx_vals e i vs)) acc
      = omap (fun r => (rev acc ++ r, BinDoc.CSeq [])) (ttuple (to_textx_vals vs) ss).
  Proof.
    induction 1 as [|x r Hx Hr IH]; intros ss e i acc Hs He Hf.
    - destruct ss as [|s ss]; cbn; [rewrite app_nil_r|]; reflexivity.
    - destruct ss as [|s ss]; [contradiction|].
      cbn [xshared_tup enc_okx_vals xsize_vals length to_binx_vals to_textx_vals fold_right] in *.
      destruct Hs as [Hs1 Hs2]. destruct He as [He1 He2].
      cbn [tup_loop]. unfold elem_of at 1. cbn [p_next_elem ops BinDoc.ops_doc BinDoc.doc_next_elem obind].
      rewrite (Hx s (sub e i) f _ None Hs1 He1) by lia.
      rewrite ttuple_cons. destruct (tspec_v (to_textx_val x) s None) as [d| | | |]; unfold st_pair; cbn [omap obind]; try reflexivity.
      rewrite (IH ss e (S i) (d :: acc) Hs2 He2) by lia.
      destruct (ttuple (to_textx_vals r) ss); cbn [omap obind rev]; try reflexivity.
      rewrite <- app_assoc. reflexivity.
  Qed.

  Lemma xkey_prim e i fl : key_okx decode cfg e i fl ->
    BinDoc.scalar_prim cfg (bin_str (ch_key (e [i])) (xf_key fl)) = Ok (PStr (tdec decode (text_raw (xf_kind fl) (xf_key fl)))).
  Proof. apply str_prim_ok. Qed.

  Lemma xkey_str_walk f e i fl st : key_okx decode cfg e i fl ->
    bwalk (S f) true ShStr (BinDoc.VScalar (bin_str (ch_key (e [i])) (xf_key fl))) st
    = Ok (DStr (tdec decode (text_raw (xf_kind fl) (xf_key fl))), st).
  Proof.
    intros Hk. rewrite bwalk_plain by exact I. unfold walk_plain. cbn [hint_of p_dispatch ops BinDoc.ops_doc].
    rewrite dispatch_scalar by discriminate. rewrite (xkey_prim e i fl Hk). reflexivity.
  Qed.

  Lemma xmap_loop_agree f s fs : Forall (fun fl => xagree_at (xf_val fl)) fs ->
    forall n e i g acc am sl rt, xshared_map tp decode pf cfg s fs -> enc_okx_fields decode cfg e i fs ->
      (bsize s + xsize_fields fs <= f)%nat -> (1 <= f)%nat -> (length fs < n)%nat ->
      map_loop (keyf (bwalk f) rt) (valf (bwalk f)) n s (BinDoc.CMap (to_binx_fields e i fs) g None) acc
      = omap (fun a => (rev (a_map a), BinDoc.CDone)) (tfields (to_textx_fields fs) (WMap s) (mkacc acc am sl)).
  Proof.
    induction 1 as [|x r Hx Hr IH]; intros n e i g acc am sl rt Hs He Hf H1 Hn; (destruct n as [|n]; [cbn [length] in Hn; lia|]).
    - reflexivity.
    - cbn [xshared_map enc_okx_fields xsize_fields length to_binx_fields to_textx_fields] in *.
      destruct Hs as [Hs1 Hs2]. destruct He as [[Hk He1] He2].
      destruct f as [|f']; [lia|].
      cbn [map_loop]. unfold key_of at 1.
      cbn [p_next_key ops BinDoc.ops_doc BinDoc.doc_next_key obind bin_fieldx BinDoc.bf_key BinDoc.bf_val fst snd].
      rewrite (xkey_str_walk f' e i x _ Hk). cbn [obind].
      unfold value_of at 1. cbn [p_next_value ops BinDoc.ops_doc BinDoc.doc_next_value obind].
      rewrite (Hx s (sub e i) (S f') _ (Some Equal) Hs1 He1) by lia.
      unfold to_textx_field. rewrite tfields_cons. cbn [entry op_or_equal].
      destruct (tspec_v (to_textx_val (xf_val x)) s (Some Equal)) as [d| | | |]; unfold st_pair; cbn [omap obind]; try reflexivity.
      cbn [fst a_map a_amap a_slots].
      apply (IH n e (S i) g _ am sl rt Hs2 He2); lia.
  Qed.

  Lemma tfields_len tk fds fs : forall a a', tfields (to_textx_fields fs) (WStruct tk fds) a = Ok a' ->
    length (a_slots a') = length (a_slots a).
  Proof.
    induction fs as [|fl fs IH]; intros a a'.
    - intros H. injection H as <-. reflexivity.
    - cbn [to_textx_fields]. unfold to_textx_field. rewrite tfields_cons.
      destruct (entry _ _ (WStruct tk fds) a _ _ tt tt) as [r| | | |] eqn:E; cbn [obind]; try discriminate.
      intros H. rewrite (IH _ _ H). eapply entry_struct_len. exact E.
  Qed.

  Lemma xstruct_loop_agree f fds fs : Forall (fun fl => xagree_at (xf_val fl)) fs ->
    forall n e i g a rt, xshared_struct tp decode pf cfg fds fs -> enc_okx_fields decode cfg e i fs ->
      (ssum fds + xsize_fields fs <= f)%nat -> (1 <= f)%nat -> (length fs < n)%nat ->
      struct_loop (keyf (bwalk f) rt) (valf (bwalk f)) n false fds (BinDoc.CMap (to_binx_fields e i fs) g None) (bsl a)
      = omap (fun a' => (bsl a', BinDoc.CDone)) (tfields (to_textx_fields fs) (WStruct false fds) a).
  Proof.
    induction 1 as [|x r Hx Hr IH]; intros n e i g a rt Hs He Hf H1 Hn; (destruct n as [|n]; [cbn [length] in Hn; lia|]).
    - reflexivity.
    - cbn [xshared_struct enc_okx_fields xsize_fields length to_binx_fields to_textx_fields] in *.
      destruct Hs as [Hs1 Hs2]. destruct He as [[Hk He1] He2].
      destruct f as [|f']; [lia|].
      cbn [struct_loop]. unfold key_of at 1.
      cbn [p_next_key p_dispatch ops BinDoc.ops_doc BinDoc.doc_next_key obind bin_fieldx BinDoc.bf_key BinDoc.bf_val fst snd].
      rewrite dispatch_scalar by discriminate. rewrite (xkey_prim e i x Hk). cbn [obind visit_field].
      rewrite field_by_name_find.
      unfold to_textx_field. rewrite tfields_cons. cbn [entry andb op_or_equal].
      fold (tdec decode (text_raw (xf_kind x) (xf_key x))).
      destruct (find_name fds (tdec decode (text_raw (xf_kind x) (xf_key x))) 0) as [[j fd]|] eqn:Ef; cbn [option_map fst].
      + destruct (find_name_nth _ _ _ _ _ Ef) as [_ Hnth]. rewrite Nat.sub_0_r in Hnth. rewrite Hnth.
        pose proof (find_name_size _ _ _ _ _ Ef) as Hsz.
        unfold value_of at 1. cbn [p_next_value ops BinDoc.ops_doc BinDoc.doc_next_value obind].
        assert (Hv : bwalk (S f') false (f_shape fd) (to_binx_val (sub e i) (xf_val x)) (BinDoc.CMap (to_binx_fields e (S i) r) g None)
                     = omap (st_pair (BinDoc.CMap (to_binx_fields e (S i) r) g None)) (tspec_v (to_textx_val (xf_val x)) (f_shape fd) (Some Equal)))
          by (apply Hx; [exact Hs1|exact He1|lia]).
        destruct (f_mode fd) eqn:Em.
        * rewrite slot_pre_once. destruct (slot_full a j); [reflexivity|]. cbn [obind].
          rewrite Hv. destruct (tspec_v (to_textx_val (xf_val x)) (f_shape fd) (Some Equal)) as [d| | | |]; unfold st_pair; cbn [omap obind]; try reflexivity.
          rewrite slot_put_set by discriminate. cbn [fst]. apply (IH n e (S i) g _ rt Hs2 He2); lia.
        * cbn [slot_pre obind]. rewrite Hv.
          destruct (tspec_v (to_textx_val (xf_val x)) (f_shape fd) (Some Equal)) as [d| | | |]; unfold st_pair; cbn [omap obind]; try reflexivity.
          rewrite slot_put_push. cbn [fst]. apply (IH n e (S i) g _ rt Hs2 He2); lia.
        * cbn [slot_pre obind]. rewrite Hv.
          destruct (tspec_v (to_textx_val (xf_val x)) (f_shape fd) (Some Equal)) as [d| | | |]; unfold st_pair; cbn [omap obind]; try reflexivity.
          rewrite slot_put_set by discriminate. cbn [fst]. apply (IH n e (S i) g _ rt Hs2 He2); lia.
      + unfold value_of at 1. cbn [p_next_value ops BinDoc.ops_doc BinDoc.doc_next_value obind].
        rewrite bwalk_ign. rewrite tspec2_ign. cbn [omap obind fst]. apply (IH n e (S i) g _ rt Hs2 He2); lia.
  Qed.

  Lemma xagree_opt_lift v :
    (forall sh e fuel st o, strip_opt sh = sh -> shv sh v -> eok e v -> (bsize sh + xsize v <= fuel)%nat ->
       bwalk fuel false sh (to_binx_val e v) st = omap (st_pair st) (tspec_v (to_textx_val v) sh o)) -> xagree_at v.
  Proof.
    intros Hcore sh. induction sh; intros e fuel st o Hs He Hf; try (apply Hcore; [reflexivity|assumption..]).
    apply -> (xshared_opt tp decode pf cfg) in Hs. cbn [BinDeCommon.shape_size] in Hf.
    destruct fuel as [|fuel]; [lia|]. rewrite bwalk_opt, tspec2_opt.
    rewrite (IHsh e fuel st o Hs He) by lia.
    destruct (tspec_v (to_textx_val v) sh o); reflexivity.
  Qed.

  Theorem xval_agree v : xagree_at v.
  Proof.
    induction v as [l|c|vs IH|fs IH] using xval_ind'; apply xagree_opt_lift; intros sh e fuel st o Hc Hs He Hf;
      (destruct fuel as [|f]; [pose proof (bsize_pos sh); lia|]);
      (destruct (shape_eq_ign sh) as [-> | Hni]; [rewrite bwalk_ign, tspec2_ign; reflexivity|]).
    - (* scalar *)
      apply xshared_scalar in Hs; [|rewrite Hc; exact Hni]. rewrite Hc in Hs.
      apply walk_scalarx; [| assumption | exact Hs | exact He].
      destruct sh; try exact I.
      + exfalso. eapply strip_opt_not_opt. exact Hc.
      + destruct l as [l|]; [destruct l|]; cbn [scalar_sharedx scalar_shared] in Hs; tauto.
    - (* colour *)
      apply xshared_rgb in Hs; [|rewrite Hc; exact Hni]. rewrite Hc in Hs.
      apply walk_rgbx; [exact Hs|exact He].
    - (* array *)
      rewrite to_binx_arr, to_textx_arr. rewrite xsize_arr in Hf. apply enc_okx_arr in He.
      destruct sh; try (exfalso; cbn [xshared_v strip_opt] in Hs; try contradiction; try congruence; eapply strip_opt_not_opt; exact Hc).
      + (* ShSeq *)
        apply xshared_seq_eq in Hs. cbn [BinDeCommon.shape_size] in Hf.
        rewrite bwalk_plain by exact I. unfold walk_plain.
        cbn [hint_of p_dispatch ops BinDoc.ops_doc BinDoc.doc_dispatch obind visit_seq].
        rewrite (xseq_loop_agree f sh vs IH f e 0%nat [] Hs He) by (pose proof (xsize_vals_len vs); lia).
        rewrite tspec2_seq. destruct (titems (to_textx_vals vs) sh); reflexivity.
      + (* ShTup *)
        apply xshared_tup_eq in Hs. cbn [BinDeCommon.shape_size] in Hf.
        rewrite bwalk_plain by exact I. unfold walk_plain.
        cbn [hint_of p_dispatch ops BinDoc.ops_doc BinDoc.doc_dispatch obind visit_seq].
        rewrite (xtup_loop_agree f vs IH ss e 0%nat [] Hs He) by lia.
        rewrite tspec2_tup. destruct (ttuple (to_textx_vals vs) ss); reflexivity.
    - (* object *)
      rewrite to_binx_obj, to_textx_obj. rewrite xsize_obj in Hf. apply enc_okx_obj in He. destruct He as [_ He].
      destruct sh; try (exfalso; eapply strip_opt_not_opt; exact Hc);
        try (exfalso; cbn [xshared_v strip_opt] in Hs; destruct Hs as [_ Hs]; try contradiction; congruence).
      + (* ShMap *)
        apply xshared_map_eq in Hs. destruct Hs as [_ Hs]. cbn [BinDeCommon.shape_size] in Hf.
        rewrite bwalk_plain by exact I. unfold walk_plain.
        cbn [hint_of p_dispatch ops BinDoc.ops_doc BinDoc.doc_dispatch obind visit_map].
        rewrite (xmap_loop_agree f sh fs IH f e 0%nat _ [] [] [] false Hs He) by (pose proof (xsize_fields_len fs); lia).
        rewrite tspec2_map. change (acc0 (WMap sh)) with (mkacc [] [] []).
        destruct (tfields (to_textx_fields fs) (WMap sh) (mkacc [] [] [])); reflexivity.
      + (* ShStruct *)
        destruct token; [exfalso; cbn [xshared_v strip_opt] in Hs; tauto|].
        apply xshared_struct_eq in Hs. destruct Hs as [_ Hs]. cbn [BinDeCommon.shape_size] in Hf. fold (ssum fields) in Hf.
        rewrite bwalk_plain by exact I. unfold walk_plain.
        cbn [hint_of p_dispatch ops BinDoc.ops_doc BinDoc.doc_dispatch obind visit_map].
        rewrite (bsl_init false fields).
        rewrite (xstruct_loop_agree f fields fs IH f e 0%nat _ _ false Hs He) by (pose proof (xsize_fields_len fs); lia).
        rewrite tspec2_struct.
        destruct (tfields (to_textx_fields fs) (WStruct false fields) (acc0 (WStruct false fields))) as [a'| | | |] eqn:E; try reflexivity.
        cbn [omap obind finish]. unfold bsl. rewrite finish_slots.
        * destruct (finish_fields fields (a_slots a')); reflexivity.
        * rewrite (tfields_len _ _ _ _ _ E). cbn [acc0 a_slots]. apply map_length.
  Qed.

  Lemma Forall_xagree_fields (d : xdoc) : Forall (fun fl : xfield => xagree_at (xf_val fl)) d.
  Proof. apply Forall_forall. intros x _. apply xval_agree. Qed.

  (* ---- the root ---- *)
  Theorem xspec_agree sh d e fuel :
    xshared tp decode pf cfg sh d -> enc_okx decode cfg e d -> (bsize sh + xsize_fields d < fuel)%nat ->
    spec_value2 tp decode pf F sh (to_textx d)
    = BinDoc.spec_value cfg fuel sh (fst (to_binx e d)) (snd (to_binx e d)).
  Proof.
    intros Hs (_ & _ & He) Hf. unfold BinDoc.spec_value, walk_root, spec_value2, to_textx, to_binx. cbn [fst snd].
    destruct sh; cbn [xshared] in Hs; try contradiction.
    - (* map *)
      cbn [BinDeCommon.shape_size] in Hf. cbn [wmode_core visit_map].
      rewrite (xmap_loop_agree fuel sh d (Forall_xagree_fields d) fuel e 0%nat _ [] [] [] true Hs He) by (pose proof (xsize_fields_len d); lia).
      change (acc0 (WMap sh)) with (mkacc [] [] []).
      destruct (tfields (to_textx_fields d) (WMap sh) (mkacc [] [] [])); reflexivity.
    - (* struct *)
      destruct token; [contradiction|].
      cbn [BinDeCommon.shape_size] in Hf. fold (ssum fields) in Hf. cbn [wmode_core visit_map].
      rewrite (bsl_init false fields).
      rewrite (xstruct_loop_agree fuel fields d (Forall_xagree_fields d) fuel e 0%nat _ _ true Hs He) by (pose proof (xsize_fields_len d); lia).
      destruct (tfields (to_textx_fields d) (WStruct false fields) (acc0 (WStruct false fields))) as [a'| | | |] eqn:E; try reflexivity.
      cbn [omap obind finish]. unfold bsl. rewrite finish_slots.
      + destruct (finish_fields fields (a_slots a')); reflexivity.
      + rewrite (tfields_len _ _ _ _ _ E). cbn [acc0 a_slots]. apply map_length.
  Qed.
End AgreeX.

(* ------------------------------------------------------------------ LogicDoc.shared is the XBase fragment of xshared
   (either flag): the theorems over xdoc subsume those of Props/C10_link.v on the documents of LogicDoc *)
Section EmbedShared.
  Variable tp : bool.
  Variable decode : bytes -> cow.
  Variable pf : bytes -> outcome N.
  Variable cfg : bcfg.

  Lemma of_lval_arr vs : of_lval (LArr vs) = XArr (map of_lval vs).
  Proof. reflexivity. Qed.
  Lemma of_lval_obj fs : of_lval (LObj fs) = XObj (map of_lfield fs).
  Proof. reflexivity. Qed.

  Lemma shared_embed_v v : forall sh, shared_v decode pf cfg sh v -> xshared_v tp decode pf cfg sh (of_lval v).
  Proof.
    induction v as [l|c|vs IH|fs IH] using lval_ind'; intros sh H.
    - cbn [of_lval shared_v xshared_v] in *. destruct (strip_opt sh); exact H.
    - cbn [of_lval shared_v xshared_v] in *. destruct (strip_opt sh); try contradiction. exact I.
    - rewrite of_lval_arr. cbn [shared_v xshared_v] in *.
      destruct (strip_opt sh) as [| | | | | | | |s|s|ss|s|tk fds|s|names| |]; try exact H; try contradiction.
      + induction IH as [|x r Hx Hr IHr]; [exact I|]. destruct H as [H1 H2]. cbn [map]. split; [apply Hx, H1|apply IHr, H2].
      + revert ss H. induction IH as [|x r Hx Hr IHr]; intros ss H; [exact I|].
        destruct ss as [|s ss']; [contradiction|]. destruct H as [H1 H2]. cbn [map]. split; [apply Hx, H1|apply IHr, H2].
    - rewrite of_lval_obj. cbn [shared_v xshared_v] in *.
      destruct (strip_opt sh) as [| | | | | | | |s|s|ss|s|tk fds|s|names| |]; try exact H; try (destruct H as [_ []]).
      + destruct H as [Hne H]. split; [destruct fs; [exfalso; apply Hne; reflexivity|discriminate]|].
        clear Hne. induction IH as [|x r Hx Hr IHr]; [exact I|]. destruct H as [H1 H2]. cbn [map]. split; [apply Hx, H1|apply IHr, H2].
      + destruct H as [Hne H]. split; [destruct fs; [exfalso; apply Hne; reflexivity|discriminate]|].
        destruct tk; [contradiction|].
        clear Hne. induction IH as [|x r Hx Hr IHr]; [exact I|]. destruct H as [H1 H2]. cbn [map]. split; [|apply IHr, H2].
        change (xf_val (of_lfield x)) with (of_lval (lf_val x)). change (xf_kind (of_lfield x)) with (lf_kind x).
        change (xf_key (of_lfield x)) with (lf_key x).
        destruct (find_name fds (tdec decode (text_raw (lf_kind x) (lf_key x))) 0) as [[j fd]|]; [apply Hx, H1|exact I].
  Qed.

  Theorem shared_embed sh d : shared decode pf cfg sh d -> xshared tp decode pf cfg sh (of_ldoc d).
  Proof.
    unfold of_ldoc. destruct sh; cbn [shared xshared]; try contradiction.
    - induction d as [|x r IH]; [intros; exact I|]. intros [H1 H2]. cbn [map xshared_map]. split; [apply shared_embed_v, H1|apply IH, H2].
    - destruct token; [contradiction|].
      induction d as [|x r IH]; [intros; exact I|]. intros [H1 H2]. cbn [map xshared_struct]. split; [|apply IH, H2].
      change (xf_val (of_lfield x)) with (of_lval (lf_val x)). change (xf_kind (of_lfield x)) with (lf_kind x).
      change (xf_key (of_lfield x)) with (lf_key x).
      destruct (find_name fields (tdec decode (text_raw (lf_kind x) (lf_key x))) 0) as [[j fd]|]; [apply shared_embed_v, H1|exact I].
  Qed.
End EmbedShared.

Section EmbedEnc.
  Variable decode : bytes -> cow.
  Variable cfg : bcfg.

  Lemma enc_embed_v v : forall e, enc_ok_v decode cfg e v -> enc_okx_v decode cfg e (of_lval v).
  Proof.
    induction v as [l|c|vs IH|fs IH] using lval_ind'; intros e H.
    - exact H.
    - exact H.
    - rewrite of_lval_arr. apply enc_okx_arr. apply (enc_ok_arr decode cfg) in H. revert H. generalize 0%nat.
      induction IH as [|x r Hx Hr IHr]; intros i H; [exact I|]. destruct H as [H1 H2]. cbn [map enc_okx_vals]. split; [apply Hx, H1|apply IHr, H2].
    - rewrite of_lval_obj. apply enc_okx_obj. apply (enc_ok_obj decode cfg) in H. destruct H as [Hg H]. split; [exact Hg|].
      revert H. generalize 0%nat.
      induction IH as [|x r Hx Hr IHr]; intros i H; [exact I|]. destruct H as [[Hk H1] H2]. cbn [map enc_okx_fields].
      split; [split; [exact Hk|apply Hx, H1]|apply IHr, H2].
  Qed.

  Theorem enc_embed e d : enc_ok decode cfg e d -> enc_okx decode cfg e (of_ldoc d).
  Proof.
    intros (Hg & Hem & H). split; [exact Hg|]. split; [intros Hd; apply Hem; destruct d; [reflexivity|discriminate]|].
    unfold of_ldoc. clear Hem. revert H. generalize 0%nat.
    induction d as [|x r IH]; intros i H; [exact I|]. destruct H as [[Hk H1] H2]. cbn [map enc_okx_fields].
    split; [split; [exact Hk|apply enc_embed_v, H1]|apply IH, H2].
  Qed.
End EmbedEnc.

Lemma wf_embed_v v : xwf (of_lval v) = lwf v.
Proof.
  induction v as [l|c|vs IH|fs IH] using lval_ind'; try reflexivity.
  - rewrite of_lval_arr. cbn [xwf lwf]. induction IH as [|x r Hx Hr IHr]; [reflexivity|]. cbn [map]. rewrite Hx, IHr. reflexivity.
  - rewrite of_lval_obj. cbn [xwf lwf]. f_equal; [destruct fs; reflexivity|].
    induction IH as [|x r Hx Hr IHr]; [reflexivity|]. cbn [map]. change (xf_val (of_lfield x)) with (of_lval (lf_val x)). rewrite Hx, IHr. reflexivity.
Qed.
Lemma wf_embed d : wf_xdoc (of_ldoc d) = wf_ldoc d.
Proof.
  unfold wf_xdoc, wf_ldoc, of_ldoc. induction d as [|x r IH]; [reflexivity|]. cbn [map xwf_fields lwf_fields].
  change (xf_val (of_lfield x)) with (of_lval (lf_val x)). rewrite wf_embed_v, IH. reflexivity.
Qed.

Lemma norgb_not_xrgb v : norgb v = true -> is_xrgb (of_lval v) = false.
Proof. destruct v; try discriminate; reflexivity. Qed.
Lemma rgbpos_embed_v v : norgb v = true -> rgbpos_v (of_lval v) = true.
Proof.
  induction v as [l|c|vs IH|fs IH] using lval_ind'; intros H; try reflexivity.
  - rewrite of_lval_arr. rewrite norgb_arr in H. cbn [rgbpos_v].
    induction IH as [|x r Hx Hr IHr]; [reflexivity|]. cbn [forallb] in H. apply andb_prop in H as [H1 H2].
    cbn [map]. rewrite (norgb_not_xrgb x H1), (Hx H1), (IHr H2). reflexivity.
  - rewrite of_lval_obj. rewrite norgb_obj in H. cbn [rgbpos_v].
    induction IH as [|x r Hx Hr IHr]; [reflexivity|]. cbn [forallb] in H. apply andb_prop in H as [H1 H2].
    cbn [map]. change (xf_val (of_lfield x)) with (of_lval (lf_val x)). rewrite (Hx H1), (IHr H2). reflexivity.
Qed.
Lemma rgbpos_embed d : norgb_fields d = true -> rgbpos (of_ldoc d) = true.
Proof.
  unfold of_ldoc. induction d as [|x r IH]; intros H; [reflexivity|]. cbn [norgb_fields] in H. apply andb_prop in H as [H1 H2].
  cbn [map rgbpos]. change (xf_val (of_lfield x)) with (of_lval (lf_val x)). rewrite (rgbpos_embed_v _ H1), (IH H2). reflexivity.
Qed.
