(* Proofs about DeriveMacro: the generated visitor (Derive.visit) computes the declarative reading of
   C18 (DeriveMacro.spec_visit) whenever the values of the declared fields deserialize; error kinds;
   the precedence rules of the attribute table. *)
From JV Require Import Bytes Derive DeriveMacro.
From JV.proofs Require Import DeriveProofs.
From Coq Require Import Arith Lia.

Section S.
  Variable V : Type.
  Notation fspec := (field_spec V).
  Notation kv := (key * outcome V)%type.
  Implicit Types (specs : list fspec) (kvs : list kv) (st : state V).

  (* ------------------------------------------------------------ indices delivered by the key match *)
  Lemma find_field_range : forall specs k o i,
    find_field V specs k o = Some i -> (o <= i < o + length specs)%nat.
  Proof.
    induction specs as [|f r IH]; intros k o i H; cbn [find_field length] in *; [discriminate|].
    destruct (key_matches V f k).
    - inversion H; subst. lia.
    - apply IH in H. lia.
  Qed.

  Lemma match_field_lt : forall specs k i, match_field V specs k = Some i -> (i < length specs)%nat.
  Proof. intros specs k i H. apply find_field_range in H. lia. Qed.

  Lemma occ_out_of_range : forall specs i kvs, (length specs <= i)%nat -> occ V specs i kvs = [].
  Proof.
    intros specs i. induction kvs as [|[k r] kvs IH]; intros L; cbn [occ]; [reflexivity|].
    destruct (match_field V specs k) as [j|] eqn:M; [|apply IH; exact L].
    apply match_field_lt in M. destruct (Nat.eqb_spec j i) as [->|_]; [lia|apply IH; exact L].
  Qed.

  Lemma okvals_length : forall l : list (outcome V), (length (okvals V l) <= length l)%nat.
  Proof. induction l as [|[v| | | |] l IH]; cbn [okvals length]; lia. Qed.

  Lemma okvals_map_ok : forall vs : list V, okvals V (map Ok vs) = vs.
  Proof. induction vs as [|v vs IH]; cbn [map okvals]; [reflexivity|rewrite IH; reflexivity]. Qed.

  (* ------------------------------------------------------------ the duplicate test *)
  Lemma existsb_false : forall (A : Type) (f : A -> bool) l, existsb f l = false -> forall x, In x l -> f x = false.
  Proof.
    intros A f l H x I. destruct (f x) eqn:E; [|reflexivity].
    assert (existsb f l = true) by (apply existsb_exists; eauto). congruence.
  Qed.

  Lemma dup_clash_true : forall specs kvs,
    dup_clash V specs kvs = true ->
    exists i, dup_of V specs i = Once /\ (2 <= length (occ V specs i kvs))%nat.
  Proof.
    intros specs kvs H. apply existsb_exists in H. destruct H as [i [_ T]]. exists i.
    unfold twice in T. destruct (dup_of V specs i); try discriminate. split; [reflexivity|].
    apply Nat.leb_le. exact T.
  Qed.

  Lemma dup_clash_intro : forall specs kvs i,
    dup_of V specs i = Once -> (2 <= length (occ V specs i kvs))%nat -> dup_clash V specs kvs = true.
  Proof.
    intros specs kvs i D L. apply existsb_exists. exists i. split.
    - apply in_seq. split; [lia|]. cbn. destruct (Nat.lt_ge_cases i (length specs)) as [G|G]; [exact G|].
      rewrite (occ_out_of_range specs i kvs G) in L. cbn in L. lia.
    - unfold twice. rewrite D. apply Nat.leb_le. exact L.
  Qed.

  Lemma dup_clash_false : forall specs kvs i,
    dup_clash V specs kvs = false -> dup_of V specs i = Once -> (length (occ V specs i kvs) <= 1)%nat.
  Proof.
    intros specs kvs i H D. destruct (Nat.lt_ge_cases (length (occ V specs i kvs)) 2) as [G|G]; [lia|].
    rewrite (dup_clash_intro specs kvs i D G) in H. discriminate.
  Qed.

  Lemma init_not_set : forall specs i, is_set V (init V specs i) = false.
  Proof. intros specs i. unfold init. destruct (dup_of V specs i); reflexivity. Qed.

  Lemma noclash_init : forall specs kvs, dup_clash V specs kvs = false -> ~ clash V specs (init V specs) kvs.
  Proof.
    intros specs kvs H [i [D [[S _]|L]]].
    - rewrite init_not_set in S. discriminate.
    - pose proof (dup_clash_false specs kvs i H D). lia.
  Qed.

  (* ------------------------------------------------------------ a duplicate is reported as a duplicate *)
  Lemma dup_error_kind : forall specs kvs i,
    values_ok V specs kvs -> dup_of V specs i = Once -> (2 <= length (occ V specs i kvs))%nat ->
    visit V specs kvs = Err E_DUP.
  Proof.
    intros specs kvs i OK D L. unfold visit.
    destruct (loop_total V specs kvs (init V specs) OK) as [[st' H]|H].
    - pose proof (dup_rejected_loop V specs i kvs (init V specs) D L) as F. rewrite H in F. discriminate.
    - rewrite H. reflexivity.
  Qed.

  (* ------------------------------------------------------------ extraction = the per-field reading *)
  Lemma extract_is_spec : forall all kvs st',
    visit_loop V all (init V all) kvs = Ok st' ->
    dup_clash V all kvs = false ->
    forall r o, (forall j f, nth_error r j = Some f -> nth_error all (o + j) = Some f) ->
    extract_from V r st' o = spec_fields V r all o kvs.
  Proof.
    intros all kvs st' H NC. induction r as [|f r IH]; intros o N; cbn [extract_from spec_fields]; [reflexivity|].
    assert (Nf : nth_error all o = Some f) by (rewrite <- (Nat.add_0_r o); apply N; reflexivity).
    assert (D : dup_of V all o = f_dup f) by (unfold dup_of; rewrite Nf; reflexivity).
    assert (IH' : extract_from V r st' (S o) = spec_fields V r all (S o) kvs).
    { apply IH. intros j g G. rewrite Nat.add_succ_comm. apply N. exact G. }
    rewrite IH'. unfold field_result.
    destruct (f_dup f) eqn:FD.
    - (* Once *)
      rewrite (once_value V all kvs st' o H D).
      pose proof (dup_clash_false all kvs o NC D) as L1.
      pose proof (okvals_length (occ V all o kvs)) as L2.
      destruct (okvals V (occ V all o kvs)) as [|v [|w l]] eqn:E; cbn [rev app length] in *; try lia.
      + unfold miss_result. destruct (f_miss f); cbn [obind]; reflexivity.
      + cbn [obind]. reflexivity.
    - (* Duplicated *)
      destruct (duplicated_collects V all kvs st' o H D) as [E _]. rewrite E. cbn [obind]. reflexivity.
    - (* TakeLast *)
      rewrite (take_last_last V all kvs st' o H D).
      destruct (rev (okvals V (occ V all o kvs))) as [|v l].
      + unfold miss_result. destruct (f_miss f); cbn [obind]; reflexivity.
      + cbn [obind]. reflexivity.
  Qed.

  (* ------------------------------------------------------------ the generated visitor computes the spec *)
  Theorem visit_is_spec : forall specs kvs,
    values_ok V specs kvs -> visit V specs kvs = spec_visit V specs kvs.
  Proof.
    intros specs kvs OK. unfold spec_visit. destruct (dup_clash V specs kvs) eqn:C.
    - destruct (dup_clash_true specs kvs C) as [i [D L]]. eapply dup_error_kind; eassumption.
    - destruct (noclash_ok V specs kvs (init V specs) OK (noclash_init specs kvs C)) as [st' H].
      unfold visit, extract. rewrite H. cbn [obind].
      apply (extract_is_spec specs kvs st' H C). intros j f G. exact G.
  Qed.

  (* ------------------------------------------------------------ missing fields: the error kind, on the whole visit *)
  Lemma spec_fields_cases : forall all kvs r o,
    (exists outs, spec_fields V r all o kvs = Ok outs) \/ spec_fields V r all o kvs = Err E_MISSING.
  Proof.
    intros all kvs. induction r as [|f r IH]; intros o; cbn [spec_fields]; [left; eauto|].
    assert (FR : (exists x, field_result V f (okvals V (occ V all o kvs)) = Ok x)
                 \/ field_result V f (okvals V (occ V all o kvs)) = Err E_MISSING).
    { unfold field_result, miss_result.
      destruct (f_dup f); [destruct (okvals V (occ V all o kvs))| |destruct (rev (okvals V (occ V all o kvs)))];
        try destruct (f_miss f); eauto. }
    destruct FR as [[x ->]| ->]; cbn [obind]; [|right; reflexivity].
    destruct (IH (S o)) as [[tl ->]| ->]; cbn [obind]; [left; eauto|right; reflexivity].
  Qed.

  Lemma spec_fields_missing : forall all kvs r o j f,
    nth_error r j = Some f -> f_dup f <> Duplicated -> f_miss f = Required ->
    okvals V (occ V all (o + j) kvs) = [] ->
    spec_fields V r all o kvs = Err E_MISSING.
  Proof.
    intros all kvs. induction r as [|g r IH]; intros o j f N ND R E; [destruct j; discriminate|].
    cbn [spec_fields]. destruct j as [|j]; cbn [nth_error] in N.
    - inversion N; subst g. rewrite Nat.add_0_r in E. rewrite E. unfold field_result, miss_result. rewrite R.
      destruct (f_dup f); cbn [rev obind]; try reflexivity. contradiction.
    - destruct (field_result V g (okvals V (occ V all o kvs))) as [x| | | |] eqn:FR; cbn [obind].
      + rewrite (IH (S o) j f N ND R); [reflexivity|]. rewrite Nat.add_succ_comm. exact E.
      + unfold field_result, miss_result in FR.
        destruct (f_dup g); [destruct (okvals V (occ V all o kvs))| |destruct (rev (okvals V (occ V all o kvs)))];
          try destruct (f_miss g); congruence.
      + unfold field_result, miss_result in FR.
        destruct (f_dup g); [destruct (okvals V (occ V all o kvs))| |destruct (rev (okvals V (occ V all o kvs)))];
          try destruct (f_miss g); congruence.
      + unfold field_result, miss_result in FR.
        destruct (f_dup g); [destruct (okvals V (occ V all o kvs))| |destruct (rev (okvals V (occ V all o kvs)))];
          try destruct (f_miss g); congruence.
      + unfold field_result, miss_result in FR.
        destruct (f_dup g); [destruct (okvals V (occ V all o kvs))| |destruct (rev (okvals V (occ V all o kvs)))];
          try destruct (f_miss g); congruence.
  Qed.

  (* a required field without an occurrence, no plain field given twice: missing_field, whatever the order *)
  Theorem missing_error_kind : forall specs kvs i f,
    values_ok V specs kvs -> dup_clash V specs kvs = false ->
    nth_error specs i = Some f -> f_dup f <> Duplicated -> f_miss f = Required ->
    occ V specs i kvs = [] ->
    visit V specs kvs = Err E_MISSING.
  Proof.
    intros specs kvs i f OK C N ND R E. rewrite (visit_is_spec specs kvs OK). unfold spec_visit. rewrite C.
    apply (spec_fields_missing specs kvs specs 0 i f N ND R). cbn [Nat.add]. rewrite E. reflexivity.
  Qed.

  (* the only two failures with well-typed values *)
  Theorem visit_error_kinds : forall specs kvs,
    values_ok V specs kvs ->
    (exists outs, visit V specs kvs = Ok outs) \/ visit V specs kvs = Err E_DUP \/ visit V specs kvs = Err E_MISSING.
  Proof.
    intros specs kvs OK. rewrite (visit_is_spec specs kvs OK). unfold spec_visit.
    destruct (dup_clash V specs kvs); [right; left; reflexivity|].
    destruct (spec_fields_cases specs kvs specs 0) as [[outs ->]| ->]; eauto.
  Qed.

  (* ------------------------------------------------------------ the successful result, field by field *)
  Lemma spec_fields_nth : forall all kvs r o outs j f,
    spec_fields V r all o kvs = Ok outs -> nth_error r j = Some f ->
    exists x, nth_error outs j = Some x /\ field_result V f (okvals V (occ V all (o + j) kvs)) = Ok x.
  Proof.
    intros all kvs. induction r as [|g r IH]; intros o outs j f H N; [destruct j; discriminate|].
    cbn [spec_fields] in H.
    destruct (field_result V g (okvals V (occ V all o kvs))) as [x| | | |] eqn:FR; cbn [obind] in H; try discriminate.
    destruct (spec_fields V r all (S o) kvs) as [tl| | | |] eqn:T; cbn [obind] in H; try discriminate.
    inversion H; subst outs. destruct j as [|j]; cbn [nth_error] in *.
    - inversion N; subst g. exists x. rewrite Nat.add_0_r. auto.
    - destruct (IH (S o) tl j f T N) as [y [A B]]. exists y. rewrite <- Nat.add_succ_comm. auto.
  Qed.

  Theorem visit_ok_fields : forall specs kvs outs i f,
    values_ok V specs kvs -> visit V specs kvs = Ok outs -> nth_error specs i = Some f ->
    let vals := okvals V (occ V specs i kvs) in
    occ V specs i kvs = map Ok vals /\
    nth_error outs i = Some
      (match f_dup f with
       | Duplicated => OVec vals
       | TakeLast => match rev vals with v :: _ => OVal v | [] => match f_miss f with DefaultTo d => OVal d | Required => OVec [] end end
       | Once => match vals with v :: _ => OVal v | [] => match f_miss f with DefaultTo d => OVal d | Required => OVec [] end end
       end) /\
    (f_dup f = Once -> (length vals <= 1)%nat) /\
    (f_dup f <> Duplicated -> f_miss f = Required -> vals <> []).
  Proof.
    intros specs kvs outs i f OK H N vals.
    assert (OCC : occ V specs i kvs = map Ok vals).
    { unfold visit in H. destruct (visit_loop V specs (init V specs) kvs) as [st'| | | |] eqn:L; cbn [obind] in H; try discriminate.
      destruct (loop_ok_slot V specs kvs _ _ L i) as [_ E]. exact E. }
    split; [exact OCC|].
    pose proof H as H0. rewrite (visit_is_spec specs kvs OK) in H. unfold spec_visit in H.
    destruct (dup_clash V specs kvs) eqn:C; [discriminate|].
    destruct (spec_fields_nth specs kvs specs 0 outs i f H N) as [x [A B]]. cbn [Nat.add] in B. fold vals in B.
    assert (D : dup_of V specs i = f_dup f) by (unfold dup_of; rewrite N; reflexivity).
    unfold field_result, miss_result in B.
    split; [|split].
    - rewrite A. f_equal.
      destruct (f_dup f); [destruct vals| |destruct (rev vals)]; try destruct (f_miss f); congruence.
    - intros O. rewrite O in D. pose proof (dup_clash_false specs kvs i C D) as L1.
      pose proof (okvals_length (occ V specs i kvs)). fold vals in H1. lia.
    - intros ND R E. rewrite E, R in B. destruct (f_dup f); cbn [rev] in B; try discriminate. contradiction.
  Qed.

  (* ------------------------------------------------------------ an ill-typed value of a declared field is never swallowed *)
  Theorem bad_value_rejected : forall specs kvs i r,
    In r (occ V specs i kvs) -> (forall v, r <> Ok v) -> is_ok (visit V specs kvs) = false.
  Proof.
    intros specs kvs i r I B. unfold visit.
    destruct (visit_loop V specs (init V specs) kvs) as [st'| | | |] eqn:L; cbn [obind is_ok]; try reflexivity.
    exfalso. destruct (loop_ok_slot V specs kvs _ _ L i) as [_ E]. rewrite E in I.
    apply in_map_iff in I. destruct I as [v [<- _]]. apply (B v). reflexivity.
  Qed.

  (* ------------------------------------------------------------ order independence without side conditions *)
  Lemma ok_values_ok : forall specs kvs, is_ok (visit V specs kvs) = true -> values_ok V specs kvs.
  Proof.
    intros specs kvs H i r I. unfold visit in H.
    destruct (visit_loop V specs (init V specs) kvs) as [st'| | | |] eqn:L; cbn [obind is_ok] in H; try discriminate.
    destruct (loop_ok_slot V specs kvs _ _ L i) as [_ E]. rewrite E in I.
    apply in_map_iff in I. destruct I as [v [<- _]]. eauto.
  Qed.

  Theorem order_independent_total : forall specs kvs kvs',
    (forall i, occ V specs i kvs = occ V specs i kvs') ->
    is_ok (visit V specs kvs) = is_ok (visit V specs kvs') /\
    (is_ok (visit V specs kvs) = true -> visit V specs kvs = visit V specs kvs').
  Proof.
    intros specs kvs kvs' E.
    assert (A : forall a b, (forall i, occ V specs i a = occ V specs i b) ->
                is_ok (visit V specs a) = true -> visit V specs a = visit V specs b).
    { intros a b Eab H. apply perm_invariant; [apply ok_values_ok; exact H|exact Eab]. }
    split; [|apply A; exact E].
    destruct (is_ok (visit V specs kvs)) eqn:H1.
    - rewrite <- (A kvs kvs' E H1). symmetry. exact H1.
    - destruct (is_ok (visit V specs kvs')) eqn:H2; [|reflexivity].
      assert (E' : forall i, occ V specs i kvs' = occ V specs i kvs) by (intros i; symmetry; apply E).
      rewrite <- (A kvs' kvs E' H2) in H1. congruence.
  Qed.

  Lemma reorder_occ : forall specs a b, reorder V specs a b -> forall i, occ V specs i a = occ V specs i b.
  Proof.
    intros specs a b R. induction R as [l|l1 k1 r1 k2 r2 l2 H|a b c _ IH1 _ IH2]; intros i.
    - reflexivity.
    - apply occ_swap. exact H.
    - rewrite IH1. apply IH2.
  Qed.

  Theorem reorder_invariant : forall specs kvs kvs',
    reorder V specs kvs kvs' ->
    is_ok (visit V specs kvs) = is_ok (visit V specs kvs') /\
    (is_ok (visit V specs kvs) = true -> visit V specs kvs = visit V specs kvs').
  Proof. intros specs kvs kvs' R. apply order_independent_total. apply reorder_occ. exact R. Qed.

  (* ------------------------------------------------------------ the attribute table *)
  Notation attrs := (field_attrs V).

  Lemma attrs_duplicated_wins : forall a : attrs, a_duplicated a = true -> f_dup (spec_of_attrs V a) = Duplicated.
  Proof. intros a H. cbn. unfold dup_of_attrs. rewrite H. reflexivity. Qed.

  Lemma attrs_take_last : forall a : attrs, a_duplicated a = false -> a_take_last a = true -> f_dup (spec_of_attrs V a) = TakeLast.
  Proof. intros a H1 H2. cbn. unfold dup_of_attrs. rewrite H1, H2. reflexivity. Qed.

  Lemma attrs_plain : forall a : attrs, a_duplicated a = false -> a_take_last a = false -> f_dup (spec_of_attrs V a) = Once.
  Proof. intros a H1 H2. cbn. unfold dup_of_attrs. rewrite H1, H2. reflexivity. Qed.

  Lemma attrs_missing : forall a : attrs,
    f_miss (spec_of_attrs V a) =
      match a_default a with
      | DefPath => DefaultTo (a_path_default a)
      | DefWord => DefaultTo (a_type_default a)
      | DefAbsent => if a_option a then DefaultTo (a_type_default a) else Required
      end.
  Proof. reflexivity. Qed.

  Lemma attrs_policy : forall a : attrs,
    f_dup (spec_of_attrs V a) =
      (if a_duplicated a then Duplicated else if a_take_last a then TakeLast else Once)
    /\ f_miss (spec_of_attrs V a) =
      (match a_default a with
       | DefPath => DefaultTo (a_path_default a)
       | DefWord => DefaultTo (a_type_default a)
       | DefAbsent => if a_option a then DefaultTo (a_type_default a) else Required
       end).
  Proof. intros a. split; reflexivity. Qed.

  (* `default = "fn"` is the field's default whatever the type *)
  Lemma attrs_default_fn_wins : forall a : attrs,
    a_default a = DefPath -> f_miss (spec_of_attrs V a) = DefaultTo (a_path_default a).
  Proof. intros a H. cbn. unfold miss_of_attrs. rewrite H. reflexivity. Qed.

  Lemma attrs_alias_replaces_name : forall (a : attrs) al rest,
    a_aliases a = al :: rest ->
    key_matches V (spec_of_attrs V a) (KStr al) = true /\
    (a_name a <> al -> key_matches V (spec_of_attrs V a) (KStr (a_name a)) = false) /\
    (forall al', al' <> al -> key_matches V (spec_of_attrs V a) (KStr al') = false).
  Proof.
    intros a al rest H. cbn [key_matches spec_of_attrs f_key]. unfold key_of_attrs. rewrite H.
    split; [apply beqb_refl|]. split.
    - intros NE. destruct (beqb (a_name a) al) eqn:E; [|reflexivity]. apply beqb_eq in E. contradiction.
    - intros al' NE. destruct (beqb al' al) eqn:E; [|reflexivity]. apply beqb_eq in E. contradiction.
  Qed.

  Lemma attrs_no_alias_name : forall (a : attrs),
    a_aliases a = [] -> key_matches V (spec_of_attrs V a) (KStr (a_name a)) = true.
  Proof. intros a H. cbn [key_matches spec_of_attrs f_key]. unfold key_of_attrs. rewrite H. apply beqb_refl. Qed.

  Lemma attrs_token : forall (a : attrs) t rest,
    a_tokens a = t :: rest ->
    key_matches V (spec_of_attrs V a) (KTok t) = true /\
    (forall t', t' <> t -> key_matches V (spec_of_attrs V a) (KTok t') = false).
  Proof.
    intros a t rest H. cbn [key_matches spec_of_attrs f_token]. unfold token_of_attrs. rewrite H. split.
    - apply N.eqb_refl.
    - intros t' NE. destruct (N.eqb_spec t' t); [contradiction|reflexivity].
  Qed.

  (* the semantics of a derived struct, from its attribute table *)
  Theorem struct_semantics : forall (tbl : list attrs) kvs,
    values_ok V (map (spec_of_attrs V) tbl) kvs ->
    visit_attrs V tbl kvs = spec_visit V (map (spec_of_attrs V) tbl) kvs.
  Proof. intros tbl kvs OK. apply visit_is_spec. exact OK. Qed.
End S.

(* regression example (was the witness of finding option-default-fn): struct DOF
   { #[jomini(default = "default_some_seven")] o: Option<u8>, n: u8 } on `n=1` *)
Lemma option_default_fn_regression :
  let tbl := [mk_attrs [111%N] [] [] false false true DefPath 0%N 7%N;
              mk_attrs [110%N] [] [] false false false DefAbsent 0%N 0%N] in
  f_miss (spec_of_attrs N (mk_attrs [111%N] [] [] false false true DefPath 0%N 7%N)) = DefaultTo 7%N
  /\ visit_attrs N tbl [(KStr [110%N], Ok 1%N)] = Ok [OVal 7%N; OVal 1%N]
  /\ visit_attrs N tbl [(KStr [111%N], Ok 3%N); (KStr [110%N], Ok 1%N)] = Ok [OVal 3%N; OVal 1%N].
Proof. vm_compute. repeat split; reflexivity. Qed.

(* the order among the occurrences of ONE take_last field matters (by definition of take_last): the
   last sentence of the statement holds for rearrangements that keep each field's own sequence *)
Lemma take_last_own_order_matters : exists (specs : list (field_spec N)) kvs kvs',
  Permutation.Permutation kvs kvs' /\ is_ok (visit N specs kvs) = true /\ visit N specs kvs <> visit N specs kvs'.
Proof.
  exists [mk_field [99%N] None TakeLast Required], [(KStr [99%N], Ok 1%N); (KStr [99%N], Ok 2%N)], [(KStr [99%N], Ok 2%N); (KStr [99%N], Ok 1%N)].
  split; [apply Permutation.perm_swap|]. split; [reflexivity|]. vm_compute. intros H. discriminate H.
Qed.
