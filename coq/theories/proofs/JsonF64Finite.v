(* Json.to_f64 (the exact integer model of Scalar::to_f64, Json.v) only ever returns bit patterns of
   FINITE binary64 values: the biased exponent of every result is far below 2047, so
   JsonText.f64_is_finite holds and print_f64 never takes the "null" branch for a narrowed scalar.
   Pure N/Z arithmetic (no Flocq). *)
From Coq Require Import NArith ZArith Lia List Bool.
From JV Require Import Bytes Tables Scalar Json JsonText.
Import ListNotations.
Open Scope N_scope.

(* ================================================================ the scaling step *)
Definition scaled (p q : N) (e : Z) : N * N :=
  if (0 <=? e)%Z then (p, q * 2 ^ Z.to_N e) else (p * 2 ^ Z.to_N (- e), q).

Lemma div_lt_inv : forall a b c, 0 < b -> a / b < c -> a < c * b.
Proof.
  intros a b c Hb H.
  pose proof (N.div_mod a b ltac:(lia)) as E.
  pose proof (N.mod_lt a b ltac:(lia)) as L.
  assert (a / b + 1 <= c) as K by lia.
  apply (N.mul_le_mono_r _ _ b) in K. lia.
Qed.

Lemma pow2_pos : forall k, 0 < 2 ^ k.
Proof. intro k. apply N.neq_0_lt_0. apply N.pow_nonzero. discriminate. Qed.

Lemma scaled_den_pos : forall p q e, 0 < q -> 0 < snd (scaled p q e).
Proof.
  intros p q e Q. unfold scaled. destruct (0 <=? e)%Z; cbn [snd]; auto.
  pose proof (pow2_pos (Z.to_N e)). nia.
Qed.

(* at e0 = log2 p - log2 q - 52 the quotient is below 2^53 *)
Lemma scaled_e0 : forall p q, 0 < p -> 0 < q ->
  let e0 := (Z.of_N (N.log2 p) - Z.of_N (N.log2 q) - 52)%Z in
  fst (scaled p q e0) < 2 ^ 53 * snd (scaled p q e0).
Proof.
  intros p q P Q e0.
  destruct (N.log2_spec p P) as [_ HP]. destruct (N.log2_spec q Q) as [HQ _].
  set (lp := N.log2 p) in *. set (lq := N.log2 q) in *.
  unfold scaled. destruct (0 <=? e0)%Z eqn:S; cbn [fst snd].
  - apply Z.leb_le in S. set (k := Z.to_N e0).
    assert (N.succ lp = 53 + lq + k) as E by (unfold k, e0 in *; lia).
    rewrite E in HP. rewrite !N.pow_add_r in HP.
    pose proof (pow2_pos k). pose proof (pow2_pos 53).
    eapply N.lt_le_trans; [exact HP|].
    rewrite <- N.mul_assoc. apply N.mul_le_mono_l. apply N.mul_le_mono_r. exact HQ.
  - apply Z.leb_gt in S. set (k := Z.to_N (- e0)).
    assert (N.succ lp + k = 53 + lq) as E by (unfold k, e0 in *; lia).
    pose proof (pow2_pos k) as K.
    apply N.lt_le_trans with (2 ^ N.succ lp * 2 ^ k).
    + apply N.mul_lt_mono_pos_r; auto.
    + rewrite <- N.pow_add_r, E, N.pow_add_r. apply N.mul_le_mono_l. exact HQ.
Qed.

(* lowering the exponent by one doubles the quotient *)
Lemma scaled_step : forall p q e,
  fst (scaled p q (e - 1)) * snd (scaled p q e) = 2 * fst (scaled p q e) * snd (scaled p q (e - 1)).
Proof.
  intros p q e. unfold scaled.
  destruct (0 <=? e)%Z eqn:A; destruct (0 <=? e - 1)%Z eqn:B; cbn [fst snd];
    try apply Z.leb_le in A; try apply Z.leb_le in B; try apply Z.leb_gt in A; try apply Z.leb_gt in B;
    try lia.
  - replace (Z.to_N e) with (N.succ (Z.to_N (e - 1))) by lia. rewrite N.pow_succ_r'. ring.
  - assert (e = 0%Z) by lia. subst e. change (Z.to_N 0) with 0. change (Z.to_N (- (0 - 1))) with 1.
    change (2 ^ 0) with 1. change (2 ^ 1) with 2. ring.
  - replace (Z.to_N (- (e - 1))) with (N.succ (Z.to_N (- e))) by lia. rewrite N.pow_succ_r'. ring.
Qed.

(* ================================================================ f64_round_ratio *)
Definition rr_e0 (p q : N) : Z := (Z.of_N (N.log2 p) - Z.of_N (N.log2 q) - 52)%Z.

Definition rr_e (p q : N) : Z :=
  if fst (scaled p q (rr_e0 p q)) / snd (scaled p q (rr_e0 p q)) <? 2 ^ 52
  then (rr_e0 p q - 1)%Z else rr_e0 p q.

Lemma f64_round_ratio_eq : forall p q,
  f64_round_ratio p q =
  let e := rr_e p q in
  let n := fst (scaled p q e) in
  let d := snd (scaled p q e) in
  let m := n / d in
  let r := n mod d in
  let up := (d <? 2 * r) || ((2 * r =? d) && N.odd m) in
  let m' := if up then m + 1 else m in
  Z.to_N (e + 1075) * 2 ^ 52 + (m' - 2 ^ 52).
Proof.
  intros p q. unfold f64_round_ratio, rr_e, rr_e0, scaled. cbv beta zeta.
  destruct (0 <=? Z.of_N (N.log2 p) - Z.of_N (N.log2 q) - 52)%Z; cbn [fst snd];
    match goal with |- context [if ?c then (_ - 1)%Z else _] => destruct c end;
    match goal with |- context [(0 <=? ?x)%Z] => destruct (0 <=? x)%Z end; reflexivity.
Qed.

Lemma rr_quot_bound : forall p q, 0 < p -> 0 < q ->
  fst (scaled p q (rr_e p q)) < 2 ^ 53 * snd (scaled p q (rr_e p q)).
Proof.
  intros p q P Q. pose proof (scaled_e0 p q P Q) as H0. cbv zeta in H0. fold (rr_e0 p q) in H0.
  unfold rr_e. destruct (_ <? 2 ^ 52) eqn:C; [|exact H0].
  apply N.ltb_lt in C.
  pose proof (scaled_den_pos p q (rr_e0 p q) Q) as D0.
  pose proof (scaled_den_pos p q (rr_e0 p q - 1) Q) as D1.
  apply div_lt_inv in C; [|exact D0].
  pose proof (scaled_step p q (rr_e0 p q)) as S.
  set (n0 := fst (scaled p q (rr_e0 p q))) in *. set (d0 := snd (scaled p q (rr_e0 p q))) in *.
  set (n := fst (scaled p q (rr_e0 p q - 1))) in *. set (d := snd (scaled p q (rr_e0 p q - 1))) in *.
  replace (2 ^ 53) with (2 * 2 ^ 52) by reflexivity.
  set (T := 2 ^ 52) in *.
  apply (N.mul_lt_mono_pos_r d0); [exact D0|]. rewrite S.
  replace (2 * T * d * d0) with (2 * (T * d0) * d) by ring.
  apply N.mul_lt_mono_pos_r; [exact D1|]. apply N.mul_lt_mono_pos_l; [lia|exact C].
Qed.

Lemma rr_e_le : forall p q, (rr_e p q <= Z.of_N (N.log2 p) - 52)%Z.
Proof. intros p q. unfold rr_e, rr_e0. destruct (_ <? _); lia. Qed.

(* the key bound: the biased exponent of the rounding of p/q is at most log2 p + 1025 *)
Lemma f64_round_ratio_le : forall p q, 0 < p -> 0 < q ->
  f64_round_ratio p q <= (N.log2 p + 1025) * 2 ^ 52.
Proof.
  intros p q P Q. rewrite f64_round_ratio_eq. cbv zeta.
  pose proof (rr_quot_bound p q P Q) as B. pose proof (rr_e_le p q) as E.
  pose proof (scaled_den_pos p q (rr_e p q) Q) as D.
  set (e := rr_e p q) in *. set (n := fst (scaled p q e)) in *. set (d := snd (scaled p q e)) in *.
  assert (n / d < 2 ^ 53) as M by (apply N.div_lt_upper_bound; [lia|]; rewrite N.mul_comm; exact B).
  set (m := n / d) in *.
  match goal with |- context [if ?c then m + 1 else m] => set (m' := if c then m + 1 else m) end.
  assert (m' <= 2 ^ 53) as M' by (unfold m'; match goal with |- context [if ?c then _ else _] => destruct c end; lia).
  assert (Z.to_N (e + 1075) <= N.log2 p + 1023) as BI by lia.
  replace (2 ^ 53) with (2 * 2 ^ 52) in M' by reflexivity.
  set (T := 2 ^ 52) in *. clearbody T m'. clear - M' BI.
  apply (N.mul_le_mono_r _ _ T) in BI. lia.
Qed.

Lemma f64_round_ratio_bound : forall p q, 0 < p -> 0 < q -> p < 2 ^ 70 ->
  f64_round_ratio p q < 1200 * 2 ^ 52.
Proof.
  intros p q P Q L. pose proof (f64_round_ratio_le p q P Q) as H.
  apply N.log2_lt_pow2 in L; [|exact P].
  eapply N.le_lt_trans; [exact H|]. apply N.mul_lt_mono_pos_r; [apply pow2_pos|lia].
Qed.

(* ================================================================ f64_of_u64_value *)
Lemma f64_of_u64_value_lt : forall i, i < 2 ^ 64 -> f64_of_u64_value i < 2 ^ 70.
Proof.
  intros i L. unfold f64_of_u64_value. destruct (i <? 2 ^ 53) eqn:C.
  - apply N.ltb_lt in C. eapply N.lt_trans; [exact C|]. apply N.pow_lt_mono_r; lia.
  - apply N.ltb_ge in C. cbv zeta.
    assert (0 < i) as P by (pose proof (pow2_pos 53); lia).
    pose proof (f64_round_ratio_le i 1 P ltac:(lia)) as H.
    apply N.log2_lt_pow2 in L; [|exact P].
    set (bits := f64_round_ratio i 1) in *.
    assert (bits / 2 ^ 52 < 1089) as B.
    { apply N.div_lt_upper_bound; [apply N.pow_nonzero; discriminate|].
      eapply N.le_lt_trans; [exact H|]. rewrite N.mul_comm. apply N.mul_lt_mono_pos_l; [apply pow2_pos|lia]. }
    pose proof (N.mod_lt bits (2 ^ 52) ltac:(apply N.pow_nonzero; discriminate)) as M.
    assert (2 ^ (bits / 2 ^ 52 - 1075) <= 2 ^ 13) as E by (apply N.pow_le_mono_r; lia).
    replace (2 ^ 70) with (2 * 2 ^ 52 * (2 ^ 13 * 2 ^ 4)) by reflexivity.
    set (T := 2 ^ 52) in *. set (x := bits mod T) in *. set (y := 2 ^ (bits / T - 1075)) in *.
    set (U := 2 ^ 13) in *. change (2 ^ 4) with 16.
    assert (0 < U) by apply pow2_pos.
    clearbody T x y U. clear - M E H0. nia.
Qed.

(* ================================================================ the digit loops stay below 2^64 *)
Lemma overflow_mul_add_lt : forall acc x v, overflow_mul_add acc x = Ok v -> v < U64_LIM.
Proof.
  intros acc x v H. unfold overflow_mul_add in H. cbv zeta in H.
  destruct (U64_LIM <=? acc * 10); cbn [orb] in H; [discriminate|].
  destruct (U64_LIM <=? (acc * 10) mod U64_LIM + x) eqn:E; [discriminate|].
  apply N.leb_gt in E. inversion H; subst. exact E.
Qed.

Lemma to_u64_t2_lt : forall d acc v rest, acc < U64_LIM -> to_u64_t2 d acc = Ok (v, rest) -> v < U64_LIM.
Proof.
  induction d as [|x r IH]; intros acc v rest A H; cbn [to_u64_t2] in H.
  - inversion H; subst. exact A.
  - destruct (is_digit x).
    + destruct (overflow_mul_add acc (x - 48)) as [w| | | |] eqn:O; try discriminate.
      eapply IH; [|exact H]. eapply overflow_mul_add_lt; exact O.
    + inversion H; subst. exact A.
Qed.

Lemma to_u64_t_lt : forall d acc v rest, acc < U64_LIM -> to_u64_t d acc = Ok (v, rest) -> v < U64_LIM.
Proof.
  intros d acc v rest A H. unfold to_u64_t in H.
  destruct (to_u64_t2 d acc) as [[v' rest']| | | |] eqn:E; cbn [obind] in H; try discriminate.
  destruct (beqb rest' d); [discriminate|]. inversion H; subst. eapply to_u64_t2_lt; eauto.
Qed.

Lemma is_digit_le : forall c, is_digit c = true -> 48 <= c <= 57.
Proof. intros c H. unfold is_digit in H. apply andb_true_iff in H. destruct H as [A B]. apply N.leb_le in A, B. lia. Qed.

(* ================================================================ the control structure of Json.to_f64 *)
Definition lead_of (c : N) (data : bytes) : outcome (N * bytes) :=
  if is_digit c then to_u64_t2 data (c - 48)
  else if c =? 46 then Ok (0, c :: data)
  else if c =? 43 then to_u64_t2 data 0
  else Err E_AllDigits.

Definition after_lead (negative : bool) (lead : N) (lft : bytes) : outcome N :=
  match lft with
  | [] =>
      if negative then
        if lead <=? I64_MAX then
          if f64_int_guard <? lead then Err E_PrecisionLoss
          else Ok (f64_bits_of_nat_value (negb (lead =? 0)) lead)
        else Err E_Overflow
      else
        if f64_int_guard <? lead then Err E_PrecisionLoss
        else Ok (f64_bits_of_nat_value false lead)
  | x :: lft' =>
      if x =? 46 then
        let exponent := length lft' in
        do (i, rest) <- to_u64_t lft' lead;
        match rest with
        | _ :: _ => Err E_AllDigits
        | [] =>
            match nth_error power_of_ten_exps exponent with
            | None => Err E_Overflow
            | Some p =>
                let fi := f64_of_u64_value i in
                let mag := if fi =? 0 then 0 else f64_round_ratio fi (10 ^ p) in
                Ok ((if negative then f64_sign_bit else 0) + mag)
            end
        end
      else Err E_AllDigits
  end.

Lemma to_f64_unfold : forall c0 data0,
  Json.to_f64 (c0 :: data0) =
  if c0 =? 45
  then match data0 with
       | [] => Err E_AllDigits
       | c1 :: data1 => do (lead, lft) <- lead_of c1 data1; after_lead true lead lft
       end
  else do (lead, lft) <- lead_of c0 data0; after_lead false lead lft.
Proof. intros. unfold Json.to_f64. destruct (c0 =? 45); [destruct data0|]; reflexivity. Qed.

Lemma lead_of_lt : forall c data lead lft, lead_of c data = Ok (lead, lft) -> lead < U64_LIM.
Proof.
  intros c data lead lft H. unfold lead_of in H. destruct (is_digit c) eqn:D.
  - apply is_digit_le in D. eapply to_u64_t2_lt; [|exact H]. unfold U64_LIM. lia.
  - destruct (c =? 46).
    + inversion H; subst. reflexivity.
    + destruct (c =? 43); [|discriminate]. eapply to_u64_t2_lt; [|exact H]. reflexivity.
Qed.

(* sign bit + a magnitude whose biased exponent is below 1200 *)
Definition signed_small (b : N) : Prop :=
  exists s mag, b = s + mag /\ (s = 0 \/ s = f64_sign_bit) /\ mag < 1200 * 2 ^ 52.

Lemma signed_small_intro : forall (neg : bool) mag, mag < 1200 * 2 ^ 52 ->
  signed_small ((if neg then f64_sign_bit else 0) + mag).
Proof. intros neg mag H. exists (if neg then f64_sign_bit else 0), mag. destruct neg; auto. Qed.

Lemma small_pos : 0 < 1200 * 2 ^ 52.
Proof. reflexivity. Qed.

Lemma nat_value_small : forall neg v, v <= f64_int_guard -> signed_small (f64_bits_of_nat_value neg v).
Proof.
  intros neg v G. unfold f64_bits_of_nat_value. apply signed_small_intro.
  destruct (v =? 0) eqn:Z; [apply small_pos|]. apply N.eqb_neq in Z.
  apply f64_round_ratio_bound; [lia|lia|].
  eapply N.le_lt_trans; [exact G|]. reflexivity.
Qed.

Lemma after_lead_small : forall neg lead lft b, lead < U64_LIM ->
  after_lead neg lead lft = Ok b -> signed_small b.
Proof.
  intros neg lead lft b L H. unfold after_lead in H. destruct lft as [|x lft'].
  - destruct neg.
    + destruct (lead <=? I64_MAX); [|discriminate].
      destruct (f64_int_guard <? lead) eqn:G; [discriminate|]. apply N.ltb_ge in G.
      inversion H; subst. apply nat_value_small; exact G.
    + destruct (f64_int_guard <? lead) eqn:G; [discriminate|]. apply N.ltb_ge in G.
      inversion H; subst. apply nat_value_small; exact G.
  - destruct (x =? 46); [|discriminate]. cbv zeta in H.
    destruct (to_u64_t lft' lead) as [[i rest]| | | |] eqn:T; cbn [obind] in H; try discriminate.
    destruct rest; [|discriminate].
    destruct (nth_error power_of_ten_exps (length lft')) as [p|]; [|discriminate].
    inversion H; subst. apply signed_small_intro.
    destruct (f64_of_u64_value i =? 0) eqn:Z; [apply small_pos|]. apply N.eqb_neq in Z.
    apply f64_round_ratio_bound; [lia| |].
    + apply N.neq_0_lt_0. apply N.pow_nonzero. discriminate.
    + apply f64_of_u64_value_lt. eapply to_u64_t_lt in T; [|exact L]. exact T.
Qed.

Theorem to_f64_signed_small : forall d b, Json.to_f64 d = Ok b -> signed_small b.
Proof.
  intros d b H. destruct d as [|c0 data0]; [discriminate|]. rewrite to_f64_unfold in H.
  destruct (c0 =? 45).
  - destruct data0 as [|c1 data1]; [discriminate|].
    destruct (lead_of c1 data1) as [[lead lft]| | | |] eqn:E; cbn [obind] in H; try discriminate.
    eapply after_lead_small; [|exact H]. eapply lead_of_lt; exact E.
  - destruct (lead_of c0 data0) as [[lead lft]| | | |] eqn:E; cbn [obind] in H; try discriminate.
    eapply after_lead_small; [|exact H]. eapply lead_of_lt; exact E.
Qed.

(* ================================================================ consequences for the bit pattern *)
Lemma signed_small_exponent : forall b, signed_small b -> (b / 2 ^ 52) mod 2048 < 1200.
Proof.
  intros b (s & mag & -> & S & M).
  assert (mag / 2 ^ 52 < 1200) as Q.
  { apply N.div_lt_upper_bound; [apply N.pow_nonzero; discriminate|]. rewrite N.mul_comm. exact M. }
  destruct S as [-> | ->].
  - rewrite N.add_0_l. rewrite N.mod_small; lia.
  - replace f64_sign_bit with (2048 * 2 ^ 52) by reflexivity.
    rewrite N.div_add_l by (apply N.pow_nonzero; discriminate).
    rewrite N.add_comm. replace 2048 with (1 * 2048) at 1 by reflexivity.
    rewrite N.mod_add by discriminate. rewrite N.mod_small; lia.
Qed.

Lemma signed_small_magnitude : forall b, signed_small b -> b mod 2 ^ 63 < 1200 * 2 ^ 52.
Proof.
  intros b (s & mag & -> & S & M).
  assert (mag < 2 ^ 63) as L by (eapply N.lt_trans; [exact M|reflexivity]).
  destruct S as [-> | ->].
  - rewrite N.add_0_l. rewrite N.mod_small; assumption.
  - unfold f64_sign_bit. rewrite N.add_comm. replace (2 ^ 63) with (1 * 2 ^ 63) at 1 by reflexivity.
    rewrite N.mod_add by (apply N.pow_nonzero; discriminate). rewrite N.mod_small; assumption.
Qed.

Lemma signed_small_u64 : forall b, signed_small b -> b < 2 ^ 64.
Proof.
  intros b (s & mag & -> & S & M).
  assert (mag < 2 ^ 63) as L by (eapply N.lt_trans; [exact M|reflexivity]).
  replace (2 ^ 64) with (2 ^ 63 + 2 ^ 63) by reflexivity.
  destruct S as [-> | ->]; unfold f64_sign_bit; set (T := 2 ^ 63) in *; lia.
Qed.

(* the key statement: Scalar::to_f64 never yields an infinity or a NaN *)
Theorem to_f64_bits_finite : forall d b, Json.to_f64 d = Ok b -> f64_is_finite b = true.
Proof.
  intros d b H. apply to_f64_signed_small, signed_small_exponent in H.
  unfold f64_is_finite. apply negb_true_iff. apply N.eqb_neq. lia.
Qed.

(* refinements: the biased exponent field is below 1200 (binary exponent < 2^177), the magnitude
   bits are below 1200 * 2^52, and the pattern fits 64 bits *)
Theorem to_f64_bits_exponent : forall d b, Json.to_f64 d = Ok b -> (b / 2 ^ 52) mod 2048 < 1200.
Proof. intros d b H. apply signed_small_exponent. eapply to_f64_signed_small; exact H. Qed.

Theorem to_f64_bits_magnitude : forall d b, Json.to_f64 d = Ok b -> b mod 2 ^ 63 < 1200 * 2 ^ 52.
Proof. intros d b H. apply signed_small_magnitude. eapply to_f64_signed_small; exact H. Qed.

Theorem to_f64_bits_u64 : forall d b, Json.to_f64 d = Ok b -> b < 2 ^ 64.
Proof. intros d b H. apply signed_small_u64. eapply to_f64_signed_small; exact H. Qed.

(* ================================================================ non-vacuity *)
Example to_f64_finite_nonvacuous : Json.to_f64 [49; 46; 53] = Ok 4609434218613702656.   (* "1.5" *)
Proof. vm_compute. reflexivity. Qed.

Example to_f64_finite_nonvacuous_neg : Json.to_f64 [45; 49; 46; 53] = Ok 13832806255468478464.  (* "-1.5" *)
Proof. vm_compute. reflexivity. Qed.

Print Assumptions to_f64_bits_finite.
