(* C14: write_tape (flatten d) is the rendering of (norm d) under the layout [layout_w c d]; that
   layout is well formed; hence (C01) the output parses back to flatten d. *)
From JV Require Import Bytes Tables TextTok TextTape TextDoc Date Writer.
From JV.proofs Require Import WriterProofs TextScanProofs TextParseProofs WriterLayoutDefs.
Require Import Lia.
Open Scope nat_scope.

(* ------------------------------------------------------------------ writer states along a traversal *)
Definition kpos (w : wr) : Prop :=
  w_mode w = DObject /\ w_mixed w = MDisabled /\ (w_state w = WKey \/ w_state w = WFirstKey).
(* element position in an array opened by write_array_start or by write_start (unknown kind) *)
Definition astate (s : wstate) : Prop :=
  s = WArrayValue \/ s = WArrayValueFirst \/ s = WFirstUnknown \/ s = WSecondUnknown.
Definition vpos (w : wr) : Prop :=
  w_mixed w = MDisabled /\
  ((w_mode w = DObject /\ (w_state w = WKeyValueSeparator \/ w_state w = WObjectValue)) \/
   (w_mode w = DArray /\ astate (w_state w))).
Definition wkey (w : wr) : wr := mkwr DObject (w_depth w) WKey true MDisabled.
Definition vpost (w : wr) (v : value) : wr :=
  mkwr (w_mode w) (w_depth w)
       (match w_mode w with DObject => WKey | DArray => if ends_nl v then WArrayValue else ws_next_spec (w_state w) end)
       (match w_mode w with DObject => true | DArray => ends_nl v end) MDisabled.
Fixpoint ipost (w : wr) (vs : values) : wr :=
  match vs with VNil => w | VCons v vs' => ipost (vpost w v) vs' end.
Fixpoint vcount (vs : values) : nat := match vs with VNil => 0 | VCons _ vs' => S (vcount vs') end.

Definition flen (m : bool) (f : field) : nat := length (flat_field m 0 f).
Lemma flat_field_len m a f : length (flat_field m a f) = flen m f.
Proof. apply (proj1 (proj2 flat_len_indep)). Qed.

Lemma wbind_ret_nil w k : wbind (WOk w []) k = k w.
Proof. cbn [wbind]. destruct (k w); reflexivity. Qed.
Lemma wbind_ok w o k w' o' : k w = WOk w' o' -> wbind (WOk w o) k = WOk w' (o ++ o').
Proof. intros H. cbn [wbind]. rewrite H. reflexivity. Qed.

Lemma cb_g0_value c n g v : cbytes (ch_value c n g v) = g ++ cbytes (ch_value c n [] v).
Proof. destruct v; cbn [ch_value]; rewrite !cbytes_cons; reflexivity. Qed.
Lemma cb_g0_field c n g f : cbytes (ch_field c n g f) = g ++ cbytes (ch_field c n [] f).
Proof. destruct f; cbn [ch_field]; rewrite !cbytes_cons; reflexivity. Qed.
Lemma cb_g0_fields c n g fs : fs <> FNil -> cbytes (ch_fields c n g fs) = g ++ cbytes (ch_fields c n [] fs).
Proof.
  destruct fs as [|f fs]; [congruence|]. intros _. cbn [ch_fields]. rewrite !cbytes_app, cb_g0_field, app_assoc. reflexivity.
Qed.

Lemma write_key_shape c w k x :
  write_key c w k x = WOk (epi_state (pre_state w)) (pre_bytes c w ++ scalar_bytes k x).
Proof.
  destruct k; cbn [write_key scalar_bytes].
  - rewrite write_raw_shape, app_nil_r. reflexivity.
  - rewrite write_escaped_quotes_shape, app_nil_r. reflexivity.
Qed.

(* ------------------------------------------------------------------ tape arithmetic *)
Lemma vlen_pos v : 1 <= vlen v.
Proof. destruct v; unfold vlen; cbn [flat_value length]; lia. Qed.
Lemma vslen_cons v vs : vslen (VCons v vs) = vlen v + vslen vs.
Proof. unfold vslen. cbn [flat_values]. rewrite app_length, flat_value_len, flat_values_len. reflexivity. Qed.
Lemma fslen_cons m f fs : fslen m (FCons f fs) = flen m f + fslen m fs.
Proof. unfold fslen. cbn [flat_fields]. rewrite app_length, flat_field_len, flat_fields_len. reflexivity. Qed.
Lemma vlen_object fs tl : vlen (VObject fs tl) = 2 + fslen false fs + match tl with VNil => 0 | VCons _ _ => 1 + vslen tl end.
Proof.
  unfold vlen. cbn [flat_value length]. rewrite !app_length, flat_fields_len. cbn [length].
  destruct tl; cbn [length]; rewrite ?flat_values_len; lia.
Qed.
Lemma vlen_array items : vlen (VArray items) = 2 + vslen items.
Proof. unfold vlen. cbn [flat_value length]. rewrite !app_length, flat_values_len. cbn [length]. lia. Qed.
Lemma vlen_arraykv items kvs : vlen (VArrayKv items kvs) = 3 + vslen items + fslen true kvs.
Proof.
  unfold vlen. cbn [flat_value length]. rewrite !app_length, flat_values_len. cbn [length].
  rewrite !app_length, flat_fields_len. cbn [length]. lia.
Qed.
Lemma vlen_header name v : vlen (VHeader name v) = 1 + vlen v.
Proof. unfold vlen. cbn [flat_value length]. rewrite flat_value_len. reflexivity. Qed.

(* the first token of a value *)
Definition head_tok (off : nat) (v : value) : ttok :=
  match flat_value off v with x :: _ => x | [] => TMixedContainer end.
Lemma flat_value_head off v : exists r, flat_value off v = head_tok off v :: r.
Proof. unfold head_tok. destruct v; cbn [flat_value]; eexists; reflexivity. Qed.
Lemma head_not_op off v : is_op_tok (head_tok off v) = false.
Proof. unfold head_tok. destruct v as [[]| | | |]; reflexivity. Qed.
Lemma seg_head t off v : seg t off (flat_value off v) -> tget t off = Some (head_tok off v).
Proof. destruct (flat_value_head off v) as [r ->]. intros H. apply seg_cons in H. apply H. Qed.

Lemma nidx_values t off v : seg t off (flat_value off v) -> is_header v = false ->
  next_idx_values t off = Some (off + vlen v).
Proof.
  intros H Hh. unfold next_idx_values. rewrite (seg_head _ _ _ H). unfold head_tok.
  destruct v as [k s|fs tl|items|items kvs|name v]; try discriminate Hh; cbn [flat_value].
  - destruct k; cbn [scalar_tok]; f_equal; unfold vlen; cbn; lia.
  - f_equal. rewrite vlen_object. rewrite flat_fields_len. destruct tl; cbn [length]; rewrite ?flat_values_len; lia.
  - f_equal. rewrite vlen_array, flat_values_len. lia.
  - f_equal. rewrite vlen_arraykv, flat_values_len, flat_fields_len. lia.
Qed.

Lemma nidx_container f t off v : seg t off (flat_value off v) -> is_container v = true ->
  next_idx (S f) t off = Ok (off + vlen v) /\ next_idx_header t off = Some (off + vlen v).
Proof.
  intros H Hc. pose proof (nidx_values t off v H) as Hn. unfold next_idx_values in Hn.
  cbn [next_idx]. unfold next_idx_header. rewrite (seg_head _ _ _ H) in *. unfold head_tok in *.
  destruct v; try discriminate Hc; cbn [flat_value] in *; specialize (Hn eq_refl); inversion Hn as [Hn']; rewrite Hn'; auto.
Qed.

Lemma nidx_value f t off v : seg t off (flat_value off v) -> wf_value v = true ->
  next_idx (S (S f)) t off = Ok (off + vlen v).
Proof.
  intros H Hwf. destruct (is_container v) eqn:Hc; [apply (nidx_container _ _ _ _ H Hc)|].
  destruct v as [k s| | | |name v]; try discriminate Hc.
  - cbn [next_idx]. rewrite (seg_head _ _ _ H). unfold head_tok. cbn [flat_value].
    destruct k; cbn [scalar_tok]; f_equal; unfold vlen; cbn; lia.
  - cbn [wf_value] in Hwf. andb_split.
    cbn [flat_value] in H. apply seg_cons in H as [Hh Hv].
    change (next_idx (S (S f)) t off) with
      (match tget t off with
       | Some (TArray e _) | Some (TObject e _) => Ok (S e)
       | Some (TOperator _) => next_idx (S f) t (S off)
       | Some (THeader _) => match next_idx_header t (S off) with Some n => Ok n | None => Panic 10%N end
       | Some _ => Ok (S off)
       | None => Panic 10%N
       end).
    rewrite Hh. destruct (nidx_container 0 _ _ _ Hv) as [_ ->]; [assumption|].
    rewrite vlen_header. f_equal. lia.
Qed.

Section Main.
Variable c : cfg.
Variable t : ttape.

Definition Pv (v : value) : Prop := forall f off w,
  rt_value v = true -> wf_value v = true -> seg t off (flat_value off v) -> 3 * vlen v <= f -> vpos w ->
  (is_header v = true -> w_mode w = DObject) ->
  wt f c t (JValue off) w = WOk (vpost w v) (cbytes (ch_value c (dep w) (pre_bytes c w) v)).

Definition Pf (fd : field) : Prop := forall f off ei w,
  rt_field fd = true -> wf_field fd = true -> seg t off (flat_field false off fd) ->
  off + flen false fd <= ei -> 3 * flen false fd <= f -> kpos w ->
  wt (S f) c t (JCore off ei) w =
  wbind (WOk (wkey w) (cbytes (ch_field c (dep w) (pre_bytes c w) fd)))
        (fun w' => wt f c t (JCore (off + flen false fd) ei) w').

Definition Pfs (fs : fields) : Prop := forall f off w,
  rt_fields fs = true -> wf_fields fs = true -> seg t off (flat_fields false off fs) ->
  3 * fslen false fs + 1 <= f -> kpos w ->
  wt f c t (JCore off (off + fslen false fs)) w =
  WOk (if fields_empty fs then w else wkey w) (cbytes (ch_fields c (dep w) (pre_bytes c w) fs)).

Definition ipos (w : wr) : Prop :=
  w_mode w = DArray /\ w_mixed w = MDisabled /\ astate (w_state w).

Definition Pvs (vs : values) : Prop := forall f ti ei w,
  rt_values vs = true -> wf_items vs = true -> seg t ti (flat_values ti vs) ->
  ti + vslen vs <= ei -> 3 * vslen vs + 1 <= f -> ipos w ->
  wt f c t (JArrayLoop ti ei) w =
  wbind (WOk (ipost w vs) (cbytes (ch_items c (dep w) (pre_bytes c w) vs)))
        (fun w' => wt (f - vcount vs) c t (JArrayLoop (ti + vslen vs) ei) w').

Lemma vpos_pre w : vpos w -> pre_state w = set_nlt w false.
Proof.
  destruct w as [m d s n x]. intros [Hx _]. cbn in Hx. subst x. unfold pre_state. cbn.
  destruct s; try reflexivity; destruct n; reflexivity.
Qed.

Lemma V_scalar k s : Pv (VScalar k s).
Proof.
  intros f off w _ _ Hseg Hf Hp _. cbn [flat_value] in Hseg. apply seg_cons in Hseg as [Hg _].
  destruct f as [|f]; [cbn in Hf; lia|]. rewrite (wt_value_scalar _ _ _ _ _ _ _ Hg), write_key_shape.
  cbn [ch_value]. rewrite cbytes_cons. cbn [stok fst cbytes flat_map]. rewrite app_nil_r. f_equal.
  rewrite (vpos_pre _ Hp). destruct w as [m d st n x]. destruct Hp as [Hx Hp]. cbn in Hx, Hp. subst x.
  unfold vpost, epi_state. cbn.
  destruct Hp as [[-> [-> | ->]] | [-> [-> | [-> | [-> | ->]]]]]; reflexivity.
Qed.

Lemma wbind_ok2 w2 o1 o2 K :
  match wbind (WOk w2 o2) K with
  | WOk w' o' => WOk w' (o1 ++ o') | WErr w' o' e => WErr w' (o1 ++ o') e | WCrash p s => WCrash p s
  end = wbind (WOk w2 (o1 ++ o2)) K.
Proof. cbn [wbind]. destruct (K w2); rewrite ?app_assoc; reflexivity. Qed.

Lemma wbind_okc w o k w2 o2 K : k w = wbind (WOk w2 o2) K -> wbind (WOk w o) k = wbind (WOk w2 (o ++ o2)) K.
Proof. intros H. cbn [wbind]. rewrite H. apply wbind_ok2. Qed.

Lemma I_nil : Pvs VNil.
Proof.
  intros f ti ei w _ _ _ _ _ _. cbn [ipost ch_items vcount]. change (cbytes []) with (@nil N).
  rewrite wbind_ret_nil, Nat.sub_0_r. change (vslen VNil) with 0. rewrite Nat.add_0_r. reflexivity.
Qed.

Lemma vpost_ipos w v : ipos w -> ipos (vpost w v).
Proof.
  intros [Hm [_ Hs]]. unfold ipos, vpost, astate. cbn. rewrite Hm. repeat split; auto.
  destruct (ends_nl v); [auto|]. destruct Hs as [-> | [-> | [-> | ->]]]; cbn; auto.
Qed.
Lemma vpost_pre_bytes w v : ipos w -> pre_bytes c (vpost w v) = sepgap c (dep w) (ends_nl v).
Proof.
  intros [Hm [_ Hs]]. unfold vpost, pre_bytes, sepgap, nli, ind, dep. cbn. rewrite Hm. cbn.
  destruct (ends_nl v); [reflexivity|]. destruct Hs as [-> | [-> | [-> | ->]]]; reflexivity.
Qed.
Lemma ipos_vpos w : ipos w -> vpos w.
Proof. intros [Hm [Hx Hs]]. split; [exact Hx|]. right. auto. Qed.

Lemma I_cons v vs : Pv v -> Pvs vs -> Pvs (VCons v vs).
Proof.
  intros HV HI f ti ei w Hrt Hwf Hseg Hei Hf Hp.
  cbn [rt_values wf_items] in Hrt, Hwf. andb_split.
  cbn [flat_values] in Hseg. apply seg_app in Hseg as [Hs1 Hs2]. rewrite flat_value_len in Hs2.
  rewrite vslen_cons in *. pose proof (vlen_pos v).
  destruct f as [|g]; [lia|].
  rewrite (wt_loop_step g c t ti ei w (ti + vlen v)); [|lia|apply nidx_values; [assumption|]].
  2:{ destruct (is_header v); [discriminate|reflexivity]. }
  rewrite (HV g ti w); try assumption; [|lia|apply ipos_vpos; assumption|].
  2:{ destruct (is_header v); [discriminate|intros; discriminate]. }
  cbn [wbind]. rewrite (HI g (ti + vlen v) ei (vpost w v)); try assumption; [|lia|lia|apply vpost_ipos; assumption].
  rewrite wbind_ok2. cbn [ipost ch_items vcount]. rewrite cbytes_app, vpost_pre_bytes by assumption.
  change (dep (vpost w v)) with (dep w). rewrite Nat.add_assoc. reflexivity.
Qed.

Lemma vcount_le vs : vcount vs <= vslen vs.
Proof.
  induction vs as [|v vs IH]; [cbn; lia|]. rewrite vslen_cons. cbn [vcount]. pose proof (vlen_pos v). lia.
Qed.

Lemma ipost_cons_eq w v vs : w_mode w = DArray -> w_state w = WArrayValue \/ w_state w = WArrayValueFirst ->
  ipost w (VCons v vs) = mkwr DArray (w_depth w) WArrayValue (items_nl (ends_nl v) vs) MDisabled.
Proof.
  revert w v. induction vs as [|v2 vs IH]; intros w v Hm Hs.
  - cbn [ipost items_nl]. unfold vpost. rewrite Hm. destruct (ends_nl v); [reflexivity|].
    destruct Hs as [-> | ->]; reflexivity.
  - change (ipost w (VCons v (VCons v2 vs))) with (ipost (vpost w v) (VCons v2 vs)).
    rewrite IH; [reflexivity|unfold vpost; cbn; exact Hm|].
    left. unfold vpost. cbn. rewrite Hm. destruct (ends_nl v); [reflexivity|]. destruct Hs as [-> | ->]; reflexivity.
Qed.

(* in general (also after write_start): depth kept, and some data has been written *)
Lemma ipost_general w vs : ipos w ->
  w_depth (ipost w vs) = w_depth w /\
  no_data_yet (w_state (ipost w vs)) = (if values_empty vs then no_data_yet (w_state w) else false).
Proof.
  revert w. induction vs as [|v vs IH]; intros w Hp; [split; reflexivity|].
  cbn [ipost values_empty]. destruct (IH (vpost w v) (vpost_ipos w v Hp)) as [Hd Hn]. split; [exact Hd|].
  rewrite Hn. destruct vs; [|reflexivity]. cbn [values_empty].
  destruct Hp as [Hm [_ Hs]]. unfold vpost. cbn. rewrite Hm. destruct (ends_nl v); [reflexivity|].
  destruct Hs as [-> | [-> | [-> | ->]]]; reflexivity.
Qed.

Lemma write_end_shape w m rest : w_depth w = m :: rest ->
  write_end c w = WOk (mkwr m rest (match m with DObject => WKey | DArray => WArrayValue end) true MDisabled)
                      ((if no_data_yet (w_state w) then [SP] else nli c (length rest)) ++ [RBRACE]).
Proof.
  intros H. unfold write_end. rewrite H. rewrite write_indent_spec. cbn [w_depth emit set_mixed set_nlt w_mode w_state].
  reflexivity.
Qed.

Lemma start_state_vpos w m s : vpos w ->
  start_state w m s = mkwr m (w_mode w :: w_depth w) s true MDisabled.
Proof.
  intros H. unfold start_state. rewrite (vpos_pre _ H). destruct H as [Hx _].
  cbn [set_nlt w_mode w_depth w_mixed]. rewrite Hx. reflexivity.
Qed.

Lemma V_array items : Pvs items -> Pv (VArray items).
Proof.
  intros HI f off w Hrt Hwf Hseg Hf Hp _. cbn [rt_value wf_value] in Hrt, Hwf. andb_split.
  rewrite vlen_array in Hf. cbn [flat_value] in Hseg. apply seg_cons in Hseg as [Hh Hseg].
  apply seg_app in Hseg as [Hs1 _]. rewrite flat_values_len in Hh.
  destruct f as [|g]; [lia|]. rewrite (wt_value_array _ _ _ _ _ _ _ Hh), write_array_start_shape.
  rewrite (start_state_vpos _ _ _ Hp). cbn [wbind].
  set (w1 := mkwr DArray (w_mode w :: w_depth w) WArrayValueFirst true MDisabled).
  rewrite (HI g (S off) (S off + vslen items) w1); try assumption; [|lia|lia|repeat split; unfold astate; auto].
  pose proof (vcount_le items). cbn [wbind].
  destruct (g - vcount items) as [|g2] eqn:Eg; [lia|]. rewrite wt_loop_end by lia. cbn [wbind].
  rewrite (write_end_shape _ (w_mode w) (w_depth w)).
  2:{ destruct items; [reflexivity|]. rewrite ipost_cons_eq; auto. }
  f_equal; [unfold vpost; destruct (w_mode w); reflexivity|].
  cbn [ch_value]. rewrite cbytes_cons, cbytes_app, cbytes_cons. change (cbytes []) with (@nil N).
  cbn [lbrace rbrace fst]. rewrite !app_nil_r, <- !app_assoc. f_equal. f_equal.
  change (dep w1) with (S (dep w)). change (pre_bytes c w1) with (nli c (S (dep w))). f_equal. f_equal.
  destruct items; [reflexivity|]. rewrite ipost_cons_eq; auto.
Qed.

Lemma V_object fs tl : Pfs fs -> Pv (VObject fs tl).
Proof.
  intros HF f off w Hrt Hwf Hseg Hf Hp _. cbn [rt_value wf_value] in Hrt, Hwf. andb_split.
  destruct tl; [|discriminate].
  rewrite vlen_object in Hf. cbn [flat_value] in Hseg. apply seg_cons in Hseg as [Hh Hseg].
  apply seg_app in Hseg as [Hs1 _]. rewrite flat_fields_len in Hh. cbn [length] in Hh. rewrite Nat.add_0_r in Hh.
  destruct f as [|g]; [lia|]. rewrite (wt_value_object _ _ _ _ _ _ _ Hh), write_object_start_shape.
  rewrite (start_state_vpos _ _ _ Hp). cbn [wbind].
  set (w1 := mkwr DObject (w_mode w :: w_depth w) WFirstKey true MDisabled).
  rewrite (HF g (S off) w1); try assumption; [|lia|repeat split; unfold astate; auto]. cbn [wbind].
  rewrite (write_end_shape _ (w_mode w) (w_depth w)) by (destruct fs; reflexivity).
  f_equal; [unfold vpost; destruct (w_mode w); reflexivity|].
  cbn [ch_value]. rewrite cbytes_cons, cbytes_app, cbytes_cons. change (cbytes []) with (@nil N).
  cbn [lbrace rbrace fst]. rewrite !app_nil_r, <- !app_assoc. f_equal. f_equal.
  change (dep w1) with (S (dep w)). change (pre_bytes c w1) with (nli c (S (dep w))). f_equal. f_equal.
  destruct fs; reflexivity.
Qed.

Lemma V_header name v : Pv v -> Pv (VHeader name v).
Proof.
  intros HV f off w Hrt Hwf Hseg Hf Hp Hm. specialize (Hm eq_refl).
  cbn [rt_value wf_value] in Hrt, Hwf. andb_split.
  rewrite vlen_header in Hf. cbn [flat_value] in Hseg. apply seg_cons in Hseg as [Hh Hseg].
  pose proof (vlen_pos v).
  destruct f as [|[|g]]; [lia|lia|].
  destruct (nidx_container g _ _ _ Hseg) as [Hn _]; [assumption|].
  rewrite (wt_value_header _ _ _ _ _ _ _ Hh Hn); [|lia|lia|eexists; apply (seg_head _ _ _ Hseg)].
  rewrite write_header_shape, (vpos_pre _ Hp). cbn [wbind].
  destruct w as [m d st n x]. destruct Hp as [Hx _]. cbn in Hx, Hm. subst x m.
  cbn [set_nlt set_state w_mode w_depth w_state w_nlt w_mixed].
  rewrite (HV (S g) (S off)); try assumption; [|lia| |].
  - f_equal. cbn [ch_value]. rewrite cbytes_cons, (cb_g0_value _ _ [SP]). cbn [fst].
    rewrite <- !app_assoc. reflexivity.
  - split; [reflexivity|]. left. auto.
  - reflexivity.
Qed.

Lemma flen_field m k key op v : flen m (Field k key op v) = 1 + length (op_toks m op) + vlen v.
Proof. unfold flen. cbn [flat_field length]. rewrite app_length, flat_value_len. lia. Qed.

Lemma kpos_key w k key : kpos w ->
  write_key c w k key = WOk (mkwr DObject (w_depth w) WKeyValueSeparator false MDisabled)
                            (pre_bytes c w ++ scalar_bytes k key).
Proof.
  intros [Hm [Hx Hs]]. rewrite write_key_shape. f_equal.
  destruct w as [m d st n x]. cbn in Hm, Hx, Hs. subst m x. unfold pre_state, epi_state.
  destruct Hs as [-> | ->]; reflexivity.
Qed.

Lemma F_field_noop k key op v : op_toks false op = [] -> op_or_eq op = Equal -> Pv v -> Pf (Field k key op v).
Proof.
  intros Hop Hoe HV f off ei w Hrt Hwf Hseg Hei Hf Hp.
  cbn [rt_field wf_field] in Hrt, Hwf. andb_split.
  rewrite flen_field, Hop in *. cbn [length] in *. cbn [flat_field] in Hseg. rewrite Hop in Hseg.
  cbn [app length] in Hseg. rewrite Nat.add_0_r in Hseg. apply seg_cons in Hseg as [Hk Hv].
  pose proof (vlen_pos v). destruct f as [|[|g]]; [lia|lia|].
  rewrite (wt_core_field_noop _ c t off ei w k key (head_tok (S off) v) (S off + vlen v));
    [|lia|assumption|apply seg_head; assumption|apply head_not_op|apply nidx_value; assumption].
  rewrite (kpos_key _ _ _ Hp).
  set (w1 := mkwr DObject (w_depth w) WKeyValueSeparator false MDisabled).
  erewrite wbind_ok.
  2:{ cbn [emit]. erewrite wbind_ok; [reflexivity|].
      apply (HV (S (S g)) (S off) w1); try assumption; [lia|split; [reflexivity|left; auto]|reflexivity]. }
  replace (off + (1 + 0 + vlen v)) with (S off + vlen v) by lia.
  f_equal. f_equal. cbn [ch_field]. rewrite Hoe, !cbytes_cons. cbn [stok optk opgap fst op_symbol app].
  rewrite (cb_g0_value _ _ (pre_bytes c w1)). change (pre_bytes c w1) with [61%N]. change (dep w1) with (dep w).
  rewrite <- !app_assoc. reflexivity.
Qed.

Lemma F_field_op k key o v : o <> Equal -> Pv v -> Pf (Field k key (Some o) v).
Proof.
  intros Hne HV f off ei w Hrt Hwf Hseg Hei Hf Hp.
  cbn [rt_field wf_field] in Hrt, Hwf. andb_split.
  assert (Hop : op_toks false (Some o) = [TOperator o]) by (destruct o; try reflexivity; congruence).
  rewrite flen_field, Hop in *. cbn [length] in *. cbn [flat_field] in Hseg. rewrite Hop in Hseg.
  cbn [app length] in Hseg. apply seg_cons in Hseg as [Hk Hv]. apply seg_cons in Hv as [Ho Hv].
  replace (S off + 1) with (S (S off)) in Hv by lia.
  pose proof (vlen_pos v). destruct f as [|[|g]]; [lia|lia|].
  rewrite (wt_core_field_op _ c t off ei w k key o (S (S off) + vlen v));
    [|lia|assumption|assumption|apply nidx_value; assumption].
  rewrite (kpos_key _ _ _ Hp).
  set (w1 := mkwr DObject (w_depth w) WKeyValueSeparator false MDisabled).
  set (w2 := mkwr DObject (w_depth w) WObjectValue false MDisabled).
  assert (Hw : write_operator w1 o = WOk w2 ([SP] ++ op_symbol o ++ [SP])).
  { unfold write_operator. cbn [w1 w_mixed mmode_eqb emit]. destruct o; try reflexivity; congruence. }
  erewrite wbind_ok.
  2:{ rewrite Hw. erewrite wbind_ok; [reflexivity|].
      apply (HV (S (S g)) (S (S off)) w2); try assumption; [lia|split; [reflexivity|left; auto]|reflexivity]. }
  replace (off + (1 + 1 + vlen v)) with (S (S off) + vlen v) by lia.
  f_equal. f_equal. cbn [ch_field op_or_eq]. rewrite !cbytes_cons. cbn [stok optk fst].
  assert (Hg : opgap o = [SP]) by (destruct o; try reflexivity; congruence). rewrite Hg.
  rewrite (cb_g0_value _ _ [SP]). change (pre_bytes c w2) with (@nil N). change (dep w2) with (dep w).
  rewrite <- !app_assoc. reflexivity.
Qed.

Lemma F_field k key op v : Pv v -> Pf (Field k key op v).
Proof.
  intros HV. destruct op as [o|]; [destruct o|];
    try (apply F_field_op; [discriminate|exact HV]); apply F_field_noop; auto.
Qed.

Lemma flen_pos m f : 1 <= flen m f.
Proof. destruct f; unfold flen; cbn [flat_field length]; lia. Qed.
Lemma flen_paramO m name u fs : flen m (ParamO name u fs) = 3 + fslen false fs.
Proof. unfold flen. cbn [flat_field length]. rewrite app_length, flat_fields_len. cbn [length]. lia. Qed.

Lemma kpos_pre w : kpos w -> pre_state w = set_nlt w false /\ pre_bytes c (set_nlt w false) = ind c (dep w).
Proof.
  destruct w as [m d st n x]. intros [Hm [Hx Hs]]. cbn in Hm, Hx, Hs. subst m x.
  unfold pre_state, pre_bytes, ind, dep. destruct Hs as [-> | ->]; split; reflexivity.
Qed.
Lemma kpos_nlt w b : kpos w -> kpos (set_nlt w b).
Proof. intros H. exact H. Qed.

Lemma F_paramO name u fs : Pfs fs -> Pf (ParamO name u fs).
Proof.
  intros HF f off ei w Hrt Hwf Hseg Hei Hf Hp.
  cbn [rt_field wf_field] in Hrt, Hwf. andb_split.
  rewrite flen_paramO in *. cbn [flat_field] in Hseg. rewrite flat_fields_len in Hseg.
  apply seg_cons in Hseg as [Hk Hseg]. apply seg_cons in Hseg as [Ho Hseg]. apply seg_app in Hseg as [Hb _].
  destruct f as [|g]; [lia|].
  rewrite (wt_core_param_obj _ c t off ei w u name _ _ (off + (3 + fslen false fs)) ltac:(lia) Hk Ho).
  2:{ cbn [next_idx]. rewrite Ho. f_equal. lia. }
  destruct (kpos_pre _ Hp) as [Hpre Hpb].
  rewrite write_preamble_shape, Hpre.
  erewrite wbind_ok.
  2:{ cbn [emit wbind].
      rewrite (HF (S g) (S (S off)) (set_nlt w false)); try assumption; [|lia].
      cbn [wbind emit]. reflexivity. }
  f_equal. f_equal; [destruct fs; [discriminate|reflexivity]|].
  assert (Hne : fs <> FNil) by (destruct fs; [discriminate|congruence]).
  rewrite write_indent_spec. rewrite Hpb.
  cbn [ch_field]. rewrite cbytes_cons, cbytes_app, cbytes_cons. change (cbytes []) with (@nil N). cbn [fst rbracket].
  rewrite (cb_g0_fields _ _ (nli c (dep w))), (cb_g0_fields _ _ (ind c (dep w))) by assumption.
  change (dep (set_nlt w false)) with (dep w).
  replace (w_depth (if fields_empty fs then set_nlt w false else wkey (set_nlt w false))) with (w_depth w)
    by (destruct fs; reflexivity).
  change (repeat (indent_char c) (length (w_depth w) * N.to_nat (indent_factor c))) with (ind c (dep w)).
  unfold nli, pname_bytes, PARAM_OPEN, PARAM_OPEN_NOT, PARAM_HEAD_END, RBRACKET, NL.
  destruct u; cbn [app]; rewrite <- !app_assoc; cbn [app]; rewrite ?app_nil_r;
    repeat (f_equal; try reflexivity).
Qed.

Lemma F_paramV name u s : Pf (ParamV name u s).
Proof. intros f off ei w Hrt. discriminate Hrt. Qed.

Lemma F_nil : Pfs FNil.
Proof.
  intros f off w _ _ _ Hf _. change (fslen false FNil) with 0 in *. destruct f as [|g]; [lia|].
  rewrite wt_core_end by lia. reflexivity.
Qed.

Lemma F_cons fd fs : Pf fd -> Pfs fs -> Pfs (FCons fd fs).
Proof.
  intros H1 HF f off w Hrt Hwf Hseg Hf Hp.
  cbn [rt_fields wf_fields] in Hrt, Hwf. andb_split.
  rewrite fslen_cons in *. cbn [flat_fields] in Hseg. apply seg_app in Hseg as [Hs1 Hs2].
  rewrite flat_field_len in Hs2. pose proof (flen_pos false fd).
  destruct f as [|g]; [lia|].
  rewrite (H1 g off (off + (flen false fd + fslen false fs)) w); try assumption; [|lia|lia].
  rewrite Nat.add_assoc.
  erewrite wbind_ok.
  2:{ apply (HF g (off + flen false fd) (wkey w)); try assumption; [lia|].
      destruct Hp as [Hm [Hx Hs]]. repeat split; auto. }
  f_equal; [destruct fs; reflexivity|].
  cbn [ch_fields]. rewrite cbytes_app. reflexivity.
Qed.

Lemma op_toks_true o : op_toks true (Some o) = [TOperator o].
Proof. destruct o; reflexivity. Qed.

Lemma nidx_values_scalar ti k x : tget t ti = Some (scalar_tok k x) -> next_idx_values t ti = Some (S ti).
Proof. intros H. unfold next_idx_values. rewrite H. destruct k; reflexivity. Qed.

Definition wmix (d : list dmode) (nl : bool) : wr := mkwr DArray d WArrayValue nl MStarted.

Lemma L_kvs kvs : forall f ti ei d nl, wf_kvs kvs = true -> seg t ti (flat_fields true ti kvs) ->
  ti + fslen true kvs <= ei -> fslen true kvs + 1 <= f ->
  wt f c t (JArrayLoop ti ei) (wmix d nl) =
  wbind (WOk (if fields_empty kvs then wmix d nl else wmix d false)
             (cbytes (ch_kvs c (length d) (pre_bytes c (wmix d nl)) kvs)))
        (fun w' => wt (f - fslen true kvs) c t (JArrayLoop (ti + fslen true kvs) ei) w').
Proof.
  induction kvs as [|fd r IH]; intros f ti ei d nl Hwf Hseg Hei Hf.
  - cbn [fields_empty ch_kvs]. change (cbytes []) with (@nil N). change (fslen true FNil) with 0.
    rewrite wbind_ret_nil, Nat.sub_0_r, Nat.add_0_r. reflexivity.
  - destruct fd as [k key op v| |]; try discriminate Hwf. cbn [wf_kvs] in Hwf. andb_split.
    destruct v as [k2 s| | | |]; try discriminate. destruct op as [o|]; [|discriminate].
    rewrite fslen_cons, flen_field, op_toks_true in *. change (vlen (VScalar k2 s)) with 1 in *. cbn [length] in *.
    cbn [flat_fields flat_field flat_value] in Hseg. rewrite op_toks_true in Hseg. cbn [app length] in Hseg.
    apply seg_cons in Hseg as [Hk Hseg]. apply seg_cons in Hseg as [Ho Hseg]. apply seg_cons in Hseg as [Hv Hseg].
    replace (ti + 3) with (S (S (S ti))) in Hseg by lia.
    destruct f as [|[|[|[|g]]]]; try lia.
    rewrite (wt_loop_step _ c t ti ei _ (S ti)); [|lia|apply (nidx_values_scalar _ _ _ Hk)].
    rewrite (wt_value_scalar _ _ _ _ _ _ _ Hk), write_key_shape.
    erewrite wbind_okc.
    2:{ rewrite (wt_loop_step _ c t (S ti) ei _ (S (S ti))); [|lia|unfold next_idx_values; rewrite Ho; reflexivity].
        rewrite (wt_value_op _ _ _ _ _ _ Ho); [|destruct nl; discriminate].
        erewrite wbind_okc; [reflexivity|].
        rewrite (wt_loop_step _ c t (S (S ti)) ei _ (S (S (S ti)))); [|lia|apply (nidx_values_scalar _ _ _ Hv)].
        rewrite (wt_value_scalar _ _ _ _ _ _ _ Hv), write_key_shape.
        erewrite wbind_okc; [reflexivity|].
        replace (epi_state (pre_state (set_mixed (epi_state (pre_state (wmix d nl))) MKeyed))) with (wmix d false)
          by (destruct nl; reflexivity).
        apply (IH (S g) (S (S (S ti))) ei d false); try assumption; lia. }
    replace (S (S (S ti)) + fslen true r) with (ti + (1 + 1 + 1 + fslen true r)) by lia.
    replace (S g - fslen true r) with (S (S (S (S g))) - (1 + 1 + 1 + fslen true r)) by lia.
    f_equal. f_equal; [destruct r; reflexivity|].
    cbn [ch_kvs op_or_eq]. rewrite !cbytes_cons. cbn [stok optk fst].
    replace (pre_bytes c (set_mixed (epi_state (pre_state (wmix d nl))) MKeyed)) with (@nil N) by (destruct nl; reflexivity).
    change (pre_bytes c (wmix d false)) with [SP]. rewrite <- !app_assoc. reflexivity.
Qed.

Lemma V_arraykv items kvs : Pvs items -> Pv (VArrayKv items kvs).
Proof.
  intros HI f off w Hrt Hwf Hseg Hf Hp _. cbn [rt_value wf_value] in Hrt, Hwf. andb_split.
  rewrite vlen_arraykv in Hf. cbn [flat_value] in Hseg. apply seg_cons in Hseg as [Hh Hseg].
  apply seg_app in Hseg as [Hs1 Hseg]. apply seg_cons in Hseg as [Hm Hseg]. apply seg_app in Hseg as [Hs2 _].
  rewrite flat_values_len, flat_fields_len in *.
  destruct items as [|v0 vs0]; [discriminate|].
  destruct f as [|g]; [lia|]. rewrite (wt_value_array _ _ _ _ _ _ _ Hh), write_array_start_shape.
  rewrite (start_state_vpos _ _ _ Hp).
  set (w1 := mkwr DArray (w_mode w :: w_depth w) WArrayValueFirst true MDisabled).
  set (e := S (S off + vslen (VCons v0 vs0) + fslen true kvs)) in *.
  pose proof (vcount_le (VCons v0 vs0)) as Hvc.
  erewrite wbind_ok.
  2:{ rewrite (HI g (S off) e w1); try assumption; [|unfold e; lia|lia|repeat split; unfold astate; auto].
      rewrite ipost_cons_eq by auto.
      destruct (g - vcount (VCons v0 vs0)) as [|[|g2]] eqn:Eg; [lia|lia|].
      erewrite (wbind_ok _ _ (fun w' => wt _ c t (JArrayLoop _ e) w')).
      2:{ cbn beta.
          rewrite (wt_loop_step _ c t _ e _ (S (S off + vslen (VCons v0 vs0))));
            [|unfold e; lia|unfold next_idx_values; rewrite Hm; reflexivity].
          rewrite (wt_value_mixed _ _ _ _ _ Hm). unfold start_mixed_mode, emit. rewrite wbind_ret_nil.
          change (set_mixed (set_mode (mkwr DArray (w_depth w1) WArrayValue (items_nl (ends_nl v0) vs0) MDisabled) DArray) MStarted)
            with (wmix (w_depth w1) (items_nl (ends_nl v0) vs0)).
          rewrite (L_kvs kvs (S g2) (S (S off + vslen (VCons v0 vs0))) e); try assumption; [|unfold e; lia|lia].
          destruct (S g2 - fslen true kvs) as [|g3] eqn:Eg3; [lia|].
          erewrite wbind_ok; [reflexivity|]. rewrite wt_loop_end by (unfold e; lia). reflexivity. }
      cbn [wbind].
      rewrite (write_end_shape _ (w_mode w) (w_depth w)) by (destruct kvs; reflexivity). reflexivity. }
  f_equal; [unfold vpost; destruct (w_mode w); reflexivity|].
  cbn [ch_value]. rewrite cbytes_cons, !cbytes_app, cbytes_cons. change (cbytes []) with (@nil N).
  cbn [lbrace rbrace fst]. rewrite !app_nil_r, <- !app_assoc. f_equal. f_equal.
  change (dep w1) with (S (dep w)). change (pre_bytes c w1) with (nli c (S (dep w))). f_equal.
  change (length (w_depth w1)) with (S (dep w)).
  replace (pre_bytes c (wmix (w_depth w1) (items_nl (ends_nl v0) vs0))) with (sepgap c (S (dep w)) (items_nl true (VCons v0 vs0)))
    by (cbn [items_nl]; destruct (items_nl (ends_nl v0) vs0); reflexivity).
  f_equal. destruct kvs; [discriminate|]. reflexivity.
Qed.
End Main.

Lemma write_all c t :
  (forall v, Pv c t v) /\ (forall f, Pf c t f) /\ (forall fs, Pfs c t fs) /\ (forall vs, Pvs c t vs).
Proof.
  apply doc_mutind.
  - apply V_scalar.
  - intros fs Hfs tl _. apply V_object. exact Hfs.
  - intros items H. apply V_array. exact H.
  - intros items H kvs _. apply V_arraykv. exact H.
  - intros name v H. apply V_header. exact H.
  - intros k key op v H. apply F_field. exact H.
  - apply F_paramV.
  - intros name u fs H. apply F_paramO. exact H.
  - apply F_nil.
  - intros f Hf fs Hfs. apply F_cons; assumption.
  - apply I_nil.
  - intros v Hv vs Hvs. apply I_cons; assumption.
Qed.

(* write_tape over the tape of a document = the chunks of the document, for EVERY configuration *)
Theorem write_tape_chunks c d : rt_fields d = true -> wf_doc d ->
  write_tape (tape_fuel (flatten d)) c (flatten d) =
  WOk (if fields_empty d then wr_init else mkwr DObject [] WKey true MDisabled) (cbytes (chunks_w c d)).
Proof.
  intros Hrt Hwf. unfold write_tape, flatten, tape_fuel. rewrite flat_fields_len.
  destruct (write_all c (flat_fields false 0 d)) as [_ [_ [HF _]]].
  pose proof (HF d (4 * fslen false d + 16) 0 wr_init Hrt Hwf (seg_self _)) as E. cbn [Nat.add] in E.
  rewrite E; [reflexivity|lia|]. repeat split; auto.
Qed.

(* ------------------------------------------------------------------ the chunks are a rendering *)
Lemma render_chunks (chs : list chunk) : forall k (g : nat -> bytes),
  (forall i, i < length chs -> g (k + i) = fst (nth i chs ([], ([], false)))) ->
  render_toks g (map snd chs) k = cbytes chs ++ g (k + length chs).
Proof.
  induction chs as [|[gp tk] r IH]; intros k g H.
  - cbn. rewrite Nat.add_0_r. reflexivity.
  - cbn [map snd render_toks]. rewrite cbytes_cons. pose proof (H 0 ltac:(cbn; lia)) as H0.
    rewrite Nat.add_0_r in H0. rewrite H0.
    cbn [nth fst length]. rewrite <- !app_assoc. f_equal. f_equal.
    rewrite IH; [f_equal; f_equal; lia|].
    intros i Hi. replace (S k + i) with (k + S i) by lia. rewrite H by (cbn; lia). reflexivity.
Qed.

Lemma render_layout_chunks (chs : list chunk) :
  render_toks (fun i => nth i (map fst chs) []) (map snd chs) 0 = cbytes chs.
Proof.
  rewrite render_chunks.
  - rewrite nth_overflow by (rewrite map_length; apply Nat.le_refl). apply app_nil_r.
  - intros i Hi. cbn [Nat.add]. change (@nil N) with (fst (@nil N, (@nil N, false))). apply map_nth.
Qed.

(* ------------------------------------------------------------------ tokens of the chunks = tokens of the normalised document *)
Lemma toks_kvs c n : forall kvs g, wf_kvs kvs = true -> map snd (ch_kvs c n g kvs) = toks_fields kvs.
Proof.
  induction kvs as [|fd r IH]; intros g Hwf; [reflexivity|].
  destruct fd as [k key op v| |]; try discriminate Hwf. cbn [wf_kvs] in Hwf. andb_split.
  destruct v as [k2 s| | | |]; try discriminate. destruct op as [o|]; [|discriminate].
  cbn [ch_kvs map snd toks_fields toks_field toks_value optok app op_or_eq]. rewrite IH by assumption. reflexivity.
Qed.

Lemma chunks_toks c :
  (forall v n g, rt_value v = true -> wf_value v = true -> map snd (ch_value c n g v) = toks_value (norm_value v)) /\
  (forall f n g, rt_field f = true -> wf_field f = true -> map snd (ch_field c n g f) = toks_field (norm_field f)) /\
  (forall fs n g, rt_fields fs = true -> wf_fields fs = true -> map snd (ch_fields c n g fs) = toks_fields (norm_fields fs)) /\
  (forall vs n g, rt_values vs = true -> wf_items vs = true -> map snd (ch_items c n g vs) = toks_values (norm_values vs)).
Proof.
  apply doc_mutind.
  - reflexivity.
  - intros fs Hfs tl _ n g Hrt Hwf. cbn [rt_value wf_value] in Hrt, Hwf. andb_split. destruct tl; [|discriminate].
    cbn [ch_value norm_value toks_value map snd toks_values app]. rewrite map_app, Hfs by assumption. reflexivity.
  - intros items H n g Hrt Hwf. cbn [rt_value wf_value] in Hrt, Hwf. andb_split.
    cbn [ch_value norm_value toks_value map snd]. rewrite map_app, H by assumption. reflexivity.
  - intros items H kvs _ n g Hrt Hwf. cbn [rt_value wf_value] in Hrt, Hwf. andb_split.
    cbn [ch_value norm_value toks_value map snd]. rewrite !map_app, H, toks_kvs by assumption. reflexivity.
  - intros name v H n g Hrt Hwf. cbn [rt_value wf_value] in Hrt, Hwf. andb_split.
    cbn [ch_value norm_value toks_value map snd]. rewrite H by assumption. reflexivity.
  - intros k key op v H n g Hrt Hwf. cbn [rt_field wf_field] in Hrt, Hwf. andb_split.
    cbn [ch_field norm_field toks_field map snd optok app]. rewrite H by assumption. destruct op; reflexivity.
  - intros name u s n g Hrt. discriminate Hrt.
  - intros name u fs H n g Hrt Hwf. cbn [rt_field wf_field] in Hrt, Hwf. andb_split.
    cbn [ch_field norm_field toks_field map snd]. rewrite map_app, H by assumption. reflexivity.
  - reflexivity.
  - intros f Hf fs Hfs n g Hrt Hwf. cbn [rt_fields wf_fields] in Hrt, Hwf. andb_split.
    cbn [ch_fields norm_fields toks_fields]. rewrite map_app, Hf, Hfs by assumption. reflexivity.
  - reflexivity.
  - intros v Hv vs Hvs n g Hrt Hwf. cbn [rt_values wf_items] in Hrt, Hwf. andb_split.
    cbn [ch_items norm_values toks_values]. rewrite map_app, Hv, Hvs by assumption. reflexivity.
Qed.

(* ------------------------------------------------------------------ every gap is white space *)
Definition gaps_ok (l : list chunk) : Prop := Forall (fun ch : chunk => gap_ok (fst ch)) l.

Section Gaps.
Variable c : cfg.
Hypothesis Hc : cfg_ok c.

Lemma gap_ok_ws_repeat b k : is_ws_t b = true -> gap_ok (repeat b k).
Proof. intros H. induction k; cbn [repeat]; [constructor|apply gap_ws; assumption]. Qed.
Lemma gap_ok_ind n : gap_ok (ind c n).
Proof.
  unfold ind. destruct Hc as [H | H]; [apply gap_ok_ws_repeat; exact H|].
  rewrite H. cbn [N.to_nat]. rewrite Nat.mul_0_r. constructor.
Qed.
Lemma gap_ok_nli n : gap_ok (nli c n).
Proof. apply gap_ws; [reflexivity|apply gap_ok_ind]. Qed.
Lemma gap_ok_sp : gap_ok [SP].
Proof. apply gap_ws; [reflexivity|constructor]. Qed.
Lemma gap_ok_sepgap n b : gap_ok (sepgap c n b).
Proof. destruct b; [apply gap_ok_nli|apply gap_ok_sp]. Qed.
Lemma gap_ok_close n b : gap_ok (close_gap c n b).
Proof. destruct b; [apply gap_ok_sp|apply gap_ok_nli]. Qed.
Lemma gap_ok_opgap o : gap_ok (opgap o).
Proof. destruct o; try apply gap_ok_sp; constructor. Qed.

Lemma gaps_kvs n : forall kvs g, gap_ok g -> gaps_ok (ch_kvs c n g kvs).
Proof.
  induction kvs as [|fd r IH]; intros g Hg; [constructor|].
  destruct fd as [k key op [k2 s| | | |]| |]; cbn [ch_kvs]; try (constructor; fail).
  constructor; [exact Hg|]. constructor; [constructor|]. constructor; [constructor|]. apply IH, gap_ok_sp.
Qed.

Lemma chunks_gaps :
  (forall v n g, gap_ok g -> gaps_ok (ch_value c n g v)) /\
  (forall f n g, gap_ok g -> gaps_ok (ch_field c n g f)) /\
  (forall fs n g, gap_ok g -> gaps_ok (ch_fields c n g fs)) /\
  (forall vs n g, gap_ok g -> gaps_ok (ch_items c n g vs)).
Proof.
  unfold gaps_ok. apply doc_mutind.
  - intros k s n g Hg. constructor; [exact Hg|constructor].
  - intros fs Hfs tl _ n g Hg. cbn [ch_value]. constructor; [exact Hg|]. apply Forall_app. split.
    + apply Hfs, gap_ok_nli.
    + constructor; [apply gap_ok_close|constructor].
  - intros items H n g Hg. cbn [ch_value]. constructor; [exact Hg|]. apply Forall_app. split.
    + apply H, gap_ok_nli.
    + constructor; [apply gap_ok_close|constructor].
  - intros items H kvs _ n g Hg. cbn [ch_value]. constructor; [exact Hg|]. apply Forall_app. split; [|apply Forall_app; split].
    + apply H, gap_ok_nli.
    + apply gaps_kvs, gap_ok_sepgap.
    + constructor; [apply gap_ok_nli|constructor].
  - intros name v H n g Hg. cbn [ch_value]. constructor; [exact Hg|]. apply H, gap_ok_sp.
  - intros k key op v H n g Hg. cbn [ch_field]. constructor; [exact Hg|]. constructor; [apply gap_ok_opgap|].
    apply H, gap_ok_opgap.
  - intros name u s n g Hg. cbn [ch_field]. constructor; [exact Hg|]. constructor; [apply gap_ws; [reflexivity|constructor]|].
    constructor; constructor.
  - intros name u fs H n g Hg. cbn [ch_field]. constructor; [exact Hg|]. apply Forall_app. split.
    + apply H, gap_ok_nli.
    + constructor; [apply gap_ok_nli|constructor].
  - constructor.
  - intros f Hf fs Hfs n g Hg. cbn [ch_fields]. apply Forall_app. split; [apply Hf, Hg|apply Hfs, gap_ok_nli].
  - constructor.
  - intros v Hv vs Hvs n g Hg. cbn [ch_items]. apply Forall_app. split; [apply Hv, Hg|apply Hvs, gap_ok_sepgap].
Qed.
End Gaps.

(* ------------------------------------------------------------------ bare words are followed by a boundary byte *)
Definition bgap (g : bytes) : Prop := exists b r, g = b :: r /\ is_boundary b = true.
Definition bstart (ch : chunk) : Prop := bgap (fst ch ++ fst (snd ch)).
Fixpoint adjb (p : bool) (l : list chunk) : Prop :=
  match l with [] => True | ch :: r => (p = true -> bstart ch) /\ adjb (snd (snd ch)) r end.

Lemma adjb_weaken p l : adjb true l -> adjb p l.
Proof. destruct l as [|ch r]; [auto|]. intros [H1 H2]. split; auto. Qed.
Lemma adjb_app p a b : adjb p a -> adjb true b -> adjb p (a ++ b).
Proof.
  revert p. induction a as [|x a IH]; intros p Ha Hb; [apply adjb_weaken, Hb|].
  destruct Ha as [H1 H2]. split; [exact H1|]. apply IH; assumption.
Qed.
Lemma bgap_app g x : bgap g -> bgap (g ++ x).
Proof. intros [b [r [-> H]]]. exists b, (r ++ x). auto. Qed.
Lemma bstart_gap g tk : bgap g -> bstart (g, tk).
Proof. intros H. apply bgap_app, H. Qed.
Lemma bgap_sp : bgap [SP].
Proof. exists SP, []. auto. Qed.
Lemma bgap_nli c n : bgap (nli c n).
Proof. exists NL, (ind c n). auto. Qed.
Lemma bgap_sepgap c n b : bgap (sepgap c n b).
Proof. destruct b; [apply bgap_nli|apply bgap_sp]. Qed.
Lemma bgap_close c n b : bgap (close_gap c n b).
Proof. destruct b; [apply bgap_sp|apply bgap_nli]. Qed.
Lemma bstart_op o : bstart (opgap o, optk o).
Proof. destruct o; eexists; eexists; (split; [reflexivity|reflexivity]). Qed.

Lemma adj_kvs c n : forall kvs g p, wf_kvs kvs = true -> (p = true -> bgap g) -> adjb p (ch_kvs c n g kvs).
Proof.
  induction kvs as [|fd r IH]; intros g p Hwf Hg; [exact I|].
  destruct fd as [k key op v| |]; try discriminate Hwf. cbn [wf_kvs] in Hwf. andb_split.
  destruct v as [k2 s| | | |]; try discriminate. destruct op as [o|]; [|discriminate].
  cbn [ch_kvs adjb op_or_eq]. split; [intros Hp; apply bstart_gap, Hg, Hp|]. split.
  - intros _. destruct o; try discriminate; eexists; eexists; (split; [reflexivity|reflexivity]).
  - split; [discriminate|]. apply IH; [assumption|]. intros _. apply bgap_sp.
Qed.

Lemma chunks_adj c :
  (forall v n g p, wf_value v = true -> (p = true -> bgap g) -> adjb p (ch_value c n g v)) /\
  (forall f n g p, wf_field f = true -> (p = true -> bgap g) -> adjb p (ch_field c n g f)) /\
  (forall fs n g p, wf_fields fs = true -> (p = true -> bgap g) -> adjb p (ch_fields c n g fs)) /\
  (forall vs n g p, wf_items vs = true -> (p = true -> bgap g) -> adjb p (ch_items c n g vs)).
Proof.
  apply doc_mutind.
  - intros k s n g p _ Hg. split; [intros Hp; apply bstart_gap, Hg, Hp|exact I].
  - intros fs Hfs tl _ n g p Hwf Hg. cbn [wf_value] in Hwf. andb_split. cbn [ch_value].
    split; [intros Hp; apply bstart_gap, Hg, Hp|]. apply adjb_app.
    + apply Hfs; [assumption|discriminate].
    + split; [intros _; apply bstart_gap, bgap_close|exact I].
  - intros items H n g p Hwf Hg. cbn [wf_value] in Hwf. andb_split. cbn [ch_value].
    split; [intros Hp; apply bstart_gap, Hg, Hp|]. apply adjb_app.
    + apply H; [assumption|discriminate].
    + split; [intros _; apply bstart_gap, bgap_close|exact I].
  - intros items H kvs _ n g p Hwf Hg. cbn [wf_value] in Hwf. andb_split. cbn [ch_value].
    split; [intros Hp; apply bstart_gap, Hg, Hp|]. apply adjb_app; [|apply adjb_app].
    + apply H; [assumption|discriminate].
    + apply adj_kvs; [assumption|]. intros _. apply bgap_sepgap.
    + split; [intros _; apply bstart_gap, bgap_nli|exact I].
  - intros name v H n g p Hwf Hg. cbn [wf_value] in Hwf. andb_split. cbn [ch_value].
    split; [intros Hp; apply bstart_gap, Hg, Hp|]. apply H; [assumption|]. intros _. apply bgap_sp.
  - intros k key op v H n g p Hwf Hg. cbn [wf_field] in Hwf. andb_split. cbn [ch_field].
    split; [intros Hp; apply bstart_gap, Hg, Hp|]. split; [intros _; apply bstart_op|].
    apply H; [assumption|discriminate].
  - intros name u s n g p _ Hg. cbn [ch_field]. split; [intros Hp; apply bstart_gap, Hg, Hp|].
    split; [discriminate|]. split; [|exact I]. intros _. eexists; eexists; (split; [reflexivity|reflexivity]).
  - intros name u fs H n g p Hwf Hg. cbn [wf_field] in Hwf. andb_split. cbn [ch_field].
    split; [intros Hp; apply bstart_gap, Hg, Hp|]. apply adjb_app.
    + apply H; [assumption|discriminate].
    + split; [intros _; apply bstart_gap, bgap_nli|exact I].
  - intros; exact I.
  - intros f Hf fs Hfs n g p Hwf Hg. cbn [wf_fields] in Hwf. andb_split. cbn [ch_fields]. apply adjb_app.
    + apply Hf; assumption.
    + apply Hfs; [assumption|]. intros _. apply bgap_nli.
  - intros; exact I.
  - intros v Hv vs Hvs n g p Hwf Hg. cbn [wf_items] in Hwf. andb_split. cbn [ch_items]. apply adjb_app.
    + apply Hv; assumption.
    + apply Hvs; [assumption|]. intros _. apply bgap_sepgap.
Qed.

Lemma adjb_sep (chs : list chunk) : forall p k (g : nat -> bytes), adjb p chs ->
  (forall i, i < length chs -> g (k + i) = fst (nth i chs ([], ([], false)))) -> g (k + length chs) = [] ->
  sep_ok g (map snd chs) k.
Proof.
  induction chs as [|ch r IH]; intros p k g Ha Hg He; [exact I|].
  destruct Ha as [_ Ha]. cbn [map sep_ok].
  assert (Hg' : forall i, i < length r -> g (S k + i) = fst (nth i r ([], ([], false)))).
  { intros i Hi. replace (S k + i) with (k + S i) by lia. rewrite Hg by (cbn; lia). reflexivity. }
  assert (He' : g (S k + length r) = []).
  { rewrite <- He. f_equal. cbn [length]. lia. }
  split; [|apply (IH _ _ _ Ha Hg' He')].
  intros Hgl. rewrite (render_chunks r (S k) g Hg'), He', app_nil_r.
  destruct r as [|ch2 r2]; [exact I|]. destruct Ha as [Hb _]. specialize (Hb Hgl).
  destruct Hb as [b [rr [E Hb]]]. destruct ch2 as [g2 t2]. rewrite cbytes_cons, app_assoc.
  cbn [fst snd] in E. rewrite E. exact Hb.
Qed.

(* ------------------------------------------------------------------ the output does not start with a BOM *)
Lemma has_bom_hd_ne a r : a <> 239%N -> has_bom (a :: r) = false.
Proof.
  intros Ha. unfold has_bom. destruct a as [|p]; [reflexivity|].
  do 8 (destruct p as [p|p|]; try reflexivity). all: exfalso; apply Ha; reflexivity.
Qed.
Lemma has_bom_2nd_ne b r : b <> 187%N -> has_bom (239%N :: b :: r) = false.
Proof.
  intros Hb. unfold has_bom. destruct b as [|p]; [reflexivity|].
  do 8 (destruct p as [p|p|]; try reflexivity). all: exfalso; apply Hb; reflexivity.
Qed.
Lemma has_bom_3rd_ne x r : x <> 191%N -> has_bom (239%N :: 187%N :: x :: r) = false.
Proof.
  intros Hx. unfold has_bom. destruct x as [|p]; [reflexivity|].
  do 8 (destruct p as [p|p|]; try reflexivity). all: exfalso; apply Hx; reflexivity.
Qed.
Lemma has_bom_3 a b x r r' : has_bom (a :: b :: x :: r) = has_bom (a :: b :: x :: r').
Proof.
  destruct (N.eq_dec a 239) as [->|Ha]; [|rewrite !has_bom_hd_ne by exact Ha; reflexivity].
  destruct (N.eq_dec b 187) as [->|Hb]; [|rewrite !has_bom_2nd_ne by exact Hb; reflexivity].
  destruct (N.eq_dec x 191) as [->|Hx]; [reflexivity|rewrite !has_bom_3rd_ne by exact Hx; reflexivity].
Qed.

Lemma has_bom_key key rest : has_bom key = false -> bgap rest -> has_bom (key ++ rest) = false.
Proof.
  intros Hk [b [r [-> Hb]]].
  assert (N1 : b <> 239%N) by (intros ->; discriminate Hb).
  assert (N2 : b <> 187%N) by (intros ->; discriminate Hb).
  assert (N3 : b <> 191%N) by (intros ->; discriminate Hb).
  destruct key as [|a [|b' [|x k]]]; cbn [app].
  - apply has_bom_hd_ne, N1.
  - destruct (N.eq_dec a 239) as [->|Ha]; [apply has_bom_2nd_ne, N2|apply has_bom_hd_ne, Ha].
  - destruct (N.eq_dec a 239) as [->|Ha]; [|apply has_bom_hd_ne, Ha].
    destruct (N.eq_dec b' 187) as [->|Hb']; [apply has_bom_3rd_ne, N3|apply has_bom_2nd_ne, Hb'].
  - rewrite (has_bom_3 _ _ _ _ k). exact Hk.
Qed.

Lemma chunks_nobom c d : wf_doc d -> nobom d = true -> has_bom (cbytes (chunks_w c d)) = false.
Proof.
  intros Hwf Hn. unfold chunks_w. destruct d as [|f fs]; [reflexivity|].
  cbn [ch_fields]. rewrite cbytes_app. destruct f as [k key op v|name u s|name u fs'].
  - cbn [ch_field]. rewrite !cbytes_cons. cbn [app stok fst optk]. destruct k; cbn [scalar_bytes].
    + cbn [nobom] in Hn. rewrite <- !app_assoc. apply has_bom_key; [destruct (has_bom key); [discriminate|reflexivity]|].
      rewrite app_assoc. apply bgap_app. apply (bstart_op (op_or_eq op)).
    + reflexivity.
  - reflexivity.
  - reflexivity.
Qed.

(* ------------------------------------------------------------------ the normalisation is invisible on the tape and keeps documents well formed *)
Lemma flat_norm :
  (forall v off, flat_value off (norm_value v) = flat_value off v) /\
  (forall f off, flat_field false off (norm_field f) = flat_field false off f) /\
  (forall fs off, flat_fields false off (norm_fields fs) = flat_fields false off fs) /\
  (forall vs off, flat_values off (norm_values vs) = flat_values off vs).
Proof.
  apply doc_mutind.
  - reflexivity.
  - intros fs Hfs tl _ off. cbn [norm_value flat_value]. rewrite Hfs. reflexivity.
  - intros items H off. cbn [norm_value flat_value]. rewrite H. reflexivity.
  - intros items H kvs _ off. cbn [norm_value flat_value]. rewrite H. reflexivity.
  - intros name v H off. cbn [norm_value flat_value]. rewrite H. reflexivity.
  - intros k key op v H off. cbn [norm_field flat_field].
    replace (op_toks false (Some match op with Some o => o | None => Equal end)) with (op_toks false op)
      by (destruct op as [[]|]; reflexivity).
    rewrite H. reflexivity.
  - reflexivity.
  - intros name u fs H off. cbn [norm_field flat_field]. rewrite H. reflexivity.
  - reflexivity.
  - intros f Hf fs Hfs off. cbn [norm_fields flat_fields]. rewrite Hf, Hfs. reflexivity.
  - reflexivity.
  - intros v Hv vs Hvs off. cbn [norm_values flat_values]. rewrite Hv, Hvs. reflexivity.
Qed.

Lemma flatten_norm d : flatten (norm_fields d) = flatten d.
Proof. apply (proj1 (proj2 (proj2 flat_norm))). Qed.

Lemma norm_is_container v : is_container (norm_value v) = is_container v.
Proof. destruct v; reflexivity. Qed.
Lemma norm_is_header v : is_header (norm_value v) = is_header v.
Proof. destruct v; reflexivity. Qed.
Lemma norm_is_empty_array v : is_empty_array (norm_value v) = is_empty_array v.
Proof. destruct v as [| |[|]| |]; reflexivity. Qed.
Lemma norm_first_field_ok fs : first_field_ok fs = true -> first_field_ok (norm_fields fs) = true.
Proof. destruct fs as [|[k key [o|] v| |] r]; try reflexivity; try discriminate. cbn. auto. Qed.
Lemma norm_param_first_ok fs : param_first_ok fs = true -> param_first_ok (norm_fields fs) = true.
Proof. destruct fs as [|[[] key [o|] v| |] r]; try reflexivity; try discriminate. Qed.
Lemma norm_param_first_word fs : param_first_word (norm_fields fs) = param_first_word fs.
Proof. destruct fs as [|[[] key op v| |] r]; reflexivity. Qed.
Lemma norm_first_item_scalar vs : first_item_scalar (norm_values vs) = first_item_scalar vs.
Proof. destruct vs as [|[] r]; reflexivity. Qed.
Lemma norm_first_item_not_ghost vs : first_item_not_ghost (norm_values vs) = first_item_not_ghost vs.
Proof. destruct vs as [|[| |[|]| |] r]; reflexivity. Qed.

Lemma wf_norm :
  (forall v, wf_value v = true -> wf_value (norm_value v) = true) /\
  (forall f, wf_field f = true -> wf_field (norm_field f) = true) /\
  (forall fs, wf_fields fs = true -> wf_fields (norm_fields fs) = true) /\
  (forall vs, wf_items vs = true -> wf_items (norm_values vs) = true).
Proof.
  apply doc_mutind.
  - auto.
  - intros fs Hfs tl _ Hwf. cbn [wf_value norm_value] in *. andb_split.
    rewrite norm_first_field_ok, Hfs by assumption. assumption.
  - intros items H Hwf. cbn [wf_value norm_value] in *. andb_split.
    rewrite norm_first_item_not_ghost, H by assumption. rewrite H0. reflexivity.
  - intros items H kvs _ Hwf. cbn [wf_value norm_value] in *. andb_split.
    rewrite norm_first_item_scalar, H by assumption. rewrite H0, H2, H1. reflexivity.
  - intros name v H Hwf. cbn [wf_value norm_value] in *. andb_split.
    rewrite norm_is_container, norm_is_empty_array, H by assumption. rewrite H0, H3, H2. reflexivity.
  - intros k key op v H Hwf. cbn [wf_field norm_field] in *. andb_split.
    rewrite H by assumption. rewrite H0. reflexivity.
  - auto.
  - intros name u fs H Hwf. cbn [wf_field norm_field] in *. andb_split.
    rewrite norm_param_first_ok, norm_param_first_word, H by assumption. rewrite H0, H2. reflexivity.
  - auto.
  - intros f Hf fs Hfs Hwf. cbn [wf_fields norm_fields] in *. andb_split. rewrite Hf, Hfs by assumption. reflexivity.
  - auto.
  - intros v Hv vs Hvs Hwf. cbn [wf_items norm_values] in *. andb_split.
    rewrite norm_is_header, Hv, Hvs by assumption. rewrite H. reflexivity.
Qed.

(* ------------------------------------------------------------------ the theorems *)
Definition w_end (d : doc) : wr := if fields_empty d then wr_init else mkwr DObject [] WKey true MDisabled.

Lemma render_layout_w c d : rt d -> render (norm_fields d) (layout_w c d) = cbytes (chunks_w c d).
Proof.
  intros [Hwf [Hrt _]]. unfold render, layout_w. cbn [bom gap app].
  rewrite <- (proj1 (proj2 (proj2 (chunks_toks c))) d 0 [] Hrt Hwf). apply render_layout_chunks.
Qed.

Theorem write_is_layout c d : rt d ->
  write_tape (tape_fuel (flatten d)) c (flatten d) = WOk (w_end d) (render (norm_fields d) (layout_w c d)).
Proof. intros H. rewrite render_layout_w by exact H. destruct H as [Hwf [Hrt _]]. apply write_tape_chunks; assumption. Qed.

Theorem layout_w_wf c d : cfg_ok c -> rt d -> wf_layout (norm_fields d) (layout_w c d).
Proof.
  intros Hc Hr. pose proof Hr as [Hwf [Hrt Hnb]]. split; [|split].
  - intros i. unfold layout_w. cbn [gap].
    destruct (Nat.lt_ge_cases i (length (map fst (chunks_w c d)))) as [Hi|Hi]; [|rewrite nth_overflow by exact Hi; constructor].
    apply Forall_nth; [|exact Hi]. apply Forall_map.
    apply (proj1 (proj2 (proj2 (chunks_gaps c Hc))) d 0 []). constructor.
  - unfold layout_w. cbn [gap].
    rewrite <- (proj1 (proj2 (proj2 (chunks_toks c))) d 0 [] Hrt Hwf).
    apply (adjb_sep _ false 0).
    + apply (proj1 (proj2 (proj2 (chunks_adj c))) d 0 [] false Hwf). discriminate.
    + intros i Hi. cbn [Nat.add]. change (@nil N) with (fst (@nil N, (@nil N, false))). apply map_nth.
    + apply nth_overflow. rewrite map_length. apply Nat.le_refl.
  - intros _. rewrite render_layout_w by exact Hr. apply chunks_nobom; assumption.
Qed.

Theorem norm_wf d : wf_doc d -> wf_doc (norm_fields d).
Proof. apply (proj1 (proj2 (proj2 wf_norm))). Qed.

(* C14: what write_tape prints for the tape of a round-trippable document parses back to that tape *)
Theorem write_reparse c d out w : cfg_ok c -> rt d ->
  write_tape (tape_fuel (flatten d)) c (flatten d) = WOk w out -> parse out = Ok (flatten d, false).
Proof.
  intros Hc Hr Hw. rewrite (write_is_layout c d Hr) in Hw. inversion Hw; subst.
  rewrite (parse_render (norm_fields d) (layout_w c d)).
  - rewrite flatten_norm. reflexivity.
  - apply norm_wf, Hr.
  - apply layout_w_wf; assumption.
Qed.

(* write . parse . write = write *)
Theorem write_idempotent c d out w : cfg_ok c -> rt d ->
  write_tape (tape_fuel (flatten d)) c (flatten d) = WOk w out ->
  exists t', parse out = Ok (t', false) /\ write_tape (tape_fuel t') c t' = WOk w out.
Proof.
  intros Hc Hr Hw. exists (flatten d). split; [apply (write_reparse c d out w); assumption|exact Hw].
Qed.
