(* Proofs about TapeWf (checker soundness) and Dom (C17). *)
From JV Require Import Bytes TextTok TapeWf Dom.
Require Import Lia.
Open Scope nat_scope.

(* ================================================================ small facts *)
Lemma beqb_refl : forall a, beqb a a = true.
Proof. induction a; cbn [beqb]; auto. rewrite N.eqb_refl, IHa. reflexivity. Qed.

Lemma beqb_eq : forall a b, beqb a b = true <-> a = b.
Proof.
  induction a; destruct b; cbn [beqb]; split; intro H; try discriminate; auto.
  - apply andb_true_iff in H. destruct H as [H1 H2]. apply N.eqb_eq in H1. apply IHa in H2. congruence.
  - inversion H; subst. rewrite N.eqb_refl. cbn. apply IHa. reflexivity.
Qed.

Lemma beqb_neq : forall a b, beqb a b = false <-> a <> b.
Proof.
  intros. split; intro H.
  - intro E. apply beqb_eq in E. congruence.
  - destruct (beqb a b) eqn:E; auto. apply beqb_eq in E. contradiction.
Qed.

Lemma tget_lt : forall t i k, tget t i = Some k -> i < length t.
Proof. intros. apply nth_error_Some. unfold tget in H. congruence. Qed.

Lemma tget_skipn : forall t i k, tget t i = Some k -> skipn i t = k :: skipn (S i) t.
Proof.
  induction t; intros i k H; destruct i; cbn in *; try discriminate.
  - inversion H. reflexivity.
  - apply IHt. exact H.
Qed.

Lemma is_end_of_spec : forall x i, is_end_of x i = true -> x = Some (TEnd i).
Proof.
  intros [k|] i H; cbn in H; try discriminate. destruct k; try discriminate.
  apply Nat.eqb_eq in H. subst. reflexivity.
Qed.

(* ================================================================ checker soundness *)
Lemma dyckb_sound : forall f t i e, dyckb f t i e = true -> dyck t i e.
Proof.
  induction f; intros t i e H; cbn [dyckb] in H; try discriminate.
  destruct (Nat.eqb i e) eqn:E.
  { apply Nat.eqb_eq in E. subst. constructor. }
  destruct (tget t i) as [k|] eqn:K; try discriminate.
  destruct k;
    try (eapply dyck_leaf; [exact K | reflexivity | apply IHf; exact H]);
    try discriminate.
  - (* array *)
    repeat (apply andb_true_iff in H; destruct H as [H ?]).
    apply Nat.ltb_lt in H. apply Nat.ltb_lt in H3.
    eapply dyck_cont; eauto. reflexivity.
  - repeat (apply andb_true_iff in H; destruct H as [H ?]).
    apply Nat.ltb_lt in H. apply Nat.ltb_lt in H3.
    eapply dyck_cont; eauto. reflexivity.
  - (* header *)
    destruct (tget t (S i)) as [k'|] eqn:K'; try discriminate.
    apply andb_true_iff in H. destruct H as [H1 H2].
    apply andb_true_iff in H1. destruct H1 as [H1 H3]. apply Nat.ltb_lt in H3.
    eapply dyck_header; eauto.
Qed.

Lemma fields_endb_sound : forall f t i e r, fields_endb f t i e = Some r -> fields_end t i e r.
Proof.
  induction f; intros t i e r H; cbn [fields_endb] in H; try discriminate.
  destruct (Nat.eqb i e) eqn:E.
  { apply Nat.eqb_eq in E. inversion H; subst. constructor. }
  destruct (tget t i) as [k|] eqn:K; try discriminate.
  assert (G : forall (HK : is_key k = true)
                (H' : match value_end t (value_ind_of t i) with
                      | Some n => if Nat.leb n e then fields_endb f t n e else None
                      | None => None end = Some r), fields_end t i e r).
  { intros HK H'. destruct (value_end t (value_ind_of t i)) as [n|] eqn:V; try discriminate.
    destruct (Nat.leb n e) eqn:L; try discriminate. apply Nat.leb_le in L.
    eapply fe_field; eauto. }
  destruct k; cbn [is_key] in H; try discriminate; try (apply G; [reflexivity | exact H]).
  destruct (Nat.ltb i e) eqn:L; try discriminate. inversion H; subst.
  apply Nat.ltb_lt in L. apply fe_mixed; auto.
Qed.

Lemma cont_okb_sound : forall t i, cont_okb t i = true -> cont_ok t i.
Proof.
  intros t i H. unfold cont_okb in H. unfold cont_ok.
  destruct (tget t i) as [k|] eqn:K; auto.
  destruct k; auto.
  - repeat (apply andb_true_iff in H; destruct H as [H ?]).
    apply Nat.ltb_lt in H. apply Nat.ltb_lt in H2. apply dyckb_sound in H0. auto.
  - apply andb_true_iff in H. destruct H as [H HF].
    repeat (apply andb_true_iff in H; destruct H as [H ?]).
    apply Nat.ltb_lt in H. apply Nat.ltb_lt in H2. apply dyckb_sound in H0.
    destruct (fields_endb (S (length t)) t (S i) e) as [r|] eqn:F; try discriminate.
    apply fields_endb_sound in F.
    repeat split; auto. exists r. split; auto. intro M. subst mixed.
    apply Nat.ltb_lt in HF. exact HF.
  - destruct (tget t (S i)); auto. discriminate.
Qed.

Theorem tape_wfb_sound : forall t, tape_wfb t = true -> tape_wf t.
Proof.
  intros t H. unfold tape_wfb in H.
  repeat (apply andb_true_iff in H; destruct H as [H ?]).
  unfold tape_wf. repeat split.
  - apply dyckb_sound in H. exact H.
  - destruct (fields_endb (S (length t)) t 0 (length t)) as [r|] eqn:F; try discriminate.
    exists r. apply fields_endb_sound in F. exact F.
  - intros i Hi. apply cont_okb_sound.
    rewrite forallb_forall in H1. apply H1. apply in_seq. lia.
  - destruct (tget t 0); auto. apply negb_true_iff in H0. exact H0.
Qed.

(* ================================================================ Dyck facts *)
Lemma dyck_le : forall t i e, dyck t i e -> i <= e.
Proof. induction 1; lia. Qed.

Ltac same_tok K :=
  match goal with
  | H : tget ?t ?i = Some _ |- _ =>
      lazymatch H with K => fail | _ => rewrite K in H; inversion H; subst; clear H end
  end.

Lemma dyck_inv_leaf : forall t i e k,
  dyck t i e -> i < e -> tget t i = Some k -> is_leaf k = true -> dyck t (S i) e.
Proof.
  intros t i e k D L K LF. inversion D; subst; try lia; auto.
  rewrite K in H. inversion H; subst. destruct k0; discriminate.
Qed.

Lemma dyck_inv_header : forall t i e s,
  dyck t i e -> i < e -> tget t i = Some (THeader s) ->
  dyck t (S i) e /\ S i < e /\ exists k, tget t (S i) = Some k /\ is_container k = true.
Proof.
  intros t i e s D L K. inversion D; subst; try lia.
  - rewrite K in H. inversion H; subst. discriminate.
  - split; auto. split; auto. eauto.
  - rewrite K in H. inversion H; subst. discriminate.
Qed.

Lemma dyck_inv_cont : forall t i e k e',
  dyck t i e -> i < e -> tget t i = Some k -> container_end k = Some e' ->
  i < e' /\ e' < e /\ tget t e' = Some (TEnd i) /\ dyck t (S i) e' /\ dyck t (S e') e.
Proof.
  intros t i e k e' D L K C. inversion D; subst; try lia.
  - rewrite K in H. inversion H; subst. destruct k0; discriminate.
  - rewrite K in H. inversion H; subst. discriminate.
  - rewrite K in H. inversion H; subst. rewrite C in H0. inversion H0; subst.
    apply is_end_of_spec in H3. auto.
Qed.

(* a non-empty Dyck range cannot start with an End token *)
Lemma dyck_no_end : forall t i e j, dyck t i e -> i < e -> tget t i <> Some (TEnd j).
Proof.
  intros t i e j D L K. inversion D; subst; try lia; rewrite K in H; inversion H; subst; discriminate.
Qed.

(* ================================================================ index arithmetic *)
Lemma tok_at_some : forall s t i k, tget t i = Some k -> tok_at s t i = Ok k.
Proof. intros. unfold tok_at. rewrite H. reflexivity. Qed.

Lemma next_idx_unfold : forall t idx k, tget t idx = Some k ->
  next_idx t idx =
  match k with
  | TArray e _ | TObject e _ => Ok (S e)
  | TOperator _ => next_idx t (S idx)
  | THeader _ => next_idx_header t (S idx)
  | _ => Ok (S idx)
  end.
Proof.
  intros t idx k K. unfold next_idx. rewrite (tget_skipn _ _ _ K).
  cbn [next_idx_suffix]. destruct k; reflexivity.
Qed.

Definition is_value_start (k : ttok) : bool :=
  match k with
  | TArray _ _ | TObject _ _ | THeader _ | TUnquoted _ | TQuoted _ | TParameter _ | TUndefinedParameter _ => true
  | _ => false
  end.

Lemma value_end_next_idx : forall t v n, value_end t v = Some n -> next_idx t v = Ok n.
Proof.
  intros t v n H. unfold value_end in H.
  destruct (tget t v) as [k|] eqn:K; try discriminate.
  rewrite (next_idx_unfold _ _ _ K).
  destruct k; cbn [is_key] in H; try discriminate; try (inversion H; reflexivity).
  unfold next_idx_header.
  destruct (tget t (S v)) as [k'|] eqn:K'; try discriminate.
  rewrite (tok_at_some _ _ _ _ K'). cbn [obind].
  destruct k'; try discriminate; inversion H; reflexivity.
Qed.

Definition conts_ok (t : ttape) : Prop := forall i, i < length t -> cont_ok t i.

Lemma cont_lt : forall t i k e, conts_ok t -> tget t i = Some k -> container_end k = Some e ->
  i < e /\ e < length t /\ tget t e = Some (TEnd i) /\ dyck t (S i) e.
Proof.
  intros t i k e W K C. pose proof (W i (tget_lt _ _ _ K)) as H. unfold cont_ok in H. rewrite K in H.
  destruct k; try discriminate; inversion C; subst.
  - destruct H as (A & B & E & D). apply is_end_of_spec in E. auto.
  - destruct H as (A & B & E & D & _). apply is_end_of_spec in E. auto.
Qed.

Lemma value_end_gt : forall t v n, conts_ok t -> value_end t v = Some n -> v < n.
Proof.
  intros t v n W H. unfold value_end in H.
  destruct (tget t v) as [k|] eqn:K; try discriminate.
  destruct k; cbn [is_key] in H; try discriminate; try (inversion H; lia).
  - inversion H; subst. destruct (cont_lt t v _ e W K eq_refl). lia.
  - inversion H; subst. destruct (cont_lt t v _ e W K eq_refl). lia.
  - destruct (tget t (S v)) as [k'|] eqn:K'; try discriminate.
    destruct k'; try discriminate; inversion H; subst;
      destruct (cont_lt t (S v) _ e W K' eq_refl); lia.
Qed.

(* ================================================================ fields *)
Definition op_of (t : ttape) (i : nat) : option operator :=
  match tget t (S i) with Some (TOperator o) => Some o | _ => None end.

(* the fields the object grammar describes *)
Inductive fields_spec (t : ttape) : nat -> nat -> nat -> list field -> Prop :=
| fs_done : forall e, fields_spec t e e e []
| fs_mixed : forall i e, tget t i = Some TMixedContainer -> i < e -> fields_spec t i e i []
| fs_field : forall i e r k n l,
    tget t i = Some k -> is_key k = true ->
    value_end t (value_ind_of t i) = Some n -> n <= e -> S i < n ->
    fields_spec t n e r l ->
    fields_spec t i e r (mk_field k (op_of t i) (value_ind_of t i) :: l).

Lemma value_ind_gt : forall t i, i < value_ind_of t i.
Proof. intros. unfold value_ind_of. destruct (tget t (S i)) as [[]|]; lia. Qed.

Lemma value_end_lt_len : forall t v n, value_end t v = Some n -> v < length t.
Proof.
  intros t v n H. unfold value_end in H. destruct (tget t v) eqn:K; try discriminate.
  eapply tget_lt; eauto.
Qed.

Lemma fields_end_spec : forall t, conts_ok t ->
  forall i e r, fields_end t i e r -> exists l, fields_spec t i e r l.
Proof.
  intros t W i e r H. induction H.
  - exists []. constructor.
  - exists []. constructor; auto.
  - destruct IHfields_end as [l IH]. eexists. eapply fs_field; eauto.
    pose proof (value_ind_gt t i). pose proof (value_end_gt _ _ _ W H1). lia.
Qed.

Lemma fields_spec_end : forall t i e r l, fields_spec t i e r l -> fields_end t i e r.
Proof. induction 1; econstructor; eauto. Qed.

Lemma fields_spec_bounds : forall t i e r l,
  fields_spec t i e r l -> 2 * length l + i <= r /\ r <= e.
Proof. induction 1; cbn [length]; lia. Qed.

Lemma fields_spec_stop : forall t i e r l,
  fields_spec t i e r l -> r = e \/ (r < e /\ tget t r = Some TMixedContainer).
Proof. induction 1; auto. Qed.

Lemma fields_spec_fun : forall t i e r l, fields_spec t i e r l ->
  forall r' l', fields_spec t i e r' l' -> r = r' /\ l = l'.
Proof.
  induction 1; intros r' l' H'.
  - inversion H'; subst; auto; lia.
  - inversion H'; subst; auto; try lia.
    rewrite H in H1. inversion H1; subst. discriminate.
  - inversion H'; subst; try lia.
    + rewrite H in H5. inversion H5; subst. discriminate.
    + rewrite H in H5. inversion H5; subst. rewrite H1 in H7. inversion H7; subst.
      destruct (IHfields_spec _ _ H10). subst. auto.
Qed.

Lemma fields_next_field : forall dbg t i e k n,
  tget t i = Some k -> is_key k = true -> i < e ->
  value_end t (value_ind_of t i) = Some n ->
  fields_next dbg t i e = Ok (Some (mk_field k (op_of t i) (value_ind_of t i), n)).
Proof.
  intros dbg t i e k n K HK L V.
  pose proof (value_end_lt_len _ _ _ V) as VL. pose proof (value_ind_gt t i) as VG.
  assert (exists k1, tget t (S i) = Some k1) as [k1 K1].
  { destruct (tget t (S i)) eqn:E; eauto. apply nth_error_None in E. lia. }
  pose proof (value_end_next_idx _ _ _ V) as NI.
  unfold fields_next. replace (Nat.leb e i) with false by (symmetry; apply Nat.leb_gt; lia).
  rewrite (tok_at_some _ _ _ _ K). cbn [obind].
  unfold op_of, value_ind_of in *. rewrite K1 in *.
  destruct k; try discriminate; rewrite (tok_at_some _ _ _ _ K1); cbn [obind];
    destruct k1; cbn [obind];
    try (replace (i + 2) with (S (S i)) by lia); try (replace (i + 1) with (S i) by lia);
    rewrite NI; reflexivity.
Qed.

Lemma fields_next_stop : forall dbg t r e,
  r = e \/ (r < e /\ tget t r = Some TMixedContainer) -> fields_next dbg t r e = Ok None.
Proof.
  intros dbg t r e [H | [L M]]; unfold fields_next.
  - subst. rewrite Nat.leb_refl. reflexivity.
  - replace (Nat.leb e r) with false by (symmetry; apply Nat.leb_gt; lia).
    rewrite (tok_at_some _ _ _ _ M). reflexivity.
Qed.

Lemma fields_drain_spec : forall dbg t i e r l,
  fields_spec t i e r l -> forall fuel, length l < fuel ->
  fields_drain fuel dbg t i e = Ok (l, r).
Proof.
  intros dbg t i e r l H. induction H; intros fuel F; (destruct fuel; [cbn in F; lia|]); cbn [fields_drain].
  - rewrite fields_next_stop by auto. reflexivity.
  - rewrite fields_next_stop by auto. reflexivity.
  - pose proof (fields_spec_bounds _ _ _ _ _ H4).
    rewrite (fields_next_field dbg t i e k n) by (auto; lia). cbn [obind].
    rewrite IHfields_spec by (cbn in F; lia). reflexivity.
Qed.

Lemma fields_len_spec : forall t i e r l,
  fields_spec t i e r l -> forall fuel c, length l < fuel ->
  fields_len_loop fuel t i e c = Ok (c + length l).
Proof.
  intros t i e r l H. induction H; intros fuel c F; (destruct fuel; [cbn in F; lia|]); cbn [fields_len_loop length].
  - rewrite Nat.ltb_irrefl. f_equal. lia.
  - replace (Nat.ltb i e) with true by (symmetry; apply Nat.ltb_lt; lia).
    rewrite (tok_at_some _ _ _ _ H). cbn [obind]. f_equal. lia.
  - pose proof (fields_spec_bounds _ _ _ _ _ H4).
    replace (Nat.ltb i e) with true by (symmetry; apply Nat.ltb_lt; lia).
    rewrite (tok_at_some _ _ _ _ H). cbn [obind].
    pose proof (value_end_lt_len _ _ _ H1) as VL. pose proof (value_ind_gt t i) as VG.
    assert (exists k1, tget t (S i) = Some k1) as [k1 K1].
    { destruct (tget t (S i)) eqn:E; eauto. apply nth_error_None in E. lia. }
    pose proof (value_end_next_idx _ _ _ H1) as NI.
    unfold value_ind_of in NI. rewrite K1 in NI.
    assert (G : (do k1' <- tok_at P_fields_len_op t (S i);
                 let value_ind := match k1' with TOperator _ => i + 2 | _ => i + 1 end in
                 do n' <- next_idx t value_ind; fields_len_loop fuel t n' e (S c)) = Ok (c + S (length l))).
    { rewrite (tok_at_some _ _ _ _ K1). cbn [obind].
      replace (i + 2) with (S (S i)) by lia. replace (i + 1) with (S i) by lia.
      destruct k1; rewrite NI; cbn [obind]; rewrite IHfields_spec by (cbn in F; lia); f_equal; lia. }
    destruct k; try discriminate; exact G.
Qed.

(* ================================================================ values *)
(* the top-level items of a Dyck range *)
Inductive items (t : ttape) : nat -> nat -> list nat -> Prop :=
| it_nil : forall e, items t e e []
| it_one : forall i e k l, tget t i = Some k -> container_end k = None -> i < e ->
    items t (S i) e l -> items t i e (i :: l)
| it_cont : forall i e k e' l, tget t i = Some k -> container_end k = Some e' -> i < e' -> e' < e ->
    items t (S e') e l -> items t i e (i :: l).

Lemma dyck_items : forall t i e, dyck t i e -> exists l, items t i e l.
Proof.
  induction 1.
  - exists []. constructor.
  - destruct IHdyck as [l IH]. exists (i :: l). pose proof (dyck_le _ _ _ H1).
    eapply it_one; eauto. destruct k; try discriminate; reflexivity.
  - destruct IHdyck as [l IH]. exists (i :: l).
    eapply it_one; eauto. lia.
  - destruct IHdyck2 as [l IH]. exists (i :: l). eapply it_cont; eauto.
Qed.

Lemma items_bounds : forall t i e l, items t i e l -> length l + i <= e.
Proof. induction 1; cbn [length]; lia. Qed.

Lemma items_in : forall t i e l, items t i e l -> forall v, In v l -> i <= v < e.
Proof.
  induction 1; intros v IN; cbn in IN; try contradiction.
  - destruct IN as [<- | IN]; [lia|]. apply IHitems in IN. lia.
  - destruct IN as [<- | IN]; [pose proof (items_bounds _ _ _ _ H3); lia|]. apply IHitems in IN. lia.
Qed.

Lemma next_idx_values_one : forall t i k, tget t i = Some k -> container_end k = None ->
  next_idx_values t i = Ok (S i).
Proof.
  intros. unfold next_idx_values. rewrite (tok_at_some _ _ _ _ H). cbn [obind].
  destruct k; try discriminate; reflexivity.
Qed.

Lemma next_idx_values_cont : forall t i k e, tget t i = Some k -> container_end k = Some e ->
  next_idx_values t i = Ok (S e).
Proof.
  intros. unfold next_idx_values. rewrite (tok_at_some _ _ _ _ H). cbn [obind].
  destruct k; try discriminate; inversion H0; reflexivity.
Qed.

Lemma values_drain_spec : forall t i e l, items t i e l ->
  forall fuel, length l < fuel -> values_drain fuel t i e = Ok l.
Proof.
  induction 1; intros fuel F; (destruct fuel; [cbn in F; lia|]); cbn [values_drain].
  - rewrite Nat.ltb_irrefl. reflexivity.
  - replace (Nat.ltb i e) with true by (symmetry; apply Nat.ltb_lt; lia).
    rewrite (next_idx_values_one _ _ _ H H0). cbn [obind].
    rewrite IHitems by (cbn in F; lia). reflexivity.
  - replace (Nat.ltb i e) with true by (symmetry; apply Nat.ltb_lt; lia).
    rewrite (next_idx_values_cont _ _ _ _ H H0). cbn [obind].
    rewrite IHitems by (cbn in F; lia). reflexivity.
Qed.

Lemma values_len_spec : forall t i e l, items t i e l ->
  forall fuel c, length l < fuel -> values_len_loop fuel t i e c = Ok (c + length l).
Proof.
  induction 1; intros fuel c F; (destruct fuel; [cbn in F; lia|]); cbn [values_len_loop length].
  - rewrite Nat.ltb_irrefl. f_equal. lia.
  - replace (Nat.ltb i e) with true by (symmetry; apply Nat.ltb_lt; lia).
    rewrite (next_idx_values_one _ _ _ H H0). cbn [obind].
    rewrite IHitems by (cbn in F; lia). f_equal. lia.
  - replace (Nat.ltb i e) with true by (symmetry; apply Nat.ltb_lt; lia).
    rewrite (next_idx_values_cont _ _ _ _ H H0). cbn [obind].
    rewrite IHitems by (cbn in F; lia). f_equal. lia.
Qed.

(* an array reader over a Dyck range inside the tape *)
Definition arr_ok (t : ttape) (r : areader) : Prop :=
  dyck t (a_start r) (a_end r) /\ a_end r <= length t.

Theorem array_view_ok : forall t r, arr_ok t r ->
  exists l, items t (a_start r) (a_end r) l /\
    array_view t r = Ok (mk_arr_view (length l) l (a_end r - a_start r)).
Proof.
  intros t r [D L]. destruct (dyck_items _ _ _ D) as [l I]. exists l. split; auto.
  pose proof (items_bounds _ _ _ _ I) as B.
  unfold array_view, array_len, values_len, values_all, array_tokens_len, sub_usize, loop_fuel.
  rewrite (values_len_spec _ _ _ _ I) by lia. cbn [obind].
  rewrite (values_drain_spec _ _ _ _ I) by lia. cbn [obind].
  replace (Nat.ltb (a_end r) (a_start r)) with false by (symmetry; apply Nat.ltb_ge; lia).
  reflexivity.
Qed.

(* ================================================================ remainder *)
Lemma is_key_leaf : forall k, is_key k = true -> is_leaf k = true.
Proof. destruct k; cbn; auto. Qed.

Lemma value_dyck : forall t v e n, conts_ok t ->
  dyck t v e -> value_end t v = Some n -> n <= e -> dyck t n e.
Proof.
  intros t v e n W D V L. pose proof (value_end_gt _ _ _ W V) as G.
  unfold value_end in V. destruct (tget t v) as [k|] eqn:K; try discriminate.
  destruct k; cbn [is_key] in V; try discriminate;
    try (inversion V; subst; eapply dyck_inv_leaf; eauto; lia).
  - inversion V; subst. eapply (dyck_inv_cont t v e _ e0); eauto. lia.
  - inversion V; subst. eapply (dyck_inv_cont t v e _ e0); eauto. lia.
  - destruct (tget t (S v)) as [k'|] eqn:K'; try discriminate.
    assert (HD : dyck t (S v) e) by (eapply dyck_inv_header; eauto; lia).
    destruct k'; try discriminate; inversion V; subst;
      destruct (cont_lt t (S v) _ e0 W K' eq_refl) as (A & _);
      eapply (dyck_inv_cont t (S v) e _ e0); eauto; lia.
Qed.

Lemma fields_dyck_tail : forall t i e r l, conts_ok t ->
  fields_spec t i e r l -> dyck t i e -> dyck t r e.
Proof.
  intros t i e r l W H. induction H; intro D; auto.
  apply IHfields_spec.
  assert (D1 : dyck t (S i) e) by (eapply dyck_inv_leaf; eauto using is_key_leaf; lia).
  apply (value_dyck t (value_ind_of t i) e n W); auto.
  pose proof (value_end_gt _ _ _ W H1) as G.
  unfold value_ind_of in *. destruct (tget t (S i)) as [k1|] eqn:K1; auto.
  destruct k1; auto.
  eapply dyck_inv_leaf; eauto. lia.
Qed.

Definition tail_reader (r e : nat) : areader :=
  if Nat.ltb r e then mk_areader (S r) e else mk_areader e e.

Lemma remainder_obj : forall t i e m r l,
  tget t i = Some (TObject e m) -> tget t e = Some (TEnd i) ->
  fields_spec t (S i) e r l -> remainder t r e = tail_reader r e.
Proof.
  intros t i e m r l K KE H. unfold remainder, tail_reader.
  destruct (fields_spec_stop _ _ _ _ _ H) as [-> | [L M]].
  - rewrite Nat.ltb_irrefl, KE, K. reflexivity.
  - replace (Nat.ltb r e) with true by (symmetry; apply Nat.ltb_lt; lia). rewrite M. reflexivity.
Qed.

Lemma remainder_top : forall t r l,
  fields_spec t 0 (length t) r l -> remainder t r (length t) = tail_reader r (length t).
Proof.
  intros t r l H. unfold remainder, tail_reader.
  destruct (fields_spec_stop _ _ _ _ _ H) as [-> | [L M]].
  - rewrite Nat.ltb_irrefl. replace (tget t (length t)) with (@None ttok); auto.
    symmetry. apply nth_error_None. lia.
  - replace (Nat.ltb r (length t)) with true by (symmetry; apply Nat.ltb_lt; lia). rewrite M. reflexivity.
Qed.

Lemma tail_reader_ok : forall t i e r l, conts_ok t -> e <= length t ->
  fields_spec t i e r l -> dyck t i e -> arr_ok t (tail_reader r e).
Proof.
  intros t i e r l W L H D. pose proof (fields_dyck_tail _ _ _ _ _ W H D) as DT.
  unfold tail_reader, arr_ok. destruct (Nat.ltb r e) eqn:LT; cbn [a_start a_end]; split; auto.
  - apply Nat.ltb_lt in LT. destruct (fields_spec_stop _ _ _ _ _ H) as [-> | [_ M]]; [lia|].
    eapply dyck_inv_leaf; eauto.
  - constructor.
Qed.

(* ================================================================ object nodes *)
(* the object readers the API hands out: the whole tape, or the inside of an Object token *)
Inductive obj_node (t : ttape) : oreader -> Prop :=
| on_top : obj_node t (top_reader t)
| on_obj : forall i e m, tget t i = Some (TObject e m) -> obj_node t (mk_oreader (S i) e).

Lemma obj_node_facts : forall t r, tape_wf t -> obj_node t r ->
  dyck t (o_start r) (o_end r) /\ o_end r <= length t /\
  (exists rr l, fields_spec t (o_start r) (o_end r) rr l /\
     remainder t rr (o_end r) = tail_reader rr (o_end r)).
Proof.
  intros t r (D & (r0 & F0) & W & _) N. inversion N; subst; cbn [o_start o_end top_reader].
  - repeat split; auto. destruct (fields_end_spec t W _ _ _ F0) as [l S0].
    exists r0, l. split; auto. eapply remainder_top; eauto.
  - pose proof (W i (tget_lt _ _ _ H)) as C. unfold cont_ok in C. rewrite H in C.
    destruct C as (A & B & E & DD & (rr & FE & _)). apply is_end_of_spec in E.
    repeat split; auto; try lia. destruct (fields_end_spec t W _ _ _ FE) as [l S0].
    exists rr, l. split; auto. eapply remainder_obj; eauto.
Qed.

Definition view_of (t : ttape) (r : oreader) (l : list field) (rr : nat) (rem : list nat) : obj_view :=
  mk_obj_view (length l) (length l) l rr rem (length rem)
    (a_end (tail_reader rr (o_end r)) - a_start (tail_reader rr (o_end r)))
    (groups_run l (gmap_build l)) (length (gmap_build l)) (o_end r - o_start r).

(* C17 main lemma: on a well-formed tape, every observation of an object node is defined (no
   panic, no fuel exhaustion) and is the one the object grammar describes *)
Theorem object_view_ok : forall dbg t r, tape_wf t -> obj_node t r ->
  exists rr l rem,
    fields_spec t (o_start r) (o_end r) rr l /\
    items t (a_start (tail_reader rr (o_end r))) (a_end (tail_reader rr (o_end r))) rem /\
    object_view dbg t r = Ok (view_of t r l rr rem).
Proof.
  intros dbg t r WF N. destruct (obj_node_facts t r WF N) as (D & L & rr & l & S0 & R).
  destruct WF as (_ & _ & W & _).
  pose proof (tail_reader_ok _ _ _ _ _ W L S0 D) as TA.
  destruct (array_view_ok _ _ TA) as (rem & I & AV).
  exists rr, l, rem. repeat split; auto.
  pose proof (fields_spec_bounds _ _ _ _ _ S0) as B.
  pose proof (items_bounds _ _ _ _ I) as BI.
  destruct TA as [_ TL].
  unfold object_view, fields_size_hint, fields_len, fields_all, field_groups, fields_all, object_tokens_len, sub_usize, loop_fuel.
  rewrite (fields_len_spec _ _ _ _ _ S0) by lia. cbn [obind].
  rewrite (fields_drain_spec dbg _ _ _ _ _ S0) by lia. cbn [obind].
  rewrite R.
  unfold array_view in AV. unfold array_len, values_len, values_all, array_tokens_len, sub_usize, loop_fuel in *.
  rewrite (values_drain_spec _ _ _ _ I) by lia. cbn [obind].
  rewrite (values_len_spec _ _ _ _ I) by lia. cbn [obind].
  replace (Nat.ltb (a_end (tail_reader rr (o_end r))) (a_start (tail_reader rr (o_end r)))) with false
    by (symmetry; apply Nat.ltb_ge; lia).
  cbn [obind].
  replace (Nat.ltb (o_end r) (o_start r)) with false by (symmetry; apply Nat.ltb_ge; lia).
  reflexivity.
Qed.

(* ================================================================ field groups *)
Fixpoint glookup (m : gmap) (k : bytes) : option (list opval) :=
  match m with
  | [] => None
  | (k0, vs) :: rest => if beqb k0 k then Some vs else glookup rest k
  end.

Fixpoint gnodup (m : gmap) : Prop :=
  match m with
  | [] => True
  | (k0, _) :: rest => glookup rest k0 = None /\ gnodup rest
  end.

Lemma beqb_sym : forall a b, beqb a b = beqb b a.
Proof.
  intros. destruct (beqb a b) eqn:E.
  - apply beqb_eq in E. subst. symmetry. apply beqb_refl.
  - apply beqb_neq in E. symmetry. apply beqb_neq. congruence.
Qed.

Ltac bcase a b :=
  let E := fresh "E" in
  destruct (beqb a b) eqn:E; [apply beqb_eq in E; try subst | pose proof E as E'; apply beqb_neq in E].

Lemma glookup_push : forall m key ov k,
  glookup (gmap_push m key ov) k =
  if beqb key k then match glookup m k with Some vs => Some (vs ++ [ov]) | None => Some [] end
  else glookup m k.
Proof.
  induction m as [|[k0 vs] rest IH]; intros key ov k; cbn [gmap_push glookup].
  - destruct (beqb key k); reflexivity.
  - destruct (beqb k0 key) eqn:E0.
    + apply beqb_eq in E0. subst k0. cbn [glookup]. destruct (beqb key k); reflexivity.
    + cbn [glookup]. rewrite IH. destruct (beqb k0 k) eqn:E1; auto.
      apply beqb_eq in E1. subst k0. rewrite beqb_sym, E0. reflexivity.
Qed.

Lemma gnodup_push : forall m key ov, gnodup m -> gnodup (gmap_push m key ov).
Proof.
  induction m as [|[k0 vs] rest IH]; intros key ov H; cbn [gmap_push gnodup glookup]; auto.
  destruct H as [H1 H2]. destruct (beqb k0 key) eqn:E0; cbn [gnodup]; split; auto.
  rewrite glookup_push. rewrite beqb_sym, E0. exact H1.
Qed.

Lemma fold_push_nodup : forall fs m, gnodup m ->
  gnodup (fold_left (fun m fd => gmap_push m (tok_bytes (f_key fd)) (f_op fd, f_val fd)) fs m).
Proof. induction fs; intros m H; cbn [fold_left]; auto. apply IHfs. apply gnodup_push. exact H. Qed.

Lemma vals_of_cons : forall k f fs,
  vals_of k (f :: fs) = if beqb (field_kb f) k then field_ov f :: vals_of k fs else vals_of k fs.
Proof. intros. unfold vals_of. cbn [filter]. destruct (beqb (field_kb f) k); reflexivity. Qed.

Lemma glookup_fold : forall fs m k,
  glookup (fold_left (fun m fd => gmap_push m (tok_bytes (f_key fd)) (f_op fd, f_val fd)) fs m) k =
  match glookup m k with
  | Some vs => Some (vs ++ vals_of k fs)
  | None => match vals_of k fs with [] => None | _ :: tl => Some tl end
  end.
Proof.
  induction fs as [|f fs IH]; intros m k; cbn [fold_left].
  - unfold vals_of. cbn. destruct (glookup m k); auto. rewrite app_nil_r. reflexivity.
  - rewrite IH. rewrite glookup_push. rewrite vals_of_cons.
    change (tok_bytes (f_key f)) with (field_kb f). change (f_op f, f_val f) with (field_ov f).
    destruct (beqb (field_kb f) k).
    + destruct (glookup m k); auto. rewrite <- app_assoc. reflexivity.
    + reflexivity.
Qed.

Lemma gmap_remove_spec : forall m k, gnodup m ->
  match glookup m k with
  | None => gmap_remove m k = None
  | Some vs => exists m', gmap_remove m k = Some (vs, m') /\ gnodup m' /\
                 forall k', glookup m' k' = if beqb k k' then None else glookup m k'
  end.
Proof.
  induction m as [|[k0 vs0] rest IH]; intros k H; cbn [glookup gmap_remove]; auto.
  destruct H as [H1 H2]. destruct (beqb k0 k) eqn:E0.
  - apply beqb_eq in E0. subst k0. exists rest. repeat split; auto.
    intro k'. cbn [glookup]. destruct (beqb k k') eqn:E1; auto.
    apply beqb_eq in E1. subst k'. exact H1.
  - specialize (IH k H2). destruct (glookup rest k) as [vs|].
    + destruct IH as (m' & R & N & L). rewrite R. exists ((k0, vs0) :: m').
      split; [reflexivity|]. split.
      * cbn [gnodup]. split; auto. rewrite L. rewrite H1. destruct (beqb k k0); auto.
      * intro k'. cbn [glookup]. rewrite L. destruct (beqb k0 k') eqn:E1; auto.
        apply beqb_eq in E1. subst k'. rewrite beqb_sym, E0. reflexivity.
    + rewrite IH. reflexivity.
Qed.

Lemma groups_run_spec : forall fs seen m full,
  gnodup m ->
  (forall k, glookup m k = if mem_key k seen then None
                          else match vals_of k full with [] => None | _ :: tl => Some tl end) ->
  (forall k, mem_key k seen = false -> vals_of k full = vals_of k fs) ->
  groups_run fs m =
  map (fun f => mk_group (f_key f) (vals_of (field_kb f) full)) (first_fields seen fs).
Proof.
  induction fs as [|f fs IH]; intros seen m full N L V; cbn [groups_run first_fields map]; auto.
  change (tok_bytes (f_key f)) with (field_kb f).
  pose proof (gmap_remove_spec m (field_kb f) N) as R. rewrite L in R.
  destruct (mem_key (field_kb f) seen) eqn:S.
  - rewrite R. apply IH; auto.
    intros k Hk. rewrite (V k Hk). rewrite vals_of_cons.
    destruct (beqb (field_kb f) k) eqn:E; auto. apply beqb_eq in E. congruence.
  - pose proof (V _ S) as VF. rewrite vals_of_cons, beqb_refl in VF. rewrite VF in R.
    destruct R as (m' & R & N' & L'). rewrite R. cbn [map]. f_equal.
    + rewrite VF. reflexivity.
    + apply IH; auto.
      * intro k. rewrite L'. unfold mem_key. cbn [existsb]. fold (mem_key k seen).
        rewrite (beqb_sym k (field_kb f)). destruct (beqb (field_kb f) k); auto.
        cbn [orb]. apply L.
      * intros k Hk. unfold mem_key in Hk. cbn [existsb] in Hk. apply orb_false_iff in Hk.
        destruct Hk as [Hk1 Hk2]. fold (mem_key k seen) in Hk2.
        rewrite (V k Hk2). rewrite vals_of_cons. rewrite beqb_sym, Hk1. reflexivity.
Qed.

(* groups_partition: the two-pass HashMap algorithm is the partition of the fields by raw key,
   groups in order of first appearance, values in field order *)
Theorem groups_run_partition : forall fs, groups_run fs (gmap_build fs) = groups_spec fs.
Proof.
  intro fs. unfold groups_spec. apply groups_run_spec.
  - unfold gmap_build. apply fold_push_nodup. exact I.
  - intro k. unfold gmap_build. rewrite glookup_fold. reflexivity.
  - reflexivity.
Qed.

(* properties of the specification: every key exactly once *)
Lemma first_fields_keys_fresh : forall fs seen f,
  In f (first_fields seen fs) -> mem_key (field_kb f) seen = false.
Proof.
  induction fs as [|g fs IH]; intros seen f H; cbn [first_fields] in H; try contradiction.
  destruct (mem_key (field_kb g) seen) eqn:S; auto.
  destruct H as [<- | H]; auto.
  apply IH in H. unfold mem_key in H. cbn [existsb] in H. apply orb_false_iff in H. apply H.
Qed.

Lemma first_fields_nodup : forall fs seen, NoDup (map field_kb (first_fields seen fs)).
Proof.
  induction fs as [|g fs IH]; intros seen; cbn [first_fields map]; [constructor|].
  destruct (mem_key (field_kb g) seen); auto.
  cbn [map]. constructor; auto.
  intro H. apply in_map_iff in H. destruct H as (f & E & IN).
  apply first_fields_keys_fresh in IN. unfold mem_key in IN. cbn [existsb] in IN.
  rewrite E, beqb_refl in IN. discriminate.
Qed.

Lemma first_fields_complete : forall fs seen f, In f fs ->
  mem_key (field_kb f) seen = true \/ In (field_kb f) (map field_kb (first_fields seen fs)).
Proof.
  induction fs as [|g fs IH]; intros seen f H; cbn in H; try contradiction.
  cbn [first_fields]. destruct H as [<- | H].
  - destruct (mem_key (field_kb g) seen) eqn:S; auto. right. cbn. auto.
  - destruct (mem_key (field_kb g) seen) eqn:S; auto.
    destruct (IH (field_kb g :: seen) f H) as [M | M].
    + unfold mem_key in M. cbn [existsb] in M. apply orb_true_iff in M. destruct M as [M | M]; auto.
      apply beqb_eq in M. right. cbn. auto.
    + right. cbn. auto.
Qed.

Lemma first_fields_sub : forall fs seen f, In f (first_fields seen fs) -> In f fs.
Proof.
  induction fs as [|g fs IH]; intros seen f H; cbn [first_fields] in H; try contradiction.
  destruct (mem_key (field_kb g) seen); [right; eauto|].
  destruct H as [<- | H]; [left; auto | right; eauto].
Qed.

(* ================================================================ read_array / read_object *)
Lemma next_idx_key : forall t i k, tget t i = Some k -> is_key k = true -> next_idx t i = Ok (S i).
Proof. intros t i k K HK. rewrite (next_idx_unfold _ _ _ K). destruct k; try discriminate; reflexivity. Qed.

Lemma value_end_not_mixed : forall t v n, value_end t v = Some n -> tget t v <> Some TMixedContainer.
Proof. intros t v n H E. unfold value_end in H. rewrite E in H. discriminate. Qed.

Lemma find_mixed_spec : forall t i e r l, fields_spec t i e r l -> r < e ->
  forall fuel, 2 * length l < fuel -> find_mixed fuel t i = Ok r.
Proof.
  intros t i e r l H. induction H; intros LT fuel F.
  - lia.
  - destruct fuel; [lia|]. cbn [find_mixed]. rewrite H. reflexivity.
  - cbn [length] in F. destruct fuel as [|[|fuel]]; try lia.
    assert (S1 : find_mixed (S (S fuel)) t i = find_mixed (S fuel) t (S i)).
    { cbn [find_mixed]. rewrite H. rewrite (next_idx_key _ _ _ H H0). cbn [obind].
      destruct k; try discriminate; reflexivity. }
    rewrite S1. pose proof (value_end_next_idx _ _ _ H1) as NI.
    pose proof (value_end_not_mixed _ _ _ H1) as NM.
    unfold value_ind_of in *. destruct (tget t (S i)) as [k1|] eqn:K1.
    + assert (G : forall (NOP : match k1 with TOperator _ => False | _ => True end),
                 find_mixed (S fuel) t (S i) = Ok r).
      { intro NOP. cbn [find_mixed]. rewrite K1.
        assert (E1 : next_idx t (S i) = Ok n) by (destruct k1; auto; contradiction).
        assert (NM1 : k1 <> TMixedContainer) by (destruct k1; try congruence; contradiction).
        destruct k1; try congruence; rewrite E1; cbn [obind]; apply IHfields_spec; auto; lia. }
      destruct k1; try (apply G; exact I).
      (* an operator between key and value: next_idx skips operator and value *)
      cbn [find_mixed]. rewrite K1. rewrite (next_idx_unfold _ _ _ K1). rewrite NI. cbn [obind].
      apply IHfields_spec; auto. lia.
    + exfalso. pose proof (value_end_lt_len _ _ _ H1). apply nth_error_None in K1. lia.
Qed.

Theorem read_array_ok : forall t v k, tape_wf t -> tget t v = Some k ->
  match k with
  | TArray _ _ | TObject _ _ | THeader _ => exists r, read_array t v = Ok r /\ arr_ok t r
  | _ => read_array t v = Err E_not_array
  end.
Proof.
  intros t v k (D & _ & W & _) K. pose proof (W v (tget_lt _ _ _ K)) as C.
  unfold cont_ok in C. rewrite K in C. unfold read_array, value_token. rewrite (tok_at_some _ _ _ _ K). cbn [obind].
  destruct k; auto.
  - destruct C as (A & B & E & DD). eexists. split; [reflexivity|]. split; cbn; auto. lia.
  - destruct C as (A & B & E & DD & (r & FE & M)).
    destruct mixed.
    + specialize (M eq_refl). destruct (fields_end_spec t W _ _ _ FE) as [l S0].
      pose proof (fields_spec_bounds _ _ _ _ _ S0).
      rewrite (find_mixed_spec _ _ _ _ _ S0 M) by (unfold loop_fuel; lia). cbn [obind].
      eexists. split; [reflexivity|].
      pose proof (tail_reader_ok _ _ _ _ _ W (Nat.lt_le_incl _ _ B) S0 DD) as T.
      unfold tail_reader in T. replace (Nat.ltb r e) with true in T by (symmetry; apply Nat.ltb_lt; lia).
      exact T.
    + eexists. split; [reflexivity|]. split; cbn; auto. lia.
  - destruct (tget t (S v)) as [k'|] eqn:K'; try contradiction.
    rewrite (next_idx_unfold _ _ _ K'). destruct k'; try discriminate.
    + destruct (cont_lt t (S v) _ e W K' eq_refl) as (A & B & E & DD).
      cbn [obind]. eexists. split; [reflexivity|]. split; cbn [a_start a_end]; try lia.
      eapply dyck_header; eauto. eapply dyck_cont; eauto; try reflexivity; try lia.
      * rewrite E. cbn. apply Nat.eqb_refl.
      * constructor.
    + destruct (cont_lt t (S v) _ e W K' eq_refl) as (A & B & E & DD).
      cbn [obind]. eexists. split; [reflexivity|]. split; cbn [a_start a_end]; try lia.
      eapply dyck_header; eauto. eapply dyck_cont; eauto; try reflexivity; try lia.
      * rewrite E. cbn. apply Nat.eqb_refl.
      * constructor.
Qed.

Theorem read_object_ok : forall t v k, tget t v = Some k ->
  match k with
  | TObject e _ => read_object t v = Ok (mk_oreader (S v) e)
  | TArray e _ => read_object t v = Ok (mk_oreader e e)
  | _ => read_object t v = Err E_not_object
  end.
Proof.
  intros t v k K. unfold read_object, value_token. rewrite (tok_at_some _ _ _ _ K). cbn [obind].
  destruct k; reflexivity.
Qed.

(* an Array token read as an object: no fields, the remainder is the whole array *)
Theorem object_view_of_array : forall dbg t i e m, tape_wf t -> tget t i = Some (TArray e m) ->
  exists rem, items t (S i) e rem /\
    object_view dbg t (mk_oreader e e) =
    Ok (mk_obj_view 0 0 [] e rem (length rem) (e - S i) [] 0 0).
Proof.
  intros dbg t i e m (D & _ & W & _) K.
  destruct (cont_lt t i _ e W K eq_refl) as (A & B & E & DD).
  destruct (dyck_items _ _ _ DD) as [rem I]. exists rem. split; auto.
  pose proof (items_bounds _ _ _ _ I) as BI.
  unfold object_view, fields_size_hint, fields_len, fields_all, field_groups, fields_all, object_tokens_len, sub_usize, loop_fuel.
  cbn [o_start o_end fields_len_loop fields_drain]. rewrite Nat.ltb_irrefl. cbn [obind].
  unfold fields_next. rewrite Nat.leb_refl. cbn [obind].
  unfold remainder. rewrite E, K.
  unfold array_len, values_len, values_all, array_tokens_len, sub_usize, loop_fuel. cbn [a_start a_end].
  rewrite (values_drain_spec _ _ _ _ I) by lia. cbn [obind].
  rewrite (values_len_spec _ _ _ _ I) by lia. cbn [obind].
  replace (Nat.ltb e (S i)) with false by (symmetry; apply Nat.ltb_ge; lia). cbn [obind].
  rewrite Nat.sub_diag. reflexivity.
Qed.

(* ================================================================ size hint of the groups iterator *)
Definition is_some {A} (x : option A) : bool := match x with Some _ => true | None => false end.

Lemma length_push : forall m key ov,
  length (gmap_push m key ov) = if is_some (glookup m key) then length m else S (length m).
Proof.
  induction m as [|[k0 vs] rest IH]; intros key ov; cbn [gmap_push glookup length is_some]; auto.
  destruct (beqb k0 key); cbn [length is_some]; auto. rewrite IH. destruct (is_some (glookup rest key)); auto.
Qed.

Lemma length_fold_push : forall fs m seen,
  (forall k, mem_key k seen = is_some (glookup m k)) ->
  length (fold_left (fun m fd => gmap_push m (tok_bytes (f_key fd)) (f_op fd, f_val fd)) fs m) =
  length m + length (first_fields seen fs).
Proof.
  induction fs as [|f fs IH]; intros m seen H; cbn [fold_left first_fields length]; [lia|].
  change (tok_bytes (f_key f)) with (field_kb f).
  destruct (mem_key (field_kb f) seen) eqn:S.
  - rewrite (IH _ seen).
    + rewrite length_push. rewrite <- H, S. reflexivity.
    + intro k. rewrite glookup_push. rewrite H. destruct (beqb (field_kb f) k) eqn:E; auto.
      apply beqb_eq in E. subst k. rewrite H in S. destruct (glookup m (field_kb f)); auto.
  - rewrite (IH _ (field_kb f :: seen)).
    + rewrite length_push. rewrite <- H, S. cbn [length]. lia.
    + intro k. rewrite glookup_push. unfold mem_key. cbn [existsb]. fold (mem_key k seen).
      rewrite (beqb_sym k). destruct (beqb (field_kb f) k) eqn:E; cbn [orb]; auto.
      destruct (glookup m k); auto.
Qed.

Lemma groups_hint : forall fs, length (gmap_build fs) = length (groups_spec fs).
Proof.
  intro fs. unfold gmap_build, groups_spec. rewrite map_length.
  rewrite (length_fold_push fs [] []); auto.
Qed.

(* ================================================================ C17 statements *)
Theorem fields_agree : forall dbg t r, tape_wf t -> obj_node t r ->
  exists l last,
    fields_spec t (o_start r) (o_end r) last l /\
    fields_all dbg t r = Ok (l, last) /\
    fields_len t (o_start r) (o_end r) = Ok (length l) /\
    fields_size_hint t (o_start r) (o_end r) = Ok (length l).
Proof.
  intros dbg t r WF N. destruct (obj_node_facts t r WF N) as (D & L & rr & l & S0 & R).
  pose proof (fields_spec_bounds _ _ _ _ _ S0) as B.
  exists l, rr. split; auto.
  unfold fields_all, fields_size_hint, fields_len, loop_fuel.
  rewrite (fields_drain_spec dbg _ _ _ _ _ S0) by lia.
  rewrite (fields_len_spec _ _ _ _ _ S0) by lia. auto.
Qed.

Theorem values_agree : forall t r, arr_ok t r ->
  exists l,
    items t (a_start r) (a_end r) l /\
    values_all t r = Ok l /\
    array_len t r = Ok (length l) /\
    array_is_empty t r = Ok (Nat.eqb (length l) 0) /\
    array_tokens_len r = Ok (a_end r - a_start r).
Proof.
  intros t r [D L]. destruct (dyck_items _ _ _ D) as [l I]. exists l. split; auto.
  pose proof (items_bounds _ _ _ _ I) as B.
  unfold array_is_empty, array_len, values_len, values_all, array_tokens_len, sub_usize, loop_fuel.
  rewrite (values_len_spec _ _ _ _ I) by lia.
  rewrite (values_drain_spec _ _ _ _ I) by lia.
  replace (Nat.ltb (a_end r) (a_start r)) with false by (symmetry; apply Nat.ltb_ge; lia).
  auto.
Qed.

Theorem groups_partition : forall dbg t r, tape_wf t -> obj_node t r ->
  exists l last,
    fields_all dbg t r = Ok (l, last) /\
    field_groups dbg t r = Ok (groups_spec l, length (groups_spec l), last).
Proof.
  intros dbg t r WF N. destruct (fields_agree dbg t r WF N) as (l & last & _ & FA & _).
  exists l, last. split; auto. unfold field_groups. rewrite FA. cbn [obind].
  rewrite groups_run_partition, groups_hint. reflexivity.
Qed.

Theorem remainder_is_tail : forall dbg t r l last, tape_wf t -> obj_node t r ->
  fields_all dbg t r = Ok (l, last) ->
  remainder t last (o_end r) = tail_reader last (o_end r) /\
  arr_ok t (tail_reader last (o_end r)) /\
  (last = o_end r \/ (last < o_end r /\ tget t last = Some TMixedContainer)).
Proof.
  intros dbg t r l last WF N FA.
  destruct (obj_node_facts t r WF N) as (D & L & rr & l' & S0 & R).
  pose proof (fields_spec_bounds _ _ _ _ _ S0) as B.
  unfold fields_all, loop_fuel in FA. rewrite (fields_drain_spec dbg _ _ _ _ _ S0) in FA by lia.
  inversion FA; subst. destruct WF as (_ & _ & W & _).
  split; auto. split.
  - eapply tail_reader_ok; eauto.
  - eapply fields_spec_stop; eauto.
Qed.

Theorem value_reader_total : forall t v dec, tape_wf t -> v < length t ->
  is_crash (value_token t v) = false /\ is_crash (value_tokens_len t v) = false /\
  is_crash (read_scalar t v) = false /\ is_crash (read_str dec t v) = false /\
  is_crash (read_object t v) = false /\ is_crash (read_array t v) = false.
Proof.
  intros t v dec WF L. destruct (tget t v) as [k|] eqn:K.
  2: { apply nth_error_None in K. lia. }
  pose proof (read_array_ok t v k WF K) as RA. pose proof (read_object_ok t v k K) as RO.
  destruct WF as (_ & _ & W & _).
  unfold value_tokens_len, read_scalar, read_str, value_token in *. rewrite (tok_at_some _ _ _ _ K). cbn [obind is_crash].
  repeat split; try (destruct k; reflexivity).
  - destruct k; try reflexivity;
      destruct (cont_lt t v _ e W K eq_refl) as (A & _); unfold sub_usize;
      replace (Nat.ltb e v) with false by (symmetry; apply Nat.ltb_ge; lia); cbn [obind];
      replace (Nat.ltb (e - v) 1) with false by (symmetry; apply Nat.ltb_ge; lia); reflexivity.
  - destruct k; rewrite RO; reflexivity.
  - destruct k; try (rewrite RA; reflexivity); destruct RA as (r & -> & _); reflexivity.
Qed.
