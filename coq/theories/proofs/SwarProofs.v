(* Proofs about the SWAR helpers of util.rs (model: U64Swar.v).

   Technique: a word of n+1 byte lanes is [b + 256 * w] with [b < 256]; every function
   is generalised to n lanes (modulus 256^n, constants LO_n / HI_n defined recursively),
   proved equal to its byte-wise specification by induction on the byte list, and then
   instantiated at n = 8, where the generalised constants are convertible with the
   concrete ones of Tables.v.  Per-lane facts are decided by [vm_compute] over the
   COMPLETE domain of 256 byte values and lifted with [forallb_forall]. *)
From JV Require Import Bytes Tables U64Swar.
From Coq Require Import NArith ZArith Lia List Bool.
Import ListNotations. Open Scope N_scope.

Definition bytes8 (bs : list N) : Prop :=
  length bs = 8%nat /\ Forall (fun b => b < 256) bs.

(* ------------------------------------------------------------------ *)
(* complete finite domain of byte values                               *)
(* ------------------------------------------------------------------ *)
Definition all_bytes : list N := map N.of_nat (seq 0 256).

Lemma all_bytes_complete b : b < 256 -> In b all_bytes.
Proof.
  intros H. unfold all_bytes. apply in_map_iff. exists (N.to_nat b). split.
  - apply N2Nat.id.
  - apply in_seq. lia.
Qed.

Lemma byte_forall (P : N -> bool) :
  forallb P all_bytes = true -> forall b, b < 256 -> P b = true.
Proof.
  intros H b Hb. rewrite forallb_forall in H. apply H, all_bytes_complete, Hb.
Qed.

(* ------------------------------------------------------------------ *)
(* lanes: bitwise operations act lane-wise                             *)
(* ------------------------------------------------------------------ *)
Lemma lane_bits a a' n :
  a < 256 ->
  N.testbit (a + 256 * a') n = if n <? 8 then N.testbit a n else N.testbit a' (n - 8).
Proof.
  intros Ha. destruct (N.ltb_spec n 8) as [Hn|Hn].
  - rewrite <- (N.mod_pow2_bits_low (a + 256 * a') 8 n) by assumption.
    f_equal. change (2 ^ 8) with 256. symmetry. apply N.mod_unique with a'; lia.
  - replace n with ((n - 8) + 8) at 1 by lia. rewrite <- N.div_pow2_bits.
    f_equal. change (2 ^ 8) with 256. symmetry. apply N.div_unique with a; lia.
Qed.

Lemma log2_lt8 a : a < 256 -> N.log2 a < 8.
Proof.
  intros H. destruct (N.eq_dec a 0) as [->|Hz]; [reflexivity|].
  apply N.log2_lt_pow2; [lia|exact H].
Qed.

Lemma lt256_of_log2 a : N.log2 a < 8 -> a < 256.
Proof.
  intros H. destruct (N.eq_dec a 0) as [->|Hz]; [reflexivity|].
  change 256 with (2 ^ 8). apply N.log2_lt_pow2; [lia|exact H].
Qed.

Lemma land_lt256 a b : a < 256 -> N.land a b < 256.
Proof.
  intros Ha. apply lt256_of_log2. pose proof (N.log2_land a b). pose proof (log2_lt8 a Ha). lia.
Qed.

Lemma lxor_lt256 a b : a < 256 -> b < 256 -> N.lxor a b < 256.
Proof.
  intros Ha Hb. apply lt256_of_log2. pose proof (N.log2_lxor a b).
  pose proof (log2_lt8 a Ha). pose proof (log2_lt8 b Hb). lia.
Qed.

Lemma land_lanes a a' b b' :
  a < 256 -> b < 256 ->
  N.land (a + 256 * a') (b + 256 * b') = N.land a b + 256 * N.land a' b'.
Proof.
  intros Ha Hb. apply N.bits_inj. intro n.
  rewrite N.land_spec, !lane_bits by auto using land_lt256.
  destruct (n <? 8); now rewrite N.land_spec.
Qed.

Lemma lxor_lanes a a' b b' :
  a < 256 -> b < 256 ->
  N.lxor (a + 256 * a') (b + 256 * b') = N.lxor a b + 256 * N.lxor a' b'.
Proof.
  intros Ha Hb. apply N.bits_inj. intro n.
  rewrite N.lxor_spec, !lane_bits by auto using lxor_lt256.
  destruct (n <? 8); now rewrite N.lxor_spec.
Qed.

Lemma lanes_zero a a' : (a + 256 * a' =? 0) = (a =? 0) && (a' =? 0).
Proof.
  destruct (N.eqb_spec (a + 256 * a') 0), (N.eqb_spec a 0), (N.eqb_spec a' 0);
    cbn [andb]; try reflexivity; lia.
Qed.

Lemma mod_lanes a y m :
  a < 256 -> 0 < m -> (a + 256 * y) mod (256 * m) = a + 256 * (y mod m).
Proof.
  intros Ha Hm. symmetry. apply N.mod_unique with (y / m).
  - pose proof (N.mod_lt y m). lia.
  - pose proof (N.div_mod' y m). nia.
Qed.

(* ------------------------------------------------------------------ *)
(* n-lane constants                                                    *)
(* ------------------------------------------------------------------ *)
Fixpoint MM (n : nat) : N := match n with O => 1 | S n => 256 * MM n end.
Fixpoint LO (n : nat) : N := match n with O => 0 | S n => 1 + 256 * LO n end.
Fixpoint HI (n : nat) : N := match n with O => 0 | S n => 128 + 256 * HI n end.

Lemma LO_lt_MM n : LO n < MM n.
Proof. induction n; cbn [LO MM]; lia. Qed.

Lemma MM_pos n : 0 < MM n.
Proof. pose proof (LO_lt_MM n). lia. Qed.

Lemma le_word_lt n bs : Forall (fun b => b < 256) bs -> le_word n bs < MM n.
Proof.
  revert bs. induction n as [|n IH]; intros bs H; cbn [le_word MM]; [lia|].
  destruct bs as [|b r]; [pose proof (MM_pos n); lia|].
  inversion H; subst. specialize (IH r H3). lia.
Qed.

(* ------------------------------------------------------------------ *)
(* 1. contains_zero_byte                                               *)
(* ------------------------------------------------------------------ *)
Definition czb_n (n : nat) (x : N) : bool :=
  negb (N.land (N.land ((x + MM n - LO n) mod MM n) (MM n - 1 - x)) (HI n) =? 0).

Lemma czb_lane_fact :
  forallb (fun b => (b =? 0) || (N.land (N.land (b - 1) (255 - b)) 128 =? 0)) all_bytes = true.
Proof. vm_compute. reflexivity. Qed.

Lemma czb_step n b x :
  b < 256 -> x < MM n -> czb_n (S n) (b + 256 * x) = (b =? 0) || czb_n n x.
Proof.
  intros Hb Hx. unfold czb_n. cbn [MM LO HI].
  pose proof (LO_lt_MM n) as HL. pose proof (MM_pos n) as HM.
  set (M := MM n) in *. set (L := LO n) in *. set (H := HI n) in *.
  destruct (N.eqb_spec b 0) as [->|Hnz]; cbn [orb].
  - replace (0 + 256 * x + 256 * M - (1 + 256 * L)) with (255 + 256 * (x + M - L - 1)) by lia.
    rewrite mod_lanes by lia.
    replace (256 * M - 1 - (0 + 256 * x)) with (255 + 256 * (M - 1 - x)) by lia.
    rewrite !land_lanes by (auto using land_lt256; lia).
    change (N.land (N.land 255 255) 128) with 128.
    rewrite lanes_zero. reflexivity.
  - replace (b + 256 * x + 256 * M - (1 + 256 * L)) with ((b - 1) + 256 * (x + M - L)) by lia.
    rewrite mod_lanes by lia.
    replace (256 * M - 1 - (b + 256 * x)) with ((255 - b) + 256 * (M - 1 - x)) by lia.
    rewrite !land_lanes by (try apply land_lt256; lia).
    rewrite lanes_zero.
    pose proof (byte_forall _ czb_lane_fact b Hb) as Hf. cbv beta in Hf.
    destruct (N.eqb_spec b 0); [contradiction|]. cbn [orb] in Hf. rewrite Hf. reflexivity.
Qed.

Lemma czb_list bs :
  Forall (fun b => b < 256) bs ->
  czb_n (length bs) (le_word (length bs) bs) = existsb (fun b => b =? 0) bs.
Proof.
  induction bs as [|b r IH]; intros H.
  - reflexivity.
  - inversion H; subst. cbn [length le_word existsb].
    rewrite czb_step by auto using le_word_lt. rewrite IH by assumption. reflexivity.
Qed.

Lemma czb_top x : x < 2 ^ 64 -> contains_zero_byte x = czb_n 8 x.
Proof.
  intros Hx. unfold contains_zero_byte, czb_n, wsub, wnot, w64.
  change (czb_lo mod W64) with (LO 8). change W64 with (MM 8). change czb_hi with (HI 8).
  change (2 ^ 64) with (MM 8) in Hx.
  rewrite (N.mod_small x) by exact Hx. reflexivity.
Qed.

Lemma bytes8_lt bs : bytes8 bs -> le_word 8 bs < 2 ^ 64.
Proof. intros [_ H]. change (2 ^ 64) with (MM 8). apply le_word_lt, H. Qed.

Theorem contains_zero_byte_spec : forall bs, bytes8 bs ->
  contains_zero_byte (le_word 8 bs) = existsb (fun b => b =? 0) bs.
Proof.
  intros bs Hb. rewrite czb_top by (apply bytes8_lt, Hb).
  destruct Hb as [Hl Hf]. rewrite <- Hl. apply czb_list, Hf.
Qed.
Print Assumptions contains_zero_byte_spec.

(* arbitrary words: word_bytes / le_word round trip *)
Lemma word_bytes_length n x : length (word_bytes n x) = n.
Proof. revert x. induction n; intros x; cbn [word_bytes length]; [reflexivity|now rewrite IHn]. Qed.

Lemma word_bytes_wf n x : Forall (fun b => b < 256) (word_bytes n x).
Proof.
  revert x. induction n; intros x; cbn [word_bytes]; constructor; [|apply IHn].
  apply N.mod_lt. lia.
Qed.

Lemma le_word_word_bytes n x : le_word n (word_bytes n x) = x mod MM n.
Proof.
  revert x. induction n as [|n IH]; intros x; cbn [word_bytes le_word MM].
  - now rewrite N.mod_1_r.
  - rewrite IH. rewrite (N.div_mod' x 256) at 3.
    rewrite (N.add_comm (256 * (x / 256))).
    rewrite mod_lanes; [reflexivity|apply N.mod_lt; lia|apply MM_pos].
Qed.

Lemma word_bytes_bytes8 x : bytes8 (word_bytes 8 x).
Proof. split; [apply word_bytes_length|apply word_bytes_wf]. Qed.

Lemma le_word_word_bytes8 x : x < 2 ^ 64 -> le_word 8 (word_bytes 8 x) = x.
Proof. intros H. rewrite le_word_word_bytes. apply N.mod_small. exact H. Qed.

Theorem contains_zero_byte_word : forall x, x < 2 ^ 64 ->
  contains_zero_byte x = existsb (fun b => b =? 0) (word_bytes 8 x).
Proof.
  intros x Hx. rewrite <- (le_word_word_bytes8 x Hx) at 1.
  apply contains_zero_byte_spec, word_bytes_bytes8.
Qed.
Print Assumptions contains_zero_byte_word.

(* ------------------------------------------------------------------ *)
(* 2. chunk contains a given byte                                      *)
(* ------------------------------------------------------------------ *)
Lemma repeat_byte_fact :
  forallb (fun c => repeat_byte c =? le_word 8 (repeat c 8)) all_bytes = true.
Proof. vm_compute. reflexivity. Qed.

Lemma repeat_byte_lanes c : c < 256 -> repeat_byte c = le_word 8 (repeat c 8).
Proof. intros H. apply N.eqb_eq. exact (byte_forall _ repeat_byte_fact c H). Qed.

Lemma lxor_repeat_lanes c bs : c < 256 -> Forall (fun b => b < 256) bs ->
  N.lxor (le_word (length bs) bs) (le_word (length bs) (repeat c (length bs)))
  = le_word (length bs) (map (fun b => N.lxor b c) bs).
Proof.
  intros Hc. induction bs as [|b r IH]; intros H.
  - reflexivity.
  - inversion H; subst. cbn [length repeat le_word map].
    rewrite lxor_lanes by assumption. rewrite IH by assumption. reflexivity.
Qed.

Lemma map_lxor_wf c bs : c < 256 -> Forall (fun b => b < 256) bs ->
  Forall (fun b => b < 256) (map (fun b => N.lxor b c) bs).
Proof.
  intros Hc H. induction H; cbn [map]; constructor; auto using lxor_lt256.
Qed.

Lemma existsb_map_ext (f h : N -> bool) (g : N -> N) bs :
  (forall b, f (g b) = h b) -> existsb f (map g bs) = existsb h bs.
Proof. intros E. induction bs; cbn [map existsb]; [reflexivity|now rewrite E, IHbs]. Qed.

Theorem chunk_has_byte_spec : forall bs c, bytes8 bs -> c < 256 ->
  contains_zero_byte (N.lxor (le_word 8 bs) (repeat_byte c)) = existsb (fun b => b =? c) bs.
Proof.
  intros bs c [Hl Hf] Hc. rewrite repeat_byte_lanes by assumption.
  rewrite <- Hl. rewrite lxor_repeat_lanes by assumption. rewrite Hl.
  rewrite contains_zero_byte_spec.
  - apply existsb_map_ext. intros b.
    destruct (N.eqb_spec (N.lxor b c) 0) as [E|E], (N.eqb_spec b c) as [E'|E'];
      try reflexivity; rewrite N.lxor_eq_0_iff in E; contradiction.
  - split; [now rewrite map_length|now apply map_lxor_wf].
Qed.
Print Assumptions chunk_has_byte_spec.

(* the instance used by decode_utf8 *)
Corollary chunk_has_escape_spec : forall bs, bytes8 bs ->
  contains_zero_byte (N.lxor (le_word 8 bs) (repeat_byte enc_chunk_escape))
  = existsb (fun b => b =? 92) bs.
Proof. intros bs H. apply chunk_has_byte_spec; [exact H|reflexivity]. Qed.

(* ------------------------------------------------------------------ *)
(* 3. ASCII chunk test                                                 *)
(* ------------------------------------------------------------------ *)
Lemma ascii_lane_fact :
  forallb (fun b => Bool.eqb (N.land b 128 =? 0) (b <? 128)) all_bytes = true.
Proof. vm_compute. reflexivity. Qed.

Lemma ascii_list bs : Forall (fun b => b < 256) bs ->
  (N.land (le_word (length bs) bs) (HI (length bs)) =? 0) = forallb (fun b => b <? 128) bs.
Proof.
  induction bs as [|b r IH]; intros H.
  - reflexivity.
  - inversion H; subst. cbn [length le_word HI forallb].
    rewrite land_lanes by (assumption || lia). rewrite lanes_zero, IH by assumption.
    f_equal. apply eqb_prop. exact (byte_forall _ ascii_lane_fact b H2).
Qed.

Theorem chunk_ascii_spec : forall bs, bytes8 bs ->
  (N.land (le_word 8 bs) enc_ascii_mask =? 0) = forallb (fun b => b <? 128) bs.
Proof.
  intros bs [Hl Hf]. change enc_ascii_mask with (HI 8). rewrite <- Hl. apply ascii_list, Hf.
Qed.
Print Assumptions chunk_ascii_spec.

(* ------------------------------------------------------------------ *)
(* 4. nonzero_lanes and leading_whitespace (fixed upstream version)    *)
(* ------------------------------------------------------------------ *)
Fixpoint take_while {A : Type} (p : A -> bool) (l : list A) : list A :=
  match l with
  | [] => []
  | a :: r => if p a then a :: take_while p r else []
  end.

Lemma take_while_map {A B : Type} (p : B -> bool) (g : A -> B) l :
  length (take_while p (map g l)) = length (take_while (fun a => p (g a)) l).
Proof.
  induction l as [|a r IH]; cbn [map take_while length]; [reflexivity|].
  destruct (p (g a)); cbn [length]; [now rewrite IH|reflexivity].
Qed.

Lemma take_while_ext_wf (p q : N -> bool) bs :
  (forall b, b < 256 -> p b = q b) -> Forall (fun b => b < 256) bs ->
  take_while p bs = take_while q bs.
Proof.
  intros E H. induction H as [|b r Hb Hr IH]; cbn [take_while]; [reflexivity|].
  rewrite (E b Hb), IH. reflexivity.
Qed.

Lemma lor_lt256 a b : a < 256 -> b < 256 -> N.lor a b < 256.
Proof.
  intros Ha Hb. apply lt256_of_log2. rewrite N.log2_lor.
  pose proof (log2_lt8 a Ha). pose proof (log2_lt8 b Hb). lia.
Qed.

Lemma lor_lanes a a' b b' :
  a < 256 -> b < 256 ->
  N.lor (a + 256 * a') (b + 256 * b') = N.lor a b + 256 * N.lor a' b'.
Proof.
  intros Ha Hb. apply N.bits_inj. intro n.
  rewrite N.lor_spec, !lane_bits by auto using lor_lt256.
  destruct (n <? 8); now rewrite N.lor_spec.
Qed.

(* no carry between lanes: adding lane-wise sums that stay below 256 *)
Lemma add_lanes a a' b b' : (a + 256 * a') + (b + 256 * b') = (a + b) + 256 * (a' + b').
Proof. lia. Qed.

Lemma map_wf (g : N -> N) bs :
  (forall b, b < 256 -> g b < 256) -> Forall (fun b => b < 256) bs ->
  Forall (fun b => b < 256) (map g bs).
Proof. intros G H. induction H; cbn [map]; constructor; auto. Qed.

Lemma map_ext_wf (g h : N -> N) bs :
  (forall b, b < 256 -> g b = h b) -> Forall (fun b => b < 256) bs -> map g bs = map h bs.
Proof. intros E H. induction H; cbn [map]; [reflexivity|]. now rewrite E, IHForall. Qed.

(* land of two lane-wise images of the same byte list *)
Lemma land_map_lanes (f g : N -> N) bs :
  (forall b, b < 256 -> f b < 256) -> (forall b, b < 256 -> g b < 256) ->
  Forall (fun b => b < 256) bs ->
  N.land (le_word (length bs) (map f bs)) (le_word (length bs) (map g bs))
  = le_word (length bs) (map (fun b => N.land (f b) (g b)) bs).
Proof.
  intros F G H. induction H as [|b r Hb Hr IH]; [reflexivity|].
  cbn [length map le_word]. rewrite land_lanes by auto. now rewrite IH.
Qed.

(* ---- nonzero_lanes ---- *)
Definition nzadd (b : N) : N := N.land b 127 + 127.
Definition nzlane (b : N) : N := if b =? 0 then 0 else 128.

Lemma nzadd_fact : forallb (fun b => nzadd b <? 256) all_bytes = true.
Proof. vm_compute. reflexivity. Qed.

Lemma nzadd_lt256 b : b < 256 -> nzadd b < 256.
Proof. intros H. apply N.ltb_lt. exact (byte_forall _ nzadd_fact b H). Qed.

(* per-lane fact: the high bit of ((b & 0x7f) + 0x7f) | b is set iff b <> 0 *)
Lemma nz_lane_fact :
  forallb (fun b => N.land (N.lor (N.land b 127 + 127) b) 128 =? (if b =? 0 then 0 else 128))
          all_bytes = true.
Proof. vm_compute. reflexivity. Qed.

Lemma nz_lane b : b < 256 -> N.land (N.lor (nzadd b) b) 128 = nzlane b.
Proof. intros H. apply N.eqb_eq. exact (byte_forall _ nz_lane_fact b H). Qed.

(* the addition is lane-wise: (b & 0x7f) + 0x7f <= 0xfe never carries *)
Lemma nz_add_lanes bs : Forall (fun b => b < 256) bs ->
  N.land (le_word (length bs) bs) (le_word (length bs) (repeat 127 (length bs)))
  + le_word (length bs) (repeat 127 (length bs))
  = le_word (length bs) (map nzadd bs).
Proof.
  intros H. induction H as [|b r Hb Hr IH]; [reflexivity|].
  cbn [length repeat map le_word]. rewrite land_lanes by (assumption || reflexivity).
  rewrite add_lanes, IH. reflexivity.
Qed.

Lemma nz_or_and_lanes bs : Forall (fun b => b < 256) bs ->
  N.land (N.lor (le_word (length bs) (map nzadd bs)) (le_word (length bs) bs))
         (le_word (length bs) (repeat 128 (length bs)))
  = le_word (length bs) (map nzlane bs).
Proof.
  intros H. induction H as [|b r Hb Hr IH]; [reflexivity|].
  cbn [length repeat map le_word].
  rewrite lor_lanes by auto using nzadd_lt256.
  rewrite land_lanes by (auto using lor_lt256, nzadd_lt256; reflexivity).
  rewrite IH, nz_lane by assumption. reflexivity.
Qed.

Lemma nonzero_lanes_nzlane bs : bytes8 bs ->
  nonzero_lanes (le_word 8 bs) = le_word 8 (map nzlane bs).
Proof.
  intros [Hl Hf]. unfold nonzero_lanes, wadd, w64.
  rewrite !repeat_byte_lanes by reflexivity.
  pose proof (nz_add_lanes bs Hf) as HA. pose proof (nz_or_and_lanes bs Hf) as HB.
  rewrite Hl in HA, HB. rewrite HA.
  rewrite N.mod_small; [exact HB|].
  change W64 with (MM 8). apply le_word_lt. apply map_wf; [exact nzadd_lt256|exact Hf].
Qed.

(* bit 8i+7 is set iff lane i is nonzero, every other bit is clear *)
Theorem nonzero_lanes_spec : forall bs, bytes8 bs ->
  nonzero_lanes (le_word 8 bs) = le_word 8 (map (fun b => if b =? 0 then 0 else 128) bs).
Proof. exact nonzero_lanes_nzlane. Qed.
Print Assumptions nonzero_lanes_spec.

(* trailing zeros, bit by bit *)
Lemma tz_fuel_double f x : tz_fuel (S f) (2 * x) = 1 + tz_fuel f x.
Proof.
  cbn [tz_fuel]. replace (N.even (2 * x)) with true.
  - now rewrite N.mul_comm, N.div_mul by lia.
  - symmetry. apply N.even_spec. now exists x.
Qed.

Lemma tz_fuel_odd f x : tz_fuel (S f) (2 * x + 1) = 0.
Proof.
  cbn [tz_fuel]. destruct (N.even (2 * x + 1)) eqn:E; [|reflexivity].
  apply N.even_spec in E. destruct E as [y Hy]. lia.
Qed.

Fixpoint P2 (k : nat) : N := match k with O => 1 | S k => 2 * P2 k end.

(* a nonzero low part decides the count; the high part is irrelevant *)
Lemma tz_low k : forall c x f, c < P2 k -> c <> 0 ->
  tz_fuel (k + f) (c + P2 k * x) = tz_fuel k c.
Proof.
  induction k as [|k IH]; intros c x f Hc Hz; cbn [P2] in *; [lia|].
  cbn [Nat.add]. destruct (N.Even_or_Odd c) as [[c' ->]|[c' ->]].
  - replace (2 * c' + 2 * P2 k * x) with (2 * (c' + P2 k * x)) by lia.
    rewrite !tz_fuel_double. rewrite IH by lia. reflexivity.
  - replace (2 * c' + 1 + 2 * P2 k * x) with (2 * (c' + P2 k * x) + 1) by lia.
    now rewrite !tz_fuel_odd.
Qed.

Lemma tz_low8 c x f : c < 256 -> c <> 0 ->
  tz_fuel (8 + f) (c + 256 * x) = tz_fuel 8 c.
Proof. intros Hc Hz. exact (tz_low 8 c x f Hc Hz). Qed.

Lemma tz_256 f x : tz_fuel (8 + f) (256 * x) = 8 + tz_fuel f x.
Proof.
  replace (256 * x) with (2 * (2 * (2 * (2 * (2 * (2 * (2 * (2 * x)))))))) by lia.
  change (8 + f)%nat with (S (S (S (S (S (S (S (S f)))))))).
  rewrite !tz_fuel_double. lia.
Qed.

Lemma tz8_fact : forallb (fun c => (c =? 0) || (tz_fuel 8 c <? 8)) all_bytes = true.
Proof. vm_compute. reflexivity. Qed.

Lemma tz8_lt c : c < 256 -> c <> 0 -> tz_fuel 8 c < 8.
Proof.
  intros Hc Hz. pose proof (byte_forall _ tz8_fact c Hc) as H. cbv beta in H.
  destruct (N.eqb_spec c 0); [contradiction|]. cbn [orb] in H. now apply N.ltb_lt.
Qed.

(* byte index of the lowest nonzero lane *)
Lemma tz_list bs : Forall (fun b => b < 256) bs -> le_word (length bs) bs <> 0 ->
  N.shiftr (tz_fuel (8 * length bs) (le_word (length bs) bs)) 3
  = N.of_nat (length (take_while (fun b => b =? 0) bs)).
Proof.
  induction bs as [|b r IH]; intros H Hnz.
  - cbn [length le_word] in Hnz. contradiction.
  - inversion H; subst. cbn [length le_word take_while] in *.
    replace (8 * S (length r))%nat with (8 + 8 * length r)%nat by lia.
    rewrite N.shiftr_div_pow2. change (2 ^ 3) with 8.
    destruct (N.eqb_spec b 0) as [->|Hb].
    + rewrite N.add_0_l in *. rewrite tz_256.
      replace (8 + tz_fuel (8 * length r) (le_word (length r) r))
        with (tz_fuel (8 * length r) (le_word (length r) r) + 1 * 8) by lia.
      rewrite N.div_add by lia. rewrite <- (N.shiftr_div_pow2 _ 3).
      rewrite IH by (assumption || lia). cbn [length]. lia.
    + rewrite tz_low8 by assumption. rewrite N.div_small by (now apply tz8_lt).
      reflexivity.
Qed.

Lemma zero_list n bs : Forall (fun b => b < 256) bs -> length bs = n -> le_word n bs = 0 ->
  take_while (fun b => b =? 0) bs = bs.
Proof.
  revert bs. induction n as [|n IH]; intros bs H Hl Hz.
  - destruct bs; [reflexivity|discriminate].
  - destruct bs as [|b r]; [discriminate|]. inversion H; subst.
    cbn [le_word take_while length] in *.
    assert (b = 0) by lia. subst b. cbn [N.eqb]. f_equal. apply IH; [assumption|lia|lia].
Qed.

(* ---- leading_whitespace ---- *)
(* the lane of nonzero_lanes (v ^ rep 9) & nonzero_lanes (v ^ rep 10) *)
Definition lwl (b : N) : N := N.land (nzlane (N.lxor b 9)) (nzlane (N.lxor b 10)).

Lemma lwl_fact :
  forallb (fun b => Bool.eqb (lwl b =? 0) ((b =? 9) || (b =? 10)) && (lwl b <? 256))
          all_bytes = true.
Proof. vm_compute. reflexivity. Qed.

(* the lane is clear exactly for \t and \n *)
Lemma lwl_zero_iff b : b < 256 -> (lwl b =? 0) = (b =? 9) || (b =? 10).
Proof.
  intros H. pose proof (byte_forall _ lwl_fact b H) as F. cbv beta in F.
  apply andb_prop in F. apply eqb_prop, F.
Qed.

Lemma lwl_lt256 b : b < 256 -> lwl b < 256.
Proof.
  intros H. pose proof (byte_forall _ lwl_fact b H) as F. cbv beta in F.
  apply andb_prop in F. apply N.ltb_lt, F.
Qed.

Lemma nzlane_lt256 b : nzlane b < 256.
Proof. unfold nzlane. destruct (b =? 0); reflexivity. Qed.

Lemma lw_word_lanes bs : bytes8 bs ->
  N.land (nonzero_lanes (N.lxor (le_word 8 bs) (repeat_byte lw_byte1)))
         (nonzero_lanes (N.lxor (le_word 8 bs) (repeat_byte lw_byte2)))
  = le_word 8 (map lwl bs).
Proof.
  intros [Hl Hf]. unfold lw_byte1, lw_byte2.
  rewrite !repeat_byte_lanes by reflexivity.
  pose proof (lxor_repeat_lanes 9 bs eq_refl Hf) as H9.
  pose proof (lxor_repeat_lanes 10 bs eq_refl Hf) as H10.
  rewrite Hl in H9, H10. rewrite H9, H10.
  rewrite !nonzero_lanes_nzlane
    by (split; [now rewrite map_length|now apply map_lxor_wf]).
  rewrite !map_map.
  pose proof (land_map_lanes (fun b => nzlane (N.lxor b 9)) (fun b => nzlane (N.lxor b 10)) bs
                (fun b _ => nzlane_lt256 _) (fun b _ => nzlane_lt256 _) Hf) as HL.
  rewrite Hl in HL. exact HL.
Qed.

Theorem leading_whitespace_spec : forall bs, bytes8 bs ->
  leading_whitespace (le_word 8 bs)
  = N.of_nat (length (take_while (fun b => (b =? 9) || (b =? 10)) bs)).
Proof.
  intros bs Hb. unfold leading_whitespace. rewrite (lw_word_lanes bs Hb).
  destruct Hb as [Hl Hf].
  assert (Hmf : Forall (fun b => b < 256) (map lwl bs))
    by (apply map_wf; [exact lwl_lt256|exact Hf]).
  assert (Hml : length (map lwl bs) = 8%nat) by now rewrite map_length.
  rewrite <- (take_while_ext_wf (fun b => lwl b =? 0)) by (exact lwl_zero_iff || exact Hf).
  rewrite <- (take_while_map (fun c => c =? 0) lwl bs).
  unfold trailing_zeros. destruct (N.eqb_spec (le_word 8 (map lwl bs)) 0) as [E|E].
  - rewrite (zero_list 8 _ Hmf Hml E), Hml. reflexivity.
  - pose proof (tz_list (map lwl bs) Hmf) as T. rewrite Hml in T.
    change (8 * 8)%nat with 64%nat in T. apply T, E.
Qed.
Print Assumptions leading_whitespace_spec.

(* word form: the result is 8 when all eight lanes are whitespace *)
Theorem leading_whitespace_word : forall w, w < 2 ^ 64 ->
  leading_whitespace w
  = N.of_nat (length (take_while (fun b => (b =? 9) || (b =? 10)) (word_bytes 8 w))).
Proof.
  intros w Hw. rewrite <- (le_word_word_bytes8 w Hw) at 1.
  apply leading_whitespace_spec, word_bytes_bytes8.
Qed.
Print Assumptions leading_whitespace_word.

(* regression example for the former defect: 0x08 is no longer skipped *)
Example leading_whitespace_0x08 :
  leading_whitespace (le_word 8 [8; 97; 98; 99; 61; 49; 32; 32]) = 0.
Proof. vm_compute. reflexivity. Qed.
