(* C06 (binary half), byte-level clause: every token of an accepted binary tape is decoded from the
   input bytes at its position, in order, up to the end of the input -- for ALL byte strings, both
   interpretations (optimised / reference) and both values of fx.  Invariant of the (extended)
   reference machine of BinTapeSim: [lexes input (s_tape s) (s_data s)]. *)
From JV Require Import Bytes Tables BinPrim BinTape BinTapeWf BinTapePayload.
From JV.proofs Require Import BinTapeWfProofs BinTapeInv BinTapeSim.
Require Import Lia.
Open Scope nat_scope.

(* ------------------------------------------------------------------ lexes: algebra *)
Lemma lexes_app : forall d t1 m, lexes d t1 m -> forall t2 r, lexes m t2 r -> lexes d (t1 ++ t2) r.
Proof.
  induction 1; intros t2 r' H2; cbn [app]; auto.
  - eapply lx_skip; eauto.
  - eapply lx_scalar; eauto.
  - eapply lx_token; eauto.
  - eapply lx_array; eauto.
  - eapply lx_object; eauto.
  - eapply lx_end; eauto.
  - eapply lx_equal; eauto.
  - eapply lx_mixed; eauto.
Qed.

Lemma lexes_app_inv : forall d t r, lexes d t r -> forall t1 t2, t = t1 ++ t2 ->
  exists m, lexes d t1 m /\ lexes m t2 r.
Proof.
  induction 1; intros t1 t2 E.
  - symmetry in E. apply app_eq_nil in E. destruct E; subst. exists d. split; constructor.
  - destruct (IHlexes _ _ E) as (m & A & B). exists m. split; auto. eapply lx_skip; eauto.
  - destruct t1 as [|y t1]; cbn [app] in E.
    + subst t2. exists d. split; [constructor|]. eapply lx_scalar; eauto.
    + inversion E; subst. destruct (IHlexes _ _ eq_refl) as (m & A & B). exists m. split; auto. eapply lx_scalar; eauto.
  - destruct t1 as [|y t1]; cbn [app] in E.
    + subst t2. exists d. split; [constructor|]. eapply lx_token; eauto.
    + inversion E; subst. destruct (IHlexes _ _ eq_refl) as (m & A & B). exists m. split; auto. eapply lx_token; eauto.
  - destruct t1 as [|y t1]; cbn [app] in E.
    + subst t2. exists d. split; [constructor|]. eapply lx_array; eauto.
    + inversion E; subst. destruct (IHlexes _ _ eq_refl) as (m & A & B). exists m. split; auto. eapply lx_array; eauto.
  - destruct t1 as [|y t1]; cbn [app] in E.
    + subst t2. exists d. split; [constructor|]. eapply lx_object; eauto.
    + inversion E; subst. destruct (IHlexes _ _ eq_refl) as (m & A & B). exists m. split; auto. eapply lx_object; eauto.
  - destruct t1 as [|y t1]; cbn [app] in E.
    + subst t2. exists d. split; [constructor|]. eapply lx_end; eauto.
    + inversion E; subst. destruct (IHlexes _ _ eq_refl) as (m & A & B). exists m. split; auto. eapply lx_end; eauto.
  - destruct t1 as [|y t1]; cbn [app] in E.
    + subst t2. exists d. split; [constructor|]. eapply lx_equal; eauto.
    + inversion E; subst. destruct (IHlexes _ _ eq_refl) as (m & A & B). exists m. split; auto. eapply lx_equal; eauto.
  - destruct t1 as [|y t1]; cbn [app] in E.
    + subst t2. exists d. split; [constructor|]. eapply lx_mixed; eauto.
    + inversion E; subst. destruct (IHlexes _ _ eq_refl) as (m & A & B). exists m. split; auto. eapply lx_mixed; eauto.
Qed.

Lemma lexes_split : forall d t1 t2 r, lexes d (t1 ++ t2) r -> exists m, lexes d t1 m /\ lexes m t2 r.
Proof. intros. eapply lexes_app_inv; eauto. Qed.

Lemma lexeme_id : forall d id d1, read_id d = Ok (id, d1) -> lexeme d d1.
Proof. intros. exists id, d1. split; auto. Qed.

(* forgetting tokens: what they sat on becomes skipped lexemes *)
Lemma lexes_forget : forall d t r, lexes d t r -> lexes d [] r.
Proof.
  induction 1; auto.
  - constructor.
  - eapply lx_skip; eauto.
  - eapply lx_skip; [|exact IHlexes]. exists (id_of_kind k), d1. split; auto. right. eauto.
  - eapply lx_skip; [eapply lexeme_id; eauto|auto].
  - eapply lx_skip; [eapply lexeme_id; eauto|auto].
  - eapply lx_skip; [eapply lexeme_id; eauto|auto].
  - eapply lx_skip; [eapply lexeme_id; eauto|auto].
  - eapply lx_skip; [eapply lexeme_id; eauto|auto].
Qed.

Lemma lexes_snoc : forall d t m x r, lexes d t m -> lexes m [x] r -> lexes d (push t x) r.
Proof. intros. unfold push. eapply lexes_app; eauto. Qed.

Lemma lexes_skip_end : forall d t m r, lexes d t m -> lexeme m r -> lexes d t r.
Proof.
  intros d t m r H L. rewrite <- (app_nil_r t). eapply lexes_app; eauto. eapply lx_skip; eauto. constructor.
Qed.

(* rewriting a container start in place (end slot, Array -> Object) does not move it *)
Lemma lexes_upd : forall d t r, lexes d t r -> forall j c c',
  nth_error t j = Some c -> is_container c = true -> is_container c' = true -> lexes d (upd t j c') r.
Proof.
  induction 1; intros j c c' Hn Hc Hc'.
  - destruct j; discriminate.
  - eapply lx_skip; eauto.
  - destruct j; cbn [upd nth_error] in *.
    + inversion Hn; subst c. destruct k; cbn in H0;
        repeat match goal with
        | H : omap _ ?o = Ok _ |- _ => destruct o as [[? ?]| | | |]; cbn in H; try discriminate; inversion H; subst
        end; discriminate.
    + eapply lx_scalar; eauto.
  - destruct j; cbn [upd nth_error] in *.
    + inversion Hn; subst c. discriminate.
    + eapply lx_token; eauto.
  - destruct j; cbn [upd nth_error] in *.
    + destruct c'; try discriminate; [eapply lx_array|eapply lx_object]; eauto.
    + eapply lx_array; eauto.
  - destruct j; cbn [upd nth_error] in *.
    + destruct c'; try discriminate; [eapply lx_array|eapply lx_object]; eauto.
    + eapply lx_object; eauto.
  - destruct j; cbn [upd nth_error] in *.
    + inversion Hn; subst c. discriminate.
    + eapply lx_end; eauto.
  - destruct j; cbn [upd nth_error] in *.
    + inversion Hn; subst c. discriminate.
    + eapply lx_equal; eauto.
  - destruct j; cbn [upd nth_error] in *.
    + inversion Hn; subst c. discriminate.
    + eapply lx_mixed; eauto.
Qed.

(* ------------------------------------------------------------------ the ids behind the classes *)
Lemma classify_id : forall id,
  match classify id with
  | CU32 => id = L_U32 | CU64 => id = L_U64 | CI32 => id = L_I32 | CBool => id = L_BOOL
  | CQuoted => id = L_QUOTED | CUnquoted => id = L_UNQUOTED | CF32 => id = L_F32 | CF64 => id = L_F64
  | COpen => id = L_OPEN | CClose => id = L_CLOSE | CEqual => id = L_EQUAL | CRgb => id = L_RGB
  | CI64 => id = L_I64 | COther => True
  end.
Proof.
  intros id. unfold classify.
  repeat (match goal with |- context [N.eqb id ?c] => destruct (N.eqb_spec id c); cbv iota; [assumption|] end).
  exact I.
Qed.

(* ------------------------------------------------------------------ the tape operations *)
Lemma scalar_arm_lexes : forall input data id d k ps par t s',
  read_id data = Ok (id, d) -> id = id_of_kind k -> lexes input t data ->
  scalar_arm k d ps par t = Ok s' -> lexes input (s_tape s') (s_data s').
Proof.
  intros input data id d k ps par t s' Hr -> Hl H. unfold scalar_arm in H.
  destruct (read_scalar k d) as [[v r]| | | |] eqn:Er; try discriminate. cbn [obind] in H.
  rewrite next_state_ok in H. cbn [obind] in H. inversion H; subst; cbn [s_tape s_data].
  eapply lexes_snoc; eauto. eapply lx_scalar; eauto. constructor.
Qed.

Lemma token_arm_lexes : forall input data id d ps par t s',
  read_id data = Ok (id, d) -> lexes input t data ->
  (do ps' <- next_state ps; Ok (mkst d ps' par (push t (TToken id)))) = Ok s' ->
  lexes input (s_tape s') (s_data s').
Proof.
  intros input data id d ps par t s' Hr Hl H. rewrite next_state_ok in H. cbn [obind] in H.
  inversion H; subst; cbn [s_tape s_data]. eapply lexes_snoc; eauto. eapply lx_token; eauto. constructor.
Qed.

Lemma push_end_lexes : forall input data d par t r t',
  read_id data = Ok (L_CLOSE, d) -> lexes input t data ->
  push_end par t = Ok (r, t') -> lexes input t' d.
Proof.
  intros input data d par t r t' Hr Hl H. unfold push_end in H.
  destruct (nth_error t par) as [c|] eqn:En; [|discriminate].
  assert (G : forall c', is_container c = true -> is_container c' = true ->
              lexes input (push (upd t par c') (TEnd par)) d).
  { intros c' Hc Hc'. eapply lexes_snoc; [eapply lexes_upd; eauto|]. eapply lx_end; eauto. constructor. }
  destruct c; try discriminate; unfold push_end_fin in H;
    match type of H with context [nth_error ?tt ?g] => destruct (nth_error tt g) as [x|]; [|discriminate] end;
    destruct x; inversion H; subst; apply G; reflexivity.
Qed.

Lemma mixed_insert1_lexes : forall input data t t',
  lexes input t data -> mixed_insert1 t = Ok t' -> lexes input t' data.
Proof.
  intros input data t t' Hl H. unfold mixed_insert1 in H.
  destruct (pop t) as [[t1 s1]|] eqn:Ep; [|discriminate]. inversion H; subst. apply pop_some in Ep. subst t.
  destruct (lexes_split _ _ _ _ Hl) as (m & A & B). unfold push. rewrite <- app_assoc. cbn [app].
  eapply lexes_app; eauto. apply lx_mixed. exact B.
Qed.

Lemma mixed_insert2_lexes : forall input data t t',
  lexes input t data -> mixed_insert2 t = Ok t' -> lexes input t' data.
Proof.
  intros input data t t' Hl H. unfold mixed_insert2 in H.
  destruct (pop t) as [[t1 s1]|] eqn:Ep; [|discriminate]. apply pop_some in Ep. subst t.
  destruct (pop t1) as [[t2 s2]|] eqn:Ep2; [|discriminate]. apply pop_some in Ep2. subst t1.
  inversion H; subst.
  destruct (lexes_split _ _ _ _ Hl) as (m & A & B).
  destruct (lexes_split _ _ _ _ A) as (m2 & A2 & B2).
  unfold push. repeat rewrite <- app_assoc. cbn [app].
  eapply lexes_app; eauto. apply lx_mixed. change [s2; s1] with ([s2] ++ [s1]). eapply lexes_app; eauto.
Qed.

Lemma set_parent_lexes : forall input data par t t',
  lexes input t data -> set_parent_to_object par t = Ok t' -> lexes input t' data.
Proof.
  intros input data par t t' Hl H. unfold set_parent_to_object in H.
  destruct (nth_error t par) as [c|] eqn:En; [|discriminate]. destruct c; try discriminate.
  inversion H; subst. eapply lexes_upd; eauto.
Qed.

(* ------------------------------------------------------------------ one reference iteration *)
Lemma slow_ref_lexes : forall input data id d ps par t s',
  read_id data = Ok (id, d) -> lexes input t data ->
  slow false d id ps par t = Ok s' -> lexes input (s_tape s') (s_data s').
Proof.
  intros input data id d ps0 par t0 s' Hr Hl0 H. unfold slow in H.
  assert (exists ps t, (match ps0 with
                        | ObjectToArray => do t' <- mixed_insert2 t0; Ok (ArrayValueMixed, t')
                        | _ => Ok (ps0, t0) end) = Ok (ps, t) /\ lexes input t data)
    as (ps & t & E & Hl).
  { destruct ps0; try (eexists _, t0; split; [reflexivity|assumption]).
    destruct (mixed_insert2 t0) as [t1| | | |] eqn:Em; try discriminate.
    exists ArrayValueMixed, t1. split; auto. eapply mixed_insert2_lexes; eauto. }
  rewrite E in H. cbn [obind] in H. clear E Hl0.
  pose proof (classify_id id) as Hid.
  destruct (classify id) eqn:Ec;
    try (eapply scalar_arm_lexes; [exact Hr| |exact Hl|exact H]; subst id; reflexivity).
  - (* I32 *) destruct (scalar_arm KI32 d ps par t) as [s1| | | |] eqn:Es; try discriminate. cbn [obind] in H.
    inversion H; subst s1. eapply scalar_arm_lexes; [exact Hr| |exact Hl|exact Es]. subst id. reflexivity.
  - (* Open *) subst id.
    destruct (negb (is_key ps)).
    + inversion H; subst; cbn [s_tape s_data]. eapply lexes_snoc; eauto. eapply lx_array; eauto. constructor.
    + destruct t as [|a t']; [discriminate|].
      destruct (read_id d) as [[id2 nd]| | | |] eqn:Er2; try discriminate. cbn [obind] in H.
      destruct (N.eqb id2 L_CLOSE); inversion H; subst; cbn [s_tape s_data].
      eapply lexes_skip_end; [eapply lexes_skip_end; [exact Hl|]|]; eapply lexeme_id; eauto.
  - (* Close *) subst id.
    assert (exists t1, (match ps with KeyValueSeparator => mixed_insert1 t | ObjectValue => Err E_Syntax | _ => Ok t end) = Ok t1
                       /\ lexes input t1 data) as (t1 & E1 & Hl1).
    { destruct ps; try (exists t; split; auto; fail).
      - cbn [obind] in H. discriminate.
      - destruct (mixed_insert1 t) as [t1| | | |] eqn:Em; try discriminate.
        exists t1. split; auto. eapply mixed_insert1_lexes; eauto. }
    rewrite E1 in H. cbn [obind] in H.
    destruct (push_end par t1) as [[r t']| | | |] eqn:Ep; try discriminate. cbn [obind] in H.
    inversion H; subst; cbn [s_tape s_data]. eapply push_end_lexes; eauto.
  - (* Equal *) subst id.
    destruct ps; try discriminate.
    + (* ArrayValue *)
      destruct (pop t) as [[t1 last]|] eqn:Ep; [|discriminate]. apply pop_some in Ep. subst t.
      destruct (is_array_or_end last); [discriminate|].
      destruct (lexes_split _ _ _ _ Hl) as (m & A & B).
      destruct (only_empties par t1).
      * destruct (set_parent_to_object par t1) as [t2| | | |] eqn:Es; try discriminate. cbn [obind] in H.
        inversion H; subst; cbn [s_tape s_data].
        pose proof (set_parent_lexes _ _ _ _ _ A Es) as A2.
        rewrite <- (firstn_skipn (S par) t2) in A2.
        destruct (lexes_split _ _ _ _ A2) as (m1 & A3 & A4). apply lexes_forget in A4.
        eapply lexes_snoc; [exact A3|]. eapply lexes_app with (t1 := []); [exact A4|].
        eapply lexes_skip_end; [exact B|]. eapply lexeme_id; eauto.
      * inversion H; subst; cbn [s_tape s_data]. unfold push. repeat rewrite <- app_assoc. cbn [app].
        eapply lexes_app; [exact A|]. apply lx_mixed. change [last; TEqual] with ([last] ++ [TEqual]).
        eapply lexes_app; [exact B|]. eapply lx_equal; eauto. constructor.
    + (* ArrayValueMixed *) inversion H; subst; cbn [s_tape s_data]. eapply lexes_snoc; eauto. eapply lx_equal; eauto. constructor.
    + (* KeyValueSeparator *) inversion H; subst; cbn [s_tape s_data]. eapply lexes_skip_end; eauto. eapply lexeme_id; eauto.
    + (* OpenSecond *) destruct (set_parent_to_object par t) as [t1| | | |] eqn:Es; try discriminate. cbn [obind] in H.
      inversion H; subst; cbn [s_tape s_data]. eapply lexes_skip_end; [eapply set_parent_lexes; eauto|]. eapply lexeme_id; eauto.
  - (* Rgb *) subst id.
    destruct ps; try (eapply token_arm_lexes; eauto; fail).
    destruct (read_scalar KRgb d) as [[v r]| | | |] eqn:Er; try discriminate. cbn [obind] in H. inversion H; subst; cbn [s_tape s_data].
    eapply lexes_snoc; eauto. eapply (lx_scalar _ _ _ KRgb); eauto. constructor.
  - (* Other *) eapply token_arm_lexes; eauto.
Qed.

(* ------------------------------------------------------------------ the extended reference machine *)
Definition PInv (input : bytes) (s : st) : Prop := lexes input (s_tape s) (s_data s).

Lemma xstep_lexes : forall fx input s s', PInv input s -> xstep fx s s' -> PInv input s'.
Proof.
  intros fx input s s' HP [H|[_ (d & Hr & _ & ->)]]; unfold PInv in *.
  - destruct (get_split 2 (s_data s)) as [[h d]|] eqn:Eg.
    + rewrite (iter_ref_unfold _ _ _ Eg) in H.
      destruct (slow false d (le_word 2 h) (s_ps s) (s_par s) (s_tape s)) as [s1| | | |] eqn:E; try discriminate.
      inversion H; subst. eapply slow_ref_lexes; eauto. apply split_read_id; auto.
    + unfold iter in H. rewrite Eg in H. discriminate.
  - cbn [s_tape s_data]. eapply lexes_snoc; eauto. eapply lx_token; eauto. constructor.
Qed.

Lemma xstar_lexes : forall fx input s s', xstar fx s s' -> PInv input s -> PInv input s'.
Proof. induction 1; intros; auto. apply IHxstar. eapply xstep_lexes; eauto. Qed.

Lemma finish_lexes : forall input s t, PInv input s -> iter false false s = Done (Ok t) ->
  payloads_in_input input t.
Proof.
  intros input s t HP H. unfold PInv in HP.
  destruct (get_split 2 (s_data s)) as [[h d]|] eqn:Eg.
  - rewrite (iter_ref_unfold _ _ _ Eg) in H.
    destruct (slow false d (le_word 2 h) (s_ps s) (s_par s) (s_tape s)); discriminate.
  - pose proof (iter_ref_done_ok _ _ H) as Hf. unfold finish in Hf.
    destruct (s_par s); [|discriminate]. destruct (s_ps s); try discriminate. inversion Hf; subst t.
    exists (s_data s). split; auto.
    unfold get_split in Eg. destruct (Nat.leb 2 (length (s_data s))) eqn:El; [discriminate|].
    apply Nat.leb_gt in El. exact El.
Qed.

Lemma PInv_init : forall d, PInv d (init d).
Proof. intros. unfold PInv. cbn. constructor. Qed.

Lemma loop_ref_lexes : forall fx input f s t, PInv input s -> loop fx false f s = Ok t -> payloads_in_input input t.
Proof.
  intros fx input. induction f; intros s t HP H; [discriminate|]. cbn [loop] in H. rewrite iter_fx_irrelevant in H.
  destruct (iter false false s) as [s'|r] eqn:E.
  - apply (IHf s'); auto. eapply xstep_lexes with (fx := true); eauto. left. exact E.
  - subst r. eapply finish_lexes; eauto.
Qed.

(* ALL byte strings, both interpretations, the code as it is (fx = false) and with the I64
   exclusion (fx = true) *)
Theorem parse_payloads : forall fx opt d t, parse fx opt d = Ok t -> payloads_in_input d t.
Proof.
  intros fx opt d t H. unfold parse in H. destruct opt.
  - pose proof (opt_halts fx (S (length d)) (init d) (Inv_init d) (Nat.lt_succ_diag_r _)) as Hh.
    rewrite H in Hh. destruct Hh as (s' & r & A & B & C). destruct r; try discriminate. inversion C; subst.
    eapply finish_lexes; [eapply xstar_lexes; eauto; apply PInv_init | exact B].
  - eapply loop_ref_lexes; eauto. apply PInv_init.
Qed.
