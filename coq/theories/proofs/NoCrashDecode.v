(* The two string decoders of Encoding.v return real bytes (< 256) on real bytes: the missing half
   of NoCrashBinDe.cfg_ok / of the decoder hypothesis of the text walk (totality is C12). *)
From JV.proofs Require Import SwarLanes Utf8Proofs EncodingProofs.
From JV Require Import Bytes Tables Utf8 Encoding.
From Coq Require Import List NArith Bool Lia.
Import ListNotations.
Open Scope N_scope.

Lemma encode_utf8_wfl x : x < 1114112 -> wfl (encode_utf8 x).
Proof.
  intros Hx. unfold encode_utf8.
  destruct (x <? 128) eqn:E1. { apply N.ltb_lt in E1. repeat constructor. lia. }
  destruct (x <? 2048) eqn:E2.
  { apply N.ltb_lt in E2. assert (x / 64 < 32) by (apply N.div_lt_upper_bound; lia).
    pose proof (N.mod_upper_bound x 64 ltac:(lia)). repeat constructor; lia. }
  destruct (x <? 65536) eqn:E3.
  { apply N.ltb_lt in E3. assert (x / 4096 < 16) by (apply N.div_lt_upper_bound; lia).
    pose proof (N.mod_upper_bound x 64 ltac:(lia)). pose proof (N.mod_upper_bound (x / 64) 64 ltac:(lia)).
    repeat constructor; lia. }
  assert (x / 262144 < 5) by (apply N.div_lt_upper_bound; lia).
  pose proof (N.mod_upper_bound x 64 ltac:(lia)). pose proof (N.mod_upper_bound (x / 64) 64 ltac:(lia)).
  pose proof (N.mod_upper_bound (x / 4096) 64 ltac:(lia)). repeat constructor; lia.
Qed.

Lemma scalar_lt x : is_scalar_value x = true -> x < 1114112.
Proof.
  unfold is_scalar_value. intros H. apply orb_true_iff in H as [H|H].
  - apply N.ltb_lt in H. lia.
  - apply andb_true_iff in H as [_ H]. apply N.ltb_lt in H. exact H.
Qed.

Theorem w1252_reference_wfl d : wfl d -> wfl (w1252_reference d).
Proof.
  intros Hd. unfold w1252_reference.
  pose proof (unescape_wf _ (trim_wf _ Hd)) as Hw. unfold wf_bytes in Hw.
  induction Hw as [|c l Hc Hl IH]; cbn [flat_map]; [constructor|].
  apply Forall_app. split; [|exact IH]. apply encode_utf8_wfl, scalar_lt, w1252_scalar. exact Hc.
Qed.

Lemma wfl_replacement : wfl REPLACEMENT.
Proof. repeat constructor. Qed.

Lemma lossy_wfl_aux n : forall d, (length d <= n)%nat -> wfl d -> wfl (lossy d).
Proof.
  induction n as [|n IH]; intros d Hl Hd.
  { destruct d; [constructor|cbn in Hl; lia]. }
  destruct d as [|b r]; [constructor|]. cbn [length] in Hl. inversion Hd as [|? ? Hb Hr]; subst.
  assert (Hrep : forall l, (length l <= n)%nat -> wfl l -> wfl (REPLACEMENT ++ lossy l)).
  { intros l H1 H2. apply Forall_app. split; [apply wfl_replacement|apply IH; assumption]. }
  cbn [lossy].
  destruct (b <? 128). { constructor; [exact Hb|apply IH; [lia|exact Hr]]. }
  destruct (utf8_char_width b =? 2).
  { destruct r as [|c1 r1]; [apply wfl_replacement|]. inversion Hr as [|? ? Hc1 Hr1]; subst. cbn [length] in Hl.
    destruct (is_cont c1); [repeat (constructor; [assumption|]); apply IH; [lia|exact Hr1]|apply Hrep; [cbn; lia|exact Hr]]. }
  destruct (utf8_char_width b =? 3).
  { destruct r as [|c1 r1]; [apply wfl_replacement|]. inversion Hr as [|? ? Hc1 Hr1]; subst. cbn [length] in Hl.
    destruct (second3 b c1); [|apply Hrep; [cbn; lia|exact Hr]].
    destruct r1 as [|c2 r2]; [apply wfl_replacement|]. inversion Hr1 as [|? ? Hc2 Hr2]; subst. cbn [length] in Hl.
    destruct (is_cont c2); [repeat (constructor; [assumption|]); apply IH; [lia|exact Hr2]|apply Hrep; [cbn; lia|exact Hr1]]. }
  destruct (utf8_char_width b =? 4).
  { destruct r as [|c1 r1]; [apply wfl_replacement|]. inversion Hr as [|? ? Hc1 Hr1]; subst. cbn [length] in Hl.
    destruct (second4 b c1); [|apply Hrep; [cbn; lia|exact Hr]].
    destruct r1 as [|c2 r2]; [apply wfl_replacement|]. inversion Hr1 as [|? ? Hc2 Hr2]; subst. cbn [length] in Hl.
    destruct (is_cont c2); [|apply Hrep; [cbn; lia|exact Hr1]].
    destruct r2 as [|c3 r3]; [apply wfl_replacement|]. inversion Hr2 as [|? ? Hc3 Hr3]; subst. cbn [length] in Hl.
    destruct (is_cont c3); [repeat (constructor; [assumption|]); apply IH; [lia|exact Hr3]|apply Hrep; [cbn; lia|exact Hr2]]. }
  apply Hrep; [lia|exact Hr].
Qed.

Theorem utf8_reference_wfl d : wfl d -> wfl (utf8_reference d).
Proof.
  intros Hd. unfold utf8_reference. apply (lossy_wfl_aux _ _ (le_n _)). apply (unescape_wf _ (trim_wf _ Hd)).
Qed.

(* the decoders as the glue / the flavors use them *)
Theorem decode_w1252_wfl d : wfl d ->
  match omap cow_bytes (decode_windows1252 d) with Ok s => wfl s | Err _ => True | _ => False end.
Proof.
  intros Hd. destruct (w1252_spec d) as (c & -> & E & _). cbn. rewrite E. apply w1252_reference_wfl. exact Hd.
Qed.

Theorem decode_utf8_wfl d : wfl d ->
  match omap cow_bytes (decode_utf8 d) with Ok s => wfl s | Err _ => True | _ => False end.
Proof.
  intros Hd. destruct (utf8_spec d Hd) as (c & -> & E & _). cbn. rewrite E. apply utf8_reference_wfl. exact Hd.
Qed.
