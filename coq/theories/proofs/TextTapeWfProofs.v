(* C06 (text half), part 1: list/tape lemmas, the grammar [closed], closed 0 t -> tape_wf t,
   and the boolean checker's specification. *)
From JV Require Import Bytes Tables TextTok TextTape TextTapeWf.
Require Import Lia.
Open Scope nat_scope.

(* ---------- nth_error helpers ---------- *)
Lemma nth_error_mid : forall (A : Type) (a : list A) y b k,
  nth_error (a ++ y :: b) k =
  if Nat.ltb k (length a) then nth_error a k
  else if Nat.eqb k (length a) then Some y
  else nth_error b (k - S (length a)).
Proof.
  intros A a y b k.
  destruct (Nat.ltb_spec k (length a)) as [H|H].
  - apply nth_error_app1; exact H.
  - rewrite nth_error_app2 by exact H.
    destruct (Nat.eqb_spec k (length a)) as [E|E].
    + subst. rewrite Nat.sub_diag. reflexivity.
    + destruct (k - length a) as [|m] eqn:Em; [lia|].
      cbn [nth_error]. f_equal. lia.
Qed.

Lemma nth_error_snoc_len : forall (A : Type) (a : list A) y, nth_error (a ++ [y]) (length a) = Some y.
Proof. intros. rewrite nth_error_app2 by lia. rewrite Nat.sub_diag. reflexivity. Qed.

Lemma list_last_cases : forall (A : Type) (l : list A), l = [] \/ exists l' y, l = l' ++ [y].
Proof.
  intros A l. destruct l as [|a l]; [left; reflexivity|right].
  destruct (@exists_last A (a :: l)) as (l' & y & E); [discriminate|]. eauto.
Qed.

Lemma plain_not_cont : forall x, plainb x = true -> cont_end x = None.
Proof. destruct x; cbn; congruence. Qed.

Lemma cont_not_plain : forall x e, cont_end x = Some e -> plainb x = false.
Proof. destruct x; cbn; congruence. Qed.

(* ---------- closed: composition ---------- *)
Lemma closed_app : forall off l1, closed off l1 -> forall l2, closed (off + length l1) l2 -> closed off (l1 ++ l2).
Proof.
  induction 1 as [off|off x l Hx Hl IH|off c body rest Hoff Hc Hb IHb Hr IHr]; intros l2 H2.
  - cbn in *. rewrite Nat.add_0_r in H2. exact H2.
  - cbn [app]. apply cl_plain; [exact Hx|]. apply IH.
    cbn [length] in H2. replace (S off + length l) with (off + S (length l)) by lia. exact H2.
  - cbn [app]. rewrite <- app_assoc. cbn [app].
    apply cl_cont; try assumption.
    apply IHr.
    replace (off + 2 + length body + length rest) with (off + length (c :: body ++ TEnd off :: rest)); [exact H2|].
    cbn [length]. rewrite app_length. cbn [length]. lia.
Qed.

Lemma closed_one_plain : forall off x, plainb x = true -> closed off [x].
Proof. intros. apply cl_plain; [assumption|apply cl_nil]. Qed.

Lemma closed_snoc_inv : forall off l0, closed off l0 -> forall l x, l0 = l ++ [x] -> plainb x = true -> closed off l.
Proof.
  induction 1 as [off|off y l0 Hy Hl IH|off c body rest Hoff Hc Hb IHb Hr IHr]; intros l x E Hx.
  - destruct l; discriminate.
  - destruct l as [|a l].
    + apply cl_nil.
    + cbn [app] in E. injection E as -> E. apply cl_plain; [exact Hy|]. eapply IH; eauto.
  - destruct l as [|a l].
    + cbn in E. injection E as _ E. destruct body; discriminate.
    + cbn [app] in E. injection E as -> E.
      destruct (list_last_cases _ rest) as [->|(rest' & y & ->)].
      * exfalso.
        assert (E' : (body ++ [TEnd off]) = l ++ [x]) by exact E.
        apply app_inj_tail in E'. destruct E' as [_ E']. subst x. discriminate.
      * assert (E' : (body ++ TEnd off :: rest') ++ [y] = l ++ [x]).
        { rewrite <- app_assoc. exact E. }
        apply app_inj_tail in E'. destruct E' as [E1 E2]. subst y l.
        apply cl_cont; try assumption. eapply IHr; eauto.
Qed.

(* ---------- closed: the index properties ---------- *)
Lemma closed_fwd : forall off l, closed off l ->
  forall k x e, nth_error l k = Some x -> cont_end x = Some e ->
    off + k < e /\ e < off + length l /\ nth_error l (e - off) = Some (TEnd (off + k)).
Proof.
  induction 1 as [off|off y l Hy Hl IH|off c body rest Hoff Hc Hb IHb Hr IHr]; intros k x e Hk He.
  - destruct k; discriminate.
  - destruct k as [|k].
    + cbn in Hk. injection Hk as ->. rewrite (plain_not_cont _ Hy) in He. discriminate.
    + cbn [nth_error] in Hk. destruct (IH _ _ _ Hk He) as (A & B & C).
      cbn [length]. repeat split; try lia.
      replace (e - off) with (S (e - S off)) by lia. cbn [nth_error].
      rewrite C. f_equal. f_equal. lia.
  - destruct k as [|k].
    + cbn in Hk. injection Hk as ->. rewrite Hc in He. injection He as <-.
      cbn [length]. rewrite app_length. cbn [length]. repeat split; try lia.
      replace (off + 1 + length body - off) with (S (length body)) by lia.
      cbn [nth_error]. rewrite nth_error_mid.
      rewrite Nat.ltb_irrefl, Nat.eqb_refl. f_equal. f_equal. lia.
    + cbn [nth_error] in Hk. rewrite nth_error_mid in Hk.
      cbn [length]. rewrite app_length. cbn [length].
      destruct (Nat.ltb_spec k (length body)) as [Hlt|Hge].
      * destruct (IHb _ _ _ Hk He) as (A & B & C).
        repeat split; try lia.
        replace (e - off) with (S (e - S off)) by lia. cbn [nth_error].
        rewrite nth_error_mid.
        destruct (Nat.ltb_spec (e - S off) (length body)); [|lia].
        rewrite C. f_equal. f_equal. lia.
      * destruct (Nat.eqb_spec k (length body)) as [Ek|Ek].
        { injection Hk as <-. discriminate. }
        destruct (IHr _ _ _ Hk He) as (A & B & C).
        repeat split; try lia.
        replace (e - off) with (S (e - S off)) by lia. cbn [nth_error].
        rewrite nth_error_mid.
        destruct (Nat.ltb_spec (e - S off) (length body)); [lia|].
        destruct (Nat.eqb_spec (e - S off) (length body)); [lia|].
        replace (e - S off - S (length body)) with (e - (off + 2 + length body)) by lia.
        rewrite C. f_equal. f_equal. lia.
Qed.

Lemma closed_back : forall off l, closed off l ->
  forall k j, nth_error l k = Some (TEnd j) ->
    off <= j /\ j < off + k /\ exists x, nth_error l (j - off) = Some x /\ cont_end x = Some (off + k).
Proof.
  induction 1 as [off|off y l Hy Hl IH|off c body rest Hoff Hc Hb IHb Hr IHr]; intros k j Hk.
  - destruct k; discriminate.
  - destruct k as [|k].
    + cbn in Hk. injection Hk as ->. discriminate.
    + cbn [nth_error] in Hk. destruct (IH _ _ Hk) as (A & B & x & C & D).
      repeat split; try lia. exists x. split.
      * replace (j - off) with (S (j - S off)) by lia. exact C.
      * rewrite D. f_equal. lia.
  - destruct k as [|k].
    + cbn in Hk. injection Hk as ->. discriminate.
    + cbn [nth_error] in Hk. rewrite nth_error_mid in Hk.
      destruct (Nat.ltb_spec k (length body)) as [Hlt|Hge].
      * destruct (IHb _ _ Hk) as (A & B & x & C & D).
        repeat split; try lia. exists x. split.
        { replace (j - off) with (S (j - S off)) by lia. cbn [nth_error].
          rewrite nth_error_mid.
          destruct (Nat.ltb_spec (j - S off) (length body)); [exact C|lia]. }
        rewrite D. f_equal. lia.
      * destruct (Nat.eqb_spec k (length body)) as [Ek|Ek].
        { injection Hk as <-. subst k. repeat split; try lia.
          exists c. rewrite Nat.sub_diag. split; [reflexivity|]. rewrite Hc. f_equal. lia. }
        destruct (IHr _ _ Hk) as (A & B & x & C & D).
        repeat split; try lia. exists x. split.
        { replace (j - off) with (S (j - S off)) by lia. cbn [nth_error].
          rewrite nth_error_mid.
          destruct (Nat.ltb_spec (j - S off) (length body)); [lia|].
          destruct (Nat.eqb_spec (j - S off) (length body)); [lia|].
          replace (j - S off - S (length body)) with (j - (off + 2 + length body)) by lia.
          exact C. }
        rewrite D. f_equal. lia.
Qed.

Lemma closed_nz : forall off l, closed off l ->
  Forall (fun x => cont_end x <> Some 0 /\ x <> TEnd 0) l.
Proof.
  induction 1 as [off|off y l Hy Hl IH|off c body rest Hoff Hc Hb IHb Hr IHr].
  - constructor.
  - constructor; [|exact IH]. rewrite (plain_not_cont _ Hy). split; [discriminate|].
    intros ->. discriminate.
  - constructor.
    + rewrite Hc. split; [intros E; injection E; lia|]. intros ->. discriminate.
    + apply Forall_app. split; [exact IHb|]. constructor; [|exact IHr].
      split; [discriminate|]. intros E. injection E. exact Hoff.
Qed.

Lemma closed_nest : forall off l, closed off l ->
  forall stk rest, nest_ok (l ++ rest) off stk = nest_ok rest (off + length l) stk.
Proof.
  induction 1 as [off|off y l Hy Hl IH|off c body rest0 Hoff Hc Hb IHb Hr IHr]; intros stk rest.
  - cbn. rewrite Nat.add_0_r. reflexivity.
  - cbn [app length].
    replace (off + S (length l)) with (S off + length l) by lia.
    rewrite <- IH. destruct y; cbn in Hy; try discriminate; reflexivity.
  - cbn [app]. rewrite <- app_assoc. cbn [app].
    assert (Hn : forall r, nest_ok (c :: r) off stk = nest_ok r (S off) (off :: stk)).
    { intros r. destruct c; cbn in Hc; try discriminate; reflexivity. }
    rewrite Hn. rewrite IHb. cbn [nest_ok]. rewrite Nat.eqb_refl. cbn [andb].
    replace (S (S off + length body)) with (off + 2 + length body) by lia.
    rewrite IHr. f_equal.
    cbn [length]. rewrite app_length. cbn [length]. lia.
Qed.

Theorem closed_tape_wf : forall t, closed 0 t -> tape_wf t.
Proof.
  intros t H. repeat split.
  - destruct (closed_fwd _ _ H _ _ _ H0 H1) as (A & B & C). lia.
  - destruct (closed_fwd _ _ H _ _ _ H0 H1) as (A & B & C). lia.
  - destruct (closed_fwd _ _ H _ _ _ H0 H1) as (A & B & C).
    rewrite Nat.sub_0_r in C. exact C.
  - intros e j Hj. destruct (closed_back _ _ H _ _ Hj) as (A & B & x & C & D).
    rewrite Nat.sub_0_r in C. exists x. split; assumption.
  - pose proof (closed_nest _ _ H [] []) as E. rewrite app_nil_r in E. rewrite E. reflexivity.
  - pose proof (closed_nz _ _ H) as F. rewrite Forall_forall in F.
    apply F. eapply nth_error_In; eauto.
  - pose proof (closed_nz _ _ H) as F. rewrite Forall_forall in F.
    apply F. eapply nth_error_In; eauto.
Qed.

(* ---------- boolean checker ---------- *)
Lemma all_okb_spec : forall t l i,
  all_okb t l i = true <-> (forall k x, nth_error l k = Some x -> tok_okb t (i + k) x = true).
Proof.
  intros t l. induction l as [|a l IH]; intros i; cbn [all_okb].
  - split; [|reflexivity]. intros _ k x Hk. destruct k; discriminate.
  - rewrite andb_true_iff, IH. split.
    + intros [Ha Hl] k x Hk. destruct k as [|k].
      * injection Hk as <-. rewrite Nat.add_0_r. exact Ha.
      * cbn [nth_error] in Hk. replace (i + S k) with (S i + k) by lia. apply Hl. exact Hk.
    + intros H. split.
      * specialize (H 0 a eq_refl). rewrite Nat.add_0_r in H. exact H.
      * intros k x Hk. specialize (H (S k) x Hk).
        replace (i + S k) with (S i + k) in H by lia. exact H.
Qed.

Lemma tok_okb_spec : forall t,
  (forall i x, nth_error t i = Some x -> tok_okb t i x = true) <->
  (links_fwd t /\ links_back t /\ no_zero t).
Proof.
  intros t. split.
  - intros H. split; [|split].
    + intros i x e Hi He. specialize (H i x Hi).
      assert (G : (Nat.ltb i e && Nat.ltb e (length t) && negb (Nat.eqb e 0) &&
                   match nth_error t e with Some (TEnd j) => Nat.eqb j i | _ => false end) = true).
      { destruct x; cbn in He; try discriminate; injection He as <-; exact H. }
      rewrite !andb_true_iff in G. destruct G as (((A & B) & C) & D).
      apply Nat.ltb_lt in A. apply Nat.ltb_lt in B.
      repeat split; try assumption.
      destruct (nth_error t e) as [[]|]; try discriminate.
      apply Nat.eqb_eq in D. subst. reflexivity.
    + intros e j Hj. specialize (H e _ Hj). cbn [tok_okb] in H.
      rewrite andb_true_iff in H. destruct H as [_ H].
      destruct (nth_error t j) as [y|]; [|discriminate].
      exists y. split; [reflexivity|].
      destruct (cont_end y) as [e'|]; [|discriminate].
      apply Nat.eqb_eq in H. subst. reflexivity.
    + intros i x Hi. specialize (H i x Hi). split.
      * intros E. destruct x; cbn in E; try discriminate; injection E as ->; cbn [tok_okb] in H;
          rewrite !andb_true_iff in H; destruct H as (((_ & _) & C) & _); discriminate.
      * intros ->. cbn [tok_okb] in H. discriminate.
  - intros (F & B & Z) i x Hi.
    destruct x; try reflexivity.
    + destruct (F i _ e Hi eq_refl) as (A1 & A2 & A3). destruct (Z i _ Hi) as [Z1 _].
      cbn [tok_okb]. rewrite A3, Nat.eqb_refl.
      apply Nat.ltb_lt in A1. apply Nat.ltb_lt in A2. rewrite A1, A2.
      destruct (Nat.eqb_spec e 0); [subst; exfalso; apply Z1; reflexivity|reflexivity].
    + destruct (F i _ e Hi eq_refl) as (A1 & A2 & A3). destruct (Z i _ Hi) as [Z1 _].
      cbn [tok_okb]. rewrite A3, Nat.eqb_refl.
      apply Nat.ltb_lt in A1. apply Nat.ltb_lt in A2. rewrite A1, A2.
      destruct (Nat.eqb_spec e 0); [subst; exfalso; apply Z1; reflexivity|reflexivity].
    + destruct (B _ _ Hi) as (y & Hy & Ey). destruct (Z i _ Hi) as [_ Z2].
      cbn [tok_okb]. rewrite Hy, Ey, Nat.eqb_refl.
      destruct (Nat.eqb_spec i0 0); [subst; exfalso; apply Z2; reflexivity|reflexivity].
Qed.

Theorem tape_wfb_spec : forall t, tape_wfb t = true <-> tape_wf t.
Proof.
  intros t. unfold tape_wfb, tape_wf. rewrite andb_true_iff, all_okb_spec.
  cbn [Nat.add]. rewrite tok_okb_spec. tauto.
Qed.

(* ---------- the stack checker and the grammar define the same tapes ---------- *)
Lemma nest_decomp : forall n t l pos stk, length l <= n ->
  (forall k y, nth_error l k = Some y -> nth_error t (pos + k) = Some y) ->
  links_back t -> no_zero t ->
  nest_ok l pos stk = true ->
  exists V rest, l = V ++ rest /\ closed pos V /\
    match stk with
    | [] => rest = []
    | top :: stk' => exists rest', rest = TEnd top :: rest' /\
                                   nest_ok rest' (pos + length V + 1) stk' = true
    end.
Proof.
  induction n as [|n IH]; intros t l pos stk Ln Seg LB NZ H.
  - destruct l; [|cbn in Ln; lia]. cbn in H. destruct stk; [|discriminate].
    exists [], []. repeat split. apply cl_nil.
  - destruct l as [|x r].
    { cbn in H. destruct stk; [|discriminate]. exists [], []. repeat split. apply cl_nil. }
    cbn [length] in Ln.
    assert (Seg' : forall k y, nth_error r k = Some y -> nth_error t (S pos + k) = Some y).
    { intros k y Hk. replace (S pos + k) with (pos + S k) by lia. apply Seg. exact Hk. }
    assert (Plain : plainb x = true -> nest_ok r (S pos) stk = true ->
      exists V rest, x :: r = V ++ rest /\ closed pos V /\
        match stk with
        | [] => rest = []
        | top :: stk' => exists rest', rest = TEnd top :: rest' /\
                                       nest_ok rest' (pos + length V + 1) stk' = true
        end).
    { intros Px Hr.
      destruct (IH t r (S pos) stk ltac:(lia) Seg' LB NZ Hr) as (V & rest & -> & CV & M).
      exists (x :: V), rest. split; [reflexivity|]. split; [apply cl_plain; assumption|].
      destruct stk as [|top stk']; [exact M|].
      destruct M as (rest' & -> & M). exists rest'. split; [reflexivity|].
      cbn [length]. replace (pos + S (length V) + 1) with (S pos + length V + 1) by lia. exact M. }
    assert (Cont : forall e, cont_end x = Some e -> nest_ok r (S pos) (pos :: stk) = true ->
      exists V rest, x :: r = V ++ rest /\ closed pos V /\
        match stk with
        | [] => rest = []
        | top :: stk' => exists rest', rest = TEnd top :: rest' /\
                                       nest_ok rest' (pos + length V + 1) stk' = true
        end).
    { intros e He Hr.
      destruct (IH t r (S pos) (pos :: stk) ltac:(lia) Seg' LB NZ Hr) as (body & rest0 & -> & CB & rest1 & -> & M1).
      assert (L1 : length rest1 <= n).
      { rewrite app_length in Ln. cbn [length] in Ln. lia. }
      assert (Seg1 : forall k y, nth_error rest1 k = Some y ->
                nth_error t (S pos + length body + 1 + k) = Some y).
      { intros k y Hk. replace (S pos + length body + 1 + k) with (S pos + (length body + 1 + k)) by lia.
        apply Seg'. rewrite nth_error_mid.
        destruct (Nat.ltb_spec (length body + 1 + k) (length body)); [lia|].
        destruct (Nat.eqb_spec (length body + 1 + k) (length body)); [lia|].
        replace (length body + 1 + k - S (length body)) with k by lia. exact Hk. }
      destruct (IH t rest1 (S pos + length body + 1) stk L1 Seg1 LB NZ M1) as (V2 & rest2 & -> & CV2 & M2).
      assert (HEnd : nth_error t (pos + 1 + length body) = Some (TEnd pos)).
      { replace (pos + 1 + length body) with (S pos + length body) by lia. apply Seg'.
        rewrite nth_error_mid, Nat.ltb_irrefl, Nat.eqb_refl. reflexivity. }
      assert (Hx : nth_error t pos = Some x).
      { replace pos with (pos + 0) at 1 by lia. apply Seg. reflexivity. }
      exists (x :: body ++ TEnd pos :: V2), rest2. split.
      { cbn [app]. rewrite <- app_assoc. reflexivity. }
      split.
      { apply cl_cont.
        - destruct (NZ _ _ HEnd) as [_ Z]. intros ->. apply Z. reflexivity.
        - destruct (LB _ _ HEnd) as (x' & Hx' & He'). congruence.
        - exact CB.
        - replace (pos + 2 + length body) with (S pos + length body + 1) by lia. exact CV2. }
      destruct stk as [|top stk']; [exact M2|].
      destruct M2 as (rest' & -> & M2). exists rest'. split; [reflexivity|].
      cbn [length]. rewrite app_length. cbn [length].
      replace (pos + S (length body + S (length V2)) + 1) with (S pos + length body + 1 + length V2 + 1) by lia.
      exact M2. }
    destruct x; try (apply Plain; [reflexivity|exact H]).
    + eapply Cont; [reflexivity|exact H].
    + eapply Cont; [reflexivity|exact H].
    + cbn [nest_ok] in H. destruct stk as [|top stk']; [discriminate|].
      apply andb_true_iff in H. destruct H as [E H]. apply Nat.eqb_eq in E. subst i.
      exists [], (TEnd top :: r). split; [reflexivity|]. split; [apply cl_nil|].
      exists r. split; [reflexivity|]. cbn [length]. replace (pos + 0 + 1) with (S pos) by lia. exact H.
Qed.

Theorem tape_wf_closed : forall t, tape_wf t -> closed 0 t.
Proof.
  intros t (F & B & N & Z).
  destruct (nest_decomp (length t) t t 0 [] (le_n _) ltac:(intros k y Hk; exact Hk) B Z N) as (V & rest & -> & C & ->).
  rewrite app_nil_r. exact C.
Qed.

Theorem tape_wf_iff_closed : forall t, tape_wf t <-> closed 0 t.
Proof. intros t. split; [apply tape_wf_closed|apply closed_tape_wf]. Qed.
